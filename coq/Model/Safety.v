(** C17 — flat (L0) models of the compiled kernels with CHECKED accesses and explicit fuel.
    Definitions only (no proofs).

    Every array is a [list]; its length is the SIZE of the buffer the kernel was given. Every read goes
    through [rd] and every write through [wr]: an index outside [0, size) makes the whole call return
    [OOB] (the compiled kernels have boundscheck(False): there the same access is undefined behaviour).
    Every [while] loop / recursion takes an explicit [fuel]; running out of it is [OutOfFuel], distinct
    from a normal result [KOk]. [for x in range(..)] loops are structural recursions on the list of the
    iteration values and need no fuel.

    Indices (C [int]) are [nat] where the caller's contract makes them non-negative (CSR arrays coming
    from scipy), [Z] where the code itself produces negative values ([parent(0) = -1], labels = -1).
    Real quantities are exact rationals; they only matter here through the comparisons that steer the
    control flow.

    The vote kernel is already available in this form in Model/Vote.v ([vote_update] with [VOOB]); this
    file adds the driver loop of [Propagation.fit] on top of it. The BFS loop of get_distances is in
    Model/Bfs.v ([bfs], fuel n+1, [None] = out of fuel). *)
From SKN Require Import Base.Util Model.Vote.

(** * Results, checked accesses *)

Inductive kres (A : Type) := KOk (a : A) | OOB | OutOfFuel.
Arguments KOk {A} a.
Arguments OOB {A}.
Arguments OutOfFuel {A}.

Definition kbind {A B} (r : kres A) (f : A -> kres B) : kres B :=
  match r with
  | KOk a => f a
  | OOB => OOB
  | OutOfFuel => OutOfFuel
  end.

Notation "'do' x <- a ;; b" := (kbind a (fun x => b))
  (at level 200, x name, a at level 100, b at level 200, right associativity).

(** [l[i] = x] on a list (no effect out of range; [wr] checks the range first). *)
Fixpoint set_nth {A} (l : list A) (i : nat) (x : A) : list A :=
  match l, i with
  | [], _ => []
  | _ :: t, O => x :: t
  | a :: t, S i' => a :: set_nth t i' x
  end.

(** checked read / write with a non-negative index *)
Definition rd {A} (l : list A) (i : nat) : kres A :=
  match nth_error l i with Some x => KOk x | None => OOB end.
Definition wr {A} (l : list A) (i : nat) (x : A) : kres (list A) :=
  if i <? length l then KOk (set_nth l i x) else OOB.

(** checked read with a signed index (wraparound(False): a negative index is out of bounds) *)
Definition rdz {A} (l : list A) (i : Z) : kres A :=
  if (i <? 0)%Z then OOB else rd l (Z.to_nat i).

(** * Well-formed CSR input: what scipy guarantees for [adjacency.indptr / indices / data] of an n x n matrix *)

Definition ip (indptr : list nat) (i : nat) : nat := nth i indptr 0.

Definition csr_pat_wf (n : nat) (indptr indices : list nat) : Prop :=
  length indptr = S n /\
  ip indptr 0 = 0 /\
  (forall i, i < n -> ip indptr i <= ip indptr (S i)) /\
  ip indptr n = length indices /\
  (forall k, k < length indices -> nth k indices 0 < n).

Definition csr_wf {W} (n : nat) (indptr indices : list nat) (data : list W) : Prop :=
  csr_pat_wf n indptr indices /\ length data = length indices.

(** executable form (used by the non-vacuity examples) *)
Definition csr_pat_wf_b (n : nat) (indptr indices : list nat) : bool :=
  (length indptr =? S n) && (ip indptr 0 =? 0) &&
  forallb (fun i => ip indptr i <=? ip indptr (S i)) (seq 0 n) &&
  (ip indptr n =? length indices) &&
  forallb (fun j => j <? n) indices.

Definition csr_wf_b {W} (n : nat) (indptr indices : list nat) (data : list W) : bool :=
  csr_pat_wf_b n indptr indices && (length data =? length indices).

(** * 1. topology/triangles.pyx *)

(** [while (i < indptr[node + 1]) and (j < indptr[neighbor + 1])]: both bounds are re-read at every test,
    the second only when the first comparison holds (short-circuit [and]). *)
Fixpoint tri_while (fuel : nat) (indptr indices : list nat) (node neighbor i j : nat) (acc : nat)
  : kres nat :=
  do ei <- rd indptr (S node) ;;
  if i <? ei then
    do ej <- rd indptr (S neighbor) ;;
    if j <? ej then
      match fuel with
      | O => OutOfFuel
      | S f =>
          do a <- rd indices i ;;
          do b <- rd indices j ;;
          if a =? b then tri_while f indptr indices node neighbor (S i) (S j) (S acc)
          else
            do a' <- rd indices i ;;
            do b' <- rd indices j ;;
            if a' <? b' then tri_while f indptr indices node neighbor (S i) j acc
            else tri_while f indptr indices node neighbor i (S j) acc
      end
    else KOk acc
  else KOk acc.

(** fuel of the while loop: the two row lengths (ghost value, read without check) *)
Definition row_len (indptr : list nat) (u : nat) : nat := ip indptr (S u) - ip indptr u.

(** [for k in range(indptr[node], indptr[node + 1])] — [ks] is that range *)
Fixpoint tri_for (ks : list nat) (indptr indices : list nat) (node : nat) (acc : nat) : kres nat :=
  match ks with
  | [] => KOk acc
  | k :: t =>
      do neighbor <- rd indices k ;;
      do i <- rd indptr node ;;
      do j <- rd indptr neighbor ;;
      do acc' <- tri_while (row_len indptr node + row_len indptr neighbor)
                           indptr indices node neighbor i j acc ;;
      tri_for t indptr indices node acc'
  end.

Definition count_local_triangles_flat (node : nat) (indptr indices : list nat) : kres nat :=
  do a <- rd indptr node ;;
  do b <- rd indptr (S node) ;;
  tri_for (seq a (b - a)) indptr indices node 0.

Fixpoint tri_nodes (nodes : list nat) (indptr indices : list nat) (acc : nat) : kres nat :=
  match nodes with
  | [] => KOk acc
  | node :: t =>
      do c <- count_local_triangles_flat node indptr indices ;;
      tri_nodes t indptr indices (acc + c)
  end.

(** count_triangles_from_dag, sequential branch: [n_nodes = indptr.size() - 1] *)
Definition count_triangles_flat (indptr indices : list nat) : kres nat :=
  tri_nodes (seq 0 (length indptr - 1)) indptr indices 0.

(** * 3. topology/minheap.pyx and core.pyx *)

(** The two std::vector<int> of MinHeap: the list length is the vector's SIZE; [c_cap] records the
    CAPACITY requested in __cinit__ (a ghost: no access is legal because of capacity). *)
Record cheap := { c_val : list nat; c_pos : list nat; c_size : nat; c_cap : nat }.

(** __cinit__ of the repaired source: [val.resize(n); pos.resize(n)] — n zero-initialised entries *)
Definition cheap_resize (n : nat) : cheap :=
  {| c_val := repeat 0 n; c_pos := repeat 0 n; c_size := 0; c_cap := n |}.
(** __cinit__ before the repair: [val.reserve(n); pos.reserve(n)] — capacity n, SIZE 0 *)
Definition cheap_reserve (n : nat) : cheap :=
  {| c_val := []; c_pos := []; c_size := 0; c_cap := n |}.

(** Storage invariant of the heap built by [resize(n)]: both vectors have SIZE n, the logical size is at
    most n, and every stored entry (live or stale) is itself a valid index. *)
Definition hinv (n : nat) (h : cheap) : Prop :=
  length (c_val h) = n /\ length (c_pos h) = n /\ c_size h <= n /\
  Forall (fun v => v < n) (c_val h) /\ Forall (fun p => p < n) (c_pos h).

Definition cparent (i : nat) : Z := ((Z.of_nat i - 1) / 2)%Z.     (* (i - 1) // 2, floor: parent 0 = -1 *)
Definition cleft (i : nat) : nat := 2 * i + 1.
Definition cright (i : nat) : nat := 2 * i + 2.

(** [scores[self.val[i]]] *)
Definition cscore (h : cheap) (scores : list Z) (i : nat) : kres Z :=
  do v <- rd (c_val h) i ;; rd scores v.
Definition cscorez (h : cheap) (scores : list Z) (i : Z) : kres Z :=
  do v <- rdz (c_val h) i ;; rd scores v.

Definition cswap (h : cheap) (x y : nat) : kres cheap :=
  do tmp <- rd (c_val h) x ;;
  do vy <- rd (c_val h) y ;;
  do val1 <- wr (c_val h) x vy ;;
  do val2 <- wr val1 y tmp ;;
  do vx' <- rd val2 x ;;
  do pos1 <- wr (c_pos h) vx' x ;;
  do vy' <- rd val2 y ;;
  do pos2 <- wr pos1 vy' y ;;
  KOk {| c_val := val2; c_pos := pos2; c_size := c_size h; c_cap := c_cap h |}.

(** [while (p >= 0) and (scores[self.val[p]] > scores[self.val[i]])] *)
Fixpoint cinsert_loop (fuel : nat) (h : cheap) (scores : list Z) (i : nat) (p : Z) : kres cheap :=
  if (0 <=? p)%Z then
    do sp <- cscorez h scores p ;;
    do si <- cscore h scores i ;;
    if (sp >? si)%Z then
      match fuel with
      | O => OutOfFuel
      | S f =>
          do h' <- cswap h i (Z.to_nat p) ;;
          cinsert_loop f h' scores (Z.to_nat p) (cparent (Z.to_nat p))
      end
    else KOk h
  else KOk h.

Definition cinsert_key (h : cheap) (k : nat) (scores : list Z) : kres cheap :=
  do val1 <- wr (c_val h) (c_size h) k ;;
  do pos1 <- wr (c_pos h) k (c_size h) ;;
  let i := c_size h in
  let h1 := {| c_val := val1; c_pos := pos1; c_size := S i; c_cap := c_cap h |} in
  cinsert_loop i h1 scores i (cparent i).

(** [while (pos != 0) and (scores[self.val[p]] > scores[self.val[pos]])] *)
Fixpoint cdecrease_loop (fuel : nat) (h : cheap) (scores : list Z) (pos : nat) (p : Z) : kres cheap :=
  if negb (pos =? 0) then
    do sp <- cscorez h scores p ;;
    do s <- cscore h scores pos ;;
    if (sp >? s)%Z then
      match fuel with
      | O => OutOfFuel
      | S f =>
          do h' <- cswap h pos (Z.to_nat p) ;;
          cdecrease_loop f h' scores (Z.to_nat p) (cparent (Z.to_nat p))
      end
    else KOk h
  else KOk h.

Definition cdecrease_key (h : cheap) (i : nat) (scores : list Z) : kres cheap :=
  do pos <- rd (c_pos h) i ;;
  if pos <? c_size h then cdecrease_loop pos h scores pos (cparent pos) else KOk h.

(** min_heapify: one unit of fuel per (recursive) call *)
Fixpoint cmin_heapify (fuel : nat) (h : cheap) (i : nat) (scores : list Z) : kres cheap :=
  match fuel with
  | O => OutOfFuel
  | S f =>
      let l := cleft i in
      let r := cright i in
      do sm1 <- (if l <? c_size h then
                   do sl <- cscore h scores l ;;
                   do si <- cscore h scores i ;;
                   KOk (if (sl <? si)%Z then l else i)
                 else KOk i) ;;
      do sm2 <- (if r <? c_size h then
                   do sr <- cscore h scores r ;;
                   do ss <- cscore h scores sm1 ;;
                   KOk (if (sr <? ss)%Z then r else sm1)
                 else KOk sm1) ;;
      if negb (sm2 =? i) then
        do h' <- cswap h i sm2 ;;
        cmin_heapify f h' sm2 scores
      else KOk h
  end.

(** pop_min; with [size = 0] the code reads [val[size - 1]] = [val[-1]] *)
Definition cpop_min (h : cheap) (scores : list Z) : kres (nat * cheap) :=
  if c_size h =? 1 then
    do r <- rd (c_val h) 0 ;;
    KOk (r, {| c_val := c_val h; c_pos := c_pos h; c_size := 0; c_cap := c_cap h |})
  else
    do root <- rd (c_val h) 0 ;;
    match c_size h with
    | O => OOB
    | S s =>
        do last <- rd (c_val h) s ;;
        do val1 <- wr (c_val h) 0 last ;;
        do v0 <- rd val1 0 ;;
        do pos1 <- wr (c_pos h) v0 0 ;;
        let h1 := {| c_val := val1; c_pos := pos1; c_size := s; c_cap := c_cap h |} in
        do h2 <- cmin_heapify s h1 0 scores ;;
        KOk (root, h2)
    end.

(** compute_core: inner [for k in range(indptr[min_node], indptr[min_node+1])] *)
Fixpoint ccore_inner (ks : list nat) (indices : list nat) (degrees : list Z) (mh : cheap)
  : kres (list Z * cheap) :=
  match ks with
  | [] => KOk (degrees, mh)
  | k :: t =>
      do j <- rd indices k ;;
      do dj <- rd degrees j ;;
      do degrees' <- wr degrees j (dj - 1)%Z ;;
      do mh' <- cdecrease_key mh j degrees' ;;
      ccore_inner t indices degrees' mh'
  end.

(** [while not mh.empty()]; the result carries the number of pops performed *)
Fixpoint ccore_loop (fuel : nat) (indptr indices : list nat) (degrees : list Z) (mh : cheap)
         (core_value : Z) (labels : list Z) (pops : nat) : kres (list Z * nat) :=
  if c_size mh =? 0 then KOk (labels, pops)
  else
    match fuel with
    | O => OutOfFuel
    | S f =>
        do pm <- cpop_min mh degrees ;;
        let min_node := fst pm in
        do d <- rd degrees min_node ;;
        let cv := Z.max core_value d in
        do a <- rd indptr min_node ;;
        do b <- rd indptr (S min_node) ;;
        do dm <- ccore_inner (seq a (b - a)) indices degrees (snd pm) ;;
        do labels' <- wr labels min_node cv ;;
        ccore_loop f indptr indices (fst dm) (snd dm) cv labels' (S pops)
    end.

Fixpoint cinsert_all (keys : list nat) (mh : cheap) (degrees : list Z) : kres cheap :=
  match keys with
  | [] => KOk mh
  | k :: t => do mh' <- cinsert_key mh k degrees ;; cinsert_all t mh' degrees
  end.

(** compute_core; [init] is MinHeap.__cinit__ ([cheap_resize]: repaired source, [cheap_reserve]: legacy).
    [degrees = indptr[1:] - indptr[:n]] is numpy arithmetic (bounds-checked by numpy). Fuel: n pops. *)
Definition ccompute_core (init : nat -> cheap) (indptr indices : list nat) : kres (list Z * nat) :=
  let n := length indptr - 1 in
  let degrees := map (fun i => (Z.of_nat (ip indptr (S i)) - Z.of_nat (ip indptr i))%Z) (seq 0 n) in
  do mh <- cinsert_all (seq 0 n) (init n) degrees ;;
  ccore_loop n indptr indices degrees mh 0%Z (repeat 0%Z n) 0.

(** * 5. linalg/diteration.pyx and push.pyx *)

(** [for jj in range(j1, j2): j = indices[jj]; fluid[j] += tmp * data[jj]] *)
Fixpoint dit_row (jjs : list nat) (indices : list nat) (data : list Q) (fluid : list Q) (tmp : Q)
  : kres (list Q) :=
  match jjs with
  | [] => KOk fluid
  | jj :: t =>
      do j <- rd indices jj ;;
      do fj <- rd fluid j ;;
      do d <- rd data jj ;;
      do fluid' <- wr fluid j (fj + tmp * d)%Q ;;
      dit_row t indices data fluid' tmp
  end.

(** state: scores, fluid, residu *)
Definition dstate := (list Q * list Q * Q)%type.

Definition dit_node (indptr indices : list nat) (data : list Q) (damping : Q) (i : nat) (st : dstate)
  : kres dstate :=
  let '(scores, fluid, residu) := st in
  do sent <- rd fluid i ;;
  if Qlt_le_dec 0 sent then
    do si <- rd scores i ;;
    do scores' <- wr scores i (si + sent)%Q ;;
    do fluid1 <- wr fluid i 0%Q ;;
    do j1 <- rd indptr i ;;
    do j2 <- rd indptr (S i) ;;
    let tmp := (sent * damping)%Q in
    if negb (j2 =? j1) then
      do fluid2 <- dit_row (seq j1 (j2 - j1)) indices data fluid1 tmp ;;
      KOk (scores', fluid2, (residu - sent * (1 - damping))%Q)
    else KOk (scores', fluid1, (residu - sent)%Q)
  else KOk st.

Fixpoint dit_sweep (nodes : list nat) (indptr indices : list nat) (data : list Q) (damping : Q)
         (st : dstate) : kres dstate :=
  match nodes with
  | [] => KOk st
  | i :: t => do st' <- dit_node indptr indices data damping i st ;;
              dit_sweep t indptr indices data damping st'
  end.

(** [for k in range(n_iter)] with the early [return]; the result carries the number of sweeps run *)
Fixpoint dit_iter (k : nat) (n : nat) (indptr indices : list nat) (data : list Q) (damping tol : Q)
         (st : dstate) (sweeps : nat) : kres (dstate * nat) :=
  match k with
  | O => KOk (st, sweeps)
  | S k' =>
      do st' <- dit_sweep (seq 0 n) indptr indices data damping st ;;
      let '(_, _, residu) := st' in
      if Qlt_le_dec residu (tol * (1 - damping))%Q then KOk (st', S sweeps)
      else dit_iter k' n indptr indices data damping tol st' (S sweeps)
  end.

(** diffusion(indptr, indices, data, scores, fluid, damping_factor, n_iter, tol): [n = fluid.shape[0]] *)
Definition diteration (indptr indices : list nat) (data scores fluid : list Q) (damping : Q)
           (n_iter : nat) (tol : Q) : kres (dstate * nat) :=
  dit_iter n_iter (length fluid) indptr indices data damping tol (scores, fluid, (1 - damping)%Q) 0.

(** push_pagerank. First loop (the prange over the vertices, modelled in index order: the iterations
    touch disjoint entries of [residuals]). Division by a zero degree is not a memory matter: [Qinv 0 = 0]. *)
Fixpoint push_init_row (js : list nat) (rev_indices : list nat) (degrees : list nat)
         (residuals : list Q) (vertex : nat) : kres (list Q) :=
  match js with
  | [] => KOk residuals
  | j :: t =>
      do neighbor <- rd rev_indices j ;;
      do dg <- rd degrees neighbor ;;
      do rv <- rd residuals vertex ;;
      do residuals' <- wr residuals vertex (rv + / inject_Z (Z.of_nat dg))%Q ;;
      push_init_row t rev_indices degrees residuals' vertex
  end.

Fixpoint push_init (vs : list nat) (rev_indptr rev_indices degrees : list nat) (seeds : list Q)
         (damping : Q) (residuals : list Q) : kres (list Q) :=
  match vs with
  | [] => KOk residuals
  | vertex :: t =>
      do j1 <- rd rev_indptr vertex ;;
      do j2 <- rd rev_indptr (S vertex) ;;
      do res1 <- push_init_row (seq j1 (j2 - j1)) rev_indices degrees residuals vertex ;;
      do rv <- rd res1 vertex ;;
      do sv <- rd seeds vertex ;;
      do res2 <- wr res1 vertex (rv * ((1 - damping) * damping * (1 + sv)))%Q ;;
      push_init t rev_indptr rev_indices degrees seeds damping res2
  end.

(** inner loop of the work-list phase; returns residuals and the work-list with the pushed neighbours *)
Fixpoint push_row (js : list nat) (indices degrees : list nat) (damping tol : Q) (vertex : nat)
         (residuals : list Q) (worklist : list nat) : kres (list Q * list nat) :=
  match js with
  | [] => KOk (residuals, worklist)
  | j :: t =>
      do neighbor <- rd indices j ;;
      do tmp <- rd residuals neighbor ;;
      do rv <- rd residuals vertex ;;
      do dv <- rd degrees vertex ;;
      let new := (tmp + rv * (1 - damping) / inject_Z (Z.of_nat dv))%Q in
      do residuals' <- wr residuals neighbor new ;;
      do rn <- rd residuals' neighbor ;;
      let worklist' := if Qlt_le_dec tol rn then
                         if Qlt_le_dec tmp tol then worklist ++ [neighbor] else worklist
                       else worklist in
      push_row t indices degrees damping tol vertex residuals' worklist'
  end.

(** [while not worklist.empty()]: one unit of fuel per popped vertex. No bound on the number of
    iterations is claimed for this loop (see Props/C17.v). *)
Fixpoint push_loop (fuel : nat) (indptr indices degrees : list nat) (damping tol : Q)
         (scores residuals : list Q) (worklist : list nat) : kres (list Q) :=
  match worklist with
  | [] => KOk scores
  | vertex :: rest =>
      match fuel with
      | O => OutOfFuel
      | S f =>
          do sv <- rd scores vertex ;;
          do rv <- rd residuals vertex ;;
          do scores' <- wr scores vertex (sv + rv)%Q ;;
          do j1 <- rd indptr vertex ;;
          do j2 <- rd indptr (S vertex) ;;
          do rw <- push_row (seq j1 (j2 - j1)) indices degrees damping tol vertex residuals rest ;;
          push_loop f indptr indices degrees damping tol scores' (fst rw) (snd rw)
      end
  end.

(** push_pagerank up to the final normalisation (numpy). [indexes] is the answer of
    [np.argsort(-residuals)] (an oracle: a list of node indices). *)
Definition push_pagerank (fuel : nat) (n : nat) (degrees indptr indices rev_indptr rev_indices : list nat)
           (seeds : list Q) (damping tol : Q) (argsort : list Q -> list nat) : kres (list Q) :=
  do residuals <- push_init (seq 0 n) rev_indptr rev_indices degrees seeds damping (repeat 0%Q n) ;;
  push_loop fuel indptr indices degrees damping tol (repeat (1 - damping)%Q n) residuals
            (argsort residuals).

(** * 6. classification/propagation.py: the driver loop of Propagation.fit

    [while t < self.n_iter and not np.array_equal(labels_remain, labels[index_remain])].
    [n_iter = None] stands for the default [np.inf]. [sweep] is one call of vote_update (Model/Vote.v,
    current kernel) over [index_remain]. [labels[index_remain]] is numpy fancy indexing (bounds-checked by
    numpy; the entries of index_remain come from argwhere over the same array). The result carries [t]. *)
Definition sweep (indptr indices : list nat) (data : list Q) (index_remain : list nat) (labels : list Z)
  : vres (list Z) :=
  vote_update repaired_kernel indptr indices data labels index_remain.

Definition take (labels : list Z) (index : list nat) : list Z := map (nthz labels) index.

Fixpoint zlist_eqb (a b : list Z) : bool :=
  match a, b with
  | [], [] => true
  | x :: a', y :: b' => (x =? y)%Z && zlist_eqb a' b'
  | _, _ => false
  end.

Fixpoint prop_loop (fuel : nat) (n_iter : option nat) (S_ : list Z -> vres (list Z))
         (index_remain : list nat) (t : nat) (labels_remain labels : list Z) : kres (list Z * nat) :=
  if (match n_iter with None => true | Some m => t <? m end) &&
     negb (zlist_eqb labels_remain (take labels index_remain)) then
    match fuel with
    | O => OutOfFuel
    | S f =>
        match S_ labels with
        | VOOB _ => OOB
        | VOk labels' =>
            prop_loop f n_iter S_ index_remain (S t) (take labels index_remain) labels'
        end
    end
  else KOk (labels, t).

(** fit: [labels_remain = np.zeros_like(index_remain)] *)
Definition propagation_fit (fuel : nat) (n_iter : option nat) (indptr indices : list nat) (data : list Q)
           (index_remain : list nat) (labels0 : list Z) : kres (list Z * nat) :=
  prop_loop fuel n_iter (sweep indptr indices data index_remain) index_remain 0
            (map (fun _ => 0%Z) index_remain) labels0.

(** * 7. clustering/louvain_core.pyx: optimize_core

    Caller's contract (Louvain._optimize): [labels = arange(n)], the six weight arrays and [self_loops]
    have n entries, [cluster_weights] is zero-filled. Labels are node indices, hence [nat].
    [label_set] is a std::set (increasing list, [set_insert] of Model/Vote.v). *)
Record lstate := { l_labels : list nat; l_ocw : list Q; l_icw : list Q; l_cw : list Q; l_inc : Q }.

(** [for j in range(start, end)]: neighbouring clusters *)
Fixpoint lv_gather (js : list nat) (indices : list nat) (data : list Q) (labels : list nat)
         (lset : list nat) (cw : list Q) : kres (list nat * list Q) :=
  match js with
  | [] => KOk (lset, cw)
  | j :: t =>
      do jj <- rd indices j ;;
      do lt <- rd labels jj ;;
      do c <- rd cw lt ;;
      do d <- rd data j ;;
      do cw' <- wr cw lt (c + d)%Q ;;
      lv_gather t indices data labels (set_insert lt lset) cw'
  end.

(** [for label_target in label_set] *)
Fixpoint lv_select (ls : list nat) (res ow iw delta : Q) (icw ocw cw : list Q) (dbest : Q) (lbest : nat)
  : kres (Q * nat * list Q) :=
  match ls with
  | [] => KOk (dbest, lbest, cw)
  | lt :: t =>
      do c <- rd cw lt ;;
      do ic <- rd icw lt ;;
      do oc <- rd ocw lt ;;
      let dl := (2 * c - res * ow * ic - res * iw * oc - delta)%Q in
      do cw' <- wr cw lt 0%Q ;;
      if Qlt_le_dec dbest dl then lv_select t res ow iw delta icw ocw cw' dl lt
      else lv_select t res ow iw delta icw ocw cw' dbest lbest
  end.

Definition lv_node (indptr indices : list nat) (data out_weights in_weights self_loops : list Q) (res : Q)
           (i : nat) (st : lstate) : kres lstate :=
  do label <- rd (l_labels st) i ;;
  do start <- rd indptr i ;;
  do end_ <- rd indptr (S i) ;;
  do g <- lv_gather (seq start (end_ - start)) indices data (l_labels st) [] (l_cw st) ;;
  let lset := remove Nat.eq_dec label (fst g) in
  let cw1 := snd g in
  do st1 <- (match lset with
             | [] => KOk {| l_labels := l_labels st; l_ocw := l_ocw st; l_icw := l_icw st;
                            l_cw := cw1; l_inc := l_inc st |}
             | _ :: _ =>
                 do ow <- rd out_weights i ;;
                 do iw <- rd in_weights i ;;
                 do cl <- rd cw1 label ;;
                 do sl <- rd self_loops i ;;
                 do icl <- rd (l_icw st) label ;;
                 do ocl <- rd (l_ocw st) label ;;
                 let delta := (2 * (cl - sl) - res * ow * (icl - iw) - res * iw * (ocl - ow))%Q in
                 do sel <- lv_select lset res ow iw delta (l_icw st) (l_ocw st) cw1 0%Q label ;;
                 let dbest := fst (fst sel) in
                 let lbest := snd (fst sel) in
                 let cw2 := snd sel in
                 if negb (lbest =? label) then
                   do labels' <- wr (l_labels st) i lbest ;;
                   do o1 <- rd (l_ocw st) label ;;
                   do ocw1 <- wr (l_ocw st) label (o1 - ow)%Q ;;
                   do i1 <- rd (l_icw st) label ;;
                   do icw1 <- wr (l_icw st) label (i1 - iw)%Q ;;
                   do o2 <- rd ocw1 lbest ;;
                   do ocw2 <- wr ocw1 lbest (o2 + ow)%Q ;;
                   do i2 <- rd icw1 lbest ;;
                   do icw2 <- wr icw1 lbest (i2 + iw)%Q ;;
                   KOk {| l_labels := labels'; l_ocw := ocw2; l_icw := icw2; l_cw := cw2;
                          l_inc := (l_inc st + dbest)%Q |}
                 else KOk {| l_labels := l_labels st; l_ocw := l_ocw st; l_icw := l_icw st;
                             l_cw := cw2; l_inc := l_inc st |}
             end) ;;
  do cw' <- wr (l_cw st1) label 0%Q ;;
  KOk {| l_labels := l_labels st1; l_ocw := l_ocw st1; l_icw := l_icw st1; l_cw := cw';
         l_inc := l_inc st1 |}.

Fixpoint lv_pass (nodes : list nat) (indptr indices : list nat)
         (data out_weights in_weights self_loops : list Q) (res : Q) (st : lstate) : kres lstate :=
  match nodes with
  | [] => KOk st
  | i :: t => do st' <- lv_node indptr indices data out_weights in_weights self_loops res i st ;;
              lv_pass t indptr indices data out_weights in_weights self_loops res st'
  end.

(** [while not stop]: one unit of fuel per pass; the result carries labels, increase and the number of passes *)
Fixpoint lv_loop (fuel : nat) (n : nat) (indptr indices : list nat)
         (data out_weights in_weights self_loops : list Q) (res tol : Q) (st : lstate) (increase : Q)
         (passes : nat) : kres (list nat * Q * nat) :=
  match fuel with
  | O => OutOfFuel
  | S f =>
      do st' <- lv_pass (seq 0 n) indptr indices data out_weights in_weights self_loops res
                        {| l_labels := l_labels st; l_ocw := l_ocw st; l_icw := l_icw st;
                           l_cw := l_cw st; l_inc := 0%Q |} ;;
      let increase' := (increase + l_inc st')%Q in
      if Qlt_le_dec tol (l_inc st') then
        lv_loop f n indptr indices data out_weights in_weights self_loops res tol st' increase' (S passes)
      else KOk (l_labels st', increase', S passes)
  end.

Definition optimize_core (fuel : nat) (labels indices indptr : list nat)
           (data out_weights in_weights out_cluster_weights in_cluster_weights cluster_weights self_loops : list Q)
           (res tol : Q) : kres (list nat * Q * nat) :=
  lv_loop fuel (length labels) indptr indices data out_weights in_weights self_loops res tol
          {| l_labels := labels; l_ocw := out_cluster_weights; l_icw := in_cluster_weights;
             l_cw := cluster_weights; l_inc := 0%Q |} 0%Q 0.

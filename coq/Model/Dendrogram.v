(** Dendrograms as produced and consumed by sknetwork/hierarchy (shared by C07 and C08).
    Definitions only (no proofs).

    A dendrogram over n leaves is the (n-1) x 4 float array of the library, one row per merge:
    row t = (left, right, height, size) creates the cluster with id n + t out of the clusters
    [left] and [right]; leaves have ids 0..n-1.  Ids and sizes are integers stored as floats in the
    code; here they are [nat]; heights are exact rationals. *)
From SKN Require Import Base.Util.

Definition drow := (nat * nat * Q * nat)%type.
Definition dendrogram := list drow.

Definition r_left (r : drow) : nat := fst (fst (fst r)).
Definition r_right (r : drow) : nat := snd (fst (fst r)).
Definition r_height (r : drow) : Q := snd (fst r).
Definition r_size (r : drow) : nat := snd r.
Definition heights (D : dendrogram) : list Q := map r_height D.
Definition drow0 : drow := (0, 0, 0%Q, 0).

(** Python dicts keyed by ints, in insertion order: [d[k]], [k in d], [d.pop(k)], [d[k] = v] for a
    fresh key.  [aremove] drops the first binding of the key (keys are unique in every use). *)
Fixpoint alookup {A} (k : nat) (l : list (nat * A)) : option A :=
  match l with
  | [] => None
  | (k', v) :: t => if Nat.eqb k k' then Some v else alookup k t
  end.

Fixpoint aremove {A} (k : nat) (l : list (nat * A)) : list (nat * A) :=
  match l with
  | [] => []
  | (k', v) :: t => if Nat.eqb k k' then t else (k', v) :: aremove k t
  end.

Definition akeys {A} (l : list (nat * A)) : list nat := map fst l.
Definition amem {A} (k : nat) (l : list (nat * A)) : bool :=
  match alookup k l with Some _ => true | None => false end.

(** * Validity

    [validw ws D]: D is a dendrogram over [length ws] leaves where leaf i carries [nth i ws] original
    samples ([ws = repeat 1 n] for an ordinary dendrogram; other weights for aggregated dendrograms,
    whose leaves are clusters).  Checked by replaying the merges over the association list of the
    live cluster ids with their sizes:
      - there are exactly [length ws - 1] rows;
      - row t merges two DISTINCT ids that are live at step t (a leaf, or the result [k + t'] of an
        earlier row t' < t, not merged before), after which they are dead and [k + t] is live;
      - its size column is the sum of the sizes of the two merged clusters (= number of original
        samples below);
      - the last size is the total number of samples. *)
Fixpoint valid_run (next : nat) (rows : dendrogram) (live : list (nat * nat)) : option (list (nat * nat)) :=
  match rows with
  | [] => Some live
  | (i, j, _, s) :: rest =>
      match alookup i live, alookup j live with
      | Some si, Some sj =>
          if negb (Nat.eqb i j) && Nat.eqb s (si + sj)
          then valid_run (S next) rest (aremove j (aremove i live) ++ [(next, s)])
          else None
      | _, _ => None
      end
  end.

Definition init_live (ws : list nat) : list (nat * nat) := combine (seq 0 (length ws)) ws.

Definition validw (ws : list nat) (D : dendrogram) : bool :=
  Nat.eqb (S (length D)) (length ws) &&
  match valid_run (length ws) D (init_live ws) with Some _ => true | None => false end &&
  match D with [] => true | _ => Nat.eqb (r_size (last D drow0)) (sumn ws) end.

Definition valid (n : nat) (D : dendrogram) : bool := validw (repeat 1 n) D.

(** * Leaf sets (textbook definition)

    [leaves n D k]: the leaves below id k — [k] itself for a leaf, otherwise the leaves of the left
    child followed by those of the right child of row [k - n].  Children have smaller ids than their
    parent in a valid dendrogram, so fuel [S k] is enough. *)
Fixpoint leaves_f (fuel n : nat) (D : dendrogram) (k : nat) : list nat :=
  match fuel with
  | O => []
  | S f =>
      if Nat.ltb k n then [k]
      else match nth_error D (k - n) with
           | Some r => leaves_f f n D (r_left r) ++ leaves_f f n D (r_right r)
           | None => []
           end
  end.

Definition leaves (n : nat) (D : dendrogram) (k : nat) : list nat := leaves_f (S k) n D k.

(** Heights never decrease from a child merge to its parent merge (what every algorithm of the library
    guarantees before [reorder_dendrogram]; implied by rows sorted by height). *)
Definition child_height_ok (n : nat) (D : dendrogram) (h : Q) (c : nat) : bool :=
  if Nat.ltb c n then true
  else match nth_error D (c - n) with Some r => Qle_bool (r_height r) h | None => false end.

Definition hmono (n : nat) (D : dendrogram) : bool :=
  forallb (fun r => child_height_ok n D (r_height r) (r_left r) && child_height_ok n D (r_height r) (r_right r)) D.

(** Rows in non-decreasing order of height ([np.all(height[:-1] <= height[1:])]). *)
Fixpoint sortedq (l : list Q) : bool :=
  match l with
  | a :: ((b :: _) as t) => Qle_bool a b && sortedq t
  | _ => true
  end.

(** Model/Xml.v — the XML subset emitted by sknetwork/visualization (C20).

    Strings are Coq [string]s, read as the UTF-8 byte sequence of the Python [str]: every
    character the grammar distinguishes is ASCII, and no byte of a multi-byte UTF-8 sequence is
    below 128, so byte-level and character-level readings agree.

    Contents (definitions only):
    - character classes, names, attribute values, character data;
    - the well-formedness grammar as inductive predicates over strings
      ([wf_attrs], [wf_elem], [wf_content], [wf_document_root]);
    - element builders used by the templaters' proofs ([elem_empty], [elem_open]);
    - an executable fuelled recursive-descent checker ([parse_document], [wf_check]).

    Not modelled (outside the property's quantifier): the XML 1.0 [Char] production (control
    characters, U+FFFE/U+FFFF, invalid UTF-8), prolog / DOCTYPE / comments / CDATA sections /
    processing instructions, single-quoted attribute values, numeric character references and
    namespace prefixes — the code emits none of them, and the checker rejects them. *)
From Coq Require Import String Ascii List Bool Arith.
Import ListNotations.
Open Scope string_scope.

(** * Small string utilities *)

Definition nl : string := String (ascii_of_nat 10) EmptyString.

Fixpoint sconcat (l : list string) : string :=
  match l with
  | [] => EmptyString
  | s :: t => s ++ sconcat t
  end.

Fixpoint all_chars (p : ascii -> bool) (s : string) : bool :=
  match s with
  | EmptyString => true
  | String c r => p c && all_chars p r
  end.

(** [starts p s]: [p] is a prefix of [s]. *)
Fixpoint starts (p s : string) : bool :=
  match p with
  | EmptyString => true
  | String a p' =>
      match s with
      | EmptyString => false
      | String b s' => Ascii.eqb a b && starts p' s'
      end
  end.

(** [strip_prefix p s = Some r] iff [s = p ++ r]. *)
Fixpoint strip_prefix (p s : string) : option string :=
  match p with
  | EmptyString => Some s
  | String a p' =>
      match s with
      | EmptyString => None
      | String b s' => if Ascii.eqb a b then strip_prefix p' s' else None
      end
  end.

(** Longest prefix whose characters satisfy [p], and the rest. *)
Fixpoint span (p : ascii -> bool) (s : string) : string * string :=
  match s with
  | EmptyString => (EmptyString, EmptyString)
  | String c r =>
      if p c then let (a, b) := span p r in (String c a, b) else (EmptyString, s)
  end.

Definition is_empty (s : string) : bool :=
  match s with EmptyString => true | _ => false end.

Definition mem_string (x : string) (l : list string) : bool := existsb (String.eqb x) l.

Fixpoint nodup_strings (l : list string) : bool :=
  match l with
  | [] => true
  | x :: t => negb (mem_string x t) && nodup_strings t
  end.

(** * Character classes *)

Definition is_ws (c : ascii) : bool :=
  let n := nat_of_ascii c in Nat.eqb n 32 || Nat.eqb n 10 || Nat.eqb n 9 || Nat.eqb n 13.

Definition is_alpha (c : ascii) : bool :=
  let n := nat_of_ascii c in (Nat.leb 65 n && Nat.leb n 90) || (Nat.leb 97 n && Nat.leb n 122).

Definition is_digit (c : ascii) : bool :=
  let n := nat_of_ascii c in Nat.leb 48 n && Nat.leb n 57.

Definition is_name_start (c : ascii) : bool := is_alpha c || Ascii.eqb c "_".

Definition is_name_char (c : ascii) : bool :=
  is_name_start c || is_digit c || Ascii.eqb c "-" || Ascii.eqb c ".".

Definition not_lt (c : ascii) : bool := negb (Ascii.eqb c "<").
Definition not_quote (c : ascii) : bool := negb (Ascii.eqb c """").

(** * Lexical well-formedness (decidable) *)

Definition name_ok (s : string) : bool :=
  match s with
  | EmptyString => false
  | String c r => is_name_start c && all_chars is_name_char r
  end.

Definition ws_ok : string -> bool := all_chars is_ws.

(** The five predefined entities; a reference is [&] followed by one of these. *)
Definition entities : list string := ["amp;"; "lt;"; "gt;"; "quot;"; "apos;"].

Definition entity_prefix (s : string) : bool := existsb (fun e => starts e s) entities.

(** Every [&] starts an entity reference. *)
Fixpoint amp_ok (s : string) : bool :=
  match s with
  | EmptyString => true
  | String c r => (if Ascii.eqb c "&" then entity_prefix r else true) && amp_ok r
  end.

Definition no_char (c : ascii) : string -> bool := all_chars (fun x => negb (Ascii.eqb x c)).

(** XML 1.0, section 2.4: the three-character sequence ]]> must not occur in character data. *)
Fixpoint no_cdata_end (s : string) : bool :=
  match s with
  | EmptyString => true
  | String c r => negb (starts "]]>" s) && no_cdata_end r
  end.

(** Double-quoted attribute value: no less-than sign, no double quote, every ampersand starts an entity reference. *)
Definition attr_value_ok (v : string) : bool := no_char "<" v && no_char """" v && amp_ok v.

(** Character data: no less-than sign, every ampersand starts an entity reference, no ]]> sequence. *)
Definition text_ok (t : string) : bool := no_char "<" t && amp_ok t && no_cdata_end t.

(** * The grammar *)

(** [wf_attrs a ns]: [a] is a sequence of attributes, each preceded by non-empty white space,
    whose names are [ns] in order. *)
Inductive wf_attrs : string -> list string -> Prop :=
| wa_nil : wf_attrs EmptyString []
| wa_cons : forall w n v rest ns,
    is_empty w = false -> ws_ok w = true -> name_ok n = true -> attr_value_ok v = true ->
    wf_attrs rest ns ->
    wf_attrs (w ++ n ++ "=""" ++ v ++ """" ++ rest) (n :: ns).

(** [wf_elem n e]: [e] is one element whose tag name is [n]; attribute names are pairwise distinct.
    [wf_content c]: [c] is element content — maximal runs of character data alternating with elements. *)
Inductive wf_elem : string -> string -> Prop :=
| we_empty : forall n a ns w,
    name_ok n = true -> wf_attrs a ns -> NoDup ns -> ws_ok w = true ->
    wf_elem n ("<" ++ n ++ a ++ w ++ "/>")
| we_open : forall n a ns w c w2,
    name_ok n = true -> wf_attrs a ns -> NoDup ns -> ws_ok w = true ->
    wf_content c -> ws_ok w2 = true ->
    wf_elem n ("<" ++ n ++ a ++ w ++ ">" ++ c ++ "</" ++ n ++ w2 ++ ">")
with wf_content : string -> Prop :=
| wc_last : forall t, text_ok t = true -> wf_content t
| wc_cons : forall t n e c,
    text_ok t = true -> wf_elem n e -> wf_content c -> wf_content (t ++ e ++ c).

(** A document: one root element, optionally surrounded by white space. *)
Definition wf_document_root (root s : string) : Prop :=
  exists w0 e w1, s = w0 ++ e ++ w1 /\ ws_ok w0 = true /\ wf_elem root e /\ ws_ok w1 = true.

Definition wf_document (s : string) : Prop := exists root, wf_document_root root s.

(** * Element builders (used to derive well-formedness of the templaters) *)

(** An attribute as (leading white space, name, value). *)
Definition attr : Type := (string * string * string)%type.

Definition render_attr (a : attr) : string :=
  let '(w, n, v) := a in w ++ n ++ "=""" ++ v ++ """".

Definition render_attrs (l : list attr) : string := sconcat (map render_attr l).

Definition attr_name (a : attr) : string := let '(_, n, _) := a in n.

Definition attr_ok (a : attr) : bool :=
  let '(w, n, v) := a in negb (is_empty w) && ws_ok w && name_ok n && attr_value_ok v.

Definition elem_empty (n : string) (attrs : list attr) (w : string) : string :=
  "<" ++ n ++ render_attrs attrs ++ w ++ "/>".

Definition elem_open (n : string) (attrs : list attr) (w c w2 : string) : string :=
  "<" ++ n ++ render_attrs attrs ++ w ++ ">" ++ c ++ "</" ++ n ++ w2 ++ ">".

(** * The checker *)

(** Attributes up to and including the end of the start tag; [true] = self-closing. *)
Fixpoint parse_attrs (fuel : nat) (s : string) (seen : list string) : option (bool * string) :=
  match fuel with
  | 0 => None
  | S f =>
      let (w, r) := span is_ws s in
      match strip_prefix "/>" r with
      | Some r' => Some (true, r')
      | None =>
          match strip_prefix ">" r with
          | Some r' => Some (false, r')
          | None =>
              if is_empty w then None
              else
                let (n, r1) := span is_name_char r in
                if name_ok n && negb (mem_string n seen) then
                  match strip_prefix "=""" r1 with
                  | Some r2 =>
                      let (v, r3) := span not_quote r2 in
                      match strip_prefix """" r3 with
                      | Some r4 => if attr_value_ok v then parse_attrs f r4 (n :: seen) else None
                      | None => None
                      end
                  | None => None
                  end
                else None
          end
      end
  end.

(** The rest of an end tag after [</]: the expected name, white space, [>]. *)
Definition parse_close (n s : string) : option string :=
  match strip_prefix n s with
  | Some r => let (w, r2) := span is_ws r in strip_prefix ">" r2
  | None => None
  end.

(** One element starting at [s]; [pc] parses the content of a non-empty element and returns the
    rest, which must start with the end tag. Result: tag name and rest. *)
Definition parse_element_with (pc : string -> option string) (s : string) : option (string * string) :=
  match strip_prefix "<" s with
  | None => None
  | Some r1 =>
      let (n, r) := span is_name_char r1 in
      if name_ok n then
        match parse_attrs (S (String.length r)) r [] with
        | Some (true, r2) => Some (n, r2)
        | Some (false, r2) =>
            match pc r2 with
            | Some r3 =>
                match strip_prefix "</" r3 with
                | Some r4 =>
                    match parse_close n r4 with
                    | Some r5 => Some (n, r5)
                    | None => None
                    end
                | None => None
                end
            | None => None
            end
        | None => None
        end
      else None
  end.

(** Content up to (not including) the enclosing end tag, or up to the end of the input. *)
Fixpoint parse_content (fuel : nat) (s : string) : option string :=
  match fuel with
  | 0 => None
  | S f =>
      let (t, r) := span not_lt s in
      if text_ok t then
        if is_empty r then Some EmptyString
        else if starts "</" r then Some r
        else
          match parse_element_with (parse_content f) r with
          | Some (_, r2) => parse_content f r2
          | None => None
          end
      else None
  end.

(** Whole document: white space, one element, white space. Returns the root tag name. *)
Definition parse_document (s : string) : option string :=
  let (w0, r) := span is_ws s in
  match parse_element_with (parse_content (S (String.length r))) r with
  | Some (n, r2) => if ws_ok r2 then Some n else None
  | None => None
  end.

Definition wf_check (s : string) : bool :=
  match parse_document s with Some _ => true | None => false end.

Definition wf_check_root (root s : string) : bool :=
  match parse_document s with Some n => String.eqb n root | None => false end.

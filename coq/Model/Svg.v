(** Model/Svg.v — the SVG templaters of sknetwork/visualization/graphs.py and dendrograms.py (C20).

    Every number the code formats into an attribute (coordinates, sizes, widths, font size) and
    every colour is an argument of type [string] (a *safe field*: rendered by Python, free of
    less-than sign, ampersand and double quote — see [safe_field]); node names are ARBITRARY strings and pass
    through the sanitiser exactly where the code applies it. The replacement lists come from
    Gen/Sanitise.v, regenerated from the source on every run.

    Numeric computations (rescale, pie-chart trigonometry, dendrogram layout) are not modelled:
    their results enter as safe fields. Decisions that change the document's structure are
    arguments as well: [distinct] (norm of the edge vector non-zero), [zero_sum] (pie chart of an
    all-zero row), the set of marker colours (Python set iteration order), the node order. *)
From SKN Require Import Model.Xml Gen.Sanitise.
From Coq Require Import String Ascii List Bool.
Import ListNotations.
Open Scope string_scope.

(** * The sanitiser: [text.replace(c, r)] for each pair of a list, in order *)

Fixpoint replace_char (c : ascii) (r : string) (s : string) : string :=
  match s with
  | EmptyString => EmptyString
  | String x t => if Ascii.eqb x c then r ++ replace_char c r t else String x (replace_char c r t)
  end.

Definition sanitise (l : list (ascii * string)) (s : string) : string :=
  fold_left (fun acc p => replace_char (fst p) (snd p) acc) l s.

(** A character occurring in one of the entity names (replacing it could break a reference). *)
Definition is_entity_char (c : ascii) : bool := negb (forallb (no_char c) entities).

(** Sufficient condition on a replacement list for the output to be character data whatever the
    input: every replacement string is itself harmless (no less-than or greater-than sign, every ampersand in it
    starts an entity reference); the ampersand, the less-than and the greater-than sign are all replaced; and once the
    ampersand has been handled no later step rewrites a character of an entity name.
    The state [(amp, lt, gt)] records which of the three have been handled so far. *)
Fixpoint sanitiser_ok_from (amp lt gt : bool) (l : list (ascii * string)) : bool :=
  match l with
  | [] => amp && lt && gt
  | (c, r) :: tl =>
      no_char "<" r && no_char ">" r && amp_ok r &&
      (if Ascii.eqb c "&" then sanitiser_ok_from true lt gt tl
       else (negb amp || negb (is_entity_char c)) &&
            sanitiser_ok_from amp (lt || Ascii.eqb c "<") (gt || Ascii.eqb c ">") tl)
  end.

Definition sanitiser_ok : list (ascii * string) -> bool := sanitiser_ok_from false false false.

Definition replaces (c : ascii) (l : list (ascii * string)) : bool :=
  existsb (fun p => Ascii.eqb (fst p) c) l.

(** * Safe fields *)

Definition safe_char (c : ascii) : bool :=
  negb (Ascii.eqb c "<") && negb (Ascii.eqb c "&") && negb (Ascii.eqb c """").

Definition safe_field : string -> bool := all_chars safe_char.

(** * graphs.py: element templaters *)

(** svg_node(pos_node, size, color, stroke_width=1, stroke_color='black'); x, y = pos_node.astype(int) *)
Definition svg_node (x y size color stroke_width stroke_color : string) : string :=
  "<circle cx=""" ++ x ++ """ cy=""" ++ y ++ """ r=""" ++ size ++
  """ style=""fill:" ++ color ++ ";stroke:" ++ stroke_color ++ ";stroke-width:" ++ stroke_width ++ """/>" ++ nl.

(** One wedge of svg_pie_chart_node: start point, large-arc flag, end point, colour. *)
Record wedge := { w_x0 : string; w_y0 : string; w_large : string; w_x1 : string; w_y1 : string; w_color : string }.

Definition svg_wedge (x y size stroke_width stroke_color : string) (w : wedge) : string :=
  "<path d=""M " ++ w_x0 w ++ " " ++ w_y0 w ++ " A " ++ size ++ " " ++ size ++ " 0 " ++ w_large w ++ " 1 " ++
  w_x1 w ++ " " ++ w_y1 w ++ " L " ++ x ++ " " ++ y ++
  """ style=""fill:" ++ w_color w ++ ";stroke:" ++ stroke_color ++ ";stroke-width:" ++ stroke_width ++ """ />" ++ nl.

(** svg_pie_chart_node(pos_node, size, probs, colors, stroke_width=1, stroke_color='black'):
    [xi yi] are the integer-cast coordinates used by the svg_node fallback, [x y] the float ones;
    [zero_sum] is [cumsum[-1] == 0]; one wedge per column of probs. *)
Definition svg_pie_chart_node (xi yi x y size : string) (zero_sum : bool) (wedges : list wedge)
           (stroke_width stroke_color : string) : string :=
  if zero_sum then svg_node xi yi size "white" "3" "black"
  else sconcat (map (svg_wedge x y size stroke_width stroke_color) wedges).

(** svg_edge(pos_1, pos_2, edge_width=1, edge_color='black') *)
Definition svg_edge (x1 y1 x2 y2 edge_width edge_color : string) : string :=
  "<path stroke-width=""" ++ edge_width ++ """ stroke=""" ++ edge_color ++
  """ d=""M " ++ x1 ++ " " ++ y1 ++ " " ++ x2 ++ " " ++ y2 ++ """/>" ++ nl.

(** svg_edge_directed(pos_1, pos_2, edge_width, edge_color, node_size): [distinct] is [norm != 0];
    nothing is emitted when the two positions coincide. *)
Definition svg_edge_directed (distinct : bool) (x1 y1 x2 y2 edge_width edge_color : string) : string :=
  if distinct then
    "<path stroke-width=""" ++ edge_width ++ """ stroke=""" ++ edge_color ++
    """ d=""M " ++ x1 ++ " " ++ y1 ++ " " ++ x2 ++ " " ++ y2 ++
    """ marker-end=""url(#arrow-" ++ edge_color ++ ")""/>" ++ nl
  else EmptyString.

(** The if-chain of svg_text on [position]. *)
Definition text_anchor (position : string) : string :=
  if String.eqb position "left" then "end"
  else if String.eqb position "above" then "middle"
  else if String.eqb position "below" then "middle"
  else "start".

(** svg_text(pos, text, margin_text, font_size=12, position='right') with replacement list [repl]. *)
Definition svg_text_with (repl : list (ascii * string)) (x y text font_size position : string) : string :=
  let text := sanitise repl text in
  "<text text-anchor=""" ++ text_anchor position ++ """ x=""" ++ x ++ """ y=""" ++ y ++
  """ font-size=""" ++ font_size ++ """>" ++ text ++ "</text>".

Definition svg_text : string -> string -> string -> string -> string -> string := svg_text_with svg_text_repl.

(** * graphs.py: documents *)

Record edge := { e_x1 : string; e_y1 : string; e_x2 : string; e_y2 : string;
                 e_width : string; e_color : string; e_distinct : bool }.

Inductive shape :=
| Disk (color : string)                         (* svg_node: probs is None, or probs[i].nnz == 1 *)
| Pie (zero_sum : bool) (wedges : list wedge).  (* svg_pie_chart_node *)

Record node := { n_xi : string; n_yi : string; n_x : string; n_y : string;
                 n_size : string; n_width : string; n_shape : shape }.

(** One name with the position its text is put at (already shifted by margin_text). *)
Record label := { t_x : string; t_y : string; t_name : string }.

Definition draw_edge (directed : bool) (e : edge) : string :=
  if directed then svg_edge_directed (e_distinct e) (e_x1 e) (e_y1 e) (e_x2 e) (e_y2 e) (e_width e) (e_color e)
  else svg_edge (e_x1 e) (e_y1 e) (e_x2 e) (e_y2 e) (e_width e) (e_color e).

Definition draw_node (nd : node) : string :=
  match n_shape nd with
  | Disk color => svg_node (n_xi nd) (n_yi nd) (n_size nd) color (n_width nd) "black"
  | Pie zero_sum wedges =>
      svg_pie_chart_node (n_xi nd) (n_yi nd) (n_x nd) (n_y nd) (n_size nd) zero_sum wedges (n_width nd) "black"
  end.

Definition draw_label (repl : list (ascii * string)) (font_size position : string) (t : label) : string :=
  svg_text_with repl (t_x t) (t_y t) (t_name t) font_size position.

Definition svg_header (width height : string) : string :=
  "<svg width=""" ++ width ++ """ height=""" ++ height ++ """ xmlns=""http://www.w3.org/2000/svg"">" ++ nl.

(** visualize_bigraph and the dendrograms have two spaces before xmlns. *)
Definition svg_header2 (width height : string) : string :=
  "<svg width=""" ++ width ++ """ height=""" ++ height ++ """  xmlns=""http://www.w3.org/2000/svg"">".

(** The <defs><marker> block emitted once per distinct edge colour of a directed drawing. *)
Definition svg_marker (color : string) : string :=
  "<defs><marker id=""arrow-" ++ color ++
  """ markerWidth=""10"" markerHeight=""10"" refX=""9"" refY=""3""" ++ nl ++
  "                orient=""auto"" >" ++ nl ++
  "<path d=""M0,0 L0,6 L9,3 z"" fill=""" ++ color ++ """/></marker></defs>" ++ nl.

(** The edges that produce a path: every edge of an undirected drawing, and the edges between
    distinct positions of a directed one. *)
Definition drawn (directed : bool) (e : edge) : bool := negb directed || e_distinct e.

(** visualize_graph. [edges] are the stored entries in [edge_order]; [residual] the labelled pairs
    that are not stored entries; [markers] is [set(edge_colors)] in iteration order; [nodes] are
    listed in [node_order]; [names] is [None] or one label per node, in index order. *)
Definition visualize_graph_with (repl : list (ascii * string)) (width height : string)
           (display_edges directed : bool) (markers : list string) (edges residual : list edge)
           (nodes : list node) (names : option (list label)) (font_size name_position : string) : string :=
  svg_header width height ++
  (if display_edges then
     (if directed then sconcat (map svg_marker markers) else EmptyString) ++
     sconcat (map (draw_edge directed) edges) ++
     sconcat (map (draw_edge directed) residual)
   else EmptyString) ++
  sconcat (map draw_node nodes) ++
  match names with
  | None => EmptyString
  | Some l => sconcat (map (draw_label repl font_size name_position) l)
  end ++
  "</svg>" ++ nl.

Definition visualize_graph := visualize_graph_with svg_text_repl.

(** visualize_bigraph: undirected edges; rows then columns; row names on the left, column names
    with svg_text's default position. *)
Definition visualize_bigraph_with (repl : list (ascii * string)) (width height : string)
           (display_edges : bool) (edges residual : list edge)
           (nodes_row nodes_col : list node) (names_row names_col : option (list label))
           (font_size : string) : string :=
  svg_header2 width height ++ nl ++
  (if display_edges then
     sconcat (map (draw_edge false) edges) ++ sconcat (map (draw_edge false) residual)
   else EmptyString) ++
  sconcat (map draw_node nodes_row) ++
  sconcat (map draw_node nodes_col) ++
  match names_row with
  | None => EmptyString
  | Some l => sconcat (map (draw_label repl font_size "left") l)
  end ++
  match names_col with
  | None => EmptyString
  | Some l => sconcat (map (draw_label repl font_size "right") l)
  end ++
  "</svg>" ++ nl.

Definition visualize_bigraph := visualize_bigraph_with svg_text_repl.

(** * dendrograms.py *)

(** A line of a dendrogram: <path stroke-width stroke d /> (space before the slash, no newline). *)
Definition svg_line (line_width color x1 y1 x2 y2 : string) : string :=
  "<path stroke-width=""" ++ line_width ++ """ stroke=""" ++ color ++
  """ d=""M " ++ x1 ++ " " ++ y1 ++ " " ++ x2 ++ " " ++ y2 ++ """ />".

(** One merge: the positions of the two merged clusters, the position (x, y) of the new one. *)
Record merge := { m_color : string; m_x1 : string; m_y1 : string; m_x2 : string; m_y2 : string;
                  m_x : string; m_y : string }.

(** svg_dendrogram_top: (x1,y1)-(x1,y), (x2,y2)-(x2,y), (x1,y)-(x2,y). *)
Definition merge_top (line_width : string) (m : merge) : string :=
  svg_line line_width (m_color m) (m_x1 m) (m_y1 m) (m_x1 m) (m_y m) ++
  svg_line line_width (m_color m) (m_x2 m) (m_y2 m) (m_x2 m) (m_y m) ++
  svg_line line_width (m_color m) (m_x1 m) (m_y m) (m_x2 m) (m_y m).

(** svg_dendrogram_left: (x1,y1)-(x,y1), (x2,y2)-(x,y2), (x,y1)-(x,y2). *)
Definition merge_left (line_width : string) (m : merge) : string :=
  svg_line line_width (m_color m) (m_x1 m) (m_y1 m) (m_x m) (m_y1 m) ++
  svg_line line_width (m_color m) (m_x2 m) (m_y2 m) (m_x m) (m_y2 m) ++
  svg_line line_width (m_color m) (m_x m) (m_y1 m) (m_x m) (m_y2 m).

Definition dendrogram_text_top (repl : list (ascii * string)) (rotate_names : bool) (font_size : string) (t : label) : string :=
  let text := sanitise repl (t_name t) in
  if rotate_names then
    "<text x=""" ++ t_x t ++ """ y=""" ++ t_y t ++ """  transform=""rotate(60, " ++ t_x t ++ ", " ++ t_y t ++
    ")"" font-size=""" ++ font_size ++ """>" ++ text ++ "</text>"
  else
    "<text x=""" ++ t_x t ++ """ y=""" ++ t_y t ++ """  font-size=""" ++ font_size ++ """>" ++ text ++ "</text>".

Definition dendrogram_text_left (repl : list (ascii * string)) (font_size : string) (t : label) : string :=
  let text := sanitise repl (t_name t) in
  "<text x=""" ++ t_x t ++ """ y=""" ++ t_y t ++ """ font-size=""" ++ font_size ++ """>" ++ text ++ "</text>".

Definition svg_dendrogram_top_with (repl : list (ascii * string)) (width height : string)
           (names : option (list label)) (rotate_names : bool) (font_size line_width : string)
           (merges : list merge) : string :=
  svg_header2 width height ++
  match names with
  | None => EmptyString
  | Some l => sconcat (map (dendrogram_text_top repl rotate_names font_size) l)
  end ++
  sconcat (map (merge_top line_width) merges) ++
  "</svg>".

Definition svg_dendrogram_left_with (repl : list (ascii * string)) (width height : string)
           (names : option (list label)) (font_size line_width : string) (merges : list merge) : string :=
  svg_header2 width height ++
  match names with
  | None => EmptyString
  | Some l => sconcat (map (dendrogram_text_left repl font_size) l)
  end ++
  sconcat (map (merge_left line_width) merges) ++
  "</svg>".

(** visualize_dendrogram: [rotate] selects the left variant (which ignores rotate_names). *)
Definition visualize_dendrogram_with (repl_top repl_left : list (ascii * string)) (rotate : bool)
           (width height : string) (names : option (list label)) (rotate_names : bool)
           (font_size line_width : string) (merges : list merge) : string :=
  if rotate then svg_dendrogram_left_with repl_left width height names font_size line_width merges
  else svg_dendrogram_top_with repl_top width height names rotate_names font_size line_width merges.

Definition visualize_dendrogram := visualize_dendrogram_with dendrogram_top_repl dendrogram_left_repl.

(** * Safety of the fields of the records *)

Definition wedge_safe (w : wedge) : bool :=
  safe_field (w_x0 w) && safe_field (w_y0 w) && safe_field (w_large w) &&
  safe_field (w_x1 w) && safe_field (w_y1 w) && safe_field (w_color w).

Definition edge_safe (e : edge) : bool :=
  safe_field (e_x1 e) && safe_field (e_y1 e) && safe_field (e_x2 e) && safe_field (e_y2 e) &&
  safe_field (e_width e) && safe_field (e_color e).

(** A pie chart that is not the all-zero fallback has at least one wedge (probs has a column). *)
Definition shape_safe (s : shape) : bool :=
  match s with
  | Disk color => safe_field color
  | Pie zero_sum wedges =>
      forallb wedge_safe wedges && (zero_sum || match wedges with [] => false | _ => true end)
  end.

Definition node_safe (nd : node) : bool :=
  safe_field (n_xi nd) && safe_field (n_yi nd) && safe_field (n_x nd) && safe_field (n_y nd) &&
  safe_field (n_size nd) && safe_field (n_width nd) && shape_safe (n_shape nd).

(** Only the position of a label is a safe field; its name is arbitrary. *)
Definition label_safe (t : label) : bool := safe_field (t_x t) && safe_field (t_y t).

Definition labels_safe (names : option (list label)) : bool :=
  match names with None => true | Some l => forallb label_safe l end.

Definition merge_safe (m : merge) : bool :=
  safe_field (m_color m) && safe_field (m_x1 m) && safe_field (m_y1 m) && safe_field (m_x2 m) &&
  safe_field (m_y2 m) && safe_field (m_x m) && safe_field (m_y m).

Definition n_labels (names : option (list label)) : nat :=
  match names with None => 0 | Some l => length l end.

(** * Counting elements directly on the string *)

(** Number of positions of [s] at which [p] starts. *)
Fixpoint count_starts (p s : string) : nat :=
  match s with
  | EmptyString => 0
  | String c r => (if starts p s then 1 else 0) + count_starts p r
  end.

(** The start of a text element, of a circle, of an edge path / dendrogram line, of a pie-chart
    wedge (the arrow-head path inside the marker definition has M0 after the d attribute opens and is
    none of these). *)
Definition P_text : string := "<text".
Definition P_circle : string := "<circle".
Definition P_edge : string := "<path stroke-width=".
Definition P_wedge : string := "<path d=""M ".

(** Nodes drawn as one circle, and the total number of wedges of the others. *)
Definition is_circle_node (nd : node) : bool :=
  match n_shape nd with Disk _ => true | Pie zero_sum _ => zero_sum end.

Definition n_wedges (nd : node) : nat :=
  match n_shape nd with Disk _ => 0 | Pie true _ => 0 | Pie false ws => length ws end.

(** Executable model of sknetwork/topology/cycles.py (is_acyclic, get_cycles, break_cycles).
    Definitions only (no proofs).

    [csgraph.connected_components(adjacency, directed, connection='strong')] is an ORACLE: its
    label vector is the argument [comp] (contract: Structure.components_contract g directed comp —
    with directed=False SciPy ignores [connection] and returns the weak components).

    The explicit LIFO stacks of (node, path) pairs are modelled by recursion on a depth budget:
    a popped entry is scanned completely (recording cycles / deleting edges, and collecting the
    pushes), then the pushed entries are processed last-pushed-first, each with its whole subtree
    before the next — exactly the order in which a LIFO stack serves them. A path never repeats
    a node, so depth [length g + 1] is never exhausted on a well-formed graph ([None] = out of fuel). *)
From SKN Require Import Base.Util Model.Bfs Model.Structure.

(** * directed flag *)
Definition resolve_directed (g : graph) (directed : option bool) : result bool :=
  match directed with
  | Some false => if is_symmetric g then Ok false else Err ValueError
  | Some true => Ok true
  | None => Ok (negb (is_symmetric g))
  end.

(** * is_acyclic *)
(** [n_cc == n_nodes - nnz // 2] is evaluated on Python integers (may be negative): Z. *)
Definition count_criterion (g : graph) (comp : list nat) : bool :=
  (Z.of_nat (n_labels comp) =? Z.of_nat (length g) - Z.of_nat (nnz g / 2))%Z.

Definition is_acyclic (g : graph) (directed : option bool) (comp : list nat) : result bool :=
  match resolve_directed g directed with
  | Err e => Err e
  | Ok d =>
      if has_loops g then Ok false
      else if d then Ok (n_labels comp =? length g)
      else Ok (count_criterion g comp)
  end.

(** * get_cycles *)
Fixpoint index_of (x : nat) (l : list nat) : nat :=
  match l with
  | [] => 0
  | y :: t => if x =? y then 0 else S (index_of x t)
  end.
(** [path[-2]] when [len(path) > 1]. *)
Definition prev_of (path : list nat) : option nat :=
  match rev path with _ :: p :: _ => Some p | _ => None end.
Definition is_prev (prev : option nat) (v : nat) : bool :=
  match prev with Some p => v =? p | None => false end.

(** One [for neighbor in ...] loop: (cycles appended, in order; neighbours pushed, in order). *)
Fixpoint gc_scan (directed : bool) (prev : option nat) (path : list nat) (nbrs : list nat)
  : list (list nat) * list nat :=
  match nbrs with
  | [] => ([], [])
  | v :: t =>
      let r := gc_scan directed prev path t in
      if negb directed && is_prev prev v then r
      else if memn v path then (skipn (index_of v path) path :: fst r, snd r)
      else (fst r, v :: snd r)
  end.

Fixpoint concat_opt {A} (l : list (option (list A))) : option (list A) :=
  match l with
  | [] => Some []
  | None :: _ => None
  | Some a :: t => match concat_opt t with Some b => Some (a ++ b) | None => None end
  end.

Fixpoint gc_visit (d : nat) (g : graph) (directed : bool) (cur : nat) (path : list nat)
  : option (list (list nat)) :=
  match d with
  | O => None
  | S d' =>
      let r := gc_scan directed (prev_of path) path (row g cur) in
      match concat_opt (map (fun v => gc_visit d' g directed v (path ++ [v])) (rev (snd r))) with
      | Some sub => Some (fst r ++ sub)
      | None => None
      end
  end.

(** De-duplication: [np.roll(cycle, -cycle.index(min(cycle)))]; key = the rolled tuple (directed)
    or its sorted version (undirected); first occurrence kept. *)
Definition list_min (l : list nat) : nat :=
  match l with [] => 0 | x :: t => fold_left Nat.min t x end.
Definition roll_min (c : list nat) : list nat :=
  let k := index_of (list_min c) c in skipn k c ++ firstn k c.
Fixpoint insert (x : nat) (l : list nat) : list nat :=
  match l with
  | [] => [x]
  | y :: t => if x <=? y then x :: l else y :: insert x t
  end.
Definition isort (l : list nat) : list nat := fold_right insert [] l.
Fixpoint list_eqb (a b : list nat) : bool :=
  match a, b with
  | [], [] => true
  | x :: a', y :: b' => (x =? y) && list_eqb a' b'
  | _, _ => false
  end.
Definition cycle_key (directed : bool) (c : list nat) : list nat :=
  if directed then roll_min c else isort (roll_min c).
Fixpoint dedup (directed : bool) (cycles : list (list nat)) (visited : list (list nat)) : list (list nat) :=
  match cycles with
  | [] => []
  | c :: rest =>
      let key := cycle_key directed c in
      if existsb (list_eqb key) visited then dedup directed rest visited
      else roll_min c :: dedup directed rest (key :: visited)
  end.

Definition first_with_label (comp : list nat) (l : nat) : nat :=
  hd 0 (filter (fun u => nthn comp u =? l) (seq 0 (length comp))).

Definition get_cycles (g : graph) (directed : option bool) (comp : list nat) : result (list (list nat)) :=
  match resolve_directed g directed with
  | Err e => Err e
  | Ok d =>
      let n := length g in
      let loops := map (fun u => [u]) (filter (fun u => edgeb g u u) (nodes g)) in
      if d && (n_labels comp =? n) then Ok loops
      else if negb d && count_criterion g comp then Ok loops
      else
        let labels := np_unique comp in
        let labels := if d then filter (fun l => 1 <? count comp l) labels else labels in
        let starts := map (first_with_label comp) labels in
        match concat_opt (map (fun s => gc_visit (S n) g d s [s]) starts) with
        | None => Err OutOfFuel
        | Some found => Ok (dedup d (loops ++ found) [])
        end
  end.

(** * break_cycles *)
Definition remove_edge (g : graph) (u v : nat) : graph :=
  map (fun i => if i =? u then filter (fun x => negb (x =? v)) (row g i) else row g i) (nodes g).
(** [adjacency - diags(adjacency.diagonal())]: the sparse subtraction returns canonical rows
    (sorted, no duplicates) without the diagonal. *)
Definition drop_loops (g : graph) : graph :=
  map (fun u => isort (nodup Nat.eq_dec (filter (fun v => negb (v =? u)) (row g u)))) (nodes g).
(** [len(path) > 1 and adjacency[path[-2], path[-1]] <= 0] *)
Definition edge_gone (g : graph) (path : list nat) : bool :=
  match rev path with
  | q :: p :: _ => negb (edgeb g p q)
  | _ => false
  end.

(** Directed branch. [set(neighbors) & set(cycle_nodes)] is iterated in increasing order
    (CPython set of small non-negative ints; rows are sorted here). *)
Fixpoint bc_scan_dir (cur : nat) (path : list nat) (nbrs : list nat) (g : graph) : graph * list nat :=
  match nbrs with
  | [] => (g, [])
  | v :: t =>
      if memn v path then bc_scan_dir cur path t (remove_edge g cur v)
      else let r := bc_scan_dir cur path t g in (fst r, v :: snd r)
  end.

Fixpoint bc_visit_dir (d : nat) (cyc : list nat) (g : graph) (cur : nat) (path : list nat) : option graph :=
  match d with
  | O => None
  | S d' =>
      if edge_gone g path then Some g
      else
        let r := bc_scan_dir cur path (filter (fun v => memn v cyc) (row g cur)) g in
        fold_left (fun acc v => match acc with
                                | Some ga => bc_visit_dir d' cyc ga v (path ++ [v])
                                | None => None
                                end) (rev (snd r)) (Some (fst r))
  end.

Definition zmin_list (l : list Z) : Z := match l with [] => 0%Z | x :: t => fold_left Z.min t x end.

(** One strongly connected component with more than one node. *)
Definition bc_component (g : graph) (comp : list nat) (dist : list Z) (label : nat) : option graph :=
  let n := length g in
  let cyc := filter (fun u => nthn comp u =? label) (seq 0 (length comp)) in
  let dmin := zmin_list (map (nthz dist) cyc) in
  let subroots := filter (fun u => (nthz dist u =? dmin)%Z) cyc in
  fold_left (fun acc s => match acc with
                          | Some ga => bc_visit_dir (S n) cyc ga s [s]
                          | None => None
                          end) (rev subroots) (Some g).

(** Undirected branch. [neighbors] is a snapshot (list copy) of the row at pop time. *)
Fixpoint bc_scan_und (cur : nat) (prev : option nat) (path : list nat) (nbrs : list nat) (g : graph)
  : graph * list nat :=
  match nbrs with
  | [] => (g, [])
  | v :: t =>
      if is_prev prev v then bc_scan_und cur prev path t g
      else if memn v path then bc_scan_und cur prev path t (remove_edge (remove_edge g cur v) v cur)
      else let r := bc_scan_und cur prev path t g in (fst r, v :: snd r)
  end.

Fixpoint bc_visit_und (d : nat) (g : graph) (cur : nat) (path : list nat) : option graph :=
  match d with
  | O => None
  | S d' =>
      if edge_gone g path then Some g
      else
        let r := bc_scan_und cur (prev_of path) path (row g cur) g in
        fold_left (fun acc v => match acc with
                                | Some ga => bc_visit_und d' ga v (path ++ [v])
                                | None => None
                                end) (rev (snd r)) (Some (fst r))
  end.

(** Repair proposed for defect D22 (not in the code unless [visit_others] is true, see below): after
    the given roots, one start node (the first) of every component that contains no root,
    [rooted = set(cc_labels[root])], components in increasing label order. *)
Definition other_starts (comp : list nat) (root : list nat) : list nat :=
  let rooted := map (nthn comp) root in
  map (first_with_label comp) (filter (fun l => negb (memn l rooted)) (np_unique comp)).

(** [root]: an int is the singleton list. [comp1]: oracle answer inside is_acyclic (input matrix);
    [comp2]: oracle answer for the matrix without self-loops (directed branch; repaired undirected
    branch). [visit_others] says whether the undirected branch also starts from the components
    without root — [false] for the code as it stands; the value used by the check is re-extracted from
    the source on every run (Gen/CyclesCode.v). *)
Definition break_cycles (visit_others : bool) (g : graph) (root : list nat) (directed : option bool)
           (comp1 comp2 : list nat) : result graph :=
  match is_acyclic g directed comp1 with
  | Err e => Err e
  | Ok true => Ok g
  | Ok false =>
      let n := length g in
      if negb (forallb (fun r => r <? n) root) then Err IndexError
      else if sumn (map (fun r => length (row g r)) root) =? 0 then Err ValueError
      else
        match resolve_directed g directed with
        | Err e => Err e
        | Ok d =>
            let g0 := drop_loops g in
            if d then
              let labels := filter (fun l => 1 <? count comp2 l) (np_unique comp2) in
              match bfs g0 (one_hot n root) with
              | None => Err OutOfFuel
              | Some dist =>
                  match fold_left (fun acc l => match acc with
                                                | Some ga => bc_component ga comp2 dist l
                                                | None => None
                                                end) labels (Some g0) with
                  | Some r => Ok r
                  | None => Err OutOfFuel
                  end
              end
            else
              let starts := if visit_others then root ++ other_starts comp2 root else root in
              match fold_left (fun acc s => match acc with
                                            | Some ga => bc_visit_und (S n) ga s [s]
                                            | None => None
                                            end) starts (Some g0) with
              | Some r => Ok r
              | None => Err OutOfFuel
              end
        end
  end.

(** * Specifications (independent of the code) *)
(** [chain E l]: consecutive elements of l are related. *)
Fixpoint chain (E : nat -> nat -> Prop) (l : list nat) : Prop :=
  match l with
  | [] => True
  | x :: t => match t with [] => True | y :: _ => E x y end /\ chain E t
  end.
(** A simple cycle of relation E: distinct nodes c0 .. ck-1, E ci c(i+1), E ck-1 c0.
    Length 1 is a self-loop, length 2 a pair of opposite edges. *)
Definition simple_cycle (E : nat -> nat -> Prop) (c : list nat) : Prop :=
  c <> [] /\ NoDup c /\ chain E (c ++ [hd 0 c]).
(** Directed graphs: every simple cycle counts. Undirected graphs (symmetric pattern):
    self-loops and simple cycles on at least 3 nodes. *)
Definition dcycle (g : graph) (c : list nat) : Prop := simple_cycle (edge g) c.
Definition ucycle (g : graph) (c : list nat) : Prop := simple_cycle (edge g) c /\ length c <> 2.
Definition has_cycle (g : graph) (directed : bool) : Prop :=
  exists c, if directed then dcycle g c else ucycle g c.

(** Rotations of a cyclic sequence. *)
Definition rot (k : nat) (c : list nat) : list nat := skipn k c ++ firstn k c.
Definition same_dcycle (a b : list nat) : Prop := exists k, b = rot k a.
Definition same_ucycle (a b : list nat) : Prop := same_dcycle a b \/ same_dcycle (rev a) b.

(** Executable versions. *)
Fixpoint chain_b (g : graph) (l : list nat) : bool :=
  match l with
  | [] => true
  | x :: t => match t with [] => true | y :: _ => edgeb g x y end && chain_b g t
  end.
Fixpoint nodup_b (l : list nat) : bool :=
  match l with [] => true | x :: t => negb (memn x t) && nodup_b t end.
Definition simple_cycle_b (g : graph) (c : list nat) : bool :=
  negb (length c =? 0) && nodup_b c && forallb (fun v => v <? length g) c && chain_b g (c ++ [hd 0 c]).

(** Brute-force acyclicity. Directed: no node has a successor from which it is reachable.
    Undirected: no loop, and no edge {u,v} whose endpoints stay connected without it. *)
Definition acyclic_dir_b (g : graph) : bool :=
  forallb (fun u => negb (existsb (fun v => nthb (reach_from g [v]) u) (row g u))) (nodes g).
Definition acyclic_und_b (g : graph) : bool :=
  negb (has_loops g) &&
  forallb (fun u => forallb (fun v =>
     negb (nthb (reach_from (remove_edge (remove_edge g u v) v u) [v]) u)) (row g u)) (nodes g).
Definition acyclic_b (g : graph) (directed : bool) : bool :=
  if directed then acyclic_dir_b g else acyclic_und_b g.

(** break_cycles' postcondition, decided by brute force: the result is a subgraph of the input on
    the same nodes, acyclic (in the sense of the branch taken; the undirected branch must return a
    symmetric pattern), and every node reachable from the root set in the input is reachable from
    it in the result. *)
Definition subgraph_b (h g : graph) : bool :=
  (length h =? length g) && forallb (fun u => forallb (fun v => edgeb g u v) (row h u)) (nodes h).
Definition keeps_reach_b (g h : graph) (root : list nat) : bool :=
  let a := reach_from g root in let b := reach_from h root in
  forallb (fun v => implb (nthb a v) (nthb b v)) (nodes g).
Definition bc_post (g : graph) (root : list nat) (directed : bool) (h : graph) : bool :=
  subgraph_b h g && acyclic_b h directed && (directed || is_symmetric h) && keeps_reach_b g h root.

(** Enumerations for the bounded theorems. *)
Fixpoint sublists (l : list nat) : list (list nat) :=
  match l with
  | [] => [[]]
  | x :: t => let s := sublists t in s ++ map (cons x) s
  end.
Fixpoint all_graphs_rows (rows : list (list (list nat))) : list graph :=
  match rows with
  | [] => [[]]
  | choices :: rest => flat_map (fun r => map (cons r) (all_graphs_rows rest)) choices
  end.
(** All digraphs on n nodes (rows sorted), with or without self-loops. *)
Definition all_digraphs (n : nat) (loops : bool) : list graph :=
  all_graphs_rows (map (fun u => sublists (filter (fun v => loops || negb (v =? u)) (seq 0 n))) (seq 0 n)).
(** All undirected graphs on n nodes with optional self-loops: choose the upper triangle (and the
    diagonal), then close under symmetry. Rows come out sorted. *)
Definition close_sym (g : graph) : graph :=
  map (fun u => filter (fun v => edgeb g u v || edgeb g v u) (nodes g)) (nodes g).
Definition all_undirected (n : nat) : list graph :=
  map close_sym (all_graphs_rows (map (fun u => sublists (filter (fun v => u <=? v) (seq 0 n))) (seq 0 n))).
Definition nonempty_sublists (l : list nat) : list (list nat) := filter (fun s => negb (length s =? 0)) (sublists l).

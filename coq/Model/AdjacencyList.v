(** Specification of sknetwork/data/parse.py:from_adjacency_list (definitions only).

    The code (both input forms) builds the edge list
        [(i, j) for i, neighbors in enumerate(adjacency_list) for j in neighbors]      (list of lists)
        [(i, j) for i, neighbors in adjacency_list.items()   for j in neighbors]      (dict, insertion order)
    and hands it to from_edge_list with no weights; the executable model of that conversion is
    [Parse.adjacency_edges] / [Parse.from_adjacency_dict] / [Parse.from_adjacency_list_nat].
    Here: what the resulting matrix must contain, written on the adjacency list itself. *)
From Coq Require Import String Ascii.
From SKN Require Import Base.Util Model.PathSafe Model.Parse.
Set Warnings "-notation-overridden".

(** A list of lists is the dict whose keys are the positions. *)
Definition enumerate_rows (adj : list (list nat)) : list (nat * list nat) :=
  combine (seq 0 (length adj)) adj.

Section AdjSpec.
  Context {id : Type}.
  Context (ideqb : id -> id -> bool).
  Context (as_int : id -> option nat).

  (** Number of occurrences of (an identifier that is) node [j] in the lists of the keys that are
      node [i] ([rn] / [cn]: row / column names of the result, [None] when nodes are not reindexed). *)
  Definition adj_count (rn cn : option (list id)) (adj : list (id * list id)) (i j : nat) : nat :=
    sumn (map (fun r => if is_node ideqb as_int rn i (fst r)
                        then length (filter (is_node ideqb as_int cn j) (snd r)) else 0) adj).

  (** Entry for [c] occurrences: the count when weighted and duplicates are summed, else 1 iff listed. *)
  Definition adj_base (fl : flags) (c : nat) : Z :=
    if weighted fl && sum_duplicates fl then Z.of_nat c else if 0 <? c then 1%Z else 0%Z.

  (** Symmetrised when undirected (sum of both directions when weighted, still binary when not);
      a biadjacency matrix (rows = keys, columns = neighbours) is never symmetrised. *)
  Definition adj_spec_entry (fl : flags) (rn cn : option (list id)) (adj : list (id * list id)) (i j : nat) : Z :=
    let b x y := adj_base fl (adj_count rn cn adj x y) in
    if bipartite fl || directed fl then b i j
    else if weighted fl then (b i j + b j i)%Z else Z.max (b i j) (b j i).
End AdjSpec.

(** Plain reading for a list of lists that is not reindexed: occurrences of [j] in list number [i]. *)
Definition occurrences (adj : list (list nat)) (i j : nat) : nat :=
  count_occ Nat.eq_dec (nth i adj []) j.

(** The dict form with integer keys (the annotation says str, any hashable key works). *)
Definition from_adjacency_dict_nat := @from_adjacency_dict nat Nat.eqb (fun k => Some k) nat_unique.

(** Executable model of sknetwork/hierarchy/postprocess.py (get_index, get_dendrogram, split_dendrogram; the
    model of reorder_dendrogram is Model/Cuts.v's, shared with C08) and of the tree construction and
    post-processing of hierarchy/louvain_hierarchy.py (LouvainHierarchy._get_hierarchy / .fit,
    LouvainIteration._recursive_louvain / .fit) around a Louvain ORACLE (the label vectors returned by
    [Louvain.fit_predict] are function arguments), and of hierarchy/base.py (_split_vars).
    Definitions only (no proofs).  Property C07. *)
From SKN Require Import Base.Util Model.Dendrogram Model.Cuts.

(** * Trees

    The Python trees are nested lists: a leaf is the one-element list [[i]] (i an int), an internal node is
    a list of at least two sub-trees.  [PLeaf i] stands for [[i]], [PNode ts] for the list of the sub-trees. *)
Inductive ptree := PLeaf (i : nat) | PNode (ts : list ptree).

Fixpoint tleaves (t : ptree) : list nat :=
  match t with
  | PLeaf i => [i]
  | PNode ts => flat_map tleaves ts
  end.

(** Every list has at least two elements (what both tree builders produce). *)
Fixpoint tree_shape (t : ptree) : bool :=
  match t with
  | PLeaf _ => true
  | PNode ts => Nat.leb 2 (length ts) && forallb tree_shape ts
  end.

(** get_index: [np.max] of the leaves. *)
Definition get_index (t : ptree) : nat := fold_right Nat.max 0 (tleaves t).

(** * get_dendrogram

    [size = defaultdict(lambda: 1)]: newest binding first. *)
Definition sizes := list (nat * nat).
Definition size_get (sz : sizes) (k : nat) : nat := match alookup k sz with Some s => s | None => 1 end.

(** The [while len(tree)] loop of the "merge all" branch: [k = tree.pop()[0]; s += size[k];
    dendrogram.append([index, k, -depth, s]); index += 1].
    [legacy = true] is the code before fix fb47193f: [s += 1] (defect D23). *)
Fixpoint merge_rest (legacy : bool) (h : Q) (ks : list nat) (sz : sizes) (index s : nat) : dendrogram * nat * nat :=
  match ks with
  | [] => ([], index, s)
  | k :: ks' =>
      let s' := s + (if legacy then 1 else size_get sz k) in
      let '(rows, idx, sf) := merge_rest legacy h ks' sz (S index) s' in
      ((index, k, h, s') :: rows, idx, sf)
  end.

(** "merge all": every element of the list is a one-element list [[label]]; they are popped from the END.
    Returns the new rows, the new index (= id of the cluster created last) and the size dict. *)
Definition merge_all (legacy : bool) (h : Q) (labels : list nat) (sz : sizes) (index : nat)
  : option (dendrogram * nat * sizes) :=
  match rev labels with
  | i :: j :: rest =>
      let s := size_get sz i + size_get sz j in
      let '(rows, idx, sf) := merge_rest legacy h rest sz (S index) s in
      Some ((i, j, h, s) :: rows, idx, (idx, sf) :: sz)
  | _ => None
  end.

(** The recursion.  The code looks for the FIRST element with more than one entry, converts it in place into
    [[index_]] by a recursive call at [depth + 1], appends its rows and starts again on the same list; when no such
    element is left it merges all.  That is a left-to-right pass over the children, each internal child being
    replaced by the label of its root.  Result: rows (in creation order), label of the root, (index, size). *)
Fixpoint gd (legacy : bool) (t : ptree) (depth : nat) (st : nat * sizes)
  : result (dendrogram * nat * (nat * sizes)) :=
  match t with
  | PLeaf i => Ok ([], i, st)
  | PNode ts =>
      let fix go (ts : list ptree) (st : nat * sizes) : result (dendrogram * list nat * (nat * sizes)) :=
        match ts with
        | [] => Ok ([], [], st)
        | c :: cs =>
            match gd legacy c (S depth) st with
            | Err e => Err e
            | Ok (r1, l1, st1) =>
                match go cs st1 with
                | Err e => Err e
                | Ok (r2, ls, st2) => Ok (r1 ++ r2, l1 :: ls, st2)
                end
            end
        end in
      match go ts st with
      | Err e => Err e
      | Ok (rows, labels, (index, sz)) =>
          match merge_all legacy (inject_Z (- Z.of_nat depth)) labels sz index with
          | Some (rows', index', sz') => Ok (rows ++ rows', index', (index', sz'))
          | None => Err ValueError     (* a list with fewer than two elements: not produced by the builders *)
          end
      end
  end.

(** The same pass over a list of children (the body of [gd]'s local fixpoint, named for the proofs). *)
Fixpoint gd_list (legacy : bool) (ts : list ptree) (depth : nat) (st : nat * sizes)
  : result (dendrogram * list nat * (nat * sizes)) :=
  match ts with
  | [] => Ok ([], [], st)
  | c :: cs =>
      match gd legacy c depth st with
      | Err e => Err e
      | Ok (r1, l1, st1) =>
          match gd_list legacy cs depth st1 with
          | Err e => Err e
          | Ok (r2, ls, st2) => Ok (r1 ++ r2, l1 :: ls, st2)
          end
      end
  end.

(** [get_dendrogram(tree)]: rows and final index.  The top-level call with a one-element list returns no row
    ([len(tree) > 1] fails). *)
Definition get_dendrogram_gen (legacy : bool) (t : ptree) : result (dendrogram * nat) :=
  match t with
  | PLeaf i => Ok ([], i)
  | PNode [] => Err ValueError                     (* np.max of an empty list *)
  | PNode [_] => Ok ([], get_index t)
  | PNode _ =>
      match gd legacy t 0 (get_index t, []) with
      | Ok (rows, _, (index, _)) => Ok (rows, index)
      | Err e => Err e
      end
  end.
Definition get_dendrogram := get_dendrogram_gen false.
Definition get_dendrogram_legacy := get_dendrogram_gen true.

(** * Post-processing of LouvainHierarchy.fit / LouvainIteration.fit

    [dendrogram = np.array(dendrogram); dendrogram[:, 2] += 1 - min(dendrogram[:, 2])]
    (an empty list gives an array of shape (0,): IndexError — what defect D24 ran into), then
    [reorder_dendrogram]. *)
Definition qmin (a b : Q) : Q := if Qle_bool a b then a else b.
Definition shift_heights (D : dendrogram) : result dendrogram :=
  match D with
  | [] => Err IndexError
  | r :: rs =>
      let m := fold_right (fun x acc => qmin (r_height x) acc) (r_height r) rs in
      Ok (map (fun x => (r_left x, r_right x, Qred (r_height x + (1 - m)), r_size x)) D)
  end.

Definition postprocess (t : ptree) : result dendrogram :=
  match get_dendrogram t with
  | Err e => Err e
  | Ok (D, _) =>
      match shift_heights D with
      | Err e => Err e
      | Ok D' => reorder_dendrogram D'
      end
  end.

(** * LouvainHierarchy._get_hierarchy

    [np.unique(labels)]: sorted distinct values. *)
Fixpoint ins_nat (x : nat) (l : list nat) : list nat :=
  match l with
  | [] => [x]
  | y :: t => if Nat.eqb x y then l else if Nat.ltb x y then x :: l else y :: ins_nat x t
  end.
Definition unique (l : list nat) : list nat := fold_right ins_nat [] l.

(** [[tree[node] for node in np.flatnonzero(labels == label)]] *)
Definition members (labels : list nat) (label : nat) : list nat :=
  map fst (filter (fun p => Nat.eqb (snd p) label) (combine (seq 0 (length labels)) labels)).

Fixpoint mapr_nth {A} (l : list A) (idx : list nat) : result (list A) :=
  match idx with
  | [] => Ok []
  | i :: rest =>
      match nth_error l i, mapr_nth l rest with
      | Some a, Ok out => Ok (a :: out)
      | None, _ => Err IndexError
      | _, Err e => Err e
      end
  end.

(** [cluster[0] if len(cluster) == 1 else cluster] *)
Definition unwrap1 (cluster : list ptree) : ptree :=
  match cluster with
  | [t] => t
  | _ => PNode cluster
  end.

Fixpoint group_level (tree : list ptree) (labels : list nat) (lu : list nat) : result (list ptree) :=
  match lu with
  | [] => Ok []
  | label :: rest =>
      match mapr_nth tree (members labels label), group_level tree labels rest with
      | Ok cluster, Ok out => Ok (unwrap1 cluster :: out)
      | Err e, _ => Err e
      | _, Err e => Err e
      end
  end.

(** The [while 1] loop.  [labels]: the labels in hand; [more]: the answers of the following
    [fit_predict(aggregate)] calls, in order (oracle).  The loop stops when a call does not reduce the number
    of clusters; running out of answers is reported as [KeyError] (never happens with a complete oracle). *)
Fixpoint lh_loop (tree : list ptree) (labels : list nat) (more : list (list nat)) : result (list ptree) :=
  let lu := unique labels in
  match group_level tree labels lu with
  | Err e => Err e
  | Ok tree' =>
      match more with
      | [] => Err KeyError
      | labels' :: more' =>
          if Nat.eqb (length lu) (length (unique labels')) then Ok tree'
          else lh_loop tree' labels' more'
      end
  end.

(** [fix_single = true]: the code after fix 35e73141 ([if len(tree) == 1 and isinstance(tree[0][0], list):
    tree = tree[0]]); [false]: the code before (defect D24). *)
Definition lh_tree_gen (fix_single : bool) (n : nat) (levels : list (list nat)) : result ptree :=
  match levels with
  | [] => Err KeyError
  | labels :: more =>
      match lh_loop (map PLeaf (seq 0 n)) labels more with
      | Err e => Err e
      | Ok tree =>
          match tree with
          | [PNode ts] => if fix_single then Ok (PNode ts) else Ok (PNode [PNode ts])
          | _ => Ok (PNode tree)
          end
      end
  end.
Definition lh_tree := lh_tree_gen true.

Definition louvain_hierarchy_fit (n : nat) (levels : list (list nat)) : result dendrogram :=
  match lh_tree n levels with
  | Err e => Err e
  | Ok t => postprocess t
  end.
(** Before 35e73141: the tree [[cluster]] has one element, get_dendrogram returns no row. *)
Definition louvain_hierarchy_fit_legacy (n : nat) (levels : list (list nat)) : result dendrogram :=
  match lh_tree_gen false n levels with
  | Err e => Err e
  | Ok (PNode [_]) => Err IndexError
  | Ok t => postprocess t
  end.

(** * LouvainIteration._recursive_louvain

    [oracle nodes] = the labels [fit_predict] returns on the sub-graph induced by [nodes] (one label per node of
    [nodes], in order); [has_edge nodes] = [adjacency.nnz > 0] for that sub-graph.  [depth]: a negative value
    never reaches 0.  Fuel: the node lists shrink strictly, [length nodes] is enough. *)
Fixpoint ri (fuel : nat) (oracle : list nat -> list nat) (has_edge : list nat -> bool) (depth : Z) (nodes : list nat)
  : result ptree :=
  match fuel with
  | O => Err KeyError
  | S f =>
      let labels := if has_edge nodes && negb (depth =? 0)%Z then oracle nodes else map (fun _ => 0) nodes in
      let clusters := unique labels in
      match clusters with
      | [] => Err IndexError                                   (* no node: nodes[0] *)
      | [_] => match nodes with
               | [] => Err IndexError
               | [v] => Ok (PLeaf v)
               | _ => Ok (PNode (map PLeaf nodes))
               end
      | _ =>
          let fix each (cs : list nat) : result (list ptree) :=
            match cs with
            | [] => Ok []
            | c :: rest =>
                match mapr_nth nodes (members labels c) with
                | Err e => Err e
                | Ok sub =>
                    match ri f oracle has_edge (depth - 1)%Z sub, each rest with
                    | Ok t, Ok ts => Ok (t :: ts)
                    | Err e, _ => Err e
                    | _, Err e => Err e
                    end
                end
            end in
          match each clusters with
          | Ok ts => Ok (PNode ts)
          | Err e => Err e
          end
      end
  end.

Definition louvain_iteration_fit (oracle : list nat -> list nat) (has_edge : list nat -> bool) (depth : Z) (n : nat)
  : result dendrogram :=
  match ri (S n) oracle has_edge depth (seq 0 n) with
  | Err e => Err e
  | Ok t => postprocess t
  end.

(** * split_dendrogram

    The four dicts [id_row, size_row, id_col, size_col] (insertion order), one side at a time (the two sides do
    not interact).  [lo, cnt]: the leaves of the side are [lo .. lo + cnt - 1] of the full dendrogram and
    [0 .. cnt - 1] of the side's dendrogram. *)
Record sstate := { s_id : list (nat * nat); s_size : list (nat * nat); s_new : nat; s_rows : dendrogram }.

Definition split_step (key : nat) (r : drow) (st : sstate) : result sstate :=
  let i := r_left r in let j := r_right r in
  if amem i (s_id st) && amem j (s_id st) then
    (* size[key] = size.pop(i) + size.pop(j); id[key] = id_new; append [id.pop(i), id.pop(j), h, size[key]] *)
    match alookup i (s_size st) with
    | None => Err KeyError
    | Some si =>
        let sz1 := aremove i (s_size st) in
        match alookup j sz1 with
        | None => Err KeyError
        | Some sj =>
            let sz2 := aremove j sz1 ++ [(key, si + sj)] in
            let id0 := s_id st ++ [(key, s_new st)] in
            match alookup i id0 with
            | None => Err KeyError
            | Some a =>
                let id1 := aremove i id0 in
                match alookup j id1 with
                | None => Err KeyError
                | Some b =>
                    Ok {| s_id := aremove j id1; s_size := sz2; s_new := S (s_new st);
                          s_rows := s_rows st ++ [(a, b, r_height r, si + sj)] |}
                end
            end
        end
    end
  else if amem i (s_id st) then
    match alookup i (s_size st), alookup i (s_id st) with
    | Some si, Some a =>
        Ok {| s_id := aremove i (s_id st) ++ [(key, a)]; s_size := aremove i (s_size st) ++ [(key, si)];
              s_new := s_new st; s_rows := s_rows st |}
    | _, _ => Err KeyError
    end
  else if amem j (s_id st) then
    match alookup j (s_size st), alookup j (s_id st) with
    | Some sj, Some b =>
        Ok {| s_id := aremove j (s_id st) ++ [(key, b)]; s_size := aremove j (s_size st) ++ [(key, sj)];
              s_new := s_new st; s_rows := s_rows st |}
    | _, _ => Err KeyError
    end
  else Ok st.

Fixpoint split_loop (key : nat) (rows : dendrogram) (st : sstate) : result sstate :=
  match rows with
  | [] => Ok st
  | r :: rest =>
      match split_step key r st with
      | Ok st' => split_loop (S key) rest st'
      | Err e => Err e
      end
  end.

Definition split_init (lo cnt : nat) : sstate :=
  {| s_id := map (fun i => (lo + i, i)) (seq 0 cnt); s_size := map (fun i => (lo + i, 1)) (seq 0 cnt);
     s_new := cnt; s_rows := [] |}.

(** [for t in range(n1 + n2 - 1): dendrogram[t, ...]]: a dendrogram with fewer rows raises IndexError, further
    rows are ignored. *)
Definition split_side (D : dendrogram) (n1 n2 : nat) (lo cnt : nat) : result dendrogram :=
  if Nat.ltb (length D) (n1 + n2 - 1) then Err IndexError
  else match split_loop (n1 + n2) (firstn (n1 + n2 - 1) D) (split_init lo cnt) with
       | Ok st => Ok (s_rows st)
       | Err e => Err e
       end.

Definition split_dendrogram (D : dendrogram) (n1 n2 : nat) : result (dendrogram * dendrogram) :=
  match split_side D n1 n2 0 n1, split_side D n1 n2 n1 n2 with
  | Ok Dr, Ok Dc => Ok (Dr, Dc)
  | Err e, _ => Err e
  | _, Err e => Err e
  end.

(** * Specification of "agrees with the full dendrogram restricted to one side"

    For every merge of the full dendrogram whose two children both contain a leaf of the side: the leaves of the
    side below the left child, below the right child, and the height — in row order.  The side's dendrogram
    must show exactly this sequence (leaves renumbered from 0). *)
Definition side_leaves (lo cnt : nat) (l : list nat) : list nat :=
  map (fun x => x - lo) (filter (fun x => Nat.leb lo x && Nat.ltb x (lo + cnt)) l).

Definition restrict_view (n : nat) (D : dendrogram) (lo cnt : nat) : list (list nat * list nat * Q) :=
  flat_map (fun r =>
              let a := side_leaves lo cnt (leaves n D (r_left r)) in
              let b := side_leaves lo cnt (leaves n D (r_right r)) in
              match a, b with
              | _ :: _, _ :: _ => [(a, b, r_height r)]
              | _, _ => []
              end) D.

Definition own_view (n : nat) (D : dendrogram) : list (list nat * list nat * Q) :=
  map (fun r => (leaves n D (r_left r), leaves n D (r_right r), r_height r)) D.

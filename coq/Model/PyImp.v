(** A small imperative Python: the statement-level language into which harness/translators/pyimp.py translates the
    dict-and-loop code of sknetwork/hierarchy/postprocess.py on every run (-> Gen/PyCuts.v).  Definitions only.

    Where Model/NpExpr.v and Model/NpVec.v cover NumPy EXPRESSIONS, this language covers STATEMENTS: assignments,
    [x[k] = v] on dicts, [x.append(v)], [if], [for t in range(e)], [for a, b, c, d in rows], [raise], and expressions
    with the side effect [d.pop(k)], evaluated in Python's order (right-hand side before the target's subscript;
    [and] / [or] short-circuit).  Proofs/PyCutsProofs.v proves, for ALL dendrograms and arguments, that running the
    GENERATED programs gives exactly what the hand-written functional model of Model/Cuts.v gives, so that every theorem
    of Props/C08.v about that model is a theorem about what the source text computes (under this semantics).

    Values: [None], booleans, unbounded integers (Python int, np.int64 below 2^63), numbers (floats read as the exact
    rationals they are; [np.inf]), lists, and dicts with integer keys in INSERTION ORDER ([pop] removes, [d[k] = v]
    replaces in place or appends).  A 2-D float array is the list of its rows, a row the list of its entries.
    What this semantics does not see: float rounding (heights are only compared, never computed with), the
    difference between a NumPy scalar and a Python number, object identity / aliasing (every value is immutable here:
    the translated fragments never alias a list that they later mutate — [cluster.pop(i) + cluster.pop(j)] builds a new
    list). *)
From SKN Require Import Base.Util.
From Coq Require Import String Qround.
Local Open Scope nat_scope.

Inductive perr := PKeyError | PIndexError | PTypeError | PValueError | PUnbound.
Inductive pres (A : Type) := POk (a : A) | PErr (e : perr).
Arguments POk {A} a.
Arguments PErr {A} e.

Inductive val :=
| VNone
| VBool (b : bool)
| VInt (z : Z)
| VNum (q : Q)
| VInf
| VList (l : list val)
| VDict (d : list (Z * val)).

Inductive binop := BAdd | BSub | BMul.
Inductive kind := KList | KArray | KDict.
Inductive cmpop := CLt | CLe | CGt | CGe | CEq | CNe.

Inductive expr :=
| EVar (x : string)
| EInt (z : Z)
| ENone
| EBool (b : bool)
| EInf                                   (* np.inf *)
| EBin (o : binop) (a b : expr)
| ECmp (o : cmpop) (a b : expr)
| EAnd (a b : expr)                      (* short-circuit; operands must be booleans *)
| EOr (a b : expr)
| ENot (a : expr)
| EIsNone (a : expr)                     (* a is None *)
| EIndex (a i : expr)                    (* a[i]: list element (negative i counts from the end) or dict lookup *)
| EIn (k d : expr)                       (* k in d, d a dict *)
| ELen (a : expr)                        (* len(a), a.shape[0] *)
| EIntOf (a : expr)                      (* int(a): truncation towards zero *)
| EMax (a b : expr)                      (* max(a, b) on numbers *)
| EPop (x : string) (k : expr)           (* x.pop(k), x a variable holding a dict: removes the key, value = the old entry *)
| EList (l : list expr)                  (* [a, b, ...] *)
| EDictRange (x : string) (k v n : expr) (* {k: v for x in range(n)} *)
| ESortedCol (a : expr) (c : Z)          (* np.sort(a[:, c]) *)
| EDictValues (a : expr)                 (* list(a.values()) *)
| EListComp (x : string) (body it : expr)        (* [body for x in it]; body is evaluated with x bound, its effects are dropped *)
| ENeg (a : expr)                        (* -a on a number or (elementwise) on an integer array *)
| EOracle (name : string) (a : expr)     (* an external function whose ANSWER FOR THIS CALL is supplied in the environment under
                                            "oracle:" ++ name (np.argsort: any permutation that sorts); a is evaluated first *)
| EZeros (n : expr)                      (* np.zeros(n, dtype=int) *)
| EDictEnum (i x : string) (k v it : expr)       (* {k: v for i, x in enumerate(it)} *)
| EIsInst (k : kind) (a : expr)          (* isinstance(a, list | np.ndarray | dict): a Python list and a 1-D array are the SAME value here,
                                            so both tests hold of it *)
| EDictKeys (a : expr)                   (* list(a.keys()) *)
| EMin (a : expr)                        (* np.min(a): ValueError on an empty array *)
| EOnes (n : expr)                       (* np.ones(n) *)
| EAsFloat (a : expr)                    (* a.astype(float) *)
| EHstack (a b : expr)                   (* np.hstack((a, b)) *)
| EFull (n x : expr).                    (* x * np.ones(n): the array of n copies of the number x (x * 1.0 = x exactly) *)

Inductive stmt :=
| SSkip
| SSeq (a b : stmt)
| SAssign (x : string) (e : expr)
| SAugAdd (x : string) (e : expr)        (* x += e *)
| SSetItem (x : string) (k v : expr)     (* x[k] = v, x a variable holding a dict; v is evaluated first *)
| SAppend (x : string) (e : expr)        (* x.append(e) *)
| SIf (c : expr) (a b : stmt)
| SForRange (x : string) (n : expr) (body : stmt)
| SForRows (xs : list string) (a : expr) (body : stmt)   (* for x1, ..., xk in a *)
| SForEnum (i x : string) (a : expr) (body : stmt)       (* for i, x in enumerate(a) *)
| SUnpack (xs : list string) (e : expr)                  (* x1, ..., xk = e   (e a tuple / list of k values) *)
| SRaise (e : perr).

Definition env := string -> option val.
Definition upd (x : string) (v : val) (e : env) : env := fun y => if String.eqb x y then Some v else e y.
Definition empty_env : env := fun _ => None.

(** * Primitive operations *)

(** int(q): truncation towards zero *)
Definition qtrunc (q : Q) : Z := if Qle_bool 0 q then Qfloor q else Qceiling q.

Definition qlt (a b : Q) : bool := negb (Qle_bool b a).

(** Comparisons of numbers: ints, rationals, +inf. *)
Inductive num := NQ (q : Q) | NInf.
Definition as_num (v : val) : option num :=
  match v with VInt z => Some (NQ (inject_Z z)) | VNum q => Some (NQ q) | VInf => Some NInf | _ => None end.
Definition num_lt (a b : num) : bool :=
  match a, b with
  | NQ x, NQ y => qlt x y
  | NQ _, NInf => true
  | NInf, _ => false
  end.
Definition num_eq (a b : num) : bool :=
  match a, b with NQ x, NQ y => Qeq_bool x y | NInf, NInf => true | _, _ => false end.

Definition cmp_vals (o : cmpop) (a b : val) : pres val :=
  match as_num a, as_num b with
  | Some x, Some y =>
      POk (VBool (match o with
                  | CLt => num_lt x y
                  | CLe => negb (num_lt y x)
                  | CGt => num_lt y x
                  | CGe => negb (num_lt x y)
                  | CEq => num_eq x y
                  | CNe => negb (num_eq x y)
                  end))
  | _, _ => PErr PTypeError
  end.

Definition bin_vals (o : binop) (a b : val) : pres val :=
  match o, a, b with
  | BAdd, VInt x, VInt y => POk (VInt (x + y))
  | BSub, VInt x, VInt y => POk (VInt (x - y))
  | BMul, VInt x, VInt y => POk (VInt (x * y))
  | BAdd, VNum x, VNum y => POk (VNum (x + y))
  | BSub, VNum x, VNum y => POk (VNum (x - y))
  | BMul, VNum x, VNum y => POk (VNum (x * y))
  | BAdd, VList x, VList y => POk (VList (x ++ y))
  | BMul, VNum x, VList y =>                       (* scalar * array of numbers *)
      (fix go (l : list val) : pres val :=
         match l with
         | [] => POk (VList [])
         | VNum q :: t => match go t with POk (VList r) => POk (VList (VNum (x * q) :: r)) | POk _ => PErr PTypeError | PErr e => PErr e end
         | _ :: _ => PErr PTypeError
         end) y
  | _, _, _ => PErr PTypeError
  end.

(** max(a, b); on a tie the second operand is returned (Python returns the first; the two are equal numbers and the
    result is only ever compared).  max(inf, x) = inf. *)
Definition max_vals (a b : val) : pres val :=
  match as_num a, as_num b with
  | Some NInf, Some _ => POk VInf
  | Some _, Some NInf => POk VInf
  | Some (NQ x), Some (NQ y) => POk (if Qle_bool x y then b else a)
  | _, _ => PErr PTypeError
  end.

(** dicts with integer keys, in insertion order *)
Fixpoint dget (k : Z) (d : list (Z * val)) : option val :=
  match d with
  | [] => None
  | (k', v) :: t => if Z.eqb k k' then Some v else dget k t
  end.
Fixpoint dremove (k : Z) (d : list (Z * val)) : list (Z * val) :=
  match d with
  | [] => []
  | (k', v) :: t => if Z.eqb k k' then t else (k', v) :: dremove k t
  end.
Fixpoint dset (k : Z) (v : val) (d : list (Z * val)) : list (Z * val) :=
  match d with
  | [] => [(k, v)]
  | (k', v') :: t => if Z.eqb k k' then (k, v) :: t else (k', v') :: dset k v t
  end.

(** a dict key given as a number: an integer, or a float with an integral value (hash(2.0) = hash(2) and 2.0 == 2 in Python);
    [Some None]: a number that cannot be among integer keys *)
Definition as_key (v : val) : option (option Z) :=
  match v with
  | VInt z => Some (Some z)
  | VNum q => Some (if Qeq_bool (inject_Z (qtrunc q)) q then Some (qtrunc q) else None)
  | _ => None
  end.

(** a[i] on a list with Python's negative indices *)
Definition list_index (l : list val) (i : Z) : pres val :=
  let len := Z.of_nat (List.length l) in
  let i' := if (i <? 0)%Z then (len + i)%Z else i in
  if (i' <? 0)%Z then PErr PIndexError
  else match nth_error l (Z.to_nat i') with Some v => POk v | None => PErr PIndexError end.

Definition index_vals (a i : val) : pres val :=
  match a, i with
  | VList l, VInt z => list_index l z
  | VDict d, VInt z => match dget z d with Some v => POk v | None => PErr PKeyError end
  | VDict d, VNum q =>
      match as_key (VNum q) with
      | Some (Some z) => match dget z d with Some v => POk v | None => PErr PKeyError end
      | _ => PErr PKeyError
      end
  | _, _ => PErr PTypeError
  end.

(** insertion sort of rationals ([np.sort]: the sorted sequence is unique up to the order of equal values) *)
Fixpoint pins (x : Q) (l : list Q) : list Q :=
  match l with
  | [] => [x]
  | y :: t => if Qle_bool x y then x :: l else y :: pins x t
  end.
Definition psort (l : list Q) : list Q := fold_right pins [] l.

Fixpoint column (c : Z) (rows : list val) : pres (list Q) :=
  match rows with
  | [] => POk []
  | VList r :: t =>
      match list_index r c with
      | POk (VNum q) => match column c t with POk qs => POk (q :: qs) | PErr e => PErr e end
      | POk _ => PErr PTypeError
      | PErr e => PErr e
      end
  | _ :: _ => PErr PTypeError
  end.

(** -a *)
Definition neg_val (v : val) : pres val :=
  match v with
  | VInt z => POk (VInt (- z))
  | VNum q => POk (VNum (- q))
  | VList l =>
      (fix go (l : list val) : pres val :=
         match l with
         | [] => POk (VList [])
         | VInt z :: t => match go t with POk (VList r) => POk (VList (VInt (- z) :: r)) | POk _ => PErr PTypeError | PErr e => PErr e end
         | _ :: _ => PErr PTypeError
         end) l
  | _ => PErr PTypeError
  end.

(** a[i] = v on a list, Python's negative indices *)
Fixpoint list_set_nat (l : list val) (i : nat) (v : val) : option (list val) :=
  match l, i with
  | [], _ => None
  | _ :: t, O => Some (v :: t)
  | h :: t, S i' => match list_set_nat t i' v with Some t' => Some (h :: t') | None => None end
  end.
Definition list_set (l : list val) (i : Z) (v : val) : pres (list val) :=
  let len := Z.of_nat (List.length l) in
  let i' := if (i <? 0)%Z then (len + i)%Z else i in
  if (i' <? 0)%Z then PErr PIndexError
  else match list_set_nat l (Z.to_nat i') v with Some l' => POk l' | None => PErr PIndexError end.
(** a[idx] = v with idx an integer array: every listed position receives v (NumPy checks all indices first; here the first bad
    index raises - the final state is not observable after an exception) *)
Fixpoint fancy_set (l : list val) (idx : list val) (v : val) : pres (list val) :=
  match idx with
  | [] => POk l
  | VInt z :: t => match list_set l z v with POk l' => fancy_set l' t v | PErr e => PErr e end
  | _ :: _ => PErr PTypeError
  end.

(** comprehension helpers *)
Fixpoint map_pres (f : val -> pres val) (items : list val) : pres (list val) :=
  match items with
  | [] => POk []
  | item :: rest =>
      match f item with
      | PErr err => PErr err
      | POk v => match map_pres f rest with POk vs => POk (v :: vs) | PErr err => PErr err end
      end
  end.
Fixpoint dict_range (f : nat -> pres (Z * val)) (is : list nat) (acc : list (Z * val)) : pres (list (Z * val)) :=
  match is with
  | [] => POk acc
  | i :: rest =>
      match f i with
      | PErr err => PErr err
      | POk (kz, vv) => dict_range f rest (dset kz vv acc)
      end
  end.
Fixpoint dict_enum (f : nat -> val -> pres (Z * val)) (items : list val) (pos : nat) (acc : list (Z * val))
  : pres (list (Z * val)) :=
  match items with
  | [] => POk acc
  | item :: rest =>
      match f pos item with
      | PErr err => PErr err
      | POk (kz, vv) => dict_enum f rest (S pos) (dset kz vv acc)
      end
  end.

(** a[idx] = vals with idx an integer array and vals an array of the same length: pairwise, in order (a later duplicate wins) *)
Fixpoint fancy_set_vec (l : list val) (idx vals : list val) : pres (list val) :=
  match idx, vals with
  | [], [] => POk l
  | VInt z :: t, v :: vt => match list_set l z v with POk l' => fancy_set_vec l' t vt | PErr e => PErr e end
  | VInt _ :: _, [] | [], _ :: _ => PErr PValueError
  | _ :: _, _ => PErr PTypeError
  end.

Fixpoint min_q (x : Q) (l : list val) : pres Q :=
  match l with
  | [] => POk x
  | VNum y :: t => min_q (if Qle_bool x y then x else y) t
  | VInt z :: t => min_q (if Qle_bool x (inject_Z z) then x else inject_Z z) t
  | _ :: _ => PErr PTypeError
  end.

Fixpoint as_float (l : list val) : pres (list val) :=
  match l with
  | [] => POk []
  | VNum q :: t => match as_float t with POk r => POk (VNum q :: r) | PErr e => PErr e end
  | VInt z :: t => match as_float t with POk r => POk (VNum (inject_Z z) :: r) | PErr e => PErr e end
  | _ :: _ => PErr PTypeError
  end.

(** * Expressions (with the side effect of [pop]) *)

Fixpoint bind_all (xs : list string) (vs : list val) (e : env) : option env :=
  match xs, vs with
  | [], [] => Some e
  | x :: xs', v :: vs' => bind_all xs' vs' (upd x v e)
  | _, _ => None
  end.

Fixpoint eval (ex : expr) (e : env) {struct ex} : pres (env * val) :=
  match ex with
  | EVar x => match e x with Some v => POk (e, v) | None => PErr PUnbound end
  | EInt z => POk (e, VInt z)
  | ENone => POk (e, VNone)
  | EBool b => POk (e, VBool b)
  | EInf => POk (e, VInf)
  | EBin o a b =>
      match eval a e with
      | PErr x => PErr x
      | POk (e1, va) =>
          match eval b e1 with
          | PErr x => PErr x
          | POk (e2, vb) => match bin_vals o va vb with POk v => POk (e2, v) | PErr x => PErr x end
          end
      end
  | ECmp o a b =>
      match eval a e with
      | PErr x => PErr x
      | POk (e1, va) =>
          match eval b e1 with
          | PErr x => PErr x
          | POk (e2, vb) => match cmp_vals o va vb with POk v => POk (e2, v) | PErr x => PErr x end
          end
      end
  | EAnd a b =>
      match eval a e with
      | PErr x => PErr x
      | POk (e1, VBool false) => POk (e1, VBool false)
      | POk (e1, VBool true) =>
          match eval b e1 with
          | PErr x => PErr x
          | POk (e2, VBool c) => POk (e2, VBool c)
          | POk _ => PErr PTypeError
          end
      | POk _ => PErr PTypeError
      end
  | EOr a b =>
      match eval a e with
      | PErr x => PErr x
      | POk (e1, VBool true) => POk (e1, VBool true)
      | POk (e1, VBool false) =>
          match eval b e1 with
          | PErr x => PErr x
          | POk (e2, VBool c) => POk (e2, VBool c)
          | POk _ => PErr PTypeError
          end
      | POk _ => PErr PTypeError
      end
  | ENot a =>
      match eval a e with
      | PErr x => PErr x
      | POk (e1, VBool c) => POk (e1, VBool (negb c))
      | POk _ => PErr PTypeError
      end
  | EIsNone a =>
      match eval a e with
      | PErr x => PErr x
      | POk (e1, VNone) => POk (e1, VBool true)
      | POk (e1, _) => POk (e1, VBool false)
      end
  | EIndex a i =>
      match eval a e with
      | PErr x => PErr x
      | POk (e1, va) =>
          match eval i e1 with
          | PErr x => PErr x
          | POk (e2, vi) => match index_vals va vi with POk v => POk (e2, v) | PErr x => PErr x end
          end
      end
  | EIn k d =>
      match eval k e with
      | PErr x => PErr x
      | POk (e1, vk) =>
          match eval d e1 with
          | PErr x => PErr x
          | POk (e2, VDict dd) =>
              match as_key vk with
              | Some (Some z) => POk (e2, VBool (match dget z dd with Some _ => true | None => false end))
              | Some None => POk (e2, VBool false)
              | None => PErr PTypeError
              end
          | POk _ => PErr PTypeError
          end
      end
  | ELen a =>
      match eval a e with
      | PErr x => PErr x
      | POk (e1, VList l) => POk (e1, VInt (Z.of_nat (List.length l)))
      | POk (e1, VDict d) => POk (e1, VInt (Z.of_nat (List.length d)))
      | POk _ => PErr PTypeError
      end
  | EIntOf a =>
      match eval a e with
      | PErr x => PErr x
      | POk (e1, VInt z) => POk (e1, VInt z)
      | POk (e1, VNum q) => POk (e1, VInt (qtrunc q))
      | POk _ => PErr PTypeError
      end
  | EMax a b =>
      match eval a e with
      | PErr x => PErr x
      | POk (e1, va) =>
          match eval b e1 with
          | PErr x => PErr x
          | POk (e2, vb) => match max_vals va vb with POk v => POk (e2, v) | PErr x => PErr x end
          end
      end
  | EPop x k =>
      match eval k e with
      | PErr err => PErr err
      | POk (e1, vk) =>
          match as_key vk with
          | Some (Some z) =>
              match e1 x with
              | Some (VDict d) =>
                  match dget z d with
                  | Some v => POk (upd x (VDict (dremove z d)) e1, v)
                  | None => PErr PKeyError
                  end
              | Some _ => PErr PTypeError
              | None => PErr PUnbound
              end
          | Some None => match e1 x with Some (VDict _) => PErr PKeyError | Some _ => PErr PTypeError | None => PErr PUnbound end
          | None => PErr PTypeError
          end
      end
  | EList l =>
      (fix evals (l : list expr) (e : env) : pres (env * val) :=
         match l with
         | [] => POk (e, VList [])
         | a :: t =>
             match eval a e with
             | PErr x => PErr x
             | POk (e1, va) =>
                 match evals t e1 with
                 | POk (e2, VList vs) => POk (e2, VList (va :: vs))
                 | POk _ => PErr PTypeError
                 | PErr x => PErr x
                 end
             end
         end) l e
  | EDictRange x k v n =>
      match eval n e with
      | PErr err => PErr err
      | POk (e1, VInt cnt) =>
          (* the comprehension has its own scope: x does not leak; k and v are evaluated with x bound; a repeated
             key overwrites in place, as in Python *)
          match dict_range (fun i =>
                              let ei := upd x (VInt (Z.of_nat i)) e1 in
                              match eval k ei with
                              | PErr err => PErr err
                              | POk (_, VInt kz) =>
                                  match eval v ei with
                                  | PErr err => PErr err
                                  | POk (_, vv) => POk (kz, vv)
                                  end
                              | POk _ => PErr PTypeError
                              end) (seq 0 (Z.to_nat cnt)) [] with
          | POk d => POk (e1, VDict d)
          | PErr err => PErr err
          end
      | POk _ => PErr PTypeError
      end
  | ESortedCol a c =>
      match eval a e with
      | PErr x => PErr x
      | POk (e1, VList rows) =>
          match column c rows with
          | POk qs => POk (e1, VList (map VNum (psort qs)))
          | PErr x => PErr x
          end
      | POk _ => PErr PTypeError
      end
  | EDictValues a =>
      match eval a e with
      | PErr x => PErr x
      | POk (e1, VDict d) => POk (e1, VList (map snd d))
      | POk _ => PErr PTypeError
      end
  | EListComp x body it =>
      match eval it e with
      | PErr err => PErr err
      | POk (e1, VList items) =>
          match map_pres (fun item => match eval body (upd x item e1) with
                                      | PErr err => PErr err
                                      | POk (_, v) => POk v
                                      end) items with
          | POk vs => POk (e1, VList vs)
          | PErr err => PErr err
          end
      | POk _ => PErr PTypeError
      end
  | ENeg a =>
      match eval a e with
      | PErr x => PErr x
      | POk (e1, v) => match neg_val v with POk r => POk (e1, r) | PErr x => PErr x end
      end
  | EOracle name a =>
      match eval a e with
      | PErr x => PErr x
      | POk (e1, VList _) =>
          match e1 (String.append "oracle:" name) with
          | Some v => POk (e1, v)
          | None => PErr PUnbound
          end
      | POk _ => PErr PTypeError
      end
  | EZeros n =>
      match eval n e with
      | PErr x => PErr x
      | POk (e1, VInt z) => POk (e1, VList (repeat (VInt 0) (Z.to_nat z)))
      | POk _ => PErr PTypeError
      end
  | EDictEnum i x k v it =>
      match eval it e with
      | PErr err => PErr err
      | POk (e1, VList items) =>
          match dict_enum (fun pos item =>
                             let ei := upd x item (upd i (VInt (Z.of_nat pos)) e1) in
                             match eval k ei with
                             | PErr err => PErr err
                             | POk (_, VInt kz) =>
                                 match eval v ei with
                                 | PErr err => PErr err
                                 | POk (_, vv) => POk (kz, vv)
                                 end
                             | POk _ => PErr PTypeError
                             end) items 0 [] with
          | POk d => POk (e1, VDict d)
          | PErr err => PErr err
          end
      | POk _ => PErr PTypeError
      end
  | EIsInst k a =>
      match eval a e with
      | PErr x => PErr x
      | POk (e1, v) =>
          POk (e1, VBool (match k, v with
                          | KList, VList _ | KArray, VList _ | KDict, VDict _ => true
                          | _, _ => false
                          end))
      end
  | EDictKeys a =>
      match eval a e with
      | PErr x => PErr x
      | POk (e1, VDict d) => POk (e1, VList (map (fun kv => VInt (fst kv)) d))
      | POk _ => PErr PTypeError
      end
  | EMin a =>
      match eval a e with
      | PErr x => PErr x
      | POk (e1, VList []) => PErr PValueError
      | POk (e1, VList (VNum q :: t)) => match min_q q t with POk m => POk (e1, VNum m) | PErr x => PErr x end
      | POk (e1, VList (VInt z :: t)) => match min_q (inject_Z z) t with POk m => POk (e1, VNum m) | PErr x => PErr x end
      | POk _ => PErr PTypeError
      end
  | EOnes n =>
      match eval n e with
      | PErr x => PErr x
      | POk (e1, VInt z) => POk (e1, VList (repeat (VNum 1) (Z.to_nat z)))
      | POk _ => PErr PTypeError
      end
  | EAsFloat a =>
      match eval a e with
      | PErr x => PErr x
      | POk (e1, VList l) => match as_float l with POk r => POk (e1, VList r) | PErr x => PErr x end
      | POk _ => PErr PTypeError
      end
  | EFull n x =>
      match eval n e with
      | PErr err => PErr err
      | POk (e1, VInt z) =>
          match eval x e1 with
          | PErr err => PErr err
          | POk (e2, VNum q) => POk (e2, VList (repeat (VNum q) (Z.to_nat z)))
          | POk (e2, VInt k) => POk (e2, VList (repeat (VNum (inject_Z k)) (Z.to_nat z)))
          | POk _ => PErr PTypeError
          end
      | POk _ => PErr PTypeError
      end
  | EHstack a b =>
      match eval a e with
      | PErr x => PErr x
      | POk (e1, va) =>
          match eval b e1 with
          | PErr x => PErr x
          | POk (e2, vb) =>
              match va, vb with
              | VList x, VList y => POk (e2, VList (x ++ y))
              | _, _ => PErr PTypeError
              end
          end
      end
  end.

(** * Statements *)

Fixpoint for_range (f : Z -> env -> pres env) (cnt : nat) (i : Z) (e : env) : pres env :=
  match cnt with
  | O => POk e
  | S c => match f i e with POk e' => for_range f c (i + 1)%Z e' | PErr x => PErr x end
  end.

Fixpoint for_rows (f : val -> env -> pres env) (rows : list val) (e : env) : pres env :=
  match rows with
  | [] => POk e
  | r :: t => match f r e with POk e' => for_rows f t e' | PErr x => PErr x end
  end.

Fixpoint for_enum (f : Z -> val -> env -> pres env) (items : list val) (pos : Z) (e : env) : pres env :=
  match items with
  | [] => POk e
  | item :: t => match f pos item e with POk e' => for_enum f t (pos + 1)%Z e' | PErr x => PErr x end
  end.

Fixpoint exec (s : stmt) (e : env) {struct s} : pres env :=
  match s with
  | SSkip => POk e
  | SSeq a b => match exec a e with POk e1 => exec b e1 | PErr x => PErr x end
  | SAssign x ex => match eval ex e with POk (e1, v) => POk (upd x v e1) | PErr err => PErr err end
  | SAugAdd x ex =>
      match e x with
      | None => PErr PUnbound
      | Some v0 =>
          match eval ex e with
          | PErr err => PErr err
          | POk (e1, v) => match bin_vals BAdd v0 v with POk r => POk (upd x r e1) | PErr err => PErr err end
          end
      end
  | SSetItem x k v =>
      match eval v e with
      | PErr err => PErr err
      | POk (e1, vv) =>
          match eval k e1 with
          | PErr err => PErr err
          | POk (e2, VInt kz) =>
              match e2 x with
              | Some (VDict d) => POk (upd x (VDict (dset kz vv d)) e2)
              | Some (VList l) => match list_set l kz vv with POk l' => POk (upd x (VList l') e2) | PErr err => PErr err end
              | Some _ => PErr PTypeError
              | None => PErr PUnbound
              end
          | POk (e2, VList idx) =>                (* x[idx] = v with an integer array idx (NumPy) *)
              match e2 x with
              | Some (VList l) =>
                  match (match vv with VList vs => fancy_set_vec l idx vs | _ => fancy_set l idx vv end) with
                  | POk l' => POk (upd x (VList l') e2)
                  | PErr err => PErr err
                  end
              | Some _ => PErr PTypeError
              | None => PErr PUnbound
              end
          | POk _ => PErr PTypeError
          end
      end
  | SAppend x ex =>
      match eval ex e with
      | PErr err => PErr err
      | POk (e1, v) =>
          match e1 x with
          | Some (VList l) => POk (upd x (VList (l ++ [v])) e1)
          | Some _ => PErr PTypeError
          | None => PErr PUnbound
          end
      end
  | SIf c a b =>
      match eval c e with
      | PErr err => PErr err
      | POk (e1, VBool true) => exec a e1
      | POk (e1, VBool false) => exec b e1
      | POk _ => PErr PTypeError
      end
  | SForRange x n body =>
      match eval n e with
      | PErr err => PErr err
      | POk (e1, VInt cnt) => for_range (fun i e' => exec body (upd x (VInt i) e')) (Z.to_nat cnt) 0%Z e1
      | POk _ => PErr PTypeError
      end
  | SForRows xs a body =>
      match eval a e with
      | PErr err => PErr err
      | POk (e1, VList rows) =>
          for_rows (fun r e' => match r with
                                | VList vs => match bind_all xs vs e' with
                                              | Some e'' => exec body e''
                                              | None => PErr PValueError
                                              end
                                | _ => PErr PTypeError
                                end) rows e1
      | POk _ => PErr PTypeError
      end
  | SForEnum i x a body =>
      match eval a e with
      | PErr err => PErr err
      | POk (e1, VList items) =>
          for_enum (fun pos item e' => exec body (upd x item (upd i (VInt pos) e'))) items 0%Z e1
      | POk _ => PErr PTypeError
      end
  | SUnpack xs ex =>
      match eval ex e with
      | PErr err => PErr err
      | POk (e1, VList vs) => match bind_all xs vs e1 with Some e2 => POk e2 | None => PErr PValueError end
      | POk _ => PErr PTypeError
      end
  | SRaise err => PErr err
  end.

(** Running a program from a list of bindings; the value of a variable afterwards. *)
Definition env_of (l : list (string * val)) : env := fold_right (fun xv e => upd (fst xv) (snd xv) e) empty_env l.
Definition run_var (s : stmt) (l : list (string * val)) (x : string) : pres (option val) :=
  match exec s (env_of l) with POk e => POk (e x) | PErr err => PErr err end.

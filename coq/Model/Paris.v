(** Executable model of sknetwork/hierarchy/paris.pyx (AggregateGraph, Paris.fit).  Definitions only (no proofs).
    Property C07.

    Numbers.  Every real quantity is an exact rational.  The places where the code rounds are explicit: the model
    takes a [rounding] (two function arguments: [r32] for values stored in a C [float], [r64] for values stored
    in a C/Python double).  [exact] rounds nowhere ([Qred] only): it is the model the theorems are about.
    [ieee] is round-to-nearest-even to 24 / 53 significant bits: with it the model reproduces the compiled code
    bit for bit (checked by the correspondence runs), which is how defect D25 is replayed inside Coq.

    Order of iteration.  The code iterates over Python sets of ints (hash order) in three places; the result
    never depends on that order (the nearest neighbour is the arg-max with the smallest index, the merged rows
    are the same dict whatever the order).  It depends on the insertion order of the dict [cluster_sizes]
    ([for node in cluster_sizes: break]) and of the vector [connected_components]; both are modelled as
    association lists in insertion order. *)
From SKN Require Import Base.Util Model.Dendrogram Model.Cuts Model.Hierarchy.

(** * Rounding *)
Record rounding := { r32 : Q -> Q; r64 : Q -> Q }.
Definition exact : rounding := {| r32 := Qred; r64 := Qred |}.

(** Round to nearest, ties to even, [p] significant bits (no subnormals, no overflow: irrelevant at the
    magnitudes met here). *)
Definition rne (p : Z) (q : Q) : Q :=
  let a := Z.abs (Qnum q) in
  let d := Zpos (Qden q) in
  if (a =? 0)%Z then 0%Q
  else
    let e0 := (Z.log2 a - Z.log2 d - p)%Z in
    let scaled e := ((a * 2 ^ Z.max 0 (- e)), (d * 2 ^ Z.max 0 e))%Z in
    let e := let '(x, y) := scaled e0 in if (2 ^ p <=? x / y)%Z then (e0 + 1)%Z else e0 in
    let '(x, y) := scaled e in
    let qt := (x / y)%Z in
    let rm := (x mod y)%Z in
    let m := if (y <? 2 * rm)%Z then (qt + 1)%Z
             else if (2 * rm =? y)%Z then (if Z.odd qt then qt + 1 else qt)%Z
             else qt in
    let v := Qred (inject_Z m * (if (0 <=? e)%Z then inject_Z (2 ^ e) else / inject_Z (2 ^ (- e)))) in
    if (Qnum q <? 0)%Z then Qopp v else v.
Definition ieee : rounding := {| r32 := rne 24; r64 := rne 53 |}.

(** * Input: the adjacency handed to [AggregateGraph] and the node weights *)

(** Stored entries (i, j, w) of a square matrix, (i, j) distinct. *)
Definition entries := list (nat * nat * Q).
Definition e_i (e : nat * nat * Q) := fst (fst e).
Definition e_j (e : nat * nat * Q) := snd (fst e).
Definition e_v (e : nat * nat * Q) := snd e.
Definition qsumr (l : list Q) : Q := fold_right (fun a b => Qred (a + b)) 0%Q l.
Definition entry (G : entries) (u v : nat) : Q :=
  qsumr (map e_v (filter (fun e => Nat.eqb (e_i e) u && Nat.eqb (e_j e) v) G)).
Definition row_sum (G : entries) (u : nat) : Q := qsumr (map e_v (filter (fun e => Nat.eqb (e_i e) u) G)).
Definition col_sum (G : entries) (v : nat) : Q := qsumr (map e_v (filter (fun e => Nat.eqb (e_j e) v) G)).
Definition total (G : entries) : Q := qsumr (map e_v G).

(** [get_probs(weights, adjacency)]: ['degree'] -> [A.dot(ones) / sum], ['uniform'] -> [ones / n]
    (sums of the small integer / dyadic weights used are exact in double precision). *)
Definition probs (R : rounding) (degree : bool) (n : nat) (G : entries) (transpose : bool) : list Q :=
  map (fun i => if degree then r64 R ((if transpose then col_sum G i else row_sum G i) / total G)
                else r64 R (1 / inject_Z (Z.of_nat n))) (seq 0 n).

Definition is_symmetric (G : entries) : bool :=
  forallb (fun e => Qeq_bool (entry G (e_i e) (e_j e)) (entry G (e_j e) (e_i e))) G.

(** [directed2undirected]: A + A^T, one stored entry per position. *)
Definition symmetrize (G : entries) : entries :=
  map (fun e => (e_i e, e_j e, Qred (entry G (e_i e) (e_j e) + entry G (e_j e) (e_i e)))) G ++
  map (fun e => (e_j e, e_i e, Qred (entry G (e_i e) (e_j e) + entry G (e_j e) (e_i e))))
      (filter (fun e => negb (existsb (fun f => Nat.eqb (e_i f) (e_j e) && Nat.eqb (e_j f) (e_i e)) G)) G).

(** The block adjacency [[0, B], [B^T, 0]] of a biadjacency matrix with n1 rows. *)
Definition biadj_block (n1 : nat) (B : entries) : entries :=
  map (fun e => (e_i e, n1 + e_j e, e_v e)) B ++ map (fun e => (n1 + e_j e, e_i e, e_v e)) B.

(** * AggregateGraph *)
Definition nrow := list (nat * Q).
Record agraph := {
  ag_next : nat;
  ag_nb : list (nat * nrow);          (* neighbors : dict[dict] *)
  ag_size : list (nat * nat);         (* cluster_sizes *)
  ag_wout : list (nat * Q);           (* cluster_out_weights *)
  ag_win : list (nat * Q) }.          (* cluster_in_weights *)

Definition getq (l : list (nat * Q)) (k : nat) : Q := match alookup k l with Some q => q | None => 0%Q end.

(** [__init__]: [total_weight] is a C float; [neighbors[i][indices[j]] = data[j] / total_weight]. *)
Definition ag_init (R : rounding) (n : nat) (G : entries) (wout win : list Q) : agraph :=
  let tw := r32 R (total G) in
  {| ag_next := n;
     ag_nb := map (fun i => (i, map (fun e => (e_j e, r64 R (e_v e / tw))) (filter (fun e => Nat.eqb (e_i e) i) G)))
                  (seq 0 n);
     ag_size := map (fun i => (i, 1)) (seq 0 n);
     ag_wout := combine (seq 0 n) wout;
     ag_win := combine (seq 0 n) win |}.

(** [similarity]: [None] stands for [-inf] ([den > 0] fails). *)
Definition similarity (R : rounding) (g : agraph) (node1 node2 : nat) : option Q :=
  let a := r32 R (r64 R (getq (ag_wout g) node1 * getq (ag_win g) node2)) in
  let b := r32 R (r64 R (getq (ag_wout g) node2 * getq (ag_win g) node1)) in
  let den := r32 R (a + b) in
  if Qle_bool den 0 then None
  else
    let row := match alookup node1 (ag_nb g) with Some r => r | None => [] end in
    Some (r32 R (r64 R (2 * getq row node2 / den))).

(** [merge].  The new row holds, for every neighbour c of node1 or node2 other than these two, the sum of the
    two weights (a single weight when c is a neighbour of one only); c's own row is updated symmetrically; the
    self-loop of the new node collects the weights among {node1, node2}. *)
Definition not2 (a b : nat) (p : nat * Q) : bool := negb (Nat.eqb (fst p) a) && negb (Nat.eqb (fst p) b).

Definition row_union (R : rounding) (a b : nat) (ra rb : nrow) : nrow :=
  let ra' := filter (not2 a b) ra in
  let rb' := filter (not2 a b) rb in
  map (fun p => match alookup (fst p) rb' with
                | Some w => (fst p, r64 R (snd p + w))
                | None => p
                end) ra' ++
  filter (fun p => negb (amem (fst p) ra')) rb'.

Definition row_replace (R : rounding) (a b new : nat) (rc : nrow) : nrow :=
  match alookup a rc, alookup b rc with
  | Some x, Some y => filter (not2 a b) rc ++ [(new, r64 R (x + y))]
  | Some x, None => filter (not2 a b) rc ++ [(new, x)]
  | None, Some y => filter (not2 a b) rc ++ [(new, y)]
  | None, None => rc
  end.

Definition self_weight (R : rounding) (a b : nat) (ra rb : nrow) : Q :=
  let add acc (o : option Q) := match o with Some w => r64 R (acc + w) | None => acc end in
  add (add (add (add 0%Q (alookup a ra)) (alookup b ra)) (alookup a rb)) (alookup b rb).

Definition ag_merge (R : rounding) (g : agraph) (node1 node2 : nat) : result agraph :=
  match alookup node1 (ag_nb g), alookup node2 (ag_nb g),
        alookup node1 (ag_size g), alookup node2 (ag_size g) with
  | Some ra, Some rb, Some s1, Some s2 =>
      if Nat.eqb node1 node2 then Err KeyError else
      let new := ag_next g in
      let others := filter (fun p => negb (Nat.eqb (fst p) node1) && negb (Nat.eqb (fst p) node2)) (ag_nb g) in
      Ok {| ag_next := S new;
            ag_nb := map (fun p => (fst p, row_replace R node1 node2 new (snd p))) others ++
                     [(new, (new, self_weight R node1 node2 ra rb) :: row_union R node1 node2 ra rb)];
            ag_size := aremove node2 (aremove node1 (ag_size g)) ++ [(new, s1 + s2)];
            ag_wout := aremove node2 (aremove node1 (ag_wout g)) ++
                       [(new, r64 R (getq (ag_wout g) node1 + getq (ag_wout g) node2))];
            ag_win := aremove node2 (aremove node1 (ag_win g)) ++
                      [(new, r64 R (getq (ag_win g) node1 + getq (ag_win g) node2))] |}
  | _, _, _, _ => Err KeyError
  end.

(** * Paris.fit: the nearest-neighbour chain *)

(** Comparison of similarities, [None] = -inf. *)
Definition ogtb (s mx : option Q) : bool :=
  match s, mx with
  | Some x, Some y => negb (Qle_bool x y)
  | Some _, None => true
  | None, _ => false
  end.
Definition oeqb (s mx : option Q) : bool :=
  match s, mx with
  | Some x, Some y => Qeq_bool x y
  | None, None => true
  | _, _ => false
  end.

(** One iteration of [for neighbor in set(neighbors[node].keys()) - {node}]:
    [if sim > max_sim: nearest_neighbor = neighbor; max_sim = sim
     elif sim == max_sim: nearest_neighbor = min(neighbor, nearest_neighbor)].
    [nearest_neighbor] is a C variable that keeps its value from one search to the next. *)
Definition nn_step (acc : nat * option Q) (cs : nat * option Q) : nat * option Q :=
  let '(nn, mx) := acc in
  let '(c, s) := cs in
  if ogtb s mx then (c, s) else if oeqb s mx then (Nat.min c nn, mx) else acc.

Definition nn_search (nn0 : nat) (sims : list (nat * option Q)) : nat * option Q :=
  fold_left nn_step sims (nn0, None).

(** Decision margin of one search: the smallest relative gap between the maximum and a smaller similarity;
    [ties]: number of further neighbours attaining the maximum (resolved by the smallest index). *)
Definition omin (a b : option Q) : option Q :=
  match a, b with
  | Some x, Some y => Some (if Qle_bool x y then x else y)
  | Some x, None => Some x
  | None, o => o
  end.
Definition search_margin (mx : option Q) (sims : list (nat * option Q)) : option Q :=
  match mx with
  | None => None
  | Some m =>
      fold_right (fun cs acc => match snd cs with
                                | Some x => if Qeq_bool x m then acc else omin (Some (Qred ((m - x) / m))) acc
                                | None => acc
                                end) None sims
  end.
Definition search_ties (mx : option Q) (sims : list (nat * option Q)) : nat :=
  pred (length (filter (fun cs => oeqb (snd cs) mx) sims)).

Record pstate := {
  p_ag : agraph;
  p_chain : list nat;                  (* top of the stack first *)
  p_rows : dendrogram;
  p_comps : list (nat * nat);          (* connected_components *)
  p_nn : nat;                          (* the C variable nearest_neighbor *)
  p_hgt : list (nat * Q);              (* heights of the clusters created (used by the clamped variant only) *)
  p_margin : option Q;
  p_ties : nat }.

Inductive outcome := Running (st : pstate) | Finished (st : pstate) | Failed (e : cerr).

Definition qmaxq (a b : Q) : Q := if Qle_bool a b then b else a.

(** [clamp = false]: the code as it is.  [clamp = true]: the proposed repair of D25 — the height of a merge is
    never below the heights of the merges that created its two children. *)
Definition paris_step (R : rounding) (clamp : bool) (st : pstate) : outcome :=
  let g := p_ag st in
  match p_chain st with
  | [] =>
      (* while len(cluster_sizes): for node in cluster_sizes: break; chain = [node] *)
      match ag_size g with
      | [] => Finished st
      | (node, _) :: _ =>
          Running {| p_ag := g; p_chain := [node]; p_rows := p_rows st; p_comps := p_comps st; p_nn := p_nn st;
                     p_hgt := p_hgt st; p_margin := p_margin st; p_ties := p_ties st |}
      end
  | node :: chain =>
      match alookup node (ag_nb g) with
      | None => Failed KeyError
      | Some row =>
          let nbrs := filter (fun c => negb (Nat.eqb c node)) (akeys row) in
          match nbrs with
          | [] =>
              (* connected_components.push_back((node, cluster_sizes[node])); del cluster_sizes[node] *)
              match alookup node (ag_size g) with
              | None => Failed KeyError
              | Some s =>
                  Running {| p_ag := {| ag_next := ag_next g; ag_nb := ag_nb g; ag_size := aremove node (ag_size g);
                                        ag_wout := ag_wout g; ag_win := ag_win g |};
                             p_chain := chain; p_rows := p_rows st; p_comps := p_comps st ++ [(node, s)];
                             p_nn := p_nn st; p_hgt := p_hgt st; p_margin := p_margin st; p_ties := p_ties st |}
              end
          | _ =>
              let sims := map (fun c => (c, similarity R g node c)) nbrs in
              let '(nn, mx) := nn_search (p_nn st) sims in
              let margin := omin (p_margin st) (search_margin mx sims) in
              let ties := p_ties st + search_ties mx sims in
              match chain with
              | [] =>
                  Running {| p_ag := g; p_chain := [nn; node]; p_rows := p_rows st; p_comps := p_comps st;
                             p_nn := nn; p_hgt := p_hgt st; p_margin := margin; p_ties := ties |}
              | last :: chain' =>
                  if Nat.eqb last nn then
                    match alookup node (ag_size g), alookup nn (ag_size g) with
                    | Some s1, Some s2 =>
                        let h0 := match mx with Some m => r64 R (1 / m) | None => 0%Q end in
                        let h := if clamp then qmaxq h0 (qmaxq (getq (p_hgt st) node) (getq (p_hgt st) nn)) else h0 in
                        match ag_merge R g node nn with
                        | Err e => Failed e
                        | Ok g' =>
                            Running {| p_ag := g'; p_chain := chain'; p_rows := p_rows st ++ [(node, nn, h, s1 + s2)];
                                       p_comps := p_comps st; p_nn := nn; p_hgt := (ag_next g, h) :: p_hgt st;
                                       p_margin := margin; p_ties := ties |}
                        end
                    | _, _ => Failed KeyError
                    end
                  else
                    Running {| p_ag := g; p_chain := nn :: node :: last :: chain'; p_rows := p_rows st;
                               p_comps := p_comps st; p_nn := nn; p_hgt := p_hgt st; p_margin := margin;
                               p_ties := ties |}
              end
          end
      end
  end.

(** [OutOfFuel] is reported as [None]. *)
Fixpoint paris_run (R : rounding) (clamp : bool) (fuel : nat) (st : pstate) : option (result pstate) :=
  match fuel with
  | O => None
  | S f =>
      match paris_step R clamp st with
      | Running st' => paris_run R clamp f st'
      | Finished st' => Some (Ok st')
      | Failed e => Some (Err e)
      end
  end.

(** The components are joined at height [float("inf")], represented by the argument [hinf]:
    [node, cluster_size = connected_components[-1]; pop_back;
     for next_node, next_size in connected_components: ...; node = next_cluster; next_cluster += 1]. *)
Fixpoint join_comps (hinf : Q) (node csize next : nat) (cs : list (nat * nat)) : dendrogram :=
  match cs with
  | [] => []
  | (nx, ns) :: rest => (node, nx, hinf, csize + ns) :: join_comps hinf next (csize + ns) (S next) rest
  end.

Definition paris_finish (hinf : Q) (st : pstate) : result dendrogram :=
  match rev (p_comps st) with
  | [] => Err IndexError
  | (node, cs) :: _ => Ok (p_rows st ++ join_comps hinf node cs (ag_next (p_ag st)) (removelast (p_comps st)))
  end.

Definition paris_init (g : agraph) : pstate :=
  {| p_ag := g; p_chain := []; p_rows := []; p_comps := []; p_nn := 0; p_hgt := []; p_margin := None; p_ties := 0 |}.

(** A run that ends takes at most 3n + 1 steps (3 per merge, 2 per component, 1 to see the empty dict). *)
Definition paris_fuel (n : nat) : nat := 3 * n + 2.

(** The aggregation part of [fit]: rows in creation order (before reordering), margin, ties. *)
Definition paris_core (R : rounding) (clamp : bool) (hinf : Q) (n : nat) (G : entries) (wout win : list Q)
  : option (result (dendrogram * option Q * nat)) :=
  match paris_run R clamp (paris_fuel n) (paris_init (ag_init R n G wout win)) with
  | None => None
  | Some (Err e) => Some (Err e)
  | Some (Ok st) =>
      match paris_finish hinf st with
      | Ok D => Some (Ok (D, p_margin st, p_ties st))
      | Err e => Some (Err e)
      end
  end.

(** [fit] on an adjacency matrix (stored entries [G0] of a square matrix on n nodes). *)
Definition paris_adjacency (R : rounding) (degree : bool) (n : nat) (G0 : entries) : entries * list Q * list Q :=
  let wout := probs R degree n G0 false in
  let win := probs R degree n G0 true in
  let G1 := if is_symmetric G0 then G0 else symmetrize G0 in
  let G2 := G1 ++ map (fun i => (i, i, 1%Q))
                      (filter (fun i => Qeq_bool (nthq wout i + nthq win i) 0) (seq 0 n)) in
  (G2, wout, win).

Definition paris_fit_gen (R : rounding) (clamp : bool) (hinf : Q) (degree reorder : bool) (n : nat) (G0 : entries)
  : option (result (dendrogram * option Q * nat)) :=
  if Nat.leb n 1 then Some (Err ValueError) else
  let '(G, wout, win) := paris_adjacency R degree n G0 in
  match paris_core R clamp hinf n G wout win with
  | Some (Ok (D, m, t)) =>
      if reorder then
        match reorder_dendrogram D with
        | Ok D' => Some (Ok (D', m, t))
        | Err e => Some (Err e)
        end
      else Some (Ok (D, m, t))
  | o => o
  end.

Definition paris_fit (R : rounding) := paris_fit_gen R false.

(** Bipartite input: [fit] on the block adjacency, then [_split_vars]: (full, row, col). *)
Definition paris_fit_bipartite (R : rounding) (hinf : Q) (degree reorder : bool) (n1 n2 : nat) (B : entries)
  : option (result (dendrogram * dendrogram * dendrogram)) :=
  match paris_fit R hinf degree reorder (n1 + n2) (biadj_block n1 B) with
  | None => None
  | Some (Err e) => Some (Err e)
  | Some (Ok (D, _, _)) =>
      match split_dendrogram D n1 n2 with
      | Ok (Dr, Dc) => Some (Ok (D, Dr, Dc))
      | Err e => Some (Err e)
      end
  end.

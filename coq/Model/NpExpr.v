(** A small array-expression language with the NumPy semantics of the operations that occur in
    sknetwork/gnn/activation.py and sknetwork/gnn/loss.py, and its denotation over an abstract carrier.

    The terms of this language are NOT written by hand: harness/translators/npexpr.py regenerates
    coq/Gen/NpGnn.v from the Python source on every run (fail-closed: a construct outside this language makes
    the translation, hence every obligation over it, fail).  Proofs/NpExprProofs.v proves, for ALL input arrays,
    that the denotation of each generated term is the closed form of Model/Gnn.v about which the calculus
    theorems of C19 are stated; Props/C19.v composes the two.  Definitions only (no proofs) in this file.

    Arrays are represented functionally (extent + index function), so that transposition, broadcasting and
    reductions are one-liners and the link lemmas are pointwise.  Broadcasting is NumPy's, restricted to the
    cases scalar/array, equal shapes, and (n x k) with a length-k vector; everything else is [None]
    (NumPy would raise, or broadcast through a size-1 axis, which these sources never rely on). *)
From SKN Require Import Base.Util Model.Gnn.
From Coq Require Import String.
Local Open Scope nat_scope.

Inductive binop := BAdd | BSub | BMul | BDiv | BMax | BGt.

Inductive nexpr :=
| EVar (x : string)
| ELit (m e : Z)                          (* decimal literal m * 10^e: 0 -> (0,0), 1e-10 -> (1,-10) *)
| EBin (o : binop) (a b : nexpr)          (* a + b, a - b, a * b, a / b, np.maximum(a, b), a > b *)
| ENeg (a : nexpr)                        (* -a *)
| ET (a : nexpr)                          (* a.T *)
| ESumAxis1 (a : nexpr)                   (* a.sum(axis=1) *)
| ESumAll (a : nexpr)                     (* a.sum() *)
| EExpit (a : nexpr)                      (* special.expit(a) *)
| ESoftmax1 (a : nexpr)                   (* special.softmax(a, axis=1) *)
| ELog (a : nexpr)                        (* np.log(a) *)
| EClip (a lo hi : nexpr)                 (* np.clip(a, lo, hi) *)
| ELen (a : nexpr)                        (* len(a) *)
| EOneHot (like labels : nexpr)           (* z = np.zeros_like(like); z[np.arange(len(labels)), labels] = 1 *)
| ETake (a labels : nexpr)                (* a[np.arange(len(labels)), labels] *)
| ESetAt (a labels v : nexpr)             (* a[np.arange(len(labels)), labels] = v  (value: the updated a) *)
| ESumRowsWhere (a labels : nexpr) (positive : bool)   (* a[labels > 0].sum()  /  a[labels == 0].sum() *)
| ELet (x : string) (a b : nexpr)         (* x = a; b *)
| EIfOneCol (c t e : nexpr).              (* t if c.shape[1] == 1 else e *)

Section Carrier.
  Context {T : Type}.
  Context (tadd tsub tmul tdiv : T -> T -> T) (t0 t1 : T).
  Context (texp tln : T -> T) (tltb : T -> T -> bool) (tnat : nat -> T) (tlit : Z -> Z -> T).

  Inductive value :=
  | VS (x : T)
  | VV (n : nat) (f : nat -> T)
  | VM (n k : nat) (f : nat -> nat -> T)
  | VL (l : list nat).                    (* integer label vector *)

  Definition env := list (string * value).

  Fixpoint lookup (x : string) (r : env) : option value :=
    match r with
    | [] => None
    | (y, v) :: r' => if String.eqb x y then Some v else lookup x r'
    end.

  Definition sum_upto (n : nat) (f : nat -> T) : T := g_sum tadd t0 (map f (seq 0 n)).

  (** an integer vector used in arithmetic is converted elementwise *)
  Definition num (v : value) : value :=
    match v with VL l => VV (List.length l) (fun i => tnat (nth i l 0)) | _ => v end.

  Definition lift1 (g : T -> T) (v : value) : option value :=
    match num v with
    | VS x => Some (VS (g x))
    | VV n f => Some (VV n (fun i => g (f i)))
    | VM n k f => Some (VM n k (fun i j => g (f i j)))
    | VL _ => None
    end.

  Definition lift2 (g : T -> T -> T) (a b : value) : option value :=
    match num a, num b with
    | VS x, VS y => Some (VS (g x y))
    | VS x, VV n f => Some (VV n (fun i => g x (f i)))
    | VV n f, VS y => Some (VV n (fun i => g (f i) y))
    | VS x, VM n k f => Some (VM n k (fun i j => g x (f i j)))
    | VM n k f, VS y => Some (VM n k (fun i j => g (f i j) y))
    | VV n f, VV m h => if n =? m then Some (VV n (fun i => g (f i) (h i))) else None
    | VM n k f, VM n' k' h =>
        if (n =? n') && (k =? k') then Some (VM n k (fun i j => g (f i j) (h i j))) else None
    | VM n k f, VV m h => if k =? m then Some (VM n k (fun i j => g (f i j) (h j))) else None
    | VV m h, VM n k f => if k =? m then Some (VM n k (fun i j => g (h j) (f i j))) else None
    | _, _ => None
    end.

  Definition binop_fun (o : binop) : T -> T -> T :=
    match o with
    | BAdd => tadd | BSub => tsub | BMul => tmul | BDiv => tdiv
    | BMax => fun a b => if tltb b a then a else b       (* np.maximum(a, b) *)
    | BGt => fun a b => if tltb b a then t1 else t0       (* (a > b) used as a number *)
    end.

  Definition labels_below (k : nat) (l : list nat) : bool := forallb (fun y => y <? k) l.

  Fixpoint denote (r : env) (e : nexpr) : option value :=
    match e with
    | EVar x => lookup x r
    | ELit m e10 => Some (VS (tlit m e10))
    | EBin o a b =>
        match denote r a, denote r b with
        | Some va, Some vb => lift2 (binop_fun o) va vb
        | _, _ => None
        end
    | ENeg a => match denote r a with Some va => lift1 (fun x => tsub t0 x) va | None => None end
    | ET a =>
        match denote r a with
        | Some (VM n k f) => Some (VM k n (fun i j => f j i))
        | Some (VV n f) => Some (VV n f)
        | Some (VS x) => Some (VS x)
        | _ => None
        end
    | ESumAxis1 a =>
        match denote r a with
        | Some (VM n k f) => Some (VV n (fun i => sum_upto k (f i)))
        | _ => None
        end
    | ESumAll a =>
        match denote r a with
        | Some (VM n k f) => Some (VS (sum_upto n (fun i => sum_upto k (f i))))
        | Some (VV n f) => Some (VS (sum_upto n f))
        | Some (VS x) => Some (VS x)
        | _ => None
        end
    | EExpit a =>
        match denote r a with Some va => lift1 (g_sigmoid tadd tsub tdiv t0 t1 texp) va | None => None end
    | ESoftmax1 a =>
        match denote r a with
        | Some (VM n k f) =>
            Some (VM n k (fun i j => tdiv (texp (f i j)) (sum_upto k (fun j' => texp (f i j')))))
        | _ => None
        end
    | ELog a => match denote r a with Some va => lift1 tln va | None => None end
    | EClip a lo hi =>
        match denote r a, denote r lo, denote r hi with
        | Some va, Some (VS l), Some (VS h) => lift1 (g_clip tltb l h) va
        | _, _, _ => None
        end
    | ELen a =>
        match denote r a with
        | Some (VL l) => Some (VS (tnat (List.length l)))
        | Some (VV n _) => Some (VS (tnat n))
        | Some (VM n _ _) => Some (VS (tnat n))
        | _ => None
        end
    | EOneHot like labels =>
        match denote r like, denote r labels with
        | Some (VM n k _), Some (VL l) =>
            if (List.length l <=? n) && labels_below k l
            then Some (VM n k (fun i j => if (i <? List.length l) && (j =? nth i l 0) then t1 else t0))
            else None
        | _, _ => None
        end
    | ETake a labels =>
        match denote r a, denote r labels with
        | Some (VM n k f), Some (VL l) =>
            if (List.length l <=? n) && labels_below k l
            then Some (VV (List.length l) (fun i => f i (nth i l 0)))
            else None
        | _, _ => None
        end
    | ESetAt a labels v =>
        match denote r a, denote r labels, denote r v with
        | Some (VM n k f), Some (VL l), Some (VV m h) =>
            if (List.length l <=? n) && labels_below k l && (m =? List.length l)
            then Some (VM n k (fun i j => if (i <? List.length l) && (j =? nth i l 0) then h i else f i j))
            else None
        | _, _, _ => None
        end
    | ESumRowsWhere a labels positive =>
        match denote r a, denote r labels with
        | Some (VM n k f), Some (VL l) =>
            if List.length l =? n
            then Some (VS (sum_upto n (fun i =>
                     if (if positive then 0 <? nth i l 0 else nth i l 0 =? 0) then sum_upto k (f i) else t0)))
            else None
        | _, _ => None
        end
    | ELet x a b =>
        match denote r a with Some va => denote ((x, va) :: r) b | None => None end
    | EIfOneCol c t e =>
        match denote r c with
        | Some (VM _ k _) => if k =? 1 then denote r t else denote r e
        | _ => None
        end
    end.

  (** Conversions between list-of-rows matrices and values (inputs and outputs of an evaluation). *)
  Definition vmat (M : list (list T)) (n k : nat) : value := VM n k (fun i j => nth j (nth i M []) t0).
  Definition out_mat (v : value) : option (list (list T)) :=
    match v with
    | VM n k f => Some (map (fun i => map (f i) (seq 0 k)) (seq 0 n))
    | _ => None
    end.
  Definition out_scalar (v : value) : option T := match v with VS x => Some x | _ => None end.
End Carrier.

Arguments value : clear implicits.

(** * Instance over Q (execution inside Coq for the correspondence runs).
    [exp] / [ln] are finite oracle tables supplied by the harness; a missing entry evaluates to 0, which makes
    the result differ from NumPy's and is therefore reported, never silently accepted. *)
Definition qlit (m e : Z) : Q := (inject_Z m * Qpower 10 e)%Q.
Definition qtable (tab : list (Q * Q)) (x : Q) : Q :=
  match find (fun p => Qeq_bool (fst p) x) tab with Some p => snd p | None => 0%Q end.
Definition qdenote (exptab lntab : list (Q * Q)) : env -> nexpr -> option (value Q) :=
  denote Qplus Qminus Qmult Qdiv 0%Q 1%Q (qtable exptab) (qtable lntab) Qltb qnat qlit.
Definition qmat (M : list (list Q)) (n k : nat) : value Q := vmat 0%Q M n k.

Local Open Scope string_scope.
Definition qenv_s (S : list (list Q)) (n k : nat) : env := ("signal", qmat S n k) :: nil.
Definition qenv_sd (S D : list (list Q)) (n k : nat) : env :=
  ("signal", qmat S n k) :: ("direction", qmat D n k) :: nil.
Definition qenv_sl (S : list (list Q)) (labels : list nat) (n k : nat) : env :=
  ("signal", qmat S n k) :: ("labels", VL labels) :: nil.
(** printable result: a matrix as rows, a scalar as a 1 x 1 matrix, anything else (including [None]) as [] *)
Definition qresult (v : option (value Q)) : list (list Q) :=
  match v with
  | Some (VM n k f) => map (fun i => map (f i) (seq 0 k)) (seq 0 n)
  | Some (VV n f) => [map f (seq 0 n)]
  | Some (VS x) => [[x]]
  | _ => []
  end.

(** Executable model of sknetwork/clustering/metrics.py:get_modularity (with utils/check.py:get_probs,
    utils/membership.py:get_membership, utils/format.py:get_adjacency) over exact rationals, and the
    textbook specification it is compared with. Definitions only (no proofs). *)
From SKN Require Import Base.Util.

(** * Weighted matrices
    Row [i] lists the stored entries [(j, w)] of row [i] (any order, duplicates allowed: the entry
    value is the sum of the stored values, as scipy does when it builds a CSR matrix). *)
Definition wrow := list (nat * Q).
Definition wgraph := list wrow.
Record wmat := { w_ncol : nat; w_rows : wgraph }.
Definition w_nrow (m : wmat) : nat := length (w_rows m).

Inductive merr := MValueError | MOutOfFuel.
Inductive mres (A : Type) := MOk (a : A) | MErr (e : merr).
Arguments MOk {A} a.
Arguments MErr {A} e.

(** Kronecker symbol as a rational. *)
Definition ind (b : bool) : Q := if b then 1%Q else 0%Q.

(** [qsum n f] = f 0 + ... + f (n-1). *)
Fixpoint qsum (n : nat) (f : nat -> Q) : Q :=
  match n with
  | O => 0%Q
  | S k => (qsum k f + f k)%Q
  end.

(** [rsum r h] = sum over the stored entries (j, w) of the row of w * h j. *)
Fixpoint rsum (r : wrow) (h : nat -> Q) : Q :=
  match r with
  | [] => 0%Q
  | (j, w) :: t => (w * h j + rsum t h)%Q
  end.

Definition wrow_of (g : wgraph) (i : nat) : wrow := nth i g [].
(** Denotation: the entry A_ij. *)
Definition entry (g : wgraph) (i j : nat) : Q := rsum (wrow_of g i) (fun j' => ind (Nat.eqb j' j)).
(** [adjacency.dot(ones)], [adjacency.T.dot(ones)], [adjacency.data.sum()]. *)
Definition out_deg (g : wgraph) (i : nat) : Q := rsum (wrow_of g i) (fun _ => 1%Q).
Definition in_deg (g : wgraph) (j : nat) : Q := qsum (length g) (fun i => entry g i j).
Definition data_sum (g : wgraph) : Q := qsum (length g) (out_deg g).
Definition nnz (g : wgraph) : nat := sumn (map (@length _) g).

(** Well-formed square matrix: every stored column index is below the number of rows. *)
Definition wf_wgraph (g : wgraph) : Prop :=
  forall i j w, In (j, w) (wrow_of g i) -> j < length g.
Definition wf_wgraphb (g : wgraph) : bool :=
  forallb (fun r => forallb (fun p => Nat.ltb (fst p) (length g)) r) g.
Definition wf_wmat (m : wmat) : Prop :=
  forall i j w, In (j, w) (wrow_of (w_rows m) i) -> j < w_ncol m.

(** [bipartite2undirected]: [[0, B], [B^T, 0]] (rows first, then columns), built row by row:
    row i of the top block is row i of B shifted by n_row; row n_row + j of the bottom block lists
    (i, B_ij) for every stored entry (j, B_ij) of row i. *)
Definition col_of (m : wmat) (j : nat) : wrow :=
  concat (map (fun i => map (fun p => (i, snd p))
                            (filter (fun p => Nat.eqb (fst p) j) (wrow_of (w_rows m) i)))
              (seq 0 (w_nrow m))).
Definition block_undirected (m : wmat) : wgraph :=
  map (fun r => map (fun p => (w_nrow m + fst p, snd p)) r) (w_rows m)
  ++ map (col_of m) (seq 0 (w_ncol m)).

(** [get_adjacency(input_matrix)] with the default flags, as called by get_modularity:
    bipartite iff the matrix is not square. *)
Definition get_adjacency_default (m : wmat) : wgraph * bool :=
  if Nat.eqb (w_nrow m) (w_ncol m) then (w_rows m, false) else (block_undirected m, true).

(** * get_probs *)
Inductive weighting := Degree | Uniform.

(** [make_weights]: degree = [adjacency.dot(ones)], uniform = ones. *)
Definition make_weights_out (wk : weighting) (g : wgraph) : list Q :=
  match wk with
  | Degree => map (out_deg g) (seq 0 (length g))
  | Uniform => repeat 1%Q (length g)
  end.
Definition make_weights_in (wk : weighting) (g : wgraph) : list Q :=
  match wk with
  | Degree => map (in_deg g) (seq 0 (length g))
  | Uniform => repeat 1%Q (length g)
  end.

(** [check_weights] + [get_probs]: ValueError when a weight is negative or the sum is not positive;
    otherwise weights / sum. *)
Definition get_probs_of (ws : list Q) : mres (list Q) :=
  let s := sumq ws in
  if existsb (fun x => negb (Qle_bool 0 x)) ws || Qle_bool s 0
  then MErr MValueError
  else MOk (map (fun x => Qred (x / s)) ws).

(** * get_modularity, as coded
    [membership = get_membership(labels)] has k = max(labels)+1 columns;
    [fit = membership.T.dot(adjacency.dot(membership)).diagonal().sum() / adjacency.data.sum()],
    [div = membership.T.dot(probs_col).dot(membership.T.dot(probs_row))], [mod = fit - resolution * div]. *)
Definition n_labels (labels : list nat) : nat := S (fold_right Nat.max 0 labels).
Definition lab (labels : list nat) (i : nat) : nat := nthn labels i.

(** (adjacency.dot(membership))[i, c] *)
Definition adj_dot_membership (g : wgraph) (labels : list nat) (i c : nat) : Q :=
  rsum (wrow_of g i) (fun j => ind (Nat.eqb (lab labels j) c)).
(** (membership.T.dot(v))[c] *)
Definition membership_T_dot (n : nat) (labels : list nat) (v : nat -> Q) (c : nat) : Q :=
  qsum n (fun i => ind (Nat.eqb (lab labels i) c) * v i)%Q.

Definition fit_term (g : wgraph) (labels : list nat) : Q :=
  let n := length g in
  (qsum (n_labels labels) (fun c => membership_T_dot n labels (fun i => adj_dot_membership g labels i c) c)
   / data_sum g)%Q.

Definition div_term (n : nat) (labels : list nat) (probs_row probs_col : list Q) : Q :=
  qsum (n_labels labels)
       (fun c => membership_T_dot n labels (nthq probs_col) c * membership_T_dot n labels (nthq probs_row) c)%Q.

(** Returns (modularity, fit, diversity), i.e. the [return_all=True] triple; [return_all=False] is its
    first component. *)
Definition get_modularity (m : wmat) (labels : list nat) (labels_col : option (list nat))
           (wk : weighting) (resolution : Q) : mres (Q * Q * Q) :=
  if Nat.eqb (nnz (w_rows m)) 0 then MErr MValueError (* check_format: 'The input matrix is empty.' *)
  else
  let '(g, bipartite) := get_adjacency_default m in
  let rlabels :=
    if bipartite then
      match labels_col with
      | None => MErr MValueError
      | Some lc => MOk (labels ++ lc)
      end
    else MOk labels in
  match rlabels with
  | MErr e => MErr e
  | MOk labels =>
      if negb (Nat.eqb (length labels) (length g)) then MErr MValueError
      else
        match get_probs_of (make_weights_out wk g), get_probs_of (make_weights_in wk g) with
        | MOk probs_row, MOk probs_col =>
            let fit := Qred (fit_term g labels) in
            let div := Qred (div_term (length g) labels probs_row probs_col) in
            MOk (Qred (fit - resolution * div), fit, div)
        | MErr e, _ => MErr e
        | _, MErr e => MErr e
        end
  end.

(** * Specification (docstring of get_modularity, docs/reference/clustering.rst)
    Directed form (the undirected form is the special case of a symmetric matrix, d+ = d- = d):
      Q = 1/w sum_{i,j} (A_ij - gamma d+_i d-_j / w) delta(c_i, c_j),   w = 1^T A 1. *)
Definition delta (labels : list nat) (i j : nat) : Q := ind (Nat.eqb (lab labels i) (lab labels j)).

Definition total_weight (g : wgraph) : Q :=
  qsum (length g) (fun i => qsum (length g) (fun j => entry g i j)).
Definition spec_out_deg (g : wgraph) (i : nat) : Q := qsum (length g) (fun j => entry g i j).
Definition spec_in_deg (g : wgraph) (j : nat) : Q := qsum (length g) (fun i => entry g i j).

Definition spec_modularity (g : wgraph) (labels : list nat) (gamma : Q) : Q :=
  let n := length g in
  let w := total_weight g in
  (1 / w * qsum n (fun i => qsum n (fun j =>
     (entry g i j - gamma * spec_out_deg g i * spec_in_deg g j / w) * delta labels i j)))%Q.

(** Uniform node weights (the Potts form of the reference documentation):
      Q = sum_{i,j} (A_ij / w - gamma / n^2) delta(c_i, c_j). *)
Definition spec_modularity_uniform (g : wgraph) (labels : list nat) (gamma : Q) : Q :=
  let n := length g in
  let w := total_weight g in
  qsum n (fun i => qsum n (fun j =>
     (entry g i j / w - gamma / (inject_Z (Z.of_nat n) * inject_Z (Z.of_nat n))) * delta labels i j))%Q.

Definition spec_fit (g : wgraph) (labels : list nat) : Q :=
  let n := length g in
  (qsum n (fun i => qsum n (fun j => entry g i j * delta labels i j)) / total_weight g)%Q.

Definition spec_of (wk : weighting) : wgraph -> list nat -> Q -> Q :=
  match wk with Degree => spec_modularity | Uniform => spec_modularity_uniform end.

(** Bipartite form: get_modularity treats a biadjacency matrix B (n1 x n2) as the UNDIRECTED graph on
    n1 + n2 nodes with A_{i, n1+j} = A_{n1+j, i} = B_ij and all other entries 0, labelled by
    labels_row followed by labels_col, and applies the undirected formula to it. The block matrix is
    specified here entrywise, independently of [block_undirected]. *)
Definition bentry (m : wmat) (i j : nat) : Q := rsum (wrow_of (w_rows m) i) (fun j' => ind (Nat.eqb j' j)).
Definition block_entry (m : wmat) (a b : nat) : Q :=
  let n1 := w_nrow m in
  if Nat.ltb a n1 then (if Nat.ltb b n1 then 0%Q else bentry m a (b - n1))
  else (if Nat.ltb b n1 then bentry m b (a - n1) else 0%Q).

Definition spec_modularity_bipartite (m : wmat) (labels_row labels_col : list nat) (gamma : Q) : Q :=
  let n := w_nrow m + w_ncol m in
  let labels := labels_row ++ labels_col in
  let w := qsum n (fun a => qsum n (fun b => block_entry m a b)) in
  let d := fun a => qsum n (fun b => block_entry m a b) in
  (1 / w * qsum n (fun a => qsum n (fun b =>
     (block_entry m a b - gamma * d a * d b / w) * delta labels a b)))%Q.

(** Barber's bipartite modularity (what Louvain's default 'dugue' objective is on a bipartite graph):
      Q_B = 1/w sum_{i,j} (B_ij - gamma d_i d_j / w) delta(r_i, c_j),  w = 1^T B 1.
    It is NOT what get_modularity computes on a biadjacency matrix (see Proofs). *)
Definition barber_modularity (m : wmat) (labels_row labels_col : list nat) (gamma : Q) : Q :=
  let n1 := w_nrow m in
  let n2 := w_ncol m in
  let w := qsum n1 (fun i => qsum n2 (fun j => bentry m i j)) in
  let dr := fun i => qsum n2 (fun j => bentry m i j) in
  let dc := fun j => qsum n1 (fun i => bentry m i j) in
  (1 / w * qsum n1 (fun i => qsum n2 (fun j =>
     (bentry m i j - gamma * dr i * dc j / w) * ind (Nat.eqb (lab labels_row i) (lab labels_col j)))))%Q.

(** Executable model of sknetwork/gnn/{layer,base_layer,activation,loss,gnn_classifier,neighbor_sampler}.py
    and utils/check.py:add_self_loops, linalg/normalizer.py:diagonal_pseudo_inverse.
    Definitions only (no proofs). Real quantities are exact rationals; sqrt / exp / log are function
    arguments (oracles). The closed-form activation / loss formulas are written once over an abstract
    carrier (section [Carrier]) and instantiated with Q here and with R in Proofs/GnnCalculus.v. *)
From SKN Require Import Base.Util.

(* ------------------------------------------------------------------------------------------- *)
(** * Formulas of activation.py and loss.py over an abstract carrier *)
Section Carrier.
  Context {T : Type}.
  Context (tadd tsub tmul tdiv : T -> T -> T) (t0 t1 : T).
  Context (texp tln : T -> T) (tltb : T -> T -> bool) (tnat : nat -> T).

  Definition g_sum (l : list T) : T := fold_right tadd t0 l.
  Definition g_nth (l : list T) (k : nat) : T := nth k l t0.

  (** ReLu.output: [np.maximum(signal, 0)];  ReLu.gradient: [direction * (signal > 0)]. *)
  Definition g_relu (x : T) : T := if tltb t0 x then x else t0.
  Definition g_relu_gradient (x dir : T) : T := tmul dir (if tltb t0 x then t1 else t0).

  (** Sigmoid.output: [special.expit(signal)] = 1 / (1 + exp(-x));
      Sigmoid.gradient: [output * (1 - output) * direction]. *)
  Definition g_sigmoid (x : T) : T := tdiv t1 (tadd t1 (texp (tsub t0 x))).
  Definition g_sigmoid_gradient_o (out dir : T) : T := tmul (tmul out (tsub t1 out)) dir.
  Definition g_sigmoid_gradient (x dir : T) : T := g_sigmoid_gradient_o (g_sigmoid x) dir.

  (** Softmax.output on one row: [special.softmax(signal, axis=1)];
      Softmax.gradient on one row: [output * (direction.T - (output * direction).sum(axis=1)).T]. *)
  Definition g_softmax_row (row : list T) : list T :=
    let e := map texp row in
    let s := g_sum e in
    map (fun a => tdiv a s) e.
  Definition g_softmax_gradient_o (out dir : list T) : list T :=
    let s := g_sum (map2 tmul out dir) in
    map2 (fun o d => tmul o (tsub d s)) out dir.
  Definition g_softmax_gradient (row dir : list T) : list T :=
    g_softmax_gradient_o (g_softmax_row row) dir.

  (** [np.clip(probs, eps, 1 - eps)] = minimum(maximum(p, lo), hi). *)
  Definition g_clip (lo hi x : T) : T :=
    let m := if tltb x lo then lo else x in
    if tltb hi m then hi else m.

  Definition g_onehot (o y : nat) : list T := map (fun k => if Nat.eqb k y then t1 else t0) (seq 0 o).

  (** CrossEntropy.loss, one sample: [-log(clip(softmax(signal))[label])];
      CrossEntropy.loss_gradient, one sample: [probs - one_hot_encoding]. *)
  Definition g_ce_loss_row (eps : T) (row : list T) (y : nat) : T :=
    tsub t0 (tln (g_clip eps (tsub t1 eps) (g_nth (g_softmax_row row) y))).
  Definition g_ce_gradient_o (probs : list T) (y : nat) : list T :=
    map2 tsub probs (g_onehot (length probs) y).
  Definition g_ce_gradient (row : list T) (y : nat) : list T := g_ce_gradient_o (g_softmax_row row) y.

  (** BinaryCrossEntropy.loss, one sample.
      one channel ([probs.shape[1] == 1]): [-log(p)] if label > 0, [-log(1 - p)] if label == 0;
      general case: [-log(1 - p_k)] on every channel, replaced by [-log(p_y)] on the label's channel. *)
  Definition g_bce_loss_row (eps : T) (row : list T) (y : nat) : T :=
    let probs := map (fun x => g_clip eps (tsub t1 eps) (g_sigmoid x)) row in
    match probs with
    | [p] => if Nat.ltb 0 y then tsub t0 (tln p) else tsub t0 (tln (tsub t1 p))
    | _ => g_sum (map (fun k => if Nat.eqb k y then tsub t0 (tln (g_nth probs k))
                                 else tsub t0 (tln (tsub t1 (g_nth probs k))))
                      (seq 0 (length probs)))
    end.
  (** BinaryCrossEntropy.loss_gradient, one sample (repo commit 018b4674):
      one channel ([probs.shape[1] == 1]): [(probs.T - labels).T], the label value is subtracted;
      otherwise [probs - one_hot]. *)
  Definition g_bce_gradient_o (probs : list T) (y : nat) : list T :=
    match probs with
    | [p] => [tsub p (tnat y)]
    | _ => g_ce_gradient_o probs y
    end.
  Definition g_bce_gradient (row : list T) (y : nat) : list T := g_bce_gradient_o (map g_sigmoid row) y.
  (** Legacy (before 018b4674, DESIGN.md D18): [(probs.T - labels).T] for any number of channels — the label
      VALUE was subtracted from every channel of the row. Kept so that the defect's return is recognised. *)
  Definition g_bce_gradient_legacy_o (probs : list T) (y : nat) : list T := map (fun p => tsub p (tnat y)) probs.
  Definition g_bce_gradient_legacy (row : list T) (y : nat) : list T := g_bce_gradient_legacy_o (map g_sigmoid row) y.

  (** Mean over the samples: [value / n] with [n = len(labels)]. *)
  Definition g_mean_loss (loss_row : list T -> nat -> T) (signal : list (list T)) (labels : list nat) : T :=
    tdiv (g_sum (map2 loss_row signal labels)) (tnat (length labels)).
End Carrier.

(* ------------------------------------------------------------------------------------------- *)
(** * Instance over Q *)
Definition Qltb (a b : Q) : bool := negb (Qle_bool b a).
Definition qnat (n : nat) : Q := inject_Z (Z.of_nat n).

Definition relu : Q -> Q := g_relu 0%Q Qltb.
Definition relu_gradient : Q -> Q -> Q := g_relu_gradient Qmult 0%Q 1%Q Qltb.
Definition sigmoid (expf : Q -> Q) : Q -> Q := g_sigmoid Qplus Qminus Qdiv 0%Q 1%Q expf.
Definition sigmoid_gradient_o : Q -> Q -> Q := g_sigmoid_gradient_o Qminus Qmult 1%Q.
Definition softmax_row (expf : Q -> Q) : list Q -> list Q := g_softmax_row Qplus Qdiv 0%Q expf.
Definition softmax_gradient_o : list Q -> list Q -> list Q := g_softmax_gradient_o Qplus Qminus Qmult 0%Q.
Definition ce_gradient_o : list Q -> nat -> list Q := g_ce_gradient_o Qminus 0%Q 1%Q.
Definition bce_gradient_o : list Q -> nat -> list Q := g_bce_gradient_o Qminus 0%Q 1%Q qnat.
Definition bce_gradient_legacy_o : list Q -> nat -> list Q := g_bce_gradient_legacy_o Qminus qnat.
Definition ce_loss_row (expf lnf : Q -> Q) (eps : Q) : list Q -> nat -> Q :=
  g_ce_loss_row Qplus Qminus Qdiv 0%Q 1%Q expf lnf Qltb eps.
Definition bce_loss_row (expf lnf : Q -> Q) (eps : Q) : list Q -> nat -> Q :=
  g_bce_loss_row Qplus Qminus Qdiv 0%Q 1%Q expf lnf Qltb eps.
Definition mean_loss : (list Q -> nat -> Q) -> list (list Q) -> list nat -> Q :=
  g_mean_loss Qplus Qdiv 0%Q qnat.

(* ------------------------------------------------------------------------------------------- *)
(** * Matrices *)
(** One CSR row: stored (column, value) pairs in storage order; duplicates allowed (they add up). *)
Definition srow := list (nat * Q).
Definition smat := list srow.
Definition dmat := list (list Q).

(** Feature matrix, dense ([np.ndarray]) or sparse ([csr_matrix]); [shape[1]] is explicit. *)
Inductive feats :=
| Dense (d : nat) (rows : dmat)
| Sparse (d : nat) (rows : smat).

Definition f_ncol (F : feats) : nat := match F with Dense d _ => d | Sparse d _ => d end.
Definition f_nrow (F : feats) : nat := match F with Dense _ r => length r | Sparse _ r => length r end.

(** Value at (i, j) of a sparse row list: sum of the stored values with that column. *)
Definition rentry (r : srow) (j : nat) : Q := sumq (map snd (filter (fun e => Nat.eqb (fst e) j) r)).
Definition sentry (A : smat) (i j : nat) : Q := rentry (nth i A []) j.
Definition dentry (M : dmat) (i j : nat) : Q := nthq (nth i M []) j.
Definition fentry (F : feats) (j c : nat) : Q :=
  match F with Dense _ rows => dentry rows j c | Sparse _ rows => sentry rows j c end.

(* ------------------------------------------------------------------------------------------- *)
(** * Convolution.forward *)
Inductive norm := NLeft | NRight | NBoth | NOther.   (* NOther: any other string, no branch taken *)
Inductive activation := Identity | Relu | Sigmoid | Softmax | CrossEntropyLoss | BinaryCrossEntropyLoss.

Record layer := {
  l_norm : norm;
  l_self : bool;            (* self_embeddings *)
  l_use_bias : bool;
  l_act : activation;       (* activation, or the loss (whose output is softmax / sigmoid) on the last layer *)
  l_out : nat;              (* out_channels *)
  l_weight : dmat;          (* weight, shape (in_channels, out_channels) *)
  l_bias : list Q           (* bias, shape (1, out_channels) *)
}.

(** [diagonal_pseudo_inverse]: [sparse.diags(w, format='csr')] stores no zero, so only the non-zero
    weights are inverted; the other diagonal entries stay 0. *)
Definition pinv (w : Q) : Q := if Qeq_bool w 0 then 0%Q else Qinv w.

(** [weights = adjacency.dot(np.ones(n_col))]: out-weights (row sums), used by all three normalisations. *)
Definition row_weight (r : srow) : Q := sumq (map snd r).
Definition weights (A : smat) : list Q := map row_weight A.

Definition scale_row (f : nat -> Q -> Q) (r : srow) : srow := map (fun e => (fst e, f (fst e) (snd e))) r.

Definition normalise (sqrtf : Q -> Q) (nm : norm) (A : smat) : smat :=
  let w := weights A in
  match nm with
  | NLeft =>    (* d_inv.dot(adjacency) *)
      map2 (fun wi r => scale_row (fun _ a => pinv wi * a)%Q r) w A
  | NRight =>   (* adjacency.dot(d_inv) *)
      map (scale_row (fun j a => a * pinv (nthq w j))%Q) A
  | NBoth =>    (* d_inv = pseudo_inverse(sqrt(weights)); d_inv.dot(adjacency).dot(d_inv) *)
      let s := map sqrtf w in
      map2 (fun si r => scale_row (fun j a => pinv si * a * pinv (nthq s j))%Q r) s A
  | NOther => A
  end.

(** [add_self_loops] on a square matrix: [sparse.diags(np.ones(n)) + adjacency]. *)
Definition add_self_loops (A : smat) : smat := map2 (fun i r => (i, 1%Q) :: r) (seq 0 (length A)) A.

(** [message = adjacency.dot(features)], one row. *)
Definition message_row (F : feats) (r : srow) : list Q :=
  map (fun c => sumq (map (fun e => snd e * fentry F (fst e) c)%Q r)) (seq 0 (f_ncol F)).

(** [embedding = message.dot(self.weight)] ([+ self.bias] if [use_bias]), one row. *)
Definition affine_row (L : layer) (d : nat) (m : list Q) : list Q :=
  map (fun k => let x := sumq (map (fun c => nthq m c * dentry (l_weight L) c k)%Q (seq 0 d)) in
                if l_use_bias L then (x + nthq (l_bias L) k)%Q else x)
      (seq 0 (l_out L)).

Definition act_row (expf : Q -> Q) (a : activation) (row : list Q) : list Q :=
  match a with
  | Identity => row
  | Relu => map relu row
  | Sigmoid | BinaryCrossEntropyLoss => map (sigmoid expf) row
  | Softmax | CrossEntropyLoss => softmax_row expf row
  end.

Definition conv_adjacency (sqrtf : Q -> Q) (L : layer) (A : smat) : smat :=
  let N := normalise sqrtf (l_norm L) A in
  if l_self L then add_self_loops N else N.

Definition embedding (sqrtf : Q -> Q) (L : layer) (A : smat) (F : feats) : dmat :=
  map (fun r => affine_row L (f_ncol F) (message_row F r)) (conv_adjacency sqrtf L A).

Definition forward (sqrtf expf : Q -> Q) (L : layer) (A : smat) (F : feats) : dmat :=
  map (act_row expf (l_act L)) (embedding sqrtf L A F).

(* ------------------------------------------------------------------------------------------- *)
(** * Specification: activation(N(A) X W + b), written with dense sums *)
Definition qsum (n : nat) (f : nat -> Q) : Q := sumq (map f (seq 0 n)).
Definition mmul (m : nat) (f g : nat -> nat -> Q) (i k : nat) : Q := qsum m (fun j => f i j * g j k)%Q.

(** Out-degree (weight) of node i of the dense denotation of A. *)
Definition deg (A : smat) (i : nat) : Q := qsum (length A) (sentry A i).

(** N(A): D^+ A, A D^+, (D^1/2)^+ A (D^1/2)^+, with D = diag(out-weights) and x^+ = 1/x for x <> 0, 0^+ = 0. *)
Definition nspec (sqrtf : Q -> Q) (nm : norm) (A : smat) (i j : nat) : Q :=
  match nm with
  | NLeft => pinv (deg A i) * sentry A i j
  | NRight => sentry A i j * pinv (deg A j)
  | NBoth => pinv (sqrtf (deg A i)) * sentry A i j * pinv (sqrtf (deg A j))
  | NOther => sentry A i j
  end%Q.
Definition nbar (sqrtf : Q -> Q) (nm : norm) (self : bool) (A : smat) (i j : nat) : Q :=
  (nspec sqrtf nm A i j + (if self && Nat.eqb i j then 1 else 0))%Q.

Definition spec_embedding (sqrtf : Q -> Q) (L : layer) (A : smat) (F : feats) (i k : nat) : Q :=
  (mmul (f_ncol F) (mmul (length A) (nbar sqrtf (l_norm L) (l_self L) A) (fentry F)) (dentry (l_weight L)) i k
   + (if l_use_bias L then nthq (l_bias L) k else 0))%Q.

Definition spec_forward (sqrtf expf : Q -> Q) (L : layer) (A : smat) (F : feats) (i : nat) : list Q :=
  act_row expf (l_act L) (map (spec_embedding sqrtf L A F i) (seq 0 (l_out L))).

(** Well-formedness of the inputs of one layer. *)
Definition wf_smat (ncol : nat) (A : smat) : Prop := forall r, In r A -> forall e, In e r -> fst e < ncol.
Definition wf_smatb (ncol : nat) (A : smat) : bool :=
  forallb (fun r => forallb (fun e => Nat.ltb (fst e) ncol) r) A.

(* ------------------------------------------------------------------------------------------- *)
(** * Renumbering the nodes: new index of node j is [p j]; [q] is the inverse of [p] *)
Definition perm_adj (p q : list nat) (A : smat) : smat :=
  map (fun i' => map (fun e => (nthn p (fst e), snd e)) (nth (nthn q i') A [])) (seq 0 (length A)).
Definition perm_rows {X : Type} (q : list nat) (M : list (list X)) : list (list X) :=
  map (fun i' => nth (nthn q i') M []) (seq 0 (length M)).
Definition perm_feats (q : list nat) (F : feats) : feats :=
  match F with Dense d rows => Dense d (perm_rows q rows) | Sparse d rows => Sparse d (perm_rows q rows) end.
Definition inverse_on (n : nat) (p q : list nat) : Prop :=
  (forall j, j < n -> nthn p j < n /\ nthn q (nthn p j) = j) /\
  (forall i, i < n -> nthn q i < n) /\ (forall i, i < n -> nthn p (nthn q i) = i).
Definition inverse_onb (n : nat) (p q : list nat) : bool :=
  forallb (fun j => Nat.ltb (nthn p j) n && Nat.eqb (nthn q (nthn p j)) j && Nat.ltb (nthn q j) n
                    && Nat.eqb (nthn p (nthn q j)) j) (seq 0 n).

(* ------------------------------------------------------------------------------------------- *)
(** * UniformNeighborSampler.__call__ *)
Inductive err := IndexError | TypeError.
Inductive result (A : Type) := Ok (a : A) | Err (e : err).
Arguments Ok {A} a.
Arguments Err {A} e.

(** One row. [choice] is the answer of [np.random.choice(deg, size=min(deg, sample_size), replace=False)]
    (any list is accepted: only its first min(deg, sample_size) elements are used, positions beyond the
    row raise IndexError). The row's data is zeroed, the chosen positions are set to 1, zeros are eliminated. *)
Definition sample_row (sample_size : nat) (r : srow) (choice : list nat) : result srow :=
  let k := Nat.min (length r) sample_size in
  let pos := firstn k choice in
  if forallb (fun t => Nat.ltb t (length r)) pos
  then Ok (map (fun t => (fst (nth t r (0, 0%Q)), 1%Q)) (filter (fun t => memn t pos) (seq 0 (length r))))
  else Err IndexError.

Fixpoint sample_rows (sample_size : nat) (A : smat) (choices : list (list nat)) : result smat :=
  match A with
  | [] => Ok []
  | r :: A' =>
      match sample_row sample_size r (hd [] choices) with
      | Err e => Err e
      | Ok r' => match sample_rows sample_size A' (tl choices) with
                 | Err e => Err e
                 | Ok rest => Ok (r' :: rest)
                 end
      end
  end.

(** [get_layer('sage', ...)] forces [normalization='left'], [self_embeddings=True]. *)
Definition sage_layer (L : layer) : layer :=
  {| l_norm := NLeft; l_self := true; l_use_bias := l_use_bias L; l_act := l_act L; l_out := l_out L;
     l_weight := l_weight L; l_bias := l_bias L |}.
Definition sage_forward (sqrtf expf : Q -> Q) (sample_size : nat) (L : layer) (A : smat) (F : feats)
           (choices : list (list nat)) : result dmat :=
  match sample_rows sample_size A choices with
  | Err e => Err e
  | Ok A' => Ok (forward sqrtf expf (sage_layer L) A' F)
  end.

(* ------------------------------------------------------------------------------------------- *)
(** * GNNClassifier.forward, _compute_predictions, predict_proba *)
Fixpoint gnn_forward (sqrtf expf : Q -> Q) (layers : list layer) (A : smat) (F : feats) : dmat :=
  match layers with
  | [] => match F with Dense _ rows => rows | Sparse _ _ => [] end
  | L :: rest =>
      let h := forward sqrtf expf L A F in
      match rest with
      | [] => h
      | _ => gnn_forward sqrtf expf rest A (Dense (l_out L) h)
      end
  end.

(** First index of the maximum ([np.argmax]). *)
Fixpoint argmax_from (best : Q) (besti : nat) (i : nat) (l : list Q) : nat :=
  match l with
  | [] => besti
  | x :: t => if Qltb best x then argmax_from x i (S i) t else argmax_from best besti (S i) t
  end.
Definition argmax (l : list Q) : nat :=
  match l with [] => 0 | x :: t => argmax_from x 0 1 t end.

(** [_compute_predictions]: one channel: [(output > 0.5).astype(int)]; else [output.argmax(axis=1)]. *)
Definition predict_row (row : list Q) : nat :=
  match row with
  | [x] => if Qltb (1 # 2) x then 1 else 0
  | _ => argmax row
  end.
Definition compute_predictions (output : dmat) : list nat := map predict_row output.

(** [predict_proba] (repo commit 166aefc2): for a single output channel ([probs.shape[1] == 1])
    [np.hstack((1 - probs, probs))], the two columns (1 - p, p); otherwise the output is returned. *)
Definition predict_proba (output : dmat) : dmat :=
  match output with
  | [_] :: _ => map (fun row => match row with [p] => [(1 - p)%Q; p] | _ => row end) output
  | _ => output
  end.
(** Legacy (before 166aefc2): [np.vstack(1 - probs, probs)] (two positional arguments) raised TypeError. *)
Definition predict_proba_legacy (output : dmat) : result dmat :=
  match output with
  | [_] :: _ => Err TypeError
  | _ => Ok output
  end.

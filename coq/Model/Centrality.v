(** Executable model over exact rationals of
      sknetwork/ranking/katz.py         (Katz.fit)
      sknetwork/ranking/closeness.py    (Closeness.fit, exact and approximate)
      sknetwork/ranking/betweenness.pyx (Betweenness.fit, Brandes)
      sknetwork/ranking/hits.py         (HITS.fit: the wrapper around the SVD solver)
    and their textbook specifications (brute force).  Definitions only (no proofs). *)
From SKN Require Import Base.Util Model.Bfs Model.PageRank.
From Coq Require Import Qabs Qreduction.
Close Scope Q_scope.
Open Scope nat_scope.

(* ------------------------------------------------------------------------------------------ *)
(** * Katz

    [coefs = alpha ** arange(K + 1); coefs[0] = 0; Polynome(adjacency.T.astype(bool), coefs).dot(ones(n))].
    The matrix is the 0/1 PATTERN of the transposed adjacency: weights are ignored. *)
Definition pattern (g : wgraph) : graph := map (map fst) g.
(** entry (j, i) of the transposed pattern = 1 iff row i stores column j *)
Definition BT (p : graph) : mat := fun j i => if memn j (row p i) then 1%Q else 0%Q.
Fixpoint qpow (a : Q) (k : nat) : Q := match k with O => 1%Q | S k' => Qred (a * qpow a k')%Q end.
Definition katz_coefs (alpha : Q) (K : nat) : list Q :=
  match map (qpow alpha) (seq 0 (S K)) with [] => [] | _ :: t => 0%Q :: t end.
Definition katz (g : wgraph) (alpha : Q) (K : nat) : list Q :=
  let n := length g in
  horner (mvl n (BT (pattern g))) (katz_coefs alpha K) (repeat 1%Q n).

(** Definition of the docstring: sum_{k=1..K} alpha^k ((A^T)^k 1), A the 0/1 adjacency matrix;
    ((A^T)^k 1) j = number of walks of k edges ending in j. *)
Fixpoint walks_to (p : graph) (k : nat) : vec :=
  match k with
  | O => fun _ => 1%Q
  | S k' => mv (length p) (BT p) (walks_to p k')
  end.
Definition katz_spec (p : graph) (alpha : Q) (K : nat) : vec :=
  fun j => bsum K (fun k => qpow alpha (S k) * walks_to p (S k) j)%Q.

(* ------------------------------------------------------------------------------------------ *)
(** * Closeness

    [distances = array([get_distances(adjacency, source=s) for s in sources])];
    exact: sources = arange(n), statistics along axis 1 (one row per node);
    approximate: sources = a random sample without replacement (an oracle here), statistics along
    axis 0 (one column per node).
    [scores = (n - 1) / n / mean(distances, axis); scores[min(distances, axis) < 0] = 0]. *)
Definition single_source (n : nat) (s : nat) : list bool := map (Nat.eqb s) (seq 0 n).
Definition dist_rows (p : graph) (sources : list nat) : list (list Z) :=
  map (fun s => match bfs p (single_source (length p) s) with Some d => d | None => [] end) sources.
Definition zq (z : Z) : Q := inject_Z z.
Definition closeness_of (n : nat) (ds : list Z) : Q :=
  if existsb (fun d => (d <? 0)%Z) ds then 0%Q
  else Qred ((zq (Z.of_nat n) - 1) / zq (Z.of_nat n) / (zq (sumz ds) / zq (Z.of_nat (length ds))))%Q.
Definition closeness_exact (p : graph) : list Q :=
  map (closeness_of (length p)) (dist_rows p (seq 0 (length p))).
Definition column (m : list (list Z)) (v : nat) : list Z := map (fun r => nthz r v) m.
Definition closeness_approx (p : graph) (sources : list nat) : list Q :=
  let d := dist_rows p sources in
  map (fun v => closeness_of (length p) (column d v)) (seq 0 (length p)).
(** The approximate branch before the repair (axis 1: one score per SAMPLED source, in sample order). *)
Definition old_closeness_approx (p : graph) (sources : list nat) : list Q :=
  map (closeness_of (length p)) (dist_rows p sources).

(** Textbook: (n - 1) / sum_j d(i, j) when every node is reachable from i. *)
Definition closeness_spec (n : nat) (dist_i : list Z) : Q := ((zq (Z.of_nat n) - 1) / zq (sumz dist_i))%Q.

(* ------------------------------------------------------------------------------------------ *)
(** * Betweenness (Brandes as coded) *)
Fixpoint updz (l : list Z) (j : nat) (v : Z) : list Z :=
  match l, j with
  | [], _ => []
  | _ :: t, O => v :: t
  | x :: t, S j' => x :: updz t j' v
  end.
Fixpoint updl (l : list (list nat)) (j : nat) (v : list nat) : list (list nat) :=
  match l, j with
  | [], _ => []
  | _ :: t, O => v :: t
  | x :: t, S j' => x :: updl t j' v
  end.

Record bstate := { b_queue : list nat; b_dists : list Z; b_sigma : list Z; b_preds : list (list nat) }.

(** [for j in neighbors: if dists[j] < 0: dists[j] = dists[i] + 1; queue.push(j)
                         if dists[j] == dists[i] + 1: sigma[j] += sigma[i]; preds[j].push_back(i)] *)
Definition visit_edge (i : nat) (st : bstate) (j : nat) : bstate :=
  let st1 := if (nthz (b_dists st) j <? 0)%Z
             then {| b_queue := b_queue st ++ [j]; b_dists := updz (b_dists st) j (nthz (b_dists st) i + 1)%Z;
                     b_sigma := b_sigma st; b_preds := b_preds st |}
             else st in
  if (nthz (b_dists st1) j =? nthz (b_dists st1) i + 1)%Z
  then {| b_queue := b_queue st1; b_dists := b_dists st1;
          b_sigma := updz (b_sigma st1) j (nthz (b_sigma st1) j + nthz (b_sigma st1) i)%Z;
          b_preds := updl (b_preds st1) j (nth j (b_preds st1) [] ++ [i]) |}
  else st1.

(** The BFS while loop; [seen] is the stack (head = last pushed). At most n pops. *)
Fixpoint brandes_bfs (fuel : nat) (p : graph) (st : bstate) (seen : list nat) : bstate * list nat :=
  match fuel with
  | O => (st, seen)
  | S f =>
      match b_queue st with
      | [] => (st, seen)
      | i :: q =>
          let st0 := {| b_queue := q; b_dists := b_dists st; b_sigma := b_sigma st; b_preds := b_preds st |} in
          brandes_bfs f p (fold_left (visit_edge i) (row p i) st0) (i :: seen)
      end
  end.

(** [while seen: j = seen.pop(); for i in preds[j]: delta[i] += sigma[i] / sigma[j] * (1 + delta[j]);
    if j != source: scores[j] += delta[j]] *)
Definition back_step (source : nat) (sigma : list Z) (preds : list (list nat))
           (acc : list Q * list Q) (j : nat) : list Q * list Q :=
  let '(delta, scores) := acc in
  let delta' := fold_left (fun dl i => upd dl i (Qred (V dl i + zq (nthz sigma i) / zq (nthz sigma j) * (1 + V dl j))%Q))
                          (nth j preds []) delta in
  (delta', if Nat.eqb j source then scores else upd scores j (Qred (V scores j + V delta' j)%Q)).

Definition brandes_source (p : graph) (scores : list Q) (source : nat) : list Q :=
  let n := length p in
  let st0 := {| b_queue := [source];
                b_dists := updz (repeat (-1)%Z n) source 0%Z;
                b_sigma := updz (repeat 0%Z n) source 1%Z;
                b_preds := repeat [] n |} in
  let '(st, seen) := brandes_bfs n p st0 [] in
  snd (fold_left (back_step source (b_sigma st) (b_preds st)) seen (repeat 0%Q n, scores)).

(** [is_symmetric(adjacency)]: A - A^T has no non-zero entry (weights included). *)
Definition is_symmetric (g : wgraph) : bool :=
  let n := length g in
  forallb (fun i => forallb (fun j => Qeq_bool (entry (wrow_of g i) j) (entry (wrow_of g j) i)) (seq 0 n)) (seq 0 n).

(** Betweenness.fit (current code): halve only for a symmetric adjacency. *)
Definition betweenness (g : wgraph) : list Q :=
  let p := pattern g in
  let sc := fold_left (brandes_source p) (seq 0 (length p)) (repeat 0%Q (length p)) in
  if is_symmetric g then map (fun x => Qred (x / 2)%Q) sc else sc.
(** Before the repair: halved unconditionally. *)
Definition old_betweenness (g : wgraph) : list Q :=
  let p := pattern g in
  map (fun x => Qred (x / 2)%Q) (fold_left (brandes_source p) (seq 0 (length p)) (repeat 0%Q (length p))).

(** Textbook by brute force. [nwalks p k s] t = number of walks of k edges from s to t; the walks of
    minimal length are exactly the shortest paths, so sigma_st = nwalks d(s,t) and
    sigma_st(v) = sigma_sv * sigma_vt when d(s,v) + d(v,t) = d(s,t). *)
Definition A01 (p : graph) : mat := fun i j => if memn j (row p i) then 1%Q else 0%Q.
Fixpoint nwalks (p : graph) (k : nat) (s : nat) : list Q :=
  match k with
  | O => map (fun t => if Nat.eqb s t then 1%Q else 0%Q) (seq 0 (length p))
  | S k' => let w := nwalks p k' s in
            tab (length p) (fun t => bsum (length p) (fun u => V w u * A01 p u t)%Q)
  end.
(** (distance, number of shortest paths) from s to t, None when unreachable *)
Definition sp_info (p : graph) (s t : nat) : option (nat * Q) :=
  match filter (fun k => negb (Qeq_bool (V (nwalks p k s) t) 0)) (seq 0 (length p)) with
  | [] => None
  | k :: _ => Some (k, V (nwalks p k s) t)
  end.
Definition pair_dependency (p : graph) (s t v : nat) : Q :=
  match sp_info p s t, sp_info p s v, sp_info p v t with
  | Some (d, sg), Some (d1, s1), Some (d2, s2) => if Nat.eqb (d1 + d2) d then (s1 * s2 / sg)%Q else 0%Q
  | _, _, _ => 0%Q
  end.
(** sum over ORDERED pairs (s, t), s <> v <> t, s <> t *)
Definition betweenness_ordered (p : graph) (v : nat) : Q :=
  let n := length p in
  Qred (bsum n (fun s => bsum n (fun t =>
     if Nat.eqb s v || Nat.eqb t v || Nat.eqb s t then 0%Q else pair_dependency p s t v))).
(** Textbook: ordered pairs for a directed graph, unordered pairs (half) for an undirected one. *)
Definition betweenness_spec (g : wgraph) : list Q :=
  let p := pattern g in
  map (fun v => if is_symmetric g then Qred (betweenness_ordered p v / 2)%Q else betweenness_ordered p v)
      (seq 0 (length p)).

(** All digraphs on n nodes (for the bounded theorem): every subset of the n*n possible arcs. *)
Fixpoint sublists {A} (l : list A) : list (list A) :=
  match l with
  | [] => [[]]
  | x :: t => let r := sublists t in r ++ map (cons x) r
  end.
Definition arcs (n : nat) (loops : bool) : list (nat * nat) :=
  filter (fun e => loops || negb (Nat.eqb (fst e) (snd e)))
         (flat_map (fun i => map (fun j => (i, j)) (seq 0 n)) (seq 0 n)).
Definition graph_of_arcs (n : nat) (es : list (nat * nat)) : wgraph :=
  map (fun i => map (fun e => (snd e, 1%Q)) (filter (fun e => Nat.eqb (fst e) i) es)) (seq 0 n).
Definition all_digraphs (n : nat) (loops : bool) : list wgraph := map (graph_of_arcs n) (sublists (arcs n loops)).
Definition list_eqb (a b : list Q) : bool :=
  Nat.eqb (length a) (length b) && forallb (fun xy => Qeq_bool (fst xy) (snd xy)) (combine a b).

(* ------------------------------------------------------------------------------------------ *)
(** * HITS wrapper around the SVD oracle (current code)

    [hubs = clip(hubs, 0) if hubs.sum() > 0 else clip(-hubs, 0)] and the same for authorities. *)
Definition clip_pos (u : list Q) : list Q := map (fun x => if Qltb x 0 then 0%Q else x) u.
Definition clip_neg (u : list Q) : list Q := map (fun x => if Qltb (- x) 0 then 0%Q else (- x)%Q) u.
Definition sign_fix (u : list Q) : list Q := if Qltb 0 (sumq u) then clip_pos u else clip_neg u.
Definition hits (u v : list Q) : list Q * list Q := (sign_fix u, sign_fix v).

(** Before the repair: orientation by COUNTING the positive and negative entries. *)
Definition count (f : Q -> bool) (l : list Q) : nat := length (filter f l).
Definition old_sign_fix (u : list Q) : list Q :=
  let pos := count (fun x => Qltb 0 x) u in
  let neg := count (fun x => Qltb x 0) u in
  if Nat.ltb neg pos then clip_pos u else clip_neg u.

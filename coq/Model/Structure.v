(** Executable model of sknetwork/topology/structure.py
    (get_connected_components, is_connected, get_largest_connected_component, is_bipartite),
    with the pieces of utils/check.py (is_symmetric, check_format's emptiness test) and
    utils/format.py (get_adjacency's bipartite decision and block construction) they use.
    Definitions only (no proofs).

    Matrices are 0/1 patterns ([graph] = rows of stored column indices, in CSR order).
    SciPy's [csgraph.connected_components] is an ORACLE: its answer (the label vector) is an
    argument [comp]; the contract the callers rely on is [components_contract] below. *)
From SKN Require Import Base.Util Model.Bfs.

(** * Shared helpers (patterns) *)
Definition nodes (g : graph) : list nat := seq 0 (length g).
Definition edgeb (g : graph) (u v : nat) : bool := memn v (row g u).
Definition nnz (g : graph) : nat := sumn (map (@length nat) g).

(** [is_symmetric]: [(A - A.T).nnz == 0] on a 0/1 pattern. *)
Definition is_symmetric (g : graph) : bool :=
  forallb (fun u => forallb (fun v => edgeb g v u) (row g u)) (nodes g).

(** [adjacency.diagonal().any()] / [(adjacency.diagonal() > 0).any()]. *)
Definition has_loops (g : graph) : bool := existsb (fun u => edgeb g u u) (nodes g).

(** [get_adjacency(input_matrix, force_bipartite=fb)] with the default allow_directed=True:
    bipartite iff forced or not square; then the block matrix [[0,B],[B^T,0]] (rows first). *)
Definition get_adjacency (m : pmat) (fb : bool) : graph * bool :=
  let bip := fb || negb (p_nrow m =? p_ncol m) in
  (if bip then block_undirected m else p_rows m, bip).

(** [M[rows, :]] then [[:, cols]]: entry (a, b) of the result is entry (rows[a], cols[b]). *)
Definition submatrix (m : pmat) (rws cls : list nat) : pmat :=
  {| p_ncol := length cls;
     p_rows := map (fun i => filter (fun k => memn (nthn cls k) (row (p_rows m) i)) (seq 0 (length cls))) rws |}.

(** * Specification of connectivity (independent of the code) *)
Definition edge (g : graph) (u v : nat) : Prop := In v (row g u).
(** Reflexive-transitive closure, restricted to nodes of the graph. *)
Inductive reach (E : nat -> nat -> Prop) : nat -> nat -> Prop :=
| reach_refl u : reach E u u
| reach_step u x v : E u x -> reach E x v -> reach E u v.
Definition sedge (g : graph) (u v : nat) : Prop := edge g u v \/ edge g v u.
Definition sconn (g : graph) (u v : nat) : Prop := reach (edge g) u v /\ reach (edge g) v u.
Definition wconn (g : graph) (u v : nat) : Prop := reach (sedge g) u v.

(** Contract of the oracle: one label per node; two nodes share a label iff they are
    strongly (connection='strong') / weakly (connection='weak') connected. *)
Definition components_contract (g : graph) (strong : bool) (comp : list nat) : Prop :=
  length comp = length g /\
  forall u v, u < length g -> v < length g ->
    (nthn comp u = nthn comp v <-> if strong then sconn g u v else wconn g u v).

(** Executable brute force: reachability by BFS (Model/Bfs.v, proved exact in BfsProofs),
    canonical labels (smallest node of the class), and a checker of the contract. *)
Definition one_hot (n : nat) (srcs : list nat) : list bool := map (fun v => memn v srcs) (seq 0 n).
Definition reach_from (g : graph) (srcs : list nat) : list bool :=
  match bfs g (one_hot (length g) srcs) with
  | Some d => map (fun x => (0 <=? x)%Z) d
  | None => []
  end.
Definition symmetrise (g : graph) : graph :=
  map (fun u => row g u ++ filter (fun v => edgeb g v u) (nodes g)) (nodes g).
Definition conn_matrix (g : graph) (strong : bool) : list (list bool) :=
  if strong then
    let r := map (fun u => reach_from g [u]) (nodes g) in
    map (fun u => map (fun v => nthb (nth u r []) v && nthb (nth v r []) u) (nodes g)) (nodes g)
  else let s := symmetrise g in map (fun u => reach_from s [u]) (nodes g).
Fixpoint first_true_from (l : list bool) (i : nat) : nat :=
  match l with [] => i | true :: _ => i | false :: t => first_true_from t (S i) end.
Definition first_true (l : list bool) : nat := first_true_from l 0.
Definition canon_labels (g : graph) (strong : bool) : list nat := map first_true (conn_matrix g strong).
Definition components_contract_b (g : graph) (strong : bool) (comp : list nat) : bool :=
  let c := conn_matrix g strong in
  (length comp =? length g) &&
  forallb (fun u => forallb (fun v => Bool.eqb (nthn comp u =? nthn comp v) (nthb (nth u c []) v)) (nodes g)) (nodes g).

(** * get_connected_components / is_connected *)
(** [check_format] and the explicit test both raise ValueError on a matrix without stored entry;
    otherwise the oracle's labels for [fst (get_adjacency m fb)] are returned as they are. *)
Definition cc_adjacency (m : pmat) (fb : bool) : graph := fst (get_adjacency m fb).
Definition get_connected_components (m : pmat) (fb : bool) (comp : list nat) : result (list nat) :=
  if nnz (p_rows m) =? 0 then Err ValueError else Ok comp.

(** [len(set(labels)) == 1] *)
Definition n_labels (comp : list nat) : nat := length (nodup Nat.eq_dec comp).
Definition is_connected (m : pmat) (fb : bool) (comp : list nat) : result bool :=
  match get_connected_components m fb comp with
  | Err e => Err e
  | Ok labels => Ok (n_labels labels =? 1)
  end.

(** * get_largest_connected_component *)
(** [np.unique(labels, return_counts=True)]: distinct labels in increasing order, with counts. *)
Definition count (l : list nat) (x : nat) : nat := length (filter (Nat.eqb x) l).
Definition np_unique (l : list nat) : list nat := filter (fun x => memn x l) (seq 0 (S (list_max l))).
(** [np.argmax]: index of the FIRST maximum. *)
Fixpoint argmax_aux (l : list nat) (i besti bestv : nat) : nat :=
  match l with
  | [] => besti
  | x :: t => if bestv <? x then argmax_aux t (S i) i x else argmax_aux t (S i) besti bestv
  end.
Definition argmax (l : list nat) : nat := match l with [] => 0 | x :: t => argmax_aux t 1 0 x end.
Definition largest_label (labels : list nat) : nat :=
  let u := np_unique labels in nthn u (argmax (map (count labels) u)).

(** Returns (output matrix, index). Bipartite input: rows selected first, then columns;
    index = hstack(index_row, index_col), the column part relative to the columns. *)
Definition get_largest_connected_component (m : pmat) (fb : bool) (comp : list nat)
  : result (pmat * list nat) :=
  if nnz (p_rows m) =? 0 then Err ValueError else
  let bip := snd (get_adjacency m fb) in
  let l := largest_label comp in
  if bip then
    let n_row := p_nrow m in
    let index_row := filter (fun i => nthn comp i =? l) (seq 0 n_row) in
    let index_col := filter (fun j => nthn comp (n_row + j) =? l) (seq 0 (length comp - n_row)) in
    Ok (submatrix m index_row index_col, index_row ++ index_col)
  else
    let index := filter (fun i => nthn comp i =? l) (seq 0 (length comp)) in
    Ok (submatrix m index index, index).

(** * is_bipartite *)
(** coloring: None = -1, Some false = 0, Some true = 1. *)
Definition color := option bool.
Definition getc (col : list color) (v : nat) : color := nth v col None.
Fixpoint setc (col : list color) (v : nat) (c : color) : list color :=
  match col, v with
  | [], _ => []
  | _ :: t, O => c :: t
  | x :: t, S v' => x :: setc t v' c
  end.
Definition color_eqb (a b : color) : bool :=
  match a, b with
  | None, None => true
  | Some x, Some y => Bool.eqb x y
  | _, _ => false
  end.

Inductive scan_res := Conflict | Cont (col : list color) (stack : list nat) (rem : nat).

(** The [for neighbor in ...] loop for one popped node. The stack's top is the list head. *)
Fixpoint bip_scan (node : nat) (nbrs : list nat) (col : list color) (stack : list nat) (rem : nat) : scan_res :=
  match nbrs with
  | [] => Cont col stack rem
  | v :: t =>
      match getc col v with
      | None => bip_scan node t (setc col v (option_map negb (getc col node))) (v :: stack) (rem - 1)
      | Some c => if color_eqb (Some c) (getc col node) then Conflict else bip_scan node t col stack rem
      end
  end.

(** [np.argwhere(coloring == -1)[0, 0]] *)
Fixpoint first_none (col : list color) (i : nat) : option nat :=
  match col with
  | [] => None
  | None :: _ => Some i
  | Some _ :: t => first_none t (S i)
  end.

(** Both while loops as one fuel-indexed loop: a non-empty stack runs the inner loop's body,
    an empty stack tests [exists_remaining] and picks the next source. [Ok None] = return False. *)
Fixpoint bip_loop (fuel : nat) (g : graph) (col : list color) (stack : list nat) (rem : nat)
  : result (option (list color)) :=
  match fuel with
  | O => Err OutOfFuel
  | S f =>
      match stack with
      | node :: st =>
          match bip_scan node (row g node) col st rem with
          | Conflict => Ok None
          | Cont c s r => bip_loop f g c s r
          end
      | [] =>
          if rem =? 0 then Ok (Some col)
          else match first_none col 0 with
               | None => Err IndexError
               | Some src => bip_loop f g (setc col src (Some false)) [src] (rem - 1)
               end
      end
  end.

Definition color_is (col : list color) (c : bool) (u : nat) : bool := color_eqb (getc col u) (Some c).
Definition sq (g : graph) : pmat := {| p_ncol := length g; p_rows := g |}.

(** Result: (is_bipartite, Some (biadjacency, rows, cols)) — the three optional outputs of
    return_biadjacency=True; the plain call returns the first component. *)
Definition is_bipartite (g : graph) : result (bool * option (pmat * list nat * list nat)) :=
  if negb (is_symmetric g) then Err ValueError else
  if has_loops g then Ok (false, None) else
  let n := length g in
  match bip_loop (2 * n + 1) g (repeat None n) [] n with
  | Err e => Err e
  | Ok None => Ok (false, None)
  | Ok (Some col) =>
      let rws := filter (color_is col false) (seq 0 n) in
      let cls := filter (color_is col true) (seq 0 n) in
      Ok (true, Some (submatrix (sq g) rws cls, rws, cls))
  end.

(** Specification: proper 2-colourings. *)
Definition proper (g : graph) (f : nat -> bool) : Prop :=
  forall u v, u < length g -> In v (row g u) -> f u <> f v.
Definition two_colourable (g : graph) : Prop := exists f, proper g f.
(** Executable brute force: all 2^n colourings. *)
Fixpoint all_colourings (n : nat) : list (list bool) :=
  match n with
  | O => [[]]
  | S k => flat_map (fun c => [false :: c; true :: c]) (all_colourings k)
  end.
Definition proper_b (g : graph) (c : list bool) : bool :=
  forallb (fun u => forallb (fun v => negb (Bool.eqb (nthb c u) (nthb c v))) (row g u)) (nodes g).
Definition two_colourable_b (g : graph) : bool := existsb (proper_b g) (all_colourings (length g)).

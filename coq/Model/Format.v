(** Executable model of the glue every algorithm shares:
    sknetwork/utils/check.py   (check_format, is_square, is_symmetric),
    sknetwork/utils/format.py  (bipartite2undirected, bipartite2directed, get_adjacency,
                                get_adjacency_values),
    sknetwork/utils/values.py  (get_values, stack_values),
    sknetwork/*/base.py        (_split_vars),
    and the permutation action used by the renumbering property.
    Definitions only (no proofs).  Weights are exact rationals, indices are [nat]. *)
From SKN Require Import Base.Util Model.Bfs.
From Coq Require Import Sorted Permutation.

(** * Sparse rows *)

(** A stored row: (column, value) pairs, any order, duplicates allowed (SciPy's CSR does not
    require canonical format). *)
Definition wrow := list (nat * Q).
Definition wrows := list wrow.
(** A CSR matrix: (number of columns, rows). *)
Definition wmat := (nat * wrows)%type.
Definition m_ncol (m : wmat) : nat := fst m.
Definition m_rows (m : wmat) : wrows := snd m.
Definition m_nrow (m : wmat) : nat := length (snd m).

Definition qnz (v : Q) : bool := negb (Qeq_bool v 0%Q).

(** Value of a stored row at column j: duplicates are summed (this is what every SciPy product
    and every kernel accumulating over [indptr]/[indices] sees). *)
Definition entry_row (r : wrow) (j : nat) : Q :=
  sumq (map snd (filter (fun e => Nat.eqb (fst e) j) r)).
Definition entry (rows : wrows) (i j : nat) : Q := entry_row (nth i rows []) j.

(** Strictly increasing column indices = SciPy's "canonical format" (sorted, no duplicates). *)
Definition row_sorted (r : wrow) : Prop := StronglySorted lt (map fst r).
Definition rows_sorted (rows : wrows) : Prop := Forall row_sorted rows.
Definition wf_rows (ncol : nat) (rows : wrows) : Prop :=
  Forall (Forall (fun e : nat * Q => fst e < ncol)) rows.
Definition wf_wmat (m : wmat) : Prop := wf_rows (fst m) (snd m).

(** Pattern view (what [astype(bool)] / a structural kernel sees): columns of non-zero values. *)
Definition pattern (rows : wrows) : graph :=
  map (fun r => map fst (filter (fun e => qnz (snd e)) r)) rows.
Definition pattern_pmat (m : wmat) : pmat := {| p_ncol := fst m; p_rows := pattern (snd m) |}.

(** [eliminate_zeros]: drop the stored zeros. *)
Definition eliminate_zeros (rows : wrows) : wrows :=
  map (filter (fun e => qnz (snd e))) rows.

(** Two rows with the same column list and [Qeq] values. *)
Definition row_eq (r1 r2 : wrow) : Prop :=
  map fst r1 = map fst r2 /\ Forall2 Qeq (map snd r1) (map snd r2).
Definition rows_eq (a b : wrows) : Prop := Forall2 row_eq a b.

(** * Containers accepted by check_format *)

Inductive container :=
| Dense (rows : list (list Q))
| Coo (nrow ncol : nat) (entries : list (nat * nat * Q))
| Csc (nrow : nat) (cols : list (list (nat * Q)))
| Lil (ncol : nat) (rows : list (list (nat * Q)))
| Csr (ncol : nat) (rows : list (list (nat * Q))).

Definition is_csr (c : container) : bool := match c with Csr _ _ => true | _ => false end.

Definition dense_ncol (rows : list (list Q)) : nat :=
  match rows with [] => 0 | r :: _ => length r end.

Definition c_nrow (c : container) : nat :=
  match c with
  | Dense rows => length rows
  | Coo nr _ _ => nr
  | Csc nr _ => nr
  | Lil _ rows => length rows
  | Csr _ rows => length rows
  end.

Definition c_ncol (c : container) : nat :=
  match c with
  | Dense rows => dense_ncol rows
  | Coo _ nc _ => nc
  | Csc _ cols => length cols
  | Lil nc _ => nc
  | Csr nc _ => nc
  end.

Definition coo_at (i j : nat) (e : nat * nat * Q) : bool :=
  Nat.eqb (fst (fst e)) i && Nat.eqb (snd (fst e)) j.
Definition coo_sum (es : list (nat * nat * Q)) (i j : nat) : Q :=
  sumq (map snd (filter (coo_at i j) es)).
Definition coo_stored (es : list (nat * nat * Q)) (i j : nat) : bool :=
  existsb (coo_at i j) es.

(** The denotation: the matrix a container stands for (SPECIFICATION of the conversion). *)
Definition den (c : container) (i j : nat) : Q :=
  match c with
  | Dense rows => nthq (nth i rows []) j
  | Coo _ _ es => coo_sum es i j
  | Csc _ cols => entry cols j i
  | Lil _ rows => entry rows i j
  | Csr _ rows => entry rows i j
  end.

(** Shape conditions (what the SciPy constructors check). *)
Definition wf_shape (c : container) : Prop :=
  match c with
  | Dense rows => Forall (fun r => length r = dense_ncol rows) rows
  | Coo nr nc es => Forall (fun e : nat * nat * Q => fst (fst e) < nr /\ snd (fst e) < nc) es
  | Csc nr cols => wf_rows nr cols
  | Lil nc rows => wf_rows nc rows
  | Csr nc rows => wf_rows nc rows
  end.

(** Class invariants SciPy maintains for CSC built through its API (no duplicate row index in
    a column) and for LIL (rows sorted, no duplicates).  Nothing for Dense / Coo / Csr. *)
Definition canonical (c : container) : Prop :=
  match c with
  | Csc _ cols => Forall (fun col : wrow => NoDup (map fst col)) cols
  | Lil _ rows => rows_sorted rows
  | _ => True
  end.

(** ndarray -> coo (via [nonzero()]) -> csr: non-zero entries, in column order. *)
Definition dense_row (r : list Q) : wrow :=
  filter (fun e => qnz (snd e)) (combine (seq 0 (length r)) r).

(** coo -> csr ([coo_tocsr] then [sum_duplicates]): one stored entry per stored position, columns
    ascending, duplicates summed; a sum that happens to be zero STAYS stored. *)
Definition coo_row (es : list (nat * nat * Q)) (ncol i : nat) : wrow :=
  map (fun j => (j, coo_sum es i j)) (filter (coo_stored es i) (seq 0 ncol)).

(** Transposition as [csr_tocsc] does it: output row k lists, for a = 0, 1, ... in this order, the
    entries of input list a that carry index k, in stored order (duplicates are kept). *)
Definition tr_row (lists : wrows) (k : nat) : wrow :=
  flat_map (fun a => map (fun e => (a, snd e))
                         (filter (fun e => Nat.eqb (fst e) k) (nth a lists [])))
           (seq 0 (length lists)).
Definition transpose_w (n : nat) (lists : wrows) : wrows := map (tr_row lists) (seq 0 n).

(** [sparse.csr_matrix(x)] for the five accepted containers.  A CSR input is returned as is:
    unsorted rows stay unsorted, duplicates stay. *)
Definition to_csr (c : container) : wmat :=
  match c with
  | Dense rows => (dense_ncol rows, map dense_row rows)
  | Coo nr nc es => (nc, map (coo_row es nc) (seq 0 nr))
  | Csc nr cols => (length cols, transpose_w nr cols)
  | Lil nc rows => (nc, rows)
  | Csr nc rows => (nc, rows)
  end.

Definition nnz (rows : wrows) : nat := sumn (map (@length (nat * Q)) rows).

(** check_format: conversion, then ValueError on a matrix without stored entry unless allowed. *)
Definition check_format (c : container) (allow_empty : bool) : result wmat :=
  let m := to_csr c in
  if negb allow_empty && Nat.eqb (nnz (snd m)) 0 then Err ValueError else Ok m.

(** * is_square, is_symmetric *)

Definition is_square (m : wmat) : bool := Nat.eqb (length (snd m)) (fst m).

(** [csr_matrix(A - A.T).nnz == 0]: SciPy's binary operators store only non-zero results, so this
    is a statement about the denotation.  Decided over the stored support. *)
Definition is_symmetric (rows : wrows) : bool :=
  forallb (fun i => forallb (fun e : nat * Q => Qeq_bool (entry rows i (fst e)) (entry rows (fst e) i))
                            (nth i rows []))
          (seq 0 (length rows)).

(** * Bipartite block matrices (rows first, then columns) *)

Definition shift_row (n : nat) (r : wrow) : wrow := map (fun e => (n + fst e, snd e)) r.

(** [[0, B], [B^T, 0]].  (SciPy's [bmat] goes through COO and therefore also sums duplicates and
    sorts; on rows in canonical format the result below is exactly that, see [block_sorted].) *)
Definition bipartite2undirected (b : wmat) : wmat :=
  let n_row := length (snd b) in
  (n_row + fst b, map (shift_row n_row) (snd b) ++ transpose_w (fst b) (snd b)).

(** [[0, B], [0, 0]]. *)
Definition bipartite2directed (b : wmat) : wmat :=
  let n_row := length (snd b) in
  (n_row + fst b, map (shift_row n_row) (snd b) ++ repeat [] (fst b)).

(** The decision expression of get_adjacency:
    [force_bipartite or not is_square(m) or not (allow_directed or is_symmetric(m))]. *)
Definition bipartite_decision (m : wmat) (allow_directed force_bipartite : bool) : bool :=
  force_bipartite || negb (is_square m) || (negb allow_directed && negb (is_symmetric (snd m))).

Definition get_adjacency (m : wmat) (allow_directed force_bipartite force_directed : bool)
  : wmat * bool :=
  let bipartite := bipartite_decision m allow_directed force_bipartite in
  (if bipartite
   then (if force_directed then bipartite2directed m else bipartite2undirected m)
   else m,
   bipartite).

(** get_adjacency on a raw container (check_format first). *)
Definition get_adjacency_c (c : container) (allow_directed force_bipartite force_directed allow_empty : bool)
  : result (wmat * bool) :=
  match check_format c allow_empty with
  | Err e => Err e
  | Ok m => Ok (get_adjacency m allow_directed force_bipartite force_directed)
  end.

(** * Values (seeds, labels, ...) *)

Inductive vals := VNone | VArr (l : list Q) | VDict (d : list (nat * Q)).

(** [values[keys] = values_]: NumPy fancy assignment, a later duplicate key overwrites. *)
Definition dict_get (d : list (nat * Q)) (i : nat) (default : Q) : Q :=
  match find (fun e => Nat.eqb (fst e) i) (rev d) with
  | Some e => snd e
  | None => default
  end.

Definition get_values (n : nat) (v : vals) (default : Q) : result (list Q) :=
  match v with
  | VNone => Ok (repeat 1%Q n)
  | VArr l => if Nat.eqb (length l) n then Ok l else Err ValueError
  | VDict d =>
      match d with
      | [] => Err ValueError                      (* np.min of an empty array *)
      | _ => if forallb (fun e : nat * Q => Nat.ltb (fst e) n) d
             then Ok (map (fun i => dict_get d i default) (seq 0 n))
             else Err IndexError
      end
  end.

(** The replacement of missing parts at the top of stack_values. *)
Definition stack_defaults (n_row n_col : nat) (vrow vcol : vals) (default : Q) : vals * vals :=
  match vrow, vcol with
  | VNone, VNone => (VArr (repeat 1%Q n_row), VArr (repeat default n_col))
  | VNone, _ => (VArr (repeat default n_row), vcol)
  | _, VNone => (vrow, VArr (repeat default n_col))
  | _, _ => (vrow, vcol)
  end.

Definition stack_values (n_row n_col : nat) (vrow vcol : vals) (default : Q) : result (list Q) :=
  let (vr, vc) := stack_defaults n_row n_col vrow vcol default in
  match get_values n_row vr default with
  | Err e => Err e
  | Ok r =>
      match get_values n_col vc default with
      | Err e => Err e
      | Ok c => Ok (r ++ c)                        (* np.hstack *)
      end
  end.

(** [_split_vars]: [x_row_ = x_[:n_row]], [x_col_ = x_[n_row:]]. *)
Definition split {A} (n_row : nat) (l : list A) : list A * list A := (firstn n_row l, skipn n_row l).

(** What a seed argument says about node i (SPECIFICATION of the addressing). *)
Definition seed_at (v : vals) (none_value default : Q) (i : nat) : Q :=
  match v with
  | VNone => none_value
  | VArr l => nthq l i
  | VDict d => dict_get d i default
  end.

(** get_adjacency_values without the [which] post-processing. *)
Definition get_adjacency_values (m : wmat) (allow_directed force_bipartite force_directed : bool)
           (values values_row values_col : vals) (default : Q) : result (wmat * list Q * bool) :=
  let force_bipartite :=
    match values_row, values_col with VNone, VNone => force_bipartite | _, _ => true end in
  let (adjacency, bipartite) := get_adjacency m allow_directed force_bipartite force_directed in
  let n_row := length (snd m) in
  let n_col := fst m in
  let rv :=
    if bipartite then
      match values with
      | VNone => stack_values n_row n_col values_row values_col default
      | _ => stack_values n_row n_col values VNone default
      end
    else get_values n_row values default in
  match rv with
  | Err e => Err e
  | Ok v => Ok (adjacency, v, bipartite)
  end.

(** * The generic estimator skeleton *)

(** A "core" algorithm maps an adjacency and a seed vector to one number per node. *)
Definition core := wrows -> list Q -> list Q.

Definition fit_sq (F : core) (a : wmat) (seeds : list Q) : list Q := F (snd a) seeds.

(** Bipartite pipeline: block adjacency, stacked seeds, core, split. *)
Definition fit_bip (F : core) (b : wmat) (vrow vcol : vals) (default : Q)
  : result (list Q * list Q) :=
  let n_row := length (snd b) in
  match stack_values n_row (fst b) vrow vcol default with
  | Err e => Err e
  | Ok s => Ok (split n_row (F (snd (bipartite2undirected b)) s))
  end.

(** The skeleton as the estimators code it: get_adjacency_values, core, then _split_vars when the
    bipartite treatment was chosen.  Result: (x_, Some x_col_) or (x_, None); x_row_ = x_. *)
Definition fit (F : core) (m : wmat) (allow_directed force_bipartite force_directed : bool)
           (values values_row values_col : vals) (default : Q)
  : result (list Q * option (list Q)) :=
  match get_adjacency_values m allow_directed force_bipartite force_directed
                             values values_row values_col default with
  | Err e => Err e
  | Ok (adjacency, v, bipartite) =>
      let s := F (snd adjacency) v in
      if bipartite
      then let (r, c) := split (length (snd m)) s in Ok (r, Some c)
      else Ok (s, None)
  end.

(** * Permutation action *)

(** A permutation of {0..n-1} is its image list p (node i becomes node p[i]);
    admissible when [Permutation p (seq 0 n)]. *)
Fixpoint index_of (k : nat) (p : list nat) : nat :=
  match p with
  | [] => 0
  | a :: t => if Nat.eqb a k then 0 else S (index_of k t)
  end.

(** The vector w with w[p[i]] = v[i]. *)
Definition perm_vec {A} (d : A) (p : list nat) (v : list A) : list A :=
  map (fun k => nth (index_of k p) v d) (seq 0 (length p)).
Definition perm_vecb := @perm_vec bool false.
Definition perm_vecz := @perm_vec Z 0%Z.
Definition perm_vecq := @perm_vec Q 0%Q.

(** Independent renumbering of rows (pr) and columns (pc) of a biadjacency matrix:
    row pr[i] of the result = row i with every column c replaced by pc[c]. *)
Definition perm_bip (pr pc : list nat) (b : wrows) : wrows :=
  map (fun k => map (fun e : nat * Q => (nthn pc (fst e), snd e)) (nth (index_of k pr) b []))
      (seq 0 (length pr)).
(** P A P^T. *)
Definition perm_wrows (p : list nat) (a : wrows) : wrows := perm_bip p p a.

Definition perm_graph (p : list nat) (g : graph) : graph :=
  map (fun k => map (nthn p) (row g (index_of k p))) (seq 0 (length p)).

(** Sparse matrix - vector product, accumulating in stored order. *)
Definition matvec (a : wrows) (x : list Q) : list Q :=
  map (fun r : wrow => sumq (map (fun e => (snd e * nthq x (fst e))%Q) r)) a.

(** Executable model of sknetwork/regression/diffusion.py (Diffusion, Dirichlet, init_temperatures),
    regression/base.py (_split_vars), linalg/normalizer.py (normalize, p = 1),
    utils/format.py (get_adjacency_values, bipartite2undirected) and utils/values.py
    (get_values, stack_values), over exact rationals.  Definitions only (no proofs). *)
From SKN Require Import Base.Util.
From Coq Require Import Qabs Qreduction.
Close Scope Q_scope.
Open Scope nat_scope.

Inductive err := ValueError | IndexError | NanResult.
Inductive result (A : Type) := Ok (a : A) | Err (e : err).
Arguments Ok {A} a.
Arguments Err {A} e.

(** Sparse weighted matrix: row i lists its stored entries (column, weight), any order.
    The denotation of an entry is the sum of the stored weights at that position. *)
Definition wrow := list (nat * Q).
Record wmat := { w_ncol : nat; w_rows : list wrow }.
Definition w_nrow (m : wmat) : nat := length (w_rows m).
Definition wrow_of (rows : list wrow) (i : nat) : wrow := nth i rows [].
Definition nnz (m : wmat) : nat := sumn (map (@length (nat * Q)) (w_rows m)).

(** [matrix.dot(vector)]; the result of every product is reduced so that the exact iteration stays small. *)
Definition dot_row (r : wrow) (v : list Q) : Q := sumq (map (fun e => (snd e * nthq v (fst e))%Q) r).
Definition matvec (rows : list wrow) (v : list Q) : list Q := map (fun r => Qred (dot_row r v)) rows.

(** linalg/normalizer.py: [norms = |matrix|.dot(ones)], [diag = diagonal_pseudo_inverse(norms)]
    (rows of norm 0 have no diagonal entry), [diag.dot(matrix)]: null rows stay null. *)
Definition row_norm (r : wrow) : Q := sumq (map (fun e => Qabs (snd e)) r).
Definition normalize_row (r : wrow) : wrow :=
  let s := row_norm r in
  if Qeq_bool s 0 then [] else map (fun e => (fst e, (snd e / s)%Q)) r.
Definition normalize (rows : list wrow) : list wrow := map normalize_row rows.

(** [matrix.T.tocsr()] *)
Definition transpose (m : wmat) : wmat :=
  {| w_ncol := w_nrow m;
     w_rows := map (fun j => flat_map (fun i => map (fun e => (i, snd e))
                                                   (filter (fun e => Nat.eqb (fst e) j) (wrow_of (w_rows m) i)))
                                      (seq 0 (w_nrow m)))
                   (seq 0 (w_ncol m)) |}.

(** [bipartite2undirected]: [[0, B], [B^T, 0]]. *)
Definition block_undirected (m : wmat) : list wrow :=
  map (fun r => map (fun e => (w_nrow m + fst e, snd e)) r) (w_rows m) ++ w_rows (transpose m).

(** Seeds as given by the caller: array, list, or dict (association list, keys = node indices). *)
Inductive seedsrc := SArray (l : list Q) | SList (l : list Q) | SDict (d : list (nat * Q)).

(** [values[keys] = values_]: the last assignment to a key wins (keys of a Python dict are distinct anyway). *)
Fixpoint dict_get (d : list (nat * Q)) (i : nat) : option Q :=
  match d with
  | [] => None
  | (k, x) :: t => match dict_get t i with
                   | Some y => Some y
                   | None => if Nat.eqb k i then Some x else None
                   end
  end.

(** utils/values.py: get_values. A list becomes an array; an array must have length n;
    a dict fills a vector of [default_value]; [np.min] of an empty dict raises ValueError;
    a key >= n raises IndexError; anything else ([None]) gives the all-ones vector. *)
Definition get_values (n : nat) (values : option seedsrc) (default : Q) : result (list Q) :=
  match values with
  | None => Ok (repeat 1%Q n)
  | Some (SList l) => if Nat.eqb (length l) n then Ok l else Err ValueError
  | Some (SArray l) => if Nat.eqb (length l) n then Ok l else Err ValueError
  | Some (SDict d) =>
      match d with
      | [] => Err ValueError
      | _ => if forallb (fun e => Nat.ltb (fst e) n) d
             then Ok (map (fun i => match dict_get d i with Some x => x | None => default end) (seq 0 n))
             else Err IndexError
      end
  end.

(** utils/values.py: stack_values. *)
Definition stack_values (n_row n_col : nat) (values_row values_col : option seedsrc) (default : Q)
  : result (list Q) :=
  let rc := match values_row, values_col with
            | None, None => (Some (SArray (repeat 1%Q n_row)), Some (SArray (repeat default n_col)))
            | None, Some _ => (Some (SArray (repeat default n_row)), values_col)
            | Some _, None => (values_row, Some (SArray (repeat default n_col)))
            | Some _, Some _ => (values_row, values_col)
            end in
  match get_values n_row (fst rc) default with
  | Err e => Err e
  | Ok a => match get_values n_col (snd rc) default with
            | Err e => Err e
            | Ok b => Ok (a ++ b)
            end
  end.

(** utils/format.py: get_adjacency_values with allow_directed = True, force_directed = False,
    default_value = -1, which = None (the way both regressors call it). check_format rejects a matrix
    without stored entries. *)
Definition get_adjacency_values (m : wmat) (force_bipartite : bool) (values values_row values_col : option seedsrc)
  : result (list wrow * list Q * bool) :=
  if Nat.eqb (nnz m) 0 then Err ValueError else
  let force_bipartite := match values_row, values_col with None, None => force_bipartite | _, _ => true end in
  let bipartite := force_bipartite || negb (Nat.eqb (w_nrow m) (w_ncol m)) in
  if bipartite then
    match (match values with
           | None => stack_values (w_nrow m) (w_ncol m) values_row values_col (-1)%Q
           | Some _ => stack_values (w_nrow m) (w_ncol m) values None (-1)%Q
           end) with
    | Err e => Err e
    | Ok v => Ok (block_undirected m, v, true)
    end
  else
    match get_values (w_nrow m) values (-1)%Q with
    | Err e => Err e
    | Ok v => Ok (w_rows m, v, false)
    end.

(** diffusion.py: init_temperatures. [border = seeds >= 0] — a temperature of 0 is a seed.
    With [init = None] the start temperature is the mean of the seeds (NaN when there is none). *)
Definition is_seed (x : Q) : bool := Qle_bool 0 x.
Definition qmean (l : list Q) : Q := Qred (sumq l / inject_Z (Z.of_nat (length l))).
Definition init_temperatures (seeds : list Q) (init : option Q) : result (list Q * list bool) :=
  let border := map is_seed seeds in
  let t0 := match init with
            | Some t => Ok t
            | None => match filter is_seed seeds with [] => Err NanResult | sv => Ok (qmean sv) end
            end in
  match t0 with
  | Err e => Err e
  | Ok t => Ok (map (fun x => if is_seed x then x else t) seeds, border)
  end.

Fixpoint iterate {A : Type} (k : nat) (f : A -> A) (x : A) : A :=
  match k with O => x | S k' => iterate k' f (f x) end.

(** base.py: _split_vars. The result is (values_, Some (values_row_, values_col_)) for bipartite input. *)
Definition fit_out := (list Q * option (list Q * list Q))%type.
Definition split_vars (bipartite : bool) (n_row : nat) (v : list Q) : fit_out :=
  if bipartite then (firstn n_row v, Some (firstn n_row v, skipn n_row v)) else (v, None).
Definition stacked (o : fit_out) : list Q :=
  match snd o with None => fst o | Some (r, c) => r ++ c end.

(** Diffusion.fit: [diffusion = normalize(adjacency.T)]; rows without stored entry (degree 0 after
    normalisation, i.e. norm 0) get a 1 on the diagonal; then [(1 - a) I + a diffusion]. *)
Definition diffusion_operator (alpha : Q) (adj : list wrow) : list wrow :=
  let n := length adj in
  let p := normalize (w_rows (transpose {| w_ncol := n; w_rows := adj |})) in
  map (fun i => let r := match wrow_of p i with [] => [(i, 1%Q)] | r => r end in
                (i, (1 - alpha)%Q) :: map (fun e => (fst e, (alpha * snd e)%Q)) r)
      (seq 0 n).

Definition diffusion_core (n_iter : nat) (alpha : Q) (adj : list wrow) (temps : list Q) : list Q :=
  iterate n_iter (matvec (diffusion_operator alpha adj)) temps.

Definition diffusion_fit (n_iter : nat) (alpha : Q) (m : wmat) (values values_row values_col : option seedsrc)
           (init : option Q) (force_bipartite : bool) : result fit_out :=
  if Nat.eqb n_iter 0 then Err ValueError else
  match get_adjacency_values m force_bipartite values values_row values_col with
  | Err e => Err e
  | Ok (adj, seeds, bipartite) =>
      match init_temperatures seeds init with
      | Err e => Err e
      | Ok (temps, _) => Ok (split_vars bipartite (w_nrow m) (diffusion_core n_iter alpha adj temps))
      end
  end.

(** Dirichlet.fit: [values = diffusion.dot(values); values[border] = temperatures[border]]. *)
Definition clamp (border : list bool) (temps v : list Q) : list Q :=
  map (fun i => if nthb border i then nthq temps i else nthq v i) (seq 0 (length v)).
Definition dirichlet_step (p : list wrow) (border : list bool) (temps v : list Q) : list Q :=
  clamp border temps (matvec p v).
Definition dirichlet_core (n_iter : nat) (adj : list wrow) (border : list bool) (temps : list Q) : list Q :=
  iterate n_iter (dirichlet_step (normalize adj) border temps) temps.

Definition dirichlet_fit (n_iter : nat) (m : wmat) (values values_row values_col : option seedsrc)
           (init : option Q) (force_bipartite : bool) : result fit_out :=
  if Nat.eqb n_iter 0 then Err ValueError else
  match get_adjacency_values m force_bipartite values values_row values_col with
  | Err e => Err e
  | Ok (adj, seeds, bipartite) =>
      match init_temperatures seeds init with
      | Err e => Err e
      | Ok (temps, border) => Ok (split_vars bipartite (w_nrow m) (dirichlet_core n_iter adj border temps))
      end
  end.

(** ---------------------------------------------------------------------------------------------
    Specification side (textbook definitions). *)

(** A row is a probability vector over the nodes < n. *)
Definition stochastic_row (n : nat) (r : wrow) : Prop :=
  (forall e, In e r -> fst e < n /\ (0 <= snd e)%Q) /\ (sumq (map snd r) == 1)%Q.

(** Well-formed non-negative adjacency on n nodes. *)
Definition wf_rows (n : nat) (rows : list wrow) : Prop :=
  forall r e, In r rows -> In e r -> fst e < n /\ (0 <= snd e)%Q.
Definition wf_wmat (m : wmat) : Prop := wf_rows (w_ncol m) (w_rows m).

(** All entries of v (n of them) lie in [lo, hi]. *)
Definition vrange (n : nat) (lo hi : Q) (v : list Q) : Prop :=
  length v = n /\ forall i, i < n -> (lo <= nthq v i <= hi)%Q.

(** Edges of positive weight, paths, connectivity. *)
Definition edge (adj : list wrow) (i j : nat) : Prop := exists w, In (j, w) (wrow_of adj i) /\ (0 < w)%Q.
Inductive path (adj : list wrow) : nat -> nat -> Prop :=
| path_refl i : path adj i i
| path_step i j k : edge adj i j -> path adj j k -> path adj i k.
Definition connected (adj : list wrow) : Prop :=
  forall i j, i < length adj -> j < length adj -> path adj i j.
(** Undirected: the stored entries of row j mirror those of row i. *)
Definition symmetric_adj (adj : list wrow) : Prop :=
  forall i j w, In (j, w) (wrow_of adj i) -> In (i, w) (wrow_of adj j).

(** f equals the seed temperatures on the boundary and the weighted mean of its neighbours elsewhere. *)
Definition harmonic (adj : list wrow) (border : list bool) (temps f : list Q) : Prop :=
  length f = length adj /\
  forall i, i < length adj ->
    if nthb border i then (nthq f i == nthq temps i)%Q
    else (nthq f i == dot_row (normalize_row (wrow_of adj i)) f)%Q.

(** Executable counterpart (oracle for candidate solutions computed outside Coq). *)
Definition harmonic_checkb (adj : list wrow) (border : list bool) (temps f : list Q) : bool :=
  Nat.eqb (length f) (length adj) &&
  forallb (fun i => if nthb border i then Qeq_bool (nthq f i) (nthq temps i)
                    else Qeq_bool (nthq f i) (dot_row (normalize_row (wrow_of adj i)) f))
          (seq 0 (length adj)).

(** Sup-distance at most d. *)
Definition dist_le (n : nat) (u v : list Q) (d : Q) : Prop :=
  forall i, i < n -> (Qabs (nthq u i - nthq v i) <= d)%Q.

(** Smallest / largest seed temperature (over the non-negative entries). *)
Definition qmin_list (l : list Q) (d : Q) : Q := fold_right (fun x m => if Qle_bool x m then x else m) d l.
Definition qmax_list (l : list Q) (d : Q) : Q := fold_right (fun x m => if Qle_bool m x then x else m) d l.
Definition seed_min (seeds : list Q) : Q :=
  match filter is_seed seeds with [] => 0%Q | x :: t => qmin_list t x end.
Definition seed_max (seeds : list Q) : Q :=
  match filter is_seed seeds with [] => 0%Q | x :: t => qmax_list t x end.

(** Output conversion used by the harness (numerator, denominator as integers: printing-independent). *)
Definition qz (q : Q) : Z * Z := (Qnum q, Zpos (Qden q)).
Definition fit_z (r : result fit_out) : result (list (Z * Z) * option (list (Z * Z) * list (Z * Z))) :=
  match r with
  | Err e => Err e
  | Ok (v, None) => Ok (map qz v, None)
  | Ok (v, Some (a, b)) => Ok (map qz v, Some (map qz a, map qz b))
  end.

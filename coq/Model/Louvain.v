(** Executable model of sknetwork/clustering/louvain.py, louvain_core.pyx (optimize_core) and of
    leiden.py (Leiden.fit, with the refinement kernel leiden_core.pyx:optimize_refine_core replaced by
    an oracle argument) over exact rationals. Definitions only (no proofs).

    Every comparison between two rationals that decides a branch also feeds the DECISION MARGIN
    (smallest |gap| met on the path taken), so that the harness can drop near-ties when it compares
    the exact model with the float32 kernel. *)
From SKN Require Import Base.Util Model.Modularity.

(** Normalisation of stored rationals (value-preserving: [qn x == x]). *)
Definition qn (x : Q) : Q := Qred x.
Definition Qltb (x y : Q) : bool := negb (Qle_bool y x).

(** In-place array write [a[i] = v] (no effect out of range). *)
Fixpoint upd {A} (l : list A) (i : nat) (v : A) : list A :=
  match l, i with
  | [], _ => []
  | _ :: t, O => v :: t
  | a :: t, S i' => a :: upd t i' v
  end.

(** Margin bookkeeping: (smallest non-zero |gap| met so far, [None] = none yet; number of exact ties).
    An exact tie is decided identically by the float kernel when both sides are the same float
    computation, and arbitrarily otherwise: the harness treats cases with ties separately. *)
Definition marg := (option Q * nat)%type.
Definition marg0 : marg := (None, 0).
Definition Qabs' (x : Q) : Q := if Qle_bool 0 x then x else (- x)%Q.
Definition mmin (m : marg) (gap : Q) : marg :=
  let a := qn (Qabs' gap) in
  if Qeq_bool a 0 then (fst m, S (snd m))
  else match fst m with
       | None => (Some a, snd m)
       | Some b => if Qle_bool b a then m else (Some a, snd m)
       end.
(** The tolerance tests [increase_pass <= tol] / [increase <= tol]: an increase that is exactly zero
    (no move was made) is exactly zero in the float kernel too, so that decision has no margin. *)
Definition mmin_tol (m : marg) (inc tol : Q) : marg :=
  if Qeq_bool inc 0 then m else mmin m (inc - tol).

(** * Louvain._pre_processing *)
Inductive modkind := Dugue | Newman | Potts.

(** [bipartite2directed]: [[0, B], [0, 0]]. *)
Definition block_directed (m : wmat) : wgraph :=
  map (fun r => map (fun p => (w_nrow m + fst p, snd p)) r) (w_rows m)
  ++ repeat [] (w_ncol m).

(** [get_adjacency(input_matrix, force_directed, force_bipartite)] (allow_directed = True). *)
Definition get_adjacency (m : wmat) (force_directed force_bipartite : bool) : wgraph * bool :=
  if force_bipartite || negb (Nat.eqb (w_nrow m) (w_ncol m))
  then ((if force_directed then block_directed m else block_undirected m), true)
  else (w_rows m, false).

(** [adjacency[index][:, index]]: new entry (a, b) = old entry (index[a], index[b]). [inv] is the inverse
    permutation ([inv[index[a]] = a]). *)
Fixpoint index_of (v : nat) (l : list nat) : nat :=
  match l with
  | [] => 0
  | x :: t => if Nat.eqb x v then 0 else S (index_of v t)
  end.
Definition reverse_index (index : list nat) : list nat :=
  map (fun v => index_of v index) (seq 0 (length index)).
Definition permute_graph (g : wgraph) (index : list nat) : wgraph :=
  let rev := reverse_index index in
  map (fun a => map (fun p => (nthn rev (fst p), snd p)) (wrow_of g (nthn index a))) (seq 0 (length index)).

(** [directed2undirected(adjacency)] = A + A^T as a canonical CSR matrix (one stored entry per
    structurally non-zero position, increasing column order). *)
Definition stored (g : wgraph) (i j : nat) : bool := existsb (fun p => Nat.eqb (fst p) j) (wrow_of g i).
Definition symmetrize (g : wgraph) : wgraph :=
  let n := length g in
  map (fun i => map (fun j => (j, qn (entry g i j + entry g j i)))
                    (filter (fun j => stored g i j || stored g j i) (seq 0 n)))
      (seq 0 n).
(** [adjacency / adjacency.data.sum()]. *)
Definition scale_graph (g : wgraph) (s : Q) : wgraph :=
  map (fun r => map (fun p => (fst p, qn (snd p / s))) r) g.

Record prep := { p_adj : wgraph; p_out : list Q; p_in : list Q; p_bip : bool }.

(** Everything of _pre_processing after get_adjacency and the shuffle. *)
Definition node_weights (kind : modkind) (g : wgraph) : mres (list Q * list Q) :=
  match kind with
  | Potts =>
      match get_probs_of (make_weights_out Uniform g) with
      | MOk p => MOk (p, p)
      | MErr e => MErr e
      end
  | Newman =>
      match get_probs_of (make_weights_out Degree g) with
      | MOk p => MOk (p, p)
      | MErr e => MErr e
      end
  | Dugue =>
      match get_probs_of (make_weights_out Degree g), get_probs_of (make_weights_in Degree g) with
      | MOk p, MOk q => MOk (p, q)
      | MErr e, _ => MErr e
      | _, MErr e => MErr e
      end
  end.

Definition pre_processing (kind : modkind) (m : wmat) (force_bipartite : bool) (index : option (list nat))
  : mres prep :=
  let '(g0, bip) := get_adjacency m (match kind with Dugue => true | _ => false end) force_bipartite in
  let g1 := match index with Some ix => permute_graph g0 ix | None => g0 end in
  match node_weights kind g1 with
  | MErr e => MErr e
  | MOk (ow, iw) =>
      let gs := symmetrize g1 in
      MOk {| p_adj := scale_graph gs (data_sum gs); p_out := ow; p_in := iw; p_bip := bip |}
  end.

(** * optimize_core (louvain_core.pyx), statement by statement *)

(** std::set<int>: increasing order, no duplicates. *)
Fixpoint set_insert (x : nat) (s : list nat) : list nat :=
  match s with
  | [] => [x]
  | y :: t => if Nat.ltb x y then x :: s else if Nat.eqb x y then s else y :: set_insert x t
  end.
Definition set_erase (x : nat) (s : list nat) : list nat := filter (fun y => negb (Nat.eqb y x)) s.

Record kstate := {
  k_labels : list nat;
  k_out_cw : list Q;       (* out_cluster_weights *)
  k_in_cw : list Q;        (* in_cluster_weights *)
  k_cw : list Q;           (* cluster_weights (scratch) *)
  k_inc_pass : Q;          (* increase_pass *)
  k_margin : marg
}.

(** for j in range(start, end): label_target = labels[indices[j]]; label_set.insert(label_target);
    cluster_weights[label_target] += data[j] *)
Definition nb_step (labels : list nat) (acc : list nat * list Q) (p : nat * Q) : list nat * list Q :=
  let lt := nthn labels (fst p) in
  (set_insert lt (fst acc), upd (snd acc) lt (qn (nthq (snd acc) lt + snd p))).
Definition neighbours (labels : list nat) (r : wrow) (cw : list Q) : list nat * list Q :=
  fold_left (nb_step labels) r ([], cw).

(** delta_local = 2 * cluster_weights[t] - resolution * out_weight * in_cluster_weights[t]
                  - resolution * in_weight * out_cluster_weights[t] - delta *)
Definition delta_local (res ow iw delta : Q) (ocw icw cw : list Q) (t : nat) : Q :=
  (2 * nthq cw t - res * ow * nthq icw t - res * iw * nthq ocw t - delta)%Q.

(** delta = 2 * (cluster_weights[label] - self_loops[i]) - resolution * out_weight * (in_cluster_weights[label] - in_weight)
            - resolution * in_weight * (out_cluster_weights[label] - out_weight) *)
Definition delta_leave (res ow iw sl : Q) (ocw icw cw : list Q) (label : nat) : Q :=
  (2 * (nthq cw label - sl) - res * ow * (nthq icw label - iw) - res * iw * (nthq ocw label - ow))%Q.

(** for label_target in label_set: ... if delta_local > delta_best: delta_best, label_best = ...;
    cluster_weights[label_target] = 0 *)
Record tstate := { t_cw : list Q; t_best : Q; t_label : nat; t_margin : marg }.
Definition tgt_step (res ow iw delta : Q) (ocw icw : list Q) (a : tstate) (t : nat) : tstate :=
  let dl := qn (delta_local res ow iw delta ocw icw (t_cw a) t) in
  let mg := mmin (t_margin a) (dl - t_best a) in
  if Qltb (t_best a) dl
  then {| t_cw := upd (t_cw a) t 0%Q; t_best := dl; t_label := t; t_margin := mg |}
  else {| t_cw := upd (t_cw a) t 0%Q; t_best := t_best a; t_label := t_label a; t_margin := mg |}.

(** Body of [for i in range(n)]. *)
Definition node_step (g : wgraph) (ows iws sls : list Q) (res : Q) (st : kstate) (i : nat) : kstate :=
  let labels := k_labels st in
  let label := nthn labels i in
  let nb := neighbours labels (wrow_of g i) (k_cw st) in
  let label_set := set_erase label (fst nb) in
  let cw1 := snd nb in
  match label_set with
  | [] =>
      {| k_labels := labels; k_out_cw := k_out_cw st; k_in_cw := k_in_cw st;
         k_cw := upd cw1 label 0%Q; k_inc_pass := k_inc_pass st; k_margin := k_margin st |}
  | _ :: _ =>
      let ow := nthq ows i in
      let iw := nthq iws i in
      let delta := qn (delta_leave res ow iw (nthq sls i) (k_out_cw st) (k_in_cw st) cw1 label) in
      let ts := fold_left (tgt_step res ow iw delta (k_out_cw st) (k_in_cw st)) label_set
                          {| t_cw := cw1; t_best := 0%Q; t_label := label; t_margin := k_margin st |} in
      let best := t_label ts in
      if Nat.eqb best label
      then {| k_labels := labels; k_out_cw := k_out_cw st; k_in_cw := k_in_cw st;
              k_cw := upd (t_cw ts) label 0%Q; k_inc_pass := k_inc_pass st; k_margin := t_margin ts |}
      else
        let ocw1 := upd (k_out_cw st) label (qn (nthq (k_out_cw st) label - ow)) in
        let icw1 := upd (k_in_cw st) label (qn (nthq (k_in_cw st) label - iw)) in
        let ocw2 := upd ocw1 best (qn (nthq ocw1 best + ow)) in
        let icw2 := upd icw1 best (qn (nthq icw1 best + iw)) in
        {| k_labels := upd labels i best; k_out_cw := ocw2; k_in_cw := icw2;
           k_cw := upd (t_cw ts) label 0%Q; k_inc_pass := qn (k_inc_pass st + t_best ts);
           k_margin := t_margin ts |}
  end.

(** One pass: [increase_pass = 0; for i in range(n): ...]. *)
Definition one_pass (g : wgraph) (ows iws sls : list Q) (res : Q) (st : kstate) : kstate :=
  fold_left (node_step g ows iws sls res) (seq 0 (length (k_labels st)))
            {| k_labels := k_labels st; k_out_cw := k_out_cw st; k_in_cw := k_in_cw st; k_cw := k_cw st;
               k_inc_pass := 0%Q; k_margin := k_margin st |}.

(** [while not stop: ...; increase += increase_pass; stop = increase_pass <= tol_optimization]. *)
Fixpoint opt_loop (fuel : nat) (g : wgraph) (ows iws sls : list Q) (res tol : Q) (st : kstate) (increase : Q)
  : option (kstate * Q) :=
  match fuel with
  | O => None
  | S f =>
      let st' := one_pass g ows iws sls res st in
      let increase' := qn (increase + k_inc_pass st') in
      let st'' := {| k_labels := k_labels st'; k_out_cw := k_out_cw st'; k_in_cw := k_in_cw st';
                     k_cw := k_cw st'; k_inc_pass := k_inc_pass st';
                     k_margin := mmin_tol (k_margin st') (k_inc_pass st') tol |} in
      if Qle_bool (k_inc_pass st') tol then Some (st'', increase')
      else opt_loop f g ows iws sls res tol st'' increase'
  end.

(** (membership.T.dot(v))[c] as a list over clusters 0..k-1. *)
Definition cluster_sums (k : nat) (labels : list nat) (v : list Q) : list Q :=
  map (fun c => qn (membership_T_dot (length labels) labels (nthq v) c)) (seq 0 k).

(** [adjacency.diagonal()]. *)
Definition diagonal (g : wgraph) : list Q := map (fun i => qn (entry g i i)) (seq 0 (length g)).

(** Louvain._optimize: labels = arange(n) is passed by the caller; cluster weights are copies of the node weights. *)
Definition optimize (fuel : nat) (g : wgraph) (ows iws : list Q) (res tol : Q) (labels : list nat)
           (ocw icw : list Q) (mg : marg) : option (kstate * Q) :=
  opt_loop fuel g ows iws (diagonal g) res tol
           {| k_labels := labels; k_out_cw := ocw; k_in_cw := icw;
              k_cw := repeat 0%Q (length ocw); k_inc_pass := 0%Q; k_margin := mg |} 0%Q.

(** [_, labels = np.unique(labels, return_inverse=True)]: rank of each label among the distinct labels. *)
Definition distinct_sorted (labels : list nat) : list nat := fold_left (fun s x => set_insert x s) labels [].
Definition unique_inverse (labels : list nat) : list nat :=
  let u := distinct_sorted labels in map (fun x => index_of x u) labels.

(** Louvain._aggregate: [membership.T.dot(adjacency.dot(membership))], [membership.T.dot(weights)].
    An aggregate entry (c, c') is stored iff some stored entry (i, j) has labels (c, c'). *)
Definition agg_stored (g : wgraph) (labels : list nat) (c c' : nat) : bool :=
  existsb (fun i => Nat.eqb (lab labels i) c &&
                    existsb (fun p => Nat.eqb (lab labels (fst p)) c') (wrow_of g i))
          (seq 0 (length g)).
Definition agg_entry (g : wgraph) (labels : list nat) (c c' : nat) : Q :=
  membership_T_dot (length g) labels (fun i => adj_dot_membership g labels i c') c.
Definition aggregate_graph (g : wgraph) (labels : list nat) (k : nat) : wgraph :=
  map (fun c => map (fun c' => (c', qn (agg_entry g labels c c')))
                    (filter (agg_stored g labels c) (seq 0 k)))
      (seq 0 k).

Definition n_clusters (labels : list nat) : nat := length (distinct_sorted labels).

(** One line of the estimator's log: "Aggregation: count  Clusters: n  Increase: increase". *)
Record logline := { l_count : nat; l_clusters : nat; l_increase : Q }.

Record fit_result := {
  r_membership : list nat;     (* membership.indices: cluster of every (shuffled) node *)
  r_log : list logline;
  r_fit_margin : marg
}.

(** The while loop of Louvain.fit. [n_aggregations] is an integer: the test [count == n_aggregations]
    never fires for values <= 0. *)
Fixpoint louvain_loop (fuel kfuel : nat) (res tol_opt tol_agg : Q) (n_agg : Z)
         (g : wgraph) (ows iws : list Q) (membership : list nat) (count : nat) (log : list logline)
         (mg : marg) : mres fit_result :=
  match fuel with
  | O => MErr MOutOfFuel
  | S f =>
      let count := S count in
      let n := length g in
      let labels := seq 0 n in
      match optimize kfuel g ows iws res tol_opt labels ows iws mg with
      | None => MErr MOutOfFuel
      | Some (st, increase) =>
          let labels := unique_inverse (k_labels st) in
          let k := n_labels labels in   (* get_membership(labels).shape[1] = max(labels) + 1 *)
          let g' := aggregate_graph g labels k in
          let ows' := cluster_sums k labels ows in
          let iws' := cluster_sums k labels iws in
          let membership' := map (fun c => nthn labels c) membership in
          let mg' := mmin_tol (k_margin st) increase tol_agg in
          let log' := log ++ [{| l_count := count; l_clusters := k; l_increase := increase |}] in
          if Nat.eqb k 1 || Qle_bool increase tol_agg || Z.eqb (Z.of_nat count) n_agg
          then MOk {| r_membership := membership'; r_log := log'; r_fit_margin := mg' |}
          else louvain_loop f kfuel res tol_opt tol_agg n_agg g' ows' iws' membership' count log' mg'
      end
  end.

(** reindex_labels: clusters renamed by decreasing size. [np.argsort(-counts)] is an oracle answer
    [order] (a permutation of the cluster names sorting the sizes in non-increasing order);
    [new_index[c]] = position of c in [order]. *)
Definition cluster_sizes (labels : list nat) (k : nat) : list nat :=
  map (fun c => length (filter (Nat.eqb c) labels)) (seq 0 k).
Definition reindex_labels (labels : list nat) (order : list nat) : list nat :=
  let u := unique_inverse labels in
  map (fun c => index_of c order) u.
(** A stable argsort of the negated counts, usable as the oracle. *)
Fixpoint insert_by (size : nat -> nat) (c : nat) (l : list nat) : list nat :=
  match l with
  | [] => [c]
  | d :: t => if Nat.ltb (size d) (size c) then c :: l else d :: insert_by size c t
  end.
Definition argsort_desc (sizes : list nat) : list nat :=
  fold_left (fun acc c => insert_by (nthn sizes) c acc) (seq 0 (length sizes)) [].

(** Louvain._post_processing (labels_ only): optional reindexing, then [labels[reverse]]. *)
Definition post_processing (membership : list nat) (sort_clusters : bool) (order : list nat)
           (index : option (list nat)) : list nat :=
  let labels := if sort_clusters then reindex_labels membership order else membership in
  match index with
  | None => labels
  | Some ix => map (fun v => nthn labels v) (reverse_index ix)
  end.

(** Louvain.fit. [index] = the permutation drawn by [random_state.permutation] when shuffle_nodes is set
    (oracle argument), [None] otherwise. Returns labels_ (all nodes; rows then columns for bipartite
    input), the log lines and the decision margin. *)
Definition louvain_fit (fuel kfuel : nat) (kind : modkind) (res tol_opt tol_agg : Q) (n_agg : Z)
           (sort_clusters : bool) (m : wmat) (force_bipartite : bool) (index : option (list nat))
  : mres (list nat * list logline * marg) :=
  if Nat.eqb (nnz (w_rows m)) 0 then MErr MValueError
  else
  match pre_processing kind m force_bipartite index with
  | MErr e => MErr e
  | MOk p =>
      let n := length (p_adj p) in
      match louvain_loop fuel kfuel res tol_opt tol_agg n_agg (p_adj p) (p_out p) (p_in p) (seq 0 n) 0 [] marg0 with
      | MErr e => MErr e
      | MOk r =>
          let mem := r_membership r in
          let order := argsort_desc (cluster_sizes (unique_inverse mem) (n_clusters mem)) in
          MOk (post_processing mem sort_clusters order index, r_log r, r_fit_margin r)
      end
  end.

(** * The objective optimised by the kernel
    For the normalised symmetric adjacency [g] and node weight vectors [ows], [iws]:
      obj(l) = sum_{i,j} (g_ij - resolution * ows_i * iws_j) * delta(l_i, l_j). *)
Definition objective (g : wgraph) (ows iws : list Q) (res : Q) (labels : list nat) : Q :=
  let n := length g in
  qsum n (fun i => qsum n (fun j =>
    (entry g i j - res * nthq ows i * nthq iws j) * delta labels i j))%Q.

(** The objective of each modularity kind written on the INPUT graph (docs/reference/clustering.rst):
    A is the adjacency after get_adjacency (block matrix for bipartite input), w = 1^T A 1,
      dugue : sum_ij ((A_ij + A_ji) / 2w - gamma d+_i d-_j / w^2) delta     [ = 1/w sum (A_ij - gamma d+_i d-_j / w) delta ]
      newman: sum_ij ((A_ij + A_ji) / 2w - gamma d+_i d+_j / w^2) delta
      potts : sum_ij ((A_ij + A_ji) / 2w - gamma / n^2) delta *)
Definition kind_objective (kind : modkind) (a : wgraph) (res : Q) (labels : list nat) : Q :=
  let n := length a in
  let w := total_weight a in
  let nq := inject_Z (Z.of_nat n) in
  qsum n (fun i => qsum n (fun j =>
    ((entry a i j + entry a j i) / (2 * w)
     - res * match kind with
             | Dugue => spec_out_deg a i * spec_in_deg a j / (w * w)
             | Newman => spec_out_deg a i * spec_out_deg a j / (w * w)
             | Potts => 1 / (nq * nq)
             end) * delta labels i j))%Q.

(** * Leiden.fit
    The refinement kernel draws its targets with libc rand(), which cannot be recorded; the refined
    partition of each aggregation level is therefore an ORACLE argument ([refine : level -> coarse
    labels -> refined labels]). The contract the kernel guarantees is stated in the theorems
    ([refines]: refined clusters are subsets of coarse clusters; [follows_edges]: refined clusters
    are connected). *)

(** Leiden._aggregate_refine: [labels_ = membership_refined.T.dot(membership).indices] = the coarse
    label of (the first listed member of) each refined cluster. *)
Definition coarse_of_refined (labels refined : list nat) (k : nat) : list nat :=
  map (fun c => nthn labels (index_of c refined)) (seq 0 k).

Fixpoint leiden_loop (fuel kfuel : nat) (res tol_opt tol_agg : Q) (n_agg : Z)
         (refine : nat -> wgraph -> list nat -> list nat)
         (g : wgraph) (ows iws : list Q) (labels membership : list nat) (count : nat) (log : list logline)
         (mg : marg) : mres fit_result :=
  match fuel with
  | O => MErr MOutOfFuel
  | S f =>
      let count := S count in
      let k0 := n_labels labels in
      match optimize kfuel g ows iws res tol_opt labels
                     (cluster_sums k0 labels ows) (cluster_sums k0 labels iws) mg with
      | None => MErr MOutOfFuel
      | Some (st, increase) =>
          let labels := unique_inverse (k_labels st) in
          let labels_original := labels in
          let labels_refined := unique_inverse (refine count g labels) in
          let k := n_labels labels_refined in
          let labels' := coarse_of_refined labels labels_refined k in
          let g' := aggregate_graph g labels_refined k in
          let ows' := cluster_sums k labels_refined ows in
          let iws' := cluster_sums k labels_refined iws in
          let mg' := mmin_tol (k_margin st) increase tol_agg in
          let log' := log ++ [{| l_count := count; l_clusters := k; l_increase := increase |}] in
          if Nat.eqb k 1 || Qle_bool increase tol_agg || Z.eqb (Z.of_nat count) n_agg
          then MOk {| r_membership := map (fun c => nthn labels_original c) membership;
                      r_log := log'; r_fit_margin := mg' |}
          else leiden_loop f kfuel res tol_opt tol_agg n_agg refine g' ows' iws' labels'
                           (map (fun c => nthn labels_refined c) membership) count log' mg'
      end
  end.

Definition leiden_fit (fuel kfuel : nat) (kind : modkind) (res tol_opt tol_agg : Q) (n_agg : Z)
           (sort_clusters : bool) (refine : nat -> wgraph -> list nat -> list nat)
           (m : wmat) (force_bipartite : bool) (index : option (list nat))
  : mres (list nat * list logline * marg) :=
  if Nat.eqb (nnz (w_rows m)) 0 then MErr MValueError
  else
  match pre_processing kind m force_bipartite index with
  | MErr e => MErr e
  | MOk p =>
      let n := length (p_adj p) in
      match leiden_loop fuel kfuel res tol_opt tol_agg n_agg refine (p_adj p) (p_out p) (p_in p)
                        (seq 0 n) (seq 0 n) 0 [] marg0 with
      | MErr e => MErr e
      | MOk r =>
          let mem := r_membership r in
          let order := argsort_desc (cluster_sizes (unique_inverse mem) (n_clusters mem)) in
          MOk (post_processing mem sort_clusters order index, r_log r, r_fit_margin r)
      end
  end.

(** * Connectivity (specification for clusters_within_components) *)
Definition wedge (g : wgraph) (i j : nat) : Prop := exists w, In (j, w) (wrow_of g i).
Inductive connected (g : wgraph) : nat -> nat -> Prop :=
| conn_refl : forall i, connected g i i
| conn_edge : forall i j, wedge g i j -> connected g i j
| conn_sym : forall i j, connected g i j -> connected g j i
| conn_trans : forall i j k, connected g i j -> connected g j k -> connected g i k.

(** Executable weak components (label = smallest reachable node), fuel = number of nodes. *)
Definition comp_round (g : wgraph) (comp : list nat) : list nat :=
  let n := length g in
  map (fun i =>
         fold_left Nat.min
           (map (fun p => nthn comp (fst p)) (wrow_of g i)
            ++ map (fun j => nthn comp j) (filter (fun j => stored g j i) (seq 0 n)))
           (nthn comp i))
      (seq 0 n).
Definition components (g : wgraph) : list nat :=
  Nat.iter (length g) (comp_round g) (seq 0 (length g)).
Definition within_components (g : wgraph) (labels : list nat) : bool :=
  let comp := components g in
  let n := length g in
  forallb (fun i => forallb (fun j => negb (Nat.eqb (lab labels i) (lab labels j)) ||
                                      Nat.eqb (nthn comp i) (nthn comp j)) (seq 0 n)) (seq 0 n).

(** Executable model of the LABEL step of Leiden._aggregate_refine (sknetwork/clustering/leiden.py), on the
    dense denotation of the scipy matrices used by Model/Clustering.v. Definitions only (no proofs).

      membership = get_membership(labels)
      membership_refined = get_membership(labels_refined)
      ...
      labels_ = membership_refined.T.tocsr().dot(membership).indices

    The product has shape (n_refined, n_coarse); its entry (r, c) is the number of nodes with refined label
    r and coarse label c (with scipy's bool matrices: whether there is such a node; the stored pattern is the
    same, no cancellation can occur). [.indices] lists the column indices of the stored entries row after
    row: it is a vector with ONE entry per refined cluster only if every row has exactly one stored entry,
    i.e. if every refined cluster is non-empty and lies inside one coarse cluster — nothing in the code
    checks this. The model of Leiden.fit in Model/Louvain.v ([coarse_of_refined]) uses the coarse label of
    the first listed member of each refined cluster instead; Proofs/LeidenProofs.v proves that the two agree
    under the contract of the refinement.

    The result is (n_refined, n_coarse, labels_). The shapes must agree for [dot]. *)
From SKN Require Import Base.Util Model.Clustering.
Set Warnings "-notation-overridden". (* keep: a line with a parenthesis after the imports *)

Definition aggregate_refine_labels (labels refined : list Z) : result (nat * nat * list nat) :=
  match get_membership labels None with
  | Err e => Err e
  | Ok (kc, M) =>
      match get_membership refined None with
      | Err e => Err e
      | Ok (kr, Mr) =>
          let n := length refined in
          if Nat.eqb n (length labels)
          then Ok (kr, kc, indices_of kc (mmul kr n kc (mtrans n kr Mr) M))
          else Err ValueError
      end
  end.

(** What the step is meant to compute: the coarse label of (the first listed member of) every refined
    cluster — the Z-labelled twin of [Model.Louvain.coarse_of_refined]. *)
Definition coarse_label_of (labels refined : list Z) (r : nat) : nat :=
  Z.to_nat (nthz labels (zindex (Z.of_nat r) refined)).

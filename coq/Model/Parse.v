(** Executable model of sknetwork/data/parse.py: from_edge_array / from_edge_list /
    from_adjacency_list, utils/format.py:directed2undirected as called there, and the text side of
    from_csv (scan_header, row splitting). Definitions only (no proofs), plus the specification. *)
From Coq Require Import String Ascii.
From SKN Require Import Base.Util Model.PathSafe.

(** * Sparse matrices as the code builds them: COO triples + dtype *)

Record matrix := { m_shape : nat * nat; m_coo : list (nat * nat * Z); m_bool : bool }.

(** Addition of the dtype: logical or for [bool] (values 0/1), [+] for [int]. *)
Definition dadd (b : bool) (x y : Z) : Z := if b then Z.max x y else (x + y)%Z.
Definition dsum (b : bool) (l : list Z) : Z := fold_right (dadd b) 0%Z l.

Definition pos_eqb (p q : nat * nat) : bool := (fst p =? fst q) && (snd p =? snd q).

(** Denotation: [sparse.csr_matrix((data, (row, col)))] and [sum_duplicates] add up the entries stored
    at the same position with the dtype's addition. *)
Definition entry (m : matrix) (i j : nat) : Z :=
  dsum (m_bool m) (map snd (filter (fun t => pos_eqb (fst t) (i, j)) (m_coo m))).

Fixpoint nodup_pos (l : list (nat * nat)) : list (nat * nat) :=
  match l with
  | [] => []
  | p :: t => if existsb (pos_eqb p) t then nodup_pos t else p :: nodup_pos t
  end.

(** The CSR matrix with duplicates summed: one stored value per position. *)
Definition coalesce (m : matrix) : list (nat * nat * Z) :=
  map (fun p => (p, entry m (fst p) (snd p))) (nodup_pos (map fst (m_coo m))).

Definition transpose_coo (l : list (nat * nat * Z)) : list (nat * nat * Z) :=
  map (fun t => ((snd (fst t), fst (fst t)), snd t)) l.

(** [directed2undirected(adjacency)] with its default [weighted=True], CSR branch:
    [new = adjacency.astype(int); new += adjacency.T] (data is never float here). *)
Definition directed2undirected (m : matrix) : matrix :=
  {| m_shape := m_shape m; m_coo := coalesce m ++ transpose_coo (coalesce m); m_bool := false |}.

(** [directed2undirected(adjacency, weighted=False)]: [(adjacency + adjacency.T).astype(bool)]; the sum is
    taken in the dtype of [adjacency] (logical or for a boolean matrix). *)
Definition add_transpose (m : matrix) : matrix :=
  {| m_shape := m_shape m; m_coo := coalesce m ++ transpose_coo (coalesce m); m_bool := m_bool m |}.
Definition astype_bool (m : matrix) : matrix :=
  {| m_shape := m_shape m;
     m_coo := map (fun t => (fst t, if (snd t =? 0)%Z then 0%Z else 1%Z)) (coalesce m); m_bool := true |}.
Definition directed2undirected_arg (weighted_arg : bool) (m : matrix) : matrix :=
  if weighted_arg then directed2undirected m else astype_bool (add_transpose m).

(** Canonical view used to compare with the implementation: non-zero entries, one per position. *)
Definition triples (m : matrix) : list (nat * nat * Z) :=
  filter (fun t => negb (snd t =? 0)%Z) (coalesce m).

(** * from_edge_array *)

Record flags := { directed : bool; bipartite : bool; weighted : bool; reindex : bool;
                  sum_duplicates : bool; shape : option (nat * nat); matrix_only : option bool }.

Definition maxl (l : list nat) : nat := fold_right Nat.max 0 l.

Fixpoint unravel (l : list nat) : list (nat * nat) :=
  match l with
  | a :: b :: t => (a, b) :: unravel t
  | _ => []
  end.

(** [weights.astype(bool)] when [weighted] is off (weights are integers in this model). *)
Definition type_weights (weighted : bool) (ws : list Z) : list Z :=
  if weighted then ws else map (fun w => if (w =? 0)%Z then 0%Z else 1%Z) ws.

(** Rational weights are given by integer numerators over a common positive denominator [den]
    (weight k = ws[k] / den; entries of the model are then in units of 1/den as well — every step
    of from_edge_array is additive in the weights).
    The typing step [if all(weights == weights.astype(int)): weights = weights.astype(int)] is decided
    exactly: the cast happens iff every weight is an integer, so it never changes a value, only the
    dtype ([int] instead of [float]). *)
Definition weights_integral (den : Z) (ws : option (list Z)) : bool :=
  match ws with
  | None => true                                  (* np.ones *)
  | Some l => forallb (fun w => (w mod den =? 0)%Z) l
  end.

Section Ingest.
  Context {id : Type}.
  Context (ideqb : id -> id -> bool).
  (** [Some k] when the identifier is the integer [k] (the edge array has an integer dtype iff every
      identifier is an integer). *)
  Context (as_int : id -> option nat).
  (** Oracle for [np.unique(x, return_inverse=True)]: (sorted distinct values, inverse map). *)
  Context (unique : list id -> list id * list nat).
  (** Whether the call of [directed2undirected] in from_edge_array hands over the [weighted] flag
      (read from the source into Gen/ParseCalls.v); when it does not, the default [weighted=True] applies. *)
  Context (sym_passes_weighted : bool).

  Definition edge := (id * id * Z)%type.
  Definition esrc (e : edge) : id := fst (fst e).
  Definition edst (e : edge) : id := snd (fst e).
  Definition ew (e : edge) : Z := snd e.

  Fixpoint index_of (names : list id) (a : id) : nat :=
    match names with
    | [] => 0
    | x :: t => if ideqb x a then 0 else S (index_of t a)
    end.

  Definition memb (a : id) (l : list id) : bool := existsb (fun x => ideqb x a) l.

  (** What the callers rely on: distinct values, exactly the values of the input, and the inverse
      map gives the position of every input element. (NumPy also sorts them; see [unique_sorted].) *)
  Definition unique_ok : Prop :=
    forall l, NoDup (fst (unique l)) /\ (forall x, In x (fst (unique l)) <-> In x l) /\
              snd (unique l) = map (index_of (fst (unique l))) l.

  Definition key_eqb (p q : id * id) : bool := ideqb (fst p) (fst q) && ideqb (snd p) (snd q).
  Definition memp (p : id * id) (l : list (id * id)) : bool := existsb (key_eqb p) l.

  (** [_, index = np.unique(edge_array, axis=0, return_index=True)]: one row per distinct edge, the
      first occurrence of each (NumPy returns them in sorted order, which no later step observes). *)
  Fixpoint first_occ (seen : list (id * id)) (es : list edge) : list edge :=
    match es with
    | [] => []
    | e :: t => if memp (fst e) seen then first_occ seen t else e :: first_occ (fst e :: seen) t
    end.

  Definition is_some {A} (o : option A) : bool := match o with Some _ => true | None => false end.
  Definition to_int (a : id) : nat := match as_int a with Some k => k | None => 0 end.
  Definition int_dtype (es : list edge) : bool :=
    forallb (fun e => is_some (as_int (esrc e)) && is_some (as_int (edst e))) es.

  Definition ravel (es : list edge) : list id := flat_map (fun e => [esrc e; edst e]) es.

  (** One side of the (re)indexing:
        if dtype != int or reindex: names, x = np.unique(x, return_inverse=True); n = len(names)
        elif shape is not None: n = max(shape[k], max(x) + 1)
        else: n = max(x) + 1 *)
  Definition index_side (reindexed : bool) (ids : list id) (shape_k : option nat)
    : option (list id) * list nat * nat :=
    if reindexed then (Some (fst (unique ids)), snd (unique ids), length (fst (unique ids)))
    else let ix := map to_int ids in
         (None, ix, match shape_k with Some s => Nat.max s (maxl ix + 1) | None => maxl ix + 1 end).

  Record dataset := { d_matrix : matrix; d_biadj : bool;
                      d_names : option (list id); d_names_row : option (list id);
                      d_names_col : option (list id); d_matrix_only : bool }.

  (** [from_edge_array]. [None] stands for an exception (weights of the wrong length, no edge at all). *)
  Definition from_edge_array (fl : flags) (edge_array : list (id * id)) (weights : option (list Z))
    : option dataset :=
    let ws0 := match weights with Some w => w | None => repeat 1%Z (length edge_array) end in
    if negb (length ws0 =? length edge_array) then None else
    if length edge_array =? 0 then None else
    let es0 : list edge := combine edge_array (type_weights (weighted fl) ws0) in
    let es := if sum_duplicates fl then es0 else first_occ [] es0 in
    let reindexed := negb (int_dtype es0) || reindex fl in
    let only := match matrix_only fl with Some b => b | None => negb reindexed end in
    if bipartite fl then
      let '(names_row, r, n_row) := index_side reindexed (map esrc es) (option_map fst (shape fl)) in
      let '(names_col, c, n_col) := index_side reindexed (map edst es) (option_map snd (shape fl)) in
      Some {| d_matrix := {| m_shape := (n_row, n_col); m_coo := combine (combine r c) (map ew es);
                             m_bool := negb (weighted fl) |};
              d_biadj := true; d_names := names_row; d_names_row := names_row; d_names_col := names_col;
              d_matrix_only := only |}
    else
      let '(names, nodes, n) := index_side reindexed (ravel es) (option_map fst (shape fl)) in
      let m := {| m_shape := (n, n); m_coo := combine (unravel nodes) (map ew es);
                  m_bool := negb (weighted fl) |} in
      Some {| d_matrix := if directed fl then m
                          else directed2undirected_arg (if sym_passes_weighted then weighted fl else true) m;
              d_biadj := false; d_names := names; d_names_row := None; d_names_col := None;
              d_matrix_only := only |}.

  (** [from_edge_list]: a list of tuples of fixed size 2 or 3 is an edge array plus optional weights. *)
  Definition from_edge_list := from_edge_array.

  (** [from_adjacency_list] for a dict (node: neighbors), in insertion order. *)
  Definition adjacency_edges (adj : list (id * list id)) : list (id * id) :=
    flat_map (fun r => map (fun j => (fst r, j)) (snd r)) adj.
  Definition from_adjacency_dict (fl : flags) (adj : list (id * list id)) : option dataset :=
    from_edge_list fl (adjacency_edges adj) None.

  (** * Specification (independent of the code path) *)

  (** Identifier [a] is node [k] of the result: [names[k] = a], or [a] is the integer [k] when the
      nodes were not reindexed. *)
  Definition is_node (names : option (list id)) (k : nat) (a : id) : bool :=
    match names with
    | Some ns => match nth_error ns k with Some x => ideqb x a | None => false end
    | None => match as_int a with Some i => i =? k | None => false end
    end.

  (** Weights listed for edge (i, j), in file order. *)
  Definition listed (rn cn : option (list id)) (es : list edge) (i j : nat) : list Z :=
    map ew (filter (fun e => is_node rn i (esrc e) && is_node cn j (edst e)) es).

  (** Sum of the listed weights; the first one only if [sum_duplicates] is off; binary if
      [weighted] is off (a line with weight 0 lists no edge). *)
  Definition spec_base (fl : flags) (rn cn : option (list id)) (es : list edge) (i j : nat) : Z :=
    let ws := listed rn cn es i j in
    let ws := if sum_duplicates fl then ws else firstn 1 ws in
    if weighted fl then sumz ws else if existsb (fun w => negb (w =? 0)%Z) ws then 1%Z else 0%Z.

  (** Symmetrised when undirected (A + A^T for weights, still binary when unweighted);
      a biadjacency matrix is never symmetrised. *)
  Definition spec_entry (fl : flags) (rn cn : option (list id)) (es : list edge) (i j : nat) : Z :=
    if bipartite fl || directed fl then spec_base fl rn cn es i j
    else if weighted fl then (spec_base fl rn cn es i j + spec_base fl rn cn es j i)%Z
    else Z.max (spec_base fl rn cn es i j) (spec_base fl rn cn es j i).

  (** Some edge is listed together with its reverse (a self-loop is its own reverse). *)
  Definition has_reciprocal (es : list edge) : bool :=
    existsb (fun e => existsb (fun e' => ideqb (esrc e) (edst e') && ideqb (edst e) (esrc e')
                                         && negb (ew e =? 0)%Z && negb (ew e' =? 0)%Z) es) es.

  Definition row_names (d : dataset) := if d_biadj d then d_names_row d else d_names d.
  Definition col_names (d : dataset) := if d_biadj d then d_names_col d else d_names d.

  (** The input as the specification reads it: edges with their raw weights (1 when none is given). *)
  Definition raw_edges (edge_array : list (id * id)) (weights : option (list Z)) : list edge :=
    combine edge_array (match weights with Some w => w | None => repeat 1%Z (length edge_array) end).

  (** * Reference implementation of the [unique] oracle (used to run the model) *)
  Context (leb : id -> id -> bool).
  Fixpoint insert_s (x : id) (l : list id) : list id :=
    match l with
    | [] => [x]
    | y :: t => if leb x y then x :: l else y :: insert_s x t
    end.
  Definition add_u (x : id) (l : list id) : list id := if memb x l then l else insert_s x l.
  Definition sort_unique (l : list id) : list id := fold_right add_u [] l.
  Definition unique_ref (l : list id) : list id * list nat :=
    (sort_unique l, map (index_of (sort_unique l)) l).
End Ingest.

(** ** Instances: integer identifiers, string identifiers (names that are not numbers) *)

Definition nat_unique := unique_ref Nat.eqb Nat.leb.
Definition from_edge_list_nat := @from_edge_list nat Nat.eqb (fun k => Some k) nat_unique.
Definition str_unique := unique_ref String.eqb String.leb.
Definition from_edge_list_str := @from_edge_list string String.eqb (fun _ => None) str_unique.

(** [from_adjacency_list] for a list of lists: node [i] is the position in the list. *)
Definition from_adjacency_list_nat (pass : bool) (fl : flags) (adj : list (list nat)) : option (@dataset nat) :=
  from_edge_list_nat pass fl (flat_map (fun r => map (fun j => (fst r, j)) (snd r))
                                  (combine (seq 0 (length adj)) adj)) None.
Definition from_adjacency_dict_str := @from_adjacency_dict string String.eqb (fun _ => None) str_unique.

(** Result in the form compared with the implementation. *)
Definition view {id} (d : option (@dataset id)) :=
  match d with
  | None => None
  | Some d => Some (m_shape (d_matrix d), triples (d_matrix d), m_bool (d_matrix d),
                    (d_names d, d_names_row d, d_names_col d), d_matrix_only d)
  end.

(** * CSV text *)

Definition newline : ascii := "010"%char.

(** Lines of a text file as iteration over the file yields them (without their terminator). *)
Definition lines_of (text : string) : list string :=
  let l := split newline text in
  match rev l with
  | EmptyString :: r => rev r
  | _ => l
  end.

Definition first_char (s : string) : option ascii := match s with String a _ => Some a | EmptyString => None end.
Definition starts_with_any (cs : list ascii) (s : string) : bool :=
  match s with String a _ => existsb (Ascii.eqb a) cs | EmptyString => false end.

Fixpoint count_char (c : ascii) (s : string) : nat :=
  match s with
  | EmptyString => 0
  | String a t => (if Ascii.eqb a c then 1 else 0) + count_char c t
  end.

(** The reading loop of [scan_header]: comment lines are counted wherever they stand, the other
    lines are collected until [n_scan] of them have been seen. *)
Fixpoint scan (n_scan : nat) (comments : list ascii) (lines : list string)
         (hl : nat) (cg : ascii) (rows : list string) : nat * ascii * list string :=
  match lines with
  | [] => (hl, cg, rev rows)
  | l :: t =>
      if starts_with_any comments l
      then scan n_scan comments t (S hl) (match first_char l with Some a => a | None => cg end) rows
      else if length (l :: rows) =? n_scan then (hl, cg, rev (l :: rows))
           else scan n_scan comments t hl cg (l :: rows)
  end.

Definition all_equal (l : list nat) : bool :=
  match l with [] => true | x :: t => forallb (Nat.eqb x) t end.

Fixpoint argmax_first (f : ascii -> nat) (l : list ascii) (best : ascii) : ascii :=
  match l with
  | [] => best
  | x :: t => if f best <? f x then argmax_first f t x else argmax_first f t best
  end.

(** [means > 0] and [stds == 0] on integer counts: some occurrence, and the same count on every row.
    Exactly one such delimiter: take it; otherwise the first one with the largest mean. *)
Definition guess_delimiter (delims : list ascii) (rows : list string) : option ascii :=
  let total d := sumn (map (count_char d) rows) in
  let good d := (0 <? total d) && all_equal (map (count_char d) rows) in
  match filter good delims with
  | [d] => Some d
  | _ => match delims with [] => None | d0 :: t => Some (argmax_first total t d0) end
  end.

Definition is_space (a : ascii) : bool :=
  existsb (Ascii.eqb a) [" "%char; "009"%char; "010"%char; "011"%char; "012"%char; "013"%char].
Fixpoint rstrip (s : string) : string :=
  match s with
  | EmptyString => EmptyString
  | String a t => match rstrip t with
                  | EmptyString => if is_space a then EmptyString else String a EmptyString
                  | r => String a r
                  end
  end.

(** [scan_header]: (header_length, delimiter_guess, comment_guess, data_structure_guess = 'edge_list'). *)
Definition scan_header (n_scan : nat) (delims comments : list ascii) (text : string)
  : option (nat * ascii * ascii * bool) :=
  match comments with
  | [] => None
  | c0 :: _ =>
      let '(hl, cg, rows) := scan n_scan comments (lines_of text) 0 c0 [] in
      match guess_delimiter delims rows with
      | None => None
      | Some d =>
          let lens := map (fun r => length (split d (rstrip r))) rows in
          Some (hl, d, cg, (forallb (Nat.eqb 2) lens || forallb (Nat.eqb 3) lens) && negb (length rows =? 0))
      end
  end.

(** The rows [from_csv] hands to from_edge_list / from_adjacency_list on its csv.reader path:
    the first [header_length] lines are skipped, every other line is split on the delimiter
    (an empty line is an empty row). Quoting is outside the model. *)
Definition csv_row (d : ascii) (line : string) : list string :=
  if String.eqb line "" then [] else split d line.
Definition csv_table (n_scan : nat) (d : ascii) (comments : list ascii) (text : string) : list (list string) :=
  match comments with
  | [] => []
  | c0 :: _ =>
      let '(hl, _, _) := scan n_scan comments (lines_of text) 0 c0 [] in
      map (csv_row d) (skipn hl (lines_of text))
  end.

(** A file: header comment lines, then one line per row (fields joined by the delimiter), every line
    terminated by a newline. *)
Definition render_lines (ls : list string) : string :=
  fold_right (fun l acc => (l ++ String newline acc)%string) EmptyString ls.
Definition render_csv (d : ascii) (header : list string) (rows : list (list string)) : string :=
  render_lines (header ++ map (join (String d "")) rows).

(** Proofs about Model/Modularity.v: finite sums over Q, and get_modularity = its specification. *)
From SKN Require Import Base.Util Model.Modularity.
From Coq Require Import Lqa Psatz Setoid Morphisms.

Local Open Scope Q_scope.

(** * Finite sums *)

Lemma qsum_ext n f g : (forall i, (i < n)%nat -> f i == g i) -> qsum n f == qsum n g.
Proof.
  induction n as [|n IH]; intros H; simpl; [reflexivity|].
  rewrite IH by (intros i Hi; apply H; lia). rewrite (H n) by lia. reflexivity.
Qed.

Lemma qsum_zero n f : (forall i, (i < n)%nat -> f i == 0) -> qsum n f == 0.
Proof.
  induction n as [|n IH]; intros H; simpl; [reflexivity|].
  rewrite IH by (intros i Hi; apply H; lia). rewrite (H n) by lia. ring.
Qed.

Lemma qsum_plus n f g : qsum n (fun i => f i + g i) == qsum n f + qsum n g.
Proof. induction n as [|n IH]; simpl; [ring|]. rewrite IH. ring. Qed.

Lemma qsum_minus n f g : qsum n (fun i => f i - g i) == qsum n f - qsum n g.
Proof. induction n as [|n IH]; simpl; [ring|]. rewrite IH. ring. Qed.

Lemma qsum_scal n c f : qsum n (fun i => c * f i) == c * qsum n f.
Proof. induction n as [|n IH]; simpl; [ring|]. rewrite IH. ring. Qed.

Lemma qsum_scal_r n c f : qsum n (fun i => f i * c) == qsum n f * c.
Proof. induction n as [|n IH]; simpl; [ring|]. rewrite IH. ring. Qed.

Lemma qsum_swap n m (f : nat -> nat -> Q) :
  qsum n (fun i => qsum m (fun j => f i j)) == qsum m (fun j => qsum n (fun i => f i j)).
Proof.
  induction n as [|n IH]; simpl.
  - symmetry. apply qsum_zero. intros; reflexivity.
  - rewrite IH. rewrite <- qsum_plus. reflexivity.
Qed.

Definition qsum2 (n m : nat) (f : nat -> nat -> Q) : Q := qsum n (fun i => qsum m (fun j => f i j)).

Lemma qsum2_ext n m f g :
  (forall i j, (i < n)%nat -> (j < m)%nat -> f i j == g i j) -> qsum2 n m f == qsum2 n m g.
Proof. intros H. unfold qsum2. apply qsum_ext. intros i Hi. apply qsum_ext. intros j Hj. apply H; assumption. Qed.

Lemma qsum2_scal n m c f : qsum2 n m (fun i j => c * f i j) == c * qsum2 n m f.
Proof.
  unfold qsum2. rewrite <- qsum_scal. apply qsum_ext. intros i _. apply qsum_scal.
Qed.

Lemma qsum2_minus n m f g : qsum2 n m (fun i j => f i j - g i j) == qsum2 n m f - qsum2 n m g.
Proof.
  unfold qsum2. rewrite <- qsum_minus. apply qsum_ext. intros i _. apply qsum_minus.
Qed.

Lemma qsum2_plus n m f g : qsum2 n m (fun i j => f i j + g i j) == qsum2 n m f + qsum2 n m g.
Proof.
  unfold qsum2. rewrite <- qsum_plus. apply qsum_ext. intros i _. apply qsum_plus.
Qed.

Lemma ind_true b : b = true -> ind b = 1.
Proof. intros ->; reflexivity. Qed.
Lemma ind_false b : b = false -> ind b = 0.
Proof. intros ->; reflexivity. Qed.

Lemma ind_sq b : ind b * ind b == ind b.
Proof. destruct b; simpl; ring. Qed.

Lemma ind_eqb_sym a b : ind (Nat.eqb a b) = ind (Nat.eqb b a).
Proof. rewrite Nat.eqb_sym. reflexivity. Qed.

(** Sum against an indicator picks one term. *)
Lemma qsum_ind_ge n i h : (n <= i)%nat -> qsum n (fun j => ind (Nat.eqb j i) * h j) == 0.
Proof.
  intros H. apply qsum_zero. intros j Hj.
  rewrite ind_false by (apply Nat.eqb_neq; lia). ring.
Qed.

Lemma qsum_ind n i h : (i < n)%nat -> qsum n (fun j => ind (Nat.eqb j i) * h j) == h i.
Proof.
  induction n as [|n IH]; intros H; [lia|]. simpl.
  destruct (Nat.eq_dec i n) as [->|Hne].
  - rewrite qsum_ind_ge by lia. rewrite Nat.eqb_refl. simpl. ring.
  - rewrite IH by lia. rewrite ind_false by (apply Nat.eqb_neq; lia). ring.
Qed.

Lemma qsum_ind' n i h : (i < n)%nat -> qsum n (fun j => ind (Nat.eqb i j) * h j) == h i.
Proof.
  intros H. rewrite <- (qsum_ind n i h H). apply qsum_ext. intros j _.
  rewrite ind_eqb_sym. reflexivity.
Qed.

Lemma qsum_nonneg n f : (forall i, (i < n)%nat -> 0 <= f i) -> 0 <= qsum n f.
Proof.
  induction n as [|n IH]; intros H; simpl; [lra|].
  assert (0 <= qsum n f) by (apply IH; intros; apply H; lia).
  assert (0 <= f n) by (apply H; lia). lra.
Qed.

Lemma sumq_app l1 l2 : sumq (l1 ++ l2) == sumq l1 + sumq l2.
Proof. induction l1 as [|a t IH]; simpl; [ring|]. rewrite IH. ring. Qed.

Lemma sumq_map_seq n f : sumq (map f (seq 0 n)) == qsum n f.
Proof.
  induction n as [|n IH]; [reflexivity|].
  rewrite seq_S, map_app, sumq_app, IH. simpl. ring.
Qed.

(** Partition of a sum by labels: if every label is below k,
    sum_c sum_i [l_i = c] X i c = sum_i X i l_i. *)
Lemma qsum_by_label k n (l : nat -> nat) (X : nat -> nat -> Q) :
  (forall i, (i < n)%nat -> (l i < k)%nat) ->
  qsum k (fun c => qsum n (fun i => ind (Nat.eqb (l i) c) * X i c)) == qsum n (fun i => X i (l i)).
Proof.
  intros H. rewrite qsum_swap. apply qsum_ext. intros i Hi.
  rewrite <- (qsum_ind' k (l i) (fun c => X i c)) by (apply H; exact Hi). reflexivity.
Qed.

(** * Row sums *)

Lemma rsum_ext r h h' : (forall j w, In (j, w) r -> h j == h' j) -> rsum r h == rsum r h'.
Proof.
  induction r as [|[j w] t IH]; intros H; simpl; [reflexivity|].
  rewrite IH by (intros j' w' Hin; apply (H j' w'); right; exact Hin).
  rewrite (H j w) by (left; reflexivity). reflexivity.
Qed.

Lemma rsum_plus r h h' : rsum r (fun j => h j + h' j) == rsum r h + rsum r h'.
Proof. induction r as [|[j w] t IH]; simpl; [ring|]. rewrite IH. ring. Qed.

Lemma rsum_scal r c h : rsum r (fun j => c * h j) == c * rsum r h.
Proof. induction r as [|[j w] t IH]; simpl; [ring|]. rewrite IH. ring. Qed.

Lemma rsum_scal_r r c h : rsum r (fun j => h j * c) == rsum r h * c.
Proof. induction r as [|[j w] t IH]; simpl; [ring|]. rewrite IH. ring. Qed.

Lemma rsum_app r1 r2 h : rsum (r1 ++ r2) h == rsum r1 h + rsum r2 h.
Proof. induction r1 as [|[j w] t IH]; simpl; [ring|]. rewrite IH. ring. Qed.

Lemma rsum_zero r h : (forall j w, In (j, w) r -> h j == 0) -> rsum r h == 0.
Proof.
  induction r as [|[j w] t IH]; intros H; simpl; [reflexivity|].
  rewrite IH by (intros j' w' Hin; apply (H j' w'); right; exact Hin).
  rewrite (H j w) by (left; reflexivity). ring.
Qed.

(** A row sum is a sum over all columns of entry * h. *)
Lemma rsum_entries n r h :
  (forall j w, In (j, w) r -> (j < n)%nat) ->
  rsum r h == qsum n (fun j => rsum r (fun j' => ind (Nat.eqb j' j)) * h j).
Proof.
  induction r as [|[j w] t IH]; intros H; simpl.
  - symmetry. apply qsum_zero. intros; ring.
  - rewrite IH by (intros j' w' Hin; apply (H j' w'); right; exact Hin).
    assert (Hj : (j < n)%nat) by (apply (H j w); left; reflexivity).
    rewrite <- (qsum_ind' n j (fun j0 => w * h j0) Hj).
    rewrite <- qsum_plus. apply qsum_ext. intros j0 _. ring.
Qed.

Lemma wrow_of_In_wf g i j w : wf_wgraph g -> In (j, w) (wrow_of g i) -> (j < length g)%nat.
Proof. intros H Hin. exact (H i j w Hin). Qed.

Lemma rsum_row_entries g i h :
  wf_wgraph g -> rsum (wrow_of g i) h == qsum (length g) (fun j => entry g i j * h j).
Proof.
  intros H. unfold entry. apply rsum_entries. intros j w Hin. exact (H i j w Hin).
Qed.

Lemma out_deg_spec g i : wf_wgraph g -> out_deg g i == spec_out_deg g i.
Proof.
  intros H. unfold out_deg, spec_out_deg. rewrite (rsum_row_entries g i _ H).
  apply qsum_ext. intros j _. ring.
Qed.

Lemma data_sum_spec g : wf_wgraph g -> data_sum g == total_weight g.
Proof.
  intros H. unfold data_sum, total_weight. apply qsum_ext. intros i _.
  rewrite (out_deg_spec g i H). reflexivity.
Qed.

Lemma in_deg_total g : qsum (length g) (in_deg g) == total_weight g.
Proof. unfold in_deg, total_weight. rewrite qsum_swap. reflexivity. Qed.

Lemma wf_wgraphb_ok g : wf_wgraphb g = true -> wf_wgraph g.
Proof.
  unfold wf_wgraphb, wf_wgraph, wrow_of. intros H i j w Hin.
  rewrite forallb_forall in H.
  destruct (Nat.lt_ge_cases i (length g)) as [Hi|Hi].
  - specialize (H (nth i g []) (nth_In g [] Hi)). rewrite forallb_forall in H.
    specialize (H (j, w) Hin). apply Nat.ltb_lt in H. exact H.
  - rewrite nth_overflow in Hin by exact Hi. destruct Hin.
Qed.

(** * Labels *)

Lemma fold_max_ge (labels : list nat) x : In x labels -> (x <= fold_right Nat.max 0%nat labels)%nat.
Proof.
  induction labels as [|a t IH]; simpl; intros H; [destruct H|].
  destruct H as [->|H]; [lia|]. specialize (IH H). lia.
Qed.

Lemma lab_lt_n_labels labels i : (i < length labels)%nat -> (lab labels i < n_labels labels)%nat.
Proof.
  intros H. unfold lab, nthn, n_labels.
  assert (Hle := fold_max_ge labels (nth i labels 0%nat) (nth_In labels 0%nat H)). lia.
Qed.

(** * The coded fit and diversity terms *)

Lemma fit_num_spec g labels :
  wf_wgraph g -> length labels = length g ->
  qsum (n_labels labels)
       (fun c => membership_T_dot (length g) labels (fun i => adj_dot_membership g labels i c) c)
  == qsum (length g) (fun i => qsum (length g) (fun j => entry g i j * delta labels i j)).
Proof.
  intros Hwf Hlen. unfold membership_T_dot.
  rewrite (qsum_by_label (n_labels labels) (length g) (lab labels)
             (fun i c => adj_dot_membership g labels i c))
    by (intros i Hi; apply lab_lt_n_labels; lia).
  apply qsum_ext. intros i _. unfold adj_dot_membership.
  rewrite (rsum_row_entries g i _ Hwf). apply qsum_ext. intros j _.
  unfold delta. rewrite (ind_eqb_sym (lab labels j)). reflexivity.
Qed.

Lemma div_spec n labels (pr pc : nat -> Q) :
  length labels = n ->
  qsum (n_labels labels)
       (fun c => membership_T_dot n labels pc c * membership_T_dot n labels pr c)
  == qsum n (fun i => qsum n (fun j => pr i * pc j * delta labels i j)).
Proof.
  intros Hlen. unfold membership_T_dot.
  transitivity (qsum (n_labels labels) (fun c => qsum n (fun i => ind (Nat.eqb (lab labels i) c) *
                  (pr i * qsum n (fun j => ind (Nat.eqb (lab labels j) c) * pc j))))).
  - apply qsum_ext. intros c _.
    rewrite Qmult_comm. rewrite <- qsum_scal_r. apply qsum_ext. intros i _. ring.
  - rewrite (qsum_by_label (n_labels labels) n (lab labels)
               (fun i c => pr i * qsum n (fun j => ind (Nat.eqb (lab labels j) c) * pc j)))
      by (intros i Hi; apply lab_lt_n_labels; lia).
    apply qsum_ext. intros i _. rewrite <- qsum_scal. apply qsum_ext. intros j _.
    unfold delta. rewrite (ind_eqb_sym (lab labels j)). ring.
Qed.

(** * get_probs *)

Lemma get_probs_of_ok ws ps :
  get_probs_of ws = MOk ps ->
  0 < sumq ws /\ ps = map (fun x => Qred (x / sumq ws)) ws.
Proof.
  unfold get_probs_of. intros H.
  destruct (existsb (fun x => negb (Qle_bool 0 x)) ws || Qle_bool (sumq ws) 0) eqn:E; [discriminate|].
  apply orb_false_iff in E. destruct E as [_ E].
  injection H as <-. split; [|reflexivity].
  destruct (Qlt_le_dec 0 (sumq ws)) as [Hlt|Hle]; [exact Hlt|].
  apply Qle_bool_iff in Hle. congruence.
Qed.

Lemma nthq_map_seq (f : nat -> Q) n i : (i < n)%nat -> nthq (map f (seq 0 n)) i = f i.
Proof.
  intros H. unfold nthq. rewrite (nth_indep _ 0 (f 0%nat)) by (rewrite map_length, seq_length; exact H).
  rewrite map_nth. rewrite seq_nth by exact H. reflexivity.
Qed.

Lemma nthq_map (f : Q -> Q) l i : (i < length l)%nat -> nthq (map f l) i = f (nthq l i).
Proof.
  intros H. unfold nthq. rewrite (nth_indep _ 0 (f 0)) by (rewrite map_length; exact H).
  apply map_nth.
Qed.

Lemma nthq_repeat x n i : (i < n)%nat -> nthq (repeat x n) i = x.
Proof.
  unfold nthq. revert i; induction n as [|n IH]; intros i H; [lia|].
  destruct i; simpl; [reflexivity|]. apply IH. lia.
Qed.

Lemma sumq_repeat_1 n : sumq (repeat 1 n) == inject_Z (Z.of_nat n).
Proof.
  induction n as [|n IH]; [reflexivity|].
  change (repeat 1 (S n)) with (1 :: repeat 1 n). simpl sumq. rewrite IH.
  rewrite Nat2Z.inj_succ. unfold Z.succ. rewrite inject_Z_plus. ring.
Qed.

(** * get_modularity on a square matrix *)

Definition is_square (m : wmat) : Prop := w_nrow m = w_ncol m.

Lemma MOk_triple_inj (a b c a' b' c' : Q) :
  @MOk (Q * Q * Q) (a, b, c) = MOk (a', b', c') -> a = a' /\ b = b' /\ c = c'.
Proof. intros H. repeat split; congruence. Qed.

Lemma get_modularity_square_inv m labels lc wk gamma md ft dv :
  is_square m ->
  get_modularity m labels lc wk gamma = MOk (md, ft, dv) ->
  let g := w_rows m in
  length labels = length g /\
  exists pr pc, get_probs_of (make_weights_out wk g) = MOk pr /\
                get_probs_of (make_weights_in wk g) = MOk pc /\
                ft == fit_term g labels /\
                dv == div_term (length g) labels pr pc /\
                md == ft - gamma * dv.
Proof.
  intros Hsq H. unfold get_modularity in H.
  destruct (Nat.eqb (nnz (w_rows m)) 0); [discriminate|].
  unfold get_adjacency_default in H. unfold is_square in Hsq.
  rewrite Hsq, Nat.eqb_refl in H.
  destruct (negb (Nat.eqb (length labels) (length (w_rows m)))) eqn:El; [discriminate|].
  apply negb_false_iff, Nat.eqb_eq in El.
  destruct (get_probs_of (make_weights_out wk (w_rows m))) as [pr|e] eqn:Epr;
    [|destruct (get_probs_of (make_weights_in wk (w_rows m))); discriminate].
  destruct (get_probs_of (make_weights_in wk (w_rows m))) as [pc|e] eqn:Epc; [|discriminate].
  apply MOk_triple_inj in H. destruct H as [Hmd [Hft Hdv]]. simpl. split; [exact El|].
  exists pr, pc. split; [exact Epr|]. split; [exact Epc|]. split; [|split].
  - rewrite <- Hft. apply Qred_correct.
  - rewrite <- Hdv. apply Qred_correct.
  - rewrite <- Hmd, <- Hft, <- Hdv. apply Qred_correct.
Qed.

(** returned modularity = fit - resolution * diversity; fit = its definition. *)
Lemma modularity_fit_minus_div_square m labels lc wk gamma md ft dv :
  is_square m -> wf_wgraph (w_rows m) ->
  get_modularity m labels lc wk gamma = MOk (md, ft, dv) ->
  md == ft - gamma * dv /\ ft == spec_fit (w_rows m) labels.
Proof.
  intros Hsq Hwf H.
  destruct (get_modularity_square_inv _ _ _ _ _ _ _ _ Hsq H) as [Hlen [pr [pc [_ [_ [Hft [_ Hmd]]]]]]].
  split; [exact Hmd|].
  rewrite Hft. unfold fit_term, spec_fit.
  rewrite (fit_num_spec _ _ Hwf Hlen). rewrite (data_sum_spec _ Hwf). reflexivity.
Qed.

Lemma degree_probs_out g pr i :
  wf_wgraph g -> get_probs_of (make_weights_out Degree g) = MOk pr -> (i < length g)%nat ->
  0 < total_weight g /\ nthq pr i == spec_out_deg g i / total_weight g.
Proof.
  intros Hwf H Hi. apply get_probs_of_ok in H. destruct H as [Hpos ->].
  simpl make_weights_out in *. rewrite sumq_map_seq in Hpos. fold (data_sum g) in Hpos.
  rewrite (data_sum_spec g Hwf) in Hpos. split; [exact Hpos|].
  rewrite nthq_map by (rewrite map_length, seq_length; exact Hi).
  rewrite nthq_map_seq by exact Hi. rewrite Qred_correct.
  rewrite sumq_map_seq. fold (data_sum g). rewrite (data_sum_spec g Hwf), (out_deg_spec g i Hwf).
  reflexivity.
Qed.

Lemma degree_probs_in g pc j :
  get_probs_of (make_weights_in Degree g) = MOk pc -> (j < length g)%nat ->
  0 < total_weight g /\ nthq pc j == spec_in_deg g j / total_weight g.
Proof.
  intros H Hj. apply get_probs_of_ok in H. destruct H as [Hpos ->].
  simpl make_weights_in in *. rewrite sumq_map_seq in Hpos. rewrite in_deg_total in Hpos.
  split; [exact Hpos|].
  rewrite nthq_map by (rewrite map_length, seq_length; exact Hj).
  rewrite nthq_map_seq by exact Hj. rewrite Qred_correct.
  rewrite sumq_map_seq, in_deg_total. reflexivity.
Qed.

Lemma uniform_probs (g : wgraph) ps i :
  get_probs_of (repeat 1 (length g)) = MOk ps -> (i < length g)%nat ->
  nthq ps i == 1 / inject_Z (Z.of_nat (length g)).
Proof.
  intros H Hi. apply get_probs_of_ok in H. destruct H as [Hpos ->].
  rewrite nthq_map by (rewrite repeat_length; exact Hi).
  rewrite nthq_repeat by exact Hi. rewrite Qred_correct. rewrite sumq_repeat_1. reflexivity.
Qed.

(** Main theorem for square matrices (directed form; undirected = wsymmetric special case). *)
Lemma modularity_def_square m labels lc wk gamma md ft dv :
  is_square m -> wf_wgraph (w_rows m) ->
  get_modularity m labels lc wk gamma = MOk (md, ft, dv) ->
  md == spec_of wk (w_rows m) labels gamma.
Proof.
  intros Hsq Hwf H.
  destruct (get_modularity_square_inv _ _ _ _ _ _ _ _ Hsq H) as [Hlen [pr [pc [Hpr [Hpc [Hft [Hdv Hmd]]]]]]].
  set (g := w_rows m) in *. set (n := length g) in *.
  rewrite Hmd, Hft, Hdv. unfold fit_term, div_term.
  rewrite (fit_num_spec _ _ Hwf Hlen). rewrite (div_spec n labels (nthq pr) (nthq pc) Hlen).
  rewrite (data_sum_spec _ Hwf). fold n.
  destruct wk; simpl spec_of.
  - (* degree *)
    unfold spec_modularity. fold n. set (w := total_weight g) in *.
    assert (Hw : 0 < w).
    { destruct n eqn:En.
      - apply get_probs_of_ok in Hpr. destruct Hpr as [Hpos _]. simpl in Hpos.
        fold n in Hpos. rewrite En in Hpos. simpl in Hpos. lra.
      - assert (H0 : (0 < length g)%nat) by (fold n; lia).
        exact (proj1 (degree_probs_out g pr 0%nat Hwf Hpr H0)). }
    assert (Hw0 : ~ w == 0) by (intros E; rewrite E in Hw; lra).
    fold (qsum2 n n (fun i j => entry g i j * delta labels i j)).
    fold (qsum2 n n (fun i j => nthq pr i * nthq pc j * delta labels i j)).
    fold (qsum2 n n (fun i j => (entry g i j - gamma * spec_out_deg g i * spec_in_deg g j / w) * delta labels i j)).
    set (A := qsum2 n n (fun i j => entry g i j * delta labels i j)).
    set (B := qsum2 n n (fun i j => spec_out_deg g i * spec_in_deg g j * delta labels i j)).
    assert (E1 : qsum2 n n (fun i j => nthq pr i * nthq pc j * delta labels i j) == (1 / (w * w)) * B).
    { unfold B. rewrite <- qsum2_scal. apply qsum2_ext. intros i j Hi Hj.
      rewrite (proj2 (degree_probs_out g pr i Hwf Hpr Hi)), (proj2 (degree_probs_in g pc j Hpc Hj)).
      fold w. field. exact Hw0. }
    assert (E2 : qsum2 n n (fun i j => (entry g i j - gamma * spec_out_deg g i * spec_in_deg g j / w) * delta labels i j)
                 == A - (gamma / w) * B).
    { unfold A, B. rewrite <- qsum2_scal, <- qsum2_minus. apply qsum2_ext. intros i j _ _.
      field. exact Hw0. }
    rewrite E1, E2. field. exact Hw0.
  - (* uniform *)
    unfold spec_modularity_uniform. fold n. set (w := total_weight g) in *.
    set (nq := inject_Z (Z.of_nat n)).
    assert (Hn : ~ nq == 0).
    { destruct n eqn:En.
      - apply get_probs_of_ok in Hpr. destruct Hpr as [Hpos _]. simpl in Hpos.
        fold n in Hpos. rewrite En in Hpos. simpl in Hpos. lra.
      - unfold nq. intros E. unfold Qeq in E. simpl in E. lia. }
    fold (qsum2 n n (fun i j => entry g i j * delta labels i j)).
    fold (qsum2 n n (fun i j => nthq pr i * nthq pc j * delta labels i j)).
    fold (qsum2 n n (fun i j => (entry g i j / w - gamma / (nq * nq)) * delta labels i j)).
    set (A := qsum2 n n (fun i j => entry g i j * delta labels i j)).
    set (B := qsum2 n n (fun i j => delta labels i j)).
    assert (E1 : qsum2 n n (fun i j => nthq pr i * nthq pc j * delta labels i j) == (1 / (nq * nq)) * B).
    { unfold B. rewrite <- qsum2_scal. apply qsum2_ext. intros i j Hi Hj.
      simpl make_weights_out in Hpr. simpl make_weights_in in Hpc.
      rewrite (uniform_probs g pr i Hpr Hi), (uniform_probs g pc j Hpc Hj). fold n. fold nq.
      field. exact Hn. }
    assert (E2 : qsum2 n n (fun i j => (entry g i j / w - gamma / (nq * nq)) * delta labels i j)
                 == (/ w) * A - (gamma / (nq * nq)) * B).
    { unfold A, B. rewrite <- !qsum2_scal, <- qsum2_minus. apply qsum2_ext. intros i j _ _.
      unfold Qdiv. ring. }
    rewrite E1, E2. unfold Qdiv. ring.
Qed.

(** Undirected reading: for a wsymmetric matrix the in- and out-degrees coincide, so the formula is
    1/w sum (A_ij - gamma d_i d_j / w) delta. *)
Definition wsymmetric (g : wgraph) : Prop :=
  forall i j, (i < length g)%nat -> (j < length g)%nat -> entry g i j == entry g j i.

Definition spec_modularity_undirected (g : wgraph) (labels : list nat) (gamma : Q) : Q :=
  let n := length g in
  let w := total_weight g in
  1 / w * qsum n (fun i => qsum n (fun j =>
     (entry g i j - gamma * spec_out_deg g i * spec_out_deg g j / w) * delta labels i j)).

Lemma spec_undirected_eq g labels gamma :
  wsymmetric g -> spec_modularity g labels gamma == spec_modularity_undirected g labels gamma.
Proof.
  intros Hs. unfold spec_modularity, spec_modularity_undirected.
  apply Qmult_comp; [reflexivity|]. apply qsum_ext. intros i Hi. apply qsum_ext. intros j Hj.
  assert (E : spec_in_deg g j == spec_out_deg g j).
  { unfold spec_in_deg, spec_out_deg. apply qsum_ext. intros k Hk. apply Hs; assumption. }
  rewrite E. reflexivity.
Qed.

(** * Bipartite form: get_modularity on a non-square matrix = the square case on the block matrix *)

Lemma rsum_map_fst r (f : nat -> nat) h :
  rsum (map (fun p : nat * Q => (f (fst p), snd p)) r) h == rsum r (fun j => h (f j)).
Proof. induction r as [|[j w] t IH]; simpl; [reflexivity|]. rewrite IH. reflexivity. Qed.

Lemma rsum_const_index r (i : nat) h :
  rsum (map (fun p : nat * Q => (i, snd p)) r) h == h i * rsum r (fun _ => 1).
Proof. induction r as [|[j w] t IH]; simpl; [ring|]. rewrite IH. ring. Qed.

Lemma rsum_filter_eqb r j :
  rsum (filter (fun p : nat * Q => Nat.eqb (fst p) j) r) (fun _ => 1) == rsum r (fun j' => ind (Nat.eqb j' j)).
Proof.
  induction r as [|[j' w] t IH]; simpl; [reflexivity|].
  destruct (Nat.eqb j' j); simpl; rewrite IH; ring.
Qed.

Lemma rsum_concat_seq (F : nat -> wrow) n h :
  rsum (concat (map F (seq 0 n))) h == qsum n (fun i => rsum (F i) h).
Proof.
  induction n as [|n IH]; [reflexivity|].
  rewrite seq_S, map_app, concat_app, rsum_app, IH. simpl. rewrite app_nil_r. reflexivity.
Qed.

Lemma block_length m : length (block_undirected m) = (w_nrow m + w_ncol m)%nat.
Proof. unfold block_undirected. rewrite app_length, !map_length, seq_length. reflexivity. Qed.

Lemma wrow_block_top m a :
  (a < w_nrow m)%nat ->
  wrow_of (block_undirected m) a = map (fun p => ((w_nrow m + fst p)%nat, snd p)) (wrow_of (w_rows m) a).
Proof.
  intros H. unfold wrow_of, block_undirected. rewrite app_nth1 by (rewrite map_length; exact H).
  rewrite (nth_indep _ [] (map (fun p : nat * Q => ((w_nrow m + fst p)%nat, snd p)) []))
    by (rewrite map_length; exact H).
  apply map_nth.
Qed.

Lemma wrow_block_bottom m a :
  (w_nrow m <= a)%nat -> (a < w_nrow m + w_ncol m)%nat ->
  wrow_of (block_undirected m) a = col_of m (a - w_nrow m).
Proof.
  intros H1 H2. unfold wrow_of, block_undirected. unfold w_nrow in *.
  rewrite app_nth2 by (rewrite map_length; exact H1). rewrite map_length.
  assert (Hlt : (a - length (w_rows m) < w_ncol m)%nat) by lia.
  rewrite (nth_indep _ [] (col_of m 0)) by (rewrite map_length, seq_length; exact Hlt).
  rewrite map_nth. rewrite seq_nth by exact Hlt. reflexivity.
Qed.

Lemma entry_block m a b :
  (a < w_nrow m + w_ncol m)%nat -> (b < w_nrow m + w_ncol m)%nat ->
  entry (block_undirected m) a b == block_entry m a b.
Proof.
  intros Ha Hb. unfold entry, block_entry.
  destruct (Nat.ltb a (w_nrow m)) eqn:Ea.
  - apply Nat.ltb_lt in Ea. rewrite (wrow_block_top m a Ea). rewrite rsum_map_fst.
    destruct (Nat.ltb b (w_nrow m)) eqn:Eb.
    + apply Nat.ltb_lt in Eb. apply rsum_zero. intros j w _.
      rewrite ind_false by (apply Nat.eqb_neq; lia). reflexivity.
    + apply Nat.ltb_ge in Eb. unfold bentry. apply rsum_ext. intros j w _.
      destruct (Nat.eqb_spec (w_nrow m + j) b) as [E|E]; destruct (Nat.eqb_spec j (b - w_nrow m)) as [E'|E'];
        try reflexivity; exfalso; lia.
  - apply Nat.ltb_ge in Ea. rewrite (wrow_block_bottom m a Ea Ha). unfold col_of.
    rewrite rsum_concat_seq.
    transitivity (qsum (w_nrow m) (fun i => ind (Nat.eqb i b) * bentry m i (a - w_nrow m))).
    + apply qsum_ext. intros i _. rewrite rsum_const_index, rsum_filter_eqb. reflexivity.
    + destruct (Nat.ltb b (w_nrow m)) eqn:Eb.
      * apply Nat.ltb_lt in Eb. exact (qsum_ind (w_nrow m) b (fun i => bentry m i (a - w_nrow m)) Eb).
      * apply Nat.ltb_ge in Eb. exact (qsum_ind_ge (w_nrow m) b (fun i => bentry m i (a - w_nrow m)) Eb).
Qed.

Lemma In_concat_map_seq {A} (F : nat -> list A) n x :
  In x (concat (map F (seq 0 n))) -> exists i, (i < n)%nat /\ In x (F i).
Proof.
  intros H. apply in_concat in H. destruct H as [l [Hl Hx]].
  apply in_map_iff in Hl. destruct Hl as [i [<- Hi]]. apply in_seq in Hi.
  exists i. split; [lia|exact Hx].
Qed.

Lemma wf_block m : wf_wmat m -> wf_wgraph (block_undirected m).
Proof.
  intros Hwf i j w Hin. rewrite block_length.
  destruct (Nat.lt_ge_cases i (w_nrow m)) as [Hi|Hi].
  - rewrite (wrow_block_top m i Hi) in Hin. apply in_map_iff in Hin.
    destruct Hin as [[j' w'] [E Hin]]. simpl in E. injection E as <- <-.
    specialize (Hwf i j' w' Hin). lia.
  - destruct (Nat.lt_ge_cases i (w_nrow m + w_ncol m)) as [Hi2|Hi2].
    + rewrite (wrow_block_bottom m i Hi Hi2) in Hin. unfold col_of in Hin.
      apply In_concat_map_seq in Hin. destruct Hin as [i' [Hi' Hin]].
      apply in_map_iff in Hin. destruct Hin as [[j' w'] [E _]]. simpl in E. injection E as <- <-. lia.
    + unfold wrow_of in Hin. rewrite nth_overflow in Hin by (rewrite block_length; exact Hi2). destruct Hin.
Qed.

Lemma sumn_app l1 l2 : sumn (l1 ++ l2) = (sumn l1 + sumn l2)%nat.
Proof. induction l1 as [|a t IH]; simpl; [reflexivity|]. rewrite IH. lia. Qed.

Lemma nnz_block m :
  nnz (block_undirected m) = (nnz (w_rows m) + nnz (map (col_of m) (seq 0 (w_ncol m))))%nat.
Proof.
  unfold nnz, block_undirected. rewrite map_app, sumn_app. f_equal.
  rewrite map_map. f_equal. apply map_ext. intros r. apply map_length.
Qed.

Lemma nnz_block_pos m : nnz (w_rows m) <> 0%nat -> nnz (block_undirected m) <> 0%nat.
Proof. rewrite nnz_block. lia. Qed.

Definition block_wmat (m : wmat) : wmat :=
  {| w_ncol := w_nrow m + w_ncol m; w_rows := block_undirected m |}.

Lemma get_modularity_bipartite_eq m lr lc wk gamma :
  w_nrow m <> w_ncol m ->
  get_modularity m lr (Some lc) wk gamma = get_modularity (block_wmat m) (lr ++ lc) None wk gamma.
Proof.
  intros Hns. unfold get_modularity.
  destruct (Nat.eqb (nnz (w_rows m)) 0) eqn:E0.
  - apply Nat.eqb_eq in E0. simpl w_rows.
    assert (E1 : nnz (block_undirected m) = 0%nat).
    { rewrite nnz_block, E0. simpl.
      assert (Hall : forall r, In r (w_rows m) -> r = []).
      { revert E0. unfold nnz. generalize (w_rows m). intros l.
        induction l as [|r t IH]; simpl; intros E r' Hin; [destruct Hin|].
        destruct Hin as [<-|Hin].
        - destruct r; [reflexivity|simpl in E; lia].
        - apply IH; [lia|exact Hin]. }
      assert (Eb : forall j, col_of m j = []).
      { intros j. unfold col_of.
        assert (Hz : forall i, map (fun p : nat * Q => (i, snd p)) (filter (fun p : nat * Q => Nat.eqb (fst p) j) (wrow_of (w_rows m) i)) = []).
        { intros i. unfold wrow_of. destruct (Nat.lt_ge_cases i (length (w_rows m))) as [Hi|Hi].
          - rewrite (Hall _ (nth_In (w_rows m) [] Hi)). reflexivity.
          - rewrite nth_overflow by exact Hi. reflexivity. }
        induction (seq 0 (w_nrow m)) as [|a t IH]; simpl; [reflexivity|]. rewrite Hz, IH. reflexivity. }
      unfold nnz. induction (seq 0 (w_ncol m)) as [|a t IH]; simpl; [reflexivity|]. rewrite Eb. simpl. exact IH. }
    rewrite E1. reflexivity.
  - apply Nat.eqb_neq in E0. apply nnz_block_pos in E0. simpl w_rows.
    apply Nat.eqb_neq in E0. rewrite E0.
    unfold get_adjacency_default. apply Nat.eqb_neq in Hns. rewrite Hns.
    assert (Esq : Nat.eqb (w_nrow (block_wmat m)) (w_ncol (block_wmat m)) = true).
    { unfold w_nrow, block_wmat. simpl. rewrite block_length. apply Nat.eqb_refl. }
    rewrite Esq. reflexivity.
Qed.

Lemma block_entry_sym m a b : block_entry m a b = block_entry m b a.
Proof.
  unfold block_entry. destruct (Nat.ltb a (w_nrow m)), (Nat.ltb b (w_nrow m)); reflexivity.
Qed.

Lemma spec_block_eq m lr lc gamma :
  spec_modularity (block_undirected m) (lr ++ lc) gamma == spec_modularity_bipartite m lr lc gamma.
Proof.
  unfold spec_modularity, spec_modularity_bipartite, total_weight, spec_out_deg, spec_in_deg.
  rewrite block_length. set (n := (w_nrow m + w_ncol m)%nat).
  assert (Ew : qsum n (fun i => qsum n (fun j => entry (block_undirected m) i j))
               == qsum n (fun a => qsum n (fun b => block_entry m a b))).
  { apply qsum_ext. intros i Hi. apply qsum_ext. intros j Hj. apply entry_block; assumption. }
  rewrite Ew. apply Qmult_comp; [reflexivity|].
  apply qsum_ext. intros a Ha. apply qsum_ext. intros b Hb.
  rewrite (entry_block m a b Ha Hb).
  assert (E1 : qsum n (fun j => entry (block_undirected m) a j) == qsum n (fun b0 => block_entry m a b0)).
  { apply qsum_ext. intros j Hj. apply entry_block; assumption. }
  assert (E2 : qsum n (fun i => entry (block_undirected m) i b) == qsum n (fun b0 => block_entry m b b0)).
  { apply qsum_ext. intros i Hi. rewrite (entry_block m i b Hi Hb). rewrite block_entry_sym. reflexivity. }
  rewrite E1, E2, Ew. reflexivity.
Qed.

Lemma modularity_def_bipartite_deg m lr lc gamma md ft dv :
  w_nrow m <> w_ncol m -> wf_wmat m ->
  get_modularity m lr (Some lc) Degree gamma = MOk (md, ft, dv) ->
  md == spec_modularity_bipartite m lr lc gamma /\ md == ft - gamma * dv.
Proof.
  intros Hns Hwf H. rewrite (get_modularity_bipartite_eq m lr lc Degree gamma Hns) in H.
  assert (Hsq : is_square (block_wmat m)).
  { unfold is_square, w_nrow. simpl. apply block_length. }
  assert (Hwfb : wf_wgraph (w_rows (block_wmat m))) by (simpl; apply wf_block; exact Hwf).
  split.
  - rewrite (modularity_def_square _ _ _ _ _ _ _ _ Hsq Hwfb H). simpl. apply spec_block_eq.
  - exact (proj1 (modularity_fit_minus_div_square _ _ _ _ _ _ _ _ Hsq Hwfb H)).
Qed.

(** Uniform weights on a biadjacency matrix: Potts form on the block matrix. *)
Lemma modularity_def_bipartite_uniform m lr lc gamma md ft dv :
  w_nrow m <> w_ncol m -> wf_wmat m ->
  get_modularity m lr (Some lc) Uniform gamma = MOk (md, ft, dv) ->
  md == spec_modularity_uniform (block_undirected m) (lr ++ lc) gamma /\ md == ft - gamma * dv.
Proof.
  intros Hns Hwf H. rewrite (get_modularity_bipartite_eq m lr lc Uniform gamma Hns) in H.
  assert (Hsq : is_square (block_wmat m)).
  { unfold is_square, w_nrow. simpl. apply block_length. }
  assert (Hwfb : wf_wgraph (w_rows (block_wmat m))) by (simpl; apply wf_block; exact Hwf).
  split.
  - exact (modularity_def_square _ _ _ _ _ _ _ _ Hsq Hwfb H).
  - exact (proj1 (modularity_fit_minus_div_square _ _ _ _ _ _ _ _ Hsq Hwfb H)).
Qed.

(** get_modularity on a biadjacency matrix is the undirected modularity of the block graph, which is
    NOT Barber's bipartite modularity (the objective Louvain's default 'dugue' kind optimises on
    bipartite input): witness B = [[1, 1]], rows {0}, columns {0, 1}. *)
Lemma get_modularity_bipartite_not_barber :
  exists m lr lc md ft dv,
    get_modularity m lr (Some lc) Degree 1 = MOk (md, ft, dv) /\
    ~ md == barber_modularity m lr lc 1.
Proof.
  exists {| w_ncol := 2; w_rows := [[(0%nat, 1); (1%nat, 1)]] |}, [0%nat], [0%nat; 1%nat].
  eexists; eexists; eexists. split; [vm_compute; reflexivity|].
  vm_compute. discriminate.
Qed.

Lemma modularity_def_square_match m labels lc wk gamma md ft dv :
  w_nrow m = w_ncol m -> wf_wgraph (w_rows m) ->
  get_modularity m labels lc wk gamma = MOk (md, ft, dv) ->
  md == match wk with
        | Degree => spec_modularity (w_rows m) labels gamma
        | Uniform => spec_modularity_uniform (w_rows m) labels gamma
        end.
Proof.
  intros Hsq Hwf H. pose proof (modularity_def_square m labels lc wk gamma md ft dv Hsq Hwf H) as E.
  destruct wk; exact E.
Qed.

(** Proofs about the array-level model (L0) of sknetwork/topology/cliques.pyx in Model/Topology.v:
    the ListingBox arrays [ns], [lab], [deg], [sub] and the in-place reordering of the CSR rows.

    1. [inv]: the level invariant; [inv_init] (it holds for ListingBox.__cinit__ at level k),
       [level_step_invariant] (one iteration of the loop over the nodes of level l establishes it at
       level l-1 for the recursive call), [count_cliques_from_dag_inv] (it holds again on return).
    2. [count_cliques_L0_refines_L1]: under [inv] the L0 count equals the L1 recursion [cliques_rec] on the
       current node set; [count_cliques_L0_exact]: count_cliques as coded returns the number of k-cliques.
    3. [ccfd_ok]: the model instrumented with the bounds check of every array access; under [inv] every
       check passes ([count_cliques_from_dag_safe], [count_cliques_safe]). *)
From Coq Require Import Permutation Lia.
From SKN Require Import Base.Util Model.Bfs Model.Topology Proofs.BfsProofs Proofs.TopologyProofs.
Set Warnings "-notation-overridden" (* keep this line: harness dependency scan *).
Open Scope nat_scope.

(** * 0. Lists: [upd], [firstn], [skipn], swaps *)

Lemma upd_overflow {A} (l : list A) i x : length l <= i -> upd l i x = l.
Proof.
  intros H. unfold upd. rewrite skipn_all2 by exact H. rewrite firstn_all2 by exact H. apply app_nil_r.
Qed.

Lemma nth_upd {A} (l : list A) i x m d :
  nth m (upd l i x) d = if (m =? i) && (i <? length l) then x else nth m l d.
Proof.
  destruct (Nat.eqb_spec m i) as [->|Ne]; simpl.
  - destruct (Nat.ltb_spec i (length l)) as [L|L].
    + apply nth_upd_same. exact L.
    + rewrite upd_overflow by exact L. reflexivity.
  - apply nth_upd_other. lia.
Qed.

Lemma nthl_upd (ll : list (list nat)) i r m :
  nthl (upd ll i r) m = if (m =? i) && (i <? length ll) then r else nthl ll m.
Proof. apply nth_upd. Qed.

Lemma nthn_upd (l : list nat) i x m :
  nthn (upd l i x) m = if (m =? i) && (i <? length l) then x else nthn l m.
Proof. apply nth_upd. Qed.

Lemma firstn_upd_lt {A} (l : list A) i m x : i < m -> firstn m (upd l i x) = upd (firstn m l) i x.
Proof.
  revert i m; induction l as [|a t IH]; intros i m H.
  - rewrite upd_nil, firstn_nil, upd_nil. reflexivity.
  - destruct m as [|m]; [lia|]. destruct i as [|i].
    + reflexivity.
    + rewrite upd_cons_S. cbn [firstn]. rewrite upd_cons_S. f_equal. apply IH. lia.
Qed.

Lemma firstn_upd_ge {A} (l : list A) i m x : m <= i -> firstn m (upd l i x) = firstn m l.
Proof.
  revert i m; induction l as [|a t IH]; intros i m H.
  - rewrite upd_nil. reflexivity.
  - destruct m as [|m]; [reflexivity|]. destruct i as [|i]; [lia|].
    rewrite upd_cons_S. cbn [firstn]. f_equal. apply IH. lia.
Qed.

Lemma skipn_upd_lt {A} (l : list A) i m x : i < m -> skipn m (upd l i x) = skipn m l.
Proof.
  revert i m; induction l as [|a t IH]; intros i m H.
  - rewrite upd_nil. reflexivity.
  - destruct m as [|m]; [lia|]. destruct i as [|i].
    + reflexivity.
    + rewrite upd_cons_S. cbn [skipn]. apply IH. lia.
Qed.

Lemma nth_firstn_lt {A} (l : list A) i m d : i < m -> nth i (firstn m l) d = nth i l d.
Proof.
  revert i m; induction l as [|a t IH]; intros i m H.
  - rewrite firstn_nil. reflexivity.
  - destruct m as [|m]; [lia|]. destruct i as [|i]; [reflexivity|].
    cbn [firstn nth]. apply IH. lia.
Qed.

Lemma firstn_S_nth {A} (l : list A) j d : j < length l -> firstn (S j) l = firstn j l ++ [nth j l d].
Proof.
  revert j; induction l as [|a t IH]; intros j H; simpl in H; [lia|].
  destruct j as [|j]; [reflexivity|].
  cbn [firstn nth app]. f_equal. apply IH. lia.
Qed.

Lemma firstn_S_upd {A} (l : list A) j x : j < length l -> firstn (S j) (upd l j x) = firstn j l ++ [x].
Proof.
  revert j; induction l as [|a t IH]; intros j H; simpl in H; [lia|].
  destruct j as [|j]; [reflexivity|].
  rewrite upd_cons_S. cbn [firstn app]. f_equal. apply IH. lia.
Qed.

Lemma In_firstn_nth (l : list nat) k w :
  In w (firstn k l) <-> exists i, i < k /\ i < length l /\ nthn l i = w.
Proof.
  unfold nthn. split.
  - intros H. apply (In_nth _ _ 0) in H. destruct H as [i [Hi E]].
    rewrite firstn_length in Hi. exists i.
    rewrite nth_firstn_lt in E by lia. split; [lia|]. split; [lia|exact E].
  - intros [i [Hk [Hl E]]]. rewrite <- E, <- (nth_firstn_lt l i k 0 Hk).
    apply nth_In. rewrite firstn_length. lia.
Qed.

Lemma firstn_split_le {A} (l : list A) m m' :
  m <= m' -> firstn m' l = firstn m l ++ firstn (m' - m) (skipn m l).
Proof.
  revert l m'; induction m as [|m IH]; intros l m' H.
  - simpl. rewrite Nat.sub_0_r. reflexivity.
  - destruct l as [|a t].
    + rewrite ?firstn_nil, ?skipn_nil, ?firstn_nil. reflexivity.
    + destruct m' as [|m']; [lia|]. cbn [firstn skipn app]. f_equal.
      replace (S m' - S m) with (m' - m) by lia. apply IH. lia.
Qed.

Lemma skipn_split_le {A} (l : list A) m m' :
  m <= m' -> skipn m' l = skipn (m' - m) (skipn m l).
Proof.
  revert l m'; induction m as [|m IH]; intros l m' H.
  - simpl. rewrite Nat.sub_0_r. reflexivity.
  - destruct l as [|a t].
    + rewrite ?skipn_nil. reflexivity.
    + destruct m' as [|m']; [lia|]. cbn [skipn].
      replace (S m' - S m) with (m' - m) by lia. apply IH. lia.
Qed.

Lemma upd_perm_cons {A} (t : list A) j a d :
  j < length t -> Permutation (nth j t d :: upd t j a) (a :: t).
Proof.
  revert j; induction t as [|b t IH]; intros j H; simpl in H; [lia|].
  destruct j as [|j].
  - cbn [nth]. rewrite upd_cons_0. apply perm_swap.
  - cbn [nth]. rewrite upd_cons_S.
    eapply perm_trans; [apply perm_swap|].
    eapply perm_trans; [apply perm_skip; apply IH; lia|]. apply perm_swap.
Qed.

Lemma swap_perm {A} (l : list A) i j d :
  i < length l -> j < length l -> Permutation (upd (upd l i (nth j l d)) j (nth i l d)) l.
Proof.
  revert i j; induction l as [|a t IH]; intros i j Hi Hj; simpl in Hi, Hj; [lia|].
  destruct i as [|i], j as [|j].
  - reflexivity.
  - cbn [nth]. rewrite upd_cons_0, upd_cons_S. apply upd_perm_cons. lia.
  - cbn [nth]. rewrite upd_cons_S, upd_cons_0. apply upd_perm_cons. lia.
  - cbn [nth]. rewrite !upd_cons_S. apply perm_skip. apply IH; lia.
Qed.

Lemma map_seq_nth {B} (f : nat -> B) (l : list nat) m :
  m <= length l -> map (fun i => f (nthn l i)) (seq 0 m) = map f (firstn m l).
Proof.
  induction m as [|m IH]; intros H; [reflexivity|].
  rewrite seq_S, map_app, IH by lia. cbn [map plus].
  rewrite (firstn_S_nth l m 0) by lia. rewrite map_app. reflexivity.
Qed.

Lemma nth_repeat_lt {A} (x d : A) n v : v < n -> nth v (repeat x n) d = x.
Proof.
  intros H. apply (repeat_spec n x). apply nth_In. rewrite repeat_length. exact H.
Qed.

Lemma fold_max_ge (l : list nat) : forall a, a <= fold_left Nat.max l a /\
  forall x, In x l -> x <= fold_left Nat.max l a.
Proof.
  induction l as [|y t IH]; intros a; simpl.
  - split; [lia|intros x []].
  - destruct (IH (Nat.max a y)) as [H1 H2]. split; [lia|].
    intros x [->|Hx]; [lia|apply H2; exact Hx].
Qed.

Lemma NoDup_firstn {A} (l : list A) m : NoDup l -> NoDup (firstn m l).
Proof.
  intros H. revert m. induction H as [|a t Ha Ht IH]; intros m.
  - rewrite firstn_nil. constructor.
  - destruct m as [|m]; [constructor|]. cbn [firstn]. constructor; [|apply IH].
    intros Hin. apply Ha. rewrite <- (firstn_skipn m t). apply in_or_app. left. exact Hin.
Qed.

Lemma In_firstn {A} (l : list A) m x : In x (firstn m l) -> In x l.
Proof. intros H. rewrite <- (firstn_skipn m l). apply in_or_app. left. exact H. Qed.

(** * 0b. Loops over [seq 0 n]: an invariant indexed by the number of iterations done, and the
    conjunction of a guard evaluated before every iteration. *)

Fixpoint fold_chk {B} (ok : B -> nat -> bool) (f : B -> nat -> B) (l : list nat) (b : B) : bool :=
  match l with
  | [] => true
  | j :: t => ok b j && fold_chk ok f t (f b j)
  end.

Lemma fold_seq_chk_gen {B} (P : nat -> B -> Prop) ok (f : B -> nat -> B) n :
  forall a b, P a b ->
  (forall j b, a <= j < a + n -> P j b -> ok b j = true /\ P (S j) (f b j)) ->
  fold_chk ok f (seq a n) b = true /\ P (a + n) (fold_left f (seq a n) b).
Proof.
  induction n as [|n IH]; intros a b H0 HS.
  - simpl. rewrite Nat.add_0_r. split; [reflexivity|exact H0].
  - destruct (HS a b ltac:(lia) H0) as [Hok HP]. cbn [seq fold_chk fold_left]. rewrite Hok.
    replace (a + S n) with (S a + n) by lia. apply IH; [exact HP|].
    intros j b' Hj. apply HS. lia.
Qed.

Lemma fold_seq_chk {B} (P : nat -> B -> Prop) ok (f : B -> nat -> B) n b :
  P 0 b ->
  (forall j b, j < n -> P j b -> ok b j = true /\ P (S j) (f b j)) ->
  fold_chk ok f (seq 0 n) b = true /\ P n (fold_left f (seq 0 n) b).
Proof.
  intros H0 HS. apply (fold_seq_chk_gen P ok f n 0 b H0). intros j b' Hj. apply HS. lia.
Qed.

(** * 0c. Windows of a row: the first [m] entries are permuted among themselves, the rest is untouched *)

Definition perm_within (m : nat) (r r' : list nat) : Prop :=
  Permutation (firstn m r') (firstn m r) /\ skipn m r' = skipn m r.

Lemma perm_within_refl m r : perm_within m r r.
Proof. split; reflexivity. Qed.

Lemma perm_within_trans m r1 r2 r3 : perm_within m r1 r2 -> perm_within m r2 r3 -> perm_within m r1 r3.
Proof.
  intros [P1 S1] [P2 S2]. split; [eapply perm_trans; eassumption|congruence].
Qed.

Lemma perm_within_mono m m' r r' : m <= m' -> perm_within m r r' -> perm_within m' r r'.
Proof.
  intros H [P S]. split.
  - rewrite (firstn_split_le r' m m' H), (firstn_split_le r m m' H), S.
    apply Permutation_app_tail. exact P.
  - rewrite (skipn_split_le r' m m' H), (skipn_split_le r m m' H), S. reflexivity.
Qed.

Lemma perm_within_perm m r r' : perm_within m r r' -> Permutation r' r.
Proof.
  intros [P S]. rewrite <- (firstn_skipn m r'), <- (firstn_skipn m r), S.
  apply Permutation_app_tail. exact P.
Qed.

Lemma perm_within_swap m (r : list nat) i j :
  i < m -> j < m -> m <= length r -> perm_within m r (upd (upd r i (nthn r j)) j (nthn r i)).
Proof.
  intros Hi Hj Hm. split.
  - rewrite !firstn_upd_lt by assumption. unfold nthn.
    rewrite <- (nth_firstn_lt r j m 0 Hj), <- (nth_firstn_lt r i m 0 Hi).
    apply swap_perm; rewrite firstn_length; lia.
  - rewrite !skipn_upd_lt by assumption. reflexivity.
Qed.

Lemma memn_app x l1 l2 : memn x (l1 ++ l2) = memn x l1 || memn x l2.
Proof. unfold memn. apply existsb_app. Qed.

Lemma memn_false x l : memn x l = false <-> ~ In x l.
Proof.
  split.
  - intros H Hin. apply memn_In in Hin. congruence.
  - intros H. destruct (memn x l) eqn:E; [|reflexivity]. apply memn_In in E. contradiction.
Qed.

Lemma cliques_rec_perm (d : graph) j : forall s s', Permutation s s' -> cliques_rec d j s = cliques_rec d j s'.
Proof.
  induction j as [|j IH]; intros s s' HP; cbn [cliques_rec].
  - rewrite (sumn_perm _ _ (Permutation_map _ HP)).
    apply sumn_map_ext_in. intros u _. rewrite (inter_perm _ _ _ HP). reflexivity.
  - rewrite (sumn_perm _ _ (Permutation_map _ HP)).
    apply sumn_map_ext_in. intros u _. rewrite (inter_perm _ _ _ HP). reflexivity.
Qed.

(** * 1. The state: current node list of a level, shape of the arrays, invariant, frame *)

(** The current node list of level [l]: the first ns[l] entries of sub[l]. *)
Definition subl (b : box) (l : nat) : list nat := firstn (nthn (b_ns b) l) (nthl (b_sub b) l).

(** Bounds checks of the individual accesses (used by the instrumented model of section 6). *)
Definition in_ns (b : box) (l : nat) : bool := l <? length (b_ns b).
Definition in_lab (b : box) (v : nat) : bool := v <? length (b_lab b).
Definition in_deg (b : box) (l v : nat) : bool := (l <? length (b_deg b)) && (v <? length (nthl (b_deg b) l)).
Definition in_sub (b : box) (l i : nat) : bool := (l <? length (b_sub b)) && (i <? length (nthl (b_sub b) l)).
Definition in_row (b : box) (v i : nat) : bool := (v <? length (b_rows b)) && (i <? length (nthl (b_rows b) v)).
Definition in_ptr (b : box) (v : nat) : bool := v <? length (b_rows b).   (* indptr[v], indptr[v+1] *)

Ltac bx := cbn [b_ns b_lab b_deg b_sub b_rows set_ns set_lab set_deg set_sub set_row] in *.

Section Level.
Context (d : graph) (K M : nat).
Local Notation nn := (length d).

(** What is used of the DAG: duplicate-free rows, entries in range, rows no longer than [M] (max_deg). *)
Definition dag_wf : Prop :=
  (forall v, NoDup (row d v)) /\ (forall v w, In w (row d v) -> w < nn) /\ (forall v, length (row d v) <= M).

(** Lengths of the arrays (never changed by the code). *)
Record shape (b : box) : Prop := {
  sh_ns : length (b_ns b) = S K;
  sh_lab : length (b_lab b) = nn;
  sh_deg : length (b_deg b) = S K;
  sh_sub : length (b_sub b) = S K;
  sh_rows : length (b_rows b) = nn;
  sh_degl : forall m, m <= K -> length (nthl (b_deg b) m) = nn;
  sh_subl : forall m, m < K -> M <= length (nthl (b_sub b) m) }.

Lemma shape_set_ns b i x : shape b -> shape (set_ns b i x).
Proof. intros [H1 H2 H3 H4 H5 H6 H7]. split; bx; rewrite ?upd_length; auto. Qed.

Lemma shape_set_lab b i x : shape b -> shape (set_lab b i x).
Proof. intros [H1 H2 H3 H4 H5 H6 H7]. split; bx; rewrite ?upd_length; auto. Qed.

Lemma shape_set_row b v i x : shape b -> shape (set_row b v i x).
Proof. intros [H1 H2 H3 H4 H5 H6 H7]. split; bx; rewrite ?upd_length; auto. Qed.

Lemma shape_set_deg b l v x : shape b -> shape (set_deg b l v x).
Proof.
  intros [H1 H2 H3 H4 H5 H6 H7]. split; bx; rewrite ?upd_length; auto.
  intros m Hm. rewrite nthl_upd. destruct ((m =? l) && (l <? length (b_deg b))) eqn:E; [|auto].
  rewrite upd_length. apply andb_true_iff in E. destruct E as [E _]. apply Nat.eqb_eq in E. subst. auto.
Qed.

Lemma shape_set_sub b l v x : shape b -> shape (set_sub b l v x).
Proof.
  intros [H1 H2 H3 H4 H5 H6 H7]. split; bx; rewrite ?upd_length; auto.
  intros m Hm. rewrite nthl_upd. destruct ((m =? l) && (l <? length (b_sub b))) eqn:E; [|auto].
  rewrite upd_length. apply andb_true_iff in E. destruct E as [E _]. apply Nat.eqb_eq in E. subst. auto.
Qed.

(** The level invariant at level [l] (2 <= l <= K). With S = [subl b l]:
    S is duplicate-free and in range; lab[v] = l exactly for the members of S, larger outside;
    every row is a permutation of the original row; for v in S, the first deg[l][v] entries of row v are,
    as a set, N+(v) /\ S. *)
Record inv (l : nat) (b : box) : Prop := {
  inv_shape : shape b;
  inv_lvl : 2 <= l <= K;
  inv_ns : nthn (b_ns b) l <= length (nthl (b_sub b) l);
  inv_nodup : NoDup (subl b l);
  inv_lt : forall v, In v (subl b l) -> v < nn;
  inv_lab_in : forall v, In v (subl b l) -> nthn (b_lab b) v = l;
  inv_lab_out : forall v, v < nn -> ~ In v (subl b l) -> l < nthn (b_lab b) v;
  inv_rows : forall v, Permutation (nthl (b_rows b) v) (row d v);
  inv_deg : forall v, In v (subl b l) -> get_deg b l v <= length (row d v);
  inv_win : forall v w, In v (subl b l) ->
     (In w (firstn (get_deg b l v) (nthl (b_rows b) v)) <-> In w (row d v) /\ In w (subl b l)) }.

(** What a call at level [l] may change: nothing at the levels >= l, no label, and row v only by a
    permutation of its first deg[l][v] entries, for v in the current node list. *)
Record frame (l : nat) (b b' : box) : Prop := {
  fr_shape : shape b';
  fr_lab : forall v, nthn (b_lab b') v = nthn (b_lab b) v;
  fr_ns : forall m, l <= m -> nthn (b_ns b') m = nthn (b_ns b) m;
  fr_sub : forall m, l <= m -> nthl (b_sub b') m = nthl (b_sub b) m;
  fr_deg : forall m, l <= m -> nthl (b_deg b') m = nthl (b_deg b) m;
  fr_rows_in : forall v, In v (subl b l) ->
     perm_within (get_deg b l v) (nthl (b_rows b) v) (nthl (b_rows b') v);
  fr_rows_out : forall v, ~ In v (subl b l) -> nthl (b_rows b') v = nthl (b_rows b) v }.

Lemma frame_subl l b b' : frame l b b' -> subl b' l = subl b l.
Proof. intros F. unfold subl. rewrite (fr_ns _ _ _ F l), (fr_sub _ _ _ F l) by lia. reflexivity. Qed.

Lemma frame_get_deg l b b' v : frame l b b' -> get_deg b' l v = get_deg b l v.
Proof. intros F. unfold get_deg. rewrite (fr_deg _ _ _ F l) by lia. reflexivity. Qed.

Lemma frame_refl l b : shape b -> frame l b b.
Proof. intros H. split; auto. intros v _. apply perm_within_refl. Qed.

Lemma frame_trans l b1 b2 b3 : frame l b1 b2 -> frame l b2 b3 -> frame l b1 b3.
Proof.
  intros F1 F2. pose proof (frame_subl _ _ _ F1) as ES. split.
  - exact (fr_shape _ _ _ F2).
  - intros v. rewrite (fr_lab _ _ _ F2), (fr_lab _ _ _ F1). reflexivity.
  - intros m Hm. rewrite (fr_ns _ _ _ F2 m Hm), (fr_ns _ _ _ F1 m Hm). reflexivity.
  - intros m Hm. rewrite (fr_sub _ _ _ F2 m Hm), (fr_sub _ _ _ F1 m Hm). reflexivity.
  - intros m Hm. rewrite (fr_deg _ _ _ F2 m Hm), (fr_deg _ _ _ F1 m Hm). reflexivity.
  - intros v Hv. eapply perm_within_trans; [apply (fr_rows_in _ _ _ F1 v Hv)|].
    rewrite <- (frame_get_deg _ _ _ v F1). apply (fr_rows_in _ _ _ F2). rewrite ES. exact Hv.
  - intros v Hv. rewrite (fr_rows_out _ _ _ F2), (fr_rows_out _ _ _ F1); auto. rewrite ES. exact Hv.
Qed.

Lemma frame_row_perm l b b' v : frame l b b' -> Permutation (nthl (b_rows b') v) (nthl (b_rows b) v).
Proof.
  intros F. destruct (in_dec Nat.eq_dec v (subl b l)) as [Hin|Hout].
  - eapply perm_within_perm. apply (fr_rows_in _ _ _ F v Hin).
  - rewrite (fr_rows_out _ _ _ F v Hout). reflexivity.
Qed.

(** The invariant of a level survives whatever a call at that level is allowed to change. *)
Lemma inv_frame l b b' : inv l b -> frame l b b' -> inv l b'.
Proof.
  intros I F. pose proof (frame_subl _ _ _ F) as ES. split; rewrite ?ES.
  - exact (fr_shape _ _ _ F).
  - exact (inv_lvl _ _ I).
  - rewrite (fr_ns _ _ _ F l), (fr_sub _ _ _ F l) by lia. exact (inv_ns _ _ I).
  - exact (inv_nodup _ _ I).
  - exact (inv_lt _ _ I).
  - intros v Hv. rewrite (fr_lab _ _ _ F). exact (inv_lab_in _ _ I v Hv).
  - intros v Hv Hn. rewrite (fr_lab _ _ _ F). exact (inv_lab_out _ _ I v Hv Hn).
  - intros v. eapply perm_trans; [apply (frame_row_perm _ _ _ v F)|apply (inv_rows _ _ I)].
  - intros v Hv. rewrite (frame_get_deg _ _ _ v F). exact (inv_deg _ _ I v Hv).
  - intros v w Hv. rewrite (frame_get_deg _ _ _ v F). rewrite <- (inv_win _ _ I v w Hv).
    destruct (fr_rows_in _ _ _ F v Hv) as [P _]. split; intros H.
    + eapply Permutation_in; [exact P|exact H].
    + eapply Permutation_in; [apply Permutation_sym; exact P|exact H].
Qed.

Lemma inv_row_length l b v : inv l b -> length (nthl (b_rows b) v) = length (row d v).
Proof. intros I. apply Permutation_length. apply (inv_rows _ _ I). Qed.

Lemma inv_row_nodup l b v : dag_wf -> inv l b -> NoDup (nthl (b_rows b) v).
Proof.
  intros [Hnd _] I. eapply Permutation_NoDup; [apply Permutation_sym; apply (inv_rows _ _ I)|apply Hnd].
Qed.

(** The window of v, as a list, is a permutation of N+(v) /\ S; in particular deg[l][v] = |N+(v) /\ S|. *)
Lemma inv_win_perm l b v : dag_wf -> inv l b -> In v (subl b l) ->
  Permutation (firstn (get_deg b l v) (nthl (b_rows b) v)) (inter (row d v) (subl b l)).
Proof.
  intros W I Hv. apply NoDup_Permutation.
  - apply NoDup_firstn. apply (inv_row_nodup l); assumption.
  - apply inter_nodup. apply W.
  - intros w. rewrite in_inter. apply (inv_win _ _ I v w Hv).
Qed.

Lemma inv_win_length l b v : inv l b -> In v (subl b l) ->
  length (firstn (get_deg b l v) (nthl (b_rows b) v)) = get_deg b l v.
Proof.
  intros I Hv. apply firstn_length_le. rewrite (inv_row_length l) by exact I. apply (inv_deg _ _ I v Hv).
Qed.

(** * 2. First inner loop: selection of the nodes of level cs-1 *)

Definition select_ok (cs u : nat) (b : box) (j : nat) : bool :=
  in_row b u j &&
  (let v := get_row b u j in
   in_lab b v &&
   (if nthn (b_lab b) v =? cs
    then in_ns b (cs - 1) && in_sub b (cs - 1) (nthn (b_ns b) (cs - 1)) && in_deg b (cs - 1) v
    else true)).

Lemma select_step_eq cs' u b j :
  select_step (S cs') u b j =
  let v := get_row b u j in
  if nthn (b_lab b) v =? S cs' then
    set_deg (set_ns (set_sub (set_lab b v cs') cs' (nthn (b_ns b) cs') v) cs' (S (nthn (b_ns b) cs'))) cs' v 0
  else b.
Proof. unfold select_step. rewrite Nat.sub_succ, Nat.sub_0_r. reflexivity. Qed.

(** State [b1] after the nodes [Lj] have been selected, starting from [b] with ns[cs'] reset. *)
Record sel_inv (cs' : nat) (b : box) (Lj : list nat) (b1 : box) : Prop := {
  si_shape : shape b1;
  si_rows : b_rows b1 = b_rows b;
  si_ns_other : forall m, m <> cs' -> nthn (b_ns b1) m = nthn (b_ns b) m;
  si_ns : nthn (b_ns b1) cs' = length Lj;
  si_sub_other : forall m, m <> cs' -> nthl (b_sub b1) m = nthl (b_sub b) m;
  si_sub : firstn (length Lj) (nthl (b_sub b1) cs') = Lj;
  si_deg_other : forall m, m <> cs' -> nthl (b_deg b1) m = nthl (b_deg b) m;
  si_deg : forall v, In v Lj -> get_deg b1 cs' v = 0;
  si_lab : forall v, nthn (b_lab b1) v = if memn v Lj then cs' else nthn (b_lab b) v }.

Lemma sel_inv_init cs' b : shape b -> cs' <= K -> sel_inv cs' b [] (set_ns b cs' 0).
Proof.
  intros Sh Hc. split; bx; auto.
  - apply shape_set_ns. exact Sh.
  - intros m Hm. rewrite nthn_upd. destruct (Nat.eqb_spec m cs'); [contradiction|reflexivity].
  - rewrite nthn_upd, Nat.eqb_refl. rewrite (sh_ns _ Sh).
    destruct (Nat.ltb_spec cs' (S K)); [reflexivity|lia].
  - intros v [].
Qed.

Lemma select_step_spec cs' b Lj b1 u j v :
  cs' <= K -> sel_inv cs' b Lj b1 ->
  u < nn -> j < length (nthl (b_rows b) u) -> nthn (nthl (b_rows b) u) j = v ->
  v < nn -> ~ In v Lj -> nthn (b_lab b) v = S cs' -> length Lj < M -> cs' < K ->
  select_ok (S cs') u b1 j = true /\ sel_inv cs' b (Lj ++ [v]) (select_step (S cs') u b1 j).
Proof.
  intros Hc SI Hu Hj Ev Hv Hnin Hlab HM HcK.
  pose proof (si_shape _ _ _ _ SI) as Sh.
  assert (Egr : get_row b1 u j = v).
  { unfold get_row. rewrite (si_rows _ _ _ _ SI). exact Ev. }
  assert (Elab : nthn (b_lab b1) v = S cs').
  { rewrite (si_lab _ _ _ _ SI). apply memn_false in Hnin. rewrite Hnin. exact Hlab. }
  assert (Hsub : length Lj < length (nthl (b_sub b1) cs')).
  { pose proof (sh_subl _ Sh cs' HcK). lia. }
  split.
  - unfold select_ok, in_row, in_lab, in_ns, in_sub, in_deg.
    rewrite Egr, Elab, Nat.eqb_refl, Nat.sub_succ, Nat.sub_0_r.
    rewrite (si_rows _ _ _ _ SI), (sh_lab _ Sh), (sh_ns _ Sh), (sh_sub _ Sh), (sh_deg _ Sh),
      (sh_degl _ Sh cs' Hc), (si_ns _ _ _ _ SI).
    rewrite <- (si_rows _ _ _ _ SI), (sh_rows _ Sh), (si_rows _ _ _ _ SI).
    repeat (apply andb_true_iff; split); apply Nat.ltb_lt; lia.
  - rewrite select_step_eq. cbv zeta. rewrite Egr, Elab, Nat.eqb_refl.
    split; bx.
    + apply shape_set_deg, shape_set_ns, shape_set_sub, shape_set_lab. exact Sh.
    + exact (si_rows _ _ _ _ SI).
    + intros m Hm. rewrite nthn_upd. destruct (Nat.eqb_spec m cs'); [contradiction|].
      apply (si_ns_other _ _ _ _ SI m Hm).
    + rewrite nthn_upd, Nat.eqb_refl, (sh_ns _ Sh), (si_ns _ _ _ _ SI).
      destruct (Nat.ltb_spec cs' (S K)); [|lia]. rewrite app_length. simpl. lia.
    + intros m Hm. rewrite nthl_upd. destruct (Nat.eqb_spec m cs'); [contradiction|].
      apply (si_sub_other _ _ _ _ SI m Hm).
    + rewrite nthl_upd, Nat.eqb_refl, (sh_sub _ Sh), (si_ns _ _ _ _ SI).
      destruct (Nat.ltb_spec cs' (S K)); [|lia]. cbn [andb].
      rewrite app_length. cbn [length]. rewrite Nat.add_1_r.
      rewrite firstn_S_upd by exact Hsub. rewrite (si_sub _ _ _ _ SI). reflexivity.
    + intros m Hm. rewrite nthl_upd. destruct (Nat.eqb_spec m cs'); [contradiction|].
      apply (si_deg_other _ _ _ _ SI m Hm).
    + intros x Hx. unfold get_deg. bx. rewrite nthl_upd, Nat.eqb_refl, (sh_deg _ Sh).
      destruct (Nat.ltb_spec cs' (S K)); [|lia]. cbn [andb].
      rewrite nthn_upd, (sh_degl _ Sh cs' Hc).
      destruct (Nat.eqb_spec x v) as [->|Ne].
      * destruct (Nat.ltb_spec v nn); [reflexivity|lia].
      * cbn [andb]. apply in_app_or in Hx. destruct Hx as [Hx|[Hx|[]]]; [|congruence].
        apply (si_deg _ _ _ _ SI x Hx).
    + intros x. rewrite nthn_upd, (sh_lab _ Sh), memn_app. cbn [memn existsb].
      rewrite (si_lab _ _ _ _ SI x).
      destruct (Nat.eqb_spec x v) as [->|Ne].
      * destruct (Nat.ltb_spec v nn); [|lia]. cbn [andb]. rewrite orb_true_r. reflexivity.
      * cbn [andb orb]. rewrite orb_false_r. reflexivity.
Qed.

(** Facts about the window of a member u of the current level. *)
Lemma window_facts cs b u : dag_wf -> inv cs b -> In u (subl b cs) ->
  let L := firstn (get_deg b cs u) (nthl (b_rows b) u) in
  NoDup L /\ length L = get_deg b cs u /\ length L <= M /\
  get_deg b cs u <= length (nthl (b_rows b) u) /\
  (forall v, In v L -> In v (subl b cs) /\ In v (row d u) /\ v < nn /\ nthn (b_lab b) v = cs).
Proof.
  intros W I Hu L. pose proof W as [Hnd [Hlt HM]].
  pose proof (inv_win_length _ _ _ I Hu) as HL. fold L in HL.
  pose proof (inv_deg _ _ I u Hu) as Hd.
  split; [apply NoDup_firstn; apply (inv_row_nodup cs); assumption|].
  split; [exact HL|]. split; [specialize (HM u); lia|].
  split; [rewrite (inv_row_length cs) by exact I; exact Hd|].
  intros v Hv. apply (inv_win _ _ I u v Hu) in Hv. destruct Hv as [Hr Hs].
  split; [exact Hs|]. split; [exact Hr|]. split; [apply (inv_lt _ _ I v Hs)|apply (inv_lab_in _ _ I v Hs)].
Qed.

Lemma select_phase cs' b u : dag_wf -> inv (S cs') b -> In u (subl b (S cs')) ->
  let b0 := set_ns b cs' 0 in
  let L := firstn (get_deg b (S cs') u) (nthl (b_rows b) u) in
  fold_chk (select_ok (S cs') u) (select_step (S cs') u) (seq 0 (get_deg b0 (S cs') u)) b0 = true /\
  sel_inv cs' b L (fold_left (select_step (S cs') u) (seq 0 (get_deg b0 (S cs') u)) b0).
Proof.
  intros W I Hu b0 L.
  destruct (window_facts _ _ _ W I Hu) as [HLnd [HLlen [HLM [Hdl HLin]]]]. fold L in HLnd, HLlen, HLM, HLin.
  pose proof (inv_lvl _ _ I) as Hlvl.
  change (get_deg b0 (S cs') u) with (get_deg b (S cs') u).
  set (m := get_deg b (S cs') u) in *.
  apply (fold_seq_chk (fun j b1 => sel_inv cs' b (firstn j (nthl (b_rows b) u)) b1)).
  - apply sel_inv_init; [exact (inv_shape _ _ I)|lia].
  - intros j b1 Hj SI.
    assert (Hjl : j < length (nthl (b_rows b) u)) by lia.
    rewrite (firstn_S_nth _ j 0 Hjl). fold (nthn (nthl (b_rows b) u) j).
    set (v := nthn (nthl (b_rows b) u) j).
    assert (HvL : In v L).
    { unfold L. apply In_firstn_nth. exists j. split; [exact Hj|]. split; [exact Hjl|reflexivity]. }
    destruct (HLin v HvL) as [_ [_ [Hvn Hvl]]].
    assert (Hun : u < nn) by (apply (inv_lt _ _ I u Hu)).
    assert (Hnin : ~ In v (firstn j (nthl (b_rows b) u))).
    { assert (ND : NoDup (firstn (S j) (nthl (b_rows b) u))).
      { apply NoDup_firstn. apply (inv_row_nodup (S cs')); assumption. }
      rewrite (firstn_S_nth _ j 0 Hjl) in ND. fold (nthn (nthl (b_rows b) u) j) in ND. fold v in ND.
      apply NoDup_remove_2 in ND. rewrite app_nil_r in ND. exact ND. }
    assert (Hlj : length (firstn j (nthl (b_rows b) u)) < M) by (rewrite firstn_length; lia).
    apply (select_step_spec cs' b _ b1 u j v ltac:(lia) SI Hun Hjl eq_refl Hvn Hnin Hvl Hlj ltac:(lia)).
Qed.

(** * 3. Second inner loop: in-place partition of the window of every selected node *)

Fixpoint partition_ok (fuel : nat) (cs v k k_max : nat) (b : box) : bool :=
  match fuel with
  | O => true
  | S f =>
      if k <? k_max then
        in_row b v k &&
        (let w := get_row b v k in
         in_lab b w &&
         (if nthn (b_lab b) w =? cs - 1 then
            in_deg b (cs - 1) v &&
            partition_ok f cs v (S k) k_max (set_deg b (cs - 1) v (S (get_deg b (cs - 1) v)))
          else
            let k_max' := k_max - 1 in
            in_row b v k_max' &&
            (let b1 := set_row b v k (get_row b v k_max') in
             let b2 := set_row b1 v k_max' w in
             partition_ok f cs v k k_max' b2)))
      else true
  end.

Lemma partition_loop_S f cs' v k k_max b :
  partition_loop (S f) (S cs') v k k_max b =
  if k <? k_max then
    let w := get_row b v k in
    if nthn (b_lab b) w =? cs' then
      partition_loop f (S cs') v (S k) k_max (set_deg b cs' v (S (get_deg b cs' v)))
    else
      let k_max' := k_max - 1 in
      partition_loop f (S cs') v k k_max' (set_row (set_row b v k (get_row b v k_max')) v k_max' w)
  else b.
Proof. cbn [partition_loop]. rewrite Nat.sub_succ, Nat.sub_0_r. reflexivity. Qed.

Lemma partition_ok_S f cs' v k k_max b :
  partition_ok (S f) (S cs') v k k_max b =
  if k <? k_max then
    in_row b v k &&
    (let w := get_row b v k in
     in_lab b w &&
     (if nthn (b_lab b) w =? cs' then
        in_deg b cs' v && partition_ok f (S cs') v (S k) k_max (set_deg b cs' v (S (get_deg b cs' v)))
      else
        let k_max' := k_max - 1 in
        in_row b v k_max' &&
        partition_ok f (S cs') v k k_max' (set_row (set_row b v k (get_row b v k_max')) v k_max' w)))
  else true.
Proof. cbn [partition_ok]. rewrite Nat.sub_succ, Nat.sub_0_r. reflexivity. Qed.

(** [b3] differs from [b2] only in row v and in deg[cs'][v]. *)
Record part_inv (cs' v : nat) (b2 b3 : box) : Prop := {
  pi_shape : shape b3;
  pi_ns : b_ns b3 = b_ns b2;
  pi_lab : b_lab b3 = b_lab b2;
  pi_sub : b_sub b3 = b_sub b2;
  pi_deg_other : forall m, m <> cs' -> nthl (b_deg b3) m = nthl (b_deg b2) m;
  pi_deg_v : forall x, x <> v -> get_deg b3 cs' x = get_deg b2 cs' x;
  pi_rows_other : forall x, x <> v -> nthl (b_rows b3) x = nthl (b_rows b2) x }.

(** Loop invariant of [while k < k_max] on row v with window [m]: the entries before k satisfy the test,
    those from k_max to the end of the window do not, deg[cs'][v] = k. *)
Record part_row (cs' v m : nat) (b2 b3 : box) (k k_max : nat) : Prop := {
  pr_perm : perm_within m (nthl (b_rows b2) v) (nthl (b_rows b3) v);
  pr_deg : get_deg b3 cs' v = k;
  pr_k : k <= k_max <= m;
  pr_lo : forall i, i < k -> nthn (b_lab b2) (nthn (nthl (b_rows b3) v) i) = cs';
  pr_hi : forall i, k_max <= i < m -> nthn (b_lab b2) (nthn (nthl (b_rows b3) v) i) <> cs' }.

Lemma partition_loop_spec cs' v m b2 :
  cs' <= K -> v < nn -> m <= length (nthl (b_rows b2) v) ->
  (forall w, In w (firstn m (nthl (b_rows b2) v)) -> w < nn) ->
  forall fuel k k_max b3, k_max - k <= fuel ->
  part_inv cs' v b2 b3 -> part_row cs' v m b2 b3 k k_max ->
  partition_ok fuel (S cs') v k k_max b3 = true /\
  exists kf, part_inv cs' v b2 (partition_loop fuel (S cs') v k k_max b3) /\
             part_row cs' v m b2 (partition_loop fuel (S cs') v k k_max b3) kf kf.
Proof.
  intros Hc Hv Hm Hw. induction fuel as [|f IH]; intros k k_max b3 Hf PI PR.
  - pose proof (pr_k _ _ _ _ _ _ _ PR) as Hk. assert (k_max = k) by lia. subst k_max.
    split; [reflexivity|]. exists k. split; assumption.
  - pose proof (pr_k _ _ _ _ _ _ _ PR) as Hk.
    pose proof (pi_shape _ _ _ _ PI) as Sh.
    rewrite partition_ok_S, partition_loop_S.
    destruct (Nat.ltb_spec k k_max) as [Lk|Lk].
    2:{ assert (k_max = k) by lia. subst k_max. split; [reflexivity|]. exists k. split; assumption. }
    cbv zeta.
    pose proof (pr_perm _ _ _ _ _ _ _ PR) as PW.
    assert (Hlen : length (nthl (b_rows b3) v) = length (nthl (b_rows b2) v)).
    { apply Permutation_length. eapply perm_within_perm. exact PW. }
    set (r3 := nthl (b_rows b3) v) in *.
    assert (Hwin : forall i, i < m -> nthn r3 i < nn).
    { intros i Hi. apply Hw. destruct PW as [P _]. eapply Permutation_in; [exact P|].
      apply In_firstn_nth. exists i. split; [exact Hi|]. split; [lia|reflexivity]. }
    assert (Gr : in_row b3 v k = true).
    { unfold in_row. rewrite (sh_rows _ Sh). fold r3. apply andb_true_iff. split; apply Nat.ltb_lt; lia. }
    change (get_row b3 v k) with (nthn r3 k). change (get_row b3 v (k_max - 1)) with (nthn r3 (k_max - 1)).
    assert (Gl : in_lab b3 (nthn r3 k) = true).
    { unfold in_lab. rewrite (sh_lab _ Sh). apply Nat.ltb_lt. apply Hwin. lia. }
    rewrite Gr, Gl. cbn [andb]. rewrite (pi_lab _ _ _ _ PI).
    destruct (Nat.eqb_spec (nthn (b_lab b2) (nthn r3 k)) cs') as [Et|Et].
    + (* counted *)
      assert (Gd : in_deg b3 cs' v = true).
      { unfold in_deg. rewrite (sh_deg _ Sh), (sh_degl _ Sh cs' Hc).
        apply andb_true_iff. split; apply Nat.ltb_lt; lia. }
      rewrite Gd. cbn [andb]. apply IH; [lia| |].
      * split; bx.
        -- apply shape_set_deg. exact Sh.
        -- exact (pi_ns _ _ _ _ PI).
        -- exact (pi_lab _ _ _ _ PI).
        -- exact (pi_sub _ _ _ _ PI).
        -- intros m0 Hm0. rewrite nthl_upd. destruct (Nat.eqb_spec m0 cs'); [contradiction|].
           apply (pi_deg_other _ _ _ _ PI m0 Hm0).
        -- intros x Hx. unfold get_deg at 1. bx. rewrite nthl_upd, Nat.eqb_refl, (sh_deg _ Sh).
           destruct (Nat.ltb_spec cs' (S K)); [|lia]. cbn [andb]. rewrite nthn_upd.
           destruct (Nat.eqb_spec x v); [contradiction|]. cbn [andb].
           apply (pi_deg_v _ _ _ _ PI x Hx).
        -- exact (pi_rows_other _ _ _ _ PI).
      * split; bx; fold r3.
        -- exact PW.
        -- unfold get_deg at 1. bx. rewrite nthl_upd, Nat.eqb_refl, (sh_deg _ Sh).
           destruct (Nat.ltb_spec cs' (S K)); [|lia]. cbn [andb].
           rewrite nthn_upd, Nat.eqb_refl, (sh_degl _ Sh cs' Hc).
           destruct (Nat.ltb_spec v nn); [|lia]. cbn [andb]. rewrite (pr_deg _ _ _ _ _ _ _ PR). reflexivity.
        -- lia.
        -- intros i Hi. destruct (Nat.eq_dec i k) as [->|Ne]; [exact Et|].
           apply (pr_lo _ _ _ _ _ _ _ PR). lia.
        -- exact (pr_hi _ _ _ _ _ _ _ PR).
    + (* swapped to the end of the window *)
      assert (Gr' : in_row b3 v (k_max - 1) = true).
      { unfold in_row. rewrite (sh_rows _ Sh). fold r3. apply andb_true_iff. split; apply Nat.ltb_lt; lia. }
      rewrite Gr'. cbn [andb].
      set (r3' := upd (upd r3 k (nthn r3 (k_max - 1))) (k_max - 1) (nthn r3 k)).
      set (b3' := set_row (set_row b3 v k (nthn r3 (k_max - 1))) v (k_max - 1) (nthn r3 k)).
      assert (Er : nthl (b_rows b3') v = r3').
      { unfold b3'. bx. rewrite nthl_upd, Nat.eqb_refl, upd_length, (sh_rows _ Sh).
        destruct (Nat.ltb_spec v nn); [|lia]. cbn [andb].
        rewrite nthl_upd, Nat.eqb_refl, (sh_rows _ Sh).
        destruct (Nat.ltb_spec v nn); [|lia]. cbn [andb]. reflexivity. }
      assert (Hr3' : forall i, nthn r3' i = if i =? k_max - 1 then nthn r3 k
                                           else if i =? k then nthn r3 (k_max - 1) else nthn r3 i).
      { intros i. unfold r3'. rewrite nthn_upd, upd_length.
        destruct (Nat.eqb_spec i (k_max - 1)) as [->|N1].
        - destruct (Nat.ltb_spec (k_max - 1) (length r3)); [reflexivity|lia].
        - cbn [andb]. rewrite nthn_upd. destruct (Nat.eqb_spec i k) as [->|N2]; [|reflexivity].
          destruct (Nat.ltb_spec k (length r3)); [reflexivity|lia]. }
      apply IH; [lia| |].
      * unfold b3'. split; bx.
        -- apply shape_set_row, shape_set_row. exact Sh.
        -- exact (pi_ns _ _ _ _ PI).
        -- exact (pi_lab _ _ _ _ PI).
        -- exact (pi_sub _ _ _ _ PI).
        -- exact (pi_deg_other _ _ _ _ PI).
        -- exact (pi_deg_v _ _ _ _ PI).
        -- intros x Hx. rewrite nthl_upd. destruct (Nat.eqb_spec x v); [contradiction|]. cbn [andb].
           rewrite nthl_upd. destruct (Nat.eqb_spec x v); [contradiction|]. cbn [andb].
           apply (pi_rows_other _ _ _ _ PI x Hx).
      * split; rewrite ?Er.
        -- eapply perm_within_trans; [exact PW|]. unfold r3'. apply perm_within_swap; lia.
        -- unfold b3', get_deg. bx. exact (pr_deg _ _ _ _ _ _ _ PR).
        -- lia.
        -- intros i Hi. rewrite Hr3'.
           destruct (Nat.eqb_spec i (k_max - 1)); [lia|]. destruct (Nat.eqb_spec i k); [lia|].
           apply (pr_lo _ _ _ _ _ _ _ PR i Hi).
        -- intros i Hi. rewrite Hr3'.
           destruct (Nat.eqb_spec i (k_max - 1)); [exact Et|]. destruct (Nat.eqb_spec i k); [lia|].
           apply (pr_hi _ _ _ _ _ _ _ PR i). lia.
Qed.

(** At the exit of the while loop the first deg[cs'][v] entries of row v are exactly the entries of the
    window that pass the label test. *)
Lemma part_row_final cs' v m b2 b3 kf :
  part_row cs' v m b2 b3 kf kf ->
  kf <= m /\
  forall w, In w (firstn kf (nthl (b_rows b3) v)) <->
            In w (firstn m (nthl (b_rows b2) v)) /\ nthn (b_lab b2) w = cs'.
Proof.
  intros PR. pose proof (pr_k _ _ _ _ _ _ _ PR) as Hk. split; [lia|].
  destruct (pr_perm _ _ _ _ _ _ _ PR) as [P _]. intros w. split.
  - intros H. apply In_firstn_nth in H. destruct H as [i [Hi [Hl E]]]. split.
    + eapply Permutation_in; [exact P|]. apply In_firstn_nth. exists i. split; [lia|]. split; assumption.
    + rewrite <- E. apply (pr_lo _ _ _ _ _ _ _ PR i Hi).
  - intros [H Hlab]. apply (Permutation_in _ (Permutation_sym P)) in H.
    apply In_firstn_nth in H. destruct H as [i [Hi [Hl E]]].
    apply In_firstn_nth. exists i. split; [|split; assumption].
    destruct (Nat.lt_ge_cases i kf) as [L|L]; [exact L|]. exfalso.
    apply (pr_hi _ _ _ _ _ _ _ PR i ltac:(lia)). rewrite E. exact Hlab.
Qed.

Definition part_step (cs' : nat) (b : box) (j : nat) : box :=
  let v := get_sub b cs' j in
  partition_loop (get_deg b (S cs') v) (S cs') v 0 (get_deg b (S cs') v) b.

Definition part_step_ok (cs' : nat) (b : box) (j : nat) : bool :=
  in_sub b cs' j &&
  (let v := get_sub b cs' j in
   in_ptr b v && in_deg b (S cs') v &&
   partition_ok (get_deg b (S cs') v) (S cs') v 0 (get_deg b (S cs') v) b).

(** State [b2] after the windows of the nodes [Lj] (a prefix of the selected list [L]) have been
    partitioned; [b] is the state at the beginning of the iteration, [b1] the state after the selection. *)
Record part_outer (cs' : nat) (b b1 : box) (L Lj : list nat) (b2 : box) : Prop := {
  po_shape : shape b2;
  po_ns : b_ns b2 = b_ns b1;
  po_lab : b_lab b2 = b_lab b1;
  po_sub : b_sub b2 = b_sub b1;
  po_deg_other : forall m, m <> cs' -> nthl (b_deg b2) m = nthl (b_deg b1) m;
  po_deg_todo : forall x, ~ In x Lj -> get_deg b2 cs' x = get_deg b1 cs' x;
  po_rows_todo : forall x, ~ In x Lj -> nthl (b_rows b2) x = nthl (b_rows b) x;
  po_rows_done : forall x, In x Lj ->
     perm_within (get_deg b (S cs') x) (nthl (b_rows b) x) (nthl (b_rows b2) x);
  po_deg_done : forall x, In x Lj -> get_deg b2 cs' x <= get_deg b (S cs') x;
  po_win_done : forall x w, In x Lj ->
     (In w (firstn (get_deg b2 cs' x) (nthl (b_rows b2) x)) <->
      In w (firstn (get_deg b (S cs') x) (nthl (b_rows b) x)) /\ In w L) }.

Lemma partition_phase cs' b b1 u : dag_wf -> inv (S cs') b -> In u (subl b (S cs')) ->
  let L := firstn (get_deg b (S cs') u) (nthl (b_rows b) u) in
  sel_inv cs' b L b1 ->
  fold_chk (part_step_ok cs') (part_step cs') (seq 0 (nthn (b_ns b1) cs')) b1 = true /\
  part_outer cs' b b1 L L (fold_left (part_step cs') (seq 0 (nthn (b_ns b1) cs')) b1).
Proof.
  intros W I Hu L SI.
  destruct (window_facts _ _ _ W I Hu) as [HLnd [HLlen [HLM [Hdl HLin]]]]. fold L in HLnd, HLlen, HLM, HLin.
  pose proof (inv_lvl _ _ I) as Hlvl.
  rewrite (si_ns _ _ _ _ SI).
  replace (part_outer cs' b b1 L L) with (part_outer cs' b b1 L (firstn (length L) L))
    by (rewrite firstn_all; reflexivity).
  apply (fold_seq_chk (fun j b2 => part_outer cs' b b1 L (firstn j L) b2)).
  - split; try reflexivity.
    + exact (si_shape _ _ _ _ SI).
    + intros x _. rewrite (si_rows _ _ _ _ SI). reflexivity.
    + intros x [].
    + intros x [].
    + intros x w [].
  - intros j b2 Hj PO.
    pose proof (po_shape _ _ _ _ _ _ PO) as Sh.
    set (v := nthn L j).
    assert (Ev : get_sub b2 cs' j = v).
    { unfold get_sub, nthn. rewrite (po_sub _ _ _ _ _ _ PO).
      rewrite <- (nth_firstn_lt (nthl (b_sub b1) cs') j (length L) 0 Hj).
      rewrite (si_sub _ _ _ _ SI). reflexivity. }
    assert (HvL : In v L) by (apply nth_In; exact Hj).
    destruct (HLin v HvL) as [HvS [_ [Hvn Hvl]]].
    rewrite (firstn_S_nth L j 0 Hj). fold (nthn L j). fold v.
    assert (Hnin : ~ In v (firstn j L)).
    { assert (ND : NoDup (firstn (S j) L)) by (apply NoDup_firstn; exact HLnd).
      rewrite (firstn_S_nth L j 0 Hj) in ND. fold (nthn L j) in ND. fold v in ND.
      apply NoDup_remove_2 in ND. rewrite app_nil_r in ND. exact ND. }
    assert (Edeg : forall x, get_deg b2 (S cs') x = get_deg b (S cs') x).
    { intros x. unfold get_deg. rewrite (po_deg_other _ _ _ _ _ _ PO) by lia.
      rewrite (si_deg_other _ _ _ _ SI) by lia. reflexivity. }
    assert (Erow : nthl (b_rows b2) v = nthl (b_rows b) v) by (apply (po_rows_todo _ _ _ _ _ _ PO); exact Hnin).
    set (m := get_deg b (S cs') v).
    assert (Hm : m <= length (nthl (b_rows b2) v)).
    { rewrite Erow, (inv_row_length (S cs')) by exact I. apply (inv_deg _ _ I v HvS). }
    assert (Hw : forall w, In w (firstn m (nthl (b_rows b2) v)) -> w < nn).
    { intros w Hin. rewrite Erow in Hin. apply (inv_win _ _ I v w HvS) in Hin.
      apply (inv_lt _ _ I w). tauto. }
    assert (PI0 : part_inv cs' v b2 b2) by (split; auto).
    assert (PR0 : part_row cs' v m b2 b2 0 m).
    { split.
      - apply perm_within_refl.
      - rewrite (po_deg_todo _ _ _ _ _ _ PO v Hnin). apply (si_deg _ _ _ _ SI v HvL).
      - lia.
      - intros i Hi. lia.
      - intros i Hi. lia. }
    destruct (partition_loop_spec cs' v m b2 ltac:(lia) Hvn Hm Hw m 0 m b2 ltac:(lia) PI0 PR0)
      as [Hok [kf [PI PR]]].
    unfold part_step_ok, part_step. cbv zeta. rewrite Ev, Edeg. fold m.
    set (bf := partition_loop m (S cs') v 0 m b2) in *.
    destruct (part_row_final _ _ _ _ _ _ PR) as [Hkf Hset].
    pose proof (pr_deg _ _ _ _ _ _ _ PR) as Ekf.
    (* the label test on the window is membership in L *)
    assert (Htest : forall w, In w (firstn m (nthl (b_rows b) v)) -> (nthn (b_lab b2) w = cs' <-> In w L)).
    { intros w Hin. apply (inv_win _ _ I v w HvS) in Hin. destruct Hin as [_ HwS].
      rewrite (po_lab _ _ _ _ _ _ PO), (si_lab _ _ _ _ SI w).
      destruct (memn w L) eqn:E.
      - apply memn_In in E. tauto.
      - apply memn_false in E. rewrite (inv_lab_in _ _ I w HwS). split; [lia|contradiction]. }
    split.
    + unfold in_sub, in_deg, in_ptr.
      rewrite Hok, (sh_sub _ Sh), (sh_deg _ Sh), (sh_rows _ Sh), (sh_degl _ Sh (S cs')) by lia.
      pose proof (sh_subl _ Sh cs' ltac:(lia)).
      repeat (apply andb_true_iff; split); try reflexivity; apply Nat.ltb_lt; lia.
    + split.
      * exact (pi_shape _ _ _ _ PI).
      * rewrite (pi_ns _ _ _ _ PI). exact (po_ns _ _ _ _ _ _ PO).
      * rewrite (pi_lab _ _ _ _ PI). exact (po_lab _ _ _ _ _ _ PO).
      * rewrite (pi_sub _ _ _ _ PI). exact (po_sub _ _ _ _ _ _ PO).
      * intros m0 Hm0. rewrite (pi_deg_other _ _ _ _ PI m0 Hm0). apply (po_deg_other _ _ _ _ _ _ PO m0 Hm0).
      * intros x Hx. assert (x <> v) by (intros ->; apply Hx; apply in_or_app; right; left; reflexivity).
        rewrite (pi_deg_v _ _ _ _ PI x) by assumption. apply (po_deg_todo _ _ _ _ _ _ PO).
        intros Hin. apply Hx. apply in_or_app. left. exact Hin.
      * intros x Hx. assert (x <> v) by (intros ->; apply Hx; apply in_or_app; right; left; reflexivity).
        rewrite (pi_rows_other _ _ _ _ PI x) by assumption. apply (po_rows_todo _ _ _ _ _ _ PO).
        intros Hin. apply Hx. apply in_or_app. left. exact Hin.
      * intros x Hx. apply in_app_or in Hx. destruct Hx as [Hx|[<-|[]]].
        -- assert (x <> v) by (intros ->; contradiction).
           rewrite (pi_rows_other _ _ _ _ PI x) by assumption. apply (po_rows_done _ _ _ _ _ _ PO x Hx).
        -- fold m. rewrite <- Erow. exact (pr_perm _ _ _ _ _ _ _ PR).
      * intros x Hx. apply in_app_or in Hx. destruct Hx as [Hx|[<-|[]]].
        -- assert (x <> v) by (intros ->; contradiction).
           rewrite (pi_deg_v _ _ _ _ PI x) by assumption. apply (po_deg_done _ _ _ _ _ _ PO x Hx).
        -- fold m. lia.
      * intros x w Hx. apply in_app_or in Hx. destruct Hx as [Hx|[<-|[]]].
        -- assert (x <> v) by (intros ->; contradiction).
           rewrite (pi_deg_v _ _ _ _ PI x), (pi_rows_other _ _ _ _ PI x) by assumption.
           apply (po_win_done _ _ _ _ _ _ PO x w Hx).
        -- fold m. rewrite Ekf, Hset, Erow. split.
           ++ intros [Hin Hl]. split; [exact Hin|]. apply (Htest w Hin). exact Hl.
           ++ intros [Hin Hl]. split; [exact Hin|]. apply (Htest w Hin). exact Hl.
Qed.

(** * 4. Last inner loop: the labels of the selected nodes are restored *)

Definition restore_step (cs' : nat) (b : box) (j : nat) : box := set_lab b (get_sub b cs' j) (S cs').
Definition restore_ok (cs' : nat) (b : box) (j : nat) : bool := in_sub b cs' j && in_lab b (get_sub b cs' j).

Record rest_inv (cs' : nat) (b4 : box) (Lj : list nat) (b5 : box) : Prop := {
  ri_shape : shape b5;
  ri_ns : b_ns b5 = b_ns b4;
  ri_sub : b_sub b5 = b_sub b4;
  ri_deg : b_deg b5 = b_deg b4;
  ri_rows : b_rows b5 = b_rows b4;
  ri_lab : forall x, nthn (b_lab b5) x = if memn x Lj then S cs' else nthn (b_lab b4) x }.

Lemma restore_phase cs' b4 L : shape b4 -> cs' < K ->
  nthn (b_ns b4) cs' = length L -> firstn (length L) (nthl (b_sub b4) cs') = L ->
  (forall v, In v L -> v < nn) ->
  fold_chk (restore_ok cs') (restore_step cs') (seq 0 (nthn (b_ns b4) cs')) b4 = true /\
  rest_inv cs' b4 L (fold_left (restore_step cs') (seq 0 (nthn (b_ns b4) cs')) b4).
Proof.
  intros Sh4 Hc Hns Hsub Hlt.
  assert (HL : length L <= length (nthl (b_sub b4) cs')).
  { pose proof (f_equal (@length nat) Hsub) as E. rewrite firstn_length in E. lia. }
  rewrite Hns.
  replace (rest_inv cs' b4 L) with (rest_inv cs' b4 (firstn (length L) L)) by (rewrite firstn_all; reflexivity).
  apply (fold_seq_chk (fun j b5 => rest_inv cs' b4 (firstn j L) b5)).
  - split; auto.
  - intros j b5 Hj RI. pose proof (ri_shape _ _ _ _ RI) as Sh.
    set (v := nthn L j).
    assert (Ev : get_sub b5 cs' j = v).
    { unfold get_sub, nthn. rewrite (ri_sub _ _ _ _ RI).
      rewrite <- (nth_firstn_lt (nthl (b_sub b4) cs') j (length L) 0 Hj). rewrite Hsub. reflexivity. }
    assert (Hvn : v < nn) by (apply Hlt; apply nth_In; exact Hj).
    unfold restore_ok, restore_step. rewrite Ev. split.
    + unfold in_sub, in_lab. rewrite (sh_sub _ Sh), (sh_lab _ Sh), (ri_sub _ _ _ _ RI).
      repeat (apply andb_true_iff; split); apply Nat.ltb_lt; lia.
    + rewrite (firstn_S_nth L j 0 Hj). fold (nthn L j). fold v. split; bx.
      * apply shape_set_lab. exact Sh.
      * exact (ri_ns _ _ _ _ RI).
      * exact (ri_sub _ _ _ _ RI).
      * exact (ri_deg _ _ _ _ RI).
      * exact (ri_rows _ _ _ _ RI).
      * intros x. rewrite nthn_upd, (sh_lab _ Sh), memn_app. cbn [memn existsb].
        rewrite (ri_lab _ _ _ _ RI x).
        destruct (Nat.eqb_spec x v) as [->|Ne].
        -- destruct (Nat.ltb_spec v nn); [|lia]. cbn [andb]. rewrite orb_true_r. reflexivity.
        -- cbn [andb orb]. rewrite orb_false_r. reflexivity.
Qed.

(** * 5. One iteration of the loop over the nodes of a level, and the whole recursion *)

Definition sel_run (cs' : nat) (b : box) (u : nat) : box :=
  fold_left (select_step (S cs') u) (seq 0 (get_deg (set_ns b cs' 0) (S cs') u)) (set_ns b cs' 0).
Definition part_run (cs' : nat) (b1 : box) : box :=
  fold_left (part_step cs') (seq 0 (nthn (b_ns b1) cs')) b1.
Definition rest_run (cs' : nat) (b4 : box) : box :=
  fold_left (restore_step cs') (seq 0 (nthn (b_ns b4) cs')) b4.

(** The body of [for i in range(box.ns[clique_size])], with clique_size = S cs'. *)
Definition body (cs' : nat) (st : nat * box) (i : nat) : nat * box :=
  let (total, b) := st in
  let u := get_sub b (S cs') i in
  let b3 := part_run cs' (sel_run cs' b u) in
  let (c, b4) := count_cliques_from_dag cs' b3 in
  (total + c, rest_run cs' b4).

Lemma ccfd_unfold j b :
  count_cliques_from_dag (S (S (S j))) b =
  fold_left (body (S (S j))) (seq 0 (nthn (b_ns b) (S (S (S j))))) (0, b).
Proof. reflexivity. Qed.

(** The model instrumented with the bounds check of every array access: [true] when every index used
    by the run is smaller than the length of the array it indexes. *)
Definition body_ok (cs' : nat) (rec_ok : box -> bool) (st : nat * box) (i : nat) : bool :=
  let b := snd st in
  in_sub b (S cs') i &&
  (let u := get_sub b (S cs') i in
   in_ns b cs' && in_ptr b u && in_deg b (S cs') u &&
   fold_chk (select_ok (S cs') u) (select_step (S cs') u)
            (seq 0 (get_deg (set_ns b cs' 0) (S cs') u)) (set_ns b cs' 0) &&
   (let b1 := sel_run cs' b u in
    fold_chk (part_step_ok cs') (part_step cs') (seq 0 (nthn (b_ns b1) cs')) b1 &&
    (let b3 := part_run cs' b1 in
     rec_ok b3 &&
     (let b4 := snd (count_cliques_from_dag cs' b3) in
      fold_chk (restore_ok cs') (restore_step cs') (seq 0 (nthn (b_ns b4) cs')) b4)))).

Fixpoint ccfd_ok (cs : nat) (b : box) : bool :=
  match cs with
  | O => true
  | S O => true
  | S (S O) =>
      in_ns b 2 &&
      forallb (fun i => in_sub b 2 i && in_deg b 2 (get_sub b 2 i)) (seq 0 (nthn (b_ns b) 2))
  | S cs' =>
      in_ns b cs && fold_chk (body_ok cs' (ccfd_ok cs')) (body cs') (seq 0 (nthn (b_ns b) cs)) (0, b)
  end.

Lemma ccfd_ok_unfold j b :
  ccfd_ok (S (S (S j))) b =
  in_ns b (S (S (S j))) &&
  fold_chk (body_ok (S (S j)) (ccfd_ok (S (S j)))) (body (S (S j)))
           (seq 0 (nthn (b_ns b) (S (S (S j))))) (0, b).
Proof. reflexivity. Qed.

(** The state in which the recursive call is entered satisfies the invariant of level cs-1, with the
    out-neighbours of u inside the current level (in row order) as node list. *)
Lemma level_step_invariant cs' b u : dag_wf -> 2 <= cs' -> inv (S cs') b -> In u (subl b (S cs')) ->
  let L := firstn (get_deg b (S cs') u) (nthl (b_rows b) u) in
  let b3 := part_run cs' (sel_run cs' b u) in
  inv cs' b3 /\ subl b3 cs' = L /\ Permutation L (inter (row d u) (subl b (S cs'))).
Proof.
  intros W H2 I Hu L b3.
  destruct (window_facts _ _ _ W I Hu) as [HLnd [HLlen [HLM [Hdl HLin]]]]. fold L in HLnd, HLlen, HLM, HLin.
  pose proof (inv_lvl _ _ I) as Hlvl.
  destruct (select_phase cs' b u W I Hu) as [_ SI]. cbv zeta in SI. fold (sel_run cs' b u) in SI. fold L in SI.
  destruct (partition_phase cs' b _ u W I Hu SI) as [_ PO]. fold (part_run cs' (sel_run cs' b u)) in PO.
  fold L in PO. fold b3 in PO.
  pose proof (po_shape _ _ _ _ _ _ PO) as Sh3.
  assert (ES : subl b3 cs' = L).
  { unfold subl. rewrite (po_ns _ _ _ _ _ _ PO), (po_sub _ _ _ _ _ _ PO), (si_ns _ _ _ _ SI).
    apply (si_sub _ _ _ _ SI). }
  split; [|split; [exact ES|apply (inv_win_perm (S cs')); assumption]].
  assert (Elab : forall x, nthn (b_lab b3) x = if memn x L then cs' else nthn (b_lab b) x).
  { intros x. rewrite (po_lab _ _ _ _ _ _ PO). apply (si_lab _ _ _ _ SI). }
  split; rewrite ?ES.
  - exact Sh3.
  - lia.
  - rewrite (po_ns _ _ _ _ _ _ PO), (si_ns _ _ _ _ SI).
    pose proof (sh_subl _ Sh3 cs' ltac:(lia)). lia.
  - exact HLnd.
  - intros v Hv. apply (HLin v Hv).
  - intros v Hv. rewrite Elab. apply memn_In in Hv. rewrite Hv. reflexivity.
  - intros v Hvn Hv. rewrite Elab. apply memn_false in Hv. rewrite Hv.
    destruct (in_dec Nat.eq_dec v (subl b (S cs'))) as [Hin|Hout].
    + rewrite (inv_lab_in _ _ I v Hin). lia.
    + pose proof (inv_lab_out _ _ I v Hvn Hout). lia.
  - intros v. destruct (in_dec Nat.eq_dec v L) as [Hin|Hout].
    + eapply perm_trans; [|apply (inv_rows _ _ I v)].
      eapply perm_within_perm. apply (po_rows_done _ _ _ _ _ _ PO v Hin).
    + rewrite (po_rows_todo _ _ _ _ _ _ PO v Hout). apply (inv_rows _ _ I v).
  - intros v Hv. destruct (HLin v Hv) as [HvS _].
    pose proof (po_deg_done _ _ _ _ _ _ PO v Hv). pose proof (inv_deg _ _ I v HvS). lia.
  - intros v w Hv. destruct (HLin v Hv) as [HvS _].
    rewrite (po_win_done _ _ _ _ _ _ PO v w Hv). rewrite (inv_win _ _ I v w HvS). split.
    + tauto.
    + intros [Hr Hw]. split; [|exact Hw]. split; [exact Hr|]. apply (HLin w Hw).
Qed.

Lemma iter_spec cs' j b i :
  dag_wf -> 2 <= cs' ->
  (forall b3, inv cs' b3 ->
     ccfd_ok cs' b3 = true /\
     fst (count_cliques_from_dag cs' b3) = cliques_rec d j (subl b3 cs') /\
     frame cs' b3 (snd (count_cliques_from_dag cs' b3))) ->
  inv (S cs') b -> i < nthn (b_ns b) (S cs') ->
  forall tot,
  body_ok cs' (ccfd_ok cs') (tot, b) i = true /\
  exists c b', body cs' (tot, b) i = (tot + c, b') /\ frame (S cs') b b' /\
               c = cliques_rec d j (inter (row d (get_sub b (S cs') i)) (subl b (S cs'))).
Proof.
  intros W H2 Hrec I Hi tot.
  pose proof (inv_lvl _ _ I) as Hlvl. pose proof (inv_shape _ _ I) as Sh.
  pose proof (inv_ns _ _ I) as Hns.
  set (u := get_sub b (S cs') i).
  assert (Hu : In u (subl b (S cs'))).
  { unfold subl. apply In_firstn_nth. exists i. split; [exact Hi|]. split; [lia|reflexivity]. }
  destruct (window_facts _ _ _ W I Hu) as [HLnd [HLlen [HLM [Hdl HLin]]]].
  destruct (select_phase cs' b u W I Hu) as [Ok1 SI]. cbv zeta in Ok1, SI. fold (sel_run cs' b u) in SI.
  destruct (partition_phase cs' b _ u W I Hu SI) as [Ok2 PO]. fold (part_run cs' (sel_run cs' b u)) in PO.
  destruct (level_step_invariant cs' b u W H2 I Hu) as [I3 [ES HP]]. cbv zeta in I3, ES, HP.
  set (L := firstn (get_deg b (S cs') u) (nthl (b_rows b) u)) in *.
  set (b1 := sel_run cs' b u) in *.
  set (b3 := part_run cs' b1) in *.
  destruct (Hrec b3 I3) as [Ok3 [Ec F34]].
  assert (Eb : body cs' (tot, b) i =
               (tot + fst (count_cliques_from_dag cs' b3), rest_run cs' (snd (count_cliques_from_dag cs' b3)))).
  { unfold body. cbv zeta. fold u. fold b1. fold b3.
    destruct (count_cliques_from_dag cs' b3) as [c b4]. reflexivity. }
  set (b4 := snd (count_cliques_from_dag cs' b3)) in *.
  pose proof (fr_shape _ _ _ F34) as Sh4.
  assert (Ens4 : nthn (b_ns b4) cs' = length L).
  { rewrite (fr_ns _ _ _ F34 cs') by lia. rewrite (po_ns _ _ _ _ _ _ PO). apply (si_ns _ _ _ _ SI). }
  assert (Esub4 : firstn (length L) (nthl (b_sub b4) cs') = L).
  { rewrite (fr_sub _ _ _ F34 cs') by lia. rewrite (po_sub _ _ _ _ _ _ PO). apply (si_sub _ _ _ _ SI). }
  destruct (restore_phase cs' b4 L Sh4 ltac:(lia) Ens4 Esub4 (fun v Hv => proj1 (proj2 (proj2 (HLin v Hv)))))
    as [Ok4 RI].
  fold (rest_run cs' b4) in RI. set (b5 := rest_run cs' b4) in *.
  split.
  - unfold body_ok. cbv zeta. cbn [snd]. fold u. fold b1. fold b3. fold b4.
    rewrite Ok1, Ok2, Ok3, Ok4. unfold in_sub, in_ns, in_deg, in_ptr.
    rewrite (sh_sub _ Sh), (sh_ns _ Sh), (sh_deg _ Sh), (sh_rows _ Sh), (sh_degl _ Sh (S cs')) by lia.
    pose proof (inv_lt _ _ I u Hu).
    repeat (apply andb_true_iff; split); try reflexivity; apply Nat.ltb_lt; lia.
  - exists (fst (count_cliques_from_dag cs' b3)), b5. split; [exact Eb|]. split.
    + (* frame *)
      assert (Elab3 : forall x, nthn (b_lab b3) x = if memn x L then cs' else nthn (b_lab b) x).
      { intros x. rewrite (po_lab _ _ _ _ _ _ PO). apply (si_lab _ _ _ _ SI). }
      split.
      * exact (ri_shape _ _ _ _ RI).
      * intros x. rewrite (ri_lab _ _ _ _ RI x), (fr_lab _ _ _ F34 x), Elab3.
        destruct (memn x L) eqn:E; [|reflexivity]. apply memn_In in E. symmetry. apply (HLin x E).
      * intros m Hm. rewrite (ri_ns _ _ _ _ RI), (fr_ns _ _ _ F34 m) by lia.
        rewrite (po_ns _ _ _ _ _ _ PO). apply (si_ns_other _ _ _ _ SI). lia.
      * intros m Hm. rewrite (ri_sub _ _ _ _ RI), (fr_sub _ _ _ F34 m) by lia.
        rewrite (po_sub _ _ _ _ _ _ PO). apply (si_sub_other _ _ _ _ SI). lia.
      * intros m Hm. rewrite (ri_deg _ _ _ _ RI), (fr_deg _ _ _ F34 m) by lia.
        rewrite (po_deg_other _ _ _ _ _ _ PO) by lia. apply (si_deg_other _ _ _ _ SI). lia.
      * intros v Hv. rewrite (ri_rows _ _ _ _ RI).
        destruct (in_dec Nat.eq_dec v L) as [Hin|Hout].
        -- eapply perm_within_trans; [apply (po_rows_done _ _ _ _ _ _ PO v Hin)|].
           eapply perm_within_mono; [apply (po_deg_done _ _ _ _ _ _ PO v Hin)|].
           apply (fr_rows_in _ _ _ F34 v). rewrite ES. exact Hin.
        -- rewrite (fr_rows_out _ _ _ F34 v) by (rewrite ES; exact Hout).
           rewrite (po_rows_todo _ _ _ _ _ _ PO v Hout). apply perm_within_refl.
      * intros v Hv. rewrite (ri_rows _ _ _ _ RI).
        assert (Hout : ~ In v L) by (intros Hin; apply Hv; apply (HLin v Hin)).
        rewrite (fr_rows_out _ _ _ F34 v) by (rewrite ES; exact Hout).
        apply (po_rows_todo _ _ _ _ _ _ PO v Hout).
    + rewrite Ec, ES. apply cliques_rec_perm. exact HP.
Qed.

(** The whole recursion at level l = j + 2: every bounds check passes, the count is the L1 recursion on
    the current node list, and the final state differs from the initial one only as [frame] allows. *)
Theorem ccfd_main : dag_wf -> forall j b, inv (S (S j)) b ->
  ccfd_ok (S (S j)) b = true /\
  fst (count_cliques_from_dag (S (S j)) b) = cliques_rec d j (subl b (S (S j))) /\
  frame (S (S j)) b (snd (count_cliques_from_dag (S (S j)) b)).
Proof.
  intros W. induction j as [|j IH]; intros b I;
    pose proof (inv_shape _ _ I) as Sh; pose proof (inv_lvl _ _ I) as Hlvl; pose proof (inv_ns _ _ I) as Hns.
  - (* clique_size = 2: sum of the degrees of level 2 *)
    cbn [count_cliques_from_dag ccfd_ok fst snd]. split; [|split].
    + unfold in_ns. rewrite (sh_ns _ Sh). apply andb_true_iff. split; [apply Nat.ltb_lt; lia|].
      apply forallb_forall. intros i Hi. apply in_seq in Hi.
      assert (Hu : In (get_sub b 2 i) (subl b 2)).
      { unfold subl. apply In_firstn_nth. exists i. split; [lia|]. split; [lia|reflexivity]. }
      pose proof (inv_lt _ _ I _ Hu).
      unfold in_sub, in_deg. rewrite (sh_sub _ Sh), (sh_deg _ Sh), (sh_degl _ Sh 2) by lia.
      repeat (apply andb_true_iff; split); apply Nat.ltb_lt; lia.
    + change (fun i => get_deg b 2 (get_sub b 2 i)) with (fun i => get_deg b 2 (nthn (nthl (b_sub b) 2) i)).
      rewrite (map_seq_nth (get_deg b 2) (nthl (b_sub b) 2) _ Hns). fold (subl b 2).
      apply sumn_map_ext_in. intros u Hu.
      rewrite <- (Permutation_length (inv_win_perm 2 b u W I Hu)). symmetry.
      apply (inv_win_length 2); assumption.
    + apply frame_refl. exact Sh.
  - rewrite ccfd_ok_unfold, ccfd_unfold.
    set (cs' := S (S j)) in *.
    set (S0 := subl b (S cs')).
    set (F := fun u => cliques_rec d j (inter (row d u) S0)).
    assert (HlenS : length S0 = nthn (b_ns b) (S cs')) by (unfold S0, subl; apply firstn_length_le; exact Hns).
    destruct (fold_seq_chk
                (fun i (st : nat * box) => frame (S cs') b (snd st) /\ fst st = sumn (map F (firstn i S0)))
                (body_ok cs' (ccfd_ok cs')) (body cs') (nthn (b_ns b) (S cs')) (0, b)) as [Ok [Fr Et]].
    + cbn [fst snd]. split; [apply frame_refl; exact Sh|reflexivity].
    + intros i [tot b'] Hi [Fr Et]. cbn [fst snd] in Fr, Et.
      pose proof (inv_frame _ _ _ I Fr) as I'.
      assert (Hi' : i < nthn (b_ns b') (S cs')) by (rewrite (fr_ns _ _ _ Fr) by lia; exact Hi).
      destruct (iter_spec cs' j b' i W ltac:(unfold cs'; lia) IH I' Hi' tot) as [Ok [c [b'' [Eb [Fr' Ec]]]]].
      split; [exact Ok|]. rewrite Eb. cbn [fst snd]. split; [eapply frame_trans; eassumption|].
      rewrite (frame_subl _ _ _ Fr) in Ec. fold S0 in Ec.
      assert (Eu : get_sub b' (S cs') i = nthn S0 i).
      { unfold get_sub. rewrite (fr_sub _ _ _ Fr) by lia. unfold S0, subl, nthn.
        rewrite nth_firstn_lt by exact Hi. reflexivity. }
      rewrite Eu in Ec.
      rewrite (firstn_S_nth S0 i 0) by lia. fold (nthn S0 i).
      rewrite map_app, sumn_app. cbn [map sumn fold_right]. unfold F at 2. rewrite <- Ec, Et. lia.
    + cbn [fst snd] in Fr, Et. split; [|split].
      * unfold in_ns. rewrite (sh_ns _ Sh), Ok.
        apply andb_true_iff. split; [apply Nat.ltb_lt; lia|reflexivity].
      * rewrite Et, <- HlenS, firstn_all. reflexivity.
      * exact Fr.
Qed.

End Level.

(** * 6. ListingBox.__cinit__ establishes the invariant at level k *)

Definition max_deg (d : graph) : nat := fold_left Nat.max (map (@length nat) d) 0.

Lemma dag_wf_max_deg (d : graph) :
  (forall v, NoDup (row d v)) -> (forall v w, In w (row d v) -> w < length d) -> dag_wf d (max_deg d).
Proof.
  intros Hnd Hlt. split; [exact Hnd|]. split; [exact Hlt|].
  intros v. destruct (Nat.lt_ge_cases v (length d)) as [L|L].
  - apply (proj2 (fold_max_ge (map (@length nat) d) 0)). apply in_map. unfold row. apply nth_In. exact L.
  - rewrite row_overflow by exact L. simpl. lia.
Qed.

Lemma box_init_ns d K m : nthn (b_ns (box_init d K)) m = if m =? K then length d else 0.
Proof.
  unfold box_init. cbv zeta. bx. rewrite nthn_upd, repeat_length.
  destruct (Nat.eqb_spec m K) as [->|Ne].
  - destruct (Nat.ltb_spec K (S K)); [reflexivity|lia].
  - cbn [andb]. unfold nthn. destruct (Nat.lt_ge_cases m (S K)).
    + apply nth_repeat_lt. assumption.
    + apply nth_overflow. rewrite repeat_length. assumption.
Qed.

Lemma box_init_deg d K m : m <= K ->
  nthl (b_deg (box_init d K)) m = if m =? K then map (@length nat) d else repeat 0 (length d).
Proof. intros H. unfold box_init. cbv zeta. bx. unfold nthl. apply nth_map_seq. lia. Qed.

Lemma box_init_sub d K m : m <= K ->
  nthl (b_sub (box_init d K)) m = if m =? K then seq 0 (length d) else repeat 0 (max_deg d).
Proof. intros H. unfold box_init. cbv zeta. bx. unfold nthl. apply nth_map_seq. lia. Qed.

Lemma box_init_shape d K : shape d K (max_deg d) (box_init d K).
Proof.
  split.
  - unfold box_init. cbv zeta. bx. rewrite upd_length, repeat_length. reflexivity.
  - unfold box_init. cbv zeta. bx. apply repeat_length.
  - unfold box_init. cbv zeta. bx. rewrite map_length, seq_length. reflexivity.
  - unfold box_init. cbv zeta. bx. rewrite map_length, seq_length. reflexivity.
  - reflexivity.
  - intros m Hm. rewrite box_init_deg by exact Hm.
    destruct (m =? K); [apply map_length|apply repeat_length].
  - intros m Hm. rewrite box_init_sub by lia. destruct (Nat.eqb_spec m K); [lia|].
    rewrite repeat_length. lia.
Qed.

Lemma subl_init d K : subl (box_init d K) K = seq 0 (length d).
Proof.
  unfold subl. rewrite box_init_ns, box_init_sub, Nat.eqb_refl by lia.
  rewrite <- (seq_length (length d) 0) at 1. apply firstn_all.
Qed.

Theorem inv_init (d : graph) (K : nat) :
  dag_wf d (max_deg d) -> 2 <= K -> inv d K (max_deg d) K (box_init d K).
Proof.
  intros [Hnd [Hlt HM]] HK. split; rewrite ?subl_init.
  - apply box_init_shape.
  - lia.
  - rewrite box_init_ns, box_init_sub, Nat.eqb_refl, seq_length by lia. lia.
  - apply seq_NoDup.
  - intros v Hv. apply in_seq in Hv. lia.
  - intros v Hv. apply in_seq in Hv. unfold box_init. cbv zeta. bx. apply nth_repeat_lt. lia.
  - intros v Hv Hn. exfalso. apply Hn. apply in_seq. lia.
  - intros v. reflexivity.
  - intros v Hv. unfold get_deg. rewrite box_init_deg, Nat.eqb_refl by lia.
    unfold nthn, row.
    change (nth v (map (@length nat) d) 0) with (nth v (map (@length nat) d) (length (@nil nat))).
    rewrite map_nth. lia.
  - intros v w Hv. unfold get_deg. rewrite box_init_deg, Nat.eqb_refl by lia.
    unfold nthn.
    change (nth v (map (@length nat) d) 0) with (nth v (map (@length nat) d) (length (@nil nat))).
    rewrite map_nth.
    change (nthl (b_rows (box_init d K)) v) with (row d v). rewrite firstn_all.
    split; [|tauto]. intros H. split; [exact H|]. apply in_seq. specialize (Hlt v w H). lia.
Qed.

(** * 7. Main theorems *)

(** The invariant holds again when a call returns (and the labels, the node list and the degrees of the
    level are those of the entry state: [frame]). *)
Theorem count_cliques_from_dag_inv (d : graph) (K M l : nat) (b : box) :
  dag_wf d M -> inv d K M l b ->
  frame d K M l b (snd (count_cliques_from_dag l b)) /\ inv d K M l (snd (count_cliques_from_dag l b)).
Proof.
  intros W I. pose proof (inv_lvl _ _ _ _ _ I) as Hl.
  destruct l as [|[|j]]; try lia.
  destruct (ccfd_main d K M W j b I) as [_ [_ F]]. split; [exact F|].
  apply (inv_frame d K M _ b); assumption.
Qed.

Theorem count_cliques_L0_refines_L1 (d : graph) (K M l : nat) (b : box) :
  dag_wf d M -> inv d K M l b ->
  fst (count_cliques_from_dag l b) = cliques_rec d (l - 2) (subl b l).
Proof.
  intros W I. pose proof (inv_lvl _ _ _ _ _ I) as Hl.
  destruct l as [|[|j]]; try lia.
  destruct (ccfd_main d K M W j b I) as [_ [E _]]. rewrite E.
  replace (S (S j) - 2) with j by lia. reflexivity.
Qed.

Theorem count_cliques_from_dag_safe (d : graph) (K M l : nat) (b : box) :
  dag_wf d M -> inv d K M l b -> ccfd_ok l b = true.
Proof.
  intros W I. pose proof (inv_lvl _ _ _ _ _ I) as Hl.
  destruct l as [|[|j]]; try lia.
  destruct (ccfd_main d K M W j b I) as [E _]. exact E.
Qed.

(** From the box built by __cinit__: L0 = L1 on every DAG with duplicate-free, in-range rows. *)
Theorem count_cliques_from_dag_L0_L1 (d : graph) (k : nat) :
  (forall v, NoDup (row d v)) -> (forall v w, In w (row d v) -> w < length d) -> 2 <= k ->
  fst (count_cliques_from_dag k (box_init d k)) = count_cliques_from_dag_L1 d k /\
  ccfd_ok k (box_init d k) = true.
Proof.
  intros Hnd Hlt Hk. pose proof (dag_wf_max_deg d Hnd Hlt) as W.
  pose proof (inv_init d k W Hk) as I. split.
  - rewrite (count_cliques_L0_refines_L1 d k (max_deg d) k _ W I), subl_init. reflexivity.
  - apply (count_cliques_from_dag_safe d k (max_deg d) k _ W I).
Qed.

Lemma get_dag_rows_wf (g : graph) (argsort : list nat) :
  wf_graph g -> (forall u, NoDup (row g u)) -> (forall u v, In v (row g u) -> In u (row g v)) ->
  NoDup argsort -> length argsort = length g ->
  let d := get_dag g (map Z.of_nat argsort) in
  (forall v, NoDup (row d v)) /\ (forall v w, In w (row d v) -> w < length d).
Proof.
  intros Hwf Hnd Hsym Hnda Hlen d.
  destruct (dag_of_get_dag g argsort Hwf Hnd Hsym Hnda Hlen) as [_ [_ HR]]. fold d in HR.
  assert (Hl : length d = length g) by apply get_dag_length.
  split.
  - intros v. destruct (Nat.lt_ge_cases v (length g)) as [L|L].
    + apply (HR v L).
    + rewrite row_overflow by lia. constructor.
  - intros v w H. destruct (Nat.lt_ge_cases v (length g)) as [L|L].
    + apply (HR v L) in H. lia.
    + rewrite row_overflow in H by lia. destruct H.
Qed.

Theorem count_cliques_L0_eq_L1 (g : graph) (k : nat) (argsort : list nat) :
  wf_graph g -> (forall u, NoDup (row g u)) -> (forall u v, In v (row g u) -> In u (row g v)) ->
  NoDup argsort -> length argsort = length g ->
  count_cliques g k argsort = count_cliques_L1 g k argsort.
Proof.
  intros Hwf Hnd Hsym Hnda Hlen. unfold count_cliques, count_cliques_L1.
  destruct (Nat.ltb_spec k 2) as [L|L]; [reflexivity|]. f_equal.
  destruct (get_dag_rows_wf g argsort Hwf Hnd Hsym Hnda Hlen) as [H1 H2].
  apply (count_cliques_from_dag_L0_L1 _ k H1 H2 L).
Qed.

(** count_cliques as coded (ListingBox arrays, in-place reordering of the rows) returns the number of
    k-cliques: same hypotheses as [count_cliques_L1_exact]. *)
Theorem count_cliques_L0_exact (g : graph) (k : nat) (argsort : list nat) :
  wf_graph g -> (forall u, NoDup (row g u)) -> (forall u v, In v (row g u) -> In u (row g v)) ->
  NoDup argsort -> length argsort = length g -> 2 <= k ->
  count_cliques g k argsort = Ok (cliques_spec (adjb g) (length g) k).
Proof.
  intros Hwf Hnd Hsym Hnda Hlen Hk.
  rewrite (count_cliques_L0_eq_L1 g k argsort Hwf Hnd Hsym Hnda Hlen).
  apply count_cliques_L1_exact; assumption.
Qed.

(** Every array access of that run is in range. *)
Theorem count_cliques_safe (g : graph) (k : nat) (argsort : list nat) :
  wf_graph g -> (forall u, NoDup (row g u)) -> (forall u v, In v (row g u) -> In u (row g v)) ->
  NoDup argsort -> length argsort = length g -> 2 <= k ->
  ccfd_ok k (box_init (get_dag g (map Z.of_nat argsort)) k) = true.
Proof.
  intros Hwf Hnd Hsym Hnda Hlen Hk.
  destruct (get_dag_rows_wf g argsort Hwf Hnd Hsym Hnda Hlen) as [H1 H2].
  apply (count_cliques_from_dag_L0_L1 _ k H1 H2 Hk).
Qed.

(** The invariant, spelled out (target of the refinement: the listing of Danisch et al., in place). *)
Theorem inv_meaning (d : graph) (K M l : nat) (b : box) :
  inv d K M l b ->
  let S0 := firstn (nthn (b_ns b) l) (nthl (b_sub b) l) in
  2 <= l <= K /\ nthn (b_ns b) l <= length (nthl (b_sub b) l) /\ NoDup S0 /\
  (forall v, In v S0 -> v < length d /\ nthn (b_lab b) v = l) /\
  (forall v, v < length d -> ~ In v S0 -> l < nthn (b_lab b) v) /\
  (forall v, Permutation (nthl (b_rows b) v) (row d v)) /\
  (forall v, In v S0 ->
     get_deg b l v <= length (nthl (b_rows b) v) /\
     forall w, In w (firstn (get_deg b l v) (nthl (b_rows b) v)) <-> In w (row d v) /\ In w S0).
Proof.
  intros I S0. fold (subl b l) in S0.
  split; [exact (inv_lvl _ _ _ _ _ I)|]. split; [exact (inv_ns _ _ _ _ _ I)|].
  split; [exact (inv_nodup _ _ _ _ _ I)|].
  split; [intros v Hv; split; [exact (inv_lt _ _ _ _ _ I v Hv)|exact (inv_lab_in _ _ _ _ _ I v Hv)]|].
  split; [exact (inv_lab_out _ _ _ _ _ I)|]. split; [exact (inv_rows _ _ _ _ _ I)|].
  intros v Hv. split.
  - rewrite (inv_row_length d K M l b v I). exact (inv_deg _ _ _ _ _ I v Hv).
  - intros w. exact (inv_win _ _ _ _ _ I v w Hv).
Qed.

(** One level step, as a single statement: for the i-th node u of level l+1 the recursive call is
    entered in a state satisfying the invariant of level l whose node list is, up to order, N+(u) /\ S. *)
Theorem level_step_establishes_inv (d : graph) (K M l : nat) (b : box) (i : nat) :
  dag_wf d M -> 2 <= l -> inv d K M (S l) b -> i < nthn (b_ns b) (S l) ->
  let u := get_sub b (S l) i in
  let b3 := part_run l (sel_run l b u) in
  inv d K M l b3 /\ Permutation (subl b3 l) (inter (row d u) (subl b (S l))).
Proof.
  intros W H2 I Hi u b3.
  assert (Hu : In u (subl b (S l))).
  { unfold subl. apply In_firstn_nth. exists i. split; [exact Hi|].
    split; [pose proof (inv_ns _ _ _ _ _ I); lia|reflexivity]. }
  destruct (level_step_invariant d K M l b u W H2 I Hu) as [I3 [ES HP]]. cbv zeta in I3, ES, HP.
  split; [exact I3|]. fold b3 in ES. rewrite ES. exact HP.
Qed.

(** The instrumentation is not vacuous: an out-of-range column index is detected. *)
Example ccfd_ok_detects : ccfd_ok 3 (box_init [[1; 7]; []; []] 3) = false.
Proof. reflexivity. Qed.

Print Assumptions count_cliques_L0_exact.
Print Assumptions count_cliques_safe.
Print Assumptions count_cliques_from_dag_inv.

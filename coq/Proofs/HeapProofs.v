(** MinHeap (minheap.pyx) and compute_core (core.pyx), level L0: the array-level model of
    Model/Topology.v preserves the heap invariant [heap_ok] under insert_key, decrease_key and
    pop_min / min_heapify, pop_min returns a live node of minimum score and removes exactly it, and
    compute_core refines the set-level peeling [peel] (level L1), hence returns the core numbers. *)
From Coq Require Import Lia ZArith List.
From SKN Require Import Base.Util Model.Bfs Model.Topology Proofs.BfsProofs Proofs.TopologyProofs.
Local Open Scope nat_scope. (* scope : nat *)

(** * 1. Index arithmetic: parent i = (i - 1) // 2 *)

Definition par (i : nat) : nat := Z.to_nat (parent i).

Lemma par_spec i : 0 < i -> i = 2 * par i + 1 \/ i = 2 * par i + 2.
Proof.
  intros H. unfold par, parent.
  pose proof (Z.div_mod (Z.of_nat i - 1) 2 ltac:(lia)) as E.
  pose proof (Z.mod_pos_bound (Z.of_nat i - 1) 2 ltac:(lia)) as B.
  assert (P : (0 <= (Z.of_nat i - 1) / 2)%Z) by (apply Z.div_pos; lia).
  lia.
Qed.

Lemma par_lt i : 0 < i -> par i < i.
Proof. intros H. pose proof (par_spec i H). lia. Qed.

Lemma par_left i : par (2 * i + 1) = i.
Proof. pose proof (par_spec (2 * i + 1) ltac:(lia)). lia. Qed.

Lemma par_right i : par (2 * i + 2) = i.
Proof. pose proof (par_spec (2 * i + 2) ltac:(lia)). lia. Qed.

(** * 2. Arrays *)

Lemma nthn_upd_same (l : list nat) i x : i < length l -> nthn (upd l i x) i = x.
Proof. apply nth_upd_same. Qed.

Lemma nthn_upd_other (l : list nat) i j x : i <> j -> nthn (upd l i x) j = nthn l j.
Proof. apply nth_upd_other. Qed.

Lemma nthz_upd_same (l : list Z) i x : i < length l -> nthz (upd l i x) i = x.
Proof. apply nth_upd_same. Qed.

Lemma nthz_upd_other (l : list Z) i j x : i <> j -> nthz (upd l i x) j = nthz l j.
Proof. apply nth_upd_other. Qed.

Lemma swap_list_nth (l : list nat) x y q : x < length l -> y < length l ->
  nthn (upd (upd l x (nthn l y)) y (nthn l x)) q =
  if q =? y then nthn l x else if q =? x then nthn l y else nthn l q.
Proof.
  intros Hx Hy. destruct (Nat.eqb_spec q y) as [->|Ny].
  - apply nthn_upd_same. rewrite upd_length. exact Hy.
  - rewrite nthn_upd_other by lia. destruct (Nat.eqb_spec q x) as [->|Nx].
    + apply nthn_upd_same. exact Hx.
    + apply nthn_upd_other. lia.
Qed.

(** * 3. The structural part of the invariant, live nodes, frames *)

Definition perm_ok (h : heap) : Prop :=
  h_size h <= length (h_val h) /\
  forall i, i < h_size h ->
    nthn (h_val h) i < length (h_pos h) /\ nthn (h_pos h) (nthn (h_val h) i) = i.

(** [v] is in the heap: it is stored at a live position. *)
Definition live (h : heap) (v : nat) : Prop := exists i, i < h_size h /\ nthn (h_val h) i = v.

(** What an operation that neither inserts nor removes leaves unchanged: array lengths, size, the
    set of live nodes, and the [pos] entry of every node that is not live (stale entries included). *)
Definition hframe (h h' : heap) : Prop :=
  length (h_val h') = length (h_val h) /\ length (h_pos h') = length (h_pos h) /\
  h_size h' = h_size h /\
  (forall v, live h' v <-> live h v) /\
  (forall v, ~ live h v -> nthn (h_pos h') v = nthn (h_pos h) v).

Lemma heap_ok_perm h s : heap_ok h s -> perm_ok h.
Proof. intros [A [B _]]. split; assumption. Qed.

Lemma perm_ok_inj h i j :
  perm_ok h -> i < h_size h -> j < h_size h -> nthn (h_val h) i = nthn (h_val h) j -> i = j.
Proof.
  intros [_ P] Hi Hj E. destruct (P i Hi) as [_ Pi]. destruct (P j Hj) as [_ Pj].
  rewrite E in Pi. lia.
Qed.

Lemma live_pos h v : perm_ok h -> live h v ->
  nthn (h_pos h) v < h_size h /\ nthn (h_val h) (nthn (h_pos h) v) = v.
Proof.
  intros [_ P] [i [Hi E]]. destruct (P i Hi) as [_ Pi]. rewrite E in Pi. rewrite Pi. split; assumption.
Qed.

Lemma hframe_refl h : hframe h h.
Proof. repeat split; auto. Qed.

Lemma hframe_trans h1 h2 h3 : hframe h1 h2 -> hframe h2 h3 -> hframe h1 h3.
Proof.
  intros [A1 [B1 [C1 [D1 E1]]]] [A2 [B2 [C2 [D2 E2]]]].
  split; [lia|]. split; [lia|]. split; [lia|]. split.
  - intros v. rewrite D2. apply D1.
  - intros v Hv. rewrite E2; [apply E1; exact Hv|]. rewrite D1. exact Hv.
Qed.

(** * 4. swap *)

Lemma swap_size h x y : h_size (swap h x y) = h_size h.
Proof. reflexivity. Qed.

Lemma swap_val h x y q : x < length (h_val h) -> y < length (h_val h) ->
  nthn (h_val (swap h x y)) q =
  if q =? y then nthn (h_val h) x else if q =? x then nthn (h_val h) y else nthn (h_val h) q.
Proof. intros Hx Hy. unfold swap. cbn [h_val]. apply swap_list_nth; assumption. Qed.

Lemma swap_val_length h x y : length (h_val (swap h x y)) = length (h_val h).
Proof. unfold swap. cbn [h_val]. rewrite !upd_length. reflexivity. Qed.

Lemma swap_pos_length h x y : length (h_pos (swap h x y)) = length (h_pos h).
Proof. unfold swap. cbn [h_pos]. rewrite !upd_length. reflexivity. Qed.

Lemma swap_pos h x y v : perm_ok h -> x < h_size h -> y < h_size h -> x <> y ->
  nthn (h_pos (swap h x y)) v =
  if v =? nthn (h_val h) x then y else if v =? nthn (h_val h) y then x else nthn (h_pos h) v.
Proof.
  intros Hp Hx Hy Ne. pose proof Hp as [Hlen P].
  unfold swap. cbn [h_pos h_val].
  rewrite !swap_list_nth by lia. rewrite Nat.eqb_refl.
  destruct (Nat.eqb_spec x y) as [E|_]; [contradiction|]. rewrite Nat.eqb_refl.
  destruct (P x Hx) as [Lx _]. destruct (P y Hy) as [Ly _].
  destruct (Nat.eqb_spec v (nthn (h_val h) x)) as [->|Nx].
  - apply nthn_upd_same. rewrite upd_length. exact Lx.
  - rewrite nthn_upd_other by lia.
    destruct (Nat.eqb_spec v (nthn (h_val h) y)) as [->|Nyv].
    + apply nthn_upd_same. exact Ly.
    + apply nthn_upd_other. lia.
Qed.

Lemma swap_score h s x y q : x < length (h_val h) -> y < length (h_val h) ->
  score_at (swap h x y) s q =
  if q =? y then score_at h s x else if q =? x then score_at h s y else score_at h s q.
Proof.
  intros Hx Hy. unfold score_at. rewrite swap_val by assumption.
  destruct (q =? y); [reflexivity|]. destruct (q =? x); reflexivity.
Qed.

Lemma swap_perm_ok h x y : perm_ok h -> x < h_size h -> y < h_size h -> x <> y -> perm_ok (swap h x y).
Proof.
  intros Hp Hx Hy Ne. pose proof Hp as [Hlen P]. split.
  - rewrite swap_val_length, swap_size. exact Hlen.
  - intros i Hi. rewrite swap_size in Hi. rewrite swap_pos_length.
    rewrite swap_val by lia. rewrite swap_pos by assumption.
    destruct (Nat.eqb_spec i y) as [->|Niy].
    + rewrite Nat.eqb_refl. split; [apply (P x Hx)|reflexivity].
    + destruct (Nat.eqb_spec i x) as [->|Nix].
      * destruct (Nat.eqb_spec (nthn (h_val h) y) (nthn (h_val h) x)) as [E|_].
        -- exfalso. apply Ne. symmetry. apply (perm_ok_inj h y x Hp Hy Hx E).
        -- rewrite Nat.eqb_refl. split; [apply (P y Hy)|reflexivity].
      * destruct (Nat.eqb_spec (nthn (h_val h) i) (nthn (h_val h) x)) as [E|_].
        { exfalso. apply Nix. apply (perm_ok_inj h i x Hp Hi Hx E). }
        destruct (Nat.eqb_spec (nthn (h_val h) i) (nthn (h_val h) y)) as [E|_].
        { exfalso. apply Niy. apply (perm_ok_inj h i y Hp Hi Hy E). }
        apply (P i Hi).
Qed.

Lemma swap_live h x y v : perm_ok h -> x < h_size h -> y < h_size h -> live (swap h x y) v <-> live h v.
Proof.
  intros [Hlen _] Hx Hy. unfold live. rewrite swap_size. split.
  - intros [i [Hi E]]. rewrite swap_val in E by lia.
    destruct (Nat.eqb_spec i y) as [->|Niy]; [exists x; auto|].
    destruct (Nat.eqb_spec i x) as [->|Nix]; [exists y; auto|]. exists i; auto.
  - intros [i [Hi E]].
    destruct (Nat.eq_dec i x) as [->|Nix].
    + exists y. split; [exact Hy|]. rewrite swap_val by lia. rewrite Nat.eqb_refl. exact E.
    + destruct (Nat.eq_dec i y) as [->|Niy].
      * exists x. split; [exact Hx|]. rewrite swap_val by lia.
        destruct (Nat.eqb_spec x y) as [->|_]; [exact E|]. rewrite Nat.eqb_refl. exact E.
      * exists i. split; [exact Hi|]. rewrite swap_val by lia.
        destruct (Nat.eqb_spec i y) as [?|_]; [contradiction|].
        destruct (Nat.eqb_spec i x) as [?|_]; [contradiction|]. exact E.
Qed.

Lemma swap_hframe h x y : perm_ok h -> x < h_size h -> y < h_size h -> x <> y -> hframe h (swap h x y).
Proof.
  intros Hp Hx Hy Ne. split; [apply swap_val_length|]. split; [apply swap_pos_length|].
  split; [reflexivity|]. split; [intros v; apply swap_live; assumption|].
  intros v Hv. rewrite swap_pos by assumption.
  destruct (Nat.eqb_spec v (nthn (h_val h) x)) as [->|_]; [exfalso; apply Hv; exists x; auto|].
  destruct (Nat.eqb_spec v (nthn (h_val h) y)) as [->|_]; [exfalso; apply Hv; exists y; auto|].
  reflexivity.
Qed.

(** * 5. Sift-up: the loop shared by insert_key and decrease_key *)

Lemma heap_ok_par h s :
  heap_ok h s <->
  perm_ok h /\ forall j, 0 < j -> j < h_size h -> (score_at h s (par j) <= score_at h s j)%Z.
Proof. unfold heap_ok, perm_ok, par. tauto. Qed.

(** [insert_key]'s guard [p >= 0] and [decrease_key]'s guard [pos != 0] coincide when p = parent pos. *)
Lemma insert_decrease_loop fuel s : forall h i,
  insert_loop fuel h s i (parent i) = decrease_loop fuel h s i (parent i).
Proof.
  induction fuel as [|f IH]; intros h i; [reflexivity|].
  cbn [insert_loop decrease_loop].
  destruct (Nat.eqb_spec i 0) as [->|Ne]; [reflexivity|].
  assert (H : (0 <=? parent i)%Z = true).
  { apply Z.leb_le. unfold parent. apply Z.div_pos; lia. }
  rewrite H. cbn [negb andb]. rewrite IH. reflexivity.
Qed.

(** The heap order holds everywhere except possibly between [i] and its parent, and the children of
    [i] are at least the parent of [i]. *)
Definition up_inv (h : heap) (s : list Z) (i : nat) : Prop :=
  perm_ok h /\ i < h_size h /\
  (forall j, 0 < j -> j < h_size h -> j <> i -> (score_at h s (par j) <= score_at h s j)%Z) /\
  (forall j, 0 < j -> j < h_size h -> par j = i -> 0 < i ->
             (score_at h s (par i) <= score_at h s j)%Z).

Lemma sift_up_spec s : forall fuel h i,
  up_inv h s i -> i < fuel ->
  heap_ok (decrease_loop fuel h s i (parent i)) s /\ hframe h (decrease_loop fuel h s i (parent i)).
Proof.
  induction fuel as [|f IH]; intros h i Hinv Hf; [lia|].
  destruct Hinv as [Hp [Hi [Hord Hgp]]]. pose proof Hp as [Hlen _].
  cbn [decrease_loop]. fold (par i).
  destruct (Nat.eqb_spec i 0) as [E0|Ne]; cbn [negb andb].
  - split; [|apply hframe_refl]. apply heap_ok_par. split; [exact Hp|].
    intros j Hj0 Hj. apply Hord; lia.
  - rewrite Z.gtb_ltb.
    destruct (Z.ltb_spec (score_at h s i) (score_at h s (par i))) as [Lt|Ge].
    + pose proof (par_lt i ltac:(lia)) as Hpl.
      assert (Hinv' : up_inv (swap h i (par i)) s (par i)).
      { split; [apply swap_perm_ok; try assumption; lia|]. split; [rewrite swap_size; lia|]. split.
        - intros j Hj0 Hj Njp. rewrite swap_size in Hj. rewrite !swap_score by lia.
          destruct (Nat.eqb_spec j (par i)) as [?|_]; [contradiction|].
          destruct (Nat.eqb_spec j i) as [->|Nji].
          + rewrite Nat.eqb_refl. lia.
          + destruct (Nat.eqb_spec (par j) (par i)) as [Ep|Np].
            * pose proof (Hord j Hj0 Hj Nji) as H1. rewrite Ep in H1. lia.
            * destruct (Nat.eqb_spec (par j) i) as [Ei|Ni].
              -- apply (Hgp j Hj0 Hj Ei). lia.
              -- apply Hord; assumption.
        - intros j Hj0 Hj Ejp Hp0. rewrite swap_size in Hj. rewrite !swap_score by lia.
          pose proof (par_lt (par i) Hp0) as Hpp. pose proof (par_lt j Hj0) as Hpj.
          destruct (Nat.eqb_spec (par (par i)) (par i)) as [?|_]; [lia|].
          destruct (Nat.eqb_spec (par (par i)) i) as [?|_]; [lia|].
          destruct (Nat.eqb_spec j (par i)) as [?|_]; [lia|].
          pose proof (Hord (par i) Hp0 ltac:(lia) ltac:(lia)) as H1.
          destruct (Nat.eqb_spec j i) as [->|Nji]; [exact H1|].
          pose proof (Hord j Hj0 Hj Nji) as H2. rewrite Ejp in H2. lia. }
      destruct (IH (swap h i (par i)) (par i) Hinv' ltac:(lia)) as [Hok Hfr].
      split; [exact Hok|]. eapply hframe_trans; [|exact Hfr].
      apply swap_hframe; try assumption; lia.
    + split; [|apply hframe_refl]. apply heap_ok_par. split; [exact Hp|].
      intros j Hj0 Hj. destruct (Nat.eq_dec j i) as [->|Nj]; [lia|]. apply Hord; lia.
Qed.

(** * 6. Sift-down: min_heapify *)

(** The heap order holds everywhere except possibly between [i] and its children, and the children
    of [i] are at least the parent of [i]. *)
Definition down_inv (h : heap) (s : list Z) (i : nat) : Prop :=
  perm_ok h /\ i < h_size h /\
  (forall j, 0 < j -> j < h_size h -> par j <> i -> (score_at h s (par j) <= score_at h s j)%Z) /\
  (forall j, 0 < j -> j < h_size h -> par j = i -> 0 < i ->
             (score_at h s (par i) <= score_at h s j)%Z).

Lemma sift_down_spec s : forall fuel h i,
  down_inv h s i -> h_size h < fuel + i ->
  heap_ok (min_heapify fuel h i s) s /\ hframe h (min_heapify fuel h i s).
Proof.
  induction fuel as [|f IH]; intros h i Hinv Hf.
  - destruct Hinv as [_ [Hi _]]. lia.
  - destruct Hinv as [Hp [Hi [Hord Hgp]]]. pose proof Hp as [Hlen _].
    cbn [min_heapify]. unfold left, right.
    remember (2 * i + 1) as l eqn:El. remember (2 * i + 2) as r eqn:Er.
    set (m1 := if (l <? h_size h) && (score_at h s l <? score_at h s i)%Z then l else i).
    set (m := if (r <? h_size h) && (score_at h s r <? score_at h s m1)%Z then r else m1).
    assert (F : (m = i \/ (m = l /\ l < h_size h) \/ (m = r /\ r < h_size h)) /\
                (score_at h s m <= score_at h s i)%Z /\
                (l < h_size h -> (score_at h s m <= score_at h s l)%Z) /\
                (r < h_size h -> (score_at h s m <= score_at h s r)%Z) /\
                (m <> i -> (score_at h s m < score_at h s i)%Z)).
    { subst m m1.
      destruct (Nat.ltb_spec l (h_size h)) as [Ll|Ll]; cbn [andb];
        [destruct (Z.ltb_spec (score_at h s l) (score_at h s i)) as [Sl|Sl]|];
        (destruct (Nat.ltb_spec r (h_size h)) as [Lr|Lr]; cbn [andb];
         [match goal with |- context[(?a <? ?b)%Z] => destruct (Z.ltb_spec a b) as [Sr|Sr] end|]);
        repeat split; try lia. }
    clearbody m. clear m1. destruct F as [F1 [F2 [F3 [F4 F5]]]].
    destruct (Nat.eqb_spec m i) as [Em|Nm]; cbn [negb].
    + split; [|apply hframe_refl]. apply heap_ok_par. split; [exact Hp|]. intros j Hj0 Hj.
      destruct (Nat.eq_dec (par j) i) as [Ej|Nj]; [|apply Hord; assumption].
      rewrite Ej. rewrite Em in F3, F4.
      destruct (par_spec j Hj0) as [E|E]; rewrite Ej in E.
      * assert (Hjl : j = l) by lia. clear E. subst j. apply F3. exact Hj.
      * assert (Hjr : j = r) by lia. clear E. subst j. apply F4. exact Hj.
    + assert (Hpm : par m = i).
      { destruct F1 as [?|[[-> _]|[-> _]]]; [contradiction|subst l; apply par_left|subst r; apply par_right]. }
      assert (Him : i < m) by (destruct F1 as [?|[[-> _]|[-> _]]]; lia).
      assert (Hm : m < h_size h) by (destruct F1 as [?|[[-> ?]|[-> ?]]]; lia).
      specialize (F5 Nm).
      assert (Hinv' : down_inv (swap h i m) s m).
      { split; [apply swap_perm_ok; try assumption; lia|]. split; [rewrite swap_size; lia|]. split.
        - intros j Hj0 Hj Npj. rewrite swap_size in Hj. rewrite !swap_score by lia.
          pose proof (par_lt j Hj0) as Hpj.
          destruct (Nat.eqb_spec (par j) m) as [?|_]; [contradiction|].
          destruct (Nat.eqb_spec (par j) i) as [Ei|Ni].
          + destruct (Nat.eqb_spec j m) as [->|Njm]; [lia|].
            destruct (Nat.eqb_spec j i) as [?|_]; [lia|].
            destruct (par_spec j Hj0) as [E|E]; rewrite Ei in E.
            * assert (Hjl : j = l) by lia. clear E. subst j. apply F3. exact Hj.
            * assert (Hjr : j = r) by lia. clear E. subst j. apply F4. exact Hj.
          + destruct (Nat.eqb_spec j m) as [->|Njm]; [contradiction|].
            destruct (Nat.eqb_spec j i) as [->|Nji].
            * apply Hgp; try assumption; lia.
            * apply Hord; assumption.
        - intros j Hj0 Hj Ejm Hm0. rewrite swap_size in Hj. rewrite !swap_score by lia.
          pose proof (par_lt j Hj0) as Hpj. rewrite Hpm.
          destruct (Nat.eqb_spec i m) as [?|_]; [lia|]. rewrite Nat.eqb_refl.
          destruct (Nat.eqb_spec j m) as [?|_]; [lia|].
          destruct (Nat.eqb_spec j i) as [?|_]; [lia|].
          pose proof (Hord j Hj0 Hj ltac:(lia)) as H1. rewrite Ejm in H1. exact H1. }
      destruct (IH (swap h i m) m Hinv' ltac:(rewrite swap_size; lia)) as [Hok Hfr].
      split; [exact Hok|]. eapply hframe_trans; [|exact Hfr].
      apply swap_hframe; try assumption; lia.
Qed.

(** * 7. insert_key *)

Theorem insert_key_spec (h : heap) (k : nat) (s : list Z) :
  heap_ok h s -> h_size h < length (h_val h) -> k < length (h_pos h) -> ~ live h k ->
  let h' := insert_key h k s in
  heap_ok h' s /\ h_size h' = S (h_size h) /\
  length (h_val h') = length (h_val h) /\ length (h_pos h') = length (h_pos h) /\
  (forall v, live h' v <-> live h v \/ v = k) /\
  (forall v, ~ live h v -> v <> k -> nthn (h_pos h') v = nthn (h_pos h) v).
Proof.
  intros Hok Hsz Hk Hnl. cbv zeta. unfold insert_key. rewrite insert_decrease_loop.
  match goal with |- context[decrease_loop _ ?x _ _ _] => set (h1 := x) end.
  assert (Sz1 : h_size h1 = S (h_size h)) by reflexivity.
  assert (Pos1 : h_pos h1 = upd (h_pos h) k (h_size h)) by reflexivity.
  assert (Val1 : h_val h1 = upd (h_val h) (h_size h) k) by reflexivity.
  clearbody h1.
  apply heap_ok_par in Hok. destruct Hok as [Hp Hord]. pose proof Hp as [Hlen P].
  assert (V1 : forall i, i < h_size h -> nthn (h_val h1) i = nthn (h_val h) i).
  { intros i Hi. rewrite Val1. apply nthn_upd_other. lia. }
  assert (V2 : nthn (h_val h1) (h_size h) = k).
  { rewrite Val1. apply nthn_upd_same. exact Hsz. }
  assert (L1 : forall v, live h1 v <-> live h v \/ v = k).
  { intros v. unfold live. rewrite Sz1. split.
    - intros [i [Hi Ev]]. destruct (Nat.eq_dec i (h_size h)) as [->|Ni].
      + right. rewrite V2 in Ev. auto.
      + left. exists i. rewrite V1 in Ev by lia. split; [lia|exact Ev].
    - intros [[i [Hi Ev]]| ->].
      + exists i. rewrite V1 by lia. split; [lia|exact Ev].
      + exists (h_size h). split; [lia|exact V2]. }
  assert (Hinv : up_inv h1 s (h_size h)).
  { split; [|split; [|split]].
    - split; [rewrite Sz1, Val1, upd_length; lia|].
      intros i Hi. rewrite Sz1 in Hi. rewrite Pos1, upd_length.
      destruct (Nat.eq_dec i (h_size h)) as [->|Ni].
      + rewrite V2. split; [exact Hk|]. apply nthn_upd_same. exact Hk.
      + rewrite V1 by lia. destruct (P i ltac:(lia)) as [A B]. split; [exact A|].
        rewrite nthn_upd_other; [exact B|]. intros E. apply Hnl. exists i. split; [lia|].
        symmetry. exact E.
    - rewrite Sz1. lia.
    - intros j Hj0 Hj Nj. rewrite Sz1 in Hj. pose proof (par_lt j Hj0) as Hpj.
      unfold score_at. rewrite !V1 by lia. apply (Hord j Hj0). lia.
    - intros j Hj0 Hj Ej _. rewrite Sz1 in Hj. pose proof (par_lt j Hj0). lia. }
  destruct (sift_up_spec s (S (h_size h)) h1 (h_size h) Hinv ltac:(lia)) as [Hok' Hfr].
  destruct Hfr as [A [B [C [D E]]]].
  split; [exact Hok'|]. split; [rewrite C; exact Sz1|].
  split; [rewrite A, Val1, upd_length; reflexivity|].
  split; [rewrite B, Pos1, upd_length; reflexivity|]. split.
  - intros v. rewrite D. apply L1.
  - intros v Hv Nk. rewrite E.
    + rewrite Pos1. apply nthn_upd_other. lia.
    + rewrite L1. tauto.
Qed.

Theorem heap_ok_insert_key (h : heap) (k : nat) (s : list Z) :
  heap_ok h s -> h_size h < length (h_val h) -> k < length (h_pos h) -> ~ live h k ->
  heap_ok (insert_key h k s) s.
Proof. intros H1 H2 H3 H4. apply (insert_key_spec h k s H1 H2 H3 H4). Qed.

(** * 8. decrease_key. [s] are the scores at the last heap operation, [s'] the current ones: only
    the score of [j] changed, and it did not increase. Nothing is assumed about [j] being live: if it
    is not (popped node, stale [pos]), the live scores are unchanged and the loop finds nothing to do. *)

Theorem decrease_key_spec (h : heap) (j : nat) (s s' : list Z) :
  heap_ok h s -> (forall v, v <> j -> nthz s' v = nthz s v) -> (nthz s' j <= nthz s j)%Z ->
  heap_ok (decrease_key h j s') s' /\ hframe h (decrease_key h j s').
Proof.
  intros Hok Hoth Hdec. apply heap_ok_par in Hok. destruct Hok as [Hp Hord]. pose proof Hp as [Hlen P].
  unfold decrease_key. remember (nthn (h_pos h) j) as p eqn:Ep.
  assert (Sle : forall q, (score_at h s' q <= score_at h s q)%Z).
  { intros q. unfold score_at. destruct (Nat.eq_dec (nthn (h_val h) q) j) as [->|N]; [exact Hdec|].
    rewrite Hoth by exact N. lia. }
  assert (Seq : forall q, nthn (h_val h) q <> j -> score_at h s' q = score_at h s q).
  { intros q N. unfold score_at. apply Hoth. exact N. }
  destruct (Nat.ltb_spec p (h_size h)) as [Lp|Gp].
  - apply sift_up_spec; [|lia]. split; [exact Hp|]. split; [exact Lp|].
    destruct (Nat.eq_dec (nthn (h_val h) p) j) as [Ev|Nv].
    + assert (Hq : forall q, q < h_size h -> q <> p -> nthn (h_val h) q <> j).
      { intros q Hq Nq E. apply Nq. apply (perm_ok_inj h q p Hp Hq Lp). rewrite E, Ev. reflexivity. }
      split.
      * intros q Hq0 Hqs Nqp. rewrite (Seq q) by (apply Hq; assumption).
        specialize (Sle (par q)). specialize (Hord q Hq0 Hqs). lia.
      * intros q Hq0 Hqs Eq Hp0. pose proof (par_lt q Hq0) as Hpq. pose proof (par_lt p Hp0) as Hpp.
        rewrite (Seq q) by (apply Hq; lia). rewrite (Seq (par p)) by (apply Hq; lia).
        pose proof (Hord p Hp0 Lp) as H1. pose proof (Hord q Hq0 Hqs) as H2. rewrite Eq in H2. lia.
    + assert (Hq : forall q, q < h_size h -> nthn (h_val h) q <> j).
      { intros q Hq E. destruct (P q Hq) as [_ B]. rewrite E, <- Ep in B. apply Nv. rewrite B. exact E. }
      split.
      * intros q Hq0 Hqs _. pose proof (par_lt q Hq0) as Hpq.
        rewrite !Seq by (apply Hq; lia). apply Hord; assumption.
      * intros q Hq0 Hqs Eq Hp0. pose proof (par_lt q Hq0) as Hpq. pose proof (par_lt p Hp0) as Hpp.
        rewrite !Seq by (apply Hq; lia).
        pose proof (Hord p Hp0 Lp) as H1. pose proof (Hord q Hq0 Hqs) as H2. rewrite Eq in H2. lia.
  - split; [|apply hframe_refl]. apply heap_ok_par. split; [exact Hp|].
    assert (Hq : forall q, q < h_size h -> nthn (h_val h) q <> j).
    { intros q Hq E. destruct (P q Hq) as [_ B]. rewrite E, <- Ep in B. lia. }
    intros q Hq0 Hqs. pose proof (par_lt q Hq0) as Hpq.
    rewrite !Seq by (apply Hq; lia). apply Hord; assumption.
Qed.

Theorem heap_ok_decrease_key (h : heap) (j : nat) (s s' : list Z) :
  heap_ok h s -> (forall v, v <> j -> nthz s' v = nthz s v) -> (nthz s' j <= nthz s j)%Z ->
  heap_ok (decrease_key h j s') s'.
Proof. intros H1 H2 H3. apply (decrease_key_spec h j s s' H1 H2 H3). Qed.

(** * 9. pop_min / min_heapify *)

Theorem pop_min_spec (h : heap) (s : list Z) :
  heap_ok h s -> 0 < h_size h ->
  let m := fst (pop_min h s) in
  let h' := snd (pop_min h s) in
  m = nthn (h_val h) 0 /\ heap_ok h' s /\ h_size h' = h_size h - 1 /\
  length (h_val h') = length (h_val h) /\ length (h_pos h') = length (h_pos h) /\
  (forall v, live h' v <-> live h v /\ v <> m) /\
  (forall v, ~ live h' v -> nthn (h_pos h') v = nthn (h_pos h) v).
Proof.
  intros Hok Hs. cbv zeta. apply heap_ok_par in Hok. destruct Hok as [Hp Hord]. pose proof Hp as [Hlen P].
  unfold pop_min. destruct (Nat.eqb_spec (h_size h) 1) as [E1|N1]; cbn [fst snd].
  - split; [reflexivity|]. split.
    { apply heap_ok_par. split; [split|]; cbn [h_size h_val h_pos]; intros; lia. }
    cbn [h_size h_val h_pos]. split; [lia|]. split; [reflexivity|]. split; [reflexivity|]. split.
    + intros v. unfold live. cbn [h_size h_val]. split.
      * intros [i [Hi _]]. lia.
      * intros [[i [Hi Ev]] Nv]. assert (i = 0) by lia. subst i. exfalso. apply Nv. symmetry. exact Ev.
    + intros v _. reflexivity.
  - match goal with |- context[min_heapify _ ?x 0 s] => set (h1 := x) end.
    assert (Sz1 : h_size h1 = h_size h - 1) by reflexivity.
    assert (Val1 : h_val h1 = upd (h_val h) 0 (nthn (h_val h) (h_size h - 1))) by reflexivity.
    assert (Pos1 : h_pos h1 = upd (h_pos h) (nthn (h_val h) (h_size h - 1)) 0).
    { unfold h1. cbn [h_pos]. rewrite nthn_upd_same by lia. reflexivity. }
    clearbody h1.
    assert (V0 : nthn (h_val h1) 0 = nthn (h_val h) (h_size h - 1)).
    { rewrite Val1. apply nthn_upd_same. lia. }
    assert (Vi : forall i, i <> 0 -> nthn (h_val h1) i = nthn (h_val h) i).
    { intros i Hi. rewrite Val1. apply nthn_upd_other. lia. }
    assert (Inj : forall a b, a < h_size h -> b < h_size h -> a <> b -> nthn (h_val h) a <> nthn (h_val h) b).
    { intros a b Ha Hb Nab E. apply Nab. apply (perm_ok_inj h a b Hp Ha Hb E). }
    assert (L1 : forall v, live h1 v <-> live h v /\ v <> nthn (h_val h) 0).
    { intros v. unfold live. rewrite Sz1. split.
      - intros [i [Hi Ev]]. destruct (Nat.eq_dec i 0) as [->|Ni].
        + rewrite V0 in Ev. subst v. split; [exists (h_size h - 1); split; [lia|reflexivity]|].
          apply Inj; lia.
        + rewrite Vi in Ev by exact Ni. subst v. split; [exists i; split; [lia|reflexivity]|].
          apply Inj; lia.
      - intros [[i [Hi Ev]] Nv]. subst v.
        destruct (Nat.eq_dec i (h_size h - 1)) as [->|Ni].
        + exists 0. split; [lia|exact V0].
        + exists i. assert (i <> 0) by (intros ->; apply Nv; reflexivity).
          split; [lia|]. apply Vi. assumption. }
    assert (Hinv : down_inv h1 s 0).
    { split; [|split; [|split]].
      - split; [rewrite Sz1, Val1, upd_length; lia|].
        intros i Hi. rewrite Sz1 in Hi. rewrite Pos1, upd_length.
        destruct (P (h_size h - 1) ltac:(lia)) as [A0 B0].
        destruct (Nat.eq_dec i 0) as [->|Ni].
        + rewrite V0. split; [exact A0|]. apply nthn_upd_same. exact A0.
        + rewrite Vi by exact Ni. destruct (P i ltac:(lia)) as [A B]. split; [exact A|].
          rewrite nthn_upd_other; [exact B|]. apply Inj; lia.
      - rewrite Sz1. lia.
      - intros j Hj0 Hj Nj. rewrite Sz1 in Hj. unfold score_at. rewrite !Vi by lia.
        apply (Hord j Hj0). lia.
      - intros; lia. }
    destruct (sift_down_spec s (S (h_size h)) h1 0 Hinv ltac:(rewrite Sz1; lia)) as [Hok' Hfr].
    destruct Hfr as [A [B [C [D E]]]].
    split; [reflexivity|]. split; [exact Hok'|]. split; [rewrite C; exact Sz1|].
    split; [rewrite A, Val1, upd_length; reflexivity|].
    split; [rewrite B, Pos1, upd_length; reflexivity|]. split.
    + intros v. rewrite D. apply L1.
    + intros v Hv. rewrite E by (rewrite <- D; exact Hv). rewrite Pos1. apply nthn_upd_other.
      intros Ev. apply Hv. apply D. exists 0. split; [rewrite Sz1; lia|]. rewrite V0. exact Ev.
Qed.

Theorem heap_ok_pop_min (h : heap) (s : list Z) :
  heap_ok h s -> 0 < h_size h -> heap_ok (snd (pop_min h s)) s.
Proof. intros H1 H2. apply (pop_min_spec h s H1 H2). Qed.

(** pop_min returns a live node of minimum score, removes exactly it, keeps the invariant, and the
    popped node is left with the stale position 0. *)
Theorem pop_min_returns_min (h : heap) (s : list Z) :
  heap_ok h s -> 0 < h_size h ->
  let m := fst (pop_min h s) in
  let h' := snd (pop_min h s) in
  live h m /\ (forall v, live h v -> (nthz s m <= nthz s v)%Z) /\
  heap_ok h' s /\ h_size h' = h_size h - 1 /\
  (forall v, live h' v <-> live h v /\ v <> m) /\
  nthn (h_pos h') m = 0.
Proof.
  intros Hok Hs. cbv zeta.
  destruct (pop_min_spec h s Hok Hs) as [Em [Hok' [Hsz [_ [_ [Hl Hst]]]]]].
  destruct (heap_pop_is_min_partial h s Hok Hs) as [_ Hmin].
  split; [rewrite Em; exists 0; auto|]. split.
  - intros v [i [Hi Ev]]. subst v. apply Hmin. exact Hi.
  - split; [exact Hok'|]. split; [exact Hsz|]. split; [exact Hl|].
    rewrite Hst by (rewrite Hl; tauto). rewrite Em.
    destruct Hok as [_ [P _]]. apply (P 0 Hs).
Qed.

(** * 10. compute_core (L0) refines peel (L1) *)

(** The sequence of nodes popped by compute_core: same loop as [core_loop], recording [min_node]. *)
Fixpoint core_trace (fuel : nat) (g : graph) (degrees : list Z) (mh : heap) : list nat :=
  if heap_empty mh then []
  else match fuel with
       | O => []
       | S f =>
           let (min_node, mh1) := pop_min mh degrees in
           let (degrees', mh2) := core_inner g min_node (degrees, mh1) in
           min_node :: core_trace f g degrees' mh2
       end.

Definition core_pop_sequence (g : graph) : list nat :=
  let n := length g in
  let degrees := map (fun r => Z.of_nat (length r)) g in
  let mh := fold_left (fun mh i => insert_key mh i degrees) (seq 0 n) (heap_init n) in
  core_trace n g degrees mh.

Lemma core_loop_S f g d mh cv lab :
  core_loop (S f) g d mh cv lab =
  if heap_empty mh then Some lab
  else let (min_node, mh1) := pop_min mh d in
       let core_value' := Z.max cv (nthz d min_node) in
       let (degrees', mh2) := core_inner g min_node (d, mh1) in
       core_loop f g degrees' mh2 core_value' (upd lab min_node core_value').
Proof. reflexivity. Qed.

Lemma core_loop_empty fuel g d mh cv lab :
  heap_empty mh = true -> core_loop fuel g d mh cv lab = Some lab.
Proof. intros H. destruct fuel; cbn [core_loop]; rewrite H; reflexivity. Qed.

Lemma core_trace_S f g d mh :
  core_trace (S f) g d mh =
  if heap_empty mh then []
  else let (min_node, mh1) := pop_min mh d in
       let (degrees', mh2) := core_inner g min_node (d, mh1) in
       min_node :: core_trace f g degrees' mh2.
Proof. reflexivity. Qed.

Lemma core_trace_empty fuel g d mh : heap_empty mh = true -> core_trace fuel g d mh = [].
Proof. intros H. destruct fuel; cbn [core_trace]; rewrite H; reflexivity. Qed.

Lemma map_upd {A B} (f : A -> B) (l : list A) i x : map f (upd l i x) = upd (map f l) i (f x).
Proof.
  unfold upd. rewrite map_app, firstn_map, skipn_map. destruct (skipn i l); reflexivity.
Qed.

Lemma memn_remove x m s : memn x (remove Nat.eq_dec m s) = memn x s && negb (x =? m).
Proof.
  induction s as [|a t IH]; [reflexivity|]. cbn [remove]. rewrite memn_cons.
  destruct (Nat.eq_dec m a) as [->|N].
  - rewrite IH. destruct (Nat.eqb_spec x a); cbn [orb negb andb].
    + rewrite andb_false_r. reflexivity.
    + reflexivity.
  - rewrite memn_cons, IH. destruct (Nat.eqb_spec x a) as [->|Nx]; cbn [orb].
    + destruct (Nat.eqb_spec a m) as [E|_]; [congruence|]. reflexivity.
    + reflexivity.
Qed.

Lemma filter_remove_count (l s : list nat) m : NoDup l ->
  length (filter (fun w => memn w s) l) =
  length (filter (fun w => memn w (remove Nat.eq_dec m s)) l) + (if memn m l && memn m s then 1 else 0).
Proof.
  induction l as [|a t IH]; intros Hnd; [reflexivity|].
  inversion Hnd as [|? ? Hna Hnt]; subst. specialize (IH Hnt).
  cbn [filter]. rewrite memn_remove, memn_cons.
  destruct (Nat.eqb_spec m a) as [->|Nma].
  - assert (Ht : memn a t = false).
    { destruct (memn a t) eqn:E; [apply memn_In in E; contradiction|reflexivity]. }
    rewrite Ht in IH. cbn [andb] in IH. rewrite Nat.eqb_refl. cbn [negb orb andb].
    rewrite andb_false_r. destruct (memn a s); cbn [length]; lia.
  - cbn [orb]. destruct (Nat.eqb_spec a m) as [E|_]; [congruence|]. cbn [negb]. rewrite andb_true_r.
    destruct (memn a s); cbn [length]; lia.
Qed.

Lemma deg_in_remove g alive m v : NoDup (row g v) ->
  deg_in g alive v =
  deg_in g (remove Nat.eq_dec m alive) v + (if memn m (row g v) && memn m alive then 1 else 0).
Proof. intros H. unfold deg_in. apply filter_remove_count. exact H. Qed.

Lemma filter_all {A} (f : A -> bool) l : (forall x, In x l -> f x = true) -> filter f l = l.
Proof.
  induction l as [|a t IH]; intros H; [reflexivity|]. cbn [filter].
  rewrite (H a (or_introl eq_refl)). f_equal. apply IH. intros x Hx. apply H. right. exact Hx.
Qed.

(** The inner loop of compute_core over the (duplicate-free) neighbour list of the popped node. *)
Lemma core_inner_spec (js : list nat) : forall d mh,
  NoDup js -> (forall j, In j js -> j < length d) -> heap_ok mh d ->
  let st := fold_left (fun (st : list Z * heap) (j : nat) =>
                         let (degrees, mh) := st in
                         let degrees' := upd degrees j (nthz degrees j - 1)%Z in
                         (degrees', decrease_key mh j degrees')) js (d, mh) in
  heap_ok (snd st) (fst st) /\ hframe mh (snd st) /\ length (fst st) = length d /\
  forall v, nthz (fst st) v = if memn v js then (nthz d v - 1)%Z else nthz d v.
Proof.
  induction js as [|j t IH]; intros d mh Hnd Hlt Hok; cbv zeta.
  - cbn [fold_left fst snd]. split; [exact Hok|]. split; [apply hframe_refl|]. split; [reflexivity|].
    intros v. reflexivity.
  - cbn [fold_left]. inversion Hnd as [|? ? Hnj Hnt]; subst.
    assert (Hj : j < length d) by (apply Hlt; left; reflexivity).
    set (d1 := upd d j (nthz d j - 1)%Z).
    assert (Hoth : forall v, v <> j -> nthz d1 v = nthz d v).
    { intros v N. unfold d1. apply nthz_upd_other. lia. }
    assert (Hdec : nthz d1 j = (nthz d j - 1)%Z).
    { unfold d1. apply nthz_upd_same. exact Hj. }
    destruct (decrease_key_spec mh j d d1 Hok Hoth ltac:(lia)) as [Hok1 Hfr1].
    assert (Hlt1 : forall j', In j' t -> j' < length d1).
    { intros j' Hj'. unfold d1. rewrite upd_length. apply Hlt. right. exact Hj'. }
    specialize (IH d1 (decrease_key mh j d1) Hnt Hlt1 Hok1). cbv zeta in IH.
    destruct IH as [A [B [C D]]].
    split; [exact A|]. split; [eapply hframe_trans; eassumption|].
    split; [rewrite C; unfold d1; apply upd_length|].
    intros v. rewrite D. rewrite memn_cons.
    destruct (Nat.eqb_spec v j) as [->|N]; cbn [orb].
    + assert (Ht : memn j t = false).
      { destruct (memn j t) eqn:E; [apply memn_In in E; contradiction|reflexivity]. }
      rewrite Ht. exact Hdec.
    + rewrite Hoth by exact N. reflexivity.
Qed.

(** Building the heap: after inserting 0 .. k-1 the invariant holds and exactly these nodes are live. *)
Lemma build_heap_spec (s : list Z) (n : nat) : forall k, k <= n ->
  let mh := fold_left (fun mh i => insert_key mh i s) (seq 0 k) (heap_init n) in
  heap_ok mh s /\ h_size mh = k /\ length (h_val mh) = n /\ length (h_pos mh) = n /\
  forall v, live mh v <-> v < k.
Proof.
  induction k as [|k IH]; intros Hk; cbv zeta.
  - cbn [seq fold_left]. unfold heap_init, heap_ok, live. cbn [h_size h_val h_pos].
    rewrite !repeat_length. split.
    { split; [lia|]. split; intros; lia. }
    split; [reflexivity|]. split; [reflexivity|]. split; [reflexivity|].
    intros v. split; [intros [i [Hi _]]; lia|lia].
  - specialize (IH ltac:(lia)). cbv zeta in IH. destruct IH as [Hok [Hsz [Hlv [Hlp Hlive]]]].
    rewrite seq_S, fold_left_app. cbn [fold_left plus].
    set (mh := fold_left (fun mh i => insert_key mh i s) (seq 0 k) (heap_init n)) in *.
    assert (Hnl : ~ live mh k) by (rewrite Hlive; lia).
    destruct (insert_key_spec mh k s Hok ltac:(lia) ltac:(lia) Hnl) as [A [B [C [D [E _]]]]].
    split; [exact A|]. split; [lia|]. split; [lia|]. split; [lia|].
    intros v. rewrite E, Hlive. lia.
Qed.

Section Refinement.
  Context (g : graph).
  Context (Hnd : forall u, NoDup (row g u)).
  Context (Hsym : forall u v, In v (row g u) -> In u (row g v)).

  Lemma sym_wf : wf_graph g.
  Proof.
    intros u v H. apply Hsym in H. destruct (Nat.lt_ge_cases v (length g)) as [L|L]; [exact L|].
    rewrite row_overflow in H by exact L. contradiction.
  Qed.

  Lemma memn_sym u v : memn v (row g u) = memn u (row g v).
  Proof.
    destruct (memn v (row g u)) eqn:E1, (memn u (row g v)) eqn:E2; try reflexivity.
    - apply memn_In, Hsym, memn_In in E1. congruence.
    - apply memn_In, Hsym, memn_In in E2. congruence.
  Qed.

  (** Refinement invariant: the heap invariant holds w.r.t. the current [degrees]; the live nodes are
      the nodes not yet removed; the [degrees] entry of every live node is its remaining degree. *)
  Lemma core_loop_refines : forall fuel degrees mh cv labels alive c labN,
    heap_ok mh degrees ->
    (forall v, In v alive <-> live mh v) ->
    (forall v, live mh v -> nthz degrees v = Z.of_nat (deg_in g alive v)) ->
    length degrees = length g ->
    h_size mh <= fuel ->
    cv = Z.of_nat c -> labels = map Z.of_nat labN ->
    exists outN,
      core_loop fuel g degrees mh cv labels = Some (map Z.of_nat outN) /\
      peel_run g (core_trace fuel g degrees mh) alive c labN = Some outN.
  Proof.
    induction fuel as [|f IH]; intros degrees mh cv labels alive c labN Hok Hal Hdeg Hlen Hfuel Hcv Hlab;
      destruct (heap_empty mh) eqn:Em.
    1, 3: (exists labN; rewrite core_loop_empty, core_trace_empty by exact Em;
           unfold heap_empty in Em; apply Nat.eqb_eq in Em;
           destruct alive as [|a t];
           [cbn [peel_run]; subst labels; auto
           |exfalso; destruct (proj1 (Hal a) (or_introl eq_refl)) as [i [Hi _]]; lia]).
    - unfold heap_empty in Em. apply Nat.eqb_neq in Em. lia.
    - rewrite core_loop_S, core_trace_S, Em.
      unfold heap_empty in Em. apply Nat.eqb_neq in Em.
      pose proof (pop_min_returns_min mh degrees Hok ltac:(lia)) as Hpop. cbv zeta in Hpop.
      destruct (pop_min mh degrees) as [m mh1] eqn:Epop. cbn [fst snd] in Hpop.
      destruct Hpop as [Hlm [Hmin [Hok1 [Hsz1 [Hl1 _]]]]].
      pose proof sym_wf as Hwf.
      pose proof (core_inner_spec (row g m) degrees mh1 (Hnd m)) as Hin.
      specialize (Hin ltac:(intros j Hj; rewrite Hlen; apply (Hwf m j Hj)) Hok1). cbv zeta in Hin.
      unfold core_inner.
      match type of Hin with context[fold_left ?F ?L ?S] => destruct (fold_left F L S) as [d' mh2] eqn:Einner end.
      cbn [fst snd] in Hin. destruct Hin as [Hok2 [Hfr [Hlen2 Hd']]].
      destruct Hfr as [_ [_ [Hsz2 [Hl2 _]]]].
      assert (Hma : In m alive) by (apply Hal; exact Hlm).
      assert (Hguard : memn m alive && forallb (fun u => deg_in g alive m <=? deg_in g alive u) alive = true).
      { apply andb_true_iff. split; [apply memn_In; exact Hma|]. apply forallb_forall. intros u Hu.
        apply Nat.leb_le. apply Hal in Hu. pose proof (Hmin u Hu) as H1.
        rewrite (Hdeg m Hlm), (Hdeg u Hu) in H1. lia. }
      cbn [peel_run]. rewrite Hguard.
      apply IH.
      + exact Hok2.
      + intros v. rewrite Hl2, Hl1, <- Hal. split.
        * intros H. apply in_remove in H. exact H.
        * intros [H1 H2]. apply in_in_remove; assumption.
      + intros v Hv. apply Hl2, Hl1 in Hv. destruct Hv as [Hv Nvm].
        rewrite Hd', (Hdeg v Hv), (deg_in_remove g alive m v (Hnd v)).
        rewrite (memn_sym m v). rewrite (proj2 (memn_In m alive) Hma), andb_true_r.
        destruct (memn m (row g v)); lia.
      + lia.
      + lia.
      + rewrite (Hdeg m Hlm), Hcv. symmetry. apply Nat2Z.inj_max.
      + rewrite Hlab, map_upd. rewrite (Hdeg m Hlm), Hcv, <- Nat2Z.inj_max. reflexivity.
  Qed.

  (** compute_core, as coded, pops the nodes in an order that is admissible for [peel] (every popped
      node is alive and has minimum remaining degree: otherwise [peel] returns [None]) and writes the
      labels [peel] computes on that order. *)
  Theorem compute_core_refines_peel :
    exists labels, peel g (core_pop_sequence g) = Some labels /\
                   compute_core g = Some (map Z.of_nat labels).
  Proof.
    unfold peel, compute_core, core_pop_sequence. cbv zeta.
    set (n := length g). set (degrees := map (fun r => Z.of_nat (length r)) g).
    destruct (build_heap_spec degrees n n (le_n n)) as [Hok [Hsz [_ [_ Hlive]]]].
    set (mh := fold_left (fun mh i => insert_key mh i degrees) (seq 0 n) (heap_init n)) in *.
    destruct (core_loop_refines n degrees mh 0%Z (repeat 0%Z n) (seq 0 n) 0 (repeat 0 n)) as [out [H1 H2]].
    - exact Hok.
    - intros v. rewrite Hlive, in_seq. lia.
    - intros v Hv. apply Hlive in Hv. unfold degrees, nthz.
      change 0%Z with ((fun r : list nat => Z.of_nat (length r)) []). rewrite map_nth. f_equal.
      unfold deg_in. fold (row g v). rewrite filter_all; [reflexivity|].
      intros w Hw. apply memn_seq. apply (sym_wf v w Hw).
    - unfold degrees. apply map_length.
    - lia.
    - reflexivity.
    - clear. induction n as [|n IHn]; [reflexivity|]. cbn [repeat map]. rewrite IHn. reflexivity.
    - exists out. split; assumption.
  Qed.

  (** Hence the L0 model returns the core numbers ([core_number]: the independent specification). *)
  Theorem compute_core_exact :
    exists labels, compute_core g = Some (map Z.of_nat labels) /\
                   length labels = length g /\
                   forall v, v < length g -> core_number g v (nthn labels v).
  Proof.
    destruct compute_core_refines_peel as [labels [Hp Hc]]. exists labels. split; [exact Hc|].
    apply (peel_is_core_number g (core_pop_sequence g) labels Hp).
  Qed.
End Refinement.

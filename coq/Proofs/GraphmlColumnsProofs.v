From Coq Require Import String Ascii.
From Coq Require Import Lia.
From SKN Require Import Base.Util Model.Graphml Proofs.GraphmlKeysProofs.
Set Warnings "-notation-overridden".
(** The attribute columns of a GraphML document read off [doc_keys]: the LAST plain (non-weight)
    key of a domain ("node" / "edge") carrying a given attr.name decides the column of that name
    (its type and its fill value); with no plain key of a domain there is no column table at all. *)
Local Open Scope string_scope.
Local Open Scope list_scope.
Local Open Scope nat_scope.
Local Infix "==s" := String.eqb (at level 70).

(** * Association lists *)

Lemma alookup_aset_same {A} k (v : A) l : alookup k (aset k v l) = Some v.
Proof.
  induction l as [|[k' v'] t IH]; cbn [aset alookup].
  - rewrite String.eqb_refl. reflexivity.
  - destruct (k' ==s k) eqn:E; cbn [alookup].
    + rewrite String.eqb_refl. reflexivity.
    + rewrite E. exact IH.
Qed.

Lemma alookup_aset_other {A} k k' (v : A) l : k <> k' -> alookup k' (aset k v l) = alookup k' l.
Proof.
  intros Hne.
  induction l as [|[k0 v0] t IH]; cbn [aset alookup].
  - destruct (k ==s k') eqn:E.
    + apply String.eqb_eq in E. contradiction.
    + reflexivity.
  - destruct (k0 ==s k) eqn:E; cbn [alookup].
    + apply String.eqb_eq in E. subst k0.
      destruct (k ==s k') eqn:E'.
      * apply String.eqb_eq in E'. contradiction.
      * reflexivity.
    + destruct (k0 ==s k') eqn:E'.
      * reflexivity.
      * exact IH.
Qed.

(** * Plain keys *)

Definition feeds (dl : dialect) (wk dom name : string) (fe : xml) : bool :=
  is_tag "key" fe && negb (is_weight_key dl wk fe) && (attr_or_empty "for" fe ==s dom)
  && (attr_or_empty "attr.name" fe ==s name).

(** A plain key of domain [dom], whatever its attr.name. *)
Definition plain (dl : dialect) (wk dom : string) (fe : xml) : bool :=
  is_tag "key" fe && negb (is_weight_key dl wk fe) && (attr_or_empty "for" fe ==s dom).

Definition key_col (dl : dialect) (mss : nat) (fe : xml) : acol :=
  (key_type fe, fill_of mss (key_type fe) (last_default dl (key_type fe) (x_children fe) None)).

Lemma feeds_plain dl wk dom name fe :
  feeds dl wk dom name fe = plain dl wk dom fe && (attr_or_empty "attr.name" fe ==s name).
Proof. reflexivity. Qed.

Lemma feeds_own_name dl wk dom fe :
  feeds dl wk dom (attr_or_empty "attr.name" fe) fe = plain dl wk dom fe.
Proof. rewrite feeds_plain, String.eqb_refl, andb_true_r. reflexivity. Qed.

(** * One step of the walk, on the two column tables *)

Lemma key_step_pure_nattr dl wk mss k fe :
  k_nattr (key_step_pure dl wk mss k fe) =
  if plain dl wk "node" fe
  then Some (aset (attr_or_empty "attr.name" fe) (key_col dl mss fe) (some_or_empty (k_nattr k)))
  else k_nattr k.
Proof.
  unfold plain, is_weight_key, key_step_pure, key_col. cbv zeta.
  destruct (is_tag "key" fe) eqn:Ek; cbn [andb].
  - destruct (weight_key_test dl wk (attr_or_empty "attr.name" fe) fe) eqn:Ew;
      cbn [negb andb k_nattr].
    + reflexivity.
    + reflexivity.
  - destruct (is_tag "desc" fe) eqn:Es; cbn [k_nattr]; reflexivity.
Qed.

Lemma key_step_pure_eattr dl wk mss k fe :
  k_eattr (key_step_pure dl wk mss k fe) =
  if plain dl wk "edge" fe
  then Some (aset (attr_or_empty "attr.name" fe) (key_col dl mss fe) (some_or_empty (k_eattr k)))
  else k_eattr k.
Proof.
  unfold plain, is_weight_key, key_step_pure, key_col. cbv zeta.
  destruct (is_tag "key" fe) eqn:Ek; cbn [andb].
  - destruct (weight_key_test dl wk (attr_or_empty "attr.name" fe) fe) eqn:Ew;
      cbn [negb andb k_eattr].
    + reflexivity.
    + destruct (attr_or_empty "for" fe ==s "edge") eqn:Ee.
      * apply String.eqb_eq in Ee. rewrite Ee. reflexivity.
      * destruct (attr_or_empty "for" fe ==s "node") eqn:En; reflexivity.
  - destruct (is_tag "desc" fe) eqn:Es; cbn [k_eattr]; reflexivity.
Qed.

(** * Later keys of another name keep the column *)

Lemma fold_keeps_node_column dl wk mss name c l :
  forall k,
    (forall fe, In fe l -> feeds dl wk "node" name fe = false) ->
    alookup name (some_or_empty (k_nattr k)) = Some c ->
    alookup name (some_or_empty (k_nattr (fold_left (key_step_pure dl wk mss) l k))) = Some c.
Proof.
  induction l as [|fe t IH]; cbn [fold_left]; intros k Hall Hk.
  - exact Hk.
  - apply IH.
    + intros fe' Hin. apply Hall. right. exact Hin.
    + rewrite key_step_pure_nattr.
      assert (Hfe : feeds dl wk "node" name fe = false) by (apply Hall; left; reflexivity).
      rewrite feeds_plain in Hfe.
      destruct (plain dl wk "node" fe) eqn:Ep; cbn [andb] in Hfe.
      * cbn [some_or_empty]. rewrite alookup_aset_other.
        -- exact Hk.
        -- intros Heq. rewrite Heq, String.eqb_refl in Hfe. discriminate Hfe.
      * exact Hk.
Qed.

Lemma fold_keeps_edge_column dl wk mss name c l :
  forall k,
    (forall fe, In fe l -> feeds dl wk "edge" name fe = false) ->
    alookup name (some_or_empty (k_eattr k)) = Some c ->
    alookup name (some_or_empty (k_eattr (fold_left (key_step_pure dl wk mss) l k))) = Some c.
Proof.
  induction l as [|fe t IH]; cbn [fold_left]; intros k Hall Hk.
  - exact Hk.
  - apply IH.
    + intros fe' Hin. apply Hall. right. exact Hin.
    + rewrite key_step_pure_eattr.
      assert (Hfe : feeds dl wk "edge" name fe = false) by (apply Hall; left; reflexivity).
      rewrite feeds_plain in Hfe.
      destruct (plain dl wk "edge" fe) eqn:Ep; cbn [andb] in Hfe.
      * cbn [some_or_empty]. rewrite alookup_aset_other.
        -- exact Hk.
        -- intros Heq. rewrite Heq, String.eqb_refl in Hfe. discriminate Hfe.
      * exact Hk.
Qed.

(** * The column rule: the LAST plain key with that attr.name decides the column *)

Theorem node_column_rule dl wk mss root pre fe post name :
  x_children root = pre ++ fe :: post ->
  feeds dl wk "node" name fe = true ->
  (forall fe', In fe' post -> feeds dl wk "node" name fe' = false) ->
  alookup name (some_or_empty (k_nattr (doc_keys dl wk mss root))) =
  Some (key_type fe, fill_of mss (key_type fe) (last_default dl (key_type fe) (x_children fe) None)).
Proof.
  intros Hsplit Hfe Hpost. unfold doc_keys. rewrite Hsplit, fold_left_app. cbn [fold_left].
  apply fold_keeps_node_column.
  - exact Hpost.
  - rewrite key_step_pure_nattr.
    rewrite feeds_plain in Hfe. apply andb_true_iff in Hfe. destruct Hfe as [Hp Hn].
    apply String.eqb_eq in Hn. rewrite Hp, Hn. cbn [some_or_empty].
    rewrite alookup_aset_same. reflexivity.
Qed.

Theorem edge_column_rule dl wk mss root pre fe post name :
  x_children root = pre ++ fe :: post ->
  feeds dl wk "edge" name fe = true ->
  (forall fe', In fe' post -> feeds dl wk "edge" name fe' = false) ->
  alookup name (some_or_empty (k_eattr (doc_keys dl wk mss root))) =
  Some (key_type fe, fill_of mss (key_type fe) (last_default dl (key_type fe) (x_children fe) None)).
Proof.
  intros Hsplit Hfe Hpost. unfold doc_keys. rewrite Hsplit, fold_left_app. cbn [fold_left].
  apply fold_keeps_edge_column.
  - exact Hpost.
  - rewrite key_step_pure_eattr.
    rewrite feeds_plain in Hfe. apply andb_true_iff in Hfe. destruct Hfe as [Hp Hn].
    apply String.eqb_eq in Hn. rewrite Hp, Hn. cbn [some_or_empty].
    rewrite alookup_aset_same. reflexivity.
Qed.

(** * No plain key of a domain: no column table *)

Lemma fold_no_node_column dl wk mss l :
  forall k, (forall fe, In fe l -> plain dl wk "node" fe = false) ->
            k_nattr (fold_left (key_step_pure dl wk mss) l k) = k_nattr k.
Proof.
  induction l as [|fe t IH]; cbn [fold_left]; intros k Hall.
  - reflexivity.
  - rewrite IH.
    + rewrite key_step_pure_nattr, (Hall fe (or_introl eq_refl)). reflexivity.
    + intros fe' Hin. apply Hall. right. exact Hin.
Qed.

Lemma fold_no_edge_column dl wk mss l :
  forall k, (forall fe, In fe l -> plain dl wk "edge" fe = false) ->
            k_eattr (fold_left (key_step_pure dl wk mss) l k) = k_eattr k.
Proof.
  induction l as [|fe t IH]; cbn [fold_left]; intros k Hall.
  - reflexivity.
  - rewrite IH.
    + rewrite key_step_pure_eattr, (Hall fe (or_introl eq_refl)). reflexivity.
    + intros fe' Hin. apply Hall. right. exact Hin.
Qed.

Theorem no_column_rule_node dl wk mss root :
  (forall fe name, In fe (x_children root) -> feeds dl wk "node" name fe = false) ->
  k_nattr (doc_keys dl wk mss root) = None.
Proof.
  intros Hall. unfold doc_keys. rewrite fold_no_node_column.
  - reflexivity.
  - intros fe Hin. rewrite <- feeds_own_name. apply Hall. exact Hin.
Qed.

Theorem no_column_rule_edge dl wk mss root :
  (forall fe name, In fe (x_children root) -> feeds dl wk "edge" name fe = false) ->
  k_eattr (doc_keys dl wk mss root) = None.
Proof.
  intros Hall. unfold doc_keys. rewrite fold_no_edge_column.
  - reflexivity.
  - intros fe Hin. rewrite <- feeds_own_name. apply Hall. exact Hin.
Qed.

(** Proofs about the PageRank model (Model/PageRank.v): contraction, uniqueness, residual bound,
    the surfer operator, Horner / RH, D-iteration, and the refutation of the push kernel. *)
From SKN Require Import Base.Util Model.PageRank.
From Coq Require Import Qabs Qreduction Lqa Psatz Lia Setoid.
Close Scope Q_scope.
Open Scope nat_scope.

(* ------------------------------------------------------------------------------------------ *)
(** * Finite sums *)

Lemma bsum_ext n f g : (forall i, i < n -> (f i == g i)%Q) -> (bsum n f == bsum n g)%Q.
Proof.
  induction n as [|n IH]; intros H; cbn [bsum]; [reflexivity|].
  rewrite IH by (intros; apply H; lia). rewrite (H n) by lia. reflexivity.
Qed.

Lemma bsum_0 n f : (forall i, i < n -> (f i == 0)%Q) -> (bsum n f == 0)%Q.
Proof.
  induction n as [|n IH]; intros H; cbn [bsum]; [reflexivity|].
  rewrite IH by (intros; apply H; lia). rewrite (H n) by lia. lra.
Qed.

Lemma bsum_plus n f g : (bsum n (fun i => f i + g i) == bsum n f + bsum n g)%Q.
Proof. induction n as [|n IH]; cbn [bsum]; [lra|]. rewrite IH. lra. Qed.

Lemma bsum_minus n f g : (bsum n (fun i => f i - g i) == bsum n f - bsum n g)%Q.
Proof. induction n as [|n IH]; cbn [bsum]; [lra|]. rewrite IH. lra. Qed.

Lemma bsum_scale n c f : (bsum n (fun i => c * f i) == c * bsum n f)%Q.
Proof. induction n as [|n IH]; cbn [bsum]; [lra|]. rewrite IH. lra. Qed.

Lemma bsum_scale_r n c f : (bsum n (fun i => f i * c) == bsum n f * c)%Q.
Proof. induction n as [|n IH]; cbn [bsum]; [lra|]. rewrite IH. lra. Qed.

Lemma bsum_le n f g : (forall i, i < n -> (f i <= g i)%Q) -> (bsum n f <= bsum n g)%Q.
Proof.
  induction n as [|n IH]; intros H; cbn [bsum]; [lra|].
  assert (H1 := IH (fun i Hi => H i (Nat.lt_lt_succ_r _ _ Hi))). assert (H2 := H n (Nat.lt_succ_diag_r n)). lra.
Qed.

Lemma bsum_nonneg n f : (forall i, i < n -> (0 <= f i)%Q) -> (0 <= bsum n f)%Q.
Proof.
  induction n as [|n IH]; intros H; cbn [bsum]; [lra|].
  assert (H1 := IH (fun i Hi => H i (Nat.lt_lt_succ_r _ _ Hi))). assert (H2 := H n (Nat.lt_succ_diag_r n)). lra.
Qed.

Lemma bsum_swap n m (f : nat -> nat -> Q) :
  (bsum n (fun i => bsum m (fun j => f i j)) == bsum m (fun j => bsum n (fun i => f i j)))%Q.
Proof.
  induction n as [|n IH]; cbn [bsum].
  - symmetry. apply bsum_0. intros; reflexivity.
  - rewrite IH. rewrite <- bsum_plus. apply bsum_ext. intros; reflexivity.
Qed.

Lemma Qabs_bsum n f : (Qabs (bsum n f) <= bsum n (fun i => Qabs (f i)))%Q.
Proof.
  induction n as [|n IH]; cbn [bsum]; [cbn; lra|].
  eapply Qle_trans; [apply Qabs_triangle|]. lra.
Qed.

(** Sum of a function supported on one index. *)
Lemma bsum_delta n i c : i < n -> (bsum n (fun j => if Nat.eqb j i then c else 0) == c)%Q.
Proof.
  induction n as [|n IH]; intros H; [lia|]. cbn [bsum].
  destruct (Nat.eqb n i) eqn:E.
  - apply Nat.eqb_eq in E. subst i. rewrite bsum_0; [lra|].
    intros j Hj. destruct (Nat.eqb j n) eqn:E2; [apply Nat.eqb_eq in E2; lia|reflexivity].
  - apply Nat.eqb_neq in E. rewrite IH by lia. lra.
Qed.

Lemma bsum_delta_out n i c : n <= i -> (bsum n (fun j => if Nat.eqb j i then c else 0) == 0)%Q.
Proof.
  intros H. apply bsum_0. intros j Hj. destruct (Nat.eqb j i) eqn:E; [apply Nat.eqb_eq in E; lia|reflexivity].
Qed.

Lemma norm1_nonneg n f : (0 <= norm1 n f)%Q.
Proof. apply bsum_nonneg. intros; apply Qabs_nonneg. Qed.

Lemma norm1_ext n f g : (forall i, i < n -> (f i == g i)%Q) -> (norm1 n f == norm1 n g)%Q.
Proof. intros H. apply bsum_ext. intros i Hi. rewrite (H i Hi). reflexivity. Qed.

Lemma norm1_triangle n f g : (norm1 n (fun i => f i + g i) <= norm1 n f + norm1 n g)%Q.
Proof.
  unfold norm1. rewrite <- bsum_plus. apply bsum_le. intros; apply Qabs_triangle.
Qed.

Lemma norm1_zero_inv n f : (norm1 n f <= 0)%Q -> forall i, i < n -> (f i == 0)%Q.
Proof.
  induction n as [|n IH]; intros H i Hi; [lia|]. unfold norm1 in H. cbn [bsum] in H.
  assert (H0 := norm1_nonneg n f). unfold norm1 in H0. assert (H1 := Qabs_nonneg (f n)).
  destruct (Nat.eq_dec i n) as [->|Hne].
  - assert (Hz : (Qabs (f n) <= 0)%Q) by lra.
    assert (Hle := Qle_Qabs (f n)). assert (Hle2 := Qle_Qabs (- f n)). rewrite Qabs_opp in Hle2. lra.
  - apply IH; [unfold norm1; lra | lia].
Qed.

Lemma vsum_le_norm1 n f : (Qabs (vsum n f) <= norm1 n f)%Q.
Proof. apply Qabs_bsum. Qed.

(* ------------------------------------------------------------------------------------------ *)
(** * Contraction in the L1 norm, uniqueness, residual bound *)

Definition nonneg_mat (n : nat) (M : mat) : Prop := forall i j, i < n -> j < n -> (0 <= M i j)%Q.
Definition colsum_le (n : nat) (M : mat) (alpha : Q) : Prop :=
  forall j, j < n -> (bsum n (fun i => M i j) <= alpha)%Q.

Lemma norm1_contract_gen n (M : mat) (alpha : Q) (z : vec) :
  nonneg_mat n M -> colsum_le n M alpha -> (norm1 n (mv n M z) <= alpha * norm1 n z)%Q.
Proof.
  intros Hpos Hcol. unfold norm1, mv.
  eapply Qle_trans.
  { apply bsum_le. intros i Hi. apply Qabs_bsum. }
  rewrite bsum_swap. rewrite <- bsum_scale. apply bsum_le. intros j Hj.
  rewrite (bsum_ext n (fun i => Qabs (M i j * z j)) (fun i => M i j * Qabs (z j))%Q).
  2:{ intros i Hi. rewrite Qabs_Qmult. rewrite (Qabs_pos (M i j)) by (apply Hpos; assumption). reflexivity. }
  rewrite (bsum_scale_r n (Qabs (z j)) (fun i => M i j)). assert (H1 := Hcol j Hj). assert (H2 := Qabs_nonneg (z j)). nra.
Qed.

Lemma mv_ext n M z z' : (forall j, j < n -> (z j == z' j)%Q) -> forall i, (mv n M z i == mv n M z' i)%Q.
Proof. intros H i. unfold mv. apply bsum_ext. intros j Hj. rewrite (H j Hj). reflexivity. Qed.

Lemma mv_minus n M z z' i : (mv n M (fun j => z j - z' j) i == mv n M z i - mv n M z' i)%Q.
Proof. unfold mv. rewrite <- bsum_minus. apply bsum_ext. intros; lra. Qed.

Lemma mv_plus n M z z' i : (mv n M (fun j => z j + z' j) i == mv n M z i + mv n M z' i)%Q.
Proof. unfold mv. rewrite <- bsum_plus. apply bsum_ext. intros; lra. Qed.

Lemma mv_scale n M c z i : (mv n M (fun j => c * z j) i == c * mv n M z i)%Q.
Proof. unfold mv. rewrite <- bsum_scale. apply bsum_ext. intros; lra. Qed.

(** x = M x + b has at most one solution when M contracts with a factor alpha < 1. *)
Lemma fixed_point_unique n M alpha (b x x' : vec) :
  nonneg_mat n M -> colsum_le n M alpha -> (alpha < 1)%Q ->
  (forall i, i < n -> (x i == mv n M x i + b i)%Q) ->
  (forall i, i < n -> (x' i == mv n M x' i + b i)%Q) ->
  forall i, i < n -> (x i == x' i)%Q.
Proof.
  intros Hpos Hcol Ha Hx Hx' i Hi.
  set (d := fun j => (x j - x' j)%Q).
  assert (Hd : forall j, j < n -> (d j == mv n M d j)%Q).
  { intros j Hj. unfold d. rewrite mv_minus. rewrite (Hx j Hj) at 1. rewrite (Hx' j Hj) at 1. lra. }
  assert (Hc := norm1_contract_gen n M alpha d Hpos Hcol).
  assert (Hn : (norm1 n d == norm1 n (mv n M d))%Q) by (apply norm1_ext; exact Hd).
  assert (H0 := norm1_nonneg n d).
  assert (Hz : (norm1 n d <= 0)%Q) by nra.
  assert (Hdi := norm1_zero_inv n d Hz i Hi). unfold d in Hdi. lra.
Qed.

(** Validator soundness: a small residual means a small distance to the solution. *)
Lemma residual_bound_gen n M alpha (b x xs : vec) (eps : Q) :
  nonneg_mat n M -> colsum_le n M alpha -> (alpha < 1)%Q ->
  (norm1 n (fun i => x i - (mv n M x i + b i)) <= eps)%Q ->
  (forall i, i < n -> (xs i == mv n M xs i + b i)%Q) ->
  (norm1 n (fun i => x i - xs i) <= eps / (1 - alpha))%Q.
Proof.
  intros Hpos Hcol Ha Hres Hxs.
  set (d := fun j => (x j - xs j)%Q).
  set (r := fun i => (x i - (mv n M x i + b i))%Q).
  assert (Hd : forall j, j < n -> (d j == mv n M d j + r j)%Q).
  { intros j Hj. unfold d, r. rewrite mv_minus. rewrite (Hxs j Hj) at 1. lra. }
  assert (Hn : (norm1 n d <= norm1 n (mv n M d) + norm1 n r)%Q).
  { rewrite (norm1_ext n d (fun j => mv n M d j + r j)%Q Hd). apply norm1_triangle. }
  assert (Hc := norm1_contract_gen n M alpha d Hpos Hcol).
  fold r in Hres. fold d.
  apply Qle_shift_div_l; [lra|]. nra.
Qed.

(* ------------------------------------------------------------------------------------------ *)
(** * Rows, normalisation: the matrix alpha P^T of a graph *)

Lemma sumq_cons x l : sumq (x :: l) = (x + sumq l)%Q.
Proof. reflexivity. Qed.

Lemma entry_cons e r j :
  (entry (e :: r) j == (if Nat.eqb (fst e) j then snd e else 0) + entry r j)%Q.
Proof.
  unfold entry, sumq. cbn [filter]. destruct (Nat.eqb (fst e) j); cbn [map fold_right]; lra.
Qed.

Lemma entry_nil j : entry [] j = 0%Q.
Proof. reflexivity. Qed.

Lemma bsum_entry n r : wf_row n r = true -> (bsum n (entry r) == sumq (map snd r))%Q.
Proof.
  induction r as [|e r IH]; intros H.
  - apply bsum_0. intros; reflexivity.
  - cbn [wf_row forallb] in H. apply andb_prop in H. destruct H as [He Hr].
    apply Nat.ltb_lt in He.
    rewrite (bsum_ext n _ (fun j => (if Nat.eqb j (fst e) then snd e else 0) + entry r j)%Q).
    2:{ intros j Hj. rewrite entry_cons. rewrite (Nat.eqb_sym (fst e) j). reflexivity. }
    rewrite bsum_plus. rewrite bsum_delta by exact He. rewrite (IH Hr). cbn [map]. rewrite sumq_cons. reflexivity.
Qed.

Lemma entry_nonneg r j : nonneg_row r = true -> (0 <= entry r j)%Q.
Proof.
  induction r as [|e r IH]; intros H; [cbn; lra|].
  cbn [nonneg_row forallb] in H. apply andb_prop in H. destruct H as [He Hr].
  apply Qle_bool_iff in He. rewrite entry_cons. assert (H1 := IH Hr).
  destruct (Nat.eqb (fst e) j); lra.
Qed.

Lemma row_norm_nonneg_eq r : nonneg_row r = true -> (row_norm r == sumq (map snd r))%Q.
Proof.
  induction r as [|e r IH]; intros H; [reflexivity|].
  cbn [nonneg_row forallb] in H. apply andb_prop in H. destruct H as [He Hr].
  apply Qle_bool_iff in He. unfold row_norm in *. cbn [map]. rewrite !sumq_cons.
  rewrite (IH Hr). rewrite Qabs_pos by exact He. reflexivity.
Qed.

Lemma sumq_nonneg r : nonneg_row r = true -> (0 <= sumq (map snd r))%Q.
Proof.
  induction r as [|e r IH]; intros H; [cbn; lra|].
  cbn [nonneg_row forallb] in H. apply andb_prop in H. destruct H as [He Hr].
  apply Qle_bool_iff in He. cbn [map]. rewrite sumq_cons. assert (H1 := IH Hr). lra.
Qed.

Lemma wf_row_map n (f : Q -> Q) r :
  wf_row n (map (fun e => (fst e, f (snd e))) r) = wf_row n r.
Proof. induction r as [|e r IH]; [reflexivity|]. cbn [map wf_row forallb fst]. f_equal. exact IH. Qed.

Lemma sumq_map_div r s :
  (sumq (map snd (map (fun e : nat * Q => (fst e, Qred (snd e / s))) r)) == sumq (map snd r) / s)%Q.
Proof.
  induction r as [|e r IH]; cbn [map snd].
  - cbn. unfold Qdiv. lra.
  - rewrite !sumq_cons. rewrite IH. rewrite Qred_correct. unfold Qdiv. lra.
Qed.

Lemma nonneg_row_map_div r s :
  (0 < s)%Q -> nonneg_row r = true ->
  nonneg_row (map (fun e : nat * Q => (fst e, Qred (snd e / s))) r) = true.
Proof.
  intros Hs. induction r as [|e r IH]; intros H; [reflexivity|].
  cbn [nonneg_row forallb] in H. apply andb_prop in H. destruct H as [He Hr].
  cbn [map nonneg_row forallb snd]. apply andb_true_intro. split; [|exact (IH Hr)].
  apply Qle_bool_iff. rewrite Qred_correct. apply Qle_bool_iff in He.
  apply Qle_shift_div_l; [exact Hs|]. lra.
Qed.

(** Facts about one normalised row. *)
Lemma normalize_row_facts n r :
  wf_row n r = true -> nonneg_row r = true ->
  wf_row n (normalize_row r) = true /\ nonneg_row (normalize_row r) = true /\
  (bsum n (entry (normalize_row r)) == (if Qeq_bool (sumq (map snd r)) 0 then 0 else 1))%Q.
Proof.
  intros Hwf Hnn. unfold normalize_row.
  assert (Hs := row_norm_nonneg_eq r Hnn). assert (Hp := sumq_nonneg r Hnn).
  destruct (Qeq_bool (Qred (row_norm r)) 0) eqn:E.
  - apply Qeq_bool_iff in E. rewrite Qred_correct in E.
    split; [reflexivity|]. split; [reflexivity|].
    assert (E2 : (sumq (map snd r) == 0)%Q) by lra.
    apply Qeq_bool_iff in E2. rewrite E2. apply bsum_0. intros; reflexivity.
  - apply Qeq_bool_neq in E. rewrite Qred_correct in E.
    assert (Hpos : (0 < Qred (row_norm r))%Q) by (rewrite Qred_correct; lra).
    split; [rewrite (wf_row_map n (fun w => Qred (w / Qred (row_norm r))%Q)); exact Hwf|].
    split; [apply nonneg_row_map_div; assumption|].
    rewrite bsum_entry by (rewrite (wf_row_map n (fun w => Qred (w / Qred (row_norm r))%Q)); exact Hwf).
    rewrite sumq_map_div. rewrite Qred_correct.
    destruct (Qeq_bool (sumq (map snd r)) 0) eqn:E3.
    + apply Qeq_bool_iff in E3. lra.
    + rewrite Hs. field. lra.
Qed.

Lemma forallb_nth {A} (f : A -> bool) l d i : forallb f l = true -> f d = true -> f (nth i l d) = true.
Proof.
  revert i. induction l as [|a l IH]; intros [|i] H Hd; cbn [nth]; try exact Hd.
  - cbn in H. apply andb_prop in H. tauto.
  - cbn in H. apply andb_prop in H. apply IH; tauto.
Qed.

Lemma wrow_of_normalize g i : wrow_of (normalize g) i = normalize_row (wrow_of g i).
Proof.
  unfold wrow_of, normalize. change (@nil (nat * Q)) with (normalize_row []) at 1. apply map_nth.
Qed.

(** The transition matrix of a well-formed non-negative graph: non-negative, row i sums to has_out i. *)
Lemma P_facts g :
  wf_graph g = true -> nonneg_graph g = true ->
  (forall i j, (0 <= P g i j)%Q) /\
  (forall i, (bsum (length g) (P g i) == has_out g i)%Q) /\
  (forall i, has_out g i = 0%Q \/ has_out g i = 1%Q).
Proof.
  intros Hwf Hnn.
  assert (Hr : forall i, wf_row (length g) (wrow_of g i) = true /\ nonneg_row (wrow_of g i) = true).
  { intros i. split; unfold wrow_of; [apply (forallb_nth (wf_row (length g))) | apply (forallb_nth nonneg_row)];
      try assumption; reflexivity. }
  split; [|split].
  - intros i j. unfold P, Pn. rewrite wrow_of_normalize. destruct (Hr i) as [H1 H2].
    apply entry_nonneg. apply (normalize_row_facts _ _ H1 H2).
  - intros i. unfold P, Pn. rewrite wrow_of_normalize. destruct (Hr i) as [H1 H2].
    destruct (normalize_row_facts _ _ H1 H2) as (_ & _ & H3).
    rewrite (bsum_ext _ _ (entry (normalize_row (wrow_of g i)))) by (intros; reflexivity).
    rewrite H3. unfold has_out. reflexivity.
  - intros i. unfold has_out. destruct (Qeq_bool _ _); auto.
Qed.

(** M = alpha P^T: non-negative with column sums alpha * has_out <= alpha. *)
Lemma Ma_facts g alpha :
  wf_graph g = true -> nonneg_graph g = true -> (0 <= alpha)%Q ->
  nonneg_mat (length g) (Ma (normalize g) alpha) /\ colsum_le (length g) (Ma (normalize g) alpha) alpha /\
  (forall i, (bsum (length g) (fun j => Ma (normalize g) alpha j i) == alpha * has_out g i)%Q).
Proof.
  intros Hwf Hnn Ha. destruct (P_facts g Hwf Hnn) as (Hp & Hs & Ho).
  assert (Hc : forall i, (bsum (length g) (fun j => Ma (normalize g) alpha j i) == alpha * has_out g i)%Q).
  { intros i. unfold Ma. rewrite bsum_scale. rewrite <- (Hs i). reflexivity. }
  split; [|split; [|exact Hc]].
  - intros i j _ _. unfold Ma. assert (H := Hp j i). unfold P in H. nra.
  - intros j _. rewrite Hc. destruct (Ho j) as [-> | ->]; lra.
Qed.

(* ------------------------------------------------------------------------------------------ *)
(** * Lists as vectors *)

Lemma V_overflow l j : length l <= j -> V l j = 0%Q.
Proof. intros H. unfold V, nthq. apply nth_overflow. exact H. Qed.

Lemma V_map_Qred (f : Q -> Q) l j :
  (f 0 == 0)%Q -> (V (map (fun x => Qred (f x)) l) j == f (V l j))%Q.
Proof.
  intros H0. destruct (Nat.lt_ge_cases j (length l)) as [Hj|Hj].
  - unfold V, nthq. rewrite (nth_indep _ 0%Q (Qred (f 0%Q))) by (rewrite map_length; exact Hj).
    rewrite (map_nth (fun x => Qred (f x))). apply Qred_correct.
  - rewrite !V_overflow by (try rewrite map_length; exact Hj). symmetry. exact H0.
Qed.

Lemma V_vscale c l j : (V (vscale c l) j == c * V l j)%Q.
Proof. unfold vscale. apply (V_map_Qred (fun x => c * x)%Q). lra. Qed.

Lemma tab_length n f : length (tab n f) = n.
Proof. unfold tab. rewrite map_length. apply seq_length. Qed.

Lemma V_tab n f j : j < n -> (V (tab n f) j == f j)%Q.
Proof.
  intros Hj. unfold V, nthq, tab. rewrite (nth_indep _ 0%Q (Qred (f 0))) by (rewrite map_length, seq_length; exact Hj).
  rewrite (map_nth (fun i => Qred (f i))). rewrite seq_nth by exact Hj. apply Qred_correct.
Qed.

Lemma vscale_length c l : length (vscale c l) = length l.
Proof. apply map_length. Qed.

(* ------------------------------------------------------------------------------------------ *)
(** * Distance between normalised vectors *)

Lemma Qabs_le_of a b : (- b <= a)%Q -> (a <= b)%Q -> (Qabs a <= b)%Q.
Proof. intros H1 H2. apply Qabs_Qle_condition. split; assumption. Qed.

Lemma vsum_minus n f g : (vsum n (fun i => f i - g i) == vsum n f - vsum n g)%Q.
Proof. apply bsum_minus. Qed.

Lemma normalized_distance n (x xs : vec) (delta : Q) :
  (norm1 n (fun j => x j - xs j) <= delta)%Q ->
  (delta < Qabs (vsum n x))%Q ->
  ~ (vsum n xs == 0)%Q /\
  (norm1 n (fun j => x j / vsum n x - xs j / vsum n xs) * (Qabs (vsum n x) * (Qabs (vsum n x) - delta))
   <= delta * (Qabs (vsum n x) + norm1 n x))%Q.
Proof.
  intros Hd Hs.
  set (S := vsum n x) in *. set (T := vsum n xs).
  assert (Hd0 : (0 <= delta)%Q) by (eapply Qle_trans; [apply (norm1_nonneg n (fun j => x j - xs j)%Q)|exact Hd]).
  assert (HST : (Qabs (S - T) <= delta)%Q).
  { unfold S, T. rewrite <- vsum_minus. eapply Qle_trans; [apply vsum_le_norm1|exact Hd]. }
  assert (HT : (Qabs S - delta <= Qabs T)%Q).
  { assert (H := Qabs_triangle (S - T) T). setoid_replace (S - T + T)%Q with S in H by ring. lra. }
  assert (HTpos : (0 < Qabs T)%Q) by lra.
  assert (HTn : ~ (T == 0)%Q). { intros E. rewrite E in HTpos. cbn in HTpos. lra. }
  assert (HSn : ~ (S == 0)%Q). { intros E. rewrite E in Hs. cbn in Hs. lra. }
  split; [exact HTn|].
  assert (HSpos : (0 < Qabs S)%Q) by lra.
  (* pointwise bound multiplied by |S||T| *)
  assert (Hpt : forall j, (Qabs (x j / S - xs j / T) * (Qabs S * Qabs T)
                           <= Qabs S * Qabs (x j - xs j) + Qabs (x j) * delta)%Q).
  { intros j.
    rewrite <- (Qabs_Qmult S T). rewrite <- Qabs_Qmult.
    setoid_replace ((x j / S - xs j / T) * (S * T))%Q with (S * (x j - xs j) + x j * (T - S))%Q by (field; split; assumption).
    eapply Qle_trans; [apply Qabs_triangle|]. rewrite !Qabs_Qmult.
    assert (H1 : (Qabs (T - S) <= delta)%Q).
    { setoid_replace (T - S)%Q with (- (S - T))%Q by ring. rewrite Qabs_opp. exact HST. }
    assert (H2 := Qabs_nonneg (x j)). nra. }
  assert (Hsum : (norm1 n (fun j => x j / S - xs j / T) * (Qabs S * Qabs T)
                  <= Qabs S * norm1 n (fun j => x j - xs j) + norm1 n x * delta)%Q).
  { unfold norm1. rewrite <- bsum_scale_r. rewrite <- bsum_scale. rewrite <- (bsum_scale_r n delta). rewrite <- bsum_plus.
    apply bsum_le. intros j _. apply Hpt. }
  assert (Hn0 := norm1_nonneg n (fun j => x j / S - xs j / T)%Q).
  assert (Hnx := norm1_nonneg n x).
  set (N := norm1 n (fun j => x j / S - xs j / T)%Q) in *.
  set (D := norm1 n (fun j => x j - xs j)%Q) in *.
  set (a := Qabs S) in *. set (b := Qabs T) in *.
  assert (Hab : (a * (a - delta) <= a * b)%Q) by nra.
  assert (Hstep : (N * (a * (a - delta)) <= N * (a * b))%Q) by nra.
  assert (HaD : (a * D <= a * delta)%Q) by nra.
  lra.
Qed.

(* ------------------------------------------------------------------------------------------ *)
(** * Uniqueness of the PageRank vector and soundness of the residual validator *)

Definition good_graph (g : wgraph) : Prop := wf_graph g = true /\ nonneg_graph g = true.

Lemma solution_unique g alpha (y x x' : vec) :
  good_graph g -> (0 <= alpha < 1)%Q ->
  is_solution (length g) (P g) alpha y x -> is_solution (length g) (P g) alpha y x' ->
  forall j, j < length g -> (x j == x' j)%Q.
Proof.
  intros [Hwf Hnn] [Ha0 Ha1] Hx Hx'.
  destruct (Ma_facts g alpha Hwf Hnn Ha0) as (Hp & Hc & _).
  apply (fixed_point_unique (length g) (Ma (normalize g) alpha) alpha (fun j => (1 - alpha) * y j)%Q); assumption.
Qed.

Lemma pagerank_unique g alpha (y p p' : vec) :
  good_graph g -> (0 <= alpha < 1)%Q ->
  is_pagerank (length g) (P g) alpha y p -> is_pagerank (length g) (P g) alpha y p' ->
  forall j, j < length g -> (p j == p' j)%Q.
Proof.
  intros Hg Ha (x & Hx & Hsx & Hp) (x' & Hx' & Hsx' & Hp') j Hj.
  assert (Hxx := solution_unique g alpha y x x' Hg Ha Hx Hx').
  rewrite (Hp j Hj), (Hp' j Hj). rewrite (Hxx j Hj).
  assert (Hs : (vsum (length g) x == vsum (length g) x')%Q) by (apply bsum_ext; exact Hxx).
  rewrite Hs. reflexivity.
Qed.

Lemma residual_bound_graph g alpha (y x xs : vec) eps :
  good_graph g -> (0 <= alpha < 1)%Q ->
  (norm1 (length g) (fun j => x j - (mv (length g) (PT alpha (P g)) x j + (1 - alpha) * y j)) <= eps)%Q ->
  is_solution (length g) (P g) alpha y xs ->
  (norm1 (length g) (fun j => x j - xs j) <= eps / (1 - alpha))%Q.
Proof.
  intros [Hwf Hnn] [Ha0 Ha1] Hres Hxs.
  destruct (Ma_facts g alpha Hwf Hnn Ha0) as (Hp & Hc & _).
  apply (residual_bound_gen (length g) (Ma (normalize g) alpha) alpha (fun j => (1 - alpha) * y j)%Q); assumption.
Qed.

Lemma Qltb_lt a b : Qltb a b = true <-> (a < b)%Q.
Proof.
  unfold Qltb. rewrite negb_true_iff. split.
  - intros H. apply Qnot_le_lt. intros Hle. apply Qle_bool_iff in Hle. congruence.
  - intros H. destruct (Qle_bool b a) eqn:E; [|reflexivity]. apply Qle_bool_iff in E. lra.
Qed.

Theorem residual_check_sound_proof g alpha y p eps :
  residual_check g alpha y p eps = true ->
  good_graph g /\ (0 <= alpha < 1)%Q /\
  forall xs, is_solution (length g) (P g) alpha (V y) xs ->
    ~ (vsum (length g) xs == 0)%Q /\ ~ (vsum (length g) (V p) == 0)%Q /\
    (norm1 (length g) (fun j => V p j / vsum (length g) (V p) - xs j / vsum (length g) xs) <= eps)%Q.
Proof.
  unfold residual_check, residual_parts. set (n := length g).
  set (den := Qred (bsum n (V p) - alpha * bsum n (fun i => has_out g i * V p i))%Q).
  set (c := Qred ((1 - alpha) / den)%Q).
  set (x := vscale c p).
  set (r := Qred (norm1 n (fun j => V x j - (mv n (Ma (normalize g) alpha) (V x) j + (1 - alpha) * V y j)))%Q).
  set (delta := Qred (r / (1 - alpha))%Q).
  set (s := Qred (Qabs (bsum n (V x)))). set (nx := Qred (norm1 n (V x))).
  intros H. repeat (apply andb_prop in H; destruct H as [H ?]).
  rename H into Hlp. rename H0 into Hchk. rename H1 into Hds. rename H2 into Hden.
  rename H3 into Ha1. rename H4 into Ha0. rename H5 into Hnn. rename H6 into Hwf. rename H7 into Hly.
  apply Qle_bool_iff in Ha0. apply Qltb_lt in Ha1. apply Qltb_lt in Hds. apply Qle_bool_iff in Hchk.
  split; [split; assumption|]. split; [split; assumption|].
  intros xs Hxs.
  assert (Hgood : good_graph g) by (split; assumption).
  assert (Hr : (norm1 n (fun j => V x j - xs j) <= delta)%Q).
  { unfold delta. rewrite Qred_correct. apply (residual_bound_graph g alpha (V y) (V x) xs r Hgood); [split; assumption| |exact Hxs].
    unfold r. rewrite Qred_correct. apply Qle_refl. }
  assert (Hs' : (delta < Qabs (vsum n (V x)))%Q). { unfold s in Hds. rewrite Qred_correct in Hds. exact Hds. }
  destruct (normalized_distance n (V x) xs delta Hr Hs') as [HT Hnd].
  assert (HSx : ~ (vsum n (V x) == 0)%Q).
  { intros E. rewrite E in Hs'. change (Qabs 0) with 0%Q in Hs'.
    assert (H0 := norm1_nonneg n (fun j => V x j - xs j)%Q). lra. }
  assert (Hxc : forall j, (V x j == c * V p j)%Q) by (intros j; unfold x; apply V_vscale).
  assert (Hsc : (vsum n (V x) == c * vsum n (V p))%Q).
  { unfold vsum. rewrite <- bsum_scale. apply bsum_ext. intros j _. apply Hxc. }
  assert (Hc : ~ (c == 0)%Q). { intros E. apply HSx. rewrite Hsc, E. lra. }
  assert (HSp : ~ (vsum n (V p) == 0)%Q). { intros E. apply HSx. rewrite Hsc, E. lra. }
  split; [exact HT|]. split; [exact HSp|].
  assert (Heq : (norm1 n (fun j => V p j / vsum n (V p) - xs j / vsum n xs)
                 == norm1 n (fun j => V x j / vsum n (V x) - xs j / vsum n xs))%Q).
  { apply norm1_ext. intros j _. rewrite (Hxc j), Hsc. field. repeat split; assumption. }
  rewrite Heq.
  unfold s, nx in Hchk. rewrite !Qred_correct in Hchk.
  set (N := norm1 n (fun j => V x j / vsum n (V x) - xs j / vsum n xs)%Q) in *.
  set (a := Qabs (vsum n (V x))) in *. set (b := norm1 n (V x)) in *.
  fold a in Hchk. change (bsum n (V x)) with (vsum n (V x)) in Hchk. fold a in Hchk.
  assert (Hpos : (0 < a * (a - delta))%Q).
  { assert (Hd0 : (0 <= delta)%Q) by (eapply Qle_trans; [apply (norm1_nonneg n (fun j => V x j - xs j)%Q)|exact Hr]). nra. }
  assert (Hfin : (N * (a * (a - delta)) <= eps * (a * (a - delta)))%Q) by lra.
  apply Qmult_le_r in Hfin; assumption.
Qed.

(* ------------------------------------------------------------------------------------------ *)
(** * The random-surfer operator as coded *)

Lemma surfer_matvec_length g alpha y x : length (surfer_matvec g alpha y x) = length g.
Proof. unfold surfer_matvec. apply tab_length. Qed.

Lemma surfer_matvec_spec g alpha y x j :
  j < length g ->
  (V (surfer_matvec g alpha y x) j == surfer_fun (length g) g (normalize g) alpha (V y) (V x) j)%Q.
Proof.
  intros Hj. unfold surfer_matvec. rewrite V_tab by exact Hj. rewrite Qred_correct. unfold surfer_fun. reflexivity.
Qed.

(** The coded operator is the transition kernel of the surfer of the property text. *)
Lemma surfer_fun_kernel n g alpha (y x : vec) j :
  (surfer_fun n g (normalize g) alpha y x j == mv n (surfer_kernel (P g) (has_out g) alpha y) x j)%Q.
Proof.
  unfold surfer_fun, surfer_kernel, mv, restart, Ma, P.
  rewrite <- bsum_scale. rewrite <- bsum_plus. apply bsum_ext. intros i _. ring.
Qed.

Lemma surfer_mass g alpha (y x : vec) :
  good_graph g -> (0 <= alpha)%Q -> (vsum (length g) y == 1)%Q ->
  (vsum (length g) (surfer_fun (length g) g (normalize g) alpha y x) == vsum (length g) x)%Q.
Proof.
  intros [Hwf Hnn] Ha Hy. set (n := length g) in *.
  destruct (Ma_facts g alpha Hwf Hnn Ha) as (_ & _ & Hc). fold n in Hc.
  unfold vsum, surfer_fun. rewrite bsum_plus. rewrite bsum_scale_r.
  unfold vsum in Hy. rewrite Hy. unfold mv. rewrite bsum_swap.
  rewrite (bsum_ext n (fun j => bsum n (fun i => Ma (normalize g) alpha i j * x j))%Q
                      (fun j => (alpha * has_out g j) * x j)%Q).
  2:{ intros j _. rewrite bsum_scale_r. rewrite Hc. reflexivity. }
  rewrite Qmult_1_l. rewrite <- bsum_plus. apply bsum_ext. intros i _. unfold restart. ring.
Qed.

Lemma fixed_point_is_pagerank g alpha (y x : vec) :
  good_graph g -> (0 <= alpha < 1)%Q ->
  (vsum (length g) x == 1)%Q ->
  (forall j, j < length g -> (surfer_fun (length g) g (normalize g) alpha y x j == x j)%Q) ->
  is_pagerank (length g) (P g) alpha y x.
Proof.
  intros [Hwf Hnn] [Ha0 Ha1] Hsx Hfix. set (n := length g) in *.
  destruct (Ma_facts g alpha Hwf Hnn Ha0) as (Hp & Hcs & _). fold n in Hp, Hcs.
  set (c := bsum n (fun i => restart g alpha i * x i)%Q).
  assert (Hx : forall j, j < n -> (x j == mv n (Ma (normalize g) alpha) x j + y j * c)%Q).
  { intros j Hj. rewrite <- (Hfix j Hj) at 1. unfold surfer_fun. fold c. reflexivity. }
  assert (Hc : ~ (c == 0)%Q).
  { intros E.
    assert (Hz : forall j, j < n -> (x j == (fun _ => 0%Q) j)%Q).
    { apply (fixed_point_unique n (Ma (normalize g) alpha) alpha (fun _ => 0%Q)); try assumption.
      - intros j Hj. rewrite (Hx j Hj) at 1. rewrite E. ring.
      - intros j Hj. unfold mv. rewrite bsum_0; [ring|]. intros; ring. }
    assert (H0 : (vsum n x == 0)%Q) by (apply bsum_0; exact Hz). rewrite H0 in Hsx. lra. }
  set (k := ((1 - alpha) / c)%Q).
  assert (Hk : ~ (k == 0)%Q).
  { unfold k. intros E. apply (Qmult_inj_r _ _ c Hc) in E. unfold Qdiv in E.
    rewrite <- Qmult_assoc, (Qmult_comm (/ c)), Qmult_inv_r in E by exact Hc. lra. }
  exists (fun j => k * x j)%Q. split; [|split].
  - intros j Hj. rewrite mv_scale. rewrite (Hx j Hj) at 1. unfold k. unfold PT, P. change (fun j0 i : nat => alpha * Pn (normalize g) i j0)%Q with (Ma (normalize g) alpha). field. exact Hc.
  - unfold vsum. rewrite bsum_scale. unfold vsum in Hsx. rewrite Hsx. lra.
  - intros j Hj. unfold vsum. rewrite bsum_scale. unfold vsum in Hsx. rewrite Hsx. field. exact Hk.
Qed.

(** A stationary distribution of the surfer's chain is the PageRank vector. *)
Lemma stationary_is_pagerank g alpha (y p : vec) :
  good_graph g -> (0 <= alpha < 1)%Q ->
  is_stationary (length g) (surfer_kernel (P g) (has_out g) alpha y) p ->
  is_pagerank (length g) (P g) alpha y p.
Proof.
  intros Hg Ha [Hs Hst]. apply fixed_point_is_pagerank; try assumption.
  intros j Hj. rewrite surfer_fun_kernel. symmetry. apply Hst. exact Hj.
Qed.

Lemma V_div l s j : (V (map (fun x => Qred (x / s)) l) j == V l j / s)%Q.
Proof. apply (V_map_Qred (fun x => x / s)%Q). unfold Qdiv. ring. Qed.

Lemma lsum_spec l : (lsum l == vsum (length l) (V l))%Q.
Proof. unfold lsum. apply Qred_correct. Qed.

Lemma vnormalize_spec l j : (V (vnormalize l) j == V l j / vsum (length l) (V l))%Q.
Proof. unfold vnormalize. rewrite V_div. rewrite lsum_spec. reflexivity. Qed.

Lemma surfer_matvec_mass g alpha y x :
  good_graph g -> (0 <= alpha)%Q -> (vsum (length g) (V y) == 1)%Q ->
  (vsum (length g) (V (surfer_matvec g alpha y x)) == vsum (length g) (V x))%Q.
Proof.
  intros Hg Ha Hy. rewrite <- (surfer_mass g alpha (V y) (V x) Hg Ha Hy).
  apply bsum_ext. intros j Hj. apply surfer_matvec_spec. exact Hj.
Qed.

Theorem piteration_fixed_point_proof g alpha y x :
  good_graph g -> (0 <= alpha < 1)%Q ->
  (vsum (length g) (V y) == 1)%Q -> (vsum (length g) (V x) == 1)%Q ->
  (forall j, j < length g -> (V (piteration_step (surfer_matvec g alpha y) x) j == V x j)%Q) ->
  is_pagerank (length g) (P g) alpha (V y) (V x).
Proof.
  intros Hg Ha Hy Hx Hfix. apply fixed_point_is_pagerank; try assumption.
  intros j Hj. rewrite <- (Hfix j Hj). unfold piteration_step. rewrite vnormalize_spec.
  rewrite surfer_matvec_length. rewrite (surfer_matvec_mass g alpha y x Hg (proj1 Ha) Hy). rewrite Hx.
  rewrite surfer_matvec_spec by exact Hj. field.
Qed.

(** The operator before the repair: its normalised fixed point on 0 -> 1 (uniform restart,
    alpha = 4/7) is (1/4, 3/4), whereas the PageRank vector is (7/18, 11/18). *)
Theorem old_operator_refuted_proof :
  exists (g : wgraph) (alpha : Q) (y x xs : list Q),
    good_graph g /\ (0 <= alpha < 1)%Q /\ (vsum (length g) (V y) == 1)%Q /\ (vsum (length g) (V x) == 1)%Q /\
    piteration_step (old_surfer_matvec g alpha y) x = x /\
    solution_check g alpha y xs = true /\
    ~ (V x O == V xs O / vsum (length g) (V xs))%Q /\
    piteration_step (surfer_matvec g alpha y) (vnormalize xs) = vnormalize xs.
Proof.
  exists [[(1, 1%Q)]; []], (4 # 7)%Q, [1 # 2; 1 # 2]%Q, [1 # 4; 3 # 4]%Q, [3 # 14; 33 # 98]%Q.
  repeat split; try reflexivity; try (cbn; lra); try (vm_compute; congruence).
Qed.

(* ------------------------------------------------------------------------------------------ *)
(** * Horner's scheme (Polynome._matvec) and the RH solver *)

(** [veq n l f]: the list l represents the vector f on n coordinates. *)
Definition veq (n : nat) (l : list Q) (f : vec) : Prop := length l = n /\ forall j, j < n -> (V l j == f j)%Q.

Lemma V_map2_Qred (f : Q -> Q -> Q) a b j :
  j < length a -> j < length b -> (V (map2 (fun x y => Qred (f x y)) a b) j == f (V a j) (V b j))%Q.
Proof.
  intros Ha Hb. unfold V, nthq.
  rewrite (nth_map2 (fun x y => Qred (f x y)) a b j 0%Q 0%Q 0%Q Ha Hb). apply Qred_correct.
Qed.

Lemma veq_vadd n a b f g : veq n a f -> veq n b g -> veq n (vadd a b) (fun j => f j + g j)%Q.
Proof.
  intros [La Ha] [Lb Hb]. split.
  - unfold vadd. rewrite map2_length, La, Lb. apply Nat.min_id.
  - intros j Hj. unfold vadd. rewrite (V_map2_Qred Qplus) by lia. rewrite (Ha j Hj), (Hb j Hj). reflexivity.
Qed.

Lemma veq_vscale n c a f : veq n a f -> veq n (vscale c a) (fun j => c * f j)%Q.
Proof.
  intros [La Ha]. split; [rewrite vscale_length; exact La|].
  intros j Hj. rewrite V_vscale. rewrite (Ha j Hj). reflexivity.
Qed.

Lemma veq_mvl n M a f : veq n a f -> veq n (mvl n M a) (mv n M f).
Proof.
  intros [La Ha]. split; [apply tab_length|].
  intros j Hj. unfold mvl. rewrite V_tab by exact Hj. apply mv_ext. exact Ha.
Qed.

Lemma veq_ext n a f g : veq n a f -> (forall j, j < n -> (f j == g j)%Q) -> veq n a g.
Proof. intros [La Ha] H. split; [exact La|]. intros j Hj. rewrite (Ha j Hj). apply H. exact Hj. Qed.

Lemma veq_V l : veq (length l) l (V l).
Proof. split; [reflexivity|]. intros; reflexivity. Qed.

Lemma pow_mv_ext n M k z z' :
  (forall j, j < n -> (z j == z' j)%Q) -> forall j, j < n -> (pow_mv n M k z j == pow_mv n M k z' j)%Q.
Proof.
  induction k as [|k IH]; intros H j Hj; cbn [pow_mv]; [apply H; exact Hj|].
  apply mv_ext. intros i Hi. apply IH; assumption.
Qed.

Lemma pow_mv_lin n M k (u v : vec) a j :
  j < n -> (pow_mv n M k (fun i => u i + a * v i) j == pow_mv n M k u j + a * pow_mv n M k v j)%Q.
Proof.
  revert j. induction k as [|k IH]; intros j Hj; cbn [pow_mv]; [reflexivity|].
  rewrite (mv_ext n M _ (fun i => pow_mv n M k u i + a * pow_mv n M k v i)%Q) by exact IH.
  rewrite mv_plus, mv_scale. reflexivity.
Qed.

Lemma pow_mv_shift n M k z j : j < n -> (pow_mv n M k (mv n M z) j == pow_mv n M (S k) z j)%Q.
Proof.
  revert j. induction k as [|k IH]; intros j Hj; cbn [pow_mv]; [reflexivity|].
  apply mv_ext. intros i Hi. rewrite (IH i Hi). reflexivity.
Qed.

(** One pass of the loop body over the remaining (descending) coefficients. *)
Lemma horner_fold n M (x : list Q) (rest : list Q) (y : list Q) (fy : vec) :
  length x = n -> veq n y fy ->
  veq n (fold_left (fun y a => vadd (mvl n M y) (vscale a x)) rest y)
        (fun j => pow_mv n M (length rest) fy j
                  + bsum (length rest) (fun k => nthq (rev rest) k * pow_mv n M k (V x) j))%Q.
Proof.
  intros Lx. revert y fy. induction rest as [|a rest IH]; intros y fy Hy.
  - cbn [fold_left length bsum pow_mv]. eapply veq_ext; [exact Hy|]. intros; lra.
  - cbn [fold_left].
    assert (Hstep : veq n (vadd (mvl n M y) (vscale a x)) (fun j => mv n M fy j + a * V x j)%Q).
    { apply veq_vadd; [apply veq_mvl; exact Hy|]. apply veq_vscale. rewrite <- Lx. apply veq_V. }
    eapply veq_ext; [apply (IH _ _ Hstep)|].
    intros j Hj. cbn [length bsum rev].
    rewrite (pow_mv_lin n M (length rest) (mv n M fy) (V x) a j Hj).
    rewrite (pow_mv_shift n M (length rest) fy j Hj).
    assert (Hlast : nthq (rev rest ++ [a]) (length rest) = a).
    { unfold nthq. rewrite app_nth2 by (rewrite rev_length; lia). rewrite rev_length, Nat.sub_diag. reflexivity. }
    rewrite Hlast.
    rewrite (bsum_ext (length rest) (fun k => nthq (rev rest ++ [a]) k * pow_mv n M k (V x) j)%Q
                      (fun k => nthq (rev rest) k * pow_mv n M k (V x) j)%Q).
    2:{ intros k Hk. unfold nthq. rewrite app_nth1 by (rewrite rev_length; exact Hk). reflexivity. }
    ring.
Qed.

Theorem horner_eq_power_sum_proof n M (coeffs x : list Q) :
  length x = n -> coeffs <> [] ->
  veq n (horner (mvl n M) coeffs x) (power_sum n M coeffs (V x)).
Proof.
  intros Lx Hne. unfold horner.
  destruct (rev coeffs) as [|c rest] eqn:E.
  { exfalso. apply Hne. apply (f_equal (@rev Q)) in E. rewrite rev_involutive in E. exact E. }
  assert (Hc : coeffs = rev rest ++ [c]).
  { apply (f_equal (@rev Q)) in E. rewrite rev_involutive in E. exact E. }
  assert (H0 : veq n (vscale c x) (fun j => c * V x j)%Q).
  { apply veq_vscale. rewrite <- Lx. apply veq_V. }
  eapply veq_ext; [apply (horner_fold n M x rest _ _ Lx H0)|].
  intros j Hj. unfold power_sum. subst coeffs. rewrite app_length, rev_length. cbn [length]. rewrite Nat.add_1_r.
  cbn [bsum].
  assert (Hlast : nthq (rev rest ++ [c]) (length rest) = c).
  { unfold nthq. rewrite app_nth2 by (rewrite rev_length; lia). rewrite rev_length, Nat.sub_diag. reflexivity. }
  rewrite Hlast.
  rewrite (bsum_ext (length rest) (fun k => nthq (rev rest ++ [c]) k * pow_mv n M k (V x) j)%Q
                    (fun k => nthq (rev rest) k * pow_mv n M k (V x) j)%Q).
  2:{ intros k Hk. unfold nthq. rewrite app_nth1 by (rewrite rev_length; exact Hk). reflexivity. }
  assert (Hsc : (pow_mv n M (length rest) (fun j0 => c * V x j0) j == c * pow_mv n M (length rest) (V x) j)%Q).
  { assert (H := pow_mv_lin n M (length rest) (fun _ => 0%Q) (V x) c j Hj).
    rewrite (pow_mv_ext n M (length rest) (fun j0 => c * V x j0)%Q (fun i => 0 + c * V x i)%Q) by (intros; try ring; assumption).
    rewrite H.
    assert (Hz : forall k i, i < n -> (pow_mv n M k (fun _ => 0%Q) i == 0)%Q).
    { induction k as [|k IHk]; intros i Hi; cbn [pow_mv]; [reflexivity|].
      unfold mv. apply bsum_0. intros u Hu. rewrite (IHk u Hu). ring. }
    rewrite (Hz _ j Hj). ring. }
  rewrite Hsc. ring.
Qed.

Lemma mv_bsum n M m (F : nat -> vec) i :
  (mv n M (fun j => bsum m (fun k => F k j)) i == bsum m (fun k => mv n M (F k) i))%Q.
Proof.
  unfold mv.
  rewrite (bsum_ext n _ (fun j => bsum m (fun k => M i j * F k j))%Q) by (intros j _; rewrite bsum_scale; reflexivity).
  apply bsum_swap.
Qed.

Lemma bsum_telescope m (a : nat -> Q) : (bsum m (fun k => a k - a (S k)) == a O - a m)%Q.
Proof. induction m as [|m IH]; cbn [bsum]; [ring|]. rewrite IH. ring. Qed.

Lemma apow_nonneg a k : (0 <= a)%Q -> (0 <= apow a k)%Q.
Proof. intros Ha. induction k as [|k IH]; cbn [apow]; [lra|nra]. Qed.

Lemma pow_contract n M alpha k z :
  nonneg_mat n M -> colsum_le n M alpha -> (0 <= alpha)%Q ->
  (norm1 n (pow_mv n M k z) <= apow alpha k * norm1 n z)%Q.
Proof.
  intros Hp Hc Ha. induction k as [|k IH]; cbn [pow_mv apow]; [lra|].
  assert (H := norm1_contract_gen n M alpha (pow_mv n M k z) Hp Hc).
  assert (H0 := apow_nonneg alpha k Ha). nra.
Qed.

Lemma nthq_repeat c m k : k < m -> nthq (repeat c m) k = c.
Proof. revert k. induction m as [|m IH]; intros [|k] H; cbn; try lia; auto. apply IH. lia. Qed.

(** RH returns the truncated Neumann series, whose residual decays like alpha^(K+1). *)
Theorem rh_error_proof g alpha y K :
  good_graph g -> (0 <= alpha)%Q -> length y = length g ->
  let n := length g in
  let M := PT alpha (P g) in
  let s := rh g alpha y K in
  veq n s (fun j => bsum (S K) (fun k => pow_mv n M k (V y) j)) /\
  (norm1 n (fun j => V s j - (mv n M (V s) j + V y j)) <= apow alpha (S K) * norm1 n (V y))%Q.
Proof.
  intros [Hwf Hnn] Ha Ly n M s.
  destruct (Ma_facts g alpha Hwf Hnn Ha) as (Hp & Hc & _).
  change (Ma (normalize g) alpha) with M in Hp, Hc. fold n in Hp, Hc.
  assert (Hs : veq n s (fun j => bsum (S K) (fun k => pow_mv n M k (V y) j))).
  { unfold s, rh. eapply veq_ext.
    - apply (horner_eq_power_sum_proof n (Ma (normalize g) alpha) (repeat 1%Q (S K)) y Ly). discriminate.
    - intros j Hj. unfold power_sum. rewrite repeat_length. apply bsum_ext. intros k Hk.
      rewrite nthq_repeat by exact Hk. change (Ma (normalize g) alpha) with M. ring. }
  split; [exact Hs|].
  destruct Hs as [Ls Hs].
  assert (Hres : forall j, j < n -> (V s j - (mv n M (V s) j + V y j) == - pow_mv n M (S K) (V y) j)%Q).
  { intros j Hj.
    rewrite (mv_ext n M (V s) (fun i => bsum (S K) (fun k => pow_mv n M k (V y) i)) Hs j).
    rewrite mv_bsum. rewrite (Hs j Hj).
    assert (Ht := bsum_telescope (S K) (fun k => pow_mv n M k (V y) j)).
    rewrite bsum_minus in Ht. cbn [pow_mv] in Ht. cbn [pow_mv].
    set (B1 := bsum (S K) (fun i : nat => mv n M (pow_mv n M i (V y)) j)) in Ht.
    change (bsum (S K) (fun k : nat => mv n M (fun j0 : nat => pow_mv n M k (V y) j0) j)) with B1. lra. }
  rewrite (norm1_ext n _ _ Hres).
  rewrite (bsum_ext n (fun i => Qabs (- pow_mv n M (S K) (V y) i)) (fun i => Qabs (pow_mv n M (S K) (V y) i)))
    by (intros; apply Qabs_opp).
  apply (pow_contract n M alpha (S K) (V y) Hp Hc Ha).
Qed.

(** Hence (1 - alpha) * RH is within alpha^(K+1) |y|_1 of the solution of x = alpha P^T x + (1-alpha) y. *)
Theorem rh_close_to_solution g alpha y K (xs : vec) :
  good_graph g -> (0 <= alpha < 1)%Q -> length y = length g ->
  is_solution (length g) (P g) alpha (V y) xs ->
  (norm1 (length g) (fun j => (1 - alpha) * V (rh g alpha y K) j - xs j) <= apow alpha (S K) * norm1 (length g) (V y))%Q.
Proof.
  intros Hg [Ha0 Ha1] Ly Hxs.
  destruct (rh_error_proof g alpha y K Hg Ha0 Ly) as [_ Hr].
  set (n := length g) in *. set (M := PT alpha (P g)) in *. set (s := rh g alpha y K) in *.
  set (B := (apow alpha (S K) * norm1 n (V y))%Q) in *.
  assert (H := residual_bound_graph g alpha (V y) (fun j => (1 - alpha) * V s j)%Q xs ((1 - alpha) * B)%Q Hg (conj Ha0 Ha1)).
  fold n in H.
  setoid_replace B with ((1 - alpha) * B / (1 - alpha))%Q by (field; lra).
  apply H; [|exact Hxs].
  rewrite (norm1_ext n _ (fun j => (1 - alpha) * (V s j - (mv n M (V s) j + V y j)))%Q).
  2:{ intros j Hj. fold M. rewrite mv_scale. ring. }
  unfold norm1.
  rewrite (bsum_ext n _ (fun j => (1 - alpha) * Qabs (V s j - (mv n M (V s) j + V y j)))%Q).
  2:{ intros j Hj. rewrite Qabs_Qmult. rewrite (Qabs_pos (1 - alpha)) by lra. reflexivity. }
  rewrite bsum_scale. unfold norm1 in Hr. nra.
Qed.

(* ------------------------------------------------------------------------------------------ *)
(** * D-iteration (sequential sweep) *)

Lemma upd_length l j v : length (upd l j v) = length l.
Proof. revert j. induction l as [|x l IH]; intros [|j]; cbn; auto. Qed.

Lemma V_upd l j v i : j < length l -> V (upd l j v) i = if Nat.eqb i j then v else V l i.
Proof.
  revert j i. induction l as [|x l IH]; intros [|j] [|i] H; cbn in *; try lia; auto.
  apply (IH j i). lia.
Qed.

Lemma upd_out l j v : length l <= j -> upd l j v = l.
Proof. revert j. induction l as [|x l IH]; intros [|j] H; cbn in *; try lia; auto. f_equal. apply IH. lia. Qed.

Lemma push_row_spec n tmp r fl :
  wf_row n r = true -> length fl = n ->
  length (push_row tmp r fl) = n /\ forall j, j < n -> (V (push_row tmp r fl) j == V fl j + tmp * entry r j)%Q.
Proof.
  unfold push_row. revert fl. induction r as [|e r IH]; intros fl Hwf Lfl.
  - cbn [fold_left]. split; [exact Lfl|]. intros j _. rewrite entry_nil. ring.
  - cbn [wf_row forallb] in Hwf. apply andb_prop in Hwf. destruct Hwf as [He Hr]. apply Nat.ltb_lt in He.
    cbn [fold_left].
    set (fl' := upd fl (fst e) (Qred (V fl (fst e) + tmp * snd e))).
    assert (Lfl' : length fl' = n) by (unfold fl'; rewrite upd_length; exact Lfl).
    destruct (IH fl' Hr Lfl') as [L H]. split; [exact L|].
    intros j Hj. rewrite (H j Hj). unfold fl'. rewrite V_upd by (rewrite Lfl; exact He).
    rewrite entry_cons. rewrite (Nat.eqb_sym j (fst e)).
    destruct (Nat.eqb (fst e) j) eqn:E.
    + apply Nat.eqb_eq in E. subst j. rewrite Qred_correct. ring.
    + ring.
Qed.

(** The invariant of the kernel, stated without inverses: with z = xs - scores (xs any solution),
    z - M z = fluid; fluid is non-negative and [residu] is the total mass of fluid. *)
Definition dit_inv (g : wgraph) (alpha : Q) (xs : vec) (s : dstate) : Prop :=
  let n := length g in
  let M := PT alpha (P g) in
  length (d_scores s) = n /\ length (d_fluid s) = n /\
  (forall j, j < n -> ((xs j - V (d_scores s) j) - mv n M (fun i => xs i - V (d_scores s) i) j == V (d_fluid s) j)%Q) /\
  (forall j, j < n -> (0 <= V (d_fluid s) j)%Q) /\
  (d_residu s == vsum n (V (d_fluid s)))%Q.

Lemma has_out_zero_row g i :
  nonneg_graph g = true -> has_out g i = 0%Q -> wrow_of (normalize g) i = [].
Proof.
  intros Hnn H. rewrite wrow_of_normalize. unfold has_out in H.
  assert (Hr : nonneg_row (wrow_of g i) = true) by (unfold wrow_of; apply (forallb_nth nonneg_row); [exact Hnn|reflexivity]).
  destruct (Qeq_bool (sumq (map snd (wrow_of g i))) 0) eqn:E; [|discriminate].
  apply Qeq_bool_iff in E. unfold normalize_row.
  assert (E2 : Qeq_bool (Qred (row_norm (wrow_of g i))) 0 = true).
  { apply Qeq_bool_iff. rewrite Qred_correct. rewrite (row_norm_nonneg_eq _ Hr). exact E. }
  rewrite E2. reflexivity.
Qed.

Lemma mv_delta n M (z : vec) i c j :
  i < n -> (mv n M (fun k => z k - (if Nat.eqb k i then c else 0)) j == mv n M z j - c * M j i)%Q.
Proof.
  intros Hi. rewrite mv_minus. unfold mv at 2.
  rewrite (bsum_ext n _ (fun k => if Nat.eqb k i then M j i * c else 0)%Q).
  2:{ intros k _. destruct (Nat.eqb k i) eqn:E; [apply Nat.eqb_eq in E; subst k; reflexivity|ring]. }
  rewrite bsum_delta by exact Hi. ring.
Qed.

(** One node: the new state in closed form. *)
Lemma dit_node_spec g alpha s i :
  good_graph g -> length (d_scores s) = length g -> length (d_fluid s) = length g -> i < length g ->
  (0 < V (d_fluid s) i)%Q ->
  let s' := dit_node (normalize g) alpha s i in
  let sent := V (d_fluid s) i in
  length (d_scores s') = length g /\ length (d_fluid s') = length g /\
  (forall j, j < length g -> (V (d_scores s') j == V (d_scores s) j + (if Nat.eqb j i then sent else 0))%Q) /\
  (forall j, j < length g -> (V (d_fluid s') j == (if Nat.eqb j i then 0 else V (d_fluid s) j) + sent * (alpha * P g i j))%Q) /\
  (d_residu s' == d_residu s - sent * (1 - alpha * has_out g i))%Q.
Proof.
  intros [Hwf Hnn] Ls Lf Hi Hpos s' sent. set (n := length g) in *.
  unfold s', dit_node. fold sent. assert (Hlt : Qltb 0 sent = true) by (apply Qltb_lt; exact Hpos). rewrite Hlt.
  assert (Hsc : forall j, j < n ->
     (V (upd (d_scores s) i (Qred (V (d_scores s) i + sent))) j == V (d_scores s) j + (if Nat.eqb j i then sent else 0))%Q).
  { intros j Hj. rewrite V_upd by (rewrite Ls; exact Hi). destruct (Nat.eqb j i) eqn:E.
    - apply Nat.eqb_eq in E. subst j. apply Qred_correct.
    - ring. }
  assert (Hrow : wf_row n (wrow_of (normalize g) i) = true).
  { rewrite wrow_of_normalize. apply normalize_row_facts; unfold wrow_of;
      [apply (forallb_nth (wf_row n)) | apply (forallb_nth nonneg_row)]; try assumption; reflexivity. }
  destruct (P_facts g Hwf Hnn) as (_ & _ & Hout).
  destruct (wrow_of (normalize g) i) as [|e r] eqn:Er.
  - cbn [d_scores d_fluid d_residu]. rewrite !upd_length.
    split; [exact Ls|]. split; [exact Lf|]. split; [exact Hsc|]. split.
    + intros j Hj. rewrite V_upd by (rewrite Lf; exact Hi). unfold P, Pn. rewrite Er, entry_nil.
      destruct (Nat.eqb j i); ring.
    + rewrite Qred_correct.
      assert (H0 : has_out g i = 0%Q).
      { destruct (Hout i) as [H|H]; [exact H|]. exfalso.
        destruct (P_facts g Hwf Hnn) as (_ & Hs & _). specialize (Hs i). rewrite H in Hs.
        assert (Hz0 : (bsum (length g) (P g i) == 0)%Q).
        { apply bsum_0. intros j _. unfold P, Pn. rewrite Er. rewrite entry_nil. reflexivity. }
        lra. }
      rewrite H0. ring.
  - cbn [d_scores d_fluid d_residu].
    assert (L0 : length (upd (d_fluid s) i 0) = n) by (rewrite upd_length; exact Lf).
    destruct (push_row_spec n (sent * alpha)%Q (e :: r) (upd (d_fluid s) i 0) Hrow L0) as [Lp Hp].
    rewrite upd_length. split; [exact Ls|]. split; [exact Lp|]. split; [exact Hsc|]. split.
    + intros j Hj. rewrite (Hp j Hj). rewrite V_upd by (rewrite Lf; exact Hi).
      unfold P, Pn. rewrite Er. destruct (Nat.eqb j i); ring.
    + rewrite Qred_correct.
      assert (H1 : has_out g i = 1%Q).
      { destruct (Hout i) as [H|H]; [|exact H]. exfalso.
        rewrite (has_out_zero_row g i Hnn H) in Er. discriminate. }
      rewrite H1. ring.
Qed.

Lemma dit_node_inv g alpha y (xs : vec) s i :
  good_graph g -> (0 <= alpha)%Q ->
  is_solution (length g) (P g) alpha y xs ->
  dit_inv g alpha xs s -> dit_inv g alpha xs (dit_node (normalize g) alpha s i).
Proof.
  intros Hg Ha Hxs (Ls & Lf & Hz & Hnonneg & Hres). set (n := length g) in *.
  destruct (Qlt_le_dec 0 (V (d_fluid s) i)) as [Hpos|Hle].
  2:{ unfold dit_node. assert (E : Qltb 0 (V (d_fluid s) i) = false).
      { destruct (Qltb 0 (V (d_fluid s) i)) eqn:E; [apply Qltb_lt in E; lra|reflexivity]. }
      rewrite E. repeat split; assumption. }
  assert (Hi : i < n).
  { destruct (Nat.lt_ge_cases i n) as [H|H]; [exact H|]. rewrite V_overflow in Hpos by (rewrite Lf; exact H). lra. }
  destruct (dit_node_spec g alpha s i Hg Ls Lf Hi Hpos) as (Ls' & Lf' & Hsc & Hfl & Hrs).
  set (s' := dit_node (normalize g) alpha s i) in *. set (sent := V (d_fluid s) i) in *.
  destruct Hg as [Hwf Hnn]. destruct (P_facts g Hwf Hnn) as (Hpp & Hps & Hout).
  split; [exact Ls'|]. split; [exact Lf'|]. split; [|split].
  - intros j Hj. cbv zeta. fold n.
    rewrite (mv_ext n (PT alpha (P g)) (fun k => xs k - V (d_scores s') k)%Q
                    (fun k => (xs k - V (d_scores s) k) - (if Nat.eqb k i then sent else 0))%Q).
    2:{ intros k Hk. rewrite (Hsc k Hk). ring. }
    rewrite (mv_delta n (PT alpha (P g)) (fun k => xs k - V (d_scores s) k)%Q i sent j Hi).
    rewrite (Hsc j Hj), (Hfl j Hj). assert (Hzj := Hz j Hj). cbv zeta in Hzj. fold n in Hzj.
    set (A := mv n (PT alpha (P g)) (fun k => (xs k - V (d_scores s) k)%Q) j) in *.
    unfold PT at 1.
    destruct (Nat.eqb j i) eqn:E.
    + apply Nat.eqb_eq in E. subst j. fold sent in Hzj.
      set (t := (sent * (alpha * P g i i))%Q). lra.
    + set (t := (sent * (alpha * P g i j))%Q). lra.
  - intros j Hj. rewrite (Hfl j Hj). assert (H1 := Hpp i j). assert (H2 := Hnonneg j Hj).
    assert (H3 : (0 <= alpha * P g i j)%Q) by nra.
    assert (H4 : (0 <= sent * (alpha * P g i j))%Q) by nra.
    destruct (Nat.eqb j i); lra.
  - rewrite Hrs, Hres. unfold vsum. fold n.
    rewrite (bsum_ext n (V (d_fluid s')) (fun j => (if Nat.eqb j i then 0 else V (d_fluid s) j) + sent * (alpha * P g i j))%Q Hfl).
    rewrite bsum_plus.
    assert (Hm : (bsum n (fun j => sent * (alpha * P g i j)) == sent * (alpha * has_out g i))%Q).
    { rewrite bsum_scale. rewrite bsum_scale. assert (Hpsi := Hps i). fold n in Hpsi.
      change (bsum n (fun i0 => P g i i0)) with (bsum n (P g i)). rewrite Hpsi. reflexivity. }
    rewrite Hm.
    assert (Hsplit : (bsum n (V (d_fluid s)) == bsum n (fun j => if Nat.eqb j i then 0 else V (d_fluid s) j) + sent)%Q).
    { rewrite <- (bsum_delta n i sent Hi). rewrite <- bsum_plus. apply bsum_ext. intros j _.
      destruct (Nat.eqb j i) eqn:E; [apply Nat.eqb_eq in E; subst j; unfold sent; ring|ring]. }
    rewrite Hsplit. ring.
Qed.

Lemma dit_sweep_inv g alpha y xs s :
  good_graph g -> (0 <= alpha)%Q -> is_solution (length g) (P g) alpha y xs ->
  dit_inv g alpha xs s -> dit_inv g alpha xs (dit_sweep (normalize g) alpha s).
Proof.
  intros Hg Ha Hxs. unfold dit_sweep. generalize (seq 0 (length (normalize g))). intros l. revert s.
  induction l as [|i l IH]; intros s Hs; cbn [fold_left]; [exact Hs|].
  apply IH. apply (dit_node_inv g alpha y xs s i Hg Ha Hxs Hs).
Qed.

Lemma dit_loop_inv g alpha y xs k tol s :
  good_graph g -> (0 <= alpha)%Q -> is_solution (length g) (P g) alpha y xs ->
  dit_inv g alpha xs s -> dit_inv g alpha xs (fst (dit_loop k (normalize g) alpha tol s)).
Proof.
  intros Hg Ha Hxs. revert s. induction k as [|k IH]; intros s Hs; cbn [dit_loop]; [exact Hs|].
  assert (Hs' := dit_sweep_inv g alpha y xs s Hg Ha Hxs Hs).
  destruct (Qltb _ _); [exact Hs'|]. apply IH. exact Hs'.
Qed.

Lemma dit_init_inv g alpha y xs :
  good_graph g -> (0 <= alpha <= 1)%Q -> length y = length g ->
  (forall j, j < length g -> (0 <= V y j)%Q) -> (vsum (length g) (V y) == 1)%Q ->
  is_solution (length g) (P g) alpha (V y) xs ->
  dit_inv g alpha xs (dit_init (length g) alpha y).
Proof.
  intros Hg [Ha0 Ha1] Ly Hy Hsy Hxs. set (n := length g) in *.
  assert (Hz : forall j, V (repeat 0%Q n) j = 0%Q).
  { intros j. unfold V, nthq. destruct (Nat.lt_ge_cases j n) as [H|H].
    - apply (nthq_repeat 0%Q n j H).
    - apply nth_overflow. rewrite repeat_length. exact H. }
  unfold dit_init, dit_inv. cbn [d_scores d_fluid d_residu]. fold n.
  split; [apply repeat_length|]. split; [rewrite vscale_length; exact Ly|]. split; [|split].
  - intros j Hj. rewrite V_vscale.
    rewrite (mv_ext n (PT alpha (P g)) (fun i => xs i - V (repeat 0%Q n) i)%Q xs) by (intros k _; rewrite Hz; ring).
    rewrite Hz. rewrite (Hxs j Hj) at 1. ring.
  - intros j Hj. rewrite V_vscale. assert (H := Hy j Hj). nra.
  - unfold vsum. rewrite (bsum_ext n _ (fun j => (1 - alpha) * V y j)%Q) by (intros j _; apply V_vscale).
    rewrite bsum_scale. unfold vsum in Hsy. rewrite Hsy. ring.
Qed.

(** Remaining fluid mass bounds the error. *)
Lemma dit_inv_error g alpha xs s :
  good_graph g -> (0 <= alpha < 1)%Q -> dit_inv g alpha xs s ->
  (0 <= d_residu s)%Q /\
  (norm1 (length g) (fun j => xs j - V (d_scores s) j) <= d_residu s / (1 - alpha))%Q.
Proof.
  intros [Hwf Hnn] [Ha0 Ha1] (Ls & Lf & Hz & Hnonneg & Hres). set (n := length g) in *. cbv zeta in Hz.
  destruct (Ma_facts g alpha Hwf Hnn Ha0) as (Hp & Hc & _). fold n in Hp, Hc.
  assert (Hmass : (d_residu s == norm1 n (V (d_fluid s)))%Q).
  { rewrite Hres. unfold vsum, norm1. apply bsum_ext. intros j Hj. rewrite Qabs_pos by (apply Hnonneg; exact Hj). reflexivity. }
  split; [rewrite Hmass; apply norm1_nonneg|].
  set (z := fun j => (xs j - V (d_scores s) j)%Q).
  assert (H := residual_bound_gen n (Ma (normalize g) alpha) alpha (V (d_fluid s)) (fun _ => 0%Q) z (d_residu s) Hp Hc Ha1).
  assert (Hn : (norm1 n (fun i => 0 - z i) == norm1 n z)%Q).
  { apply bsum_ext. intros j _. setoid_replace (0 - z j)%Q with (- z j)%Q by ring. apply Qabs_opp. }
  rewrite <- Hn. apply H.
  - rewrite Hmass. apply Qle_lteq. right. apply bsum_ext. intros j _.
    assert (H0 : (mv n (Ma (normalize g) alpha) (fun _ => 0%Q) j == 0)%Q) by (unfold mv; apply bsum_0; intros; ring).
    rewrite H0. setoid_replace (0 - (0 + V (d_fluid s) j))%Q with (- V (d_fluid s) j)%Q by ring. apply Qabs_opp.
  - intros j Hj. unfold z. rewrite <- (Hz j Hj). change (PT alpha (P g)) with (Ma (normalize g) alpha). ring.
Qed.

Theorem diteration_invariant_proof g alpha y n_iter tol (xs : vec) :
  good_graph g -> (0 <= alpha < 1)%Q -> length y = length g ->
  (forall j, j < length g -> (0 <= V y j)%Q) -> (vsum (length g) (V y) == 1)%Q ->
  is_solution (length g) (P g) alpha (V y) xs ->
  let st := diteration_state g alpha y n_iter tol in
  dit_inv g alpha xs (fst st) /\
  (0 <= d_residu (fst st))%Q /\
  (norm1 (length g) (fun j => xs j - V (d_scores (fst st)) j) <= d_residu (fst st) / (1 - alpha))%Q /\
  (snd st = true -> (norm1 (length g) (fun j => xs j - V (d_scores (fst st)) j) < tol)%Q).
Proof.
  intros Hg [Ha0 Ha1] Ly Hy Hsy Hxs st.
  assert (Hinit := dit_init_inv g alpha y xs Hg (conj Ha0 (Qlt_le_weak _ _ Ha1)) Ly Hy Hsy Hxs).
  assert (Hinv : dit_inv g alpha xs (fst st)).
  { unfold st, diteration_state. apply (dit_loop_inv g alpha (V y) xs); assumption. }
  destruct (dit_inv_error g alpha xs (fst st) Hg (conj Ha0 Ha1) Hinv) as [H0 Herr].
  split; [exact Hinv|]. split; [exact H0|]. split; [exact Herr|].
  intros Hstop.
  assert (Hres : (d_residu (fst st) < tol * (1 - alpha))%Q).
  { unfold st, diteration_state in *. clear Hinv H0 Herr. revert Hstop.
    generalize (dit_init (length g) alpha y). generalize n_iter.
    induction n_iter0 as [|k IH]; intros s; cbn [dit_loop]; [cbn; discriminate|].
    destruct (Qltb (d_residu (dit_sweep (normalize g) alpha s)) (tol * (1 - alpha))) eqn:E.
    - intros _. cbn [fst]. apply Qltb_lt. exact E.
    - apply IH. }
  eapply Qle_lt_trans; [exact Herr|]. apply Qlt_shift_div_r; lra.
Qed.

(** Every sweep multiplies the remaining mass by at most alpha (each node sends at least the fluid it
    held when the sweep started, and a (1 - alpha) share of what is sent leaves the system). *)
Lemma dit_sweep_mass g alpha y xs s0 :
  good_graph g -> (0 <= alpha <= 1)%Q -> is_solution (length g) (P g) alpha y xs ->
  dit_inv g alpha xs s0 ->
  (d_residu (dit_sweep (normalize g) alpha s0) <= alpha * d_residu s0)%Q.
Proof.
  intros Hg [Ha0 Ha1] Hxs H0. set (n := length g) in *.
  set (f0 := V (d_fluid s0)). set (R0 := d_residu s0).
  set (Q := fun (k : nat) (s : dstate) =>
              dit_inv g alpha xs s /\
              (d_residu s <= R0 - (1 - alpha) * bsum k f0)%Q /\
              (forall j, k <= j -> j < n -> (f0 j <= V (d_fluid s) j)%Q)).
  assert (Hstep : forall k s, k < n -> Q k s -> Q (S k) (dit_node (normalize g) alpha s k)).
  { intros k s Hk (Hinv & Hres & Hmon).
    assert (Hinv' := dit_node_inv g alpha y xs s k Hg Ha0 Hxs Hinv).
    destruct Hinv as (Ls & Lf & _ & Hnonneg & _).
    split; [exact Hinv'|].
    destruct (Qlt_le_dec 0 (V (d_fluid s) k)) as [Hpos|Hle].
    - destruct (dit_node_spec g alpha s k Hg Ls Lf Hk Hpos) as (_ & _ & _ & Hfl & Hrs).
      destruct Hg as [Hwf Hnn]. destruct (P_facts g Hwf Hnn) as (Hpp & _ & Hout).
      split.
      + rewrite Hrs. cbn [bsum]. assert (Hm := Hmon k (le_n k) Hk).
        set (sent := V (d_fluid s) k) in *.
        assert (Ho : (sent * (1 - alpha) <= sent * (1 - alpha * has_out g k))%Q).
        { destruct (Hout k) as [-> | ->]; nra. }
        assert (Hf : ((1 - alpha) * f0 k <= sent * (1 - alpha))%Q) by nra.
        lra.
      + intros j Hkj Hj. rewrite (Hfl j Hj).
        assert (E : Nat.eqb j k = false) by (apply Nat.eqb_neq; lia). rewrite E.
        assert (H1 := Hpp k j). assert (H2 := Hmon j (Nat.lt_le_incl _ _ Hkj) Hj).
        assert (H3 : (0 <= alpha * P g k j)%Q) by nra.
        assert (H4 : (0 <= V (d_fluid s) k * (alpha * P g k j))%Q) by nra.
        lra.
    - assert (E : dit_node (normalize g) alpha s k = s).
      { unfold dit_node. destruct (Qltb 0 (V (d_fluid s) k)) eqn:E; [apply Qltb_lt in E; lra|reflexivity]. }
      rewrite E. split.
      + cbn [bsum]. assert (Hm := Hmon k (le_n k) Hk). nra.
      + intros j Hkj Hj. apply Hmon; [lia|exact Hj]. }
  assert (Hfold : forall m k s, k + m = n -> Q k s -> Q n (fold_left (dit_node (normalize g) alpha) (seq k m) s)).
  { induction m as [|m IH]; intros k s Hkm HQ; cbn [seq fold_left].
    - replace n with k by lia. exact HQ.
    - apply (IH (S k)); [lia|]. apply Hstep; [lia|exact HQ]. }
  assert (HQ0 : Q 0 s0).
  { split; [exact H0|]. split; [cbn [bsum]; unfold R0; lra|]. intros j _ _. unfold f0. lra. }
  destruct (Hfold n 0 s0 (Nat.add_0_l n) HQ0) as (_ & Hres & _).
  unfold dit_sweep. assert (Ln : length (normalize g) = n) by (unfold normalize; apply map_length). rewrite Ln.
  destruct H0 as (_ & _ & _ & _ & HR). fold R0 in HR. fold n in HR. unfold vsum in HR. fold f0 in HR.
  fold R0. rewrite <- HR in Hres. nra.
Qed.

Lemma dit_loop_mass g alpha y xs k s :
  good_graph g -> (0 <= alpha < 1)%Q -> is_solution (length g) (P g) alpha y xs ->
  dit_inv g alpha xs s ->
  (d_residu (fst (dit_loop k (normalize g) alpha 0 s)) <= apow alpha k * d_residu s)%Q.
Proof.
  intros Hg [Ha0 Ha1] Hxs. revert s. induction k as [|k IH]; intros s Hinv; cbn [dit_loop apow fst]; [lra|].
  assert (Hinv' := dit_sweep_inv g alpha y xs s Hg Ha0 Hxs Hinv).
  assert (Hm := dit_sweep_mass g alpha y xs s Hg (conj Ha0 (Qlt_le_weak _ _ Ha1)) Hxs Hinv).
  destruct (dit_inv_error g alpha xs _ Hg (conj Ha0 Ha1) Hinv') as [Hpos _].
  assert (E : Qltb (d_residu (dit_sweep (normalize g) alpha s)) (0 * (1 - alpha)) = false).
  { destruct (Qltb _ _) eqn:E; [apply Qltb_lt in E; lra|reflexivity]. }
  rewrite E. assert (H := IH _ Hinv'). assert (Hp := apow_nonneg alpha k Ha0).
  set (r1 := d_residu (dit_sweep (normalize g) alpha s)) in *. set (r0 := d_residu s) in *.
  set (rk := d_residu (fst (dit_loop k (normalize g) alpha 0 (dit_sweep (normalize g) alpha s)))) in *.
  assert (H2 : (apow alpha k * r1 <= apow alpha k * (alpha * r0))%Q) by nra. lra.
Qed.

(** Without the tolerance stop (tol = 0 is never met), n_iter sweeps leave at most alpha^n_iter (1-alpha)
    of fluid, hence an error of at most alpha^n_iter. *)
Theorem diteration_mass_decreases_proof g alpha y n_iter (xs : vec) :
  good_graph g -> (0 <= alpha < 1)%Q -> length y = length g ->
  (forall j, j < length g -> (0 <= V y j)%Q) -> (vsum (length g) (V y) == 1)%Q ->
  is_solution (length g) (P g) alpha (V y) xs ->
  (d_residu (fst (diteration_state g alpha y n_iter 0)) <= apow alpha n_iter * (1 - alpha))%Q /\
  (norm1 (length g) (fun j => xs j - V (diteration g alpha y n_iter 0) j) <= apow alpha n_iter)%Q.
Proof.
  intros Hg [Ha0 Ha1] Ly Hy Hsy Hxs.
  assert (Hinit := dit_init_inv g alpha y xs Hg (conj Ha0 (Qlt_le_weak _ _ Ha1)) Ly Hy Hsy Hxs).
  assert (Hm := dit_loop_mass g alpha (V y) xs n_iter _ Hg (conj Ha0 Ha1) Hxs Hinit).
  cbn [dit_init d_residu] in Hm.
  split; [exact Hm|].
  destruct (diteration_invariant_proof g alpha y n_iter 0 xs Hg (conj Ha0 Ha1) Ly Hy Hsy Hxs) as (_ & _ & Herr & _).
  unfold diteration. eapply Qle_trans; [exact Herr|].
  apply Qle_shift_div_r; [lra|]. exact Hm.
Qed.

(* ------------------------------------------------------------------------------------------ *)
(** * The push kernel does not compute PageRank (recorded finding D4) *)

Fixpoint insert_all {A} (x : A) (l : list A) : list (list A) :=
  match l with
  | [] => [[x]]
  | y :: t => (x :: y :: t) :: map (cons y) (insert_all x t)
  end.
Fixpoint perms {A} (l : list A) : list (list A) :=
  match l with
  | [] => [[]]
  | x :: t => flat_map (insert_all x) (perms t)
  end.

Definition house : wgraph := map (map (fun j => (j, 1%Q))) [[1; 4]; [0; 2; 4]; [1; 3]; [2; 4]; [0; 1; 3]].
Definition house_solution : list Q := [412 # 2451; 1991 # 8170; 2111 # 12255; 2111 # 12255; 1991 # 8170]%Q.

(** The output of the faithful push model is further than [gap] (L1) from the PageRank vector. *)
Definition push_far (g : wgraph) (alpha : Q) (y xs : list Q) (gap : Q) (order : list nat) (tol : Q) : bool :=
  match get_pagerank g y alpha 0 tol Push [] order with
  | None => false
  | Some out => Qltb gap (norm1 (length g) (fun j => V out j - V (vnormalize xs) j)%Q)
  end.

(** On the house graph (5 nodes, degrees 2 and 3), uniform restart, alpha = 0.85: whatever order
    argsort returns and for tolerances from 0.1 down to 1e-9 the work-list empties and the result is
    more than 0.02 away (L1) from the PageRank vector (which [solution_check] certifies exactly). *)
Theorem push_refuted_proof :
  good_graph house /\
  solution_check house (85 # 100) (repeat (1 # 5)%Q 5) house_solution = true /\
  forall order tol, In order (perms [0; 1; 2; 3; 4]) -> In tol [1 # 10; 1 # 1000; 1 # 1000000000]%Q ->
    push_far house (85 # 100) (repeat (1 # 5)%Q 5) house_solution (2 # 100) order tol = true.
Proof.
  split; [split; reflexivity|]. split; [vm_compute; reflexivity|].
  assert (H : forallb (fun order => forallb (push_far house (85 # 100) (repeat (1 # 5)%Q 5) house_solution (2 # 100) order)
                                         [1 # 10; 1 # 1000; 1 # 1000000000]%Q) (perms [0; 1; 2; 3; 4]) = true)
    by (vm_compute; reflexivity).
  intros order tol Ho Ht. rewrite forallb_forall in H. specialize (H order Ho).
  rewrite forallb_forall in H. exact (H tol Ht).
Qed.

Theorem surfer_operator_stochastic_proof (g : wgraph) (alpha : Q) (y x : list Q) :
  good_graph g -> (0 <= alpha)%Q -> (vsum (length g) (V y) == 1)%Q ->
  (vsum (length g) (V (surfer_matvec g alpha y x)) == vsum (length g) (V x))%Q /\
  forall j, j < length g ->
    (V (surfer_matvec g alpha y x) j == mv (length g) (surfer_kernel (P g) (has_out g) alpha (V y)) (V x) j)%Q.
Proof.
  intros Hg Ha Hy. split; [apply surfer_matvec_mass; assumption|].
  intros j Hj. rewrite (surfer_matvec_spec g alpha y x j Hj). apply surfer_fun_kernel.
Qed.

(* ------------------------------------------------------------------------------------------ *)
(** * Power iteration converges geometrically to the PageRank vector *)

Lemma surfer_fun_minus n g alpha (y x x' : vec) j :
  (surfer_fun n g (normalize g) alpha y (fun i => x i - x' i) j
   == surfer_fun n g (normalize g) alpha y x j - surfer_fun n g (normalize g) alpha y x' j)%Q.
Proof.
  unfold surfer_fun. rewrite mv_minus.
  rewrite (bsum_ext n (fun i => restart g alpha i * (x i - x' i))%Q
                    (fun i => restart g alpha i * x i - restart g alpha i * x' i)%Q) by (intros; ring).
  rewrite bsum_minus. ring.
Qed.

(** On vectors of zero mass the operator acts as alpha S with S column-stochastic: a contraction by alpha. *)
Lemma surfer_contracts g alpha (y d : vec) :
  good_graph g -> (0 <= alpha)%Q ->
  (forall j, j < length g -> (0 <= y j)%Q) -> (vsum (length g) y == 1)%Q ->
  (vsum (length g) d == 0)%Q ->
  (norm1 (length g) (surfer_fun (length g) g (normalize g) alpha y d) <= alpha * norm1 (length g) d)%Q.
Proof.
  intros [Hwf Hnn] Ha Hy Hsy Hd. set (n := length g) in *.
  destruct (P_facts g Hwf Hnn) as (Hpp & Hps & Hout). fold n in Hps.
  set (S := fun j i => (alpha * P g i j + alpha * y j * (1 - has_out g i))%Q).
  assert (Heq : forall j, j < n -> (surfer_fun n g (normalize g) alpha y d j == mv n S d j)%Q).
  { intros j Hj. unfold surfer_fun, mv, S, restart, Ma.
    rewrite (bsum_ext n (fun i => (alpha * P g i j + alpha * y j * (1 - has_out g i)) * d i)%Q
                      (fun i => alpha * Pn (normalize g) i j * d i + (alpha * y j) * (d i - has_out g i * d i))%Q)
      by (intros; unfold P; ring).
    rewrite bsum_plus. rewrite (bsum_scale n (alpha * y j)). rewrite bsum_minus.
    rewrite (bsum_ext n (fun i => (1 - alpha * has_out g i) * d i)%Q (fun i => d i - alpha * (has_out g i * d i))%Q) by (intros; ring).
    rewrite bsum_minus. rewrite (bsum_scale n alpha). unfold vsum in Hd. rewrite Hd. ring. }
  rewrite (norm1_ext n _ _ Heq).
  apply norm1_contract_gen.
  - intros j i Hj Hi. unfold S. assert (H1 := Hpp i j). assert (H2 := Hy j Hj).
    destruct (Hout i) as [-> | ->]; nra.
  - intros i Hi. unfold S. rewrite bsum_plus. rewrite bsum_scale. rewrite (Hps i).
    rewrite (bsum_ext n (fun j => alpha * y j * (1 - has_out g i))%Q (fun j => (alpha * (1 - has_out g i)) * y j)%Q) by (intros; ring).
    rewrite bsum_scale. unfold vsum in Hsy. rewrite Hsy. apply Qle_lteq. right. ring.
Qed.

Lemma vsub_length_same a b : length a = length b -> length (vsub a b) = length a.
Proof. intros H. unfold vsub. rewrite map2_length, H. apply Nat.min_id. Qed.

(** One coded step (operator, then division by the sum) on a probability vector. *)
Lemma piteration_step_spec g alpha y x j :
  good_graph g -> (0 <= alpha)%Q -> (vsum (length g) (V y) == 1)%Q -> (vsum (length g) (V x) == 1)%Q ->
  j < length g ->
  (V (piteration_step (surfer_matvec g alpha y) x) j == surfer_fun (length g) g (normalize g) alpha (V y) (V x) j)%Q.
Proof.
  intros Hg Ha Hy Hx Hj. unfold piteration_step. rewrite vnormalize_spec.
  rewrite surfer_matvec_length. rewrite (surfer_matvec_mass g alpha y x Hg Ha Hy). rewrite Hx.
  rewrite surfer_matvec_spec by exact Hj. field.
Qed.

Lemma piteration_step_length g alpha y x : length (piteration_step (surfer_matvec g alpha y) x) = length g.
Proof. unfold piteration_step, vnormalize. rewrite map_length. apply surfer_matvec_length. Qed.

Lemma piteration_step_mass g alpha y x :
  good_graph g -> (0 <= alpha)%Q -> (vsum (length g) (V y) == 1)%Q -> (vsum (length g) (V x) == 1)%Q ->
  (vsum (length g) (V (piteration_step (surfer_matvec g alpha y) x)) == 1)%Q.
Proof.
  intros Hg Ha Hy Hx. unfold vsum.
  rewrite (bsum_ext (length g) _ (surfer_fun (length g) g (normalize g) alpha (V y) (V x))).
  2:{ intros j Hj. apply piteration_step_spec; assumption. }
  rewrite <- Hx. apply surfer_mass; assumption.
Qed.

Lemma piteration_step_contracts g alpha y x (p : vec) :
  good_graph g -> (0 <= alpha)%Q ->
  (forall j, j < length g -> (0 <= V y j)%Q) -> (vsum (length g) (V y) == 1)%Q ->
  (vsum (length g) (V x) == 1)%Q ->
  is_stationary (length g) (surfer_kernel (P g) (has_out g) alpha (V y)) p ->
  (norm1 (length g) (fun j => V (piteration_step (surfer_matvec g alpha y) x) j - p j)
   <= alpha * norm1 (length g) (fun j => V x j - p j))%Q.
Proof.
  intros Hg Ha Hy0 Hy Hx [Hp1 Hpf]. set (n := length g) in *.
  set (d := fun j => (V x j - p j)%Q).
  assert (Hd : (vsum n d == 0)%Q) by (unfold d; rewrite vsum_minus, Hx, Hp1; ring).
  rewrite (norm1_ext n _ (surfer_fun n g (normalize g) alpha (V y) d)).
  - apply surfer_contracts; assumption.
  - intros j Hj. unfold d. rewrite surfer_fun_minus.
    rewrite (piteration_step_spec g alpha y x j Hg Ha Hy Hx Hj).
    rewrite (Hpf j Hj) at 1. rewrite <- surfer_fun_kernel. reflexivity.
Qed.

Lemma V_vsub a b j : length a = length b -> (V (vsub a b) j == V a j - V b j)%Q.
Proof.
  intros L. destruct (Nat.lt_ge_cases j (length a)) as [H|H].
  - unfold vsub. apply (V_map2_Qred Qminus); [exact H|rewrite <- L; exact H].
  - rewrite !V_overflow; try lia; [ring|]. unfold vsub. rewrite map2_length. lia.
Qed.

(** The coded loop (n_iter steps, early exit when two successive iterates are closer than tol, in which
    case the OLDER iterate is returned): the error never grows, and it is either below alpha^n_iter times
    the initial error or below tol / (1 - alpha). *)
Theorem piteration_error_proof g alpha y (p : vec) n_iter tol x :
  good_graph g -> (0 <= alpha < 1)%Q -> length x = length g ->
  (forall j, j < length g -> (0 <= V y j)%Q) -> (vsum (length g) (V y) == 1)%Q ->
  (vsum (length g) (V x) == 1)%Q ->
  is_stationary (length g) (surfer_kernel (P g) (has_out g) alpha (V y)) p ->
  let r := piteration_loop n_iter (surfer_matvec g alpha y) tol x in
  let e0 := norm1 (length g) (fun j => V x j - p j)%Q in
  let e := norm1 (length g) (fun j => V r j - p j)%Q in
  (vsum (length g) (V r) == 1)%Q /\ (e <= e0)%Q /\ ((e <= apow alpha n_iter * e0)%Q \/ (e <= tol / (1 - alpha))%Q).
Proof.
  intros Hg [Ha0 Ha1] Lx Hy0 Hy Hx Hp. cbv zeta. set (n := length g) in *.
  revert x Lx Hx. induction n_iter as [|k IH]; intros x Lx Hx; cbn [piteration_loop apow].
  - split; [exact Hx|]. split; [apply Qle_refl|]. left. rewrite Qmult_1_l. apply Qle_refl.
  - set (x' := piteration_step (surfer_matvec g alpha y) x).
    assert (Lx' : length x' = n) by apply piteration_step_length.
    assert (Hx' : (vsum n (V x') == 1)%Q) by (apply piteration_step_mass; assumption).
    assert (Hc := piteration_step_contracts g alpha y x p Hg Ha0 Hy0 Hy Hx Hp). fold n x' in Hc.
    assert (He0 := norm1_nonneg n (fun j => V x j - p j)%Q).
    set (e0 := norm1 n (fun j => V x j - p j)%Q) in *.
    set (e1 := norm1 n (fun j => V x' j - p j)%Q) in *.
    destruct (Qltb (lnorm1 (vsub x x')) tol) eqn:E.
    + split; [exact Hx|]. split; [apply Qle_refl|]. right.
      apply Qltb_lt in E. unfold lnorm1 in E. rewrite Qred_correct in E.
      rewrite vsub_length_same in E by lia. rewrite Lx in E. fold n in E.
      assert (Hdiff : (norm1 n (V (vsub x x')) == norm1 n (fun j => V x j - V x' j))%Q).
      { apply norm1_ext. intros j _. apply V_vsub. lia. }
      rewrite Hdiff in E.
      assert (Htri : (e0 <= norm1 n (fun j => V x j - V x' j) + e1)%Q).
      { unfold e0, e1. eapply Qle_trans; [|apply norm1_triangle].
        apply Qle_lteq. right. apply norm1_ext. intros j _. ring. }
      change (e0 <= tol / (1 - alpha))%Q.
      set (D := norm1 n (fun j => V x j - V x' j)%Q) in *.
      apply Qle_shift_div_l; [lra|]. nra.
    + destruct (IH x' Lx' Hx') as (Hs & Hmono & Hb). fold e1 in Hmono, Hb.
      assert (Hp0 := apow_nonneg alpha k Ha0).
      split; [exact Hs|]. split; [nra|].
      destruct Hb as [Hb|Hb]; [left|right; exact Hb].
      eapply Qle_trans; [exact Hb|]. nra.
Qed.

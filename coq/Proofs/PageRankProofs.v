(** Proofs about the PageRank model (Model/PageRank.v): contraction, uniqueness, residual bound,
    the surfer operator, Horner / RH, D-iteration, and the refutation of the push kernel. *)
From SKN Require Import Base.Util Model.PageRank.
From Coq Require Import Qabs Qreduction Lqa Psatz Lia Setoid.
Close Scope Q_scope.
Open Scope nat_scope.

(* ------------------------------------------------------------------------------------------ *)
(** * Finite sums *)

Lemma bsum_ext n f g : (forall i, i < n -> (f i == g i)%Q) -> (bsum n f == bsum n g)%Q.
Proof.
  induction n as [|n IH]; intros H; cbn [bsum]; [reflexivity|].
  rewrite IH by (intros; apply H; lia). rewrite (H n) by lia. reflexivity.
Qed.

Lemma bsum_0 n f : (forall i, i < n -> (f i == 0)%Q) -> (bsum n f == 0)%Q.
Proof.
  induction n as [|n IH]; intros H; cbn [bsum]; [reflexivity|].
  rewrite IH by (intros; apply H; lia). rewrite (H n) by lia. lra.
Qed.

Lemma bsum_plus n f g : (bsum n (fun i => f i + g i) == bsum n f + bsum n g)%Q.
Proof. induction n as [|n IH]; cbn [bsum]; [lra|]. rewrite IH. lra. Qed.

Lemma bsum_minus n f g : (bsum n (fun i => f i - g i) == bsum n f - bsum n g)%Q.
Proof. induction n as [|n IH]; cbn [bsum]; [lra|]. rewrite IH. lra. Qed.

Lemma bsum_scale n c f : (bsum n (fun i => c * f i) == c * bsum n f)%Q.
Proof. induction n as [|n IH]; cbn [bsum]; [lra|]. rewrite IH. lra. Qed.

Lemma bsum_scale_r n c f : (bsum n (fun i => f i * c) == bsum n f * c)%Q.
Proof. induction n as [|n IH]; cbn [bsum]; [lra|]. rewrite IH. lra. Qed.

Lemma bsum_le n f g : (forall i, i < n -> (f i <= g i)%Q) -> (bsum n f <= bsum n g)%Q.
Proof.
  induction n as [|n IH]; intros H; cbn [bsum]; [lra|].
  assert (H1 := IH (fun i Hi => H i (Nat.lt_lt_succ_r _ _ Hi))). assert (H2 := H n (Nat.lt_succ_diag_r n)). lra.
Qed.

Lemma bsum_nonneg n f : (forall i, i < n -> (0 <= f i)%Q) -> (0 <= bsum n f)%Q.
Proof.
  induction n as [|n IH]; intros H; cbn [bsum]; [lra|].
  assert (H1 := IH (fun i Hi => H i (Nat.lt_lt_succ_r _ _ Hi))). assert (H2 := H n (Nat.lt_succ_diag_r n)). lra.
Qed.

Lemma bsum_swap n m (f : nat -> nat -> Q) :
  (bsum n (fun i => bsum m (fun j => f i j)) == bsum m (fun j => bsum n (fun i => f i j)))%Q.
Proof.
  induction n as [|n IH]; cbn [bsum].
  - symmetry. apply bsum_0. intros; reflexivity.
  - rewrite IH. rewrite <- bsum_plus. apply bsum_ext. intros; reflexivity.
Qed.

Lemma Qabs_bsum n f : (Qabs (bsum n f) <= bsum n (fun i => Qabs (f i)))%Q.
Proof.
  induction n as [|n IH]; cbn [bsum]; [cbn; lra|].
  eapply Qle_trans; [apply Qabs_triangle|]. lra.
Qed.

(** Sum of a function supported on one index. *)
Lemma bsum_delta n i c : i < n -> (bsum n (fun j => if Nat.eqb j i then c else 0) == c)%Q.
Proof.
  induction n as [|n IH]; intros H; [lia|]. cbn [bsum].
  destruct (Nat.eqb n i) eqn:E.
  - apply Nat.eqb_eq in E. subst i. rewrite bsum_0; [lra|].
    intros j Hj. destruct (Nat.eqb j n) eqn:E2; [apply Nat.eqb_eq in E2; lia|reflexivity].
  - apply Nat.eqb_neq in E. rewrite IH by lia. lra.
Qed.

Lemma bsum_delta_out n i c : n <= i -> (bsum n (fun j => if Nat.eqb j i then c else 0) == 0)%Q.
Proof.
  intros H. apply bsum_0. intros j Hj. destruct (Nat.eqb j i) eqn:E; [apply Nat.eqb_eq in E; lia|reflexivity].
Qed.

Lemma norm1_nonneg n f : (0 <= norm1 n f)%Q.
Proof. apply bsum_nonneg. intros; apply Qabs_nonneg. Qed.

Lemma norm1_ext n f g : (forall i, i < n -> (f i == g i)%Q) -> (norm1 n f == norm1 n g)%Q.
Proof. intros H. apply bsum_ext. intros i Hi. rewrite (H i Hi). reflexivity. Qed.

Lemma norm1_triangle n f g : (norm1 n (fun i => f i + g i) <= norm1 n f + norm1 n g)%Q.
Proof.
  unfold norm1. rewrite <- bsum_plus. apply bsum_le. intros; apply Qabs_triangle.
Qed.

Lemma norm1_zero_inv n f : (norm1 n f <= 0)%Q -> forall i, i < n -> (f i == 0)%Q.
Proof.
  induction n as [|n IH]; intros H i Hi; [lia|]. unfold norm1 in H. cbn [bsum] in H.
  assert (H0 := norm1_nonneg n f). unfold norm1 in H0. assert (H1 := Qabs_nonneg (f n)).
  destruct (Nat.eq_dec i n) as [->|Hne].
  - assert (Hz : (Qabs (f n) <= 0)%Q) by lra.
    assert (Hle := Qle_Qabs (f n)). assert (Hle2 := Qle_Qabs (- f n)). rewrite Qabs_opp in Hle2. lra.
  - apply IH; [unfold norm1; lra | lia].
Qed.

Lemma vsum_le_norm1 n f : (Qabs (vsum n f) <= norm1 n f)%Q.
Proof. apply Qabs_bsum. Qed.

(* ------------------------------------------------------------------------------------------ *)
(** * Contraction in the L1 norm, uniqueness, residual bound *)

Definition nonneg_mat (n : nat) (M : mat) : Prop := forall i j, i < n -> j < n -> (0 <= M i j)%Q.
Definition colsum_le (n : nat) (M : mat) (alpha : Q) : Prop :=
  forall j, j < n -> (bsum n (fun i => M i j) <= alpha)%Q.

Lemma norm1_contract_gen n (M : mat) (alpha : Q) (z : vec) :
  nonneg_mat n M -> colsum_le n M alpha -> (norm1 n (mv n M z) <= alpha * norm1 n z)%Q.
Proof.
  intros Hpos Hcol. unfold norm1, mv.
  eapply Qle_trans.
  { apply bsum_le. intros i Hi. apply Qabs_bsum. }
  rewrite bsum_swap. rewrite <- bsum_scale. apply bsum_le. intros j Hj.
  rewrite (bsum_ext n (fun i => Qabs (M i j * z j)) (fun i => M i j * Qabs (z j))%Q).
  2:{ intros i Hi. rewrite Qabs_Qmult. rewrite (Qabs_pos (M i j)) by (apply Hpos; assumption). reflexivity. }
  rewrite (bsum_scale_r n (Qabs (z j)) (fun i => M i j)). assert (H1 := Hcol j Hj). assert (H2 := Qabs_nonneg (z j)). nra.
Qed.

Lemma mv_ext n M z z' : (forall j, j < n -> (z j == z' j)%Q) -> forall i, (mv n M z i == mv n M z' i)%Q.
Proof. intros H i. unfold mv. apply bsum_ext. intros j Hj. rewrite (H j Hj). reflexivity. Qed.

Lemma mv_minus n M z z' i : (mv n M (fun j => z j - z' j) i == mv n M z i - mv n M z' i)%Q.
Proof. unfold mv. rewrite <- bsum_minus. apply bsum_ext. intros; lra. Qed.

Lemma mv_plus n M z z' i : (mv n M (fun j => z j + z' j) i == mv n M z i + mv n M z' i)%Q.
Proof. unfold mv. rewrite <- bsum_plus. apply bsum_ext. intros; lra. Qed.

Lemma mv_scale n M c z i : (mv n M (fun j => c * z j) i == c * mv n M z i)%Q.
Proof. unfold mv. rewrite <- bsum_scale. apply bsum_ext. intros; lra. Qed.

(** x = M x + b has at most one solution when M contracts with a factor alpha < 1. *)
Lemma fixed_point_unique n M alpha (b x x' : vec) :
  nonneg_mat n M -> colsum_le n M alpha -> (alpha < 1)%Q ->
  (forall i, i < n -> (x i == mv n M x i + b i)%Q) ->
  (forall i, i < n -> (x' i == mv n M x' i + b i)%Q) ->
  forall i, i < n -> (x i == x' i)%Q.
Proof.
  intros Hpos Hcol Ha Hx Hx' i Hi.
  set (d := fun j => (x j - x' j)%Q).
  assert (Hd : forall j, j < n -> (d j == mv n M d j)%Q).
  { intros j Hj. unfold d. rewrite mv_minus. rewrite (Hx j Hj) at 1. rewrite (Hx' j Hj) at 1. lra. }
  assert (Hc := norm1_contract_gen n M alpha d Hpos Hcol).
  assert (Hn : (norm1 n d == norm1 n (mv n M d))%Q) by (apply norm1_ext; exact Hd).
  assert (H0 := norm1_nonneg n d).
  assert (Hz : (norm1 n d <= 0)%Q) by nra.
  assert (Hdi := norm1_zero_inv n d Hz i Hi). unfold d in Hdi. lra.
Qed.

(** Validator soundness: a small residual means a small distance to the solution. *)
Lemma residual_bound_gen n M alpha (b x xs : vec) (eps : Q) :
  nonneg_mat n M -> colsum_le n M alpha -> (alpha < 1)%Q ->
  (norm1 n (fun i => x i - (mv n M x i + b i)) <= eps)%Q ->
  (forall i, i < n -> (xs i == mv n M xs i + b i)%Q) ->
  (norm1 n (fun i => x i - xs i) <= eps / (1 - alpha))%Q.
Proof.
  intros Hpos Hcol Ha Hres Hxs.
  set (d := fun j => (x j - xs j)%Q).
  set (r := fun i => (x i - (mv n M x i + b i))%Q).
  assert (Hd : forall j, j < n -> (d j == mv n M d j + r j)%Q).
  { intros j Hj. unfold d, r. rewrite mv_minus. rewrite (Hxs j Hj) at 1. lra. }
  assert (Hn : (norm1 n d <= norm1 n (mv n M d) + norm1 n r)%Q).
  { rewrite (norm1_ext n d (fun j => mv n M d j + r j)%Q Hd). apply norm1_triangle. }
  assert (Hc := norm1_contract_gen n M alpha d Hpos Hcol).
  fold r in Hres. fold d.
  apply Qle_shift_div_l; [lra|]. nra.
Qed.

(* ------------------------------------------------------------------------------------------ *)
(** * Rows, normalisation: the matrix alpha P^T of a graph *)

Lemma sumq_cons x l : sumq (x :: l) = (x + sumq l)%Q.
Proof. reflexivity. Qed.

Lemma entry_cons e r j :
  (entry (e :: r) j == (if Nat.eqb (fst e) j then snd e else 0) + entry r j)%Q.
Proof.
  unfold entry, sumq. cbn [filter]. destruct (Nat.eqb (fst e) j); cbn [map fold_right]; lra.
Qed.

Lemma entry_nil j : entry [] j = 0%Q.
Proof. reflexivity. Qed.

Lemma bsum_entry n r : wf_row n r = true -> (bsum n (entry r) == sumq (map snd r))%Q.
Proof.
  induction r as [|e r IH]; intros H.
  - apply bsum_0. intros; reflexivity.
  - cbn [wf_row forallb] in H. apply andb_prop in H. destruct H as [He Hr].
    apply Nat.ltb_lt in He.
    rewrite (bsum_ext n _ (fun j => (if Nat.eqb j (fst e) then snd e else 0) + entry r j)%Q).
    2:{ intros j Hj. rewrite entry_cons. rewrite (Nat.eqb_sym (fst e) j). reflexivity. }
    rewrite bsum_plus. rewrite bsum_delta by exact He. rewrite (IH Hr). cbn [map]. rewrite sumq_cons. reflexivity.
Qed.

Lemma entry_nonneg r j : nonneg_row r = true -> (0 <= entry r j)%Q.
Proof.
  induction r as [|e r IH]; intros H; [cbn; lra|].
  cbn [nonneg_row forallb] in H. apply andb_prop in H. destruct H as [He Hr].
  apply Qle_bool_iff in He. rewrite entry_cons. assert (H1 := IH Hr).
  destruct (Nat.eqb (fst e) j); lra.
Qed.

Lemma row_norm_nonneg_eq r : nonneg_row r = true -> (row_norm r == sumq (map snd r))%Q.
Proof.
  induction r as [|e r IH]; intros H; [reflexivity|].
  cbn [nonneg_row forallb] in H. apply andb_prop in H. destruct H as [He Hr].
  apply Qle_bool_iff in He. unfold row_norm in *. cbn [map]. rewrite !sumq_cons.
  rewrite (IH Hr). rewrite Qabs_pos by exact He. reflexivity.
Qed.

Lemma sumq_nonneg r : nonneg_row r = true -> (0 <= sumq (map snd r))%Q.
Proof.
  induction r as [|e r IH]; intros H; [cbn; lra|].
  cbn [nonneg_row forallb] in H. apply andb_prop in H. destruct H as [He Hr].
  apply Qle_bool_iff in He. cbn [map]. rewrite sumq_cons. assert (H1 := IH Hr). lra.
Qed.

Lemma wf_row_map n (f : Q -> Q) r :
  wf_row n (map (fun e => (fst e, f (snd e))) r) = wf_row n r.
Proof. induction r as [|e r IH]; [reflexivity|]. cbn [map wf_row forallb fst]. f_equal. exact IH. Qed.

Lemma sumq_map_div r s :
  (sumq (map snd (map (fun e : nat * Q => (fst e, Qred (snd e / s))) r)) == sumq (map snd r) / s)%Q.
Proof.
  induction r as [|e r IH]; cbn [map snd].
  - cbn. unfold Qdiv. lra.
  - rewrite !sumq_cons. rewrite IH. rewrite Qred_correct. unfold Qdiv. lra.
Qed.

Lemma nonneg_row_map_div r s :
  (0 < s)%Q -> nonneg_row r = true ->
  nonneg_row (map (fun e : nat * Q => (fst e, Qred (snd e / s))) r) = true.
Proof.
  intros Hs. induction r as [|e r IH]; intros H; [reflexivity|].
  cbn [nonneg_row forallb] in H. apply andb_prop in H. destruct H as [He Hr].
  cbn [map nonneg_row forallb snd]. apply andb_true_intro. split; [|exact (IH Hr)].
  apply Qle_bool_iff. rewrite Qred_correct. apply Qle_bool_iff in He.
  apply Qle_shift_div_l; [exact Hs|]. lra.
Qed.

(** Facts about one normalised row. *)
Lemma normalize_row_facts n r :
  wf_row n r = true -> nonneg_row r = true ->
  wf_row n (normalize_row r) = true /\ nonneg_row (normalize_row r) = true /\
  (bsum n (entry (normalize_row r)) == (if Qeq_bool (sumq (map snd r)) 0 then 0 else 1))%Q.
Proof.
  intros Hwf Hnn. unfold normalize_row.
  assert (Hs := row_norm_nonneg_eq r Hnn). assert (Hp := sumq_nonneg r Hnn).
  destruct (Qeq_bool (Qred (row_norm r)) 0) eqn:E.
  - apply Qeq_bool_iff in E. rewrite Qred_correct in E.
    split; [reflexivity|]. split; [reflexivity|].
    assert (E2 : (sumq (map snd r) == 0)%Q) by lra.
    apply Qeq_bool_iff in E2. rewrite E2. apply bsum_0. intros; reflexivity.
  - apply Qeq_bool_neq in E. rewrite Qred_correct in E.
    assert (Hpos : (0 < Qred (row_norm r))%Q) by (rewrite Qred_correct; lra).
    split; [rewrite (wf_row_map n (fun w => Qred (w / Qred (row_norm r))%Q)); exact Hwf|].
    split; [apply nonneg_row_map_div; assumption|].
    rewrite bsum_entry by (rewrite (wf_row_map n (fun w => Qred (w / Qred (row_norm r))%Q)); exact Hwf).
    rewrite sumq_map_div. rewrite Qred_correct.
    destruct (Qeq_bool (sumq (map snd r)) 0) eqn:E3.
    + apply Qeq_bool_iff in E3. lra.
    + rewrite Hs. field. lra.
Qed.

Lemma forallb_nth {A} (f : A -> bool) l d i : forallb f l = true -> f d = true -> f (nth i l d) = true.
Proof.
  revert i. induction l as [|a l IH]; intros [|i] H Hd; cbn [nth]; try exact Hd.
  - cbn in H. apply andb_prop in H. tauto.
  - cbn in H. apply andb_prop in H. apply IH; tauto.
Qed.

Lemma wrow_of_normalize g i : wrow_of (normalize g) i = normalize_row (wrow_of g i).
Proof.
  unfold wrow_of, normalize. change (@nil (nat * Q)) with (normalize_row []) at 1. apply map_nth.
Qed.

(** The transition matrix of a well-formed non-negative graph: non-negative, row i sums to has_out i. *)
Lemma P_facts g :
  wf_graph g = true -> nonneg_graph g = true ->
  (forall i j, (0 <= P g i j)%Q) /\
  (forall i, (bsum (length g) (P g i) == has_out g i)%Q) /\
  (forall i, has_out g i = 0%Q \/ has_out g i = 1%Q).
Proof.
  intros Hwf Hnn.
  assert (Hr : forall i, wf_row (length g) (wrow_of g i) = true /\ nonneg_row (wrow_of g i) = true).
  { intros i. split; unfold wrow_of; [apply (forallb_nth (wf_row (length g))) | apply (forallb_nth nonneg_row)];
      try assumption; reflexivity. }
  split; [|split].
  - intros i j. unfold P, Pn. rewrite wrow_of_normalize. destruct (Hr i) as [H1 H2].
    apply entry_nonneg. apply (normalize_row_facts _ _ H1 H2).
  - intros i. unfold P, Pn. rewrite wrow_of_normalize. destruct (Hr i) as [H1 H2].
    destruct (normalize_row_facts _ _ H1 H2) as (_ & _ & H3).
    rewrite (bsum_ext _ _ (entry (normalize_row (wrow_of g i)))) by (intros; reflexivity).
    rewrite H3. unfold has_out. reflexivity.
  - intros i. unfold has_out. destruct (Qeq_bool _ _); auto.
Qed.

(** M = alpha P^T: non-negative with column sums alpha * has_out <= alpha. *)
Lemma Ma_facts g alpha :
  wf_graph g = true -> nonneg_graph g = true -> (0 <= alpha)%Q ->
  nonneg_mat (length g) (Ma (normalize g) alpha) /\ colsum_le (length g) (Ma (normalize g) alpha) alpha /\
  (forall i, (bsum (length g) (fun j => Ma (normalize g) alpha j i) == alpha * has_out g i)%Q).
Proof.
  intros Hwf Hnn Ha. destruct (P_facts g Hwf Hnn) as (Hp & Hs & Ho).
  assert (Hc : forall i, (bsum (length g) (fun j => Ma (normalize g) alpha j i) == alpha * has_out g i)%Q).
  { intros i. unfold Ma. rewrite bsum_scale. rewrite <- (Hs i). reflexivity. }
  split; [|split; [|exact Hc]].
  - intros i j _ _. unfold Ma. assert (H := Hp j i). unfold P in H. nra.
  - intros j _. rewrite Hc. destruct (Ho j) as [-> | ->]; lra.
Qed.

(* ------------------------------------------------------------------------------------------ *)
(** * Lists as vectors *)

Lemma V_overflow l j : length l <= j -> V l j = 0%Q.
Proof. intros H. unfold V, nthq. apply nth_overflow. exact H. Qed.

Lemma V_map_Qred (f : Q -> Q) l j :
  (f 0 == 0)%Q -> (V (map (fun x => Qred (f x)) l) j == f (V l j))%Q.
Proof.
  intros H0. destruct (Nat.lt_ge_cases j (length l)) as [Hj|Hj].
  - unfold V, nthq. rewrite (nth_indep _ 0%Q (Qred (f 0%Q))) by (rewrite map_length; exact Hj).
    rewrite (map_nth (fun x => Qred (f x))). apply Qred_correct.
  - rewrite !V_overflow by (try rewrite map_length; exact Hj). symmetry. exact H0.
Qed.

Lemma V_vscale c l j : (V (vscale c l) j == c * V l j)%Q.
Proof. unfold vscale. apply (V_map_Qred (fun x => c * x)%Q). lra. Qed.

Lemma tab_length n f : length (tab n f) = n.
Proof. unfold tab. rewrite map_length. apply seq_length. Qed.

Lemma V_tab n f j : j < n -> (V (tab n f) j == f j)%Q.
Proof.
  intros Hj. unfold V, nthq, tab. rewrite (nth_indep _ 0%Q (Qred (f 0))) by (rewrite map_length, seq_length; exact Hj).
  rewrite (map_nth (fun i => Qred (f i))). rewrite seq_nth by exact Hj. apply Qred_correct.
Qed.

Lemma vscale_length c l : length (vscale c l) = length l.
Proof. apply map_length. Qed.

(* ------------------------------------------------------------------------------------------ *)
(** * Distance between normalised vectors *)

Lemma Qabs_le_of a b : (- b <= a)%Q -> (a <= b)%Q -> (Qabs a <= b)%Q.
Proof. intros H1 H2. apply Qabs_Qle_condition. split; assumption. Qed.

Lemma vsum_minus n f g : (vsum n (fun i => f i - g i) == vsum n f - vsum n g)%Q.
Proof. apply bsum_minus. Qed.

Lemma normalized_distance n (x xs : vec) (delta : Q) :
  (norm1 n (fun j => x j - xs j) <= delta)%Q ->
  (delta < Qabs (vsum n x))%Q ->
  ~ (vsum n xs == 0)%Q /\
  (norm1 n (fun j => x j / vsum n x - xs j / vsum n xs) * (Qabs (vsum n x) * (Qabs (vsum n x) - delta))
   <= delta * (Qabs (vsum n x) + norm1 n x))%Q.
Proof.
  intros Hd Hs.
  set (S := vsum n x) in *. set (T := vsum n xs).
  assert (Hd0 : (0 <= delta)%Q) by (eapply Qle_trans; [apply (norm1_nonneg n (fun j => x j - xs j)%Q)|exact Hd]).
  assert (HST : (Qabs (S - T) <= delta)%Q).
  { unfold S, T. rewrite <- vsum_minus. eapply Qle_trans; [apply vsum_le_norm1|exact Hd]. }
  assert (HT : (Qabs S - delta <= Qabs T)%Q).
  { assert (H := Qabs_triangle (S - T) T). setoid_replace (S - T + T)%Q with S in H by ring. lra. }
  assert (HTpos : (0 < Qabs T)%Q) by lra.
  assert (HTn : ~ (T == 0)%Q). { intros E. rewrite E in HTpos. cbn in HTpos. lra. }
  assert (HSn : ~ (S == 0)%Q). { intros E. rewrite E in Hs. cbn in Hs. lra. }
  split; [exact HTn|].
  assert (HSpos : (0 < Qabs S)%Q) by lra.
  (* pointwise bound multiplied by |S||T| *)
  assert (Hpt : forall j, (Qabs (x j / S - xs j / T) * (Qabs S * Qabs T)
                           <= Qabs S * Qabs (x j - xs j) + Qabs (x j) * delta)%Q).
  { intros j.
    rewrite <- (Qabs_Qmult S T). rewrite <- Qabs_Qmult.
    setoid_replace ((x j / S - xs j / T) * (S * T))%Q with (S * (x j - xs j) + x j * (T - S))%Q by (field; split; assumption).
    eapply Qle_trans; [apply Qabs_triangle|]. rewrite !Qabs_Qmult.
    assert (H1 : (Qabs (T - S) <= delta)%Q).
    { setoid_replace (T - S)%Q with (- (S - T))%Q by ring. rewrite Qabs_opp. exact HST. }
    assert (H2 := Qabs_nonneg (x j)). nra. }
  assert (Hsum : (norm1 n (fun j => x j / S - xs j / T) * (Qabs S * Qabs T)
                  <= Qabs S * norm1 n (fun j => x j - xs j) + norm1 n x * delta)%Q).
  { unfold norm1. rewrite <- bsum_scale_r. rewrite <- bsum_scale. rewrite <- (bsum_scale_r n delta). rewrite <- bsum_plus.
    apply bsum_le. intros j _. apply Hpt. }
  assert (Hn0 := norm1_nonneg n (fun j => x j / S - xs j / T)%Q).
  assert (Hnx := norm1_nonneg n x).
  set (N := norm1 n (fun j => x j / S - xs j / T)%Q) in *.
  set (D := norm1 n (fun j => x j - xs j)%Q) in *.
  set (a := Qabs S) in *. set (b := Qabs T) in *.
  assert (Hab : (a * (a - delta) <= a * b)%Q) by nra.
  assert (Hstep : (N * (a * (a - delta)) <= N * (a * b))%Q) by nra.
  assert (HaD : (a * D <= a * delta)%Q) by nra.
  lra.
Qed.

(* ------------------------------------------------------------------------------------------ *)
(** * Uniqueness of the PageRank vector and soundness of the residual validator *)

Definition good_graph (g : wgraph) : Prop := wf_graph g = true /\ nonneg_graph g = true.

Lemma solution_unique g alpha (y x x' : vec) :
  good_graph g -> (0 <= alpha < 1)%Q ->
  is_solution (length g) (P g) alpha y x -> is_solution (length g) (P g) alpha y x' ->
  forall j, j < length g -> (x j == x' j)%Q.
Proof.
  intros [Hwf Hnn] [Ha0 Ha1] Hx Hx'.
  destruct (Ma_facts g alpha Hwf Hnn Ha0) as (Hp & Hc & _).
  apply (fixed_point_unique (length g) (Ma (normalize g) alpha) alpha (fun j => (1 - alpha) * y j)%Q); assumption.
Qed.

Lemma pagerank_unique g alpha (y p p' : vec) :
  good_graph g -> (0 <= alpha < 1)%Q ->
  is_pagerank (length g) (P g) alpha y p -> is_pagerank (length g) (P g) alpha y p' ->
  forall j, j < length g -> (p j == p' j)%Q.
Proof.
  intros Hg Ha (x & Hx & Hsx & Hp) (x' & Hx' & Hsx' & Hp') j Hj.
  assert (Hxx := solution_unique g alpha y x x' Hg Ha Hx Hx').
  rewrite (Hp j Hj), (Hp' j Hj). rewrite (Hxx j Hj).
  assert (Hs : (vsum (length g) x == vsum (length g) x')%Q) by (apply bsum_ext; exact Hxx).
  rewrite Hs. reflexivity.
Qed.

Lemma residual_bound_graph g alpha (y x xs : vec) eps :
  good_graph g -> (0 <= alpha < 1)%Q ->
  (norm1 (length g) (fun j => x j - (mv (length g) (PT alpha (P g)) x j + (1 - alpha) * y j)) <= eps)%Q ->
  is_solution (length g) (P g) alpha y xs ->
  (norm1 (length g) (fun j => x j - xs j) <= eps / (1 - alpha))%Q.
Proof.
  intros [Hwf Hnn] [Ha0 Ha1] Hres Hxs.
  destruct (Ma_facts g alpha Hwf Hnn Ha0) as (Hp & Hc & _).
  apply (residual_bound_gen (length g) (Ma (normalize g) alpha) alpha (fun j => (1 - alpha) * y j)%Q); assumption.
Qed.

Lemma Qltb_lt a b : Qltb a b = true <-> (a < b)%Q.
Proof.
  unfold Qltb. rewrite negb_true_iff. split.
  - intros H. apply Qnot_le_lt. intros Hle. apply Qle_bool_iff in Hle. congruence.
  - intros H. destruct (Qle_bool b a) eqn:E; [|reflexivity]. apply Qle_bool_iff in E. lra.
Qed.

Theorem residual_check_sound_proof g alpha y p eps :
  residual_check g alpha y p eps = true ->
  good_graph g /\ (0 <= alpha < 1)%Q /\
  forall xs, is_solution (length g) (P g) alpha (V y) xs ->
    ~ (vsum (length g) xs == 0)%Q /\ ~ (vsum (length g) (V p) == 0)%Q /\
    (norm1 (length g) (fun j => V p j / vsum (length g) (V p) - xs j / vsum (length g) xs) <= eps)%Q.
Proof.
  unfold residual_check, residual_parts. set (n := length g).
  set (den := Qred (1 - alpha * bsum n (fun i => has_out g i * V p i))%Q).
  set (c := Qred ((1 - alpha) / den)%Q).
  set (x := vscale c p).
  set (r := Qred (norm1 n (fun j => V x j - (mv n (Ma (normalize g) alpha) (V x) j + (1 - alpha) * V y j)))%Q).
  set (delta := Qred (r / (1 - alpha))%Q).
  set (s := Qred (Qabs (bsum n (V x)))). set (nx := Qred (norm1 n (V x))).
  intros H. repeat (apply andb_prop in H; destruct H as [H ?]).
  rename H into Hlp. rename H0 into Hchk. rename H1 into Hds. rename H2 into Hden.
  rename H3 into Ha1. rename H4 into Ha0. rename H5 into Hnn. rename H6 into Hwf. rename H7 into Hly.
  apply Qle_bool_iff in Ha0. apply Qltb_lt in Ha1. apply Qltb_lt in Hds. apply Qle_bool_iff in Hchk.
  split; [split; assumption|]. split; [split; assumption|].
  intros xs Hxs.
  assert (Hgood : good_graph g) by (split; assumption).
  assert (Hr : (norm1 n (fun j => V x j - xs j) <= delta)%Q).
  { unfold delta. rewrite Qred_correct. apply (residual_bound_graph g alpha (V y) (V x) xs r Hgood); [split; assumption| |exact Hxs].
    unfold r. rewrite Qred_correct. apply Qle_refl. }
  assert (Hs' : (delta < Qabs (vsum n (V x)))%Q). { unfold s in Hds. rewrite Qred_correct in Hds. exact Hds. }
  destruct (normalized_distance n (V x) xs delta Hr Hs') as [HT Hnd].
  assert (HSx : ~ (vsum n (V x) == 0)%Q).
  { intros E. rewrite E in Hs'. cbn in Hs'.
    assert (H0 := norm1_nonneg n (fun j => V x j - xs j)%Q). lra. }
  assert (Hxc : forall j, (V x j == c * V p j)%Q) by (intros j; unfold x; apply V_vscale).
  assert (Hsc : (vsum n (V x) == c * vsum n (V p))%Q).
  { unfold vsum. rewrite <- bsum_scale. apply bsum_ext. intros j _. apply Hxc. }
  assert (Hc : ~ (c == 0)%Q). { intros E. apply HSx. rewrite Hsc, E. lra. }
  assert (HSp : ~ (vsum n (V p) == 0)%Q). { intros E. apply HSx. rewrite Hsc, E. lra. }
  split; [exact HT|]. split; [exact HSp|].
  assert (Heq : (norm1 n (fun j => V p j / vsum n (V p) - xs j / vsum n xs)
                 == norm1 n (fun j => V x j / vsum n (V x) - xs j / vsum n xs))%Q).
  { apply norm1_ext. intros j _. rewrite (Hxc j), Hsc. field. repeat split; assumption. }
  rewrite Heq.
  unfold s, nx in Hchk. rewrite !Qred_correct in Hchk.
  set (N := norm1 n (fun j => V x j / vsum n (V x) - xs j / vsum n xs)%Q) in *.
  set (a := Qabs (vsum n (V x))) in *. set (b := norm1 n (V x)) in *.
  fold a in Hchk. change (bsum n (V x)) with (vsum n (V x)) in Hchk. fold a in Hchk.
  assert (Hpos : (0 < a * (a - delta))%Q).
  { assert (Hd0 : (0 <= delta)%Q) by (eapply Qle_trans; [apply (norm1_nonneg n (fun j => V x j - xs j)%Q)|exact Hr]). nra. }
  assert (Hfin : (N * (a * (a - delta)) <= eps * (a * (a - delta)))%Q) by lra.
  apply Qmult_le_r in Hfin; assumption.
Qed.

(** What the programs regenerated from postprocess.py compute on every VALID dendrogram: the link theorems of
    Proofs/PyCutsProofs.v composed with the theorems about the model (Proofs/CutsProofs.v). *)
From SKN Require Import Base.Util Model.Dendrogram Model.Cuts Model.PyImp Gen.PyCuts Proofs.CutsProofs Proofs.PyCutsProofs.
From Coq Require Import String Qround Permutation.
Local Open Scope nat_scope.
Local Open Scope string_scope.

(** * What the source text of cut_balanced computes on every valid dendrogram *)
Theorem src_cut_balanced_clusters n D m (e0 : env) :
  valid n D = true -> 2 <= m <= n ->
  e0 "dendrogram" = Some (embD D) -> e0 "max_cluster_size" = Some (vnat m) ->
  exists e' st, exec src_cut_balanced e0 = POk e' /\ e' "cluster" = Some (embC st) /\
                cinv n D (Datatypes.length D) st /\
                Forall (fun kc : nat * list nat => Datatypes.length (snd kc) <= m) st.
Proof.
  intros Hv Hm Hd Hmm.
  destruct (cut_balanced_total stable_argsort n D m false false Hv stable_argsort_ok Hm) as (labels & od & Hcut).
  apply cut_balanced_inv in Hcut. destruct Hcut as (_ & st & Hrep & _).
  destruct (valid_rows n D Hv) as [Hlen _].
  pose proof (src_cut_balanced_is_model D m e0 Hd Hmm) as L.
  assert (Hbs : balanced_state D m = Ok st).
  { unfold balanced_state. rewrite Hlen.
    replace (Nat.ltb m 2) with false by (symmetry; apply Nat.ltb_ge; lia).
    replace (Nat.ltb n m) with false by (symmetry; apply Nat.ltb_ge; lia).
    rewrite <- Hlen. exact Hrep. }
  rewrite Hbs in L. destruct L as (e' & F & Hc & _). exists e', st. split; [exact F|]. split; [exact Hc|].
  rewrite Hlen in Hrep. split.
  - apply (replay_cinv (balanced_guard m) n D (valid_ids_lt n D Hv) D [] (init_clusters n) st eq_refl (cinv_init n D)).
    simpl. rewrite Nat.add_0_r. exact Hrep.
  - apply (replay_cap m n D (valid_ids_lt n D Hv) D [] (init_clusters n) st eq_refl).
    + apply cinv_init.
    + unfold init_clusters. apply Forall_forall. intros x Hx. apply in_map_iff in Hx.
      destruct Hx as [i [<- _]]. simpl. lia.
    + simpl. rewrite Nat.add_0_r. exact Hrep.
Qed.

(** * ... and of cut_straight (from [cluster = {...}] on; ret = false: the dendrogram is cut as given) *)
Theorem src_cut_straight_clusters n D nc th (e0 : env) :
  valid n D = true -> 2 <= n ->
  match nc with Some k => 1 <= k <= n | None => True end ->
  e0 "dendrogram" = Some (embD D) -> e0 "n" = Some (vnat n) ->
  e0 "n_clusters" = Some (embON nc) -> e0 "threshold" = Some (embOQ th) ->
  exists e' st cut, exec src_cut_straight_core e0 = POk e' /\ e' "cluster" = Some (embC st) /\
                    cut_height D nc th = Ok cut /\
                    replay (straight_guard cut) n D (init_clusters n) = Ok st /\
                    cinv n D (Datatypes.length D) st.
Proof.
  intros Hv Hn Hnc Hd Hnn Hncc Hth.
  destruct (cut_straight_total stable_argsort n D nc th false Hv Hn Hnc) as (labels & Hcut).
  apply cut_straight_inv in Hcut. destruct Hcut as (D' & st & Hst & _).
  apply straight_state_inv in Hst. destruct Hst as (Hin & cut & Hch & Hrep).
  unfold cut_input in Hin. simpl in Hin. inversion Hin. subst D'.
  destruct (valid_rows n D Hv) as [Hlen _].
  rewrite <- Hlen in Hnn.
  pose proof (src_cut_straight_core_is_model D nc th e0 Hd Hnn Hncc Hth) as L.
  unfold straight_core_model in L. rewrite Hch, Hrep in L.
  destruct L as (e' & F & Hc & _). exists e', st, cut. split; [exact F|]. split; [exact Hc|]. split; [exact Hch|].
  rewrite Hlen in Hrep. split; [exact Hrep|].
  apply (replay_cinv (straight_guard cut) n D (valid_ids_lt n D Hv) D [] (init_clusters n) st eq_refl (cinv_init n D)).
  simpl. rewrite Nat.add_0_r. exact Hrep.
Qed.

(** * The statements around the translated fragments, as the translator saw them (reviewed text) *)
Lemma untranslated_parts_reviewed :
  src_cut_balanced_params = ["dendrogram"; "max_cluster_size"; "sort_clusters"; "return_dendrogram"] /\
  src_cut_balanced_tail = ["dendrogram"; "cluster"; "sort_clusters"; "return_dendrogram"] /\
  src_cut_straight_params = ["dendrogram"; "n_clusters"; "threshold"; "sort_clusters"; "return_dendrogram"] /\
  src_cut_straight_tail = ["dendrogram"; "cluster"; "sort_clusters"; "return_dendrogram"] /\
  src_cut_straight_head =
    ["check_dendrogram(dendrogram)"; "n = dendrogram.shape[0] + 1";
     "if return_dendrogram:
    height = dendrogram[:, 2]
    if not np.all(height[:-1] <= height[1:]):
        dendrogram = reorder_dendrogram(dendrogram)"] /\
  src_reduce_init =
    ["cluster_index = {i: label for i, label in enumerate(labels)}";
     "cluster_size = {i: len(cluster) for i, cluster in enumerate(clusters)}";
     "dendrogram_new = []"; "current_cluster = len(labels)"; "current_cluster_new = len(clusters)"] /\
  src_reduce_after = ["dendrogram_new = np.array(dendrogram_new)"; "return (labels, dendrogram_new)"] /\
  src_get_labels_before =
    ["n = len(dendrogram) + 1"; "clusters = list(cluster.values())";
     "if sort_clusters:
    sizes = np.array([len(nodes) for nodes in clusters])
    index = np.argsort(-sizes)
    clusters = [clusters[i] for i in index]";
     "labels = np.zeros(n, dtype=int)";
     "for label, nodes in enumerate(clusters):
    labels[nodes] = label"].
Proof. repeat split; reflexivity. Qed.

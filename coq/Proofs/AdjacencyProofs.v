(** from_adjacency_list: the model (Parse.from_adjacency_dict / from_adjacency_list_nat) meets the
    specification written on the adjacency list itself (Model/AdjacencyList.v). *)
From Coq Require Import String Ascii.
From Coq Require Import Lia.
From SKN Require Import Base.Util Model.PathSafe Model.Parse Model.AdjacencyList Proofs.PathSafeProofs Proofs.ParseProofs.
Set Warnings "-notation-overridden".

(** * Generic list facts *)

Lemma sumz_repeat_1 c : sumz (repeat 1%Z c) = Z.of_nat c.
Proof. induction c as [|c IH]; [reflexivity|].
  change (sumz (repeat 1%Z (S c))) with (1 + sumz (repeat 1%Z c))%Z. rewrite IH. lia.
Qed.

Lemma existsb_nonzero_repeat_1 c :
  existsb (fun w => negb (w =? 0)%Z) (repeat 1%Z c) = (0 <? c).
Proof. destruct c as [|c]; reflexivity. Qed.

Lemma firstn_1_repeat {A} (x : A) c : firstn 1 (repeat x c) = repeat x (if 0 <? c then 1 else 0).
Proof. destruct c as [|c]; reflexivity. Qed.

Lemma in_adjacency_edges {id} (adj : list (id * list id)) a b :
  In (a, b) (adjacency_edges adj) <-> exists nb, In (a, nb) adj /\ In b nb.
Proof.
  unfold adjacency_edges. rewrite in_flat_map. split.
  - intros [[k nb] [Hr Hab]]. simpl in Hab. apply in_map_iff in Hab as [b' [E Hb']].
    inversion E; subst. exists nb. split; assumption.
  - intros [nb [Hr Hb]]. exists (a, nb). split; [exact Hr|]. simpl. apply in_map_iff.
    exists b. split; [reflexivity|exact Hb].
Qed.

Section AdjacencyProofs.
  Context {id : Type} (ideqb : id -> id -> bool) (as_int : id -> option nat)
          (unique : list id -> list id * list nat) (pass : bool)
          (ideqb_spec : forall a b, ideqb a b = true <-> a = b)
          (as_int_inj : forall a b k, as_int a = Some k -> as_int b = Some k -> a = b)
          (uniq_ok : unique_ok ideqb unique).

  Notation is_node := (is_node ideqb as_int).

  (** Unit weights: the listed weights are as many 1s as there are matching edges. *)
  Lemma listed_unit rn cn (ea : list (id * id)) i j :
    listed ideqb as_int rn cn (raw_edges ea None) i j =
    repeat 1%Z (length (filter (fun p => is_node rn i (fst p) && is_node cn j (snd p)) ea)).
  Proof.
    unfold listed, raw_edges.
    induction ea as [|[a b] t IH]; [reflexivity|].
    cbn [length repeat combine filter esrc edst fst snd].
    destruct (is_node rn i a && is_node cn j b); cbn [map length repeat ew snd]; rewrite IH; reflexivity.
  Qed.

  Lemma count_row rn cn (k : id) (nb : list id) i j :
    length (filter (fun p => is_node rn i (fst p) && is_node cn j (snd p)) (map (fun b => (k, b)) nb)) =
    if is_node rn i k then length (filter (is_node cn j) nb) else 0.
  Proof.
    induction nb as [|b t IH]; [destruct (is_node rn i k); reflexivity|].
    cbn [map filter fst snd]. destruct (is_node rn i k) eqn:Hk; cbn [andb] in *.
    - destruct (is_node cn j b); cbn [length]; rewrite IH; reflexivity.
    - exact IH.
  Qed.

  Lemma count_adjacency rn cn (adj : list (id * list id)) i j :
    length (filter (fun p => is_node rn i (fst p) && is_node cn j (snd p)) (adjacency_edges adj)) =
    adj_count ideqb as_int rn cn adj i j.
  Proof.
    unfold adjacency_edges, adj_count.
    induction adj as [|[k nb] t IH]; [reflexivity|].
    cbn [flat_map map sumn fold_right fst snd]. rewrite filter_app, app_length, count_row.
    fold (sumn (map (fun r => if is_node rn i (fst r)
                              then length (filter (is_node cn j) (snd r)) else 0) t)).
    rewrite IH. reflexivity.
  Qed.

  Lemma listed_adjacency rn cn adj i j :
    listed ideqb as_int rn cn (raw_edges (adjacency_edges adj) None) i j =
    repeat 1%Z (adj_count ideqb as_int rn cn adj i j).
  Proof. rewrite listed_unit, count_adjacency. reflexivity. Qed.

  Lemma spec_base_adjacency fl rn cn adj i j :
    spec_base ideqb as_int fl rn cn (raw_edges (adjacency_edges adj) None) i j =
    adj_base fl (adj_count ideqb as_int rn cn adj i j).
  Proof.
    unfold spec_base, adj_base. rewrite listed_adjacency.
    set (c := adj_count ideqb as_int rn cn adj i j).
    destruct (weighted fl), (sum_duplicates fl); cbn [andb].
    - apply sumz_repeat_1.
    - rewrite firstn_1_repeat, sumz_repeat_1. destruct (0 <? c); reflexivity.
    - apply f_equal with (f := fun b : bool => if b then 1%Z else 0%Z). apply existsb_nonzero_repeat_1.
    - rewrite firstn_1_repeat, existsb_nonzero_repeat_1. destruct (0 <? c); reflexivity.
  Qed.

  Lemma spec_entry_adjacency fl rn cn adj i j :
    spec_entry ideqb as_int fl rn cn (raw_edges (adjacency_edges adj) None) i j =
    adj_spec_entry ideqb as_int fl rn cn adj i j.
  Proof.
    unfold spec_entry, adj_spec_entry. rewrite !spec_base_adjacency. reflexivity.
  Qed.

  Theorem adjacency_dict_entry fl adj d :
    from_adjacency_dict ideqb as_int unique pass fl adj = Some d ->
    pass = true ->
    forall i j, entry (d_matrix d) i j =
                adj_spec_entry ideqb as_int fl (row_names d) (col_names d) adj i j.
  Proof.
    unfold from_adjacency_dict, from_edge_list. intros H Hp i j.
    rewrite <- spec_entry_adjacency.
    apply (from_edge_array_entry ideqb as_int unique pass ideqb_spec as_int_inj uniq_ok
                                 fl (adjacency_edges adj) None d H (or_introl Hp)).
  Qed.

  Theorem adjacency_dict_names fl adj d :
    from_adjacency_dict ideqb as_int unique pass fl adj = Some d ->
    (forall k nb b, In (k, nb) adj -> In b nb ->
       exists i j, i < fst (m_shape (d_matrix d)) /\ j < snd (m_shape (d_matrix d)) /\
                   is_node (row_names d) i k = true /\ is_node (col_names d) j b = true) /\
    (forall ns, row_names d = Some ns ->
       NoDup ns /\ length ns = fst (m_shape (d_matrix d)) /\
       forall x, In x ns -> exists k nb, In (k, nb) adj /\ nb <> [] /\ (x = k \/ In x nb)) /\
    (forall ns, col_names d = Some ns ->
       NoDup ns /\ length ns = snd (m_shape (d_matrix d)) /\
       forall x, In x ns -> exists k nb, In (k, nb) adj /\ nb <> [] /\ (x = k \/ In x nb)) /\
    d_names d = row_names d /\
    (reindex fl = true -> row_names d <> None /\ col_names d <> None).
  Proof.
    unfold from_adjacency_dict, from_edge_list. intros H.
    destruct (from_edge_array_names ideqb as_int unique pass ideqb_spec uniq_ok
                                    fl (adjacency_edges adj) None d H) as [H1 [H2 [H3 [H4 H5]]]].
    assert (Hback : forall x, (exists e, In e (adjacency_edges adj) /\ (x = fst e \/ x = snd e)) ->
                    exists k nb, In (k, nb) adj /\ nb <> [] /\ (x = k \/ In x nb)).
    { intros x [[a b] [He Hx]]. apply in_adjacency_edges in He as [nb [Hr Hb]]. simpl in Hx.
      exists a, nb. split; [exact Hr|]. split.
      - intros E. rewrite E in Hb. exact Hb.
      - destruct Hx as [->| ->]; [left; reflexivity|right; exact Hb]. }
    split; [|split; [|split; [|split]]].
    - intros k nb b Hr Hb. apply H1. apply in_adjacency_edges. exists nb. split; assumption.
    - intros ns Hns. destruct (H2 ns Hns) as [N1 [N2 N3]]. split; [exact N1|]. split; [exact N2|].
      intros x Hx. apply Hback. apply N3. exact Hx.
    - intros ns Hns. destruct (H3 ns Hns) as [N1 [N2 N3]]. split; [exact N1|]. split; [exact N2|].
      intros x Hx. apply Hback. apply N3. exact Hx.
    - exact H4.
    - exact H5.
  Qed.
End AdjacencyProofs.

(** * Instances: list of lists (keys are positions), dict of strings *)

Lemma as_int_nat_inj : forall a b k : nat, as_int_nat a = Some k -> as_int_nat b = Some k -> a = b.
Proof. intros a b k Ha Hb. unfold as_int_nat in *. congruence. Qed.

Lemma from_adjacency_list_nat_dict pass fl (adj : list (list nat)) :
  from_adjacency_list_nat pass fl adj =
  from_adjacency_dict Nat.eqb as_int_nat nat_unique pass fl (enumerate_rows adj).
Proof. reflexivity. Qed.

Theorem adjacency_list_entry pass fl (adj : list (list nat)) d :
  from_adjacency_list_nat pass fl adj = Some d ->
  pass = true ->
  forall i j, entry (d_matrix d) i j =
              adj_spec_entry Nat.eqb as_int_nat fl (row_names d) (col_names d) (enumerate_rows adj) i j.
Proof.
  rewrite from_adjacency_list_nat_dict.
  apply (adjacency_dict_entry Nat.eqb as_int_nat nat_unique pass Nat.eqb_eq as_int_nat_inj nat_unique_ok).
Qed.

Theorem adjacency_list_names pass fl (adj : list (list nat)) d :
  from_adjacency_list_nat pass fl adj = Some d ->
  (forall k nb b, In (k, nb) (enumerate_rows adj) -> In b nb ->
     exists i j, i < fst (m_shape (d_matrix d)) /\ j < snd (m_shape (d_matrix d)) /\
                 is_node Nat.eqb as_int_nat (row_names d) i k = true /\
                 is_node Nat.eqb as_int_nat (col_names d) j b = true) /\
  d_names d = row_names d /\
  (reindex fl = true -> row_names d <> None /\ col_names d <> None).
Proof.
  rewrite from_adjacency_list_nat_dict. intros H.
  destruct (adjacency_dict_names Nat.eqb as_int_nat nat_unique pass Nat.eqb_eq nat_unique_ok
                                 fl (enumerate_rows adj) d H) as [H1 [_ [_ [H4 H5]]]].
  split; [exact H1|]. split; [exact H4|exact H5].
Qed.

Lemma count_filter_eqb (l : list nat) j :
  length (filter (is_node Nat.eqb as_int_nat None j) l) = count_occ Nat.eq_dec l j.
Proof.
  induction l as [|x t IH]; [reflexivity|].
  cbn [filter count_occ]. unfold is_node at 1, as_int_nat at 1.
  destruct (Nat.eq_dec x j) as [E|E].
  - apply Nat.eqb_eq in E. rewrite E. cbn [length]. rewrite IH. reflexivity.
  - apply Nat.eqb_neq in E. rewrite E. exact IH.
Qed.

Lemma adj_count_seq (adj : list (list nat)) i j : forall s,
  adj_count Nat.eqb as_int_nat None None (combine (seq s (length adj)) adj) i j =
  if s <=? i then count_occ Nat.eq_dec (nth (i - s) adj []) j else 0.
Proof.
  unfold adj_count. induction adj as [|r t IH]; intros s.
  - cbn. destruct (s <=? i); [|reflexivity]. destruct (i - s); reflexivity.
  - cbn [length seq combine map sumn fold_right fst snd].
    fold (sumn (map (fun r0 : nat * list nat =>
                       if is_node Nat.eqb as_int_nat None i (fst r0)
                       then length (filter (is_node Nat.eqb as_int_nat None j) (snd r0)) else 0)
                    (combine (seq (S s) (length t)) t))).
    rewrite IH. unfold is_node at 1, as_int_nat at 1.
    destruct (Nat.eqb_spec s i) as [E|E].
    + subst i. rewrite count_filter_eqb, Nat.leb_refl, Nat.sub_diag.
      destruct (Nat.leb_spec (S s) s) as [L|L]; [lia|]. cbn [nth]. lia.
    + destruct (Nat.leb_spec s i) as [L|L].
      * destruct (Nat.leb_spec (S s) i) as [L'|L']; [|lia].
        replace (i - s) with (S (i - S s)) by lia. reflexivity.
      * destruct (Nat.leb_spec (S s) i) as [L'|L']; [lia|reflexivity].
Qed.

Theorem adjacency_list_plain_count (adj : list (list nat)) i j :
  adj_count Nat.eqb as_int_nat None None (enumerate_rows adj) i j = occurrences adj i j.
Proof.
  unfold enumerate_rows, occurrences. rewrite adj_count_seq. cbn [Nat.leb].
  rewrite Nat.sub_0_r. reflexivity.
Qed.

Theorem adjacency_dict_entry_str pass fl (adj : list (string * list string)) d :
  from_adjacency_dict_str pass fl adj = Some d ->
  pass = true ->
  forall i j, entry (d_matrix d) i j =
              adj_spec_entry String.eqb as_int_str fl (row_names d) (col_names d) adj i j.
Proof.
  apply (adjacency_dict_entry String.eqb as_int_str str_unique pass String.eqb_eq).
  - intros a b k Ha. discriminate Ha.
  - exact str_unique_ok.
Qed.

(** * The theorems are not vacuous: a concrete list of lists (a repeated neighbour, an empty list) *)

Definition adj_example_flags : flags :=
  {| directed := true; bipartite := false; weighted := true; reindex := false;
     sum_duplicates := true; shape := None; matrix_only := None |}.
Definition adj_example_flags_sym : flags :=
  {| directed := false; bipartite := false; weighted := false; reindex := true;
     sum_duplicates := true; shape := None; matrix_only := None |}.

Example adjacency_nonvacuous :
  view (from_adjacency_list_nat true adj_example_flags [[1;1;2];[];[0]]) =
    Some ((3, 3), [((0, 1), 2%Z); ((0, 2), 1%Z); ((2, 0), 1%Z)], false, (None, None, None), true) /\
  view (from_adjacency_list_nat true adj_example_flags_sym [[1;1;2];[];[0]]) =
    Some ((3, 3), [((0, 1), 1%Z); ((1, 0), 1%Z); ((2, 0), 1%Z); ((0, 2), 1%Z)], true,
          (Some [0; 1; 2], None, None), false) /\
  (exists d, from_adjacency_list_nat true adj_example_flags [[1;1;2];[];[0]] = Some d /\
             entry (d_matrix d) 0 1 = 2%Z /\ entry (d_matrix d) 0 2 = 1%Z /\
             entry (d_matrix d) 2 0 = 1%Z /\ entry (d_matrix d) 1 0 = 0%Z) /\
  adj_spec_entry Nat.eqb as_int_nat adj_example_flags None None (enumerate_rows [[1;1;2];[];[0]]) 0 1 = 2%Z /\
  occurrences [[1;1;2];[];[0]] 0 1 = 2.
Proof.
  split; [vm_compute; reflexivity|]. split; [vm_compute; reflexivity|].
  split; [eexists; split; [vm_compute; reflexivity|]; vm_compute; repeat split; reflexivity|].
  split; vm_compute; reflexivity.
Qed.

From Coq Require Import String Ascii.
From Coq Require Import Lia.
From SKN Require Import Base.Util Model.Graphml.
Set Warnings "-notation-overridden".

(** Facts about the first walk of [from_graphml] ([scan_root]), the [mapM] combinator, the index
    lists [indices_of] and the name table [index_last]. *)

Local Open Scope string_scope.
Local Open Scope list_scope.
Local Open Scope nat_scope.
Local Infix "==s" := String.eqb (at level 70).
Local Notation "x <- r ;; k" := (bind r (fun x => k)) (at level 61, r at next level, right associativity).

(** * mapM *)

Lemma mapM_ext {A B} (f g : A -> result B) l :
  (forall x, In x l -> f x = g x) -> mapM f l = mapM g l.
Proof.
  induction l as [|a t IH]; intros Hfg; simpl.
  - reflexivity.
  - rewrite (Hfg a (or_introl eq_refl)).
    rewrite IH.
    + reflexivity.
    + intros x Hx. apply Hfg. right. exact Hx.
Qed.

Lemma mapM_cons_inv {A B} (f : A -> result B) a t r :
  mapM f (a :: t) = Ok r ->
  exists y ys, f a = Ok y /\ mapM f t = Ok ys /\ r = y :: ys.
Proof.
  simpl. intros H.
  destruct (f a) as [y|e] eqn:Efa; simpl in H; [|discriminate H].
  destruct (mapM f t) as [ys|e] eqn:Et; simpl in H; [|discriminate H].
  inversion H as [Hr]. exists y, ys. repeat split.
Qed.

Lemma mapM_Forall2 {A B} (f : A -> result B) l r :
  mapM f l = Ok r -> Forall2 (fun x y => f x = Ok y) l r.
Proof.
  revert r. induction l as [|a t IH]; intros r H.
  - simpl in H. inversion H as [Hr]. constructor.
  - apply mapM_cons_inv in H. destruct H as [y [ys [Hy [Hys Hr]]]]. subst r.
    constructor; [exact Hy | apply IH; exact Hys].
Qed.

Lemma mapM_length {A B} (f : A -> result B) l r :
  mapM f l = Ok r -> length r = length l.
Proof.
  intros H. apply mapM_Forall2 in H.
  induction H as [|x y l' r' Hxy Hrest IH]; simpl; [reflexivity | rewrite IH; reflexivity].
Qed.

Lemma mapM_app {A B} (f : A -> result B) l1 l2 r :
  mapM f (l1 ++ l2) = Ok r ->
  exists r1 r2, mapM f l1 = Ok r1 /\ mapM f l2 = Ok r2 /\ r = r1 ++ r2.
Proof.
  revert r. induction l1 as [|a t IH]; intros r H.
  - exists [], r. simpl in *. repeat split. exact H.
  - rewrite <- app_comm_cons in H.
    apply mapM_cons_inv in H. destruct H as [y [ys [Hy [Hys Hr]]]]. subst r.
    destruct (IH ys Hys) as [r1 [r2 [H1 [H2 Hr]]]]. subst ys.
    exists (y :: r1), r2. simpl. rewrite Hy, H1. simpl. repeat split. exact H2.
Qed.

(** * indices_of *)

Lemma mapM_indices_gen {B} (f : xml -> result B) (p : xml -> bool) (l pre : list xml) :
  mapM (fun i => bind (match nth_error (pre ++ l) i with Some e => Ok e | None => Raise IndexError end) f)
       (indices_of p (length pre) l)
  = mapM f (filter p l).
Proof.
  revert pre. induction l as [|x l IH]; intros pre.
  - reflexivity.
  - assert (Happ : pre ++ x :: l = (pre ++ [x]) ++ l).
    { rewrite <- app_assoc. reflexivity. }
    assert (Hlen : S (length pre) = length (pre ++ [x])).
    { rewrite app_length. simpl. lia. }
    assert (Hnth : nth_error (pre ++ x :: l) (length pre) = Some x).
    { rewrite nth_error_app2 by lia. rewrite Nat.sub_diag. reflexivity. }
    simpl. destruct (p x) eqn:Epx.
    + simpl. rewrite Hnth. simpl.
      rewrite Happ, Hlen, IH. reflexivity.
    + rewrite Happ, Hlen, IH. reflexivity.
Qed.

Lemma mapM_indices {B} (f : xml -> result B) (p : xml -> bool) (g : xml) :
  mapM (fun i => bind (graph_item g i) f) (indices_of p 0 (x_children g))
  = mapM f (filter p (x_children g)).
Proof.
  unfold graph_item.
  exact (mapM_indices_gen f p (x_children g) []).
Qed.

Lemma length_indices_of p k l : length (indices_of p k l) = length (filter p l).
Proof.
  revert k. induction l as [|x l IH]; intros k; simpl.
  - reflexivity.
  - destruct (p x) eqn:Epx; simpl; rewrite IH; reflexivity.
Qed.

(** * A filter with exactly one survivor *)

Lemma filter_nil_all {A} (p : A -> bool) l :
  filter p l = [] -> forall y, In y l -> p y = false.
Proof.
  induction l as [|a t IH]; intros H y Hy.
  - destruct Hy.
  - simpl in H. destruct (p a) eqn:Epa; [discriminate H|].
    destruct Hy as [Hy|Hy]; [subst y; exact Epa | apply IH; assumption].
Qed.

Lemma filter_singleton_split {A} (p : A -> bool) l x :
  filter p l = [x] ->
  exists pre post, l = pre ++ x :: post /\ p x = true /\
                   (forall y, In y pre -> p y = false) /\ (forall y, In y post -> p y = false).
Proof.
  induction l as [|a t IH]; intros H.
  - discriminate H.
  - simpl in H. destruct (p a) eqn:Epa.
    + inversion H as [[Hax Ht]]. subst a.
      exists [], t. simpl. repeat split.
      * exact Epa.
      * intros y Hy. destruct Hy.
      * apply filter_nil_all. exact Ht.
    + destruct (IH H) as [pre [post [Hl [Hpx [Hpre Hpost]]]]].
      exists (a :: pre), post. subst t. simpl. repeat split.
      * exact Hpx.
      * intros y [Hy|Hy]; [subst y; exact Epa | apply Hpre; exact Hy].
      * exact Hpost.
Qed.

(** * The first walk *)

Lemma scan_step_raise e fe : scan_step (Raise e) fe = Raise e.
Proof. reflexivity. Qed.

Lemma fold_scan_step_raise l e : fold_left scan_step l (Raise e) = Raise e.
Proof.
  induction l as [|a t IH]; simpl.
  - reflexivity.
  - exact IH.
Qed.

Lemma fold_scan_step_skip l s :
  (forall y, In y l -> is_tag "graph" y = false) -> fold_left scan_step l (Ok s) = Ok s.
Proof.
  induction l as [|a t IH]; intros H; cbn [fold_left].
  - reflexivity.
  - assert (Hstep : scan_step (Ok s) a = Ok s).
    { unfold scan_step. simpl. rewrite (H a (or_introl eq_refl)). reflexivity. }
    rewrite Hstep.
    apply IH. intros y Hy. apply H. right. exact Hy.
Qed.

Theorem scan_root_single root g s :
  scan_root root = Ok s -> doc_graphs root = [g] ->
  s_graph s = Some g /\ s_sym s = doc_sym g /\ s_naming s = doc_naming g /\
  s_nn s = length (doc_nodes g) /\
  s_ne s = sumn (map (edge_slots (doc_sym g)) (doc_edges g)) /\
  s_nidx s = indices_of el_is_node 0 (x_children g) /\
  s_eidx s = indices_of el_is_edge 0 (x_children g) /\
  attr "edgedefault" g <> None.
Proof.
  unfold scan_root, doc_graphs. intros Hscan Hdoc.
  apply filter_singleton_split in Hdoc.
  destruct Hdoc as [pre [post [Hl [Hg [Hpre Hpost]]]]].
  rewrite Hl in Hscan.
  rewrite fold_left_app in Hscan.
  rewrite (fold_scan_step_skip pre scan_init Hpre) in Hscan.
  cbn [fold_left] in Hscan.
  unfold doc_sym, doc_naming, doc_nodes, doc_edges.
  destruct (attr "edgedefault" g) as [ed|] eqn:Eed.
  - assert (Hstep : scan_step (Ok scan_init) g
                    = Ok {| s_graph := Some g; s_sym := ed ==s "undirected";
                            s_nn := length (indices_of el_is_node 0 (x_children g));
                            s_ne := sumn (map (edge_slots (ed ==s "undirected")) (filter el_is_edge (x_children g)));
                            s_nidx := indices_of el_is_node 0 (x_children g);
                            s_eidx := indices_of el_is_edge 0 (x_children g);
                            s_naming := match attr "parse.nodeids" g with
                                        | Some v => negb (v ==s "canonical")
                                        | None => true
                                        end |}).
    { unfold scan_step, get_attr. simpl. rewrite Hg, Eed. reflexivity. }
    rewrite Hstep in Hscan.
    rewrite (fold_scan_step_skip post _ Hpost) in Hscan.
    inversion Hscan as [Hs]. simpl.
    repeat split.
    + apply length_indices_of.
    + discriminate.
  - assert (Hstep : scan_step (Ok scan_init) g = Raise KeyError).
    { unfold scan_step, get_attr. simpl. rewrite Hg, Eed. reflexivity. }
    rewrite Hstep in Hscan.
    rewrite fold_scan_step_raise in Hscan. discriminate Hscan.
Qed.

Theorem scan_root_no_graph root s :
  scan_root root = Ok s -> doc_graphs root = [] -> s_graph s = None.
Proof.
  unfold scan_root, doc_graphs. intros Hscan Hdoc.
  rewrite (fold_scan_step_skip _ scan_init (filter_nil_all _ _ Hdoc)) in Hscan.
  inversion Hscan as [Hs]. reflexivity.
Qed.

(** * The name table *)

Lemma index_last_None l x k : index_last l x k = None <-> ~ In x l.
Proof.
  revert k. induction l as [|y t IH]; intros k; simpl.
  - split; [intros _ H; exact H | reflexivity].
  - destruct (index_last t x (S k)) as [r|] eqn:Et.
    + split; [discriminate|].
      intros Hn. exfalso.
      assert (Hnone : index_last t x (S k) = None).
      { apply IH. intros Hin. apply Hn. right. exact Hin. }
      rewrite Et in Hnone. discriminate Hnone.
    + apply IH in Et.
      destruct (String.eqb y x) eqn:Eyx.
      * apply String.eqb_eq in Eyx. split; [discriminate|].
        intros Hn. exfalso. apply Hn. left. exact Eyx.
      * apply String.eqb_neq in Eyx. split; [|reflexivity].
        intros _ [Hin|Hin]; [exact (Eyx Hin) | exact (Et Hin)].
Qed.

Lemma index_last_bounds l x k r :
  index_last l x k = Some r -> k <= r < k + length l /\ nth_error l (r - k) = Some x.
Proof.
  revert k. induction l as [|y t IH]; intros k H; simpl in H.
  - discriminate H.
  - destruct (index_last t x (S k)) as [r'|] eqn:Et.
    + inversion H as [Hr]. subst r'.
      destruct (IH (S k) Et) as [Hb Hn]. simpl. split; [lia|].
      replace (r - k) with (S (r - S k)) by lia. simpl. exact Hn.
    + destruct (String.eqb y x) eqn:Eyx; [|discriminate H].
      inversion H as [Hr]. subst r. apply String.eqb_eq in Eyx. subst y.
      simpl. split; [lia|]. rewrite Nat.sub_diag. reflexivity.
Qed.

Lemma index_last_NoDup l x k i :
  NoDup l -> nth_error l i = Some x -> index_last l x k = Some (k + i).
Proof.
  revert k i. induction l as [|y t IH]; intros k i Hnd Hnth.
  - destruct i; discriminate Hnth.
  - inversion Hnd as [|y' t' Hnotin Hnd']. subst y' t'.
    destruct i as [|i]; simpl in Hnth.
    + inversion Hnth as [Hyx]. subst y. simpl.
      assert (Hnone : index_last t x (S k) = None) by (apply index_last_None; exact Hnotin).
      rewrite Hnone, String.eqb_refl, Nat.add_0_r. reflexivity.
    + simpl. rewrite (IH (S k) i Hnd' Hnth).
      f_equal. lia.
Qed.

(** Proofs about the path-confinement model (Model/PathSafe.v). *)
From Coq Require Import String Ascii List Bool Arith Lia.
From SKN Require Import Model.PathSafe.
Import ListNotations.
Local Open Scope string_scope.

(** * split / join *)

Lemma split_not_nil c s : split c s <> [].
Proof.
  destruct s as [|a t]; simpl; [discriminate|].
  destruct (Ascii.eqb a c); [discriminate|]. destruct (split c t); discriminate.
Qed.

Lemma split_no_sep c s : Forall (fun x => contains c x = false) (split c s).
Proof.
  induction s as [|a t IH]; simpl.
  - constructor; [reflexivity|constructor].
  - destruct (Ascii.eqb a c) eqn:E.
    + constructor; [reflexivity|exact IH].
    + destruct (split c t) as [|h r] eqn:S.
      * constructor; [simpl; rewrite E; reflexivity | constructor].
      * inversion IH as [|? ? Hh Hr]; subst.
        constructor; [simpl; rewrite E; exact Hh | exact Hr].
Qed.

Lemma split_free c x : contains c x = false -> split c x = [x].
Proof.
  induction x as [|a t IH]; simpl; intros H; [reflexivity|].
  apply orb_false_iff in H as [E H]. rewrite E. rewrite (IH H). reflexivity.
Qed.

Lemma split_app c x rest :
  contains c x = false -> split c (x ++ String c rest) = x :: split c rest.
Proof.
  induction x as [|a t IH]; simpl; intros H.
  - rewrite Ascii.eqb_refl. reflexivity.
  - apply orb_false_iff in H as [E H]. rewrite E. rewrite (IH H). reflexivity.
Qed.

(** Splitting a joined row on the separator gives back the fields when no field contains it. *)
Lemma split_join c l :
  l <> [] -> Forall (fun x => contains c x = false) l ->
  split c (join (String c "") l) = l.
Proof.
  induction l as [|x t IH]; intros Hne HF; [congruence|].
  inversion HF as [|? ? Hx Ht]; subst.
  destruct t as [|y t'].
  - simpl. apply split_free; exact Hx.
  - change (join (String c "") (x :: y :: t'))
      with (x ++ String c (join (String c "") (y :: t'))).
    rewrite (split_app c x _ Hx). rewrite IH; [reflexivity|discriminate|exact Ht].
Qed.

(** * normpath produces clean components *)

Definition clean (x : string) : Prop := contains slash x = false /\ x <> "" /\ x <> ".".

Lemma norm_loop_Forall (P : string -> Prop) absolute comps : forall acc,
  (forall x, In x comps -> x <> "" -> x <> "." -> P x) ->
  Forall P acc -> Forall P (norm_loop absolute acc comps).
Proof.
  induction comps as [|c t IH]; intros acc Hc Ha; simpl.
  - apply Forall_rev. exact Ha.
  - assert (Ht : forall x, In x t -> x <> "" -> x <> "." -> P x).
    { intros x Hx. apply Hc. right. exact Hx. }
    destruct (String.eqb c "") eqn:E1; simpl; [apply IH; assumption|].
    destruct (String.eqb c ".") eqn:E2; simpl; [apply IH; assumption|].
    assert (Pc : P c).
    { apply Hc; [left; reflexivity | apply String.eqb_neq; exact E1 | apply String.eqb_neq; exact E2]. }
    destruct (String.eqb c "..") eqn:E3; simpl.
    + destruct acc as [|l acc'].
      * destruct absolute; apply IH; try assumption. constructor; [exact Pc|constructor].
      * inversion Ha as [|? ? Hl Hacc']; subst.
        destruct (String.eqb l ".."); apply IH; try assumption.
        constructor; [exact Pc|exact Ha].
    + apply IH; [assumption|]. constructor; [exact Pc|exact Ha].
Qed.

Lemma norm_comps_clean s : Forall clean (norm_comps s).
Proof.
  unfold norm_comps. apply norm_loop_Forall; [|constructor].
  intros x Hx H1 H2. split; [|split; assumption].
  pose proof (split_no_sep slash s) as F. rewrite Forall_forall in F. apply F; exact Hx.
Qed.

Lemma comps_clean cwd s : Forall clean (comps cwd s).
Proof. apply norm_comps_clean. Qed.

(** * Reading the components back from the normalised string *)

Lemma filter_clean l :
  Forall clean l -> filter (fun c => negb (String.eqb c "" || String.eqb c ".")) l = l.
Proof.
  induction l as [|x t IH]; intros H; [reflexivity|].
  inversion H as [|? ? [_ [H1 H2]] Ht]; subst. simpl.
  apply String.eqb_neq in H1. apply String.eqb_neq in H2. rewrite H1, H2. simpl.
  rewrite (IH Ht). reflexivity.
Qed.

Lemma clean_no_slash l : Forall clean l -> Forall (fun x => contains slash x = false) l.
Proof. intros H. eapply Forall_impl; [|exact H]. intros x [Hx _]. exact Hx. Qed.

Lemma path_fields_join l : Forall clean l -> path_fields (join sl l) = l.
Proof.
  intros H. destruct l as [|x t]; [reflexivity|].
  unfold path_fields, sl. rewrite split_join; [|discriminate|apply clean_no_slash; exact H].
  apply filter_clean; exact H.
Qed.

Lemma path_fields_slash r : path_fields (String slash r) = path_fields r.
Proof. reflexivity. Qed.

Lemma path_fields_abs k l :
  1 <= k -> Forall clean l -> path_fields (slashes k ++ join sl l) = l.
Proof.
  intros Hk H. destruct k as [|[|k]]; [lia| |]; simpl slashes.
  - change ("/" ++ join sl l) with (String slash (join sl l)).
    rewrite path_fields_slash. apply path_fields_join; exact H.
  - change ("//" ++ join sl l) with (String slash (String slash (join sl l))).
    rewrite !path_fields_slash. apply path_fields_join; exact H.
Qed.

(** [join] is injective on clean component lists. *)
Lemma join_clean_inj a b : Forall clean a -> Forall clean b -> join sl a = join sl b -> a = b.
Proof.
  intros Ha Hb E.
  assert (Hnil : forall l, Forall clean l -> join sl l = "" -> l = []).
  { intros l Hl El. destruct l as [|x t]; [reflexivity|].
    inversion Hl as [|? ? [_ [Hx _]] _]; subst.
    destruct t as [|y t']; simpl in El; [congruence|].
    destruct x; [congruence|discriminate]. }
  destruct a as [|x a'].
  - symmetry. apply Hnil; [exact Hb|]. rewrite <- E. reflexivity.
  - destruct b as [|y b'].
    + apply Hnil; [exact Ha|exact E].
    + rewrite <- (split_join slash (x :: a')); [|discriminate|apply clean_no_slash; exact Ha].
      rewrite <- (split_join slash (y :: b')); [|discriminate|apply clean_no_slash; exact Hb].
      change (String slash "") with sl. rewrite E. reflexivity.
Qed.

(** * Absolute paths *)

Lemma starts_with_slash_inv s : starts_with_slash s = true -> exists t, s = String slash t.
Proof.
  destruct s as [|a t]; simpl; [discriminate|]. intros H. apply Ascii.eqb_eq in H. subst. exists t. reflexivity.
Qed.

Lemma abs_arg_abs cwd s : starts_with_slash cwd = true -> starts_with_slash (abs_arg cwd s) = true.
Proof.
  intros Hc. unfold abs_arg. destruct (starts_with_slash s) eqn:Es; [exact Es|].
  unfold path_join. rewrite Es.
  destruct (starts_with_slash_inv _ Hc) as [t ->].
  destruct (String.eqb (String slash t) "" || ends_with_slash (String slash t))%bool; reflexivity.
Qed.

Lemma initial_slashes_abs t : 1 <= initial_slashes (String slash t) <= 2.
Proof.
  destruct t as [|b [|c t']]; simpl.
  - lia.
  - destruct (Ascii.eqb b slash); lia.
  - destruct (Ascii.eqb b slash); [destruct (Ascii.eqb c slash)|]; lia.
Qed.

Lemma abspath_form cwd s :
  starts_with_slash cwd = true ->
  abspath cwd s = slashes (initial_slashes (abs_arg cwd s)) ++ join sl (comps cwd s) /\
  1 <= initial_slashes (abs_arg cwd s) <= 2.
Proof.
  intros Hc. unfold abspath, comps, normpath.
  destruct (starts_with_slash_inv _ (abs_arg_abs cwd s Hc)) as [t Et]. rewrite Et.
  pose proof (initial_slashes_abs t) as Hk.
  split; [|exact Hk].
  change (String.eqb (String slash t) "") with false. cbv iota.
  destruct (initial_slashes (String slash t)) as [|[|k]]; [lia| |]; reflexivity.
Qed.

Lemma slashes_abs k r : 1 <= k -> starts_with_slash (slashes k ++ r) = true.
Proof. intros Hk. destruct k as [|[|k]]; [lia| |]; reflexivity. Qed.

(** * common_list and prefix *)

Lemma common_list_prefix a : forall b, common_list a b = a <-> prefix a b.
Proof.
  induction a as [|x a' IH]; intros b; simpl.
  - destruct b; tauto.
  - destruct b as [|y b']; [split; [discriminate|tauto]|].
    destruct (String.eqb x y) eqn:E.
    + apply String.eqb_eq in E. subst y. rewrite <- IH. split.
      * intros H. injection H as H. split; [reflexivity|exact H].
      * intros [_ H]. rewrite H. reflexivity.
    + apply String.eqb_neq in E. split; [discriminate|]. intros [H _]. contradiction.
Qed.

Lemma common_list_Forall (P : string -> Prop) a : forall b, Forall P a -> Forall P (common_list a b).
Proof.
  induction a as [|x a' IH]; intros b H; simpl; [destruct b; constructor|].
  destruct b as [|y b']; [constructor|]. inversion H as [|? ? Hx Ha]; subst.
  destruct (String.eqb x y); constructor; [exact Hx|apply IH; exact Ha].
Qed.

Lemma prefixb_prefix a : forall b, prefixb a b = true <-> prefix a b.
Proof.
  induction a as [|x a' IH]; intros b; simpl; [tauto|].
  destruct b as [|y b']; [split; [discriminate|tauto]|].
  rewrite andb_true_iff, String.eqb_eq, IH. tauto.
Qed.

(** * The check with commonpath is exactly the component-wise prefix relation *)

Theorem within_iff_commonpath (nd nt : path_norm) (cwd d t : string) :
  nd <> NoNorm -> nt <> NoNorm ->
  starts_with_slash cwd = true -> single_root cwd d ->
  (is_within_with CommonPath nd nt cwd d t = true <-> prefix (comps cwd d) (comps cwd t)).
Proof.
  intros Hnd Hnt Hc Hroot.
  assert (E : is_within_with CommonPath nd nt cwd d t = is_within_with CommonPath Abspath Abspath cwd d t).
  { destruct nd, nt; try congruence; reflexivity. }
  rewrite E. clear E Hnd Hnt. unfold is_within_with, apply_norm.
  destruct (abspath_form cwd d Hc) as [Ed Hkd]. destruct (abspath_form cwd t Hc) as [Et Hkt].
  unfold single_root in Hroot. rewrite Hroot in Ed. clear Hkd.
  rewrite Ed, Et. unfold commonpath.
  rewrite (slashes_abs 1 _ (le_n 1)), (slashes_abs _ _ (proj1 Hkt)). simpl Bool.eqb. cbv iota.
  rewrite (path_fields_abs 1 _ (le_n 1) (comps_clean cwd d)).
  rewrite (path_fields_abs _ _ (proj1 Hkt) (comps_clean cwd t)).
  rewrite String.eqb_eq. rewrite <- common_list_prefix.
  simpl slashes. split.
  - intros H. injection H as H. apply join_clean_inj in H; [exact H| |apply comps_clean].
    apply common_list_Forall. apply comps_clean.
  - intros H. rewrite H. reflexivity.
Qed.

(** Every member accepted by [safe_extract] is extracted at or below the directory. *)
Theorem safe_extract_confined_commonpath (nd nt : path_norm) (cwd path : string) (members : list string) :
  nd <> NoNorm -> nt <> NoNorm ->
  starts_with_slash cwd = true -> single_root cwd path ->
  safe_extract_with CommonPath nd nt cwd path members = true ->
  forall name, In name members -> prefix (comps cwd path) (extracted_to cwd path name).
Proof.
  intros Hnd Hnt Hc Hroot H name Hin. unfold safe_extract_with in H.
  rewrite forallb_forall in H. specialize (H name Hin).
  apply (within_iff_commonpath nd nt cwd path _ Hnd Hnt Hc Hroot) in H. exact H.
Qed.

(** Conversely nothing that stays inside is refused. *)
Theorem safe_extract_complete_commonpath (nd nt : path_norm) (cwd path : string) (members : list string) :
  nd <> NoNorm -> nt <> NoNorm ->
  starts_with_slash cwd = true -> single_root cwd path ->
  (forall name, In name members -> prefix (comps cwd path) (extracted_to cwd path name)) ->
  safe_extract_with CommonPath nd nt cwd path members = true.
Proof.
  intros Hnd Hnt Hc Hroot H. unfold safe_extract_with. rewrite forallb_forall. intros name Hin.
  apply (within_iff_commonpath nd nt cwd path _ Hnd Hnt Hc Hroot). apply H. exact Hin.
Qed.

(** * The character-wise variant (code before the repair) is refuted *)

Theorem within_directory_refuted :
  exists cwd d t,
    starts_with_slash cwd = true /\ single_root cwd d /\
    is_within_with CommonPrefix Abspath Abspath cwd d t = true /\
    ~ prefix (comps cwd d) (comps cwd t).
Proof.
  exists "/", "/data/foo", "/data/foobar/x".
  split; [reflexivity|]. split; [reflexivity|]. split; [vm_compute; reflexivity|].
  vm_compute. intros [_ [H _]]. discriminate H.
Qed.

Theorem safe_extract_refuted :
  exists cwd path name,
    starts_with_slash cwd = true /\ single_root cwd path /\
    safe_extract_with CommonPrefix Abspath Abspath cwd path [name] = true /\
    ~ prefix (comps cwd path) (extracted_to cwd path name).
Proof.
  exists "/", "/data/foo", "../foobar/x".
  split; [reflexivity|]. split; [reflexivity|]. split; [vm_compute; reflexivity|].
  vm_compute. intros [_ [H _]]. discriminate H.
Qed.

(** Proofs about Model/Diffusion.v: maximum principle for Diffusion and Dirichlet, clamping,
    seed forms, uniqueness of the harmonic extension, non-expansiveness of the Dirichlet step. *)
From SKN Require Import Base.Util Model.Diffusion.
From Coq Require Import Qabs Qreduction Qround Lqa Psatz.
Close Scope Q_scope.
Open Scope nat_scope.

(** * Lists and indices *)

Lemma nth_map_lt {A B} (f : A -> B) (l : list A) i d1 d2 :
  i < length l -> nth i (map f l) d1 = f (nth i l d2).
Proof.
  revert i; induction l as [|a t IH]; intros [|i] H; simpl in *; try lia; auto.
  apply IH; lia.
Qed.

Lemma nth_map_seq {B} (f : nat -> B) n i d : i < n -> nth i (map f (seq 0 n)) d = f i.
Proof.
  intros H. rewrite (nth_map_lt f (seq 0 n) i d 0) by (rewrite seq_length; exact H).
  rewrite seq_nth by exact H. reflexivity.
Qed.

Lemma iterate_inv {A} (P : A -> Prop) (f : A -> A) :
  (forall x, P x -> P (f x)) -> forall k x, P x -> P (iterate k f x).
Proof.
  intros Hf k; induction k as [|k IH]; intros x Hx; simpl; auto.
Qed.

Lemma iterate_S {A} (f : A -> A) k x : iterate (S k) f x = f (iterate k f x).
Proof.
  revert x; induction k as [|k IH]; intros x; [reflexivity|].
  change (iterate (S (S k)) f x) with (iterate (S k) f (f x)). rewrite IH. reflexivity.
Qed.

Lemma Forall_firstn {A} (P : A -> Prop) n l : Forall P l -> Forall P (firstn n l).
Proof.
  intros H. rewrite <- (firstn_skipn n l) in H. apply Forall_app in H. tauto.
Qed.

Lemma Forall_skipn {A} (P : A -> Prop) n l : Forall P l -> Forall P (skipn n l).
Proof.
  intros H. rewrite <- (firstn_skipn n l) in H. apply Forall_app in H. tauto.
Qed.

(** * Sums over Q *)

Lemma sumq_nonneg l : (forall x, In x l -> (0 <= x)%Q) -> (0 <= sumq l)%Q.
Proof.
  induction l as [|a t IH]; intros H; simpl; [lra|].
  assert (Ha : (0 <= a)%Q) by (apply H; left; reflexivity).
  assert (Ht : (0 <= sumq t)%Q) by (apply IH; intros x Hx; apply H; right; exact Hx).
  lra.
Qed.

Lemma sumq_scale {A} (f : A -> Q) (c : Q) (l : list A) :
  (sumq (map (fun e => c * f e) l) == c * sumq (map f l))%Q.
Proof.
  induction l as [|a t IH]; simpl; [lra|]. rewrite IH. lra.
Qed.

Lemma sumq_div {A} (f : A -> Q) (s : Q) (l : list A) :
  (sumq (map (fun e => f e / s) l) == sumq (map f l) / s)%Q.
Proof.
  induction l as [|a t IH]; simpl.
  - unfold Qdiv. lra.
  - rewrite IH. unfold Qdiv. lra.
Qed.

Lemma sumq_ext {A} (f g : A -> Q) (l : list A) :
  (forall e, In e l -> (f e == g e)%Q) -> (sumq (map f l) == sumq (map g l))%Q.
Proof.
  induction l as [|a t IH]; intros H; simpl; [lra|].
  rewrite (H a) by (left; reflexivity). rewrite IH by (intros e He; apply H; right; exact He). lra.
Qed.

Lemma sumq_sub {A} (f g : A -> Q) (l : list A) :
  (sumq (map (fun e => f e - g e) l) == sumq (map f l) - sumq (map g l))%Q.
Proof.
  induction l as [|a t IH]; simpl; [lra|]. rewrite IH. lra.
Qed.

(** A sum of non-negative terms that vanishes has only vanishing terms. *)
Lemma sumq_zero_terms {A} (f : A -> Q) (l : list A) :
  (forall e, In e l -> (0 <= f e)%Q) -> (sumq (map f l) == 0)%Q ->
  forall e, In e l -> (f e == 0)%Q.
Proof.
  induction l as [|a t IH]; intros Hn Hs e He; [contradiction|].
  simpl in Hs.
  assert (Ha : (0 <= f a)%Q) by (apply Hn; left; reflexivity).
  assert (Ht : (0 <= sumq (map f t))%Q).
  { apply sumq_nonneg. intros x Hx. apply in_map_iff in Hx. destruct Hx as [y [Hy Hin]]. subst x.
    apply Hn. right. exact Hin. }
  destruct He as [He|He].
  - subst e. lra.
  - apply IH; auto. + intros x Hx. apply Hn. right. exact Hx. + lra.
Qed.

(** * Convex combinations *)

Lemma convex_bounds_scaled (pv : list (Q * Q)) (lo hi : Q) :
  (forall e, In e pv -> (0 <= fst e)%Q /\ (lo <= snd e <= hi)%Q) ->
  (lo * sumq (map fst pv) <= sumq (map (fun e => fst e * snd e) pv) <= hi * sumq (map fst pv))%Q.
Proof.
  induction pv as [|[p v] t IH]; intros H; simpl; [lra|].
  assert (Hpv : (0 <= p)%Q /\ (lo <= v <= hi)%Q) by (apply (H (p, v)); left; reflexivity).
  assert (Ht := IH (fun e He => H e (or_intror He))).
  destruct Hpv as [Hp [Hl Hh]].
  assert (H1 : (lo * p <= p * v)%Q) by nra.
  assert (H2 : (p * v <= hi * p)%Q) by nra.
  lra.
Qed.

Lemma convex_bounds_pairs (pv : list (Q * Q)) (lo hi : Q) :
  (forall e, In e pv -> (0 <= fst e)%Q /\ (lo <= snd e <= hi)%Q) ->
  (sumq (map fst pv) == 1)%Q ->
  (lo <= sumq (map (fun e => fst e * snd e) pv) <= hi)%Q.
Proof.
  intros H S. pose proof (convex_bounds_scaled pv lo hi H) as B. rewrite S in B. lra.
Qed.

(** The form stated in the property: two vectors of the same length. *)
Lemma convex_bounds (p v : list Q) (lo hi : Q) :
  length p = length v ->
  (forall x, In x p -> (0 <= x)%Q) ->
  (sumq p == 1)%Q ->
  (forall x, In x v -> (lo <= x <= hi)%Q) ->
  (lo <= sumq (map2 Qmult p v) <= hi)%Q.
Proof.
  intros L Hp S Hv.
  assert (E : forall (p v : list Q), length p = length v ->
              map2 Qmult p v = map (fun e => (fst e * snd e)%Q) (combine p v) /\ map fst (combine p v) = p).
  { clear. induction p as [|a t IH]; intros [|b t2] L; simpl in *; try lia; auto.
    destruct (IH t2) as [E1 E2]; [lia|]. rewrite E1, E2. auto. }
  destruct (E p v L) as [E1 E2]. rewrite E1.
  apply convex_bounds_pairs.
  - intros [a b] Hin. simpl. split.
    + apply Hp. apply in_combine_l in Hin. exact Hin.
    + apply Hv. apply in_combine_r in Hin. exact Hin.
  - rewrite E2. exact S.
Qed.

(** * Stochastic rows *)

Lemma dot_row_bounds n r v lo hi :
  stochastic_row n r -> vrange n lo hi v -> (lo <= dot_row r v <= hi)%Q.
Proof.
  intros [Hr Hs] [Hl Hv]. unfold dot_row.
  pose proof (convex_bounds_pairs (map (fun e => (snd e, nthq v (fst e))) r) lo hi) as B.
  rewrite !map_map in B. simpl in B. apply B.
  - intros e He. apply in_map_iff in He. destruct He as [x [Hx Hin]]. subst e. simpl.
    destruct (Hr x Hin) as [Hi Hw]. split; [exact Hw|]. apply Hv. exact Hi.
  - exact Hs.
Qed.

Lemma row_norm_nonneg r :
  (forall e, In e r -> (0 <= snd e)%Q) -> (row_norm r == sumq (map snd r))%Q.
Proof.
  intros H. unfold row_norm. apply sumq_ext. intros e He. apply Qabs_pos. apply H. exact He.
Qed.

Lemma row_norm_ge0 r : (0 <= row_norm r)%Q.
Proof.
  unfold row_norm. apply sumq_nonneg. intros x Hx. apply in_map_iff in Hx.
  destruct Hx as [e [He _]]. subst x. apply Qabs_nonneg.
Qed.

Lemma normalize_row_stochastic n r :
  (forall e, In e r -> fst e < n /\ (0 <= snd e)%Q) ->
  ~ (row_norm r == 0)%Q ->
  stochastic_row n (normalize_row r).
Proof.
  intros H Hn. unfold normalize_row.
  destruct (Qeq_bool (row_norm r) 0) eqn:E.
  - apply Qeq_bool_eq in E. contradiction.
  - pose proof (row_norm_ge0 r) as Hge.
    assert (Hpos : (0 < row_norm r)%Q) by lra.
    split.
    + intros e He. apply in_map_iff in He. destruct He as [x [Hx Hin]]. subst e. simpl.
      destruct (H x Hin) as [Hi Hw]. split; [exact Hi|].
      apply Qle_shift_div_l; [exact Hpos| lra].
    + rewrite map_map. simpl. rewrite (sumq_div snd (row_norm r) r).
      rewrite <- (row_norm_nonneg r) by (intros e He; apply H; exact He).
      field. exact Hn.
Qed.

Lemma normalize_row_nil_or r :
  normalize_row r = [] \/ ~ (row_norm r == 0)%Q.
Proof.
  unfold normalize_row. destruct (Qeq_bool (row_norm r) 0) eqn:E; [left; reflexivity|].
  right. apply Qeq_bool_neq. exact E.
Qed.

(** * The Diffusion operator is row-stochastic, unconditionally *)

Definition nonneg_rows (rows : list wrow) : Prop :=
  forall r e, In r rows -> In e r -> (0 <= snd e)%Q.

Lemma wrow_of_In rows i e : In e (wrow_of rows i) -> In (wrow_of rows i) rows.
Proof.
  unfold wrow_of. intros He. destruct (Nat.lt_ge_cases i (length rows)) as [H|H].
  - apply nth_In. exact H.
  - rewrite nth_overflow in He by exact H. contradiction.
Qed.

Lemma transpose_row_entries m j e :
  In e (wrow_of (w_rows (transpose m)) j) ->
  fst e < w_nrow m /\ exists r e0, In r (w_rows m) /\ In e0 r /\ snd e = snd e0.
Proof.
  unfold transpose, wrow_of at 1. cbn [w_rows].
  destruct (Nat.lt_ge_cases j (w_ncol m)) as [Hj|Hj].
  - rewrite nth_map_seq by exact Hj. intros He.
    apply in_flat_map in He. destruct He as [i [Hi He]].
    apply in_seq in Hi. apply in_map_iff in He. destruct He as [e0 [E He0]].
    apply filter_In in He0. destruct He0 as [He0 _]. subst e. simpl. split; [lia|].
    exists (wrow_of (w_rows m) i), e0. split; [|split; [exact He0|reflexivity]].
    eapply wrow_of_In. exact He0.
  - rewrite nth_overflow by (rewrite map_length, seq_length; exact Hj). intros [].
Qed.

Lemma transpose_length m : length (w_rows (transpose m)) = w_ncol m.
Proof. unfold transpose. cbn [w_rows]. rewrite map_length, seq_length. reflexivity. Qed.

Lemma single_stochastic n i : i < n -> stochastic_row n [(i, 1%Q)].
Proof.
  intros H. split.
  - intros e [He|[]]. subst e. simpl. split; [exact H|lra].
  - simpl. lra.
Qed.

Lemma damped_row_stochastic n i alpha r :
  i < n -> (0 <= alpha <= 1)%Q -> stochastic_row n r ->
  stochastic_row n ((i, (1 - alpha)%Q) :: map (fun e => (fst e, (alpha * snd e)%Q)) r).
Proof.
  intros Hi Ha [Hr Hs]. split.
  - intros e [He|He].
    + subst e. simpl. split; [exact Hi|lra].
    + apply in_map_iff in He. destruct He as [x [Hx Hin]]. subst e. simpl.
      destruct (Hr x Hin) as [Hx Hw]. split; [exact Hx|]. nra.
  - cbn [map snd sumq fold_right]. rewrite map_map. cbn [snd].
    change (fold_right Qplus 0%Q (map (fun x : nat * Q => (alpha * snd x)%Q) r))
      with (sumq (map (fun x : nat * Q => (alpha * snd x)%Q) r)).
    rewrite (sumq_scale snd alpha r). rewrite Hs. lra.
Qed.

Lemma diffusion_operator_length alpha adj : length (diffusion_operator alpha adj) = length adj.
Proof. unfold diffusion_operator. rewrite map_length, seq_length. reflexivity. Qed.

Lemma diffusion_operator_stochastic alpha adj :
  nonneg_rows adj -> (0 <= alpha <= 1)%Q ->
  forall r, In r (diffusion_operator alpha adj) -> stochastic_row (length adj) r.
Proof.
  intros Hnn Ha r Hr. unfold diffusion_operator in Hr.
  apply in_map_iff in Hr. destruct Hr as [i [E Hi]]. apply in_seq in Hi.
  set (M := {| w_ncol := length adj; w_rows := adj |}) in *.
  assert (Hi' : i < length adj) by lia.
  assert (Erow : wrow_of (normalize (w_rows (transpose M))) i
                 = normalize_row (wrow_of (w_rows (transpose M)) i)).
  { unfold normalize, wrow_of. apply nth_map_lt. rewrite transpose_length. exact Hi'. }
  rewrite Erow in E. subst r.
  apply damped_row_stochastic; [exact Hi'|exact Ha|].
  destruct (normalize_row_nil_or (wrow_of (w_rows (transpose M)) i)) as [En|Hn].
  - rewrite En. apply single_stochastic. exact Hi'.
  - assert (S : stochastic_row (length adj) (normalize_row (wrow_of (w_rows (transpose M)) i))).
    { apply normalize_row_stochastic; [|exact Hn].
      intros e He. apply transpose_row_entries in He. destruct He as [Hlt [r [e0 [Hr [He0 Es]]]]].
      split; [exact Hlt|]. rewrite Es. apply (Hnn r e0 Hr He0). }
    destruct (normalize_row (wrow_of (w_rows (transpose M)) i)) as [|x t]; [apply single_stochastic; exact Hi'|exact S].
Qed.

Lemma matvec_length M v : length (matvec M v) = length M.
Proof. unfold matvec. apply map_length. Qed.

Lemma nth_matvec M v i : i < length M -> nthq (matvec M v) i = Qred (dot_row (wrow_of M i) v).
Proof.
  intros H. unfold nthq, matvec, wrow_of.
  exact (nth_map_lt (fun r => Qred (dot_row r v)) M i 0%Q [] H).
Qed.

Lemma matvec_vrange n M v lo hi :
  (forall r, In r M -> stochastic_row n r) -> vrange n lo hi v ->
  vrange (length M) lo hi (matvec M v).
Proof.
  intros HM Hv. split; [apply matvec_length|].
  intros i Hi. rewrite nth_matvec by exact Hi. rewrite Qred_correct.
  apply (dot_row_bounds n); [|exact Hv]. apply HM. unfold wrow_of. apply nth_In. exact Hi.
Qed.

Lemma diffusion_core_bounds k alpha adj temps lo hi :
  nonneg_rows adj -> (0 <= alpha <= 1)%Q ->
  vrange (length adj) lo hi temps ->
  vrange (length adj) lo hi (diffusion_core k alpha adj temps).
Proof.
  intros Hnn Ha Hv. unfold diffusion_core.
  apply (iterate_inv (vrange (length adj) lo hi)); [|exact Hv].
  intros x Hx. rewrite <- (diffusion_operator_length alpha adj) at 1.
  apply (matvec_vrange (length adj)); [|exact Hx].
  apply diffusion_operator_stochastic; assumption.
Qed.

(** * Initial temperatures *)

Lemma is_seed_iff x : is_seed x = true <-> (0 <= x)%Q.
Proof. unfold is_seed. apply Qle_bool_iff. Qed.

Lemma is_seed_false x : is_seed x = false <-> (x < 0)%Q.
Proof.
  split; intros H.
  - destruct (Qlt_le_dec x 0) as [L|L]; [exact L|]. apply is_seed_iff in L. congruence.
  - destruct (is_seed x) eqn:E; [|reflexivity]. apply is_seed_iff in E. lra.
Qed.

Lemma inject_nat_S n : (inject_Z (Z.of_nat (S n)) == inject_Z (Z.of_nat n) + 1)%Q.
Proof. rewrite Nat2Z.inj_succ. unfold Z.succ. rewrite inject_Z_plus. reflexivity. Qed.

Lemma sumq_bounds l lo hi :
  (forall x, In x l -> (lo <= x <= hi)%Q) ->
  (lo * inject_Z (Z.of_nat (length l)) <= sumq l <= hi * inject_Z (Z.of_nat (length l)))%Q.
Proof.
  induction l as [|a t IH]; intros H.
  - simpl. unfold inject_Z. lra.
  - assert (Ha : (lo <= a <= hi)%Q) by (apply H; left; reflexivity).
    assert (Ht := IH (fun x Hx => H x (or_intror Hx))).
    cbn [length sumq fold_right]. change (fold_right Qplus 0%Q t) with (sumq t).
    rewrite inject_nat_S. lra.
Qed.

Lemma qmean_bounds l lo hi :
  l <> [] -> (forall x, In x l -> (lo <= x <= hi)%Q) -> (lo <= qmean l <= hi)%Q.
Proof.
  intros Hne H. unfold qmean. rewrite Qred_correct.
  pose proof (sumq_bounds l lo hi H) as B.
  assert (Hk : (0 < inject_Z (Z.of_nat (length l)))%Q).
  { destruct l as [|a t]; [congruence|]. cbn [length]. rewrite inject_nat_S.
    assert ((0 <= inject_Z (Z.of_nat (length t)))%Q).
    { change 0%Q with (inject_Z 0). rewrite <- Zle_Qle. lia. }
    lra. }
  split.
  - apply Qle_shift_div_l; [exact Hk|lra].
  - apply Qle_shift_div_r; [exact Hk|lra].
Qed.

Lemma init_temperatures_spec seeds init temps border :
  init_temperatures seeds init = Ok (temps, border) ->
  exists t0,
    border = map is_seed seeds /\
    temps = map (fun x => if is_seed x then x else t0) seeds /\
    match init with
    | Some t => t0 = t
    | None => filter is_seed seeds <> [] /\ t0 = qmean (filter is_seed seeds)
    end.
Proof.
  unfold init_temperatures. destruct init as [t|].
  - intros E. inversion E. exists t. auto.
  - destruct (filter is_seed seeds) as [|x sv] eqn:F; [discriminate|].
    intros E. inversion E. exists (qmean (x :: sv)). repeat split; auto. discriminate.
Qed.

Lemma init_temperatures_nth seeds init temps border i :
  init_temperatures seeds init = Ok (temps, border) -> i < length seeds ->
  length temps = length seeds /\ length border = length seeds /\
  nthb border i = is_seed (nthq seeds i) /\
  (is_seed (nthq seeds i) = true -> nthq temps i = nthq seeds i).
Proof.
  intros E Hi. apply init_temperatures_spec in E. destruct E as [t0 [Eb [Et _]]]. subst.
  rewrite !map_length. repeat split; auto.
  - unfold nthb, nthq. apply (nth_map_lt is_seed seeds i false 0%Q Hi).
  - intros Hs. unfold nthq.
    rewrite (nth_map_lt (fun x => if is_seed x then x else t0) seeds i 0%Q 0%Q Hi).
    unfold nthq in Hs. rewrite Hs. reflexivity.
Qed.

Lemma init_temperatures_range seeds init temps border lo hi :
  init_temperatures seeds init = Ok (temps, border) ->
  (forall x, In x seeds -> (0 <= x)%Q -> (lo <= x <= hi)%Q) ->
  (forall t, init = Some t -> (lo <= t <= hi)%Q) ->
  vrange (length seeds) lo hi temps.
Proof.
  intros E Hs Hi. apply init_temperatures_spec in E. destruct E as [t0 [Eb [Et Ht0]]].
  assert (Ht : (lo <= t0 <= hi)%Q).
  { destruct init as [t|].
    - subst t0. apply Hi. reflexivity.
    - destruct Ht0 as [Hne Et0]. subst t0. apply qmean_bounds; [exact Hne|].
      intros x Hx. apply filter_In in Hx. destruct Hx as [Hin Hx]. apply Hs; [exact Hin|].
      apply is_seed_iff. exact Hx. }
  subst temps. split; [apply map_length|].
  intros i Hlt. unfold nthq.
  rewrite (nth_map_lt (fun x => if is_seed x then x else t0) seeds i 0%Q 0%Q Hlt).
  destruct (is_seed (nth i seeds 0%Q)) eqn:S; [|exact Ht].
  apply Hs; [apply nth_In; exact Hlt|]. apply is_seed_iff. exact S.
Qed.

(** * Dirichlet: clamped iteration *)

Lemma clamp_length border temps v : length (clamp border temps v) = length v.
Proof. unfold clamp. rewrite map_length, seq_length. reflexivity. Qed.

Lemma nth_clamp border temps v i :
  i < length v -> nthq (clamp border temps v) i = if nthb border i then nthq temps i else nthq v i.
Proof.
  intros H. unfold clamp, nthq at 1.
  exact (nth_map_seq (fun i => if nthb border i then nthq temps i else nthq v i) (length v) i 0%Q H).
Qed.

Lemma dirichlet_step_length p border temps v : length (dirichlet_step p border temps v) = length p.
Proof. unfold dirichlet_step. rewrite clamp_length. apply matvec_length. Qed.

Lemma nth_dirichlet_step p border temps v i :
  i < length p ->
  nthq (dirichlet_step p border temps v) i =
  if nthb border i then nthq temps i else Qred (dot_row (wrow_of p i) v).
Proof.
  intros H. unfold dirichlet_step. rewrite nth_clamp by (rewrite matvec_length; exact H).
  rewrite nth_matvec by exact H. reflexivity.
Qed.

Lemma normalize_length adj : length (normalize adj) = length adj.
Proof. apply map_length. Qed.

Lemma wrow_of_normalize adj i : wrow_of (normalize adj) i = normalize_row (wrow_of adj i).
Proof.
  unfold wrow_of, normalize. destruct (Nat.lt_ge_cases i (length adj)) as [H|H].
  - apply nth_map_lt. exact H.
  - rewrite !nth_overflow by (try rewrite map_length; exact H). reflexivity.
Qed.

Lemma wf_rows_wrow_of n adj i e : wf_rows n adj -> In e (wrow_of adj i) -> fst e < n /\ (0 <= snd e)%Q.
Proof. intros W He. apply (W (wrow_of adj i) e); [eapply wrow_of_In; exact He|exact He]. Qed.

(** The hypothesis on sinks that is actually needed: every node that is not a seed has positive
    out-weight (seed nodes are re-imposed after each step, so their rows do not matter). *)
Definition no_free_sink (adj : list wrow) (border : list bool) : Prop :=
  forall i, i < length adj -> nthb border i = false -> (0 < row_norm (wrow_of adj i))%Q.

Lemma dirichlet_step_vrange adj border temps v lo hi :
  wf_rows (length adj) adj -> no_free_sink adj border ->
  (forall i, i < length adj -> nthb border i = true -> (lo <= nthq temps i <= hi)%Q) ->
  vrange (length adj) lo hi v ->
  vrange (length adj) lo hi (dirichlet_step (normalize adj) border temps v).
Proof.
  intros W NS Ht Hv. split.
  - rewrite dirichlet_step_length. apply normalize_length.
  - intros i Hi. rewrite nth_dirichlet_step by (rewrite normalize_length; exact Hi).
    destruct (nthb border i) eqn:B; [apply Ht; assumption|].
    rewrite Qred_correct. apply (dot_row_bounds (length adj)); [|exact Hv].
    rewrite wrow_of_normalize. apply normalize_row_stochastic.
    + intros e He. eapply wf_rows_wrow_of; eassumption.
    + pose proof (NS i Hi B). lra.
Qed.

Lemma dirichlet_core_bounds k adj border temps lo hi :
  wf_rows (length adj) adj -> no_free_sink adj border ->
  vrange (length adj) lo hi temps ->
  vrange (length adj) lo hi (dirichlet_core k adj border temps).
Proof.
  intros W NS Hv. unfold dirichlet_core.
  apply (iterate_inv (vrange (length adj) lo hi)); [|exact Hv].
  intros x Hx. apply dirichlet_step_vrange; auto.
  intros i Hi _. apply Hv. exact Hi.
Qed.

Lemma dirichlet_core_length k adj border temps :
  length temps = length adj -> length (dirichlet_core k adj border temps) = length adj.
Proof.
  intros H. unfold dirichlet_core.
  apply (iterate_inv (fun v => length v = length adj)); [|exact H].
  intros x _. rewrite dirichlet_step_length. apply normalize_length.
Qed.

Lemma dirichlet_core_seeds k adj border temps i :
  i < length adj -> nthb border i = true ->
  nthq (dirichlet_core k adj border temps) i = nthq temps i.
Proof.
  intros Hi B. unfold dirichlet_core. destruct k as [|k]; [reflexivity|].
  rewrite iterate_S. rewrite nth_dirichlet_step by (rewrite normalize_length; exact Hi).
  rewrite B. reflexivity.
Qed.

Lemma diffusion_core_length k alpha adj temps :
  length temps = length adj -> length (diffusion_core k alpha adj temps) = length adj.
Proof.
  intros H. unfold diffusion_core.
  apply (iterate_inv (fun v => length v = length adj)); [|exact H].
  intros x _. rewrite matvec_length. apply diffusion_operator_length.
Qed.

(** * Input handling: get_values, stack_values, get_adjacency_values *)

Lemma get_values_length n v d l : get_values n v d = Ok l -> length l = n.
Proof.
  unfold get_values. destruct v as [[a|a|dd]|].
  - destruct (Nat.eqb (length a) n) eqn:E; [|discriminate]. intros H. inversion H. subst. apply Nat.eqb_eq. exact E.
  - destruct (Nat.eqb (length a) n) eqn:E; [|discriminate]. intros H. inversion H. subst. apply Nat.eqb_eq. exact E.
  - destruct dd as [|x t]; [discriminate|].
    destruct (forallb (fun e => fst e <? n) (x :: t)); [|discriminate].
    intros H. inversion H. rewrite map_length, seq_length. reflexivity.
  - intros H. inversion H. apply repeat_length.
Qed.

Lemma stack_values_length nr nc vr vc d l : stack_values nr nc vr vc d = Ok l -> length l = nr + nc.
Proof.
  unfold stack_values.
  destruct (get_values nr _ d) as [a|] eqn:Ea; [|discriminate].
  destruct (get_values nc _ d) as [b|] eqn:Eb; [|discriminate].
  intros H. inversion H. rewrite app_length.
  apply get_values_length in Ea. apply get_values_length in Eb. lia.
Qed.

Lemma block_undirected_length m : length (block_undirected m) = w_nrow m + w_ncol m.
Proof.
  unfold block_undirected. rewrite app_length, map_length, transpose_length. reflexivity.
Qed.

Lemma block_undirected_nonneg m : nonneg_rows (w_rows m) -> nonneg_rows (block_undirected m).
Proof.
  intros H r e Hr He. unfold block_undirected in Hr. apply in_app_or in Hr. destruct Hr as [Hr|Hr].
  - apply in_map_iff in Hr. destruct Hr as [r0 [E Hr0]]. subst r.
    apply in_map_iff in He. destruct He as [e0 [E He0]]. subst e. simpl. apply (H r0 e0); assumption.
  - destruct (In_nth _ _ [] Hr) as [j [Hj Ej]]. subst r.
    apply transpose_row_entries in He. destruct He as [_ [r0 [e0 [Hr0 [He0 Es]]]]].
    rewrite Es. apply (H r0 e0); assumption.
Qed.

Lemma block_undirected_wf m : wf_wmat m -> wf_rows (w_nrow m + w_ncol m) (block_undirected m).
Proof.
  intros H r e Hr He. unfold block_undirected in Hr. apply in_app_or in Hr. destruct Hr as [Hr|Hr].
  - apply in_map_iff in Hr. destruct Hr as [r0 [E Hr0]]. subst r.
    apply in_map_iff in He. destruct He as [e0 [E He0]]. subst e. simpl.
    destruct (H r0 e0 Hr0 He0) as [H1 H2]. split; [lia|exact H2].
  - destruct (In_nth _ _ [] Hr) as [j [Hj Ej]]. subst r.
    apply transpose_row_entries in He. destruct He as [Hlt [r0 [e0 [Hr0 [He0 Es]]]]].
    destruct (H r0 e0 Hr0 He0) as [_ H2]. rewrite Es. split; [lia|exact H2].
Qed.

Lemma wf_rows_nonneg n rows : wf_rows n rows -> nonneg_rows rows.
Proof. intros H r e Hr He. apply (H r e Hr He). Qed.

Lemma gav_spec m fb values vr vc adj seeds bip :
  get_adjacency_values m fb values vr vc = Ok (adj, seeds, bip) ->
  length seeds = length adj /\
  (nonneg_rows (w_rows m) -> nonneg_rows adj) /\
  (wf_wmat m -> wf_rows (length adj) adj).
Proof.
  unfold get_adjacency_values.
  destruct (Nat.eqb (nnz m) 0); [discriminate|].
  destruct (_ || negb (Nat.eqb (w_nrow m) (w_ncol m))) eqn:B.
  - match goal with |- match ?X with _ => _ end = _ -> _ => destruct X as [v|] eqn:Ev end; [|discriminate].
    intros H. inversion H. subst adj seeds bip.
    rewrite block_undirected_length.
    assert (L : length v = w_nrow m + w_ncol m).
    { destruct values; eapply stack_values_length; exact Ev. }
    split; [exact L|]. split; [apply block_undirected_nonneg|apply block_undirected_wf].
  - destruct (get_values (w_nrow m) values (-1)%Q) as [v|] eqn:Ev; [|discriminate].
    intros H. inversion H. subst adj seeds bip.
    apply orb_false_iff in B. destruct B as [_ B]. apply negb_false_iff in B. apply Nat.eqb_eq in B.
    split; [apply get_values_length in Ev; exact Ev|]. split; [auto|].
    unfold wf_wmat. fold (w_nrow m). rewrite B. auto.
Qed.

(** * Top-level theorems *)

Definition all_in (lo hi : Q) (l : list Q) : Prop := Forall (fun x => (lo <= x <= hi)%Q) l.
Definition out_in (lo hi : Q) (o : fit_out) : Prop :=
  all_in lo hi (fst o) /\
  match snd o with None => True | Some (r, c) => all_in lo hi r /\ all_in lo hi c end.

Lemma vrange_all_in n lo hi v : vrange n lo hi v -> all_in lo hi v.
Proof.
  intros [L H]. apply Forall_forall. intros x Hx.
  destruct (In_nth _ _ 0%Q Hx) as [i [Hi E]]. subst x. apply H. lia.
Qed.

Lemma split_vars_in lo hi bip nr v : all_in lo hi v -> out_in lo hi (split_vars bip nr v).
Proof.
  intros H. unfold split_vars, out_in. destruct bip; simpl.
  - repeat split; try apply Forall_firstn; try apply Forall_skipn; exact H.
  - split; [exact H|exact I].
Qed.

Lemma stacked_split_vars bip nr v : stacked (split_vars bip nr v) = v.
Proof. unfold stacked, split_vars. destruct bip; simpl; [apply firstn_skipn|reflexivity]. Qed.

Lemma diffusion_fit_bounds n_iter alpha m values vr vc init fb adj seeds bip out lo hi :
  nonneg_rows (w_rows m) -> (0 <= alpha <= 1)%Q ->
  get_adjacency_values m fb values vr vc = Ok (adj, seeds, bip) ->
  (forall x, In x seeds -> (0 <= x)%Q -> (lo <= x <= hi)%Q) ->
  (forall t, init = Some t -> (lo <= t <= hi)%Q) ->
  diffusion_fit n_iter alpha m values vr vc init fb = Ok out ->
  out_in lo hi out /\ length (stacked out) = length adj.
Proof.
  intros Hnn Ha G Hs Hi F. unfold diffusion_fit in F.
  destruct (Nat.eqb n_iter 0); [discriminate|]. rewrite G in F.
  destruct (init_temperatures seeds init) as [[temps border]|] eqn:IT; [|discriminate].
  inversion F. subst out. clear F.
  destruct (gav_spec _ _ _ _ _ _ _ _ G) as [L [Hn _]].
  pose proof (init_temperatures_range _ _ _ _ lo hi IT Hs Hi) as R. rewrite L in R.
  split.
  - apply split_vars_in. apply (vrange_all_in (length adj)).
    apply diffusion_core_bounds; auto.
  - rewrite stacked_split_vars. apply diffusion_core_length. destruct R as [R _]. exact R.
Qed.

Lemma dirichlet_fit_bounds n_iter m values vr vc init fb adj seeds bip out lo hi :
  wf_wmat m ->
  get_adjacency_values m fb values vr vc = Ok (adj, seeds, bip) ->
  no_free_sink adj (map is_seed seeds) ->
  (forall x, In x seeds -> (0 <= x)%Q -> (lo <= x <= hi)%Q) ->
  (forall t, init = Some t -> (lo <= t <= hi)%Q) ->
  dirichlet_fit n_iter m values vr vc init fb = Ok out ->
  out_in lo hi out /\ length (stacked out) = length adj.
Proof.
  intros W G NS Hs Hi F. unfold dirichlet_fit in F.
  destruct (Nat.eqb n_iter 0); [discriminate|]. rewrite G in F.
  destruct (init_temperatures seeds init) as [[temps border]|] eqn:IT; [|discriminate].
  inversion F. subst out. clear F.
  destruct (gav_spec _ _ _ _ _ _ _ _ G) as [L [_ Hw]].
  pose proof (init_temperatures_range _ _ _ _ lo hi IT Hs Hi) as R. rewrite L in R.
  assert (Eb : border = map is_seed seeds).
  { apply init_temperatures_spec in IT. destruct IT as [t0 [Eb _]]. exact Eb. }
  subst border.
  split.
  - apply split_vars_in. apply (vrange_all_in (length adj)).
    apply dirichlet_core_bounds; auto.
  - rewrite stacked_split_vars. apply dirichlet_core_length. destruct R as [R _]. exact R.
Qed.

Lemma dirichlet_fit_seeds n_iter m values vr vc init fb adj seeds bip out i :
  get_adjacency_values m fb values vr vc = Ok (adj, seeds, bip) ->
  dirichlet_fit n_iter m values vr vc init fb = Ok out ->
  i < length seeds -> (0 <= nthq seeds i)%Q ->
  nthq (stacked out) i = nthq seeds i.
Proof.
  intros G F Hi Hs. unfold dirichlet_fit in F.
  destruct (Nat.eqb n_iter 0); [discriminate|]. rewrite G in F.
  destruct (init_temperatures seeds init) as [[temps border]|] eqn:IT; [|discriminate].
  inversion F. subst out. clear F.
  destruct (gav_spec _ _ _ _ _ _ _ _ G) as [L _].
  destruct (init_temperatures_nth _ _ _ _ i IT Hi) as [_ [_ [Eb Et]]].
  apply is_seed_iff in Hs.
  rewrite stacked_split_vars. rewrite dirichlet_core_seeds.
  - apply Et. exact Hs.
  - lia.
  - rewrite Eb. exact Hs.
Qed.

(** Without the hypothesis on sinks the Dirichlet bound fails (the row of a sink is null, so its
    value drops to 0): the hypothesis of the property ("every node has an outgoing edge") is needed. *)
Lemma dirichlet_bounds_needs_no_sink :
  exists m values out,
    wf_wmat m /\
    dirichlet_fit 1 m (Some values) None None None false = Ok out /\
    ~ out_in 2 2 out.
Proof.
  exists {| w_ncol := 2; w_rows := [[(1, 1%Q)]; []] |}, (SList [2; -1]%Q), ([2; 0]%Q, None).
  split; [|split].
  - intros r e [Hr|[Hr|[]]] He; subst r; simpl in He; try contradiction.
    destruct He as [He|[]]. subst e. simpl. split; [lia|lra].
  - vm_compute. reflexivity.
  - intros [H _]. simpl in H. inversion H as [|x l _ H2]. inversion H2 as [|y l2 [Hy _] _]. lra.
Qed.

(** Smallest and largest seed bound every seed. *)
Lemma qmin_list_le l d : (qmin_list l d <= d)%Q /\ forall x, In x l -> (qmin_list l d <= x)%Q.
Proof.
  induction l as [|a t [IH1 IH2]]; simpl; [split; [lra|intros x []]|].
  destruct (Qle_bool a (qmin_list t d)) eqn:E.
  - apply Qle_bool_iff in E. split; [lra|]. intros x [Hx|Hx]; [subst; lra|]. specialize (IH2 x Hx). lra.
  - assert (L : (qmin_list t d < a)%Q).
    { destruct (Qlt_le_dec (qmin_list t d) a) as [L|L]; [exact L|]. apply Qle_bool_iff in L. congruence. }
    split; [exact IH1|]. intros x [Hx|Hx]; [subst; lra|auto].
Qed.

Lemma qmax_list_ge l d : (d <= qmax_list l d)%Q /\ forall x, In x l -> (x <= qmax_list l d)%Q.
Proof.
  induction l as [|a t [IH1 IH2]]; simpl; [split; [lra|intros x []]|].
  destruct (Qle_bool (qmax_list t d) a) eqn:E.
  - apply Qle_bool_iff in E. split; [lra|]. intros x [Hx|Hx]; [subst; lra|]. specialize (IH2 x Hx). lra.
  - assert (L : (a < qmax_list t d)%Q).
    { destruct (Qlt_le_dec a (qmax_list t d)) as [L|L]; [exact L|]. apply Qle_bool_iff in L. congruence. }
    split; [exact IH1|]. intros x [Hx|Hx]; [subst; lra|auto].
Qed.

Lemma seed_min_max_bound seeds x :
  In x seeds -> (0 <= x)%Q -> (seed_min seeds <= x <= seed_max seeds)%Q.
Proof.
  intros Hin Hx. unfold seed_min, seed_max.
  assert (F : In x (filter is_seed seeds)) by (apply filter_In; split; [exact Hin|apply is_seed_iff; exact Hx]).
  destruct (filter is_seed seeds) as [|a t]; [contradiction|].
  destruct (qmin_list_le t a) as [A1 A2]. destruct (qmax_list_ge t a) as [B1 B2].
  destruct F as [F|F]; [subst; lra|]. specialize (A2 x F). specialize (B2 x F). lra.
Qed.

(** * Seeds as array, list and dict *)

(** The dict [d] lists the same seeds as the vector [v]: every non-negative entry of [v] is in [d]
    under its index, and [d] has nothing non-negative elsewhere. *)
Definition dict_represents (n : nat) (d : list (nat * Q)) (v : list Q) : Prop :=
  d <> [] /\ (forall e, In e d -> fst e < n) /\
  forall i, i < n ->
    ((0 <= nthq v i)%Q -> dict_get d i = Some (nthq v i)) /\
    ((nthq v i < 0)%Q -> match dict_get d i with None => True | Some x => (x < 0)%Q end).

Definition same_seed (x y : Q) : Prop := is_seed x = is_seed y /\ (is_seed y = true -> x = y).

Lemma Forall2_by_nth {A} (R : A -> A -> Prop) (d : A) l1 l2 :
  length l1 = length l2 -> (forall i, i < length l1 -> R (nth i l1 d) (nth i l2 d)) -> Forall2 R l1 l2.
Proof.
  revert l2; induction l1 as [|a t IH]; intros [|b t2] L H; simpl in L; try lia; constructor.
  - apply (H 0). simpl. lia.
  - apply IH; [lia|]. intros i Hi. apply (H (S i)). simpl. lia.
Qed.

Lemma same_seed_init l1 l2 init :
  Forall2 same_seed l1 l2 -> init_temperatures l1 init = init_temperatures l2 init.
Proof.
  intros F.
  assert (E1 : map is_seed l1 = map is_seed l2).
  { induction F as [|x y t1 t2 [H1 _] _ IH]; simpl; congruence. }
  assert (E2 : filter is_seed l1 = filter is_seed l2).
  { clear E1. induction F as [|x y t1 t2 [H1 H2] _ IH]; simpl; [reflexivity|].
    rewrite H1. destruct (is_seed y) eqn:S; [rewrite (H2 eq_refl), IH; reflexivity|exact IH]. }
  assert (E3 : forall t, map (fun x => if is_seed x then x else t) l1 = map (fun x => if is_seed x then x else t) l2).
  { clear E1 E2. intros t. induction F as [|x y t1 t2 [H1 H2] _ IH]; simpl; [reflexivity|].
    rewrite IH, H1. destruct (is_seed y) eqn:S; [rewrite (H2 eq_refl); reflexivity|reflexivity]. }
  unfold init_temperatures. rewrite E1, E2. destruct init as [t|].
  - rewrite E3. reflexivity.
  - destruct (filter is_seed l2); [reflexivity|]. rewrite E3. reflexivity.
Qed.

Lemma seeds_honoured_lemma n v d init :
  length v = n -> dict_represents n d v ->
  exists dv,
    get_values n (Some (SArray v)) (-1)%Q = Ok v /\
    get_values n (Some (SList v)) (-1)%Q = Ok v /\
    get_values n (Some (SDict d)) (-1)%Q = Ok dv /\
    init_temperatures dv init = init_temperatures v init /\
    forall temps border i,
      init_temperatures v init = Ok (temps, border) -> i < n -> (0 <= nthq v i)%Q ->
      nthb border i = true /\ nthq temps i = nthq v i.
Proof.
  intros L [Hne [Hk Hd]].
  exists (map (fun i => match dict_get d i with Some x => x | None => (-1)%Q end) (seq 0 n)).
  assert (Ea : Nat.eqb (length v) n = true) by (apply Nat.eqb_eq; exact L).
  split; [unfold get_values; rewrite Ea; reflexivity|].
  split; [unfold get_values; rewrite Ea; reflexivity|].
  split.
  { unfold get_values. destruct d as [|e t]; [congruence|].
    assert (F : forallb (fun e => fst e <? n) (e :: t) = true).
    { apply forallb_forall. intros x Hx. apply Nat.ltb_lt. apply Hk. exact Hx. }
    rewrite F. reflexivity. }
  split.
  { apply same_seed_init. apply (Forall2_by_nth same_seed 0%Q).
    - rewrite map_length, seq_length. lia.
    - rewrite map_length, seq_length. intros i Hi.
      rewrite (nth_map_seq (fun i => match dict_get d i with Some x => x | None => (-1)%Q end) n i 0%Q Hi).
      destruct (Hd i Hi) as [H1 H2]. fold (nthq v i).
      destruct (Qlt_le_dec (nthq v i) 0) as [Neg|Pos].
      + specialize (H2 Neg). assert (S2 : is_seed (nthq v i) = false) by (apply is_seed_false; exact Neg).
        split; [|rewrite S2; discriminate]. rewrite S2. apply is_seed_false.
        destruct (dict_get d i) as [x|]; [exact H2|lra].
      + rewrite (H1 Pos). split; reflexivity. }
  intros temps border i IT Hi Hs. rewrite <- L in Hi.
  destruct (init_temperatures_nth _ _ _ _ i IT Hi) as [_ [_ [Eb Et]]].
  apply is_seed_iff in Hs. split; [rewrite Eb; exact Hs|apply Et; exact Hs].
Qed.

(** * Uniqueness of the harmonic extension (maximum principle on a difference) *)

Lemma sumq_ge_term {A} (f : A -> Q) l e :
  (forall x, In x l -> (0 <= f x)%Q) -> In e l -> (f e <= sumq (map f l))%Q.
Proof.
  induction l as [|a t IH]; intros Hn He; [contradiction|]. simpl.
  assert (Ha : (0 <= f a)%Q) by (apply Hn; left; reflexivity).
  assert (Ht : (0 <= sumq (map f t))%Q).
  { apply sumq_nonneg. intros x Hx. apply in_map_iff in Hx. destruct Hx as [y [Hy Hin]]. subst x.
    apply Hn. right. exact Hin. }
  destruct He as [He|He]; [subst; lra|].
  assert (IH' := IH (fun x Hx => Hn x (or_intror Hx)) He). lra.
Qed.

Lemma row_norm_pos_of_entry r j w :
  (forall e, In e r -> (0 <= snd e)%Q) -> In (j, w) r -> (0 < w)%Q -> (0 < row_norm r)%Q.
Proof.
  intros Hn Hin Hw. rewrite (row_norm_nonneg r Hn).
  pose proof (sumq_ge_term snd r (j, w) Hn Hin) as G. simpl in G. lra.
Qed.

Lemma normalize_row_entry r j w :
  ~ (row_norm r == 0)%Q -> In (j, w) r -> In (j, (w / row_norm r)%Q) (normalize_row r).
Proof.
  intros Hn Hin. unfold normalize_row. destruct (Qeq_bool (row_norm r) 0) eqn:E.
  - apply Qeq_bool_eq in E. contradiction.
  - apply in_map_iff. exists (j, w). split; [reflexivity|exact Hin].
Qed.

Lemma dot_row_sub r f g :
  (dot_row r f - dot_row r g == sumq (map (fun e => snd e * (nthq f (fst e) - nthq g (fst e))) r))%Q.
Proof.
  unfold dot_row. rewrite <- sumq_sub. apply sumq_ext. intros e _. lra.
Qed.

(** If a convex combination of values all <= M equals M, every value carrying positive weight equals M. *)
Lemma avg_max_all n r (V : nat -> Q) (M : Q) :
  stochastic_row n r ->
  (forall e, In e r -> (V (fst e) <= M)%Q) ->
  (sumq (map (fun e => snd e * V (fst e)) r) == M)%Q ->
  forall e, In e r -> (0 < snd e)%Q -> (V (fst e) == M)%Q.
Proof.
  intros [Hr Hs] Hle Hsum e He Hpos.
  assert (Z : (sumq (map (fun e => snd e * (M - V (fst e))) r) == 0)%Q).
  { rewrite (sumq_ext (fun e => snd e * (M - V (fst e))) (fun e => M * snd e - snd e * V (fst e)) r)%Q
      by (intros x _; lra).
    rewrite (sumq_sub (fun e => M * snd e) (fun e => snd e * V (fst e)) r)%Q.
    rewrite (sumq_scale snd M r). rewrite Hs, Hsum. lra. }
  assert (T : (snd e * (M - V (fst e)) == 0)%Q).
  { apply (sumq_zero_terms (fun e => snd e * (M - V (fst e)))%Q r); [|exact Z|exact He].
    intros x Hx. destruct (Hr x Hx) as [_ Hw]. specialize (Hle x Hx). nra. }
  specialize (Hle e He). nra.
Qed.

Lemma exists_maximiser (D : nat -> Q) n :
  0 < n -> exists m, m < n /\ forall i, i < n -> (D i <= D m)%Q.
Proof.
  induction n as [|n IH]; intros Hn; [lia|].
  destruct n as [|n].
  - exists 0. split; [lia|]. intros i Hi. assert (i = 0) by lia. subst. lra.
  - destruct IH as [m [Hm Hmax]]; [lia|].
    destruct (Qlt_le_dec (D m) (D (S n))) as [L|L].
    + exists (S n). split; [lia|]. intros i Hi.
      destruct (Nat.eq_dec i (S n)) as [E|E]; [subst; lra|]. specialize (Hmax i ltac:(lia)). lra.
    + exists m. split; [lia|]. intros i Hi.
      destruct (Nat.eq_dec i (S n)) as [E|E]; [subst; exact L|]. apply Hmax. lia.
Qed.

Definition reaches_border (adj : list wrow) (border : list bool) : Prop :=
  forall i, i < length adj -> exists b, b < length adj /\ nthb border b = true /\ path adj i b.

Lemma harmonic_le adj border temps f g :
  wf_rows (length adj) adj -> reaches_border adj border ->
  harmonic adj border temps f -> harmonic adj border temps g ->
  forall i, i < length adj -> (nthq f i - nthq g i <= 0)%Q.
Proof.
  intros W RB [Lf Hf] [Lg Hg] i0 Hi0.
  set (n := length adj) in *.
  set (D := fun i => (nthq f i - nthq g i)%Q).
  assert (Hpath : forall i k, path adj i k -> i < n -> k < n -> nthb border k = true ->
                   (forall j, j < n -> (D j <= D i)%Q) -> (D i <= 0)%Q).
  { intros i k P. induction P as [i|i j k E P IH]; intros Hi Hk Bk Hmax.
    - specialize (Hf i Hi). specialize (Hg i Hi). rewrite Bk in Hf, Hg. unfold D. lra.
    - specialize (Hf i Hi). specialize (Hg i Hi).
      destruct (nthb border i) eqn:Bi; [unfold D; lra|].
      destruct E as [w [Hin Hw]].
      assert (Hnn : forall e, In e (wrow_of adj i) -> fst e < n /\ (0 <= snd e)%Q)
        by (intros e He; eapply wf_rows_wrow_of; eassumption).
      assert (Hnorm : (0 < row_norm (wrow_of adj i))%Q).
      { apply (row_norm_pos_of_entry _ j w); [intros e He; apply Hnn; exact He|exact Hin|exact Hw]. }
      assert (Hne : ~ (row_norm (wrow_of adj i) == 0)%Q) by lra.
      assert (St : stochastic_row n (normalize_row (wrow_of adj i)))
        by (apply normalize_row_stochastic; assumption).
      assert (Hj : j < n) by (apply (Hnn (j, w) Hin)).
      assert (Ej : (D j == D i)%Q).
      { apply (avg_max_all n (normalize_row (wrow_of adj i)) D (D i) St) with (e := (j, (w / row_norm (wrow_of adj i))%Q)).
        - intros e He. apply Hmax. destruct St as [St _]. apply (St e He).
        - unfold D at 2. rewrite Hf, Hg. rewrite dot_row_sub. reflexivity.
        - apply normalize_row_entry; assumption.
        - simpl. apply Qlt_shift_div_l; [exact Hnorm|lra]. }
      assert (Dj : (D j <= 0)%Q).
      { apply IH; auto. intros x Hx. specialize (Hmax x Hx). lra. }
      lra. }
  destruct (exists_maximiser D n ltac:(lia)) as [m [Hm Hmax]].
  destruct (RB m Hm) as [b [Hb [Bb P]]].
  pose proof (Hpath m b P Hm Hb Bb Hmax) as Dm.
  specialize (Hmax i0 Hi0). unfold D in *. lra.
Qed.

Lemma harmonic_unique_reach adj border temps f g :
  wf_rows (length adj) adj -> reaches_border adj border ->
  harmonic adj border temps f -> harmonic adj border temps g ->
  forall i, i < length adj -> (nthq f i == nthq g i)%Q.
Proof.
  intros W RB Hf Hg i Hi.
  pose proof (harmonic_le adj border temps f g W RB Hf Hg i Hi).
  pose proof (harmonic_le adj border temps g f W RB Hg Hf i Hi). lra.
Qed.

Lemma connected_reaches adj border :
  connected adj -> (exists s, s < length adj /\ nthb border s = true) -> reaches_border adj border.
Proof.
  intros C [s [Hs Bs]] i Hi. exists s. split; [exact Hs|]. split; [exact Bs|]. apply C; assumption.
Qed.

Lemma harmonic_unique_connected adj border temps f g :
  wf_rows (length adj) adj -> connected adj ->
  (exists s, s < length adj /\ nthb border s = true) ->
  harmonic adj border temps f -> harmonic adj border temps g ->
  forall i, i < length adj -> (nthq f i == nthq g i)%Q.
Proof.
  intros W C S. apply harmonic_unique_reach; [exact W|]. apply connected_reaches; assumption.
Qed.

(** * One Dirichlet step never increases the sup-distance to a harmonic function *)

Lemma dirichlet_step_nonexpansive adj border temps h v d :
  wf_rows (length adj) adj -> no_free_sink adj border ->
  harmonic adj border temps h ->
  dist_le (length adj) v h d ->
  dist_le (length adj) (dirichlet_step (normalize adj) border temps v) h d.
Proof.
  intros W NS [Lh Hh] Hd i Hi.
  rewrite nth_dirichlet_step by (rewrite normalize_length; exact Hi).
  specialize (Hh i Hi). pose proof (Hd i Hi) as Hdi.
  assert (D0 : (0 <= d)%Q) by (pose proof (Qabs_nonneg (nthq v i - nthq h i)); lra).
  destruct (nthb border i) eqn:B.
  - rewrite Hh. setoid_replace (nthq temps i - nthq temps i)%Q with 0%Q by lra. simpl. exact D0.
  - rewrite Qred_correct, Hh, wrow_of_normalize, dot_row_sub.
    assert (St : stochastic_row (length adj) (normalize_row (wrow_of adj i))).
    { apply normalize_row_stochastic.
      - intros e He. eapply wf_rows_wrow_of; eassumption.
      - pose proof (NS i Hi B). lra. }
    apply Qabs_Qle_condition.
    pose proof (convex_bounds_pairs
                  (map (fun e => (snd e, (nthq v (fst e) - nthq h (fst e))%Q)) (normalize_row (wrow_of adj i)))
                  (- d)%Q d) as CB.
    rewrite !map_map in CB. simpl in CB. apply CB.
    + intros e He. apply in_map_iff in He. destruct He as [x [Hx Hin]]. subst e. simpl.
      destruct St as [St _]. destruct (St x Hin) as [Hlt Hw]. split; [exact Hw|].
      apply Qabs_Qle_condition. apply Hd. exact Hlt.
    + destruct St as [_ St]. exact St.
Qed.

Lemma dirichlet_core_nonexpansive k adj border temps h d :
  wf_rows (length adj) adj -> no_free_sink adj border ->
  harmonic adj border temps h ->
  dist_le (length adj) temps h d ->
  dist_le (length adj) (dirichlet_core k adj border temps) h d.
Proof.
  intros W NS H D0. unfold dirichlet_core.
  apply (iterate_inv (fun v => dist_le (length adj) v h d)); [|exact D0].
  intros x Hx. apply dirichlet_step_nonexpansive; assumption.
Qed.

(** * Instances with the smallest / largest seed *)

Lemma diffusion_fit_bounds_minmax n_iter alpha m values vr vc init fb adj seeds bip out :
  nonneg_rows (w_rows m) -> (0 <= alpha <= 1)%Q ->
  get_adjacency_values m fb values vr vc = Ok (adj, seeds, bip) ->
  (forall t, init = Some t -> (seed_min seeds <= t <= seed_max seeds)%Q) ->
  diffusion_fit n_iter alpha m values vr vc init fb = Ok out ->
  out_in (seed_min seeds) (seed_max seeds) out.
Proof.
  intros Hnn Ha G Hi F.
  apply (diffusion_fit_bounds n_iter alpha m values vr vc init fb adj seeds bip out _ _ Hnn Ha G); auto.
  intros x Hx H0. apply seed_min_max_bound; assumption.
Qed.

Lemma dirichlet_fit_bounds_minmax n_iter m values vr vc init fb adj seeds bip out :
  wf_wmat m ->
  get_adjacency_values m fb values vr vc = Ok (adj, seeds, bip) ->
  no_free_sink adj (map is_seed seeds) ->
  (forall t, init = Some t -> (seed_min seeds <= t <= seed_max seeds)%Q) ->
  dirichlet_fit n_iter m values vr vc init fb = Ok out ->
  out_in (seed_min seeds) (seed_max seeds) out.
Proof.
  intros W G NS Hi F.
  apply (dirichlet_fit_bounds n_iter m values vr vc init fb adj seeds bip out _ _ W G NS); auto.
  intros x Hx H0. apply seed_min_max_bound; assumption.
Qed.

(** * Convergence of the Dirichlet iteration to the harmonic solution *)

Fixpoint qpow (x : Q) (m : nat) : Q := match m with O => 1%Q | S m' => (x * qpow x m')%Q end.

Lemma qpow_range x m : (0 <= x <= 1)%Q -> (0 <= qpow x m <= 1)%Q.
Proof. intros H. induction m as [|m IH]; simpl; [lra|nra]. Qed.

Lemma qpow_pos x m : (0 < x)%Q -> (0 < qpow x m)%Q.
Proof. intros H. induction m as [|m IH]; simpl; [lra|nra]. Qed.

(** [near L i]: node i is within L hops (along edges of positive weight) of the boundary. *)
Fixpoint near (adj : list wrow) (border : list bool) (L : nat) (i : nat) : Prop :=
  match L with
  | O => nthb border i = true
  | S L' => near adj border L' i \/ exists j, edge adj i j /\ near adj border L' j
  end.

Lemma near_le adj border L L' i : L <= L' -> near adj border L i -> near adj border L' i.
Proof. intros H N. induction H as [|L' H IH]; [exact N|]. left. exact IH. Qed.

Lemma path_near adj border i b :
  path adj i b -> nthb border b = true -> exists L, near adj border L i.
Proof.
  intros P Hb. induction P as [i|i j k E P IH].
  - exists 0. exact Hb.
  - destruct (IH Hb) as [L HL]. exists (S L). right. exists j. split; assumption.
Qed.

Lemma all_near adj border :
  reaches_border adj border -> exists L, forall i, i < length adj -> near adj border L i.
Proof.
  intros RB.
  assert (H : forall m, m <= length adj -> exists L, forall i, i < m -> near adj border L i).
  { induction m as [|m IH]; intros Hm.
    - exists 0. intros i Hi. lia.
    - destruct IH as [L HL]; [lia|].
      destruct (RB m ltac:(lia)) as [b [_ [Bb P]]].
      destruct (path_near adj border m b P Bb) as [L2 HL2].
      exists (Nat.max L L2). intros i Hi.
      destruct (Nat.eq_dec i m) as [E|E].
      + subst i. apply (near_le adj border L2); [lia|exact HL2].
      + apply (near_le adj border L); [lia|]. apply HL. lia. }
  apply (H (length adj)). lia.
Qed.

Lemma reaches_no_free_sink adj border :
  wf_rows (length adj) adj -> reaches_border adj border -> no_free_sink adj border.
Proof.
  intros W RB i Hi B. destruct (RB i Hi) as [b [_ [Bb P]]].
  destruct P as [i|i j k [w [Hin Hw]] P]; [congruence|].
  apply (row_norm_pos_of_entry _ j w); [|exact Hin|exact Hw].
  intros e He. eapply wf_rows_wrow_of; eassumption.
Qed.

(** A positive lower bound on all positive transition probabilities. *)
Lemma list_pos_min (l : list Q) :
  (forall x, In x l -> (0 < x)%Q) -> exists dl, (0 < dl <= 1)%Q /\ forall x, In x l -> (dl <= x)%Q.
Proof.
  induction l as [|a t IH]; intros H.
  - exists 1%Q. split; [lra|]. intros x [].
  - destruct IH as [dl [Hd Hall]]; [intros x Hx; apply H; right; exact Hx|].
    assert (Ha : (0 < a)%Q) by (apply H; left; reflexivity).
    destruct (Qlt_le_dec a dl) as [L|L].
    + exists a. split; [lra|]. intros x [Hx|Hx]; [subst; lra|]. specialize (Hall x Hx). lra.
    + exists dl. split; [exact Hd|]. intros x [Hx|Hx]; [subst; exact L|auto].
Qed.

Definition min_prob (adj : list wrow) (dl : Q) : Prop :=
  (0 < dl <= 1)%Q /\
  forall i j w, In (j, w) (wrow_of adj i) -> (0 < w)%Q -> (dl <= w / row_norm (wrow_of adj i))%Q.

Lemma min_prob_exists adj : wf_rows (length adj) adj -> exists dl, min_prob adj dl.
Proof.
  intros W.
  set (probs := flat_map (fun r => map (fun e => if Qle_bool (snd e) 0 then 1%Q else snd e) (normalize_row r)) adj).
  destruct (list_pos_min probs) as [dl [Hd Hall]].
  { intros x Hx. unfold probs in Hx. apply in_flat_map in Hx. destruct Hx as [r [_ Hx]].
    apply in_map_iff in Hx. destruct Hx as [e [E _]]. subst x.
    destruct (Qle_bool (snd e) 0) eqn:B; [lra|].
    destruct (Qlt_le_dec 0 (snd e)) as [L|L]; [exact L|]. apply Qle_bool_iff in L. congruence. }
  exists dl. split; [exact Hd|]. intros i j w Hin Hw.
  assert (Hnorm : (0 < row_norm (wrow_of adj i))%Q).
  { apply (row_norm_pos_of_entry _ j w); [|exact Hin|exact Hw].
    intros e He. eapply wf_rows_wrow_of; eassumption. }
  assert (Hp : (0 < w / row_norm (wrow_of adj i))%Q) by (apply Qlt_shift_div_l; [exact Hnorm|lra]).
  apply Hall. unfold probs. apply in_flat_map. exists (wrow_of adj i). split; [eapply wrow_of_In; exact Hin|].
  apply in_map_iff. exists (j, (w / row_norm (wrow_of adj i))%Q). split.
  - simpl. destruct (Qle_bool (w / row_norm (wrow_of adj i)) 0) eqn:B; [|reflexivity].
    apply Qle_bool_iff in B. lra.
  - apply normalize_row_entry; [lra|exact Hin].
Qed.

(** A convex combination in which one term of weight >= dl is at most c <= d stays below d - dl (d - c). *)
Lemma convex_small_term n r (U : nat -> Q) (d c dl : Q) e0 :
  stochastic_row n r ->
  (forall e, In e r -> (U (fst e) <= d)%Q) ->
  In e0 r -> (0 <= dl <= snd e0)%Q -> (U (fst e0) <= c)%Q -> (c <= d)%Q ->
  (sumq (map (fun e => snd e * U (fst e)) r) <= d - dl * (d - c))%Q.
Proof.
  intros [Hr Hs] Hle He0 Hdl Hc Hcd.
  assert (Z : (sumq (map (fun e => snd e * (d - U (fst e))) r) == d - sumq (map (fun e => snd e * U (fst e)) r))%Q).
  { rewrite (sumq_ext (fun e => snd e * (d - U (fst e))) (fun e => d * snd e - snd e * U (fst e)) r)%Q
      by (intros x _; lra).
    rewrite (sumq_sub (fun e => d * snd e) (fun e => snd e * U (fst e)) r)%Q.
    rewrite (sumq_scale snd d r). rewrite Hs. lra. }
  assert (G : (snd e0 * (d - U (fst e0)) <= sumq (map (fun e => snd e * (d - U (fst e))) r))%Q).
  { apply (sumq_ge_term (fun e => snd e * (d - U (fst e)))%Q r e0); [|exact He0].
    intros x Hx. destruct (Hr x Hx) as [_ Hw]. specialize (Hle x Hx). nra. }
  assert (T : (dl * (d - c) <= snd e0 * (d - U (fst e0)))%Q) by nra.
  lra.
Qed.

Lemma sumq_opp {A} (f : A -> Q) (l : list A) :
  (sumq (map (fun e => - f e) l) == - sumq (map f l))%Q.
Proof. induction l as [|a t IH]; simpl; [lra|]. rewrite IH. lra. Qed.

Section Contraction.
  Context (adj : list wrow) (border : list bool) (temps h : list Q) (dl : Q).
  Context (W : wf_rows (length adj) adj).
  Context (NS : no_free_sink adj border).
  Context (Hh : harmonic adj border temps h).
  Context (Hdl : min_prob adj dl).

  Let n := length adj.
  Let T := dirichlet_step (normalize adj) border temps.

  Definition err_bound (d : Q) (k : nat) (v : list Q) : Prop :=
    forall m i, m < k -> i < n -> near adj border m i ->
      (Qabs (nthq v i - nthq h i) <= (1 - qpow dl m) * d)%Q.

  Lemma step_err_bound d k v :
    dist_le n v h d -> err_bound d k v -> err_bound d (S k) (T v).
  Proof.
    intros Hd Hb m. destruct Hdl as [Hdl1 Hdl2]. destruct Hh as [Lh Hharm].
    induction m as [|m IHm]; intros i Hm Hi Hnear.
    - simpl in Hnear. unfold T. rewrite nth_dirichlet_step by (rewrite normalize_length; exact Hi).
      rewrite Hnear. specialize (Hharm i Hi). rewrite Hnear in Hharm. rewrite Hharm.
      setoid_replace (nthq temps i - nthq temps i)%Q with 0%Q by lra.
      change (Qabs 0)%Q with 0%Q. cbn [qpow]. lra.
    - pose proof (Hd i Hi) as Hdi.
      assert (D0 : (0 <= d)%Q) by (pose proof (Qabs_nonneg (nthq v i - nthq h i)); lra).
      pose proof (qpow_range dl m ltac:(lra)) as Pm.
      pose proof (qpow_range dl (S m) ltac:(lra)) as PSm. cbn [qpow] in PSm.
      assert (Pdl : (dl * qpow dl m <= qpow dl m)%Q) by nra.
      assert (Pd1 : (0 <= (qpow dl m - dl * qpow dl m) * d)%Q) by (apply Qmult_le_0_compat; lra).
      assert (Pd2 : (0 <= (1 - dl * qpow dl m) * d)%Q) by (apply Qmult_le_0_compat; lra).
      destruct Hnear as [Hnear|[j [[w [Hin Hw]] Hnear]]].
      + assert (IH := IHm i ltac:(lia) Hi Hnear). cbn [qpow]. lra.
      + unfold T. rewrite nth_dirichlet_step by (rewrite normalize_length; exact Hi).
        specialize (Hharm i Hi).
        destruct (nthb border i) eqn:B.
        * rewrite Hharm. setoid_replace (nthq temps i - nthq temps i)%Q with 0%Q by lra.
          change (Qabs 0)%Q with 0%Q. cbn [qpow]. lra.
        * assert (Hnn : forall e, In e (wrow_of adj i) -> fst e < n /\ (0 <= snd e)%Q)
            by (intros e He; eapply wf_rows_wrow_of; eassumption).
          assert (Hnorm : (0 < row_norm (wrow_of adj i))%Q) by (apply NS; assumption).
          assert (St : stochastic_row n (normalize_row (wrow_of adj i))).
          { apply normalize_row_stochastic; [exact Hnn|lra]. }
          assert (Hj : j < n) by (apply (Hnn (j, w) Hin)).
          assert (He0 : In (j, (w / row_norm (wrow_of adj i))%Q) (normalize_row (wrow_of adj i)))
            by (apply normalize_row_entry; [lra|exact Hin]).
          assert (Hp : (dl <= w / row_norm (wrow_of adj i))%Q) by (apply (Hdl2 i j w); assumption).
          assert (Bj : (Qabs (nthq v j - nthq h j) <= (1 - qpow dl m) * d)%Q) by (apply Hb; [lia|exact Hj|exact Hnear]).
          apply Qabs_Qle_condition in Bj.
          assert (Hc : ((1 - qpow dl m) * d <= d)%Q) by (assert (0 <= qpow dl m * d)%Q by (apply Qmult_le_0_compat; lra); lra).
          rewrite Qred_correct, Hharm, wrow_of_normalize, dot_row_sub.
          apply Qabs_Qle_condition.
          assert (Eq : (d - dl * (d - (1 - qpow dl m) * d) == (1 - qpow dl (S m)) * d)%Q) by (cbn [qpow]; ring).
          split.
          -- pose proof (convex_small_term n (normalize_row (wrow_of adj i))
                           (fun x => (- (nthq v x - nthq h x))%Q) d ((1 - qpow dl m) * d)%Q dl (j, (w / row_norm (wrow_of adj i))%Q) St) as CS.
             cbv beta in CS.
             rewrite (sumq_ext (fun e => snd e * - (nthq v (fst e) - nthq h (fst e)))%Q
                               (fun e => - (snd e * (nthq v (fst e) - nthq h (fst e))))%Q) in CS by (intros x _; lra).
             rewrite sumq_opp in CS. rewrite Eq in CS.
             assert (CS' := CS (fun e He => ltac:(
               let H := fresh in pose proof (Hd (fst e) (proj1 (proj1 St e He))) as H;
               apply Qabs_Qle_condition in H; lra)) He0 ltac:(cbn [fst snd]; lra) ltac:(cbn [fst snd]; lra) Hc).
             lra.
          -- pose proof (convex_small_term n (normalize_row (wrow_of adj i))
                           (fun x => (nthq v x - nthq h x)%Q) d ((1 - qpow dl m) * d)%Q dl (j, (w / row_norm (wrow_of adj i))%Q) St) as CS.
             cbv beta in CS. rewrite Eq in CS.
             apply CS; [|exact He0|cbn [fst snd]; lra|cbn [fst snd]; lra|exact Hc].
             intros e He. pose proof (Hd (fst e) (proj1 (proj1 St e He))) as H.
             apply Qabs_Qle_condition in H. lra.
  Qed.

  Lemma T_nonexpansive d v : dist_le n v h d -> dist_le n (T v) h d.
  Proof. intros H. apply dirichlet_step_nonexpansive; assumption. Qed.

  Lemma iter_err_bound d k v :
    dist_le n v h d -> dist_le n (iterate k T v) h d /\ err_bound d k (iterate k T v).
  Proof.
    intros Hd. induction k as [|k [IH1 IH2]].
    - split; [exact Hd|]. intros m i Hm. lia.
    - rewrite iterate_S. split; [apply T_nonexpansive; exact IH1|apply step_err_bound; assumption].
  Qed.

  Lemma iterate_add {A} (f : A -> A) a b x : iterate (a + b) f x = iterate b f (iterate a f x).
  Proof. revert x; induction a as [|a IH]; intros x; simpl; [reflexivity|apply IH]. Qed.

  Lemma dist_le_weaken u v d1 d2 : (d1 <= d2)%Q -> dist_le n u v d1 -> dist_le n u v d2.
  Proof. intros H D i Hi. specialize (D i Hi). lra. Qed.

  Context (L : nat).
  Context (HL : forall i, i < n -> near adj border L i).

  Lemma block_contracts d v :
    dist_le n v h d -> dist_le n (iterate (S L) T v) h ((1 - qpow dl L) * d).
  Proof.
    intros Hd. destruct (iter_err_bound d (S L) v Hd) as [_ E].
    intros i Hi. apply (E L i); [lia|exact Hi|apply HL; exact Hi].
  Qed.

  Lemma blocks_contract d v t :
    dist_le n v h d -> dist_le n (iterate (t * S L) T v) h (qpow (1 - qpow dl L) t * d).
  Proof.
    intros Hd. induction t as [|t IH].
    - simpl. apply (dist_le_weaken _ _ d); [lra|exact Hd].
    - replace (S t * S L) with (t * S L + S L) by lia. rewrite iterate_add.
      apply (dist_le_weaken _ _ ((1 - qpow dl L) * (qpow (1 - qpow dl L) t * d))%Q); [simpl; lra|].
      apply block_contracts. exact IH.
  Qed.

  Lemma after_blocks d v t k :
    dist_le n v h d -> t * S L <= k -> dist_le n (iterate k T v) h (qpow (1 - qpow dl L) t * d).
  Proof.
    intros Hd Hk. replace k with (t * S L + (k - t * S L)) by lia. rewrite iterate_add.
    apply (iterate_inv (fun x => dist_le n x h (qpow (1 - qpow dl L) t * d))).
    - intros x Hx. apply T_nonexpansive. exact Hx.
    - apply blocks_contract. exact Hd.
  Qed.
End Contraction.

Lemma bernoulli s t : (0 < s <= 1)%Q -> (qpow (1 - s) t * (1 + inject_Z (Z.of_nat t) * s) <= 1)%Q.
Proof.
  intros Hs. induction t as [|t IH].
  - simpl. unfold inject_Z. lra.
  - rewrite inject_nat_S. cbn [qpow].
    pose proof (qpow_range (1 - s) t ltac:(lra)) as P.
    assert (T0 : (0 <= inject_Z (Z.of_nat t))%Q) by (change 0%Q with (inject_Z 0); rewrite <- Zle_Qle; lia).
    set (T := inject_Z (Z.of_nat t)) in *. set (p := qpow (1 - s) t) in *.
    assert (E : ((1 - s) * p * (1 + (T + 1) * s) == p * (1 + T * s) - p * s * s * (T + 1))%Q) by ring.
    rewrite E. assert ((0 <= p * s * s * (T + 1))%Q) by (repeat apply Qmult_le_0_compat; lra). lra.
Qed.

Lemma archimedes (q : Q) : exists t : nat, (q <= inject_Z (Z.of_nat t))%Q.
Proof.
  exists (Z.to_nat (Qceiling q)).
  apply Qle_trans with (inject_Z (Qceiling q)); [apply Qle_ceiling|].
  rewrite <- Zle_Qle. lia.
Qed.

Lemma dist_exists n u v : exists d, dist_le n u v d.
Proof.
  exists (sumq (map (fun i => Qabs (nthq u i - nthq v i)) (seq 0 n))).
  intros i Hi.
  apply (sumq_ge_term (fun i => Qabs (nthq u i - nthq v i)) (seq 0 n) i).
  - intros x _. apply Qabs_nonneg.
  - apply in_seq. lia.
Qed.

Lemma dirichlet_converges_lemma adj border temps h :
  wf_rows (length adj) adj -> reaches_border adj border ->
  harmonic adj border temps h ->
  forall eps, (0 < eps)%Q -> exists N, forall k, N <= k ->
    dist_le (length adj) (dirichlet_core k adj border temps) h eps.
Proof.
  intros W RB Hh eps Heps.
  pose proof (reaches_no_free_sink adj border W RB) as NS.
  destruct (min_prob_exists adj W) as [dl Hdl].
  destruct (all_near adj border RB) as [L HL].
  destruct (dist_exists (length adj) temps h) as [d0 Hd0].
  set (d := (Qabs d0)%Q).
  assert (Hd : dist_le (length adj) temps h d).
  { intros i Hi. specialize (Hd0 i Hi). pose proof (Qle_Qabs d0). unfold d. lra. }
  assert (D0 : (0 <= d)%Q) by apply Qabs_nonneg.
  set (s := qpow dl L).
  assert (Hs : (0 < s <= 1)%Q).
  { destruct Hdl as [Hdl1 _]. split; [apply qpow_pos; lra|apply qpow_range; lra]. }
  destruct (archimedes (d / (eps * s))) as [t Ht].
  exists (t * S L). intros k Hk.
  pose proof (after_blocks adj border temps h dl W NS Hh Hdl L HL d temps t k Hd Hk) as A.
  fold s in A. unfold dirichlet_core.
  apply (dist_le_weaken adj (iterate k (dirichlet_step (normalize adj) border temps) temps) h
                        (qpow (1 - s) t * d)%Q eps); [|exact A].
  pose proof (bernoulli s t Hs) as Bn.
  pose proof (qpow_range (1 - s) t ltac:(lra)) as P.
  set (T := inject_Z (Z.of_nat t)) in *. set (p := qpow (1 - s) t) in *.
  assert (Hes : (0 < eps * s)%Q) by nra.
  assert (Hd2 : (d <= T * (eps * s))%Q).
  { assert (E : (d == d / (eps * s) * (eps * s))%Q) by (field; lra). rewrite E.
    apply Qmult_le_compat_r; [exact Ht|lra]. }
  assert (H1 : (p * d <= p * (T * (eps * s)))%Q) by nra.
  assert (H2 : (p * (T * (eps * s)) <= eps * (p * (1 + T * s)))%Q) by nra.
  assert (H3 : (eps * (p * (1 + T * s)) <= eps)%Q) by nra.
  lra.
Qed.

Lemma dirichlet_converges_connected adj border temps h :
  wf_rows (length adj) adj -> connected adj ->
  (exists s, s < length adj /\ nthb border s = true) ->
  harmonic adj border temps h ->
  forall eps, (0 < eps)%Q -> exists N, forall k, N <= k ->
    dist_le (length adj) (dirichlet_core k adj border temps) h eps.
Proof.
  intros W C S. apply dirichlet_converges_lemma; [exact W|]. apply connected_reaches; assumption.
Qed.

(** The executable check used by the harness on candidate solutions is sound for [harmonic]. *)
Lemma harmonic_checkb_sound adj border temps f :
  harmonic_checkb adj border temps f = true -> harmonic adj border temps f.
Proof.
  unfold harmonic_checkb. intros H. apply andb_true_iff in H. destruct H as [HL HF].
  apply Nat.eqb_eq in HL. split; [exact HL|].
  intros i Hi. rewrite forallb_forall in HF. specialize (HF i ltac:(apply in_seq; lia)).
  destruct (nthb border i); apply Qeq_bool_eq in HF; exact HF.
Qed.

Lemma path_trans adj i j k : path adj i j -> path adj j k -> path adj i k.
Proof.
  intros P Q. induction P as [i|i a j E P IH]; [exact Q|].
  apply (path_step adj i a k E). apply IH. exact Q.
Qed.

(** Proofs about Model/Diffusion.v: maximum principle for Diffusion and Dirichlet, clamping,
    seed forms, uniqueness of the harmonic extension, non-expansiveness of the Dirichlet step. *)
From SKN Require Import Base.Util Model.Diffusion.
From Coq Require Import Qabs Qreduction Lqa Psatz.
Close Scope Q_scope.
Open Scope nat_scope.

(** * Lists and indices *)

Lemma nth_map_lt {A B} (f : A -> B) (l : list A) i d1 d2 :
  i < length l -> nth i (map f l) d1 = f (nth i l d2).
Proof.
  revert i; induction l as [|a t IH]; intros [|i] H; simpl in *; try lia; auto.
  apply IH; lia.
Qed.

Lemma nth_map_seq {B} (f : nat -> B) n i d : i < n -> nth i (map f (seq 0 n)) d = f i.
Proof.
  intros H. rewrite (nth_map_lt f (seq 0 n) i d 0) by (rewrite seq_length; exact H).
  rewrite seq_nth by exact H. reflexivity.
Qed.

Lemma iterate_inv {A} (P : A -> Prop) (f : A -> A) :
  (forall x, P x -> P (f x)) -> forall k x, P x -> P (iterate k f x).
Proof.
  intros Hf k; induction k as [|k IH]; intros x Hx; simpl; auto.
Qed.

Lemma iterate_S {A} (f : A -> A) k x : iterate (S k) f x = f (iterate k f x).
Proof.
  revert x; induction k as [|k IH]; intros x; [reflexivity|].
  change (iterate (S (S k)) f x) with (iterate (S k) f (f x)). rewrite IH. reflexivity.
Qed.

Lemma Forall_firstn {A} (P : A -> Prop) n l : Forall P l -> Forall P (firstn n l).
Proof.
  intros H. rewrite <- (firstn_skipn n l) in H. apply Forall_app in H. tauto.
Qed.

Lemma Forall_skipn {A} (P : A -> Prop) n l : Forall P l -> Forall P (skipn n l).
Proof.
  intros H. rewrite <- (firstn_skipn n l) in H. apply Forall_app in H. tauto.
Qed.

(** * Sums over Q *)

Lemma sumq_nonneg l : (forall x, In x l -> (0 <= x)%Q) -> (0 <= sumq l)%Q.
Proof.
  induction l as [|a t IH]; intros H; simpl; [lra|].
  assert (Ha : (0 <= a)%Q) by (apply H; left; reflexivity).
  assert (Ht : (0 <= sumq t)%Q) by (apply IH; intros x Hx; apply H; right; exact Hx).
  lra.
Qed.

Lemma sumq_scale {A} (f : A -> Q) (c : Q) (l : list A) :
  (sumq (map (fun e => c * f e) l) == c * sumq (map f l))%Q.
Proof.
  induction l as [|a t IH]; simpl; [lra|]. rewrite IH. lra.
Qed.

Lemma sumq_div {A} (f : A -> Q) (s : Q) (l : list A) :
  (sumq (map (fun e => f e / s) l) == sumq (map f l) / s)%Q.
Proof.
  induction l as [|a t IH]; simpl.
  - unfold Qdiv. lra.
  - rewrite IH. unfold Qdiv. lra.
Qed.

Lemma sumq_ext {A} (f g : A -> Q) (l : list A) :
  (forall e, In e l -> (f e == g e)%Q) -> (sumq (map f l) == sumq (map g l))%Q.
Proof.
  induction l as [|a t IH]; intros H; simpl; [lra|].
  rewrite (H a) by (left; reflexivity). rewrite IH by (intros e He; apply H; right; exact He). lra.
Qed.

Lemma sumq_sub {A} (f g : A -> Q) (l : list A) :
  (sumq (map (fun e => f e - g e) l) == sumq (map f l) - sumq (map g l))%Q.
Proof.
  induction l as [|a t IH]; simpl; [lra|]. rewrite IH. lra.
Qed.

(** A sum of non-negative terms that vanishes has only vanishing terms. *)
Lemma sumq_zero_terms {A} (f : A -> Q) (l : list A) :
  (forall e, In e l -> (0 <= f e)%Q) -> (sumq (map f l) == 0)%Q ->
  forall e, In e l -> (f e == 0)%Q.
Proof.
  induction l as [|a t IH]; intros Hn Hs e He; [contradiction|].
  simpl in Hs.
  assert (Ha : (0 <= f a)%Q) by (apply Hn; left; reflexivity).
  assert (Ht : (0 <= sumq (map f t))%Q).
  { apply sumq_nonneg. intros x Hx. apply in_map_iff in Hx. destruct Hx as [y [Hy Hin]]. subst x.
    apply Hn. right. exact Hin. }
  destruct He as [He|He].
  - subst e. lra.
  - apply IH; auto. + intros x Hx. apply Hn. right. exact Hx. + lra.
Qed.

(** * Convex combinations *)

Lemma convex_bounds_scaled (pv : list (Q * Q)) (lo hi : Q) :
  (forall e, In e pv -> (0 <= fst e)%Q /\ (lo <= snd e <= hi)%Q) ->
  (lo * sumq (map fst pv) <= sumq (map (fun e => fst e * snd e) pv) <= hi * sumq (map fst pv))%Q.
Proof.
  induction pv as [|[p v] t IH]; intros H; simpl; [lra|].
  assert (Hpv : (0 <= p)%Q /\ (lo <= v <= hi)%Q) by (apply (H (p, v)); left; reflexivity).
  assert (Ht := IH (fun e He => H e (or_intror He))).
  destruct Hpv as [Hp [Hl Hh]].
  assert (H1 : (lo * p <= p * v)%Q) by nra.
  assert (H2 : (p * v <= hi * p)%Q) by nra.
  lra.
Qed.

Lemma convex_bounds_pairs (pv : list (Q * Q)) (lo hi : Q) :
  (forall e, In e pv -> (0 <= fst e)%Q /\ (lo <= snd e <= hi)%Q) ->
  (sumq (map fst pv) == 1)%Q ->
  (lo <= sumq (map (fun e => fst e * snd e) pv) <= hi)%Q.
Proof.
  intros H S. pose proof (convex_bounds_scaled pv lo hi H) as B. rewrite S in B. lra.
Qed.

(** The form stated in the property: two vectors of the same length. *)
Lemma convex_bounds (p v : list Q) (lo hi : Q) :
  length p = length v ->
  (forall x, In x p -> (0 <= x)%Q) ->
  (sumq p == 1)%Q ->
  (forall x, In x v -> (lo <= x <= hi)%Q) ->
  (lo <= sumq (map2 Qmult p v) <= hi)%Q.
Proof.
  intros L Hp S Hv.
  assert (E : forall (p v : list Q), length p = length v ->
              map2 Qmult p v = map (fun e => (fst e * snd e)%Q) (combine p v) /\ map fst (combine p v) = p).
  { clear. induction p as [|a t IH]; intros [|b t2] L; simpl in *; try lia; auto.
    destruct (IH t2) as [E1 E2]; [lia|]. rewrite E1, E2. auto. }
  destruct (E p v L) as [E1 E2]. rewrite E1.
  apply convex_bounds_pairs.
  - intros [a b] Hin. simpl. split.
    + apply Hp. apply in_combine_l in Hin. exact Hin.
    + apply Hv. apply in_combine_r in Hin. exact Hin.
  - rewrite E2. exact S.
Qed.

(** * Stochastic rows *)

Lemma dot_row_bounds n r v lo hi :
  stochastic_row n r -> vrange n lo hi v -> (lo <= dot_row r v <= hi)%Q.
Proof.
  intros [Hr Hs] [Hl Hv]. unfold dot_row.
  pose proof (convex_bounds_pairs (map (fun e => (snd e, nthq v (fst e))) r) lo hi) as B.
  rewrite !map_map in B. simpl in B. apply B.
  - intros e He. apply in_map_iff in He. destruct He as [x [Hx Hin]]. subst e. simpl.
    destruct (Hr x Hin) as [Hi Hw]. split; [exact Hw|]. apply Hv. exact Hi.
  - exact Hs.
Qed.

Lemma row_norm_nonneg r :
  (forall e, In e r -> (0 <= snd e)%Q) -> (row_norm r == sumq (map snd r))%Q.
Proof.
  intros H. unfold row_norm. apply sumq_ext. intros e He. apply Qabs_pos. apply H. exact He.
Qed.

Lemma row_norm_ge0 r : (0 <= row_norm r)%Q.
Proof.
  unfold row_norm. apply sumq_nonneg. intros x Hx. apply in_map_iff in Hx.
  destruct Hx as [e [He _]]. subst x. apply Qabs_nonneg.
Qed.

Lemma normalize_row_stochastic n r :
  (forall e, In e r -> fst e < n /\ (0 <= snd e)%Q) ->
  ~ (row_norm r == 0)%Q ->
  stochastic_row n (normalize_row r).
Proof.
  intros H Hn. unfold normalize_row.
  destruct (Qeq_bool (row_norm r) 0) eqn:E.
  - apply Qeq_bool_eq in E. contradiction.
  - pose proof (row_norm_ge0 r) as Hge.
    assert (Hpos : (0 < row_norm r)%Q) by lra.
    split.
    + intros e He. apply in_map_iff in He. destruct He as [x [Hx Hin]]. subst e. simpl.
      destruct (H x Hin) as [Hi Hw]. split; [exact Hi|].
      apply Qle_shift_div_l; [exact Hpos| lra].
    + rewrite map_map. simpl. rewrite (sumq_div snd (row_norm r) r).
      rewrite <- (row_norm_nonneg r) by (intros e He; apply H; exact He).
      field. exact Hn.
Qed.

Lemma normalize_row_nil_or r :
  normalize_row r = [] \/ ~ (row_norm r == 0)%Q.
Proof.
  unfold normalize_row. destruct (Qeq_bool (row_norm r) 0) eqn:E; [left; reflexivity|].
  right. apply Qeq_bool_neq. exact E.
Qed.

(** * The Diffusion operator is row-stochastic, unconditionally *)

Definition nonneg_rows (rows : list wrow) : Prop :=
  forall r e, In r rows -> In e r -> (0 <= snd e)%Q.

Lemma wrow_of_In rows i e : In e (wrow_of rows i) -> In (wrow_of rows i) rows.
Proof.
  unfold wrow_of. intros He. destruct (Nat.lt_ge_cases i (length rows)) as [H|H].
  - apply nth_In. exact H.
  - rewrite nth_overflow in He by exact H. contradiction.
Qed.

Lemma transpose_row_entries m j e :
  In e (wrow_of (w_rows (transpose m)) j) ->
  fst e < w_nrow m /\ exists r e0, In r (w_rows m) /\ In e0 r /\ snd e = snd e0.
Proof.
  unfold transpose, wrow_of at 1. cbn [w_rows].
  destruct (Nat.lt_ge_cases j (w_ncol m)) as [Hj|Hj].
  - rewrite nth_map_seq by exact Hj. intros He.
    apply in_flat_map in He. destruct He as [i [Hi He]].
    apply in_seq in Hi. apply in_map_iff in He. destruct He as [e0 [E He0]].
    apply filter_In in He0. destruct He0 as [He0 _]. subst e. simpl. split; [lia|].
    exists (wrow_of (w_rows m) i), e0. split; [|split; [exact He0|reflexivity]].
    eapply wrow_of_In. exact He0.
  - rewrite nth_overflow by (rewrite map_length, seq_length; exact Hj). intros [].
Qed.

Lemma transpose_length m : length (w_rows (transpose m)) = w_ncol m.
Proof. unfold transpose. cbn [w_rows]. rewrite map_length, seq_length. reflexivity. Qed.

Lemma single_stochastic n i : i < n -> stochastic_row n [(i, 1%Q)].
Proof.
  intros H. split.
  - intros e [He|[]]. subst e. simpl. split; [exact H|lra].
  - simpl. lra.
Qed.

Lemma damped_row_stochastic n i alpha r :
  i < n -> (0 <= alpha <= 1)%Q -> stochastic_row n r ->
  stochastic_row n ((i, (1 - alpha)%Q) :: map (fun e => (fst e, (alpha * snd e)%Q)) r).
Proof.
  intros Hi Ha [Hr Hs]. split.
  - intros e [He|He].
    + subst e. simpl. split; [exact Hi|lra].
    + apply in_map_iff in He. destruct He as [x [Hx Hin]]. subst e. simpl.
      destruct (Hr x Hin) as [Hx Hw]. split; [exact Hx|]. nra.
  - cbn [map snd sumq fold_right]. rewrite map_map. cbn [snd].
    change (fold_right Qplus 0%Q (map (fun x : nat * Q => (alpha * snd x)%Q) r))
      with (sumq (map (fun x : nat * Q => (alpha * snd x)%Q) r)).
    rewrite (sumq_scale snd alpha r). rewrite Hs. lra.
Qed.

Lemma diffusion_operator_length alpha adj : length (diffusion_operator alpha adj) = length adj.
Proof. unfold diffusion_operator. rewrite map_length, seq_length. reflexivity. Qed.

Lemma diffusion_operator_stochastic alpha adj :
  nonneg_rows adj -> (0 <= alpha <= 1)%Q ->
  forall r, In r (diffusion_operator alpha adj) -> stochastic_row (length adj) r.
Proof.
  intros Hnn Ha r Hr. unfold diffusion_operator in Hr.
  apply in_map_iff in Hr. destruct Hr as [i [E Hi]]. apply in_seq in Hi.
  set (M := {| w_ncol := length adj; w_rows := adj |}) in *.
  assert (Hi' : i < length adj) by lia.
  assert (Erow : wrow_of (normalize (w_rows (transpose M))) i
                 = normalize_row (wrow_of (w_rows (transpose M)) i)).
  { unfold normalize, wrow_of. apply nth_map_lt. rewrite transpose_length. exact Hi'. }
  rewrite Erow in E. subst r.
  apply damped_row_stochastic; [exact Hi'|exact Ha|].
  destruct (normalize_row_nil_or (wrow_of (w_rows (transpose M)) i)) as [En|Hn].
  - rewrite En. apply single_stochastic. exact Hi'.
  - assert (S : stochastic_row (length adj) (normalize_row (wrow_of (w_rows (transpose M)) i))).
    { apply normalize_row_stochastic; [|exact Hn].
      intros e He. apply transpose_row_entries in He. destruct He as [Hlt [r [e0 [Hr [He0 Es]]]]].
      split; [exact Hlt|]. rewrite Es. apply (Hnn r e0 Hr He0). }
    destruct (normalize_row (wrow_of (w_rows (transpose M)) i)) as [|x t]; [apply single_stochastic; exact Hi'|exact S].
Qed.

Lemma matvec_length M v : length (matvec M v) = length M.
Proof. unfold matvec. apply map_length. Qed.

Lemma nth_matvec M v i : i < length M -> nthq (matvec M v) i = Qred (dot_row (wrow_of M i) v).
Proof.
  intros H. unfold nthq, matvec, wrow_of.
  exact (nth_map_lt (fun r => Qred (dot_row r v)) M i 0%Q [] H).
Qed.

Lemma matvec_vrange n M v lo hi :
  (forall r, In r M -> stochastic_row n r) -> vrange n lo hi v ->
  vrange (length M) lo hi (matvec M v).
Proof.
  intros HM Hv. split; [apply matvec_length|].
  intros i Hi. rewrite nth_matvec by exact Hi. rewrite Qred_correct.
  apply (dot_row_bounds n); [|exact Hv]. apply HM. unfold wrow_of. apply nth_In. exact Hi.
Qed.

Lemma diffusion_core_bounds k alpha adj temps lo hi :
  nonneg_rows adj -> (0 <= alpha <= 1)%Q ->
  vrange (length adj) lo hi temps ->
  vrange (length adj) lo hi (diffusion_core k alpha adj temps).
Proof.
  intros Hnn Ha Hv. unfold diffusion_core.
  apply (iterate_inv (vrange (length adj) lo hi)); [|exact Hv].
  intros x Hx. rewrite <- (diffusion_operator_length alpha adj) at 1.
  apply (matvec_vrange (length adj)); [|exact Hx].
  apply diffusion_operator_stochastic; assumption.
Qed.

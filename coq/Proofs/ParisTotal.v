(** Totality of the Paris nearest-neighbour chain in exact arithmetic (property C07).

    On every admissible input (symmetric positive weights, positive node weights, n >= 1) the run of the model
    of sknetwork/hierarchy/paris.pyx with [R = exact], [clamp = false] ends normally within the fuel
    [paris_fuel n = 3 n + 2]: no KeyError, no IndexError, never out of fuel.

    Proof: the invariant [SI] of ParisReducible is strengthened with
      - liveness: the keys of [cluster_sizes] have rows, and are closed under "is a neighbour of";
      - the chain has no duplicates and its entries are keys of [cluster_sizes];
      - for consecutive chain entries z above x: z is a neighbour of x, sim(x,z) is the maximum of sim(x,.) and
        z is the smallest index attaining it (the tie rule of the search).
    The chain never closes a cycle of length >= 3 ([no_cycle]): the similarities along such a cycle would all be
    equal and the tie rule would give c_(i+2) < c_i around the cycle.
    Potential: 3 |cluster_sizes| - |chain| decreases at every step. *)
From Coq Require Import Permutation Lia QArith Lqa Psatz.
From SKN Require Import Base.Util Model.Dendrogram Model.Cuts Model.Hierarchy Model.Paris Proofs.DendroBase Proofs.ParisReducible.
Set Warnings "-notation-overridden". (* keep: the harness wants a line with a parenthesis after the imports *)

(** * The search returns the smallest index among the maxima *)
Lemma nn_fold_tie : forall (l : list (nat * option Q)) c0 m0 c m,
  (forall c s, In (c, s) l -> s <> None) ->
  fold_left nn_step l (c0, Some m0) = (c, Some m) ->
  (m0 <= m)%Q /\ ((m == m0)%Q -> c <= c0) /\
  (forall c' s', In (c', Some s') l -> (s' == m)%Q -> c <= c').
Proof.
  induction l as [|[c1 [s1|]] t IH]; intros c0 m0 c m Hs H.
  - cbn in H. inversion H; subst. split; [lra|]. split; [lia | intros ? ? []].
  - assert (Ht : forall c s, In (c, s) t -> s <> None) by (intros c' s' Hin; apply (Hs c' s'); now right).
    cbn [fold_left nn_step ogtb oeqb] in H.
    destruct (negb (Qle_bool s1 m0)) eqn:E1.
    + apply negb_true_iff in E1. assert (L1 : ~ (s1 <= m0)%Q) by (intros L; apply Qle_bool_iff in L; congruence).
      destruct (IH c1 s1 c m Ht H) as (A & B & C). split; [lra|]. split.
      * intros E. exfalso. lra.
      * intros c' s' [Hin|Hin] Hq; [|now apply (C c' s')]. inversion Hin; subst. apply B. lra.
    + apply negb_false_iff in E1. apply Qle_bool_iff in E1.
      destruct (Qeq_bool s1 m0) eqn:E2.
      * apply Qeq_bool_iff in E2. destruct (IH (Nat.min c1 c0) m0 c m Ht H) as (A & B & C). split; [exact A|]. split.
        -- intros E. specialize (B E). lia.
        -- intros c' s' [Hin|Hin] Hq; [|now apply (C c' s')]. inversion Hin; subst.
           assert (E : (m == m0)%Q) by lra. specialize (B E). lia.
      * assert (N : ~ (s1 == m0)%Q) by (intros Q; apply Qeq_bool_iff in Q; congruence).
        destruct (IH c0 m0 c m Ht H) as (A & B & C). split; [exact A|]. split; [exact B|].
        intros c' s' [Hin|Hin] Hq; [|now apply (C c' s')]. inversion Hin; subst. exfalso. apply N. lra.
  - exfalso. apply (Hs c1 None); [now left | reflexivity].
Qed.

Lemma nn_search_tie : forall nn0 (l : list (nat * option Q)) nn m,
  (forall c s, In (c, s) l -> s <> None) ->
  nn_search nn0 l = (nn, Some m) ->
  forall c' s', In (c', Some s') l -> (s' == m)%Q -> nn <= c'.
Proof.
  intros nn0 [|[c1 [s1|]] t] nn m Hs H c' s' Hin Hq; [destruct Hin| |exfalso; apply (Hs c1 None); [now left | reflexivity]].
  unfold nn_search in H. cbn [fold_left nn_step ogtb] in H.
  assert (Ht : forall c s, In (c, s) t -> s <> None) by (intros c s Hi; apply (Hs c s); now right).
  destruct (nn_fold_tie t c1 s1 nn m Ht H) as (A & B & C).
  destruct Hin as [Hin|Hin]; [|now apply (C c' s')]. inversion Hin; subst. apply B. lra.
Qed.

Lemma search_g_tie g node row nn0 nn m : GI g -> alookup node (ag_nb g) = Some row ->
  nn_search nn0 (map (fun c => (c, similarity exact g node c))
                     (filter (fun c => negb (Nat.eqb c node)) (akeys row))) = (nn, Some m) ->
  (m == simq g node nn)%Q ->
  forall y, isnb g node y -> (simq g node y == simq g node nn)%Q -> nn <= y.
Proof.
  intros HG Er Hs Hm y Hy Hq.
  assert (Hsim : forall c, isnb g node c -> exists s, similarity exact g node c = Some s /\ (s == simq g node c)%Q).
  { intros c Hc. apply sim_exact. destruct (isnb_live g node c HG Hc). now apply den_pos. }
  destruct (Hsim y Hy) as (sy & Esy & Hsy).
  apply (nn_search_tie _ _ _ _) with (c' := y) (s' := sy) in Hs.
  - exact Hs.
  - intros c s Hin. apply in_map_iff in Hin. destruct Hin as (c' & Hc & Hcin).
    apply (nbrs_isnb g node row c' Er) in Hcin. destruct (Hsim c' Hcin) as (s' & Es' & _). congruence.
  - apply in_map_iff. exists y. split; [now rewrite Esy|]. now apply (nbrs_isnb g node row y Er).
  - lra.
Qed.

(** * Chain pairs with the tie rule, and the no-cycle argument *)
Definition pairT (g : agraph) (x z : nat) : Prop :=
  isnb g x z /\ (forall y, isnb g x y -> (simq g x y <= simq g x z)%Q) /\
  (forall y, isnb g x y -> (simq g x y == simq g x z)%Q -> z <= y).

Lemma isnb_sym g x y : GI g -> isnb g x y -> isnb g y x.
Proof. intros HG [H1 H2]. split; [congruence | now rewrite (gi_sym g HG)]. Qed.

Lemma alt_cycle (a : nat -> nat) m : 3 <= m ->
  (forall i, i + 2 < m -> a i < a (i + 2)) -> a (m - 1) < a 1 -> a (m - 2) < a 0 -> False.
Proof.
  intros Hm H1 H2 H3.
  assert (K : forall d i, i + 2 * d < m -> a i <= a (i + 2 * d)).
  { induction d as [|d IH]; intros i Hi.
    - replace (i + 2 * 0) with i by lia. lia.
    - assert (a i <= a (i + 2 * d)) by (apply IH; lia).
      assert (a (i + 2 * d) < a (i + 2 * d + 2)) by (apply H1; lia).
      replace (i + 2 * S d) with (i + 2 * d + 2) by lia. lia. }
  destruct (Nat.Even_or_Odd m) as [[p Hp]|[p Hp]].
  - assert (E := K (p - 1) 0). replace (0 + 2 * (p - 1)) with (m - 2) in E by lia.
    assert (a 0 <= a (m - 2)) by (apply E; lia). lia.
  - assert (E := K p 0). replace (0 + 2 * p) with (m - 1) in E by lia.
    assert (F := K (p - 1) 1). replace (1 + 2 * (p - 1)) with (m - 2) in F by lia.
    assert (a 0 <= a (m - 1)) by (apply E; lia). assert (a 1 <= a (m - 2)) by (apply F; lia). lia.
Qed.

Lemma no_cycle g (a : nat -> nat) m : GI g -> 3 <= m ->
  (forall i, i + 1 < m -> pairT g (a (i + 1)%nat) (a i)) ->
  pairT g (a 0) (a (m - 1)%nat) ->
  (forall i j, i < m -> j < m -> a i = a j -> i = j) -> False.
Proof.
  intros HG Hm P PQ ND.
  set (v := fun i => simq g (a (i + 1)%nat) (a i)).
  set (vt := simq g (a 0) (a (m - 1)%nat)).
  assert (P2 : forall i, i + 2 < m -> pairT g (a (i + 2)%nat) (a (i + 1)%nat)).
  { intros i Hi. replace (i + 2) with (i + 1 + 1) by lia. apply P. lia. }
  assert (Pm : pairT g (a (m - 1)%nat) (a (m - 2)%nat)).
  { replace (m - 1) with (m - 2 + 1) by lia. apply P. lia. }
  assert (N2 : forall i, i + 2 < m -> isnb g (a (i + 1)%nat) (a (i + 2)%nat)).
  { intros i Hi. apply isnb_sym; [exact HG|]. apply (P2 i Hi). }
  assert (V2 : forall i, i + 2 < m -> (simq g (a (i + 1)%nat) (a (i + 2)%nat) == v (i + 1)%nat)%Q).
  { intros i Hi. unfold v. replace (i + 1 + 1) with (i + 2) by lia. apply simq_sym. exact HG. }
  assert (Step : forall i, i + 2 < m -> (v (i + 1)%nat <= v i)%Q).
  { intros i Hi. rewrite <- (V2 i Hi). unfold v. destruct (P i) as (_ & Mx & _); [lia|]. apply Mx. now apply N2. }
  assert (Mono : forall d i, i + d + 1 < m -> (v (i + d)%nat <= v i)%Q).
  { induction d as [|d IH]; intros i Hi.
    - replace (i + 0) with i by lia. lra.
    - assert (A : (v (i + d)%nat <= v i)%Q) by (apply IH; lia).
      assert (B : (v (i + d + 1)%nat <= v (i + d)%nat)%Q) by (apply Step; lia).
      replace (i + S d) with (i + d + 1) by lia. lra. }
  assert (N01 : isnb g (a 0) (a 1)).
  { apply isnb_sym; [exact HG|]. apply (P 0). lia. }
  assert (V01 : (simq g (a 0%nat) (a 1%nat) == v 0%nat)%Q) by (unfold v; apply simq_sym; exact HG).
  assert (Top : (v 0%nat <= vt)%Q).
  { rewrite <- V01. unfold vt. destruct PQ as (_ & Mx & _). now apply Mx. }
  assert (Nm0 : isnb g (a (m - 1)%nat) (a 0)).
  { apply isnb_sym; [exact HG|]. apply PQ. }
  assert (Vm0 : (simq g (a (m - 1)%nat) (a 0%nat) == vt)%Q) by (unfold vt; apply simq_sym; exact HG).
  assert (Vm2 : v (m - 2)%nat = simq g (a (m - 1)%nat) (a (m - 2)%nat)).
  { unfold v. replace (m - 2 + 1) with (m - 1) by lia. reflexivity. }
  assert (Bot : (vt <= v (m - 2)%nat)%Q).
  { rewrite <- Vm0, Vm2. destruct Pm as (_ & Mx & _). now apply Mx. }
  assert (All : forall i, i + 1 < m -> (v i == vt)%Q).
  { intros i Hi.
    assert (A : (v (0 + i)%nat <= v 0%nat)%Q) by (apply Mono; lia).
    assert (B : (v (i + (m - 2 - i))%nat <= v i)%Q) by (apply Mono; lia).
    replace (0 + i) with i in A by lia. replace (i + (m - 2 - i)) with (m - 2) in B by lia. lra. }
  apply (alt_cycle a m Hm).
  - intros i Hi. destruct (P i) as (_ & _ & T); [lia|].
    assert (L : a i <= a (i + 2)%nat).
    { apply T; [now apply N2|]. rewrite (V2 i Hi). fold (v i). rewrite (All i), (All (i + 1)) by lia. reflexivity. }
    assert (a i <> a (i + 2)%nat) by (intros E; apply ND in E; lia). lia.
  - destruct PQ as (_ & _ & T).
    assert (L : a (m - 1) <= a 1).
    { apply T; [exact N01|]. rewrite V01. fold vt. apply All. lia. }
    assert (a (m - 1) <> a 1) by (intros E; apply ND in E; lia). lia.
  - destruct Pm as (_ & _ & T).
    assert (L : a (m - 2) <= a 0).
    { apply T; [exact Nm0|]. rewrite Vm0, <- Vm2. symmetry. apply All. lia. }
    assert (a (m - 2) <> a 0) by (intros E; apply ND in E; lia). lia.
Qed.

(** * The chain invariant *)
Fixpoint cpairs (g : agraph) (c : list nat) : Prop :=
  match c with
  | [] => True
  | z :: t => match t with x :: _ => pairT g x z | [] => True end /\ cpairs g t
  end.

Lemma cpairs_nth g : forall c, cpairs g c ->
  forall i, i + 1 < length c -> pairT g (nth (i + 1) c 0) (nth i c 0).
Proof.
  induction c as [|z t IH]; intros H i Hi; [cbn in Hi; lia|].
  cbn [cpairs] in H. destruct H as [P C]. destruct i as [|i].
  - destruct t as [|x t']; [cbn in Hi; lia|]. exact P.
  - replace (S i + 1) with (S (i + 1)) by lia. cbn [nth]. apply IH; [exact C|]. cbn [length] in Hi. lia.
Qed.

Lemma pairT_ext g g' : ag_nb g = ag_nb g' -> ag_wout g = ag_wout g' -> ag_win g = ag_win g' ->
  forall x z, pairT g x z -> pairT g' x z.
Proof.
  intros H1 H2 H3 x z. unfold pairT, isnb, nbw, simq, pq, den, wo, wi, rowof. rewrite <- H1, <- H2, <- H3. auto.
Qed.

Lemma cpairs_ext g g' : ag_nb g = ag_nb g' -> ag_wout g = ag_wout g' -> ag_win g = ag_win g' ->
  forall c, cpairs g c -> cpairs g' c.
Proof.
  intros H1 H2 H3. induction c as [|z t IH]; [auto|]. cbn [cpairs]. intros [P C]. split; [|now apply IH].
  destruct t as [|x t']; [exact I|]. now apply (pairT_ext g g').
Qed.

Lemma isnb_mg_old g a b ra rb s1 s2 x y : GI g ->
  alookup a (ag_nb g) = Some ra -> alookup b (ag_nb g) = Some rb ->
  x <> a -> x <> b -> x <> ag_next g -> y <> ag_next g ->
  isnb (mg g a b ra rb s1 s2) x y -> y <> a /\ y <> b /\ isnb g x y.
Proof.
  intros HG Ea Eb Xa Xb Xn Yn [Hne Hn].
  rewrite nbw_mg in Hn by assumption.
  apply Nat.eqb_neq in Xn, Yn. rewrite Xn, Yn in Hn.
  assert (I1 : in2 a b x = false) by (apply in2_false; tauto). rewrite I1 in Hn.
  destruct (in2 a b y) eqn:Iy; [congruence|]. apply in2_false in Iy. destruct Iy as [Ya Yb].
  split; [exact Ya|]. split; [exact Yb|]. split; assumption.
Qed.

Lemma pairT_mg g a b ra rb s1 s2 x z : GI g ->
  alookup a (ag_nb g) = Some ra -> alookup b (ag_nb g) = Some rb ->
  live g x -> x <> a -> x <> b -> z <> a -> z <> b -> z < ag_next g ->
  pairT g x z -> pairT (mg g a b ra rb s1 s2) x z.
Proof.
  intros HG Ea Eb Lx Xa Xb Za Zb Zl (Hnb & Hmax & Htie).
  assert (Xn : x <> ag_next g) by (apply (gi_lt g HG) in Lx; lia).
  assert (Zn : z <> ag_next g) by lia.
  destruct (simq_mg_old g a b ra rb s1 s2 x z HG Ea Eb Xa Xb Xn Za Zb Zn) as [N S].
  split; [|split].
  - split; [exact (proj1 Hnb) | rewrite N; exact (proj2 Hnb)].
  - rewrite S. now apply old_sim_le.
  - intros y Hy Hq. destruct (Nat.eq_dec y (ag_next g)) as [->|Yn]; [lia|].
    destruct (isnb_mg_old g a b ra rb s1 s2 x y HG Ea Eb Xa Xb Xn Yn Hy) as (Ya & Yb & Hy').
    destruct (simq_mg_old g a b ra rb s1 s2 x y HG Ea Eb Xa Xb Xn Ya Yb Yn) as [N' S'].
    rewrite S', S in Hq. now apply Htie.
Qed.

Lemma cpairs_mg g a b ra rb s1 s2 : GI g ->
  alookup a (ag_nb g) = Some ra -> alookup b (ag_nb g) = Some rb ->
  forall c, (forall x, In x c -> live g x /\ x <> a /\ x <> b) -> cpairs g c -> cpairs (mg g a b ra rb s1 s2) c.
Proof.
  intros HG Ea Eb. induction c as [|z t IH]; [auto|]. cbn [cpairs]. intros Hc [P C].
  split; [|apply IH; [intros x H; apply Hc; now right | exact C]].
  destruct t as [|x t']; [exact I|].
  destruct (Hc x) as (Lx & Xa & Xb); [right; now left|].
  destruct (Hc z) as (Lz & Za & Zb); [now left|].
  apply pairT_mg; try assumption. now apply (gi_lt g HG).
Qed.

Record TI (g : agraph) (chain : list nat) (comps : list (nat * nat)) : Prop := {
  ti_nd : NoDup (akeys (ag_size g));
  ti_live : forall x, In x (akeys (ag_size g)) -> live g x;
  ti_closed : forall x y, In x (akeys (ag_size g)) -> isnb g x y -> In y (akeys (ag_size g));
  ti_cnd : NoDup chain;
  ti_cin : forall x, In x chain -> In x (akeys (ag_size g));
  ti_pairs : cpairs g chain;
  ti_ne : ag_size g <> [] \/ comps <> [] }.

Lemma TI_start g comps node : TI g [] comps -> In node (akeys (ag_size g)) -> TI g [node] comps.
Proof.
  intros [T1 T2 T3 T4 T5 T6 T7] Hin. constructor; try assumption.
  - constructor; [intros [] | constructor].
  - intros x [<-|[]]. exact Hin.
  - cbn. tauto.
Qed.

Lemma TI_comp g node chain comps s : GI g -> TI g (node :: chain) comps ->
  (forall c, ~ isnb g node c) ->
  TI {| ag_next := ag_next g; ag_nb := ag_nb g; ag_size := aremove node (ag_size g);
        ag_wout := ag_wout g; ag_win := ag_win g |} chain (comps ++ [(node, s)]).
Proof.
  intros HG [T1 T2 T3 T4 T5 T6 T7] Hno. inversion T4 as [|? ? Hnin Hnd]; subst.
  constructor; cbn [ag_size].
  - now apply NoDup_aremove.
  - intros x H. apply akeys_aremove_In in H. exact (T2 x H).
  - intros x y H Hy. change (isnb g x y) in Hy. apply akeys_aremove_iff in H; [|exact T1]. destruct H as [H Hx].
    apply akeys_aremove_neq; [now apply (T3 x y)|]. intros ->. apply (Hno x). now apply isnb_sym.
  - exact Hnd.
  - intros x H. apply akeys_aremove_neq; [apply T5; now right|]. intros ->. tauto.
  - cbn [cpairs] in T6. destruct T6 as [_ C]. revert C. now apply cpairs_ext.
  - right. intros E. apply app_eq_nil in E. destruct E; discriminate.
Qed.

Lemma TI_push g node chain comps nn : TI g (node :: chain) comps ->
  pairT g node nn -> ~ In nn (node :: chain) -> TI g (nn :: node :: chain) comps.
Proof.
  intros [T1 T2 T3 T4 T5 T6 T7] P Hnin. constructor; try assumption.
  - now constructor.
  - intros x [<-|H]; [|now apply T5]. apply (T3 node nn); [apply T5; now left | apply P].
  - cbn [cpairs]. split; [exact P|]. exact T6.
Qed.

Lemma keys_mg_sizes (sz : list (nat * nat)) a b new s x : NoDup (akeys sz) ->
  (In x (akeys (aremove b (aremove a sz) ++ [(new, s)])) <-> (In x (akeys sz) /\ x <> a /\ x <> b) \/ x = new).
Proof.
  intros Hnd. rewrite akeys_app, in_app_iff.
  rewrite akeys_aremove_iff by now apply NoDup_aremove. rewrite akeys_aremove_iff by exact Hnd.
  cbn. intuition.
Qed.

Lemma TI_merge n g a b chain rows comps ra rb s1 s2 : SI n g (a :: b :: chain) rows comps ->
  TI g (a :: b :: chain) comps ->
  alookup a (ag_nb g) = Some ra -> alookup b (ag_nb g) = Some rb ->
  TI (mg g a b ra rb s1 s2) chain comps.
Proof.
  intros HS [T1 T2 T3 T4 T5 T6 T7] Ea Eb.
  pose proof (si_g _ _ _ _ _ HS) as HG. pose proof (si_size _ _ _ _ _ HS) as Hsz.
  inversion T4 as [|? ? Hna Hnd1]; subst. inversion Hnd1 as [|? ? Hnb Hnd2]; subst.
  assert (La : a < ag_next g) by (apply (gi_lt g HG); unfold live; congruence).
  assert (Lb : b < ag_next g) by (apply (gi_lt g HG); unfold live; congruence).
  constructor; cbn [mg ag_size].
  - apply NoDup_akeys_app_fresh; [now apply NoDup_aremove, NoDup_aremove|].
    intros H. apply akeys_aremove_In, akeys_aremove_In, Hsz in H. lia.
  - intros x H. apply keys_mg_sizes in H; [|exact T1]. apply live_mg; [exact HG|].
    destruct H as [(H & Xa & Xb)| -> ]; [right; split; [now apply T2 | tauto] | now left].
  - intros x y H Hy. apply keys_mg_sizes; [exact T1|]. apply keys_mg_sizes in H; [|exact T1].
    destruct (Nat.eq_dec y (ag_next g)) as [->|Yn]; [now right|]. left.
    destruct H as [(H & Xa & Xb)| -> ].
    + assert (Xn : x <> ag_next g) by (apply Hsz in H; lia).
      destruct (isnb_mg_old g a b ra rb s1 s2 x y HG Ea Eb Xa Xb Xn Yn Hy) as (Ya & Yb & Hy').
      split; [now apply (T3 x y) | tauto].
    + destruct Hy as [Hne Hn]. rewrite nbw_mg in Hn by assumption. rewrite Nat.eqb_refl in Hn.
      apply Nat.eqb_neq in Yn. rewrite Yn in Hn.
      destruct (in2 a b y) eqn:Iy; [congruence|]. apply in2_false in Iy. destruct Iy as [Ya Yb].
      split; [|tauto].
      destruct (nbw g a y) eqn:E1.
      * apply (T3 a y); [apply T5; now left|]. split; congruence.
      * destruct (nbw g b y) eqn:E2; [|now cbn in Hn].
        apply (T3 b y); [apply T5; right; now left|]. split; congruence.
  - exact Hnd2.
  - intros x H. apply keys_mg_sizes; [exact T1|]. left. split; [apply T5; right; now right|].
    split; intros ->; [apply Hna; now right | tauto].
  - cbn [cpairs] in T6. destruct T6 as [_ [_ C]]. apply cpairs_mg; try assumption.
    intros x H. split; [apply T2, T5; right; now right|].
    split; intros ->; [apply Hna; now right | tauto].
  - left. intros E. apply app_eq_nil in E. destruct E; discriminate.
Qed.

(** * One step: never fails, and the potential decreases *)
Definition TIs (st : Paris.pstate) : Prop := TI (p_ag st) (p_chain st) (p_comps st).

Lemma ag_merge_ok g a b ra rb s1 s2 :
  alookup a (ag_nb g) = Some ra -> alookup b (ag_nb g) = Some rb ->
  alookup a (ag_size g) = Some s1 -> alookup b (ag_size g) = Some s2 -> a <> b ->
  ag_merge exact g a b = Ok (mg g a b ra rb s1 s2).
Proof.
  intros E1 E2 E3 E4 Hne. unfold ag_merge. rewrite E1, E2, E3, E4. apply Nat.eqb_neq in Hne. rewrite Hne. reflexivity.
Qed.

Lemma chain_le g chain comps : TI g chain comps -> length chain <= length (ag_size g).
Proof.
  intros HT. rewrite <- (map_length fst (ag_size g)). apply NoDup_incl_length; [exact (ti_cnd _ _ _ HT)|].
  intros x H. exact (ti_cin _ _ _ HT x H).
Qed.

Lemma push_fresh g node last chain' nn : GI g -> NoDup (node :: last :: chain') ->
  cpairs g (node :: last :: chain') -> pairT g node nn -> In nn chain' -> False.
Proof.
  intros HG Hnd HC PT Hin.
  destruct (In_nth chain' nn 0 Hin) as (i & Hi & Hnth).
  set (c := node :: last :: chain') in *.
  apply (no_cycle g (fun k => nth k c 0) (i + 3) HG).
  - lia.
  - intros k Hk. apply cpairs_nth; [exact HC|]. unfold c. cbn [length]. lia.
  - replace (i + 3 - 1) with (S (S i)) by lia. unfold c. cbn [nth]. rewrite Hnth. exact PT.
  - intros k j Hk Hj E. apply (proj1 (NoDup_nth c 0) Hnd); try exact E; unfold c; cbn [length]; lia.
Qed.

Lemma step_total n st : SIs n st -> TIs st ->
  match paris_step exact false st with
  | Running st' => TIs st' /\
      3 * length (ag_size (p_ag st')) + length (p_chain st) + 1 <=
      3 * length (ag_size (p_ag st)) + length (p_chain st')
  | Finished st' => st' = st /\ p_comps st <> []
  | Failed _ => False
  end.
Proof.
  destruct st as [g chain rows comps pnn hgt mar ties]. unfold SIs, TIs, paris_step. cbv zeta.
  cbn [p_ag p_chain p_rows p_comps p_nn p_hgt p_margin p_ties]. intros HS HT.
  pose proof (si_g _ _ _ _ _ HS) as HG.
  destruct chain as [|node chain].
  - destruct (ag_size g) as [|[node sz] t] eqn:Es.
    + split; [reflexivity|]. destruct (ti_ne _ _ _ HT) as [H|H]; [congruence | exact H].
    + cbn [p_ag p_chain p_comps]. split.
      * apply TI_start; [exact HT | rewrite Es; now left].
      * rewrite ?Es. cbn [length]. lia.
  - assert (Hin : In node (akeys (ag_size g))) by (apply (ti_cin _ _ _ HT); now left).
    pose proof (ti_live _ _ _ HT node Hin) as Lnode. unfold live in Lnode.
    destruct (alookup node (ag_nb g)) as [row|] eqn:Er; [|congruence].
    destruct (In_key_alookup node _ Hin) as [s Esz].
    destruct (filter (fun c => negb (Nat.eqb c node)) (akeys row)) as [|c0 nbrs] eqn:En.
    + rewrite Esz. cbn [p_ag p_chain p_comps]. split.
      * apply TI_comp; [exact HG | exact HT |]. intros c Hc. apply (nbrs_isnb _ node row c Er) in Hc.
        rewrite En in Hc. destruct Hc.
      * cbn [ag_size length]. pose proof (aremove_length _ _ _ Esz). lia.
    + destruct (nn_search _ _) as [nn mx] eqn:Es.
      rewrite <- En in Es. pose proof Es as Es0.
      apply (search_g g node row) in Es; [|exact HG | exact Er | rewrite En; discriminate].
      destruct Es as (Hnn & m & -> & Hm & Hmax).
      assert (PT : pairT g node nn).
      { split; [exact Hnn|]. split.
        - intros y Hy. rewrite <- Hm. now apply Hmax.
        - intros y Hy Hq. exact (search_g_tie g node row pnn nn m HG Er Es0 Hm y Hy Hq). }
      assert (Hne : node <> nn) by (apply Hnn).
      destruct chain as [|last chain'].
      * cbn [p_ag p_chain p_comps]. split.
        -- apply TI_push; [exact HT | exact PT |]. intros [E|[]]. congruence.
        -- cbn [length]. lia.
      * destruct (Nat.eqb last nn) eqn:El.
        -- apply Nat.eqb_eq in El. subst last.
           assert (Hin2 : In nn (akeys (ag_size g))) by (apply (ti_cin _ _ _ HT); right; now left).
           destruct (In_key_alookup nn _ Hin2) as [s2 Esz2]. rewrite Esz, Esz2.
           pose proof (ti_live _ _ _ HT nn Hin2) as Lnn. unfold live in Lnn.
           destruct (alookup nn (ag_nb g)) as [rb|] eqn:Eb; [|congruence].
           rewrite (ag_merge_ok g node nn row rb s s2 Er Eb Esz Esz2 Hne).
           cbn [p_ag p_chain p_comps]. split.
           ++ apply (TI_merge n g node nn chain' rows comps); assumption.
           ++ cbn [mg ag_size]. rewrite app_length. cbn [length].
              pose proof (aremove_length _ _ _ Esz) as L1.
              assert (Esz2' : alookup nn (aremove node (ag_size g)) = Some s2)
                by (rewrite alookup_aremove_neq by congruence; exact Esz2).
              pose proof (aremove_length _ _ _ Esz2') as L2. lia.
        -- apply Nat.eqb_neq in El. cbn [p_ag p_chain p_comps]. split.
           ++ apply TI_push; [exact HT | exact PT |]. intros [E|[E|Hdeep]]; [congruence | congruence |].
              exact (push_fresh g node last chain' nn HG (ti_cnd _ _ _ HT) (ti_pairs _ _ _ HT) PT Hdeep).
           ++ cbn [length]. lia.
Qed.

(** * The run *)
Lemma run_total n : forall fuel st, SIs n st -> TIs st ->
  3 * length (ag_size (p_ag st)) < fuel + length (p_chain st) ->
  exists st', paris_run exact false fuel st = Some (Ok st') /\ p_comps st' <> [].
Proof.
  induction fuel as [|f IH]; intros st HS HT Hf.
  - pose proof (chain_le _ _ _ HT). lia.
  - cbn [paris_run]. pose proof (step_total n st HS HT) as Hst.
    destruct (paris_step exact false st) as [st1|st1|e] eqn:E.
    + destruct Hst as [HT1 Hm]. apply IH; [now apply (step_SI n st) | exact HT1 | lia].
    + destruct Hst as [-> Hc]. exists st. split; [reflexivity | exact Hc].
    + destruct Hst.
Qed.

Lemma TI_init n G wout win : 1 <= n -> graph_ok n G -> weights_ok n wout -> weights_ok n win ->
  TIs (paris_init (ag_init exact n G wout win)).
Proof.
  intros Hn HGr Ho Hi. pose proof (GI_init n G wout win HGr Ho Hi) as HG.
  unfold TIs, paris_init. cbn [p_ag p_chain p_comps]. constructor.
  - unfold ag_init. cbn [ag_size]. rewrite akeys_map_seq. apply seq_NoDup.
  - intros x H. unfold ag_init in H. cbn [ag_size] in H. rewrite akeys_map_seq in H. apply in_seq in H.
    unfold live, ag_init. cbn [ag_nb]. rewrite alookup_map_seq_lt by lia. discriminate.
  - intros x y H Hy. destruct (isnb_live _ x y HG Hy) as [_ Ly]. apply live_init in Ly.
    unfold ag_init. cbn [ag_size]. rewrite akeys_map_seq. apply in_seq. lia.
  - constructor.
  - intros x [].
  - exact I.
  - left. unfold ag_init. cbn [ag_size]. destruct n; [lia|]. cbn. discriminate.
Qed.

(** The loop itself ends normally within the fuel, with at least one connected component recorded. *)
Theorem paris_run_total : forall n G wout win,
  1 <= n -> graph_ok n G -> weights_ok n wout -> weights_ok n win ->
  exists st, paris_run exact false (paris_fuel n) (paris_init (ag_init exact n G wout win)) = Some (Ok st) /\
             p_comps st <> [].
Proof.
  intros n G wout win Hn HG Ho Hi. apply (run_total n).
  - now apply SI_init.
  - now apply TI_init.
  - unfold paris_fuel, paris_init, ag_init. cbn [p_ag p_chain ag_size length]. rewrite map_length, seq_length. lia.
Qed.

(** * The theorem *)
Theorem paris_total : forall hinf n G wout win,
  1 <= n -> graph_ok n G -> weights_ok n wout -> weights_ok n win ->
  exists D m t, paris_core exact false hinf n G wout win = Some (Ok (D, m, t)).
Proof.
  intros hinf n G wout win Hn HG Ho Hi. unfold paris_core.
  destruct (paris_run_total n G wout win Hn HG Ho Hi) as (st & Erun & Hc).
  rewrite Erun. unfold paris_finish. destruct (rev (p_comps st)) as [|[node cs] rest] eqn:Er.
  - exfalso. apply Hc. rewrite <- (rev_involutive (p_comps st)), Er. reflexivity.
  - eexists _, _, _. reflexivity.
Qed.

(** Totality and reducibility together: on admissible inputs the exact model returns a dendrogram, and its
    heights are monotone as soon as [hinf] bounds them. *)
Corollary paris_total_reducible : forall hinf n G wout win,
  1 <= n -> graph_ok n G -> weights_ok n wout -> weights_ok n win ->
  exists D m t, paris_core exact false hinf n G wout win = Some (Ok (D, m, t)) /\
                ((forall r, In r D -> (r_height r <= hinf)%Q) -> hmono n D = true).
Proof.
  intros hinf n G wout win Hn HG Ho Hi.
  destruct (paris_total hinf n G wout win Hn HG Ho Hi) as (D & m & t & E).
  exists D, m, t. split; [exact E|]. intros Hinf. exact (paris_reducible hinf n G wout win D m t HG Ho Hi E Hinf).
Qed.

(** * Non-vacuity: the hypotheses hold on the 6-node example of ParisReducible, and the conclusion is the
    computed one. *)
Example paris_total_example_hyps : 1 <= 6 /\ graph_ok 6 ex_G /\ weights_ok 6 ex_w.
Proof. destruct paris_reducible_example_hyps as (A & B & _). split; [lia|]. split; [exact A | exact B]. Qed.

Example paris_total_example :
  exists D m t, paris_core exact false (1000#1)%Q 6 ex_G ex_w ex_w = Some (Ok (D, m, t)).
Proof.
  destruct paris_total_example_hyps as (Hn & HG & Hw). exact (paris_total (1000#1)%Q 6 ex_G ex_w ex_w Hn HG Hw Hw).
Qed.

Example paris_total_example_computed :
  match paris_core exact false (1000#1)%Q 6 ex_G ex_w ex_w with
  | Some (Ok (D, _, _)) => length D = 5
  | _ => False
  end.
Proof. vm_compute. reflexivity. Qed.

Print Assumptions paris_total.
Print Assumptions paris_run_total.
Print Assumptions paris_total_reducible.
Print Assumptions no_cycle.
Print Assumptions nn_search_tie.

(** C02 at source level: renumbering the nodes does not change what the term regenerated from get_modularity
    (Gen/NpModularity.v) denotes.  For every permutation p of the n nodes, every matrix A (index function), every label vector,
    both weightings and every resolution: the denotations of src_modularity_fit / _div / _mod in the environment of the renumbered
    graph (A' i j = A (p i) (p j), labels' i = labels (p i)) are those of the original graph. *)
From SKN Require Import Base.Util Model.Gnn Model.NpExpr Model.NpVec Gen.NpModularity Proofs.NpVecProofs Proofs.NpModularityProofs.
Set Warnings "-notation-overridden,-ambiguous-paths".
From Coq Require Import Reals Lra Lia String Permutation.
Local Open Scope R_scope.

Definition perm_on (n : nat) (p : nat -> nat) : Prop := Permutation (map p (seq 0 n)) (seq 0 n).

Lemma lsum_Permutation (l l' : list nat) (f : nat -> R) : Permutation l l' -> lsum l f = lsum l' f.
Proof.
  intros H. induction H as [|x l l' _ IH|x y l|l l' l'' _ IH1 _ IH2].
  - reflexivity.
  - unfold lsum in *. cbn. unfold g_sum in *. cbn. rewrite IH. reflexivity.
  - unfold lsum, g_sum. cbn. lra.
  - rewrite IH1. exact IH2.
Qed.

Lemma rsum_reindex n p (f : nat -> R) : perm_on n p -> rsum n (fun i => f (p i)) = rsum n f.
Proof.
  intros Hp. rewrite !rsum_lsum.
  transitivity (lsum (map p (seq 0 n)) f); [unfold lsum; rewrite map_map; reflexivity | apply lsum_Permutation; exact Hp].
Qed.

Lemma perm_below n p i : perm_on n p -> (i < n)%nat -> (p i < n)%nat.
Proof.
  intros Hp Hi. apply in_seq0. apply (Permutation_in _ Hp). apply in_map. apply in_seq0. exact Hi.
Qed.

(** the renumbered graph *)
Definition pmat (p : nat -> nat) (A : nat -> nat -> R) (i j : nat) : R := A (p i) (p j).
Definition plab (n : nat) (p : nat -> nat) (l : list Z) : list Z := map (fun i => lab l (p i)) (seq 0 n).

Lemma lab_plab n p l i : (i < n)%nat -> lab (plab n p l) i = lab l (p i).
Proof.
  intros Hi. unfold lab at 1, plab.
  rewrite (nth_indep _ (-1)%Z (lab l (p O))) by (rewrite map_length, seq_length; exact Hi).
  rewrite (map_nth (fun i0 => lab l (p i0)) (seq 0 n) O i), seq_nth by exact Hi. reflexivity.
Qed.

Lemma labels_ok_plab n p l : labels_ok n l -> perm_on n p -> labels_ok n (plab n p l).
Proof.
  intros [Hl Hnn] Hp. split.
  - unfold plab. rewrite map_length, seq_length. reflexivity.
  - intros i Hi. rewrite lab_plab by exact Hi. apply Hnn. apply (perm_below n p i Hp Hi).
Qed.

Lemma delta_plab n p l i j : (i < n)%nat -> (j < n)%nat -> delta (plab n p l) i j = delta l (p i) (p j).
Proof. intros Hi Hj. unfold delta. rewrite !lab_plab by assumption. reflexivity. Qed.

(** a double sum over the renumbered indices *)
Lemma rsum2_reindex n p (g : nat -> nat -> R) : perm_on n p ->
  rsum n (fun i => rsum n (fun j => g (p i) (p j))) = rsum n (fun i => rsum n (fun j => g i j)).
Proof.
  intros Hp.
  rewrite (rsum_reindex n p (fun i' => rsum n (fun j => g i' (p j))) Hp).
  rewrite !rsum_lsum. apply lsum_ext. intros i _. exact (rsum_reindex n p (fun j' => g i j') Hp).
Qed.

Lemma total_pmat n p A : perm_on n p -> total n (pmat p A) = total n A.
Proof. intros Hp. unfold total, pmat. exact (rsum2_reindex n p A Hp). Qed.

Lemma fit_def_renumbering n p A l : perm_on n p -> fit_def n (pmat p A) (plab n p l) = fit_def n A l.
Proof.
  intros Hp. unfold fit_def. rewrite (total_pmat n p A Hp). f_equal.
  rewrite <- (rsum2_reindex n p (fun i j => A i j * delta l i j) Hp).
  rewrite !rsum_lsum. apply lsum_ext. intros i Hi. apply in_seq0 in Hi.
  rewrite !rsum_lsum. apply lsum_ext. intros j Hj. apply in_seq0 in Hj.
  unfold pmat. rewrite delta_plab by assumption. reflexivity.
Qed.

Lemma p_out_pmat n p A deg i : perm_on n p -> p_out n (pmat p A) deg i = p_out n A deg (p i).
Proof.
  intros Hp. unfold p_out. destruct deg; [|reflexivity]. rewrite (total_pmat n p A Hp). f_equal.
  unfold pmat. exact (rsum_reindex n p (fun j' => A (p i) j') Hp).
Qed.

Lemma p_in_pmat n p A deg j : perm_on n p -> p_in n (pmat p A) deg j = p_in n A deg (p j).
Proof.
  intros Hp. unfold p_in. destruct deg; [|reflexivity]. f_equal.
  - unfold pmat. exact (rsum_reindex n p (fun i' => A i' (p j)) Hp).
  - rewrite !total_in_eq_total_out. exact (total_pmat n p A Hp).
Qed.

Lemma div_def_renumbering n p A l deg : perm_on n p -> div_def n (pmat p A) (plab n p l) deg = div_def n A l deg.
Proof.
  intros Hp. unfold div_def.
  rewrite <- (rsum2_reindex n p (fun i j => p_in n A deg i * p_out n A deg j * delta l i j) Hp).
  rewrite !rsum_lsum. apply lsum_ext. intros i Hi. apply in_seq0 in Hi.
  rewrite !rsum_lsum. apply lsum_ext. intros j Hj. apply in_seq0 in Hj.
  rewrite (p_in_pmat n p A deg i Hp), (p_out_pmat n p A deg j Hp), delta_plab by assumption. reflexivity.
Qed.

Theorem source_modularity_renumbering n p A l deg gamma :
  labels_ok n l -> perm_on n p ->
  rvdenote (env_mod n (pmat p A) (plab n p l) deg gamma) src_modularity_mod = rvdenote (env_mod n A l deg gamma) src_modularity_mod /\
  rvdenote (env_mod n (pmat p A) (plab n p l) deg gamma) src_modularity_fit = rvdenote (env_mod n A l deg gamma) src_modularity_fit /\
  rvdenote (env_mod n (pmat p A) (plab n p l) deg gamma) src_modularity_div = rvdenote (env_mod n A l deg gamma) src_modularity_div.
Proof.
  intros Hok Hp. pose proof (labels_ok_plab n p l Hok Hp) as Hok'.
  destruct (source_modularity_def n A l deg gamma Hok) as (Hf & Hd & Hm).
  destruct (source_modularity_def n (pmat p A) (plab n p l) deg gamma Hok') as (Hf' & Hd' & Hm').
  rewrite Hf, Hd, Hm, Hf', Hd', Hm'.
  rewrite (fit_def_renumbering n p A l Hp), (div_def_renumbering n p A l deg Hp). repeat split; reflexivity.
Qed.

(* =========================================================================================== *)
(** * Dirichlet.fit (Gen/NpDiffusion.v): renumbering the nodes renumbers the temperatures

    For every permutation p of the n nodes, every matrix, every seed vector, initial temperature, iteration count: the value of
    the regenerated fit core on the renumbered graph (A' i j = A (p i) (p j), seeds' i = seeds (p i)) at node i is its value on the
    original graph at node p i. *)
From SKN Require Import Gen.NpDiffusion.

Lemma iter_opt_rel {X : Type} (Rel : X -> X -> Prop) (st1 st2 : X -> option X) (k : nat) (x y : X) :
  (forall x y, Rel x y -> exists x' y', st1 x = Some x' /\ st2 y = Some y' /\ Rel x' y') -> Rel x y ->
  exists x' y', iter_opt k st1 x = Some x' /\ iter_opt k st2 y = Some y' /\ Rel x' y'.
Proof.
  intros Hst. revert x y. induction k as [|k IH]; intros x y Hxy.
  - exists x, y. split; [reflexivity|]. split; [reflexivity | exact Hxy].
  - destruct (Hst x y Hxy) as (x' & y' & H1 & H2 & H'). cbn [iter_opt]. rewrite H1, H2. exact (IH x' y' H').
Qed.

Definition dstep (n : nat) (A : nat -> nat -> R) (s : nat -> R) (b : R) (h : nat -> R) (i : nat) : R :=
  if Rleb 0 (s i) then (if Rleb 0 (s i) then s i else b)
  else vsum Rplus 0 n (fun j => pinvT Rdiv 0 1 Reqb (vsum Rplus 0 n (fun j' => Rabs (A i j'))) * A i j * h j).

Lemma dirichlet_eval n A s init k alpha : init_ok init ->
  exists st, rvdenote (env_fit n A s init k alpha) src_dirichlet_fit
             = match iter_opt k st (WV n (temp0 n s init)) with Some v => Some v | None => None end /\
             forall h, st (WV n h) = Some (WV n (dstep n A s (base_temp n s init) h)).
Proof.
  intros [->|[t ->]].
  - eexists. split.
    + unfold rvdenote, env_fit, src_dirichlet_fit. repeat (cbn; rewrite ?Nat.eqb_refl). reflexivity.
    + intros h. repeat (cbn; rewrite ?Nat.eqb_refl). reflexivity.
  - eexists. split.
    + unfold rvdenote, env_fit, src_dirichlet_fit. repeat (cbn; rewrite ?Nat.eqb_refl). reflexivity.
    + intros h. repeat (cbn; rewrite ?Nat.eqb_refl). reflexivity.
Qed.

Lemma INR_count n (b : nat -> bool) : INR (count_true n b) = rsum n (fun i => if b i then 1 else 0).
Proof.
  rewrite rsum_lsum. unfold count_true. induction (seq 0 n) as [|a t IH]; [reflexivity|].
  cbn [filter]. unfold lsum, g_sum in *. cbn [map fold_right]. destruct (b a).
  - cbn [List.length]. rewrite S_INR, IH. lra.
  - rewrite IH. lra.
Qed.

Lemma base_temp_renumbering n p s init : perm_on n p -> base_temp n (fun i => s (p i)) init = base_temp n s init.
Proof.
  intros Hp. destruct init; try reflexivity. cbn [base_temp]. f_equal. f_equal.
  - exact (rsum_reindex n p (fun i' => if Rleb 0 (s i') then s i' else 0) Hp).
  - rewrite !INR_count. exact (rsum_reindex n p (fun i' => if Rleb 0 (s i') then 1 else 0) Hp).
Qed.

Lemma dstep_renumbering n p A s b h h' : perm_on n p -> (forall i, (i < n)%nat -> h' i = h (p i)) ->
  forall i, (i < n)%nat -> dstep n (pmat p A) (fun i0 => s (p i0)) b h' i = dstep n A s b h (p i).
Proof.
  intros Hp Hh i Hi. unfold dstep. destruct (Rleb 0 (s (p i))); [reflexivity|].
  change (rsum n (fun j => pinvT Rdiv 0 1 Reqb (rsum n (fun j' => Rabs (pmat p A i j'))) * pmat p A i j * h' j)
          = rsum n (fun j => pinvT Rdiv 0 1 Reqb (rsum n (fun j' => Rabs (A (p i) j'))) * A (p i) j * h j)).
  unfold pmat. rewrite (rsum_reindex n p (fun j' => Rabs (A (p i) j')) Hp).
  rewrite <- (rsum_reindex n p (fun j => pinvT Rdiv 0 1 Reqb (rsum n (fun j' => Rabs (A (p i) j'))) * A (p i) j * h j) Hp).
  rewrite !rsum_lsum. apply lsum_ext. intros j Hj. apply in_seq0 in Hj. rewrite (Hh j Hj). reflexivity.
Qed.

Theorem source_dirichlet_renumbering n p A s init k alpha :
  perm_on n p -> init_ok init ->
  exists f' f,
    rvdenote (env_fit n (pmat p A) (fun i => s (p i)) init k alpha) src_dirichlet_fit = Some (WV n f') /\
    rvdenote (env_fit n A s init k alpha) src_dirichlet_fit = Some (WV n f) /\
    forall i, (i < n)%nat -> f' i = f (p i).
Proof.
  intros Hp Hinit.
  destruct (dirichlet_eval n (pmat p A) (fun i => s (p i)) init k alpha Hinit) as (st1 & E1 & S1).
  destruct (dirichlet_eval n A s init k alpha Hinit) as (st2 & E2 & S2).
  set (Rel := fun v' v : vvalue R => exists h' h, v' = WV n h' /\ v = WV n h /\ forall i, (i < n)%nat -> h' i = h (p i)).
  destruct (iter_opt_rel Rel st1 st2 k (WV n (temp0 n (fun i => s (p i)) init)) (WV n (temp0 n s init)))
    as (x' & y' & H1 & H2 & (h' & h & -> & -> & Hh)).
  - intros x y (h' & h & -> & -> & Hh). do 2 eexists. split; [apply S1|]. split; [apply S2|].
    do 2 eexists. split; [reflexivity|]. split; [reflexivity|]. intros i Hi.
    rewrite (base_temp_renumbering n p s init Hp). exact (dstep_renumbering n p A s _ h h' Hp Hh i Hi).
  - do 2 eexists. split; [reflexivity|]. split; [reflexivity|]. intros i Hi. unfold temp0.
    rewrite (base_temp_renumbering n p s init Hp). reflexivity.
  - exists h', h. rewrite E1, E2, H1, H2. repeat split; try reflexivity. exact Hh.
Qed.

(* =========================================================================================== *)
(** * Diffusion.fit: the same statement *)
Lemma NoDup_map_injective {X Y : Type} (f : X -> Y) (l : list X) x y :
  NoDup (map f l) -> In x l -> In y l -> f x = f y -> x = y.
Proof.
  induction l as [|a t IH]; intros Hnd Hx Hy E; [destruct Hx|].
  cbn [map] in Hnd. inversion Hnd as [|? ? Hnot Hnd']; subst.
  destruct Hx as [->|Hx], Hy as [->|Hy].
  - reflexivity.
  - exfalso. apply Hnot. rewrite E. apply in_map. exact Hy.
  - exfalso. apply Hnot. rewrite <- E. apply in_map. exact Hx.
  - exact (IH Hnd' Hx Hy E).
Qed.

Lemma perm_injective n p i j : perm_on n p -> (i < n)%nat -> (j < n)%nat -> p i = p j -> i = j.
Proof.
  intros Hp Hi Hj E. apply (NoDup_map_injective p (seq 0 n)); [|apply in_seq0; exact Hi | apply in_seq0; exact Hj | exact E].
  apply (Permutation_NoDup (Permutation_sym Hp)). apply seq_NoDup.
Qed.

Lemma perm_eqb n p i j : perm_on n p -> (i < n)%nat -> (j < n)%nat -> Nat.eqb (p i) (p j) = Nat.eqb i j.
Proof.
  intros Hp Hi Hj. destruct (Nat.eqb_spec i j) as [->|N]; [apply Nat.eqb_refl|].
  apply Nat.eqb_neq. intros E. apply N. exact (perm_injective n p i j Hp Hi Hj E).
Qed.

Lemma forallb_Permutation {X : Type} (g : X -> bool) (l l' : list X) : Permutation l l' -> forallb g l = forallb g l'.
Proof.
  intros H. induction H as [|x l l' _ IH|x y l|l l' l'' _ IH1 _ IH2]; cbn [forallb].
  - reflexivity.
  - rewrite IH. reflexivity.
  - destruct (g x), (g y); reflexivity.
  - rewrite IH1. exact IH2.
Qed.

Lemma forallb_reindex n p (g : nat -> bool) : perm_on n p -> forallb (fun j => g (p j)) (seq 0 n) = forallb g (seq 0 n).
Proof.
  intros Hp. rewrite <- (forallb_Permutation g _ _ Hp).
  induction (seq 0 n) as [|a t IH]; [reflexivity|]. cbn [map forallb]. rewrite IH. reflexivity.
Qed.

Lemma colabs_pmat n p A i : perm_on n p ->
  vsum Rplus 0 n (fun j' => Rabs (pmat p A j' i)) = vsum Rplus 0 n (fun j' => Rabs (A j' (p i))).
Proof. intros Hp. unfold pmat. exact (rsum_reindex n p (fun j' => Rabs (A j' (p i))) Hp). Qed.

Lemma zrow_pmat n p A i : perm_on n p -> zrow n (pmat p A) i = zrow n A (p i).
Proof.
  intros Hp. unfold zrow. rewrite (colabs_pmat n p A i Hp). unfold pmat.
  exact (forallb_reindex n p (fun j0 => Reqb (pinvT Rdiv 0 1 Reqb (vsum Rplus 0 n (fun j' => Rabs (A j' (p i)))) * A j0 (p i)) 0) Hp).
Qed.

Lemma Dop_pmat n p A alpha i j : perm_on n p -> (i < n)%nat -> (j < n)%nat ->
  Dop n (pmat p A) alpha i j = Dop n A alpha (p i) (p j).
Proof.
  intros Hp Hi Hj. unfold Dop. rewrite (colabs_pmat n p A i Hp), (zrow_pmat n p A i Hp), (perm_eqb n p i j Hp Hi Hj).
  reflexivity.
Qed.

Definition fstep (n : nat) (A : nat -> nat -> R) (alpha : R) (h : nat -> R) (i : nat) : R :=
  vsum Rplus 0 n (fun j => Dop n A alpha i j * h j).

Lemma diffusion_eval n A s init k alpha : init_ok init ->
  exists st, rvdenote (env_fit n A s init k alpha) src_diffusion_fit
             = match iter_opt k st (WV n (temp0 n s init)) with Some v => Some v | None => None end /\
             forall h, st (WV n h) = Some (WV n (fstep n A alpha h)).
Proof.
  intros [->|[t ->]].
  - eexists. split.
    + unfold rvdenote, env_fit, src_diffusion_fit. repeat (cbn; rewrite ?Nat.eqb_refl). reflexivity.
    + intros h. repeat (cbn; rewrite ?Nat.eqb_refl). reflexivity.
  - eexists. split.
    + unfold rvdenote, env_fit, src_diffusion_fit. repeat (cbn; rewrite ?Nat.eqb_refl). reflexivity.
    + intros h. repeat (cbn; rewrite ?Nat.eqb_refl). reflexivity.
Qed.

Lemma fstep_renumbering n p A alpha h h' : perm_on n p -> (forall i, (i < n)%nat -> h' i = h (p i)) ->
  forall i, (i < n)%nat -> fstep n (pmat p A) alpha h' i = fstep n A alpha h (p i).
Proof.
  intros Hp Hh i Hi. unfold fstep.
  change (rsum n (fun j => Dop n (pmat p A) alpha i j * h' j) = rsum n (fun j => Dop n A alpha (p i) j * h j)).
  rewrite <- (rsum_reindex n p (fun j => Dop n A alpha (p i) j * h j) Hp).
  rewrite !rsum_lsum. apply lsum_ext. intros j Hj. apply in_seq0 in Hj.
  rewrite (Dop_pmat n p A alpha i j Hp Hi Hj), (Hh j Hj). reflexivity.
Qed.

Theorem source_diffusion_renumbering n p A s init k alpha :
  perm_on n p -> init_ok init ->
  exists f' f,
    rvdenote (env_fit n (pmat p A) (fun i => s (p i)) init k alpha) src_diffusion_fit = Some (WV n f') /\
    rvdenote (env_fit n A s init k alpha) src_diffusion_fit = Some (WV n f) /\
    forall i, (i < n)%nat -> f' i = f (p i).
Proof.
  intros Hp Hinit.
  destruct (diffusion_eval n (pmat p A) (fun i => s (p i)) init k alpha Hinit) as (st1 & E1 & S1).
  destruct (diffusion_eval n A s init k alpha Hinit) as (st2 & E2 & S2).
  set (Rel := fun v' v : vvalue R => exists h' h, v' = WV n h' /\ v = WV n h /\ forall i, (i < n)%nat -> h' i = h (p i)).
  destruct (iter_opt_rel Rel st1 st2 k (WV n (temp0 n (fun i => s (p i)) init)) (WV n (temp0 n s init)))
    as (x' & y' & H1 & H2 & (h' & h & -> & -> & Hh)).
  - intros x y (h' & h & -> & -> & Hh). do 2 eexists. split; [apply S1|]. split; [apply S2|].
    do 2 eexists. split; [reflexivity|]. split; [reflexivity|]. intros i Hi.
    exact (fstep_renumbering n p A alpha h h' Hp Hh i Hi).
  - do 2 eexists. split; [reflexivity|]. split; [reflexivity|]. intros i Hi. unfold temp0.
    rewrite (base_temp_renumbering n p s init Hp). reflexivity.
  - exists h', h. rewrite E1, E2, H1, H2. repeat split; try reflexivity. exact Hh.
Qed.

(* =========================================================================================== *)
(** * BaseClustering._secondary_outputs (Gen/NpSecondary.v): the class-probability rows are permuted *)
From SKN Require Import Gen.NpSecondary Proofs.NpSecondaryProofs.
Local Open Scope string_scope.

Lemma map_nth_seq (l : list Z) (d : Z) : map (fun i => nth i l d) (seq 0 (List.length l)) = l.
Proof.
  induction l as [|a t IH]; [reflexivity|]. cbn [List.length]. rewrite <- cons_seq. cbn [map nth]. f_equal.
  rewrite <- seq_shift, map_map. exact IH.
Qed.

Lemma plab_Permutation n p l : List.length l = n -> perm_on n p -> Permutation (plab n p l) l.
Proof.
  intros Hl Hp. unfold plab.
  rewrite <- (map_map p (fun i => lab l i)).
  apply (perm_trans (l' := map (fun i => lab l i) (seq 0 n))); [apply Permutation_map; exact Hp|].
  subst n. unfold lab. rewrite map_nth_seq. apply Permutation_refl.
Qed.

Lemma max_Permutation (l l' : list Z) : Permutation l l' -> fold_right Z.max (-1)%Z l = fold_right Z.max (-1)%Z l'.
Proof.
  intros H. induction H as [|x l l' _ IH|x y l|l l' l'' _ IH1 _ IH2]; cbn [fold_right].
  - reflexivity.
  - rewrite IH. reflexivity.
  - lia.
  - rewrite IH1. exact IH2.
Qed.

Lemma nlab_plab n p l : List.length l = n -> perm_on n p -> nlab (plab n p l) = nlab l.
Proof. intros Hl Hp. unfold nlab. rewrite (max_Permutation _ _ (plab_Permutation n p l Hl Hp)). reflexivity. Qed.

Lemma ind_plab n p l j c : (j < n)%nat -> ind (plab n p l) j c = ind l (p j) c.
Proof. intros Hj. unfold NpModularityProofs.ind. rewrite lab_plab by exact Hj. reflexivity. Qed.

Lemma mass_renumbering n p A l i c : perm_on n p -> mass n (pmat p A) (plab n p l) i c = mass n A l (p i) c.
Proof.
  intros Hp. unfold mass.
  rewrite <- rsum_lsum. rewrite <- (rsum_lsum n (fun j => A (p i) j * ind l j c)).
  rewrite <- (rsum_reindex n p (fun j => A (p i) j * ind l j c) Hp).
  rewrite !rsum_lsum. apply lsum_ext. intros j Hj. apply in_seq0 in Hj. unfold pmat. rewrite (ind_plab n p l j c Hj). reflexivity.
Qed.

Lemma soft_renumbering n K p A l i c : perm_on n p -> soft n K (pmat p A) (plab n p l) i c = soft n K A l (p i) c.
Proof.
  intros Hp. unfold soft. rewrite (mass_renumbering n p A l i c Hp). f_equal. f_equal.
  apply lsum_ext. intros c' _. rewrite (mass_renumbering n p A l i c' Hp). reflexivity.
Qed.

Lemma secondary_probs_eval n A l : List.length l = n ->
  rvdenote (env_sec n A l) src_secondary_probs = Some (WM n (nlab l) (soft n (nlab l) A l)).
Proof.
  intros Hl. unfold rvdenote, env_sec, src_secondary_probs. repeat (cbn; rewrite ?Nat.eqb_refl, ?Hl). reflexivity.
Qed.

Theorem source_secondary_probs_renumbering n p A l :
  List.length l = n -> perm_on n p ->
  exists K f' f,
    rvdenote (env_sec n (pmat p A) (plab n p l)) src_secondary_probs = Some (WM n K f') /\
    rvdenote (env_sec n A l) src_secondary_probs = Some (WM n K f) /\
    forall i c, f' i c = f (p i) c.
Proof.
  intros Hl Hp. exists (nlab l), (soft n (nlab l) (pmat p A) (plab n p l)), (soft n (nlab l) A l).
  split; [|split].
  - rewrite <- (nlab_plab n p l Hl Hp) at 1 2. apply secondary_probs_eval. unfold plab. rewrite map_length, seq_length. reflexivity.
  - apply secondary_probs_eval. exact Hl.
  - intros i c. apply soft_renumbering. exact Hp.
Qed.

(* =========================================================================================== *)
(** * RandomSurferOperator._matvec (Gen/NpRso.v): the PageRank operator commutes with the renumbering *)
From SKN Require Import Gen.NpRso Proofs.NpRsoProofs.

Lemma nrow_pmat n p A j i : perm_on n p -> nrow n (pmat p A) j i = nrow n A (p j) (p i).
Proof.
  intros Hp. unfold nrow, pmat. f_equal. f_equal.
  exact (rsum_reindex n p (fun j' => Rabs (A (p j) j')) Hp).
Qed.

Lemma has_out_pmat n p A j : perm_on n p -> has_out n (pmat p A) j = has_out n A (p j).
Proof.
  intros Hp. unfold has_out, pmat. rewrite <- !rsum_lsum.
  rewrite (rsum_reindex n p (fun k => A (p j) k * 1) Hp). reflexivity.
Qed.

Lemma rso_renumbering n p A s alpha x i : perm_on n p ->
  rso n (pmat p A) (fun i0 => s (p i0)) alpha (fun i0 => x (p i0)) i = rso n A s alpha x (p i).
Proof.
  intros Hp. unfold rso. f_equal.
  - rewrite <- !rsum_lsum. rewrite <- (rsum_reindex n p (fun j => alpha * nrow n A j (p i) * x j) Hp).
    rewrite !rsum_lsum. apply lsum_ext. intros j _. rewrite (nrow_pmat n p A j i Hp). reflexivity.
  - f_equal. rewrite <- !rsum_lsum. rewrite <- (rsum_reindex n p (fun j => (1 - alpha * has_out n A j) * x j) Hp).
    rewrite !rsum_lsum. apply lsum_ext. intros j _. rewrite (has_out_pmat n p A j Hp). reflexivity.
Qed.

Theorem source_rso_renumbering n p A s x alpha :
  perm_on n p ->
  exists f' f,
    rvdenote (env_rso n (pmat p A) (fun i => s (p i)) (fun i => x (p i)) alpha) src_rso_matvec = Some (WV n f') /\
    rvdenote (env_rso n A s x alpha) src_rso_matvec = Some (WV n f) /\
    forall i, f' i = f (p i).
Proof.
  intros Hp. do 2 eexists. split; [apply src_rso_denotes|]. split; [apply src_rso_denotes|].
  intros i. exact (rso_renumbering n p A s alpha x i Hp).
Qed.

(* =========================================================================================== *)
(** * Convolution.forward (Gen/NpConv.v): renumbering the nodes permutes the rows of the embedding *)
From SKN Require Import Gen.NpConv Proofs.NpConvProofs.

Lemma outw_pmat n p A i : perm_on n p -> outw n (pmat p A) i = outw n A (p i).
Proof.
  intros Hp. unfold outw, pmat. rewrite <- !rsum_lsum. exact (rsum_reindex n p (fun j => A (p i) j * 1) Hp).
Qed.

Lemma nspec_pmat nm n p A i j : perm_on n p -> nspec_r nm n (pmat p A) i j = nspec_r nm n A (p i) (p j).
Proof.
  intros Hp. destruct nm; cbn [nspec_r]; rewrite ?(outw_pmat n p A i Hp), ?(outw_pmat n p A j Hp); reflexivity.
Qed.

Lemma nbar_pmat nm se n p A i j : perm_on n p -> (i < n)%nat -> (j < n)%nat ->
  nbar_r nm se n (pmat p A) i j = nbar_r nm se n A (p i) (p j).
Proof.
  intros Hp Hi Hj. unfold nbar_r. rewrite (nspec_pmat nm n p A i j Hp), (perm_eqb n p i j Hp Hi Hj). reflexivity.
Qed.

Lemma conv_spec_renumbering nm se ub n d p A X W b i c : perm_on n p -> (i < n)%nat ->
  conv_spec nm se ub n d (pmat p A) (fun i0 k => X (p i0) k) W b i c = conv_spec nm se ub n d A X W b (p i) c.
Proof.
  intros Hp Hi. unfold conv_spec. f_equal. apply lsum_ext. intros k _. f_equal.
  rewrite <- !rsum_lsum. rewrite <- (rsum_reindex n p (fun j => nbar_r nm se n A (p i) j * X j k) Hp).
  rewrite !rsum_lsum. apply lsum_ext. intros j Hj. apply in_seq0 in Hj.
  rewrite (nbar_pmat nm se n p A i j Hp Hi Hj). reflexivity.
Qed.

Theorem source_conv_renumbering nm se ub n d o p A X W b :
  perm_on n p ->
  exists f' f,
    rvdenote (env_conv n d o (pmat p A) (fun i k => X (p i) k) W b se ub) (src_of nm) = Some (WM n o f') /\
    rvdenote (env_conv n d o A X W b se ub) (src_of nm) = Some (WM n o f) /\
    forall i c, (i < n)%nat -> f' i c = f (p i) c.
Proof.
  intros Hp.
  destruct (source_conv_embedding nm se ub n d o (pmat p A) (fun i k => X (p i) k) W b) as (f' & E' & H').
  destruct (source_conv_embedding nm se ub n d o A X W b) as (f & E & H).
  exists f', f. split; [exact E'|]. split; [exact E|]. intros i c Hi.
  rewrite (H' i c Hi), (H (p i) c (perm_below n p i Hp Hi)). exact (conv_spec_renumbering nm se ub n d p A X W b i c Hp Hi).
Qed.

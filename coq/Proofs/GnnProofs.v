(** Algebra over Q for the GNN model: forward formula, equivariance, sampler, predictions.
    Everything here is closed under the global context. *)
From SKN Require Import Base.Util Model.Gnn.
Set Warnings "-notation-overridden,-ambiguous-paths".
From Coq Require Import QArith Qminmax Lqa Psatz Setoid Morphisms.

Local Open Scope Q_scope.

(* ------------------------------------------------------------------------------------------- *)
(** * Finite sums *)
Lemma sumq_map_Qeq {X} (f g : X -> Q) (l : list X) :
  (forall x, In x l -> f x == g x) -> sumq (map f l) == sumq (map g l).
Proof.
  induction l as [|a t IH]; intros H; cbn [map sumq fold_right]; [reflexivity|].
  unfold sumq in IH. rewrite (H a (or_introl eq_refl)), IH; [reflexivity|].
  intros x Hx. apply H. right. exact Hx.
Qed.

Lemma sumq_map_plus {X} (f g : X -> Q) (l : list X) :
  sumq (map (fun x => f x + g x) l) == sumq (map f l) + sumq (map g l).
Proof.
  induction l as [|a t IH]; cbn [map sumq fold_right]; [reflexivity|].
  unfold sumq in IH. rewrite IH. ring.
Qed.

Lemma sumq_map_scale {X} (c : Q) (f : X -> Q) (l : list X) :
  sumq (map (fun x => c * f x) l) == c * sumq (map f l).
Proof.
  induction l as [|a t IH]; cbn [map sumq fold_right]; [ring|].
  unfold sumq in IH. rewrite IH. ring.
Qed.

Lemma sumq_map_scale_r {X} (c : Q) (f : X -> Q) (l : list X) :
  sumq (map (fun x => f x * c) l) == sumq (map f l) * c.
Proof.
  induction l as [|a t IH]; cbn [map sumq fold_right]; [ring|].
  unfold sumq in IH. rewrite IH. ring.
Qed.

Lemma sumq_Forall2 (l1 l2 : list Q) : Forall2 Qeq l1 l2 -> sumq l1 == sumq l2.
Proof.
  induction 1 as [|a b t1 t2 Hab _ IH]; cbn [sumq fold_right]; [reflexivity|].
  unfold sumq in IH. rewrite Hab, IH. reflexivity.
Qed.

Lemma qsum_ext n f g : (forall j, (j < n)%nat -> f j == g j) -> qsum n f == qsum n g.
Proof.
  intros H. unfold qsum. apply sumq_map_Qeq. intros j Hj. apply in_seq in Hj. apply H. lia.
Qed.

Lemma qsum_plus n f g : qsum n (fun j => f j + g j) == qsum n f + qsum n g.
Proof. unfold qsum. apply sumq_map_plus. Qed.

Lemma qsum_scale n c f : qsum n (fun j => c * f j) == c * qsum n f.
Proof. unfold qsum. apply sumq_map_scale. Qed.

Lemma qsum_scale_r n c f : qsum n (fun j => f j * c) == qsum n f * c.
Proof. unfold qsum. apply sumq_map_scale_r. Qed.

Lemma sumq_delta (l : list nat) (j0 : nat) (a : Q) (x : nat -> Q) :
  NoDup l ->
  sumq (map (fun j => (if Nat.eqb j0 j then a else 0) * x j) l) == if memn j0 l then a * x j0 else 0.
Proof.
  induction l as [|b t IH]; intros Hnd; cbn [map sumq fold_right memn existsb]; [reflexivity|].
  inversion Hnd as [|b' t' Hnotin Hnd']; subst.
  unfold sumq in IH. rewrite (IH Hnd'). fold (memn j0 t).
  destruct (Nat.eqb j0 b) eqn:E.
  - apply Nat.eqb_eq in E. subst b.
    destruct (memn j0 t) eqn:M; [apply memn_In in M; contradiction|].
    cbn [orb]. ring.
  - cbn [orb]. destruct (memn j0 t); ring.
Qed.

Lemma qsum_delta n j0 a x :
  (j0 < n)%nat -> qsum n (fun j => (if Nat.eqb j0 j then a else 0) * x j) == a * x j0.
Proof.
  intros H. unfold qsum. rewrite sumq_delta by apply seq_NoDup.
  destruct (memn j0 (seq 0 n)) eqn:M; [reflexivity|].
  assert (In j0 (seq 0 n)) as HI by (apply in_seq; lia).
  apply memn_In in HI. congruence.
Qed.

(* ------------------------------------------------------------------------------------------- *)
(** * Sparse rows and their dense denotation *)
Lemma rentry_cons e r j :
  rentry (e :: r) j == (if Nat.eqb (fst e) j then snd e else 0) + rentry r j.
Proof.
  unfold rentry, sumq. cbn [filter]. destruct (Nat.eqb (fst e) j); cbn [map fold_right]; ring.
Qed.

(** A sparse dot product equals the dense sum over the denotation of the row. *)
Lemma row_dot_dense n (r : srow) (x : nat -> Q) :
  (forall e, In e r -> (fst e < n)%nat) ->
  sumq (map (fun e => snd e * x (fst e)) r) == qsum n (fun j => rentry r j * x j).
Proof.
  induction r as [|e r IH]; intros Hwf.
  - cbn [map sumq fold_right]. unfold qsum.
    rewrite (sumq_map_Qeq _ (fun j => 0 * x j)); [rewrite sumq_map_scale; ring|].
    intros j _. unfold rentry. cbn. reflexivity.
  - cbn [map sumq fold_right]. unfold sumq in IH. rewrite IH by (intros e' He'; apply Hwf; right; exact He').
    rewrite (qsum_ext n (fun j => rentry (e :: r) j * x j)
                      (fun j => (if Nat.eqb (fst e) j then snd e else 0) * x j + rentry r j * x j)).
    + rewrite qsum_plus, qsum_delta by (apply Hwf; left; reflexivity). reflexivity.
    + intros j _. rewrite rentry_cons. ring.
Qed.

Lemma row_weight_deg n (r : srow) :
  (forall e, In e r -> (fst e < n)%nat) -> row_weight r == qsum n (rentry r).
Proof.
  intros Hwf. unfold row_weight.
  rewrite (qsum_ext n (rentry r) (fun j => rentry r j * 1)) by (intros; ring).
  rewrite <- (row_dot_dense n r (fun _ => 1) Hwf).
  apply sumq_map_Qeq. intros; ring.
Qed.

Lemma rentry_scale_row (f : nat -> Q -> Q) (c : Q) (r : srow) (j : nat) :
  (forall a, f j a == c * a) -> rentry (scale_row f r) j == c * rentry r j.
Proof.
  intros Hf. induction r as [|e r IH].
  - unfold rentry. cbn. ring.
  - unfold scale_row in *. cbn [map]. rewrite !rentry_cons, IH. cbn [fst snd].
    destruct (Nat.eqb (fst e) j) eqn:E.
    + apply Nat.eqb_eq in E. rewrite E, Hf. ring.
    + ring.
Qed.

Lemma pinv_compat a b : a == b -> pinv a == pinv b.
Proof.
  intros H. unfold pinv.
  destruct (Qeq_bool a 0) eqn:Ea; destruct (Qeq_bool b 0) eqn:Eb.
  - reflexivity.
  - apply Qeq_bool_iff in Ea. apply Qeq_bool_neq in Eb. exfalso. apply Eb. rewrite <- H. exact Ea.
  - apply Qeq_bool_iff in Eb. apply Qeq_bool_neq in Ea. exfalso. apply Ea. rewrite H. exact Eb.
  - rewrite H. reflexivity.
Qed.

Lemma wf_row A n i : wf_smat n A -> forall e, In e (nth i A []) -> (fst e < n)%nat.
Proof.
  intros Hwf e He. destruct (Nat.lt_ge_cases i (length A)) as [Hi|Hi].
  - apply (Hwf (nth i A [])); [apply nth_In; exact Hi | exact He].
  - rewrite nth_overflow in He by exact Hi. contradiction.
Qed.

Lemma wf_smatb_ok n A : wf_smatb n A = true -> wf_smat n A.
Proof.
  unfold wf_smatb, wf_smat. intros H r Hr e He.
  rewrite forallb_forall in H. specialize (H r Hr). rewrite forallb_forall in H.
  specialize (H e He). apply Nat.ltb_lt in H. exact H.
Qed.

Lemma nthq_weights A i : nthq (weights A) i = row_weight (nth i A []).
Proof. unfold nthq, weights. exact (map_nth row_weight A [] i). Qed.

Lemma weights_deg A i : wf_smat (length A) A -> nthq (weights A) i == deg A i.
Proof.
  intros Hwf. rewrite nthq_weights. unfold deg, sentry.
  apply row_weight_deg. apply wf_row. exact Hwf.
Qed.

(** Row i of the normalised matrix. *)
Lemma normalise_row sqrtf nm A i :
  (i < length A)%nat ->
  nth i (normalise sqrtf nm A) [] =
  match nm with
  | NLeft => scale_row (fun _ a => pinv (nthq (weights A) i) * a) (nth i A [])
  | NRight => scale_row (fun j a => a * pinv (nthq (weights A) j)) (nth i A [])
  | NBoth => scale_row (fun j a => pinv (nthq (map sqrtf (weights A)) i) * a
                                   * pinv (nthq (map sqrtf (weights A)) j)) (nth i A [])
  | NOther => nth i A []
  end.
Proof.
  intros Hi. unfold normalise. cbv zeta. destruct nm.
  - rewrite (nth_map2 _ _ _ _ 0 (@nil (nat * Q)) (@nil (nat * Q))); [reflexivity | unfold weights; rewrite map_length; exact Hi | exact Hi].
  - change (@nil (nat * Q)) with (scale_row (fun j a => a * pinv (nthq (weights A) j)) []) at 1.
    rewrite map_nth. reflexivity.
  - rewrite (nth_map2 _ _ _ _ 0 (@nil (nat * Q)) (@nil (nat * Q)));
      [reflexivity | unfold weights; rewrite !map_length; exact Hi | exact Hi].
  - reflexivity.
Qed.

Lemma nthq_map_sqrt sqrtf (w : list Q) j :
  (j < length w)%nat -> nthq (map sqrtf w) j = sqrtf (nthq w j).
Proof.
  intros Hj. unfold nthq. rewrite (nth_indep _ 0 (sqrtf 0)) by (rewrite map_length; exact Hj).
  apply map_nth.
Qed.

Lemma normalise_length sqrtf nm A : length (normalise sqrtf nm A) = length A.
Proof.
  unfold normalise. cbv zeta. destruct nm.
  - rewrite map2_length. unfold weights. rewrite map_length. apply Nat.min_id.
  - apply map_length.
  - rewrite map2_length. unfold weights. rewrite !map_length. apply Nat.min_id.
  - reflexivity.
Qed.

(* ------------------------------------------------------------------------------------------- *)
(** * The matrix handed to the message step *)
Lemma add_self_loops_length N : length (add_self_loops N) = length N.
Proof. unfold add_self_loops. rewrite map2_length, seq_length. apply Nat.min_id. Qed.

Lemma add_self_loops_row N i :
  (i < length N)%nat -> nth i (add_self_loops N) [] = (i, 1) :: nth i N [].
Proof.
  intros Hi. unfold add_self_loops.
  rewrite (nth_map2 _ _ _ _ 0%nat (@nil (nat * Q)) (@nil (nat * Q))); [| rewrite seq_length; exact Hi | exact Hi].
  rewrite seq_nth by exact Hi. reflexivity.
Qed.

Lemma conv_adjacency_length sqrtf L A : length (conv_adjacency sqrtf L A) = length A.
Proof.
  unfold conv_adjacency. destruct (l_self L); [rewrite add_self_loops_length|]; apply normalise_length.
Qed.

Lemma scale_row_fst f r e : In e (scale_row f r) -> exists e0, In e0 r /\ fst e = fst e0.
Proof.
  unfold scale_row. intros H. apply in_map_iff in H. destruct H as [e0 [E H]]. exists e0. subst e. split; [exact H|reflexivity].
Qed.

Lemma normalise_wf sqrtf nm A n i :
  wf_smat n A -> forall e, In e (nth i (normalise sqrtf nm A) []) -> (fst e < n)%nat.
Proof.
  intros Hwf e He. destruct (Nat.lt_ge_cases i (length A)) as [Hi|Hi].
  - rewrite normalise_row in He by exact Hi.
    destruct nm; try (apply scale_row_fst in He; destruct He as [e0 [H0 E]]; rewrite E);
      try (apply (wf_row A n i Hwf); assumption).
  - rewrite nth_overflow in He by (rewrite normalise_length; exact Hi). contradiction.
Qed.

Lemma conv_adjacency_wf sqrtf L A i :
  wf_smat (length A) A -> (i < length A)%nat ->
  forall e, In e (nth i (conv_adjacency sqrtf L A) []) -> (fst e < length A)%nat.
Proof.
  intros Hwf Hi e He. unfold conv_adjacency in He. destruct (l_self L).
  - rewrite add_self_loops_row in He by (rewrite normalise_length; exact Hi).
    destruct He as [He|He]; [subst e; exact Hi | exact (normalise_wf _ _ _ _ _ Hwf e He)].
  - exact (normalise_wf _ _ _ _ _ Hwf e He).
Qed.

Definition sqrt_proper (sqrtf : Q -> Q) (nm : norm) : Prop :=
  nm = NBoth -> Proper (Qeq ==> Qeq) sqrtf.

Lemma normalise_entry sqrtf nm A i j :
  wf_smat (length A) A -> sqrt_proper sqrtf nm -> (i < length A)%nat -> (j < length A)%nat ->
  rentry (nth i (normalise sqrtf nm A) []) j == nspec sqrtf nm A i j.
Proof.
  intros Hwf Hsq Hi Hj. rewrite normalise_row by exact Hi. unfold nspec, sentry. destruct nm.
  - rewrite (rentry_scale_row _ (pinv (nthq (weights A) i))) by (intros; reflexivity).
    rewrite (pinv_compat _ _ (weights_deg A i Hwf)). reflexivity.
  - rewrite (rentry_scale_row _ (pinv (nthq (weights A) j))) by (intros; ring).
    rewrite (pinv_compat _ _ (weights_deg A j Hwf)). ring.
  - pose proof (Hsq eq_refl) as Hp.
    rewrite (rentry_scale_row _ (pinv (nthq (map sqrtf (weights A)) i) * pinv (nthq (map sqrtf (weights A)) j)))
      by (intros; ring).
    rewrite !nthq_map_sqrt by (unfold weights; rewrite map_length; assumption).
    rewrite (pinv_compat _ _ (Hp _ _ (weights_deg A i Hwf))).
    rewrite (pinv_compat _ _ (Hp _ _ (weights_deg A j Hwf))). ring.
  - reflexivity.
Qed.

Lemma conv_adjacency_entry sqrtf L A i j :
  wf_smat (length A) A -> sqrt_proper sqrtf (l_norm L) -> (i < length A)%nat -> (j < length A)%nat ->
  rentry (nth i (conv_adjacency sqrtf L A) []) j == nbar sqrtf (l_norm L) (l_self L) A i j.
Proof.
  intros Hwf Hsq Hi Hj. unfold conv_adjacency, nbar. destruct (l_self L).
  - rewrite add_self_loops_row by (rewrite normalise_length; exact Hi).
    rewrite rentry_cons, normalise_entry by assumption. cbn [fst snd andb]. ring.
  - rewrite normalise_entry by assumption. cbn [andb]. ring.
Qed.

(* ------------------------------------------------------------------------------------------- *)
(** * forward = activation (N(A) X W + b) *)
Lemma nth_map_seq {X} (g : nat -> X) (o k : nat) (d : X) : (k < o)%nat -> nth k (map g (seq 0 o)) d = g k.
Proof.
  intros Hk. rewrite (nth_indep _ d (g 0%nat)) by (rewrite map_length, seq_length; exact Hk).
  rewrite map_nth, seq_nth by exact Hk. reflexivity.
Qed.

Lemma nth_map_default {X Y} (h : X -> Y) (l : list X) (i : nat) (dx : X) (dy : Y) :
  (i < length l)%nat -> nth i (map h l) dy = h (nth i l dx).
Proof.
  intros Hi. rewrite (nth_indep _ dy (h dx)) by (rewrite map_length; exact Hi). apply map_nth.
Qed.

Lemma message_row_entry F r n c :
  (forall e, In e r -> (fst e < n)%nat) -> (c < f_ncol F)%nat ->
  nthq (message_row F r) c == qsum n (fun j => rentry r j * fentry F j c).
Proof.
  intros Hwf Hc. unfold message_row, nthq. rewrite nth_map_seq by exact Hc.
  exact (row_dot_dense n r (fun j => fentry F j c) Hwf).
Qed.

Lemma embedding_length sqrtf L A F : length (embedding sqrtf L A F) = length A.
Proof. unfold embedding. rewrite map_length. apply conv_adjacency_length. Qed.

Lemma embedding_row sqrtf L A F i :
  (i < length A)%nat ->
  nth i (embedding sqrtf L A F) [] =
  affine_row L (f_ncol F) (message_row F (nth i (conv_adjacency sqrtf L A) [])).
Proof.
  intros Hi. unfold embedding.
  apply (nth_map_default (fun r => affine_row L (f_ncol F) (message_row F r))).
  rewrite conv_adjacency_length. exact Hi.
Qed.

Theorem embedding_formula sqrtf L A F i k :
  wf_smat (length A) A -> sqrt_proper sqrtf (l_norm L) ->
  (i < length A)%nat -> (k < l_out L)%nat ->
  dentry (embedding sqrtf L A F) i k == spec_embedding sqrtf L A F i k.
Proof.
  intros Hwf Hsq Hi Hk. unfold dentry. rewrite embedding_row by exact Hi.
  unfold affine_row, nthq at 1. rewrite nth_map_seq by exact Hk.
  unfold spec_embedding.
  assert (sumq (map (fun c => nthq (message_row F (nth i (conv_adjacency sqrtf L A) [])) c * dentry (l_weight L) c k)
                    (seq 0 (f_ncol F)))
          == mmul (f_ncol F) (mmul (length A) (nbar sqrtf (l_norm L) (l_self L) A) (fentry F)) (dentry (l_weight L)) i k)
    as Hx.
  { unfold mmul at 1. unfold qsum at 1. apply sumq_map_Qeq. intros c Hc. apply in_seq in Hc.
    rewrite (message_row_entry F _ (length A) c) by (try apply conv_adjacency_wf; try assumption; lia).
    unfold mmul. rewrite (qsum_ext (length A) _ (fun j => nbar sqrtf (l_norm L) (l_self L) A i j * fentry F j c));
      [reflexivity|].
    intros j Hj. rewrite conv_adjacency_entry by assumption. reflexivity. }
  destruct (l_use_bias L); rewrite Hx; ring.
Qed.

(** The activations respect equality of rationals (given that the exp oracle does). *)
Definition uses_exp (a : activation) : bool :=
  match a with Identity | Relu => false | _ => true end.

Lemma Qltb_compat a b c d : a == c -> b == d -> Qltb a b = Qltb c d.
Proof.
  intros H1 H2. unfold Qltb. f_equal.
  destruct (Qle_bool b a) eqn:E1; destruct (Qle_bool d c) eqn:E2; try reflexivity.
  - apply Qle_bool_iff in E1. rewrite H1, H2 in E1. apply Qle_bool_iff in E1. congruence.
  - apply Qle_bool_iff in E2. rewrite <- H1, <- H2 in E2. apply Qle_bool_iff in E2. congruence.
Qed.

Lemma relu_compat x y : x == y -> relu x == relu y.
Proof.
  intros H. unfold relu, g_relu. rewrite (Qltb_compat 0 x 0 y) by (try reflexivity; exact H).
  destruct (Qltb 0 y); [exact H | reflexivity].
Qed.

Lemma sigmoid_compat expf x y : Proper (Qeq ==> Qeq) expf -> x == y -> sigmoid expf x == sigmoid expf y.
Proof.
  intros Hp H. unfold sigmoid, g_sigmoid. rewrite (Hp (0 - x) (0 - y)); [reflexivity|]. rewrite H. reflexivity.
Qed.

Lemma Forall2_map {X Y} (R : Y -> Y -> Prop) (f g : X -> Y) (P : X -> X -> Prop) l1 l2 :
  (forall a b, P a b -> R (f a) (g b)) -> Forall2 P l1 l2 -> Forall2 R (map f l1) (map g l2).
Proof. intros H. induction 1; cbn [map]; constructor; auto. Qed.

Lemma softmax_row_compat expf r1 r2 :
  Proper (Qeq ==> Qeq) expf -> Forall2 Qeq r1 r2 -> Forall2 Qeq (softmax_row expf r1) (softmax_row expf r2).
Proof.
  intros Hp H. unfold softmax_row, g_softmax_row. cbv zeta.
  assert (Forall2 Qeq (map expf r1) (map expf r2)) as He
      by (apply (Forall2_map Qeq expf expf Qeq); [intros a b Hab; apply Hp; exact Hab | exact H]).
  pose proof (sumq_Forall2 _ _ He) as Hs. unfold sumq in Hs.
  apply (Forall2_map Qeq _ _ Qeq); [|exact He].
  intros a b Hab. unfold g_sum. rewrite Hab, Hs. reflexivity.
Qed.

Lemma act_row_compat expf a r1 r2 :
  (uses_exp a = true -> Proper (Qeq ==> Qeq) expf) ->
  Forall2 Qeq r1 r2 -> Forall2 Qeq (act_row expf a r1) (act_row expf a r2).
Proof.
  intros Hp H. destruct a; cbn [act_row].
  - exact H.
  - apply (Forall2_map Qeq relu relu Qeq); [apply relu_compat | exact H].
  - apply (Forall2_map Qeq _ _ Qeq); [intros x y; apply sigmoid_compat; apply Hp; reflexivity | exact H].
  - apply softmax_row_compat; [apply Hp; reflexivity | exact H].
  - apply softmax_row_compat; [apply Hp; reflexivity | exact H].
  - apply (Forall2_map Qeq _ _ Qeq); [intros x y; apply sigmoid_compat; apply Hp; reflexivity | exact H].
Qed.

Lemma Forall2_nth_seq (g1 g2 : nat -> Q) o :
  (forall k, (k < o)%nat -> g1 k == g2 k) -> Forall2 Qeq (map g1 (seq 0 o)) (map g2 (seq 0 o)).
Proof.
  intros H. apply (Forall2_map Qeq g1 g2 (fun a b => a = b /\ (a < o)%nat)).
  - intros a b [E Ha]. subst b. apply H. exact Ha.
  - assert (forall s, (forall x, In x s -> (x < o)%nat) -> Forall2 (fun a b => a = b /\ (a < o)%nat) s s) as G.
    { induction s as [|x s IH]; intros Hs; constructor.
      - split; [reflexivity | apply Hs; left; reflexivity].
      - apply IH. intros y Hy. apply Hs. right. exact Hy. }
    apply G. intros x Hx. apply in_seq in Hx. lia.
Qed.

Lemma embedding_row_seq sqrtf L A F i :
  (i < length A)%nat ->
  nth i (embedding sqrtf L A F) [] = map (fun k => dentry (embedding sqrtf L A F) i k) (seq 0 (l_out L)).
Proof.
  intros Hi. unfold dentry. rewrite embedding_row by exact Hi.
  set (m := message_row F (nth i (conv_adjacency sqrtf L A) [])).
  unfold affine_row at 1. apply map_ext_in. intros k Hk. apply in_seq in Hk.
  symmetry. unfold affine_row, nthq at 1. rewrite nth_map_seq by lia. reflexivity.
Qed.

Theorem forward_formula sqrtf expf L A F :
  wf_smat (length A) A -> sqrt_proper sqrtf (l_norm L) ->
  (uses_exp (l_act L) = true -> Proper (Qeq ==> Qeq) expf) ->
  length (forward sqrtf expf L A F) = length A /\
  forall i, (i < length A)%nat ->
    Forall2 Qeq (nth i (forward sqrtf expf L A F) []) (spec_forward sqrtf expf L A F i).
Proof.
  intros Hwf Hsq Hexp. split.
  - unfold forward. rewrite map_length. apply embedding_length.
  - intros i Hi. unfold forward, spec_forward.
    rewrite (nth_map_default (act_row expf (l_act L)) _ i []) by (rewrite embedding_length; exact Hi).
    apply act_row_compat; [exact Hexp|].
    rewrite embedding_row_seq by exact Hi.
    apply Forall2_nth_seq. intros k Hk. apply embedding_formula; assumption.
Qed.

(** Under the contract of the square-root oracle, [NBoth] is D^-1/2 A D^-1/2 (zero rows/columns stay 0). *)
Theorem both_is_symmetric_normalisation sqrtf A i j :
  (forall d, 0 < d -> 0 < sqrtf d /\ sqrtf d * sqrtf d == d) ->
  0 < deg A i -> 0 < deg A j ->
  nspec sqrtf NBoth A i j * (sqrtf (deg A i) * sqrtf (deg A j)) == sentry A i j /\
  nspec sqrtf NBoth A i j * nspec sqrtf NBoth A i j * (deg A i * deg A j) == sentry A i j * sentry A i j.
Proof.
  intros Hs Hi Hj. destruct (Hs _ Hi) as [Pi Si]. destruct (Hs _ Hj) as [Pj Sj].
  cbn [nspec]. set (si := sqrtf (deg A i)) in *. set (sj := sqrtf (deg A j)) in *. set (a := sentry A i j).
  assert (~ si == 0) as Ni by (intros E; rewrite E in Pi; lra).
  assert (~ sj == 0) as Nj by (intros E; rewrite E in Pj; lra).
  assert (pinv si == / si) as Ei.
  { unfold pinv. destruct (Qeq_bool si 0) eqn:E; [apply Qeq_bool_iff in E; contradiction | reflexivity]. }
  assert (pinv sj == / sj) as Ej.
  { unfold pinv. destruct (Qeq_bool sj 0) eqn:E; [apply Qeq_bool_iff in E; contradiction | reflexivity]. }
  rewrite Ei, Ej. split.
  - field. split; assumption.
  - rewrite <- Si, <- Sj. field. split; assumption.
Qed.

Theorem both_zero_degree sqrtf A i j :
  Proper (Qeq ==> Qeq) sqrtf -> sqrtf 0 == 0 -> (deg A i == 0 \/ deg A j == 0) ->
  nspec sqrtf NBoth A i j == 0.
Proof.
  intros Hp H0 [H|H]; cbn [nspec]; rewrite (pinv_compat _ 0 (Qeq_trans _ _ _ (Hp _ _ H) H0));
    unfold pinv at 1; cbn; ring.
Qed.

(* ------------------------------------------------------------------------------------------- *)
(** * Renumbering the nodes *)
Definition relabel (p : list nat) (e : nat * Q) : nat * Q := (nthn p (fst e), snd e).

Lemma perm_adj_length p q A : length (perm_adj p q A) = length A.
Proof. unfold perm_adj. rewrite map_length, seq_length. reflexivity. Qed.

Lemma perm_adj_row p q A i' :
  (i' < length A)%nat -> nth i' (perm_adj p q A) [] = map (relabel p) (nth (nthn q i') A []).
Proof. intros Hi. unfold perm_adj. rewrite nth_map_seq by exact Hi. reflexivity. Qed.

Lemma perm_rows_length {X} q (M : list (list X)) : length (perm_rows q M) = length M.
Proof. unfold perm_rows. rewrite map_length, seq_length. reflexivity. Qed.

Lemma perm_rows_row {X} q (M : list (list X)) i' :
  (i' < length M)%nat -> nth i' (perm_rows q M) [] = nth (nthn q i') M [].
Proof. intros Hi. unfold perm_rows. rewrite nth_map_seq by exact Hi. reflexivity. Qed.

Lemma row_weight_relabel p r : row_weight (map (relabel p) r) = row_weight r.
Proof. unfold row_weight. rewrite map_map. reflexivity. Qed.

Lemma weights_perm p q A i' :
  (i' < length A)%nat -> nthq (weights (perm_adj p q A)) i' = nthq (weights A) (nthn q i').
Proof.
  intros Hi. rewrite !nthq_weights, perm_adj_row by exact Hi. apply row_weight_relabel.
Qed.

Lemma normalise_perm_row sqrtf nm p q A i' :
  wf_smat (length A) A -> inverse_on (length A) p q -> (i' < length A)%nat ->
  nth i' (normalise sqrtf nm (perm_adj p q A)) [] =
  map (relabel p) (nth (nthn q i') (normalise sqrtf nm A) []).
Proof.
  intros Hwf [Hpq [Hq Hqp]] Hi.
  assert (nthn q i' < length A)%nat as Hqi by (apply Hq; exact Hi).
  rewrite normalise_row by (rewrite perm_adj_length; exact Hi).
  rewrite normalise_row by exact Hqi.
  rewrite perm_adj_row by exact Hi.
  destruct nm; try reflexivity; unfold scale_row; rewrite !map_map; apply map_ext_in; intros e He;
    unfold relabel; cbn [fst snd]; f_equal.
  - rewrite weights_perm by exact Hi. reflexivity.
  - pose proof (wf_row A _ _ Hwf e He) as Hj. destruct (Hpq _ Hj) as [Hpj Eqp].
    rewrite weights_perm by exact Hpj. rewrite Eqp. reflexivity.
  - pose proof (wf_row A _ _ Hwf e He) as Hj. destruct (Hpq _ Hj) as [Hpj Eqp].
    rewrite !nthq_map_sqrt by (unfold weights; rewrite map_length, ?perm_adj_length; assumption).
    rewrite !weights_perm by assumption. rewrite Eqp. reflexivity.
Qed.

Lemma conv_adjacency_perm_row sqrtf L p q A i' :
  wf_smat (length A) A -> inverse_on (length A) p q -> (i' < length A)%nat ->
  nth i' (conv_adjacency sqrtf L (perm_adj p q A)) [] =
  map (relabel p) (nth (nthn q i') (conv_adjacency sqrtf L A) []).
Proof.
  intros Hwf Hinv Hi. pose proof Hinv as [Hpq [Hq Hqp]].
  assert (nthn q i' < length A)%nat as Hqi by (apply Hq; exact Hi).
  unfold conv_adjacency. destruct (l_self L).
  - rewrite !add_self_loops_row by (rewrite normalise_length, ?perm_adj_length; assumption).
    rewrite normalise_perm_row by assumption. cbn [map]. unfold relabel at 2. cbn [fst snd].
    rewrite (Hqp _ Hi). reflexivity.
  - apply normalise_perm_row; assumption.
Qed.

Lemma fentry_perm q F i' c :
  (i' < f_nrow F)%nat -> fentry (perm_feats q F) i' c = fentry F (nthn q i') c.
Proof.
  intros Hi. destruct F as [d rows|d rows]; cbn [perm_feats fentry f_nrow] in *.
  - unfold dentry. rewrite perm_rows_row by exact Hi. reflexivity.
  - unfold sentry. f_equal. exact (@perm_rows_row (nat * Q) q rows i' Hi).
Qed.

Lemma f_ncol_perm q F : f_ncol (perm_feats q F) = f_ncol F.
Proof. destruct F; reflexivity. Qed.

Lemma message_row_perm p q F (r : srow) :
  (forall j, (j < f_nrow F)%nat -> (nthn p j < f_nrow F)%nat /\ nthn q (nthn p j) = j) ->
  (forall e, In e r -> (fst e < f_nrow F)%nat) ->
  message_row (perm_feats q F) (map (relabel p) r) = message_row F r.
Proof.
  intros Hpq Hwf. unfold message_row. rewrite f_ncol_perm. apply map_ext. intros c.
  f_equal. rewrite map_map. apply map_ext_in. intros e He. unfold relabel. cbn [fst snd].
  destruct (Hpq _ (Hwf e He)) as [Hpj Eqp].
  rewrite fentry_perm by exact Hpj. rewrite Eqp. reflexivity.
Qed.

Theorem forward_equivariant sqrtf expf L A F p q :
  wf_smat (length A) A -> f_nrow F = length A -> inverse_on (length A) p q ->
  forward sqrtf expf L (perm_adj p q A) (perm_feats q F) = perm_rows q (forward sqrtf expf L A F).
Proof.
  intros Hwf HF Hinv. pose proof Hinv as [Hpq [Hq Hqp]].
  assert (length (forward sqrtf expf L A F) = length A) as Hlen
      by (unfold forward; rewrite map_length; apply embedding_length).
  set (h := fun F0 r => act_row expf (l_act L) (affine_row L (f_ncol F0) (message_row F0 r))).
  assert (forall F0 A0, forward sqrtf expf L A0 F0 = map (h F0) (conv_adjacency sqrtf L A0)) as Hfw.
  { intros F0 A0. unfold forward, embedding. rewrite map_map. reflexivity. }
  apply (nth_ext _ _ (h (perm_feats q F) []) []).
  - rewrite perm_rows_length, Hlen. rewrite Hfw, map_length, conv_adjacency_length. apply perm_adj_length.
  - intros i' Hi'. rewrite Hfw, map_length, conv_adjacency_length, perm_adj_length in Hi'.
    rewrite perm_rows_row by (rewrite Hlen; exact Hi').
    rewrite !Hfw. rewrite map_nth.
    rewrite (nth_map_default (h F) _ _ []) by (rewrite conv_adjacency_length; apply Hq; exact Hi').
    rewrite conv_adjacency_perm_row by assumption.
    unfold h. rewrite f_ncol_perm. rewrite message_row_perm; [reflexivity | rewrite HF; exact Hpq |].
    rewrite HF. apply conv_adjacency_wf; [exact Hwf | apply Hq; exact Hi'].
Qed.

Lemma inverse_onb_ok n p q : inverse_onb n p q = true -> inverse_on n p q.
Proof.
  unfold inverse_onb, inverse_on. intros H. rewrite forallb_forall in H.
  assert (forall j, (j < n)%nat -> (nthn p j < n)%nat /\ nthn q (nthn p j) = j /\ (nthn q j < n)%nat /\ nthn p (nthn q j) = j) as G.
  { intros j Hj. assert (In j (seq 0 n)) as Hin by (apply in_seq; lia). specialize (H j Hin).
    rewrite !andb_true_iff in H. destruct H as [[[H1 H2] H3] H4].
    apply Nat.ltb_lt in H1. apply Nat.eqb_eq in H2. apply Nat.ltb_lt in H3. apply Nat.eqb_eq in H4. auto. }
  split; [|split].
  - intros j Hj. destruct (G j Hj) as [H1 [H2 [H3 H4]]]. split; assumption.
  - intros j Hj. destruct (G j Hj) as [H1 [H2 [H3 H4]]]. assumption.
  - intros j Hj. destruct (G j Hj) as [H1 [H2 [H3 H4]]]. assumption.
Qed.

(* ------------------------------------------------------------------------------------------- *)
(** * UniformNeighborSampler *)
(** [r'] is a sample of at most [ss] stored entries of [r], in storage order, all weights reset to 1. *)
Definition sampled_of (ss : nat) (r r' : srow) : Prop :=
  exists ts, r' = map (fun t => (fst (nth t r (0%nat, 0)), 1)) ts /\
             NoDup ts /\ (forall t, In t ts -> (t < length r)%nat) /\
             (length ts <= Nat.min (length r) ss)%nat.

Lemma sample_row_spec ss r choice r' : sample_row ss r choice = Ok r' -> sampled_of ss r r'.
Proof.
  unfold sample_row. cbv zeta.
  set (k := Nat.min (length r) ss). set (pos := firstn k choice).
  destruct (forallb (fun t => Nat.ltb t (length r)) pos) eqn:E; [|discriminate].
  intros H. injection H as H. subst r'.
  exists (filter (fun t => memn t pos) (seq 0 (length r))). split; [reflexivity|]. split; [|split].
  - apply NoDup_filter. apply seq_NoDup.
  - intros t Ht. apply filter_In in Ht. destruct Ht as [Ht _]. apply in_seq in Ht. lia.
  - transitivity (length pos).
    + apply NoDup_incl_length; [apply NoDup_filter; apply seq_NoDup|].
      intros t Ht. apply filter_In in Ht. destruct Ht as [_ Ht]. apply memn_In. exact Ht.
    + unfold pos. rewrite firstn_length. lia.
Qed.

Lemma sampled_of_subset ss r r' :
  sampled_of ss r r' ->
  (length r' <= ss)%nat /\ (length r' <= length r)%nat /\
  forall e, In e r' -> snd e = 1 /\ exists e0, In e0 r /\ fst e0 = fst e.
Proof.
  intros [ts [E [Hnd [Hlt Hlen]]]]. subst r'. rewrite map_length. split; [lia|]. split; [lia|].
  intros e He. apply in_map_iff in He. destruct He as [t [Et Ht]]. subst e. cbn [fst snd].
  split; [reflexivity|]. exists (nth t r (0%nat, 0)). split; [apply nth_In; apply Hlt; exact Ht | reflexivity].
Qed.

Lemma NoDup_app_l {X} (l1 l2 : list X) : NoDup (l1 ++ l2) -> NoDup l1.
Proof.
  induction l1 as [|a t IH]; intros H; [constructor|].
  cbn in H. inversion H as [|a' l' Hnotin Hnd]; subst. constructor.
  - intros Hin. apply Hnotin. apply in_or_app. left. exact Hin.
  - apply IH. exact Hnd.
Qed.

(** With an answer that honours the contract of [np.random.choice(deg, size, replace=False)] the
    sample has exactly min(deg, sample_size) entries. *)
Lemma sample_row_exact ss r choice :
  NoDup choice -> (forall t, In t choice -> (t < length r)%nat) -> (Nat.min (length r) ss <= length choice)%nat ->
  exists r', sample_row ss r choice = Ok r' /\ length r' = Nat.min (length r) ss.
Proof.
  intros Hnd Hlt Hlen. unfold sample_row. cbv zeta.
  set (k := Nat.min (length r) ss). set (pos := firstn k choice).
  assert (forall t, In t pos -> In t choice) as Hin
      by (intros t Ht; rewrite <- (firstn_skipn k choice); apply in_or_app; left; exact Ht).
  assert (NoDup pos) as Hndp.
  { rewrite <- (firstn_skipn k choice) in Hnd. apply NoDup_app_l in Hnd. exact Hnd. }
  assert (forallb (fun t => Nat.ltb t (length r)) pos = true) as E.
  { apply forallb_forall. intros t Ht. apply Nat.ltb_lt. apply Hlt. apply Hin. exact Ht. }
  rewrite E. eexists. split; [reflexivity|]. rewrite map_length.
  apply Nat.le_antisymm.
  - transitivity (length pos); [|unfold pos; rewrite firstn_length; lia].
    apply NoDup_incl_length; [apply NoDup_filter; apply seq_NoDup|].
    intros t Ht. apply filter_In in Ht. destruct Ht as [_ Ht]. apply memn_In. exact Ht.
  - transitivity (length pos); [unfold pos; rewrite firstn_length; lia|].
    apply NoDup_incl_length; [exact Hndp|].
    intros t Ht. apply filter_In. split; [apply in_seq; specialize (Hlt t (Hin t Ht)); lia | apply memn_In; exact Ht].
Qed.

Theorem sampler_subset ss A choices A' :
  sample_rows ss A choices = Ok A' -> Forall2 (sampled_of ss) A A'.
Proof.
  revert choices A'. induction A as [|r A IH]; intros choices A' H; cbn [sample_rows] in H.
  - injection H as H. subst A'. constructor.
  - destruct (sample_row ss r (hd [] choices)) as [r'|] eqn:E1; [|discriminate].
    destruct (sample_rows ss A (tl choices)) as [rest|] eqn:E2; [|discriminate].
    injection H as H. subst A'. constructor; [exact (sample_row_spec _ _ _ _ E1) | exact (IH _ _ E2)].
Qed.

(* ------------------------------------------------------------------------------------------- *)
(** * Predictions *)
Lemma Qltb_lt a b : Qltb a b = true <-> a < b.
Proof.
  unfold Qltb. rewrite negb_true_iff. split.
  - intros H. apply Qnot_le_lt. intros Hle. apply Qle_bool_iff in Hle. congruence.
  - intros H. destruct (Qle_bool b a) eqn:E; [|reflexivity]. apply Qle_bool_iff in E. lra.
Qed.

Lemma Qltb_ge a b : Qltb a b = false <-> b <= a.
Proof.
  unfold Qltb. rewrite negb_false_iff. apply Qle_bool_iff.
Qed.

Lemma argmax_from_spec (L : list Q) :
  forall l pre best besti,
    L = pre ++ l -> (besti < length pre)%nat -> nthq L besti = best ->
    (forall x, In x pre -> x <= best) ->
    let r := argmax_from best besti (length pre) l in
    (r < length L)%nat /\ forall x, In x L -> x <= nthq L r.
Proof.
  induction l as [|x t IH]; intros pre best besti HL Hb Hn Hpre; cbn [argmax_from].
  - rewrite app_nil_r in HL. subst L. cbv zeta. split; [exact Hb|]. rewrite Hn. exact Hpre.
  - assert (L = (pre ++ [x]) ++ t) as HL' by (rewrite <- app_assoc; exact HL).
    assert (length (pre ++ [x]) = S (length pre)) as Hlen by (rewrite app_length; cbn; lia).
    destruct (Qltb best x) eqn:E.
    + apply Qltb_lt in E. rewrite <- Hlen. apply IH.
      * exact HL'.
      * lia.
      * rewrite HL. unfold nthq. apply nth_middle.
      * intros y Hy. apply in_app_or in Hy. destruct Hy as [Hy|[Hy|[]]].
        -- specialize (Hpre y Hy). lra.
        -- subst y. lra.
    + apply Qltb_ge in E. rewrite <- Hlen. apply IH.
      * exact HL'.
      * lia.
      * exact Hn.
      * intros y Hy. apply in_app_or in Hy. destruct Hy as [Hy|[Hy|[]]].
        -- exact (Hpre y Hy).
        -- subst y. exact E.
Qed.

Lemma argmax_spec (l : list Q) :
  l <> [] -> (argmax l < length l)%nat /\ forall x, In x l -> x <= nthq l (argmax l).
Proof.
  destruct l as [|x t]; [congruence|]. intros _. unfold argmax.
  apply (argmax_from_spec (x :: t) t [x] x 0%nat).
  - reflexivity.
  - cbn. lia.
  - reflexivity.
  - intros y [Hy|[]]. subst y. lra.
Qed.

Lemma predict_row_range row : (1 <= length row)%nat -> (predict_row row < Nat.max (length row) 2)%nat.
Proof.
  intros H. destruct row as [|x [|y t]].
  - cbn in H. lia.
  - cbn [predict_row length]. destruct (Qltb (1 # 2) x); cbn; lia.
  - cbn [predict_row]. pose proof (argmax_spec (x :: y :: t)) as [Hlt _]; [discriminate|]. lia.
Qed.

Theorem predictions_in_range (output : dmat) (o : nat) :
  (1 <= o)%nat -> (forall row, In row output -> length row = o) ->
  length (compute_predictions output) = length output /\
  (forall y, In y (compute_predictions output) -> (y < Nat.max o 2)%nat) /\
  (forall row, In row output -> (2 <= o)%nat ->
     (predict_row row < o)%nat /\ forall x, In x row -> x <= nthq row (predict_row row)).
Proof.
  intros Ho Hrows. unfold compute_predictions. split; [apply map_length|]. split.
  - intros y Hy. apply in_map_iff in Hy. destruct Hy as [row [E Hrow]]. subst y.
    rewrite <- (Hrows row Hrow). apply predict_row_range. rewrite (Hrows row Hrow). exact Ho.
  - intros row Hrow H2. specialize (Hrows row Hrow).
    destruct row as [|x [|y t]]; cbn [length] in Hrows; try lia.
    cbn [predict_row]. rewrite <- Hrows. apply argmax_spec. discriminate.
Qed.

(** Softmax rows sum to 1 whenever the sum of the exponentials is not 0 (in particular for a positive
    exp oracle and at least one channel). *)
Lemma softmax_row_sum expf row : ~ sumq (map expf row) == 0 -> sumq (softmax_row expf row) == 1.
Proof.
  intros Hs. unfold softmax_row, g_softmax_row. cbv zeta. fold (sumq (map expf row)).
  set (s := sumq (map expf row)) in *.
  change (sumq (map (fun a => a * / s) (map expf row)) == 1).
  rewrite (sumq_map_scale_r (/ s) (fun a => a)). rewrite map_id. fold s. field. exact Hs.
Qed.

Lemma sumq_pos (l : list Q) : l <> [] -> (forall x, In x l -> 0 < x) -> 0 < sumq l.
Proof.
  induction l as [|a t IH]; [congruence|]. intros _ H. cbn [sumq fold_right].
  pose proof (H a (or_introl eq_refl)) as Ha.
  destruct t as [|b t'].
  - cbn. lra.
  - assert (0 < sumq (b :: t')) as Ht by (apply IH; [discriminate | intros x Hx; apply H; right; exact Hx]).
    unfold sumq in Ht. lra.
Qed.

Theorem softmax_rows_sum_1_Q expf row :
  (forall x, 0 < expf x) -> row <> [] -> sumq (softmax_row expf row) == 1.
Proof.
  intros Hpos Hne. apply softmax_row_sum.
  assert (0 < sumq (map expf row)) as H.
  { apply sumq_pos.
    - destruct row; [congruence | discriminate].
    - intros x Hx. apply in_map_iff in Hx. destruct Hx as [y [E _]]. subst x. apply Hpos. }
  intros E. rewrite E in H. lra.
Qed.

Theorem probability_rows sqrtf expf L A F :
  (l_act L = Softmax \/ l_act L = CrossEntropyLoss) -> (1 <= l_out L)%nat -> (forall x, 0 < expf x) ->
  forall row, In row (forward sqrtf expf L A F) -> length row = l_out L /\ sumq row == 1.
Proof.
  intros Hact Ho Hpos row Hrow. unfold forward, embedding in Hrow. rewrite map_map in Hrow.
  apply in_map_iff in Hrow. destruct Hrow as [r [E _]]. subst row.
  set (x := affine_row L (f_ncol F) (message_row F r)).
  assert (length x = l_out L) as Hx by (unfold x, affine_row; rewrite map_length, seq_length; reflexivity).
  assert (act_row expf (l_act L) x = softmax_row expf x) as Ea by (destruct Hact as [H|H]; rewrite H; reflexivity).
  rewrite Ea. split.
  - unfold softmax_row, g_softmax_row. cbv zeta. rewrite !map_length. exact Hx.
  - apply softmax_rows_sum_1_Q; [exact Hpos|]. destruct x; [cbn in Hx; lia | discriminate].
Qed.

Theorem predict_proba_multi (output : dmat) (o : nat) :
  (2 <= o)%nat -> (forall row, In row output -> length row = o) -> predict_proba output = output.
Proof.
  intros Ho Hrows. destruct output as [|row rest]; [reflexivity|].
  specialize (Hrows row (or_introl eq_refl)). destruct row as [|x [|y t]]; cbn in Hrows; try lia; reflexivity.
Qed.

(** Single output channel: predict_proba returns the two columns (1 - p, p), whose rows sum to 1. *)
Theorem predict_proba_single (output : dmat) :
  (forall row, In row output -> length row = 1%nat) ->
  length (predict_proba output) = length output /\
  forall i, (i < length output)%nat ->
    exists p, nth i output [] = [p] /\ nth i (predict_proba output) [] = [1 - p; p] /\
              sumq (nth i (predict_proba output) []) == 1.
Proof.
  intros H.
  assert (predict_proba output = map (fun row => match row with [p] => [1 - p; p] | _ => row end) output) as E.
  { destruct output as [|row rest]; [reflexivity|].
    pose proof (H row (or_introl eq_refl)) as Hr. destruct row as [|x [|y t]]; cbn in Hr; try lia. reflexivity. }
  rewrite E. split; [apply map_length|].
  intros i Hi. pose proof (H (nth i output []) (nth_In _ _ Hi)) as Hr.
  destruct (nth i output []) as [|p [|y t]] eqn:En; cbn in Hr; try lia.
  exists p. split; [reflexivity|].
  rewrite (nth_map_default _ output i []) by exact Hi. rewrite En. split; [reflexivity|]. cbn. ring.
Qed.

(** Legacy (before repo commit 166aefc2): the coded call [np.vstack(1 - probs, probs)] raised. *)
Theorem predict_proba_single_legacy_refuted :
  exists output : dmat,
    (forall row, In row output -> length row = 1%nat) /\ output <> [] /\
    predict_proba_legacy output = Err TypeError.
Proof.
  exists [[1 # 4]; [3 # 4]]. split; [|split].
  - intros row [H|[H|[]]]; subst row; reflexivity.
  - discriminate.
  - reflexivity.
Qed.

Lemma Forall2_impl {X Y} (P Q : X -> Y -> Prop) l1 l2 :
  (forall a b, P a b -> Q a b) -> Forall2 P l1 l2 -> Forall2 Q l1 l2.
Proof. intros H. induction 1; constructor; auto. Qed.

(** The statement of the property: for every choice stream on which the sampler returns, each sampled
    row has at most sample_size entries, no more than the row, all of weight 1, taken from the row. *)
Theorem sampler_subset_explicit ss A choices A' :
  sample_rows ss A choices = Ok A' ->
  Forall2 (fun r r' : srow =>
             (length r' <= ss)%nat /\ (length r' <= length r)%nat /\
             forall e, In e r' -> snd e = 1 /\ exists e0, In e0 r /\ fst e0 = fst e) A A'.
Proof.
  intros H. apply (Forall2_impl (sampled_of ss)); [apply sampled_of_subset | exact (sampler_subset _ _ _ _ H)].
Qed.

(** A BinaryCrossEntropy output layer with several channels applies independent sigmoids: its rows are not
    probability distributions (here 3 channels, every entry 1/2). *)
Theorem probability_rows_bce_multi_refuted :
  exists (expf : Q -> Q) (L : layer) (A : smat) (F : feats),
    (forall x, 0 < expf x) /\ l_act L = BinaryCrossEntropyLoss /\ l_out L = 3%nat /\
    exists row, In row (forward (fun x => x) expf L A F) /\ ~ sumq row == 1.
Proof.
  exists (fun _ => 1),
         {| l_norm := NLeft; l_self := true; l_use_bias := false; l_act := BinaryCrossEntropyLoss; l_out := 3;
            l_weight := [[0; 0; 0]]; l_bias := [] |},
         [[]], (Dense 1 [[0]]).
  split; [intros; reflexivity|]. split; [reflexivity|]. split; [reflexivity|].
  eexists. split; [left; reflexivity|]. vm_compute. discriminate.
Qed.

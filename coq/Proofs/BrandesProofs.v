(** Unbounded correctness of the Brandes model (Model/Centrality.v: [brandes_bfs], [back_step],
    [brandes_source], [betweenness]) against the brute-force textbook [betweenness_spec].

    Hypotheses used throughout: [gwf p] (every stored column index is < n) and [gnd p] (no row stores
    a column twice: the walk matrix [A01] of the specification is 0/1, whereas the code would count a
    duplicated CSR entry twice).  No connectivity hypothesis: unreachable nodes contribute 0. *)
From Coq Require Import Qabs Qreduction Lqa Lia Setoid Permutation Sorted.
From SKN Require Import Base.Util Model.Bfs Proofs.BfsProofs Model.PageRank Proofs.PageRankProofs Model.Centrality.
Close Scope Q_scope.
Open Scope nat_scope.

Definition gwf (p : graph) : Prop := forall u v, In v (row p u) -> v < length p.
Definition gnd (p : graph) : Prop := forall u, NoDup (row p u).

(* ------------------------------------------------------------------------------------------ *)
(** * Part A. Walk counts (specification side) *)

(** [nw p k s t]: number of walks of k edges from s to t (the specification's [nwalks] without [Qred]). *)
Fixpoint nw (p : graph) (k : nat) (s t : nat) : Q :=
  match k with
  | O => if Nat.eqb s t then 1%Q else 0%Q
  | S k' => bsum (length p) (fun u => nw p k' s u * A01 p u t)%Q
  end.

Lemma nwalks_length p k s : length (nwalks p k s) = length p.
Proof.
  destruct k as [|k]; cbn [nwalks].
  - rewrite map_length. apply seq_length.
  - apply tab_length.
Qed.

Lemma nwalks_nw p k s t : t < length p -> (V (nwalks p k s) t == nw p k s t)%Q.
Proof.
  revert t. induction k as [|k IH]; intros t Ht.
  - cbn [nwalks nw]. unfold V, nthq. rewrite nth_map_seq by exact Ht. reflexivity.
  - cbn [nwalks nw]. rewrite V_tab by exact Ht. apply bsum_ext. intros u Hu.
    rewrite (IH u Hu). reflexivity.
Qed.

Lemma A01_cases p u t : (A01 p u t = 1%Q /\ In t (row p u)) \/ (A01 p u t = 0%Q /\ ~ In t (row p u)).
Proof.
  unfold A01. destruct (memn t (row p u)) eqn:E.
  - left. split; [reflexivity|]. apply memn_In. exact E.
  - right. split; [reflexivity|]. intros H. apply memn_In in H. congruence.
Qed.

Lemma A01_nonneg p u t : (0 <= A01 p u t)%Q.
Proof. destruct (A01_cases p u t) as [[E _]|[E _]]; rewrite E; lra. Qed.

Lemma nw_nonneg p k s t : (0 <= nw p k s t)%Q.
Proof.
  revert t. induction k as [|k IH]; intros t; cbn [nw].
  - destruct (Nat.eqb s t); lra.
  - apply bsum_nonneg. intros u _. assert (H1 := IH u). assert (H2 := A01_nonneg p u t). nra.
Qed.

Lemma bsum_pos_iff n f :
  (forall i, i < n -> (0 <= f i)%Q) -> ((0 < bsum n f)%Q <-> exists i, i < n /\ (0 < f i)%Q).
Proof.
  induction n as [|n IH]; intros Hf; cbn [bsum].
  - split; [intros H; lra|intros (i & Hi & _); lia].
  - assert (Hf' : forall i, i < n -> (0 <= f i)%Q) by (intros i Hi; apply Hf; lia).
    assert (H0 := bsum_nonneg n f Hf'). assert (Hn := Hf n (Nat.lt_succ_diag_r n)).
    split.
    + intros H. destruct (Qlt_le_dec 0 (f n)) as [L|L].
      * exists n. split; [lia|exact L].
      * assert (Hb : (0 < bsum n f)%Q) by lra. apply (IH Hf') in Hb. destruct Hb as (i & Hi & Hp).
        exists i. split; [lia|exact Hp].
    + intros (i & Hi & Hp). destruct (Nat.eq_dec i n) as [->|Ne]; [lra|].
      assert (Hb : (0 < bsum n f)%Q) by (apply (IH Hf'); exists i; split; [lia|exact Hp]). lra.
Qed.

Lemma nthb_single_source n s v : v < n -> nthb (single_source n s) v = Nat.eqb s v.
Proof. intros Hv. unfold nthb, single_source. apply nth_map_seq. exact Hv. Qed.

Lemma nthb_single_source_out n s v : n <= v -> nthb (single_source n s) v = false.
Proof.
  intros Hv. unfold nthb, single_source. apply nth_overflow. rewrite map_length, seq_length. exact Hv.
Qed.

Local Notation src p s := (single_source (length p) s).

Lemma reachk_lt p s k v : gwf p -> s < length p -> reachk p (src p s) k v -> v < length p.
Proof.
  intros Hwf Hs. destruct k as [|k]; cbn [reachk].
  - intros H. destruct (Nat.lt_ge_cases v (length p)) as [L|L]; [exact L|].
    rewrite nthb_single_source_out in H by exact L. discriminate.
  - intros (u & _ & Hin). exact (Hwf _ _ Hin).
Qed.

Lemma nw_pos_reach p s : gwf p -> s < length p ->
  forall k t, t < length p -> ((0 < nw p k s t)%Q <-> reachk p (src p s) k t).
Proof.
  intros Hwf Hs. induction k as [|k IH]; intros t Ht.
  - cbn [nw reachk]. rewrite nthb_single_source by exact Ht. destruct (Nat.eqb s t); split; intros H; try lra; try discriminate; reflexivity.
  - cbn [nw reachk]. rewrite bsum_pos_iff.
    + split.
      * intros (u & Hu & Hp). destruct (A01_cases p u t) as [[E Hin]|[E _]]; rewrite E in Hp.
        -- exists u. split; [|exact Hin]. apply (IH u Hu). lra.
        -- lra.
      * intros (u & Hr & Hin). assert (Hu := row_nonempty_lt _ _ _ Hin). exists u. split; [exact Hu|].
        apply (IH u Hu) in Hr. destruct (A01_cases p u t) as [[E _]|[_ Hn]]; [rewrite E; lra|contradiction].
    + intros u _. assert (H1 := nw_nonneg p k s u). assert (H2 := A01_nonneg p u t). nra.
Qed.

(** Sum against an indicator of one index. *)
Lemma bsum_pick n (f : nat -> Q) t : t < n -> (bsum n (fun j => f j * (if Nat.eqb j t then 1 else 0)) == f t)%Q.
Proof.
  intros Ht. rewrite <- (bsum_delta n t (f t) Ht). apply bsum_ext. intros j _.
  destruct (Nat.eqb j t) eqn:E; [apply Nat.eqb_eq in E; subst j; ring|ring].
Qed.

Lemma bsum_pick_l n (f : nat -> Q) t : t < n -> (bsum n (fun j => (if Nat.eqb t j then 1 else 0) * f j) == f t)%Q.
Proof.
  intros Ht. rewrite <- (bsum_pick n f t Ht). apply bsum_ext. intros j _.
  rewrite (Nat.eqb_sym t j). ring.
Qed.

(** Chapman-Kolmogorov. *)
Lemma nw_compose p a b s t : t < length p ->
  (nw p (a + b) s t == bsum (length p) (fun v => nw p a s v * nw p b v t))%Q.
Proof.
  revert t. induction b as [|b IH]; intros t Ht.
  - rewrite Nat.add_0_r. cbn [nw]. symmetry. apply bsum_pick. exact Ht.
  - rewrite Nat.add_succ_r. cbn [nw].
    transitivity (bsum (length p) (fun u => bsum (length p) (fun v => nw p a s v * nw p b v u * A01 p u t)))%Q.
    { apply bsum_ext. intros u Hu. rewrite (IH u Hu). rewrite <- bsum_scale_r. reflexivity. }
    rewrite bsum_swap. apply bsum_ext. intros v _.
    rewrite <- bsum_scale. apply bsum_ext. intros u _. ring.
Qed.

Lemma nw_1 p v w : v < length p -> (nw p 1 v w == A01 p v w)%Q.
Proof. intros Hv. cbn [nw]. apply (bsum_pick_l (length p) (fun u => A01 p u w) v Hv). Qed.

(** First-step decomposition. *)
Lemma nw_first p m v t : v < length p -> t < length p ->
  (nw p (S m) v t == bsum (length p) (fun w => A01 p v w * nw p m w t))%Q.
Proof.
  intros Hv Ht. change (S m) with (1 + m). rewrite nw_compose by exact Ht.
  apply bsum_ext. intros w _. rewrite (nw_1 p v w Hv). reflexivity.
Qed.

Lemma nw_pos_compose p a b s v t : v < length p -> t < length p ->
  (0 < nw p a s v)%Q -> (0 < nw p b v t)%Q -> (0 < nw p (a + b) s t)%Q.
Proof.
  intros Hv Ht H1 H2. rewrite nw_compose by exact Ht. apply bsum_pos_iff.
  - intros u _. assert (G1 := nw_nonneg p a s u). assert (G2 := nw_nonneg p b u t). nra.
  - exists v. split; [exact Hv|nra].
Qed.

(** [sdist p s t d]: d is the length of the shortest walks from s to t. *)
Definition sdist (p : graph) (s t d : nat) : Prop :=
  (0 < nw p d s t)%Q /\ forall k, k < d -> (nw p k s t == 0)%Q.

Lemma nw_zero_or_pos p k s t : (nw p k s t == 0)%Q \/ (0 < nw p k s t)%Q.
Proof. assert (H := nw_nonneg p k s t). destruct (Qlt_le_dec 0 (nw p k s t)) as [L|L]; [right; exact L|left; lra]. Qed.

Lemma sdist_hop p s t d : gwf p -> s < length p -> t < length p ->
  (sdist p s t d <-> hop p (src p s) t d).
Proof.
  intros Hwf Hs Ht. unfold sdist, hop. split.
  - intros [H1 H2]. split; [apply (nw_pos_reach p s Hwf Hs d t Ht); exact H1|].
    intros j Hj Hr. apply (nw_pos_reach p s Hwf Hs j t Ht) in Hr. rewrite (H2 j Hj) in Hr. lra.
  - intros [H1 H2]. split; [apply (nw_pos_reach p s Hwf Hs d t Ht); exact H1|].
    intros k Hk. destruct (nw_zero_or_pos p k s t) as [Z|Pz]; [exact Z|].
    exfalso. apply (H2 k Hk). apply (nw_pos_reach p s Hwf Hs k t Ht). exact Pz.
Qed.

Lemma sdist_unique p s t d1 d2 : sdist p s t d1 -> sdist p s t d2 -> d1 = d2.
Proof.
  intros [P1 Z1] [P2 Z2]. destruct (Nat.lt_trichotomy d1 d2) as [L|[E|L]]; [|exact E|].
  - rewrite (Z2 d1 L) in P1. lra.
  - rewrite (Z1 d2 L) in P2. lra.
Qed.

(** Pigeonhole: a shortest walk visits nodes at hop distances 0, 1, ..., d, all distinct. *)
Lemma hop_chain p s : gwf p -> s < length p ->
  forall d t, hop p (src p s) t d ->
  exists f : nat -> nat, forall j, j <= d -> hop p (src p s) (f j) j /\ f j < length p.
Proof.
  intros Hwf Hs. induction d as [|d IH]; intros t Hh.
  - exists (fun _ => t). intros j Hj. assert (j = 0) by lia. subst j. split; [exact Hh|].
    destruct Hh as [Hr _]. exact (reachk_lt p s 0 t Hwf Hs Hr).
  - destruct Hh as [Hr Hm]. assert (Ht := reachk_lt p s (S d) t Hwf Hs Hr).
    cbn [reachk] in Hr. destruct Hr as (u & Hru & Hin).
    assert (Hu : hop p (src p s) u d).
    { split; [exact Hru|]. intros j Hj Hrj. apply (Hm (S j)); [lia|]. cbn [reachk]. exists u. split; assumption. }
    destruct (IH u Hu) as (f & Hf).
    exists (fun j => if Nat.eqb j (S d) then t else f j). intros j Hj.
    destruct (Nat.eqb j (S d)) eqn:E.
    + apply Nat.eqb_eq in E. subst j. split; [|exact Ht]. split; [cbn [reachk]; exists u; split; assumption|exact Hm].
    + apply Nat.eqb_neq in E. apply Hf. lia.
Qed.

Lemma NoDup_map_inj_in {A B} (f : A -> B) (l : list A) :
  (forall x y, In x l -> In y l -> f x = f y -> x = y) -> NoDup l -> NoDup (map f l).
Proof.
  induction l as [|a l IH]; intros Hinj Hnd; cbn [map]; [constructor|].
  inversion Hnd as [|? ? Hna Hnd']; subst. constructor.
  - intros Hin. apply in_map_iff in Hin. destruct Hin as (y & E & Hy).
    assert (y = a) by (apply Hinj; [right; exact Hy|left; reflexivity|exact E]). subst y. contradiction.
  - apply IH; [|exact Hnd']. intros x y Hx Hy. apply Hinj; right; assumption.
Qed.

Lemma hop_lt_n p s d t : gwf p -> s < length p -> hop p (src p s) t d -> d < length p.
Proof.
  intros Hwf Hs Hh. destruct (hop_chain p s Hwf Hs d t Hh) as (f & Hf).
  assert (Hnd : NoDup (map f (seq 0 (S d)))).
  { apply NoDup_map_inj_in; [|apply seq_NoDup].
    intros x y Hx Hy E. apply in_seq in Hx. apply in_seq in Hy.
    destruct (Hf x) as [Hhx _]; [lia|]. destruct (Hf y) as [Hhy _]; [lia|]. rewrite E in Hhx.
    exact (hop_unique _ _ _ _ _ Hhx Hhy). }
  assert (Hincl : incl (map f (seq 0 (S d))) (seq 0 (length p))).
  { intros x Hx. apply in_map_iff in Hx. destruct Hx as (j & <- & Hj). apply in_seq in Hj.
    apply in_seq. destruct (Hf j) as [_ L]; lia. }
  assert (H := NoDup_incl_length Hnd Hincl). rewrite map_length, !seq_length in H. lia.
Qed.

Lemma sdist_lt_n p s t d : gwf p -> s < length p -> t < length p -> sdist p s t d -> d < length p.
Proof. intros Hwf Hs Ht H. apply (hop_lt_n p s d t Hwf Hs). apply sdist_hop; assumption. Qed.

(* ------------------------------------------------------------------------------------------ *)
(** * Part A2. The brute-force [sp_info] and [pair_dependency] in terms of [nw] / [sdist] *)

Lemma filter_seq_nil (f : nat -> bool) a n : filter f (seq a n) = [] -> forall k, a <= k < a + n -> f k = false.
Proof.
  revert a. induction n as [|n IH]; intros a H k Hk; [lia|].
  cbn [seq filter] in H. destruct (f a) eqn:E; [discriminate|].
  destruct (Nat.eq_dec k a) as [->|Ne]; [exact E|]. apply (IH (S a) H). lia.
Qed.

Lemma filter_seq_cons (f : nat -> bool) a n k r : filter f (seq a n) = k :: r ->
  a <= k < a + n /\ f k = true /\ forall j, a <= j < k -> f j = false.
Proof.
  revert a. induction n as [|n IH]; intros a H; [discriminate|].
  cbn [seq filter] in H. destruct (f a) eqn:E.
  - injection H as <- _. split; [lia|]. split; [exact E|]. intros j Hj. lia.
  - destruct (IH (S a) H) as (H1 & H2 & H3). split; [lia|]. split; [exact H2|].
    intros j Hj. destruct (Nat.eq_dec j a) as [->|Ne]; [exact E|]. apply H3. lia.
Qed.

Definition nzb (p : graph) (s t k : nat) : bool := negb (Qeq_bool (V (nwalks p k s) t) 0).

Lemma nzb_true p s t k : t < length p -> (nzb p s t k = true <-> (0 < nw p k s t)%Q).
Proof.
  intros Ht. unfold nzb. rewrite negb_true_iff. assert (H0 := nw_nonneg p k s t). split.
  - intros H. apply Qeq_bool_neq in H. rewrite (nwalks_nw p k s t Ht) in H.
    destruct (nw_zero_or_pos p k s t) as [Z|Pz]; [contradiction|exact Pz].
  - intros H. destruct (Qeq_bool (V (nwalks p k s) t) 0) eqn:E; [|reflexivity].
    apply Qeq_bool_iff in E. rewrite (nwalks_nw p k s t Ht) in E. lra.
Qed.

Lemma nzb_false p s t k : t < length p -> (nzb p s t k = false <-> (nw p k s t == 0)%Q).
Proof.
  intros Ht. assert (H := nzb_true p s t k Ht). destruct (nzb p s t k).
  - split; [discriminate|]. intros Z. assert (P : (0 < nw p k s t)%Q) by (apply H; reflexivity). lra.
  - split; [|reflexivity]. intros _. destruct (nw_zero_or_pos p k s t) as [Z|Pz]; [exact Z|].
    apply H in Pz. discriminate.
Qed.

Lemma sp_info_unfold p s t :
  sp_info p s t = match filter (nzb p s t) (seq 0 (length p)) with
                  | [] => None
                  | k :: _ => Some (k, V (nwalks p k s) t)
                  end.
Proof. reflexivity. Qed.

Lemma sp_info_inv p s t d x : t < length p -> sp_info p s t = Some (d, x) ->
  sdist p s t d /\ x = V (nwalks p d s) t /\ d < length p.
Proof.
  intros Ht. rewrite sp_info_unfold. destruct (filter (nzb p s t) (seq 0 (length p))) as [|k r] eqn:E; [discriminate|].
  intros H. injection H as <- <-. destruct (filter_seq_cons _ _ _ _ _ E) as (H1 & H2 & H3).
  split; [|split; [reflexivity|lia]]. split.
  - apply nzb_true; assumption.
  - intros j Hj. apply (nzb_false p s t j Ht). apply H3. lia.
Qed.

Lemma sp_info_none_inv p s t : t < length p -> sp_info p s t = None ->
  forall k, k < length p -> (nw p k s t == 0)%Q.
Proof.
  intros Ht. rewrite sp_info_unfold. destruct (filter (nzb p s t) (seq 0 (length p))) as [|k r] eqn:E; [|discriminate].
  intros _ k Hk. apply (nzb_false p s t k Ht). apply (filter_seq_nil _ _ _ E). lia.
Qed.

Lemma sp_info_some p s t d : gwf p -> s < length p -> t < length p -> sdist p s t d ->
  sp_info p s t = Some (d, V (nwalks p d s) t).
Proof.
  intros Hwf Hs Ht Hd. assert (Hdn := sdist_lt_n p s t d Hwf Hs Ht Hd).
  destruct (sp_info p s t) as [[k x]|] eqn:E.
  - destruct (sp_info_inv p s t k x Ht E) as (Hk & -> & _).
    rewrite (sdist_unique _ _ _ _ _ Hk Hd). reflexivity.
  - exfalso. assert (Z := sp_info_none_inv p s t Ht E d Hdn). destruct Hd as [Pd _]. lra.
Qed.

Lemma sp_info_none p s t : t < length p -> (forall k, (nw p k s t == 0)%Q) -> sp_info p s t = None.
Proof.
  intros Ht Hz. destruct (sp_info p s t) as [[k x]|] eqn:E; [|reflexivity].
  exfalso. destruct (sp_info_inv p s t k x Ht E) as ([Pk _] & _ & _). rewrite (Hz k) in Pk. lra.
Qed.

(** The pair dependency of v on (s, t), in terms of distances from s. *)
Lemma pair_dep_on p s t v dt dv : gwf p -> s < length p -> t < length p -> v < length p ->
  sdist p s t dt -> sdist p s v dv -> dv <= dt ->
  (pair_dependency p s t v == nw p dv s v * nw p (dt - dv) v t / nw p dt s t)%Q.
Proof.
  intros Hwf Hs Ht Hv Hdt Hdv Hle. unfold pair_dependency.
  rewrite (sp_info_some p s t dt Hwf Hs Ht Hdt), (sp_info_some p s v dv Hwf Hs Hv Hdv).
  assert (Hdtn := sdist_lt_n p s t dt Hwf Hs Ht Hdt).
  destruct (sp_info p v t) as [[d2 z]|] eqn:E.
  - destruct (sp_info_inv p v t d2 z Ht E) as (Hd2 & -> & _).
    destruct (Nat.eqb (dv + d2) dt) eqn:E2.
    + apply Nat.eqb_eq in E2. replace (dt - dv) with d2 by lia.
      rewrite !nwalks_nw by assumption. reflexivity.
    + apply Nat.eqb_neq in E2.
      assert (Z : (nw p (dt - dv) v t == 0)%Q).
      { destruct (nw_zero_or_pos p (dt - dv) v t) as [Z|Pz]; [exact Z|]. exfalso.
        destruct Hd2 as [P2 Z2]. destruct (Nat.lt_ge_cases (dt - dv) d2) as [L|L].
        - rewrite (Z2 _ L) in Pz. lra.
        - destruct Hdv as [Pv _]. destruct Hdt as [_ Zt].
          assert (Pc := nw_pos_compose p dv d2 s v t Hv Ht Pv P2).
          rewrite (Zt (dv + d2)) in Pc by lia. lra. }
      rewrite Z. unfold Qdiv. ring.
  - assert (Z := sp_info_none_inv p v t Ht E (dt - dv)). rewrite Z by lia. unfold Qdiv. ring.
Qed.

Lemma pair_dep_off p s t v dt dv : gwf p -> s < length p -> t < length p -> v < length p ->
  sdist p s t dt -> sdist p s v dv -> dt < dv -> (pair_dependency p s t v == 0)%Q.
Proof.
  intros Hwf Hs Ht Hv Hdt Hdv Hlt. unfold pair_dependency.
  rewrite (sp_info_some p s t dt Hwf Hs Ht Hdt), (sp_info_some p s v dv Hwf Hs Hv Hdv).
  destruct (sp_info p v t) as [[d2 z]|]; [|reflexivity].
  destruct (Nat.eqb (dv + d2) dt) eqn:E2; [apply Nat.eqb_eq in E2; lia|reflexivity].
Qed.

Lemma pair_dep_unreach_t p s t v : t < length p -> (forall k, (nw p k s t == 0)%Q) -> (pair_dependency p s t v == 0)%Q.
Proof. intros Ht Hz. unfold pair_dependency. rewrite (sp_info_none p s t Ht Hz). reflexivity. Qed.

Lemma pair_dep_unreach_v p s t v : v < length p -> (forall k, (nw p k s v == 0)%Q) -> (pair_dependency p s t v == 0)%Q.
Proof.
  intros Hv Hz. unfold pair_dependency. rewrite (sp_info_none p s v Hv Hz).
  destruct (sp_info p s t) as [[d x]|]; reflexivity.
Qed.

(* ------------------------------------------------------------------------------------------ *)
(** * Part A3. Brandes' dependency recurrence for the textbook pair dependencies *)

Section Recurrence.
  Context (p : graph) (s : nat) (Hwf : gwf p) (Hs : s < length p).
  Context (dfun : nat -> option nat).
  Context (Hsome : forall v d, v < length p -> dfun v = Some d -> sdist p s v d).
  Context (Hnone : forall v, v < length p -> dfun v = None -> forall k, (nw p k s v == 0)%Q).

  Definition sgf (v : nat) : Q := match dfun v with Some d => nw p d s v | None => 0%Q end.
  Definition isd (w d : nat) : bool := match dfun w with Some d' => Nat.eqb d' d | None => false end.
  (** dependency of s on v: sum over targets t <> v of sigma_st(v) / sigma_st *)
  Definition DD (v : nat) : Q := bsum (length p) (fun t => if Nat.eqb t v then 0%Q else pair_dependency p s t v).

  Lemma sgf_pos v d : v < length p -> dfun v = Some d -> (0 < sgf v)%Q.
  Proof. intros Hv E. unfold sgf. rewrite E. destruct (Hsome v d Hv E) as [Pz _]. exact Pz. Qed.

  Lemma isd_true w d : isd w d = true <-> dfun w = Some d.
  Proof.
    unfold isd. destruct (dfun w) as [d'|]; [|split; discriminate].
    rewrite Nat.eqb_eq. split; [intros ->; reflexivity|intros H; injection H as ->; reflexivity].
  Qed.

  (** an out-neighbour w of a reachable v is reachable, at distance <= d(v) + 1 *)
  Lemma edge_dist v w dv : v < length p -> dfun v = Some dv -> In w (row p v) ->
    exists dw, dfun w = Some dw /\ dw <= S dv.
  Proof.
    intros Hv Ev Hin. assert (Hw := Hwf _ _ Hin).
    destruct (Hsome v dv Hv Ev) as [Pv _].
    assert (P1 : (0 < nw p 1 v w)%Q).
    { rewrite (nw_1 p v w Hv). destruct (A01_cases p v w) as [[E _]|[_ Hn]]; [rewrite E; lra|contradiction]. }
    assert (Pc := nw_pos_compose p dv 1 s v w Hv Hw Pv P1).
    destruct (dfun w) as [dw|] eqn:Ew.
    - exists dw. split; [reflexivity|]. destruct (Hsome w dw Hw Ew) as [_ Zw].
      destruct (Nat.le_gt_cases dw (S dv)) as [L|L]; [exact L|]. rewrite (Zw (dv + 1)) in Pc by lia. lra.
    - rewrite (Hnone w Hw Ew (dv + 1)) in Pc. lra.
  Qed.

  Lemma dep_term v t dv : v < length p -> t < length p -> dfun v = Some dv ->
    ((if Nat.eqb t v then 0 else pair_dependency p s t v) ==
     bsum (length p) (fun w =>
       if memn w (row p v) && isd w (S dv)
       then sgf v / sgf w * ((if Nat.eqb t w then 1 else 0) + (if Nat.eqb t w then 0 else pair_dependency p s t w))
       else 0))%Q.
  Proof.
    intros Hv Ht Ev. assert (Sv := Hsome v dv Hv Ev).
    destruct (dfun t) as [dt|] eqn:Et.
    2:{ (* t unreachable *)
      rewrite bsum_0; [destruct (Nat.eqb t v); [reflexivity|apply (pair_dep_unreach_t p s t v Ht (Hnone t Ht Et))]|].
      intros w Hw. destruct (memn w (row p v) && isd w (S dv)) eqn:C; [|reflexivity].
      apply andb_true_iff in C. destruct C as [_ C]. apply isd_true in C.
      destruct (Nat.eqb t w) eqn:E; [apply Nat.eqb_eq in E; subst w; congruence|].
      rewrite (pair_dep_unreach_t p s t w Ht (Hnone t Ht Et)). unfold Qdiv. ring. }
    assert (St := Hsome t dt Ht Et).
    destruct (Nat.le_gt_cases dt dv) as [Hle|Hgt].
    - (* d(t) <= d(v): both sides vanish *)
      assert (L0 : ((if Nat.eqb t v then 0 else pair_dependency p s t v) == 0)%Q).
      { destruct (Nat.eqb t v) eqn:E; [reflexivity|]. apply Nat.eqb_neq in E.
        destruct (Nat.eq_dec dt dv) as [->|Ne].
        - rewrite (pair_dep_on p s t v dv dv Hwf Hs Ht Hv St Sv (Nat.le_refl _)).
          rewrite Nat.sub_diag. cbn [nw]. destruct (Nat.eqb v t) eqn:E2; [apply Nat.eqb_eq in E2; congruence|].
          unfold Qdiv. ring.
        - apply (pair_dep_off p s t v dt dv Hwf Hs Ht Hv St Sv). lia. }
      rewrite L0. symmetry. apply bsum_0. intros w Hw.
      destruct (memn w (row p v) && isd w (S dv)) eqn:C; [|reflexivity].
      apply andb_true_iff in C. destruct C as [_ C]. apply isd_true in C.
      destruct (Nat.eqb t w) eqn:E; [apply Nat.eqb_eq in E; subst w; rewrite Et in C; injection C as C; lia|].
      rewrite (pair_dep_off p s t w dt (S dv) Hwf Hs Ht Hw St (Hsome w _ Hw C)) by lia. unfold Qdiv. ring.
    - (* d(t) > d(v) *)
      assert (Ntv : Nat.eqb t v = false).
      { apply Nat.eqb_neq. intros ->. rewrite Ev in Et. injection Et as Et. lia. }
      rewrite Ntv. rewrite (pair_dep_on p s t v dt dv Hwf Hs Ht Hv St Sv) by lia.
      assert (Pt : (0 < nw p dt s t)%Q) by (destruct St as [Pz _]; exact Pz).
      assert (Pv : (0 < nw p dv s v)%Q) by (destruct Sv as [Pz _]; exact Pz).
      destruct (dt - dv) as [|m] eqn:Em; [lia|].
      rewrite (nw_first p m v t Hv Ht).
      transitivity (bsum (length p) (fun w => nw p dv s v / nw p dt s t * (A01 p v w * nw p m w t)))%Q.
      { rewrite bsum_scale. field. lra. }
      apply bsum_ext. intros w Hw. unfold A01.
      destruct (memn w (row p v)) eqn:Em1; [|cbn [andb]; ring].
      cbn [andb]. assert (Hin : In w (row p v)) by (apply memn_In; exact Em1).
      destruct (edge_dist v w dv Hv Ev Hin) as (dw & Ew & Hdw). assert (Sw := Hsome w dw Hw Ew).
      assert (Pw : (0 < nw p dw s w)%Q) by (destruct Sw as [Pz _]; exact Pz).
      destruct (isd w (S dv)) eqn:C.
      + apply isd_true in C. rewrite Ew in C. injection C as C. subst dw.
        unfold sgf. rewrite Ev, Ew.
        destruct (Nat.eqb t w) eqn:E.
        * apply Nat.eqb_eq in E. subst w. rewrite Et in Ew. injection Ew as Ew.
          assert (m = 0) by lia. subst m. change (nw p 0 t t) with (if Nat.eqb t t then 1%Q else 0%Q).
          rewrite Nat.eqb_refl. subst dt. field. lra.
        * rewrite (pair_dep_on p s t w dt (S dv) Hwf Hs Ht Hw St Sw) by lia.
          replace (dt - S dv) with m by lia. field. split; lra.
      + assert (Hlt : dw <= dv).
        { destruct (Nat.eq_dec dw (S dv)) as [->|Ne]; [|lia].
          assert (C2 : isd w (S dv) = true) by (apply isd_true; exact Ew). congruence. }
        assert (Z : (nw p m w t == 0)%Q).
        { destruct (nw_zero_or_pos p m w t) as [Z|Pz]; [exact Z|]. exfalso.
          assert (Pc := nw_pos_compose p dw m s w t Hw Ht Pw Pz).
          destruct St as [_ Zt]. rewrite (Zt (dw + m)) in Pc by lia. lra. }
        rewrite Z. ring.
  Qed.

  Lemma DD_recurrence v dv : v < length p -> dfun v = Some dv ->
    (DD v == bsum (length p) (fun w =>
               if memn w (row p v) && isd w (S dv) then sgf v / sgf w * (1 + DD w) else 0))%Q.
  Proof.
    intros Hv Ev. unfold DD at 1.
    transitivity (bsum (length p) (fun t => bsum (length p) (fun w =>
       if memn w (row p v) && isd w (S dv)
       then sgf v / sgf w * ((if Nat.eqb t w then 1 else 0) + (if Nat.eqb t w then 0 else pair_dependency p s t w))
       else 0)))%Q.
    { apply bsum_ext. intros t Ht. apply (dep_term v t dv Hv Ht Ev). }
    rewrite bsum_swap. apply bsum_ext. intros w Hw.
    destruct (memn w (row p v) && isd w (S dv)).
    - rewrite bsum_scale. rewrite bsum_plus. rewrite (bsum_delta (length p) w 1 Hw). reflexivity.
    - apply bsum_0. intros; reflexivity.
  Qed.

  Lemma DD_unreach v : v < length p -> dfun v = None -> (DD v == 0)%Q.
  Proof.
    intros Hv Ev. unfold DD. apply bsum_0. intros t Ht. destruct (Nat.eqb t v); [reflexivity|].
    apply (pair_dep_unreach_v p s t v Hv (Hnone v Hv Ev)).
  Qed.

  (** Any family of numbers satisfying the recurrence on the reachable nodes is the dependency. *)
  Lemma recurrence_unique (dl : nat -> Q) :
    (forall v dv, v < length p -> dfun v = Some dv ->
       (dl v == bsum (length p) (fun w =>
                  if memn w (row p v) && isd w (S dv) then sgf v / sgf w * (1 + dl w) else 0))%Q) ->
    forall v dv, v < length p -> dfun v = Some dv -> (dl v == DD v)%Q.
  Proof.
    intros Hrec.
    assert (Hind : forall k v dv, v < length p -> dfun v = Some dv -> length p <= dv + k -> (dl v == DD v)%Q).
    { induction k as [|k IH]; intros v dv Hv Ev Hk.
      - assert (L := sdist_lt_n p s v dv Hwf Hs Hv (Hsome v dv Hv Ev)). lia.
      - rewrite (Hrec v dv Hv Ev), (DD_recurrence v dv Hv Ev). apply bsum_ext. intros w Hw.
        destruct (memn w (row p v) && isd w (S dv)) eqn:C; [|reflexivity].
        apply andb_true_iff in C. destruct C as [_ C]. apply isd_true in C.
        rewrite (IH w (S dv) Hw C) by lia. reflexivity. }
    intros v dv Hv Ev. apply (Hind (length p) v dv Hv Ev). lia.
  Qed.
End Recurrence.

(* ------------------------------------------------------------------------------------------ *)
(** * Part B. The forward phase (queue-based BFS with path counting) *)

Lemma updz_length l j v : length (updz l j v) = length l.
Proof. revert j. induction l as [|x l IH]; intros [|j]; cbn [updz length]; auto. Qed.

Lemma nthz_updz l j v i : j < length l -> nthz (updz l j v) i = if Nat.eqb i j then v else nthz l i.
Proof.
  unfold nthz. revert j i. induction l as [|x l IH]; intros [|j] [|i] H; cbn [updz nth length Nat.eqb] in *; try lia; auto.
  apply (IH j i). lia.
Qed.

Lemma updl_length l j v : length (updl l j v) = length l.
Proof. revert j. induction l as [|x l IH]; intros [|j]; cbn [updl length]; auto. Qed.

Lemma nth_updl l j v i : j < length l -> nth i (updl l j v) [] = if Nat.eqb i j then v else nth i l [].
Proof.
  revert j i. induction l as [|x l IH]; intros [|j] [|i] H; cbn [updl nth length Nat.eqb] in *; try lia; auto.
  apply (IH j i). lia.
Qed.

Lemma nthz_repeat c m k : k < m -> nthz (repeat c m) k = c.
Proof. intros H. unfold nthz. apply nth_repeat_lt || (revert k H; induction m as [|m IH]; intros [|k] H; cbn; try lia; auto; apply IH; lia). Qed.

Lemma nodup_snoc {A} (l : list A) x : NoDup l -> ~ In x l -> NoDup (l ++ [x]).
Proof.
  intros Hnd Hx. apply (Permutation_NoDup (l := x :: l)); [apply Permutation_cons_append|].
  constructor; assumption.
Qed.

Definition sortedL (f : nat -> Z) (L : list nat) : Prop :=
  forall l1 l2, L = l1 ++ l2 -> forall a b, In a l1 -> In b l2 -> (f a <= f b)%Z.

Lemma sortedL_snoc f L x : sortedL f L -> (forall a, In a L -> (f a <= f x)%Z) -> sortedL f (L ++ [x]).
Proof.
  intros HS Hx l1 l2 E a b Ha Hb.
  destruct (exists_last (l := l2)) as (l2' & y & ->); [intros ->; destruct Hb|].
  rewrite app_assoc in E. apply app_inj_tail in E. destruct E as [E <-].
  apply in_app_iff in Hb. destruct Hb as [Hb|[<-|[]]].
  - exact (HS l1 l2' E a b Ha Hb).
  - apply Hx. rewrite E. apply in_app_iff. left. exact Ha.
Qed.

Lemma sortedL_ext f g L : (forall a, In a L -> f a = g a) -> sortedL f L -> sortedL g L.
Proof.
  intros He HS l1 l2 E a b Ha Hb.
  rewrite <- (He a), <- (He b); [exact (HS l1 l2 E a b Ha Hb)| |]; rewrite E; apply in_app_iff; auto.
Qed.

Definition lsumf (f : nat -> Q) (l : list nat) : Q := fold_right (fun u acc => (f u + acc)%Q) 0%Q l.

Lemma lsumf_ext f g l : (forall u, In u l -> (f u == g u)%Q) -> (lsumf f l == lsumf g l)%Q.
Proof.
  induction l as [|a l IH]; intros H; cbn [lsumf fold_right]; [reflexivity|].
  fold (lsumf f l). fold (lsumf g l). rewrite (H a) by (left; reflexivity).
  rewrite IH by (intros u Hu; apply H; right; exact Hu). reflexivity.
Qed.

Lemma lsumf_zero f l : (forall u, In u l -> f u = 0%Q) -> (lsumf f l == 0)%Q.
Proof.
  induction l as [|a l IH]; intros H; [reflexivity|]. cbn [lsumf fold_right]. fold (lsumf f l).
  rewrite (H a) by (left; reflexivity). rewrite IH by (intros u Hu; apply H; right; exact Hu). ring.
Qed.

Lemma lsumf_cons f a l : lsumf f (a :: l) = (f a + lsumf f l)%Q.
Proof. reflexivity. Qed.

Lemma lsumf_app f l1 l2 : (lsumf f (l1 ++ l2) == lsumf f l1 + lsumf f l2)%Q.
Proof.
  induction l1 as [|a l1 IH]; [cbn [app]; unfold lsumf at 2; cbn [fold_right]; ring|]. cbn [app]. rewrite !lsumf_cons. rewrite IH. ring.
Qed.

Lemma lsumf_rev f l : (lsumf f (rev l) == lsumf f l)%Q.
Proof.
  induction l as [|a l IH]; [reflexivity|]. cbn [rev]. rewrite lsumf_app, IH, !lsumf_cons. unfold lsumf at 2. cbn [fold_right]. ring.
Qed.

(** A sum over a duplicate-free list of indices < n is a [bsum] against the membership indicator. *)
Lemma lsumf_bsum n f l : NoDup l -> (forall u, In u l -> u < n) ->
  (lsumf f l == bsum n (fun u => if memn u l then f u else 0))%Q.
Proof.
  induction l as [|a l IH]; intros Hnd Hlt.
  - cbn [lsumf fold_right]. symmetry. apply bsum_0. intros; reflexivity.
  - inversion Hnd as [|? ? Hna Hnd']; subst. rewrite lsumf_cons.
    rewrite IH by (try exact Hnd'; intros u Hu; apply Hlt; right; exact Hu).
    rewrite <- (bsum_delta n a (f a)) by (apply Hlt; left; reflexivity).
    rewrite <- bsum_plus. apply bsum_ext. intros u _.
    unfold memn. cbn [existsb]. fold (memn u l).
    destruct (Nat.eqb u a) eqn:E.
    + apply Nat.eqb_eq in E. subst u. destruct (memn a l) eqn:E2; [apply memn_In in E2; contradiction|].
      cbn [orb]. ring.
    + cbn [orb]. destruct (memn u l); ring.
Qed.

Definition dzf (dists : list Z) (v : nat) : Z := nthz dists v.

Section Forward.
  Context (p : graph) (s : nat) (Hwf : gwf p) (Hnd : gnd p) (Hs : s < length p).

  (** [L] = nodes discovered so far, in discovery order. *)
  Record CoreD (L : list nat) (dists : list Z) : Prop := {
    c_len : length dists = length p;
    c_nd : NoDup L;
    c_lt : forall v, In v L -> v < length p;
    c_in : forall v, In v L -> (0 <= dzf dists v)%Z;
    c_out : forall v, v < length p -> ~ In v L -> dzf dists v = (-1)%Z;
    c_sorted : sortedL (dzf dists) L;
    c_reach : forall v, In v L -> exists k, dzf dists v = Z.of_nat k /\ reachk p (src p s) k v;
    c_s0 : dzf dists s = 0%Z }.

  (** While node i (popped) is being processed, the prefix r1 of its row done. *)
  Record InvD (seen : list nat) (i : nat) (r1 q : list nat) (dists : list Z) : Prop := {
    i_core : CoreD (rev seen ++ i :: q) dists;
    i_range : forall y, In y (rev seen ++ i :: q) -> (dzf dists y <= dzf dists i + 1)%Z;
    i_closed : forall u w, In u seen -> In w (row p u) ->
                 In w (rev seen ++ i :: q) /\ (dzf dists w <= dzf dists u + 1)%Z;
    i_cur : forall w, In w r1 -> In w (rev seen ++ i :: q) }.

  (** Between two pops. *)
  Record OutD (seen q : list nat) (dists : list Z) : Prop := {
    o_core : CoreD (rev seen ++ q) dists;
    o_range : forall x y, In x q -> In y (rev seen ++ q) -> (dzf dists y <= dzf dists x + 1)%Z;
    o_closed : forall u w, In u seen -> In w (row p u) ->
                 In w (rev seen ++ q) /\ (dzf dists w <= dzf dists u + 1)%Z }.

  Lemma OutD_pop seen i q dists : OutD seen (i :: q) dists -> InvD seen i [] q dists.
  Proof.
    intros [HC HR HCl]. constructor; [exact HC| |exact HCl|intros w []].
    intros y Hy. apply HR; [left; reflexivity|exact Hy].
  Qed.

  Lemma rev_cons_app (seen : list nat) i q : rev (i :: seen) ++ q = rev seen ++ i :: q.
  Proof. cbn [rev]. rewrite <- app_assoc. reflexivity. Qed.

  Lemma InvD_done seen i q dists : InvD seen i (row p i) q dists -> OutD (i :: seen) q dists.
  Proof.
    intros [HC HR HCl Hcur]. rewrite <- (rev_cons_app seen i q) in *. constructor.
    - exact HC.
    - intros x y Hx Hy. assert (H1 := HR y Hy).
      assert (H2 : (dzf dists i <= dzf dists x)%Z).
      { apply (c_sorted _ _ HC (rev (i :: seen)) q eq_refl); [|exact Hx].
        cbn [rev]. apply in_app_iff. right. left. reflexivity. }
      lia.
    - intros u w [<-|Hu] Hw.
      + assert (Hin := Hcur w Hw). split; [exact Hin|]. apply HR. exact Hin.
      + apply HCl; assumption.
  Qed.

  Lemma InvD_intro seen i r1 q dists L :
    L = rev seen ++ i :: q -> CoreD L dists ->
    (forall y, In y L -> (dzf dists y <= dzf dists i + 1)%Z) ->
    (forall u w, In u seen -> In w (row p u) -> In w L /\ (dzf dists w <= dzf dists u + 1)%Z) ->
    (forall w, In w r1 -> In w L) -> InvD seen i r1 q dists.
  Proof. intros ->; intros; constructor; assumption. Qed.

  Definition dstep (i j : nat) (qd : list nat * list Z) : list nat * list Z :=
    if (dzf (snd qd) j <? 0)%Z then (fst qd ++ [j], updz (snd qd) j (dzf (snd qd) i + 1)%Z) else qd.

  Lemma in_mid (seen : list nat) i q : In i (rev seen ++ i :: q).
  Proof. apply in_app_iff. right. left. reflexivity. Qed.

  Lemma InvD_step seen i r1 q dists j :
    InvD seen i r1 q dists -> j < length p -> In j (row p i) ->
    InvD seen i (r1 ++ [j]) (fst (dstep i j (q, dists))) (snd (dstep i j (q, dists))).
  Proof.
    intros [HC HR HCl Hcur] Hj Hin. unfold dstep. cbn [fst snd].
    set (L := rev seen ++ i :: q) in *.
    assert (HiL : In i L) by apply in_mid.
    destruct (dzf dists j <? 0)%Z eqn:E; cbn [fst snd].
    - apply Z.ltb_lt in E.
      assert (HjL : ~ In j L) by (intros H; assert (H0 := c_in _ _ HC j H); lia).
      assert (EL : rev seen ++ i :: q ++ [j] = L ++ [j]) by (unfold L; rewrite <- app_assoc; reflexivity).
      assert (Hdz : forall v, dzf (updz dists j (dzf dists i + 1)%Z) v = if Nat.eqb v j then (dzf dists i + 1)%Z else dzf dists v).
      { intros v. unfold dzf. apply nthz_updz. rewrite (c_len _ _ HC). exact Hj. }
      assert (Hsame : forall v, In v L -> dzf (updz dists j (dzf dists i + 1)%Z) v = dzf dists v).
      { intros v Hv. rewrite Hdz. destruct (Nat.eqb v j) eqn:E2; [apply Nat.eqb_eq in E2; subst v; contradiction|reflexivity]. }
      assert (Hnew : dzf (updz dists j (dzf dists i + 1)%Z) j = (dzf dists i + 1)%Z) by (rewrite Hdz, Nat.eqb_refl; reflexivity).
      assert (Hi0 := c_in _ _ HC i HiL).
      apply (InvD_intro _ _ _ _ _ (L ++ [j])); [symmetry; exact EL| | | |].
      + constructor.
        * rewrite updz_length. exact (c_len _ _ HC).
        * apply nodup_snoc; [exact (c_nd _ _ HC)|exact HjL].
        * intros v Hv. apply in_app_iff in Hv. destruct Hv as [Hv|[<-|[]]]; [exact (c_lt _ _ HC v Hv)|exact Hj].
        * intros v Hv. apply in_app_iff in Hv. destruct Hv as [Hv|[<-|[]]].
          -- rewrite (Hsame v Hv). exact (c_in _ _ HC v Hv).
          -- rewrite Hnew. lia.
        * intros v Hv Hn. rewrite Hdz. destruct (Nat.eqb v j) eqn:E2.
          -- apply Nat.eqb_eq in E2. subst v. exfalso. apply Hn. apply in_app_iff. right. left. reflexivity.
          -- apply (c_out _ _ HC v Hv). intros H. apply Hn. apply in_app_iff. left. exact H.
        * apply sortedL_snoc.
          -- apply (sortedL_ext (dzf dists)); [intros a Ha; symmetry; apply Hsame; exact Ha|exact (c_sorted _ _ HC)].
          -- intros a Ha. rewrite (Hsame a Ha), Hnew. apply HR. exact Ha.
        * intros v Hv. apply in_app_iff in Hv. destruct Hv as [Hv|[<-|[]]].
          -- rewrite (Hsame v Hv). exact (c_reach _ _ HC v Hv).
          -- destruct (c_reach _ _ HC i HiL) as (k & Hk & Hr). exists (S k). split; [rewrite Hnew; lia|].
             cbn [reachk]. exists i. split; assumption.
        * rewrite Hdz. destruct (Nat.eqb s j) eqn:E2; [|exact (c_s0 _ _ HC)].
          apply Nat.eqb_eq in E2. subst j. assert (H0 := c_s0 _ _ HC). lia.
      + intros y Hy. rewrite (Hsame i HiL). apply in_app_iff in Hy. destruct Hy as [Hy|[<-|[]]].
        * rewrite (Hsame y Hy). apply HR. exact Hy.
        * rewrite Hnew. lia.
      + intros u w Hu Hw. destruct (HCl u w Hu Hw) as [H1 H2]. split; [apply in_app_iff; left; exact H1|].
        assert (HuL : In u L) by (unfold L; apply in_app_iff; left; apply in_rev in Hu; exact Hu).
        rewrite (Hsame w H1), (Hsame u HuL). exact H2.
      + intros w Hw. apply in_app_iff in Hw. apply in_app_iff. destruct Hw as [Hw|[<-|[]]]; [left; apply Hcur; exact Hw|right; left; reflexivity].
    - apply Z.ltb_ge in E. constructor; [exact HC|exact HR|exact HCl|].
      intros w Hw. apply in_app_iff in Hw. destruct Hw as [Hw|[<-|[]]]; [apply Hcur; exact Hw|].
      destruct (in_dec Nat.eq_dec j (rev seen ++ i :: q)) as [H|H]; [exact H|].
      assert (H1 := c_out _ _ HC j Hj H). lia.
  Qed.
  (** ** sigma and the predecessor lists *)
  Definition pc (dists : list Z) (w u : nat) : bool := memn w (row p u) && (dzf dists u + 1 =? dzf dists w)%Z.
  Definition tm (dists sigma : list Z) (w u : nat) : Q := if pc dists w u then zq (nthz sigma u) else 0%Q.
  Definition curb (dists : list Z) (i : nat) (r1 : list nat) (w : nat) : bool :=
    memn w r1 && (dzf dists i + 1 =? dzf dists w)%Z.

  Record InvS (seen : list nat) (i : nat) (r1 : list nat) (dists sigma : list Z) (preds : list (list nat)) : Prop := {
    s_lens : length sigma = length p;
    s_lenp : length preds = length p;
    s_src : nthz sigma s = 1%Z;
    s_sig : forall w, w < length p -> w <> s ->
       (zq (nthz sigma w) == lsumf (tm dists sigma w) seen + (if curb dists i r1 w then zq (nthz sigma i) else 0))%Q;
    s_preds : forall w, w < length p ->
       nth w preds [] = filter (pc dists w) (rev seen) ++ (if curb dists i r1 w then [i] else []) }.

  Record OutS (seen : list nat) (dists sigma : list Z) (preds : list (list nat)) : Prop := {
    os_lens : length sigma = length p;
    os_lenp : length preds = length p;
    os_src : nthz sigma s = 1%Z;
    os_sig : forall w, w < length p -> w <> s -> (zq (nthz sigma w) == lsumf (tm dists sigma w) seen)%Q;
    os_preds : forall w, w < length p -> nth w preds [] = filter (pc dists w) (rev seen) }.

  Lemma OutS_pop seen i dists sigma preds : OutS seen dists sigma preds -> InvS seen i [] dists sigma preds.
  Proof.
    intros [H1 H2 H3 H4 H5]. constructor; try assumption.
    - intros w Hw Hws. unfold curb. cbn [memn existsb andb]. rewrite (H4 w Hw Hws). ring.
    - intros w Hw. unfold curb. cbn [memn existsb andb]. rewrite app_nil_r. exact (H5 w Hw).
  Qed.

  Lemma InvS_done seen i dists sigma preds :
    InvS seen i (row p i) dists sigma preds -> OutS (i :: seen) dists sigma preds.
  Proof.
    intros [H1 H2 H3 H4 H5]. constructor; try assumption.
    - intros w Hw Hws. rewrite (H4 w Hw Hws). rewrite lsumf_cons.
      assert (E : tm dists sigma w i = if curb dists i (row p i) w then zq (nthz sigma i) else 0%Q) by reflexivity.
      rewrite E. destruct (curb dists i (row p i) w); ring.
    - intros w Hw. rewrite (H5 w Hw). cbn [rev]. rewrite filter_app. cbn [filter].
      assert (E : pc dists w i = curb dists i (row p i) w) by reflexivity.
      rewrite E. destruct (curb dists i (row p i) w); reflexivity.
  Qed.

  Lemma memn_snoc w r j : memn w (r ++ [j]) = memn w r || Nat.eqb w j.
  Proof. unfold memn. rewrite existsb_app. cbn [existsb]. rewrite orb_false_r. reflexivity. Qed.

  Lemma memn_false w r : ~ In w r -> memn w r = false.
  Proof. intros H. destruct (memn w r) eqn:E; [apply memn_In in E; contradiction|reflexivity]. Qed.

  Lemma in_seen_L (seen : list nat) i q u : In u seen -> In u (rev seen ++ i :: q).
  Proof. intros H. apply in_app_iff. left. apply in_rev in H. exact H. Qed.

  (** Stage 1 of [visit_edge] (discovery of j) does not disturb the sigma / preds invariant. *)
  Lemma InvS_stage1 seen i r1 q dists sigma preds j :
    InvD seen i r1 q dists -> InvS seen i r1 dists sigma preds -> j < length p ->
    InvS seen i r1 (snd (dstep i j (q, dists))) sigma preds.
  Proof.
    intros HD HS Hj. unfold dstep. cbn [fst snd].
    destruct (dzf dists j <? 0)%Z eqn:E; cbn [snd]; [|exact HS].
    apply Z.ltb_lt in E. destruct HD as [HC HR HCl Hcur]. set (L := rev seen ++ i :: q) in *.
    assert (HjL : ~ In j L) by (intros H; assert (H0 := c_in _ _ HC j H); lia).
    set (d1 := updz dists j (dzf dists i + 1)%Z).
    assert (Hdz : forall v, v <> j -> dzf d1 v = dzf dists v).
    { intros v Hv. unfold dzf, d1. rewrite nthz_updz by (rewrite (c_len _ _ HC); exact Hj).
      destruct (Nat.eqb v j) eqn:E2; [apply Nat.eqb_eq in E2; contradiction|reflexivity]. }
    assert (HneL : forall v, In v L -> v <> j) by (intros v Hv ->; contradiction).
    assert (Hpc : forall w u, In u seen -> pc d1 w u = pc dists w u).
    { intros w u Hu. unfold pc. destruct (Nat.eq_dec w j) as [->|Nw].
      - rewrite (memn_false j (row p u)); [reflexivity|]. intros Hin. destruct (HCl u j Hu Hin) as [H _]. contradiction.
      - rewrite (Hdz w Nw), (Hdz u) by (apply HneL, in_seen_L; exact Hu). reflexivity. }
    assert (Hcb : forall w, curb d1 i r1 w = curb dists i r1 w).
    { intros w. unfold curb. destruct (memn w r1) eqn:Em; [|reflexivity]. cbn [andb].
      apply memn_In in Em. rewrite (Hdz w) by (apply HneL, Hcur; exact Em).
      rewrite (Hdz i) by (apply HneL, in_mid). reflexivity. }
    destruct HS as [H1 H2 H3 H4 H5]. constructor; try assumption.
    - intros w Hw Hws. rewrite (H4 w Hw Hws), Hcb.
      rewrite (lsumf_ext (tm d1 sigma w) (tm dists sigma w)); [reflexivity|].
      intros u Hu. unfold tm. rewrite (Hpc w u Hu). reflexivity.
    - intros w Hw. rewrite (H5 w Hw), Hcb. f_equal. apply filter_ext_in.
      intros u Hu. symmetry. apply Hpc. apply in_rev. exact Hu.
  Qed.

  (** Stage 2: the path-count / predecessor update under fixed distances. *)
  Lemma InvS_stage2 seen i r1 q d1 sigma preds j :
    InvD seen i r1 q d1 -> InvS seen i r1 d1 sigma preds -> j < length p -> ~ In j r1 ->
    let hit := (dzf d1 j =? dzf d1 i + 1)%Z in
    InvS seen i (r1 ++ [j]) d1
         (if hit then updz sigma j (nthz sigma j + nthz sigma i)%Z else sigma)
         (if hit then updl preds j (nth j preds [] ++ [i]) else preds).
  Proof.
    intros HD HS Hj Hjr hit. destruct HD as [HC HR HCl Hcur]. destruct HS as [H1 H2 H3 H4 H5].
    assert (Hcb : forall w, curb d1 i (r1 ++ [j]) w = if Nat.eqb w j then hit else curb d1 i r1 w).
    { intros w. unfold curb. rewrite memn_snoc. destruct (Nat.eqb w j) eqn:E.
      - apply Nat.eqb_eq in E. subst w. rewrite (memn_false j r1 Hjr). cbn [orb andb]. unfold hit.
        rewrite Z.eqb_sym. reflexivity.
      - rewrite orb_false_r. reflexivity. }
    assert (Hcbj : curb d1 i r1 j = false) by (unfold curb; rewrite (memn_false j r1 Hjr); reflexivity).
    destruct hit eqn:Eh.
    - unfold hit in Eh. apply Z.eqb_eq in Eh.
      assert (Hi0 := c_in _ _ HC i (in_mid seen i q)).
      assert (Hji : j <> i) by (intros ->; lia).
      assert (Hjs : j <> s) by (intros ->; rewrite (c_s0 _ _ HC) in Eh; lia).
      assert (Hjseen : forall u, In u seen -> u <> j).
      { intros u Hu ->. assert (Hle : (dzf d1 j <= dzf d1 i)%Z).
        { apply (c_sorted _ _ HC (rev seen) (i :: q) eq_refl); [apply in_rev in Hu; exact Hu|left; reflexivity]. }
        lia. }
      assert (Hsg : forall v, nthz (updz sigma j (nthz sigma j + nthz sigma i)%Z) v =
                              if Nat.eqb v j then (nthz sigma j + nthz sigma i)%Z else nthz sigma v).
      { intros v. apply nthz_updz. rewrite H1. exact Hj. }
      assert (Hsgne : forall v, v <> j -> nthz (updz sigma j (nthz sigma j + nthz sigma i)%Z) v = nthz sigma v).
      { intros v Hv. rewrite Hsg. destruct (Nat.eqb v j) eqn:E; [apply Nat.eqb_eq in E; contradiction|reflexivity]. }
      assert (Hls : forall w, (lsumf (tm d1 (updz sigma j (nthz sigma j + nthz sigma i)%Z) w) seen == lsumf (tm d1 sigma w) seen)%Q).
      { intros w. apply lsumf_ext. intros u Hu. unfold tm. rewrite (Hsgne u (Hjseen u Hu)). reflexivity. }
      constructor.
      + rewrite updz_length. exact H1.
      + rewrite updl_length. exact H2.
      + rewrite Hsgne by (intros E; apply Hjs; symmetry; exact E). exact H3.
      + intros w Hw Hws. rewrite Hls, Hcb, (Hsgne i (fun E => Hji (eq_sym E))).
        rewrite Hsg. destruct (Nat.eqb w j) eqn:E.
        * apply Nat.eqb_eq in E. subst w. unfold zq. rewrite inject_Z_plus. fold (zq (nthz sigma j)). fold (zq (nthz sigma i)).
          rewrite (H4 j Hj Hjs), Hcbj. ring.
        * exact (H4 w Hw Hws).
      + intros w Hw. rewrite nth_updl by (rewrite H2; exact Hj). rewrite Hcb. destruct (Nat.eqb w j) eqn:E.
        * apply Nat.eqb_eq in E. subst w. rewrite (H5 j Hj), Hcbj, app_nil_r. reflexivity.
        * exact (H5 w Hw).
    - constructor; try assumption.
      + intros w Hw Hws. rewrite Hcb. destruct (Nat.eqb w j) eqn:E.
        * apply Nat.eqb_eq in E. subst w. rewrite (H4 j Hj Hws), Hcbj. reflexivity.
        * exact (H4 w Hw Hws).
      + intros w Hw. rewrite Hcb. destruct (Nat.eqb w j) eqn:E.
        * apply Nat.eqb_eq in E. subst w. rewrite (H5 j Hj), Hcbj. reflexivity.
        * exact (H5 w Hw).
  Qed.
  (** ** [visit_edge], the row loop, the queue loop *)
  Lemma visit_edge_eq i st j :
    let qd := dstep i j (b_queue st, b_dists st) in
    let hit := (dzf (snd qd) j =? dzf (snd qd) i + 1)%Z in
    visit_edge i st j =
    {| b_queue := fst qd; b_dists := snd qd;
       b_sigma := if hit then updz (b_sigma st) j (nthz (b_sigma st) j + nthz (b_sigma st) i)%Z else b_sigma st;
       b_preds := if hit then updl (b_preds st) j (nth j (b_preds st) [] ++ [i]) else b_preds st |}.
  Proof.
    destruct st as [q d sg pr]. unfold visit_edge, dstep, dzf. cbn [b_queue b_dists b_sigma b_preds fst snd].
    destruct (nthz d j <? 0)%Z; cbn [b_queue b_dists b_sigma b_preds fst snd].
    - destruct (nthz (updz d j (nthz d i + 1)%Z) j =? nthz (updz d j (nthz d i + 1)%Z) i + 1)%Z; reflexivity.
    - destruct (nthz d j =? nthz d i + 1)%Z; reflexivity.
  Qed.

  Definition IInv (seen : list nat) (i : nat) (r1 : list nat) (st : bstate) : Prop :=
    InvD seen i r1 (b_queue st) (b_dists st) /\ InvS seen i r1 (b_dists st) (b_sigma st) (b_preds st).
  Definition OInv (seen : list nat) (st : bstate) : Prop :=
    OutD seen (b_queue st) (b_dists st) /\ OutS seen (b_dists st) (b_sigma st) (b_preds st).

  Lemma InvD_weaken seen i r1 j q d : InvD seen i (r1 ++ [j]) q d -> InvD seen i r1 q d.
  Proof.
    intros [HC HR HCl Hcur]. constructor; try assumption.
    intros w Hw. apply Hcur. apply in_app_iff. left. exact Hw.
  Qed.

  Lemma IInv_step seen i r1 st j :
    IInv seen i r1 st -> In j (row p i) -> ~ In j r1 -> IInv seen i (r1 ++ [j]) (visit_edge i st j).
  Proof.
    intros [HD HS] Hin Hnr. assert (Hj := Hwf _ _ Hin). rewrite visit_edge_eq. cbv zeta.
    unfold IInv. cbn [b_queue b_dists b_sigma b_preds].
    assert (HD' := InvD_step seen i r1 _ _ j HD Hj Hin).
    split; [exact HD'|].
    apply (InvS_stage2 seen i r1 (fst (dstep i j (b_queue st, b_dists st)))).
    - apply (InvD_weaken _ _ _ j). exact HD'.
    - apply (InvS_stage1 seen i r1 (b_queue st)); assumption.
    - exact Hj.
    - exact Hnr.
  Qed.

  Lemma IInv_fold seen i : forall r2 r1 st,
    row p i = r1 ++ r2 -> IInv seen i r1 st -> IInv seen i (row p i) (fold_left (visit_edge i) r2 st).
  Proof.
    induction r2 as [|j r2 IH]; intros r1 st E H.
    - rewrite app_nil_r in E. rewrite E. exact H.
    - cbn [fold_left]. apply (IH (r1 ++ [j])).
      + rewrite <- app_assoc. exact E.
      + apply IInv_step; [exact H| |].
        * rewrite E. apply in_app_iff. right. left. reflexivity.
        * assert (N := Hnd i). rewrite E in N. apply NoDup_remove_2 in N.
          intros Hc. apply N. apply in_app_iff. left. exact Hc.
  Qed.

  Lemma OInv_pop seen i q d sg pr :
    OInv seen {| b_queue := i :: q; b_dists := d; b_sigma := sg; b_preds := pr |} ->
    OInv (i :: seen) (fold_left (visit_edge i) (row p i) {| b_queue := q; b_dists := d; b_sigma := sg; b_preds := pr |}).
  Proof.
    intros [HD HS]. cbn [b_queue b_dists b_sigma b_preds] in *.
    assert (H0 : IInv seen i [] {| b_queue := q; b_dists := d; b_sigma := sg; b_preds := pr |}).
    { split; cbn [b_queue b_dists b_sigma b_preds]; [apply OutD_pop; exact HD|apply OutS_pop; exact HS]. }
    destruct (IInv_fold seen i (row p i) [] _ eq_refl H0) as [HD' HS'].
    split; [apply InvD_done; exact HD'|apply InvS_done; exact HS'].
  Qed.

  Lemma nodup_bound (L : list nat) : NoDup L -> (forall v, In v L -> v < length p) -> length L <= length p.
  Proof.
    intros N Hlt. rewrite <- (seq_length (length p) 0). apply NoDup_incl_length; [exact N|].
    intros v Hv. apply in_seq. assert (H := Hlt v Hv). lia.
  Qed.

  Lemma brandes_bfs_inv : forall fuel st seen,
    OInv seen st -> length p <= length seen + fuel ->
    OInv (snd (brandes_bfs fuel p st seen)) (fst (brandes_bfs fuel p st seen)) /\
    b_queue (fst (brandes_bfs fuel p st seen)) = [].
  Proof.
    induction fuel as [|f IH]; intros st seen HI Hf; cbn [brandes_bfs].
    - cbn [fst snd]. split; [exact HI|]. destruct HI as [[HC _ _] _].
      assert (B := nodup_bound _ (c_nd _ _ HC) (c_lt _ _ HC)). rewrite app_length, rev_length in B.
      destruct (b_queue st) as [|x q]; [reflexivity|cbn [length] in B; lia].
    - destruct st as [q0 d sg pr]. cbn [b_queue b_dists b_sigma b_preds]. destruct q0 as [|i q].
      + cbn [fst snd]. split; [exact HI|reflexivity].
      + apply IH; [apply OInv_pop; exact HI|cbn [length]; lia].
  Qed.

  Definition fwd_init : bstate :=
    {| b_queue := [s]; b_dists := updz (repeat (-1)%Z (length p)) s 0%Z;
       b_sigma := updz (repeat 0%Z (length p)) s 1%Z; b_preds := repeat [] (length p) |}.

  Lemma nth_repeat_nil (m w : nat) : nth w (repeat (@nil nat) m) [] = [].
  Proof.
    destruct (nth_in_or_default w (repeat (@nil nat) m) []) as [H|H]; [|exact H].
    apply repeat_spec in H. exact H.
  Qed.

  Lemma OInv_init : OInv [] fwd_init.
  Proof.
    unfold fwd_init. split; cbn [b_queue b_dists b_sigma b_preds rev app].
    - assert (Hd : forall v, dzf (updz (repeat (-1)%Z (length p)) s 0%Z) v =
                              if Nat.eqb v s then 0%Z else nthz (repeat (-1)%Z (length p)) v).
      { intros v. unfold dzf. apply nthz_updz. rewrite repeat_length. exact Hs. }
      assert (Hd0 : dzf (updz (repeat (-1)%Z (length p)) s 0%Z) s = 0%Z) by (rewrite Hd, Nat.eqb_refl; reflexivity).
      constructor.
      + constructor.
        * rewrite updz_length. apply repeat_length.
        * constructor; [intros []|constructor].
        * intros v [<-|[]]. exact Hs.
        * intros v [<-|[]]. rewrite Hd0. lia.
        * intros v Hv Hn. rewrite Hd. destruct (Nat.eqb v s) eqn:E.
          -- apply Nat.eqb_eq in E. subst v. exfalso. apply Hn. left. reflexivity.
          -- apply nthz_repeat. exact Hv.
        * intros l1 l2 E a b Ha Hb. cbn [rev app] in E.
          assert (Ha' : In a [s]) by (rewrite E; apply in_app_iff; left; exact Ha).
          assert (Hb' : In b [s]) by (rewrite E; apply in_app_iff; right; exact Hb).
          destruct Ha' as [<-|[]]. destruct Hb' as [<-|[]]. lia.
        * intros v [<-|[]]. exists 0. split; [exact Hd0|]. cbn [reachk].
          rewrite nthb_single_source by exact Hs. apply Nat.eqb_refl.
        * exact Hd0.
      + intros x y Hx Hy. cbn [rev app In] in Hx, Hy. destruct Hx as [Hx|[]]. destruct Hy as [Hy|[]]. subst x y. lia.
      + intros u w [].
    - constructor.
      + rewrite updz_length. apply repeat_length.
      + apply repeat_length.
      + rewrite nthz_updz by (rewrite repeat_length; exact Hs). rewrite Nat.eqb_refl. reflexivity.
      + intros w Hw Hws. rewrite nthz_updz by (rewrite repeat_length; exact Hs).
        destruct (Nat.eqb w s) eqn:E; [apply Nat.eqb_eq in E; contradiction|].
        rewrite nthz_repeat by exact Hw. reflexivity.
      + intros w Hw. apply nth_repeat_nil.
  Qed.
  (** ** What the forward phase has established when the queue is empty *)
  Record FwdFinal (seen : list nat) (dists sigma : list Z) (preds : list (list nat)) : Prop := {
    f_nd : NoDup seen;
    f_lt : forall v, In v seen -> v < length p;
    f_lens : length sigma = length p;
    f_seen : forall v, v < length p -> (In v seen <-> (0 <= dzf dists v)%Z);
    f_m1 : forall v, v < length p -> ~ In v seen -> dzf dists v = (-1)%Z;
    f_dist : forall v k, v < length p -> (dzf dists v = Z.of_nat k <-> hop p (src p s) v k);
    f_unreach : forall v, v < length p -> (dzf dists v = (-1)%Z <-> forall k, ~ reachk p (src p s) k v);
    f_sorted : sortedL (dzf dists) (rev seen);
    f_sigma : forall v k, v < length p -> dzf dists v = Z.of_nat k -> (zq (nthz sigma v) == nw p k s v)%Q;
    f_sigma0 : forall v, v < length p -> ~ In v seen -> nthz sigma v = 0%Z;
    f_preds : forall w, w < length p -> nth w preds [] = filter (pc dists w) (rev seen) }.

  Lemma fwd_final seen st : OInv seen st -> b_queue st = [] ->
    FwdFinal seen (b_dists st) (b_sigma st) (b_preds st).
  Proof.
    intros [HD HS] Hq. rewrite Hq in HD. destruct HD as [HC _ HCl]. rewrite app_nil_r in *.
    destruct HS as [S1 S2 S3 S4 S5]. set (d := b_dists st) in *. set (sg := b_sigma st) in *.
    assert (Hin : forall v, In v seen <-> In v (rev seen)) by (intros v; apply in_rev).
    assert (Hnds : NoDup seen) by (rewrite <- (rev_involutive seen); apply NoDup_rev; exact (c_nd _ _ HC)).
    assert (Hlts : forall v, In v seen -> v < length p) by (intros v H; apply (c_lt _ _ HC), Hin; exact H).
    assert (Hseen : forall v, v < length p -> (In v seen <-> (0 <= dzf d v)%Z)).
    { intros v Hv. split.
      - intros H. apply (c_in _ _ HC). apply Hin. exact H.
      - intros H. destruct (in_dec Nat.eq_dec v (rev seen)) as [Y|N]; [apply Hin; exact Y|].
        rewrite (c_out _ _ HC v Hv N) in H. lia. }
    assert (Hclose : forall k v, reachk p (src p s) k v -> v < length p /\ In v seen /\ (dzf d v <= Z.of_nat k)%Z).
    { induction k as [|k IH]; intros v Hr.
      - assert (Hv := reachk_lt p s 0 v Hwf Hs Hr). cbn [reachk] in Hr. rewrite nthb_single_source in Hr by exact Hv.
        apply Nat.eqb_eq in Hr. subst v. assert (H0 := c_s0 _ _ HC). split; [exact Hv|]. split; [apply Hseen; [exact Hv|lia]|lia].
      - assert (Hv := reachk_lt p s (S k) v Hwf Hs Hr). cbn [reachk] in Hr. destruct Hr as (u & Hru & Hinv).
        destruct (IH u Hru) as (Hu & Hus & Hud). destruct (HCl u v Hus Hinv) as [H1 H2].
        split; [exact Hv|]. split; [apply Hin; exact H1|lia]. }
    assert (Hdist : forall v k, v < length p -> (dzf d v = Z.of_nat k <-> hop p (src p s) v k)).
    { intros v k Hv. split.
      - intros E. assert (Hvs : In v (rev seen)) by (apply Hin, Hseen; [exact Hv|lia]).
        destruct (c_reach _ _ HC v Hvs) as (k' & Ek & Hr). assert (k' = k) by lia. subst k'.
        split; [exact Hr|]. intros j Hj Hrj. destruct (Hclose j v Hrj) as (_ & _ & Hle). lia.
      - intros [Hr Hm]. destruct (Hclose k v Hr) as (_ & Hvs & Hle).
        destruct (c_reach _ _ HC v (proj1 (Hin v) Hvs)) as (k' & Ek & Hr').
        destruct (Nat.lt_ge_cases k' k) as [L|L]; [exfalso; exact (Hm k' L Hr')|lia]. }
    assert (Hsig : forall k v, v < length p -> dzf d v = Z.of_nat k -> (zq (nthz sg v) == nw p k s v)%Q).
    { induction k as [|k IH]; intros v Hv E.
      - assert (Hh := proj1 (Hdist v 0 Hv) E). destruct Hh as [Hr _]. cbn [reachk] in Hr.
        rewrite nthb_single_source in Hr by exact Hv. apply Nat.eqb_eq in Hr. subst v.
        rewrite S3. cbn [nw]. rewrite Nat.eqb_refl. reflexivity.
      - assert (Hvs : v <> s) by (intros ->; rewrite (c_s0 _ _ HC) in E; lia).
        rewrite (S4 v Hv Hvs). rewrite (lsumf_bsum (length p) _ seen Hnds Hlts). cbn [nw].
        apply bsum_ext. intros u Hu. unfold tm, pc, A01.
        destruct (memn v (row p u)) eqn:Em; [|cbn [andb]; destruct (memn u seen); ring].
        cbn [andb]. apply memn_In in Em.
        destruct (nw_zero_or_pos p k s u) as [Z|Pz].
        + rewrite Z. destruct (memn u seen) eqn:Es; [|ring].
          destruct (dzf d u + 1 =? dzf d v)%Z eqn:Eq; [|ring].
          exfalso. apply Z.eqb_eq in Eq. assert (Eu : dzf d u = Z.of_nat k) by lia.
          apply (Hdist u k Hu) in Eu. destruct Eu as [Hr _]. apply (nw_pos_reach p s Hwf Hs k u Hu) in Hr. lra.
        + assert (Hr := proj1 (nw_pos_reach p s Hwf Hs k u Hu) Pz).
          destruct (Hclose k u Hr) as (_ & Hus & Hle). destruct (HCl u v Hus Em) as [_ H2].
          assert (Eu : dzf d u = Z.of_nat k) by lia.
          assert (Es : memn u seen = true) by (apply memn_In; exact Hus). rewrite Es.
          assert (Eq : (dzf d u + 1 =? dzf d v)%Z = true) by (apply Z.eqb_eq; lia). rewrite Eq.
          rewrite (IH u Hu Eu). ring. }
    constructor.
    - exact Hnds.
    - exact Hlts.
    - exact S1.
    - exact Hseen.
    - intros v Hv Hn. apply (c_out _ _ HC v Hv). intros H. apply Hn, Hin. exact H.
    - exact Hdist.
    - intros v Hv. split.
      + intros E k Hr. destruct (Hclose k v Hr) as (_ & Hvs & _). apply (Hseen v Hv) in Hvs. lia.
      + intros Hno. apply (c_out _ _ HC v Hv). intros Hvs.
        destruct (c_reach _ _ HC v Hvs) as (k & _ & Hr). exact (Hno k Hr).
    - exact (c_sorted _ _ HC).
    - intros v k Hv E. exact (Hsig k v Hv E).
    - intros v Hv Hn.
      assert (Hvs : v <> s).
      { intros ->. apply Hn. apply (Hseen s Hs). rewrite (c_s0 _ _ HC). lia. }
      assert (Em : dzf d v = (-1)%Z) by (apply (c_out _ _ HC v Hv); intros H; apply Hn, Hin; exact H).
      assert (Zq : (zq (nthz sg v) == 0)%Q).
      { rewrite (S4 v Hv Hvs). apply lsumf_zero.
        intros u Hu. unfold tm, pc. assert (H0 := proj1 (Hseen u (Hlts u Hu)) Hu).
        destruct (dzf d u + 1 =? dzf d v)%Z eqn:E; [apply Z.eqb_eq in E; lia|]. rewrite andb_false_r. reflexivity. }
      unfold zq in Zq. change 0%Q with (inject_Z 0) in Zq. exact (proj1 (inject_Z_injective _ _) Zq).
    - exact S5.
  Qed.
End Forward.

(* ------------------------------------------------------------------------------------------ *)
(** * Part C. The backward phase (dependency accumulation in reverse discovery order) *)

Lemma memn_ext v a b : (forall x, In x a <-> In x b) -> memn v a = memn v b.
Proof.
  intros H. destruct (memn v a) eqn:Ea, (memn v b) eqn:Eb; try reflexivity.
  - apply memn_In in Ea. apply H in Ea. apply memn_In in Ea. congruence.
  - apply memn_In in Eb. apply H in Eb. apply memn_In in Eb. congruence.
Qed.

Section Backward.
  Context (p : graph) (s : nat) (Hwf : gwf p) (Hs : s < length p).
  Context (seen : list nat) (dists sigma : list Z) (preds : list (list nat)).
  Context (HF : FwdFinal p s seen dists sigma preds).

  Definition cf2 (v w : nat) : Q := (zq (nthz sigma v) / zq (nthz sigma w))%Q.
  Definition dstepf (j : nat) (dl : list Q) (i : nat) : list Q :=
    upd dl i (Qred (V dl i + zq (nthz sigma i) / zq (nthz sigma j) * (1 + V dl j))%Q).

  Lemma back_step_eq delta scores j :
    back_step s sigma preds (delta, scores) j =
    (fold_left (dstepf j) (nth j preds []) delta,
     if Nat.eqb j s then scores
     else upd scores j (Qred (V scores j + V (fold_left (dstepf j) (nth j preds []) delta) j)%Q)).
  Proof. reflexivity. Qed.

  Lemma inner_fold j : forall l dl, NoDup l -> (forall i, In i l -> i < length dl) -> ~ In j l ->
    length (fold_left (dstepf j) l dl) = length dl /\
    forall v, (V (fold_left (dstepf j) l dl) v == V dl v + (if memn v l then cf2 v j * (1 + V dl j) else 0))%Q.
  Proof.
    induction l as [|a l IH]; intros dl N Hlt Hj.
    - split; [reflexivity|]. intros v. cbn [fold_left memn existsb]. ring.
    - cbn [fold_left]. inversion N as [|? ? Na N']; subst.
      assert (Ha : a < length dl) by (apply Hlt; left; reflexivity).
      assert (Hja : j <> a) by (intros ->; apply Hj; left; reflexivity).
      assert (L1 : length (dstepf j dl a) = length dl) by (unfold dstepf; apply upd_length).
      assert (V1 : forall x, V (dstepf j dl a) x =
                     if Nat.eqb x a then Qred (V dl a + zq (nthz sigma a) / zq (nthz sigma j) * (1 + V dl j))%Q else V dl x).
      { intros x. unfold dstepf. apply V_upd. exact Ha. }
      destruct (IH (dstepf j dl a) N') as [L2 H2].
      { intros i Hi. rewrite L1. apply Hlt. right. exact Hi. }
      { intros Hc. apply Hj. right. exact Hc. }
      split; [rewrite L2; exact L1|]. intros v. rewrite H2.
      assert (Vj : V (dstepf j dl a) j = V dl j).
      { rewrite V1. destruct (Nat.eqb j a) eqn:E; [apply Nat.eqb_eq in E; contradiction|reflexivity]. }
      rewrite Vj, V1. unfold memn. cbn [existsb]. fold (memn v l).
      destruct (Nat.eqb v a) eqn:E.
      + apply Nat.eqb_eq in E. subst v. rewrite (memn_false a l Na). cbn [orb]. rewrite Qred_correct. unfold cf2. ring.
      + cbn [orb]. reflexivity.
  Qed.

  Definition Fd (dl : list Q) (v w : nat) : Q :=
    if memn v (nth w preds []) then (cf2 v w * (1 + V dl w))%Q else 0%Q.

  Record BInv (sc0 : list Q) (done : list nat) (acc : list Q * list Q) : Prop := {
    b_ld : length (fst acc) = length p;
    b_ls : length (snd acc) = length p;
    b_delta : forall v, v < length p -> (V (fst acc) v == lsumf (Fd (fst acc) v) done)%Q;
    b_scores : forall v, v < length p ->
      (V (snd acc) v == V sc0 v + (if memn v done && negb (Nat.eqb v s) then V (fst acc) v else 0))%Q }.

  Lemma preds_in j i : j < length p -> In i (nth j preds []) ->
    In i seen /\ In j (row p i) /\ (dzf dists i + 1 = dzf dists j)%Z.
  Proof.
    intros Hj Hi. rewrite (f_preds _ _ _ _ _ _ HF j Hj) in Hi. apply filter_In in Hi. destruct Hi as [H1 H2].
    unfold pc in H2. apply andb_true_iff in H2. destruct H2 as [H2 H3].
    split; [apply in_rev; exact H1|]. split; [apply memn_In; exact H2|apply Z.eqb_eq; exact H3].
  Qed.

  Lemma BInv_step sc0 done j rest acc :
    seen = rev done ++ j :: rest -> BInv sc0 done acc -> BInv sc0 (j :: done) (back_step s sigma preds acc j).
  Proof.
    intros Eseen [Ld Ls Hdl Hsc]. destruct acc as [delta scores]. cbn [fst snd] in *.
    rewrite back_step_eq. set (l := nth j preds []).
    assert (Hjs : In j seen) by (rewrite Eseen; apply in_app_iff; right; left; reflexivity).
    assert (Hj : j < length p) by (apply (f_lt _ _ _ _ _ _ HF); exact Hjs).
    assert (Nl : NoDup l).
    { unfold l. rewrite (f_preds _ _ _ _ _ _ HF j Hj). apply NoDup_filter. apply NoDup_rev. exact (f_nd _ _ _ _ _ _ HF). }
    assert (Hll : forall i, In i l -> i < length delta).
    { intros i Hi. rewrite Ld. destruct (preds_in j i Hj Hi) as [H1 _]. apply (f_lt _ _ _ _ _ _ HF). exact H1. }
    assert (Hjl : ~ In j l).
    { intros Hi. destruct (preds_in j j Hj Hi) as (_ & _ & H3). lia. }
    assert (Hjd : ~ In j done).
    { assert (N := f_nd _ _ _ _ _ _ HF). rewrite Eseen in N. apply NoDup_remove_2 in N.
      intros Hc. apply N. apply in_app_iff. left. apply in_rev in Hc. exact Hc. }
    assert (Hdone : forall w, In w done -> ~ In w l).
    { intros w Hw Hi. destruct (preds_in j w Hj Hi) as (_ & _ & H3).
      assert (Hle : (dzf dists j <= dzf dists w)%Z).
      { apply (f_sorted _ _ _ _ _ _ HF (rev rest ++ [j]) done).
        - rewrite Eseen, rev_app_distr, rev_involutive. cbn [rev]. reflexivity.
        - apply in_app_iff. right. left. reflexivity.
        - exact Hw. }
      lia. }
    destruct (inner_fold j l delta Nl Hll Hjl) as [L' H'].
    set (delta' := fold_left (dstepf j) l delta) in *.
    assert (Hstab : forall w, ~ In w l -> (V delta' w == V delta w)%Q).
    { intros w Hw. rewrite H'. rewrite (memn_false w l Hw). ring. }
    constructor; cbn [fst snd].
    - rewrite L'. exact Ld.
    - destruct (Nat.eqb j s); [exact Ls|rewrite upd_length; exact Ls].
    - intros v Hv. rewrite lsumf_cons, H', (Hdl v Hv).
      assert (E1 : (lsumf (Fd delta' v) done == lsumf (Fd delta v) done)%Q).
      { apply lsumf_ext. intros w Hw. unfold Fd. destruct (memn v (nth w preds [])); [|reflexivity].
        rewrite (Hstab w (Hdone w Hw)). reflexivity. }
      rewrite E1.
      assert (E2 : Fd delta' v j = if memn v l then (cf2 v j * (1 + V delta' j))%Q else 0%Q) by reflexivity.
      rewrite E2. destruct (memn v l); [|ring].
      rewrite (Hstab j Hjl). ring.
    - intros v Hv. unfold memn. cbn [existsb]. fold (memn v done).
      assert (Hold := Hsc v Hv).
      destruct (Nat.eqb v j) eqn:Evj.
      + apply Nat.eqb_eq in Evj. subst v. rewrite (memn_false j done Hjd) in Hold. cbn [orb andb] in *.
        destruct (Nat.eqb j s) eqn:Ejs; cbn [negb].
        * rewrite Hold. reflexivity.
        * rewrite V_upd by (rewrite Ls; exact Hj). rewrite Nat.eqb_refl, Qred_correct, Hold. ring.
      + assert (Vs : V (if Nat.eqb j s then scores else upd scores j (Qred (V scores j + V delta' j)%Q)) v = V scores v).
        { destruct (Nat.eqb j s); [reflexivity|]. rewrite V_upd by (rewrite Ls; exact Hj). rewrite Evj. reflexivity. }
        rewrite Vs, Hold. cbn [orb]. destruct (memn v done) eqn:Em; [|reflexivity].
        cbn [andb]. destruct (negb (Nat.eqb v s)); [|reflexivity].
        apply memn_In in Em. rewrite (Hstab v (Hdone v Em)). reflexivity.
  Qed.

  Lemma back_fold sc0 : forall rest done acc,
    seen = rev done ++ rest -> BInv sc0 done acc ->
    BInv sc0 (rev rest ++ done) (fold_left (back_step s sigma preds) rest acc).
  Proof.
    induction rest as [|j rest IH]; intros done acc E H.
    - exact H.
    - cbn [fold_left rev]. rewrite <- app_assoc. cbn [app]. apply IH.
      + cbn [rev]. rewrite <- app_assoc. exact E.
      + apply (BInv_step sc0 done j rest); assumption.
  Qed.

  Lemma BInv_init sc0 : length sc0 = length p -> BInv sc0 [] (repeat 0%Q (length p), sc0).
  Proof.
    intros L. constructor; cbn [fst snd].
    - apply repeat_length.
    - exact L.
    - intros v Hv. unfold V. rewrite nthq_repeat by exact Hv. reflexivity.
    - intros v Hv. cbn [memn existsb andb]. ring.
  Qed.

  (** Result of the backward phase: the coded recurrence (over the predecessor lists) and the scores. *)
  Lemma backward_result sc0 : length sc0 = length p ->
    let acc := fold_left (back_step s sigma preds) seen (repeat 0%Q (length p), sc0) in
    length (snd acc) = length p /\
    (forall v, v < length p -> (V (fst acc) v == bsum (length p) (Fd (fst acc) v))%Q) /\
    (forall v, v < length p ->
       (V (snd acc) v == V sc0 v + (if memn v seen && negb (Nat.eqb v s) then V (fst acc) v else 0))%Q).
  Proof.
    intros L acc. assert (H := back_fold sc0 seen [] _ eq_refl (BInv_init sc0 L)). fold acc in H.
    rewrite app_nil_r in H. destruct H as [Ld Ls Hdl Hsc]. split; [exact Ls|]. split.
    - intros v Hv. rewrite (Hdl v Hv), lsumf_rev.
      rewrite (lsumf_bsum (length p) _ seen (f_nd _ _ _ _ _ _ HF) (f_lt _ _ _ _ _ _ HF)).
      apply bsum_ext. intros w Hw. destruct (memn w seen) eqn:E; [reflexivity|].
      unfold Fd. rewrite (memn_false v (nth w preds [])); [reflexivity|].
      intros Hi. destruct (preds_in w v Hw Hi) as (H1 & _ & H3).
      assert (H0 : (0 <= dzf dists v)%Z) by (apply (f_seen _ _ _ _ _ _ HF v (f_lt _ _ _ _ _ _ HF v H1)); exact H1).
      assert (Hws : In w seen) by (apply (f_seen _ _ _ _ _ _ HF w Hw); lia).
      apply memn_In in Hws. congruence.
    - intros v Hv. rewrite (Hsc v Hv). rewrite (memn_ext v (rev seen) seen); [reflexivity|].
      intros x. symmetry. apply in_rev.
  Qed.
End Backward.

(* ------------------------------------------------------------------------------------------ *)
(** * Part D. One source, all sources, the final theorem *)

Definition brandes_forward (p : graph) (s : nat) : bstate * list nat :=
  brandes_bfs (length p) p (fwd_init p s) [].

Lemma brandes_source_eq p scores s :
  brandes_source p scores s =
  snd (fold_left (back_step s (b_sigma (fst (brandes_forward p s))) (b_preds (fst (brandes_forward p s))))
                 (snd (brandes_forward p s)) (repeat 0%Q (length p), scores)).
Proof.
  unfold brandes_source, brandes_forward, fwd_init.
  destruct (brandes_bfs (length p) p _ []) as [st seen]. reflexivity.
Qed.

Lemma forward_final p s : gwf p -> gnd p -> s < length p ->
  b_queue (fst (brandes_forward p s)) = [] /\
  FwdFinal p s (snd (brandes_forward p s)) (b_dists (fst (brandes_forward p s)))
           (b_sigma (fst (brandes_forward p s))) (b_preds (fst (brandes_forward p s))).
Proof.
  intros Hwf Hnd Hs. unfold brandes_forward.
  destruct (brandes_bfs_inv p s Hwf Hnd Hs (length p) (fwd_init p s) [] (OInv_init p s Hs)) as [HI Hq]; [cbn [length]; lia|].
  split; [exact Hq|]. apply (fwd_final p s Hwf Hs); assumption.
Qed.

Definition dfun_of (dists : list Z) (v : nat) : option nat :=
  if (0 <=? dzf dists v)%Z then Some (Z.to_nat (dzf dists v)) else None.

Lemma dfun_of_some dists v d : dfun_of dists v = Some d <-> dzf dists v = Z.of_nat d.
Proof.
  unfold dfun_of. destruct (0 <=? dzf dists v)%Z eqn:E.
  - apply Z.leb_le in E. split; [intros H; injection H as H; lia|intros H; f_equal; lia].
  - apply Z.leb_gt in E. split; [discriminate|intros H; lia].
Qed.

Section OneSource.
  Context (p : graph) (s : nat) (Hwf : gwf p) (Hs : s < length p).
  Context (seen : list nat) (dists sigma : list Z) (preds : list (list nat)).
  Context (HF : FwdFinal p s seen dists sigma preds).

  Lemma dfun_sdist v d : v < length p -> dfun_of dists v = Some d -> sdist p s v d.
  Proof.
    intros Hv E. apply dfun_of_some in E. apply (sdist_hop p s v d Hwf Hs Hv).
    apply (f_dist _ _ _ _ _ _ HF v d Hv). exact E.
  Qed.

  Lemma dfun_unreach v : v < length p -> dfun_of dists v = None -> forall k, (nw p k s v == 0)%Q.
  Proof.
    intros Hv E k. destruct (nw_zero_or_pos p k s v) as [Z|Pz]; [exact Z|]. exfalso.
    apply (nw_pos_reach p s Hwf Hs k v Hv) in Pz.
    unfold dfun_of in E. destruct (0 <=? dzf dists v)%Z eqn:E0; [discriminate|]. apply Z.leb_gt in E0.
    assert (Hns : ~ In v seen) by (intros H; apply (f_seen _ _ _ _ _ _ HF v Hv) in H; lia).
    assert (Em := f_m1 _ _ _ _ _ _ HF v Hv Hns).
    exact (proj1 (f_unreach _ _ _ _ _ _ HF v Hv) Em k Pz).
  Qed.

  Lemma memn_preds v w dv : v < length p -> w < length p -> dfun_of dists v = Some dv ->
    memn v (nth w preds []) = memn w (row p v) && isd (dfun_of dists) w (S dv).
  Proof.
    intros Hv Hw Ev. apply dfun_of_some in Ev.
    rewrite (f_preds _ _ _ _ _ _ HF w Hw).
    destruct (memn w (row p v) && isd (dfun_of dists) w (S dv)) eqn:C.
    - apply andb_true_iff in C. destruct C as [C1 C2]. apply isd_true in C2. apply dfun_of_some in C2.
      apply memn_In. apply filter_In. split.
      + apply -> in_rev. apply (f_seen _ _ _ _ _ _ HF v Hv). lia.
      + unfold pc. rewrite C1. cbn [andb]. apply Z.eqb_eq. lia.
    - apply memn_false. intros Hi. apply filter_In in Hi. destruct Hi as [_ Hpc].
      unfold pc in Hpc. apply andb_true_iff in Hpc. destruct Hpc as [P1 P2]. apply Z.eqb_eq in P2.
      assert (C2 : isd (dfun_of dists) w (S dv) = true) by (apply isd_true, dfun_of_some; lia).
      rewrite P1, C2 in C. discriminate.
  Qed.

  (** Brandes' theorem for the model: the accumulated delta is the dependency of s on v. *)
  Lemma delta_is_dependency (dl : list Q) :
    (forall v, v < length p -> (V dl v == bsum (length p) (Fd sigma preds dl v))%Q) ->
    forall v dv, v < length p -> dfun_of dists v = Some dv -> (V dl v == DD p s v)%Q.
  Proof.
    intros Hrec. apply (recurrence_unique p s Hwf Hs (dfun_of dists) dfun_sdist dfun_unreach (V dl)).
    intros v dv Hv Ev. rewrite (Hrec v Hv). apply bsum_ext. intros w Hw.
    unfold Fd. rewrite (memn_preds v w dv Hv Hw Ev).
    destruct (memn w (row p v) && isd (dfun_of dists) w (S dv)) eqn:C; [|reflexivity].
    apply andb_true_iff in C. destruct C as [_ C2]. apply isd_true in C2.
    unfold cf2, sgf. rewrite Ev, C2.
    rewrite (f_sigma _ _ _ _ _ _ HF v dv Hv) by (apply dfun_of_some; exact Ev).
    rewrite (f_sigma _ _ _ _ _ _ HF w (S dv) Hw) by (apply dfun_of_some; exact C2).
    reflexivity.
  Qed.

  Lemma one_source_scores sc0 : length sc0 = length p ->
    let acc := fold_left (back_step s sigma preds) seen (repeat 0%Q (length p), sc0) in
    length (snd acc) = length p /\
    forall v, v < length p -> (V (snd acc) v == V sc0 v + (if Nat.eqb v s then 0 else DD p s v))%Q.
  Proof.
    intros L acc. destruct (backward_result p s Hs seen dists sigma preds HF sc0 L) as (H1 & H2 & H3).
    fold acc in H1, H2, H3. split; [exact H1|]. intros v Hv. rewrite (H3 v Hv).
    destruct (Nat.eqb v s); [rewrite andb_false_r; reflexivity|]. rewrite andb_true_r.
    destruct (memn v seen) eqn:E.
    - apply memn_In in E. apply (f_seen _ _ _ _ _ _ HF v Hv) in E.
      assert (Ev : dfun_of dists v = Some (Z.to_nat (dzf dists v))) by (apply dfun_of_some; lia).
      rewrite (delta_is_dependency (fst acc) H2 v _ Hv Ev). reflexivity.
    - assert (Hns : ~ In v seen) by (intros H; apply memn_In in H; congruence).
      assert (Em := f_m1 _ _ _ _ _ _ HF v Hv Hns).
      assert (Ev : dfun_of dists v = None) by (unfold dfun_of; rewrite Em; reflexivity).
      rewrite (DD_unreach p s (dfun_of dists) dfun_unreach v Hv Ev). reflexivity.
  Qed.
End OneSource.

Lemma brandes_source_spec p sc s : gwf p -> gnd p -> s < length p -> length sc = length p ->
  length (brandes_source p sc s) = length p /\
  forall v, v < length p -> (V (brandes_source p sc s) v == V sc v + (if Nat.eqb v s then 0 else DD p s v))%Q.
Proof.
  intros Hwf Hnd Hs L. rewrite brandes_source_eq.
  destruct (forward_final p s Hwf Hnd Hs) as [_ HF].
  exact (one_source_scores p s Hwf Hs _ _ _ _ HF sc L).
Qed.

Lemma fold_sources p : gwf p -> gnd p -> forall l sc,
  (forall s, In s l -> s < length p) -> length sc = length p ->
  length (fold_left (brandes_source p) l sc) = length p /\
  forall v, v < length p ->
    (V (fold_left (brandes_source p) l sc) v == V sc v + lsumf (fun s => if Nat.eqb v s then 0 else DD p s v) l)%Q.
Proof.
  intros Hwf Hnd. induction l as [|a l IH]; intros sc Hl L.
  - split; [exact L|]. intros v Hv. cbn [fold_left]. unfold lsumf. cbn [fold_right]. ring.
  - cbn [fold_left].
    destruct (brandes_source_spec p sc a Hwf Hnd (Hl a (or_introl eq_refl)) L) as [L1 H1].
    destruct (IH (brandes_source p sc a) (fun x Hx => Hl x (or_intror Hx)) L1) as [L2 H2].
    split; [exact L2|]. intros v Hv. rewrite (H2 v Hv), (H1 v Hv), lsumf_cons. ring.
Qed.

Lemma lsumf_seq f n : (lsumf f (seq 0 n) == bsum n f)%Q.
Proof.
  induction n as [|n IH]; [reflexivity|]. rewrite seq_S, lsumf_app, IH. cbn [bsum Nat.add].
  unfold lsumf at 1. cbn [fold_right]. ring.
Qed.

Lemma sdist_self p s : sdist p s s 0.
Proof. split; [cbn [nw]; rewrite Nat.eqb_refl; lra|intros k Hk; lia]. Qed.

Lemma pair_dep_self p s v : gwf p -> s < length p -> v < length p -> v <> s -> (pair_dependency p s s v == 0)%Q.
Proof.
  intros Hwf Hs Hv Hvs. unfold pair_dependency. rewrite (sp_info_some p s s 0 Hwf Hs Hs (sdist_self p s)).
  destruct (sp_info p s v) as [[d1 x]|] eqn:E1; [|reflexivity].
  destruct (sp_info p v s) as [[d2 y]|]; [|reflexivity].
  destruct (Nat.eqb (d1 + d2) 0) eqn:E; [|reflexivity]. exfalso. apply Nat.eqb_eq in E.
  destruct (sp_info_inv p s v d1 x Hv E1) as ([Pz _] & _ & _).
  assert (d1 = 0) by lia. subst d1. cbn [nw] in Pz.
  destruct (Nat.eqb s v) eqn:E2; [apply Nat.eqb_eq in E2; congruence|lra].
Qed.

(** The sum of the dependencies over all sources is the textbook sum over ordered pairs. *)
Lemma total_is_ordered p v : gwf p -> v < length p ->
  (bsum (length p) (fun s => if Nat.eqb v s then 0 else DD p s v) == betweenness_ordered p v)%Q.
Proof.
  intros Hwf Hv. unfold betweenness_ordered. cbv zeta. rewrite Qred_correct. apply bsum_ext. intros s Hs.
  rewrite (Nat.eqb_sym v s). destruct (Nat.eqb s v) eqn:Esv.
  - cbn [orb]. symmetry. apply bsum_0. intros; reflexivity.
  - cbn [orb]. unfold DD. apply bsum_ext. intros t Ht.
    destruct (Nat.eqb t v); cbn [orb]; [reflexivity|].
    destruct (Nat.eqb s t) eqn:Est; [|reflexivity].
    apply Nat.eqb_eq in Est. subst t. apply Nat.eqb_neq in Esv.
    apply pair_dep_self; try assumption. intros E. apply Esv. symmetry. exact E.
Qed.

Lemma pattern_length g : length (pattern g) = length g.
Proof. unfold pattern. apply map_length. Qed.

(** C04, betweenness: the coded Brandes accumulation equals the textbook betweenness on EVERY graph
    whose rows store in-range, duplicate-free column indices. *)
Theorem brandes_exact_proof (g : wgraph) :
  gwf (pattern g) -> gnd (pattern g) ->
  length (betweenness g) = length g /\ length (betweenness_spec g) = length g /\
  forall v, v < length g -> (V (betweenness g) v == V (betweenness_spec g) v)%Q.
Proof.
  intros Hwf Hnd. unfold betweenness, betweenness_spec. cbv zeta.
  set (p := pattern g) in *. assert (Lp : length p = length g) by apply pattern_length.
  destruct (fold_sources p Hwf Hnd (seq 0 (length p)) (repeat 0%Q (length p))) as [L1 H1].
  { intros s Hin. apply in_seq in Hin. lia. }
  { apply repeat_length. }
  set (sc := fold_left (brandes_source p) (seq 0 (length p)) (repeat 0%Q (length p))) in *.
  assert (Hsc : forall v, v < length p -> (V sc v == betweenness_ordered p v)%Q).
  { intros v Hv. rewrite (H1 v Hv), lsumf_seq, (total_is_ordered p v Hwf Hv).
    unfold V at 1. rewrite nthq_repeat by exact Hv. ring. }
  rewrite <- Lp.
  split; [destruct (is_symmetric g); [rewrite map_length|]; exact L1|].
  split; [rewrite map_length; apply seq_length|].
  intros v Hv. unfold V at 2. unfold nthq. rewrite nth_map_seq by exact Hv.
  destruct (is_symmetric g).
  - rewrite V_div, Qred_correct, (Hsc v Hv). reflexivity.
  - exact (Hsc v Hv).
Qed.

(* ------------------------------------------------------------------------------------------ *)
(** * Part E. Shortest paths as explicit node lists; their number is [nw] *)

(** all walks of k edges starting in u, as lists of k + 1 nodes *)
Fixpoint walks_from (p : graph) (k u : nat) : list (list nat) :=
  match k with
  | O => [[u]]
  | S k' => flat_map (fun w => map (cons u) (walks_from p k' w)) (row p u)
  end.

(** consecutive nodes are joined by an arc *)
Fixpoint is_walk (p : graph) (l : list nat) : Prop :=
  match l with
  | [] => False
  | x :: r => match r with [] => True | y :: _ => In y (row p x) /\ is_walk p r end
  end.

(** the walks of d edges from s to t; they are the shortest paths when d is the hop distance *)
Definition shortest_paths (p : graph) (s t d : nat) : list (list nat) :=
  filter (fun l => Nat.eqb (last l 0) t) (walks_from p d s).

Lemma walks_from_spec p k : forall u l,
  In l (walks_from p k u) <-> length l = S k /\ hd 0 l = u /\ is_walk p l.
Proof.
  induction k as [|k IH]; intros u l; cbn [walks_from].
  - split.
    + intros [<-|[]]. cbn. auto.
    + intros (Hl & Hh & _). destruct l as [|x [|y r]]; cbn in Hl; try lia. cbn in Hh. subst x. left. reflexivity.
  - rewrite in_flat_map. split.
    + intros (w & Hw & Hin). apply in_map_iff in Hin. destruct Hin as (l' & <- & Hl').
      apply IH in Hl'. destruct Hl' as (H1 & H2 & H3). split; [cbn [length]; lia|]. split; [reflexivity|].
      destruct l' as [|y r]; [cbn in H1; lia|]. cbn [hd] in H2. subst y. cbn [is_walk]. split; [exact Hw|exact H3].
    + intros (Hl & Hh & Hw). destruct l as [|x [|y r]]; cbn [length] in Hl; try lia. cbn [hd] in Hh. subst x.
      cbn [is_walk] in Hw. destruct Hw as [Hy Hr]. exists y. split; [exact Hy|].
      apply in_map_iff. exists (y :: r). split; [reflexivity|]. apply IH. split; [cbn [length]; lia|]. split; [reflexivity|exact Hr].
Qed.

Lemma shortest_paths_spec_proof p s t d l :
  In l (shortest_paths p s t d) <-> length l = S d /\ hd 0 l = s /\ last l 0 = t /\ is_walk p l.
Proof.
  unfold shortest_paths. rewrite filter_In, walks_from_spec, Nat.eqb_eq. tauto.
Qed.

Lemma nodup_flat_map {A B} (f : A -> list B) (l : list A) :
  NoDup l -> (forall x, In x l -> NoDup (f x)) ->
  (forall x y b, In x l -> In y l -> In b (f x) -> In b (f y) -> x = y) -> NoDup (flat_map f l).
Proof.
  induction l as [|a l IH]; intros N Hf Hd; cbn [flat_map]; [constructor|].
  inversion N as [|? ? Na N']; subst.
  assert (IH' : NoDup (flat_map f l)).
  { apply IH; [exact N'|intros x Hx; apply Hf; right; exact Hx|].
    intros x y b Hx Hy. apply Hd; right; assumption. }
  assert (Ha := Hf a (or_introl eq_refl)).
  revert Ha. generalize (fun b Hb => fun y Hy Hb' => Hd a y b (or_introl eq_refl) (or_intror Hy) Hb Hb').
  generalize (f a) as fa. induction fa as [|b fa IHf]; intros Hdisj Ha; cbn [app]; [exact IH'|].
  inversion Ha as [|? ? Nb Nfa]; subst. constructor.
  - intros Hin. apply in_app_iff in Hin. destruct Hin as [Hin|Hin]; [contradiction|].
    apply in_flat_map in Hin. destruct Hin as (y & Hy & Hby).
    assert (E := Hdisj b (or_introl eq_refl) y Hy Hby). subst y. contradiction.
  - apply IHf; [|exact Nfa]. intros b' Hb' y Hy Hb2. apply (Hdisj b' (or_intror Hb') y Hy Hb2).
Qed.

Lemma walks_from_nodup p : gnd p -> forall k u, NoDup (walks_from p k u).
Proof.
  intros Hnd. induction k as [|k IH]; intros u; cbn [walks_from].
  - constructor; [intros []|constructor].
  - apply nodup_flat_map.
    + apply Hnd.
    + intros w _. apply NoDup_map_inj_in; [|apply IH]. intros x y _ _ E. injection E as E. exact E.
    + intros x y b _ _ Hx Hy. apply in_map_iff in Hx. destruct Hx as (lx & <- & Hlx).
      apply in_map_iff in Hy. destruct Hy as (ly & E & Hly). injection E as E. subst ly.
      apply walks_from_spec in Hlx. apply walks_from_spec in Hly.
      destruct Hlx as (_ & H1 & _). destruct Hly as (_ & H2 & _). congruence.
Qed.

Lemma shortest_paths_nodup_proof p s t d : gnd p -> NoDup (shortest_paths p s t d).
Proof. intros Hnd. unfold shortest_paths. apply NoDup_filter. apply walks_from_nodup. exact Hnd. Qed.

Definition cntw (p : graph) (k u t : nat) : nat := length (shortest_paths p u t k).

Lemma length_filter_flat_map {A B} (P : B -> bool) (f : A -> list B) (l : list A) :
  length (filter P (flat_map f l)) = sumn (map (fun w => length (filter P (f w))) l).
Proof.
  induction l as [|a l IH]; [reflexivity|]. cbn [flat_map map sumn fold_right].
  rewrite filter_app, app_length, IH. reflexivity.
Qed.

Lemma filter_map_comm {A B} (P : B -> bool) (g : A -> B) (l : list A) :
  filter P (map g l) = map g (filter (fun x => P (g x)) l).
Proof.
  induction l as [|a l IH]; [reflexivity|]. cbn [map filter]. destruct (P (g a)); cbn [map]; rewrite IH; reflexivity.
Qed.

Lemma walks_from_nonempty p k u l : In l (walks_from p k u) -> l <> [].
Proof. intros H. apply walks_from_spec in H. destruct H as (H & _). intros ->. cbn in H. lia. Qed.

Lemma cntw_S p k u t : cntw p (S k) u t = sumn (map (fun w => cntw p k w t) (row p u)).
Proof.
  unfold cntw, shortest_paths. cbn [walks_from]. rewrite length_filter_flat_map. f_equal.
  apply map_ext. intros w. rewrite filter_map_comm, map_length. f_equal.
  apply filter_ext_in. intros l Hl. apply walks_from_nonempty in Hl.
  destruct l as [|y r]; [contradiction|]. reflexivity.
Qed.

Lemma cntw_0 p u t : cntw p 0 u t = if Nat.eqb u t then 1 else 0.
Proof. unfold cntw, shortest_paths. cbn [walks_from filter last]. destruct (Nat.eqb u t); reflexivity. Qed.

Definition qn (m : nat) : Q := inject_Z (Z.of_nat m).

Lemma qn_sumn (f : nat -> nat) l : (qn (sumn (map f l)) == lsumf (fun w => qn (f w)) l)%Q.
Proof.
  induction l as [|a l IH]; [reflexivity|]. cbn [map sumn fold_right]. rewrite lsumf_cons. fold (sumn (map f l)).
  unfold qn in *. rewrite Nat2Z.inj_add, inject_Z_plus, IH. reflexivity.
Qed.

(** The number of explicit walks is the walk count of the specification. *)
Lemma cntw_nw p : gwf p -> gnd p -> forall k u t, u < length p -> t < length p ->
  (qn (cntw p k u t) == nw p k u t)%Q.
Proof.
  intros Hwf Hnd. induction k as [|k IH]; intros u t Hu Ht.
  - rewrite cntw_0. cbn [nw]. destruct (Nat.eqb u t); reflexivity.
  - rewrite cntw_S, qn_sumn, (nw_first p k u t Hu Ht).
    rewrite (lsumf_bsum (length p) _ (row p u) (Hnd u) (fun w Hw => Hwf u w Hw)).
    apply bsum_ext. intros w Hw. unfold A01. destruct (memn w (row p u)); [|ring].
    rewrite (IH w t Hw Ht). ring.
Qed.

(* ------------------------------------------------------------------------------------------ *)
(** * Part F. The statements about the two phases *)

(** Forward phase from source s: the queue empties within n pops; dists are the exact hop distances
    (-1 = unreachable); sigma[v] is the number of shortest paths (explicit node lists) from s to v,
    0 when unreachable; preds[v] is, without repetition, the set of in-neighbours one level closer. *)
Theorem brandes_sigma_counts_shortest_paths_proof (p : graph) (s : nat) :
  gwf p -> gnd p -> s < length p ->
  let st := fst (brandes_forward p s) in
  let seen := snd (brandes_forward p s) in
  b_queue st = [] /\ NoDup seen /\
  forall v, v < length p ->
    (forall k, nthz (b_dists st) v = Z.of_nat k <-> hop p (single_source (length p) s) v k) /\
    (nthz (b_dists st) v = (-1)%Z <-> forall k, ~ reachk p (single_source (length p) s) k v) /\
    (In v seen <-> (0 <= nthz (b_dists st) v)%Z) /\
    (forall k, hop p (single_source (length p) s) v k ->
       nthz (b_sigma st) v = Z.of_nat (length (shortest_paths p s v k))) /\
    (nthz (b_dists st) v = (-1)%Z -> nthz (b_sigma st) v = 0%Z) /\
    NoDup (nth v (b_preds st) []) /\
    (forall u, In u (nth v (b_preds st) []) <->
       In v (row p u) /\ (0 <= nthz (b_dists st) u)%Z /\ (nthz (b_dists st) u + 1 = nthz (b_dists st) v)%Z).
Proof.
  intros Hwf Hnd Hs st seen. destruct (forward_final p s Hwf Hnd Hs) as [Hq HF]. fold st seen in Hq, HF.
  split; [exact Hq|]. split; [exact (f_nd _ _ _ _ _ _ HF)|]. intros v Hv.
  split; [intros k; exact (f_dist _ _ _ _ _ _ HF v k Hv)|].
  split; [exact (f_unreach _ _ _ _ _ _ HF v Hv)|].
  split; [exact (f_seen _ _ _ _ _ _ HF v Hv)|].
  split.
  { intros k Hh. apply (f_dist _ _ _ _ _ _ HF v k Hv) in Hh.
    assert (E := f_sigma _ _ _ _ _ _ HF v k Hv Hh). rewrite <- (cntw_nw p Hwf Hnd k s v Hs Hv) in E.
    unfold zq, qn, cntw in E. exact (proj1 (inject_Z_injective _ _) E). }
  split.
  { intros E. apply (f_sigma0 _ _ _ _ _ _ HF v Hv). intros Hin. apply (f_seen _ _ _ _ _ _ HF v Hv) in Hin.
    unfold dzf in Hin. lia. }
  rewrite (f_preds _ _ _ _ _ _ HF v Hv). split.
  { apply NoDup_filter, NoDup_rev. exact (f_nd _ _ _ _ _ _ HF). }
  intros u. rewrite filter_In. unfold pc. rewrite andb_true_iff, Z.eqb_eq, memn_In, <- in_rev. unfold dzf. split.
  - intros (H1 & H2 & H3). split; [exact H2|]. split; [|exact H3].
    apply (f_seen _ _ _ _ _ _ HF u (f_lt _ _ _ _ _ _ HF u H1)). exact H1.
  - intros (H1 & H2 & H3). split; [|split; assumption].
    apply (f_seen _ _ _ _ _ _ HF u (row_nonempty_lt _ _ _ H1)). exact H2.
Qed.

(** Backward phase: the accumulated delta satisfies Brandes' recurrence over the predecessor lists, it
    is the dependency sum_{t <> v} sigma_st(v) / sigma_st of the source on every reachable v, and the
    scores grow by exactly that dependency (nothing for v = s or v unreachable). *)
Theorem brandes_delta_recurrence_proof (p : graph) (s : nat) (sc0 : list Q) :
  gwf p -> gnd p -> s < length p -> length sc0 = length p ->
  let st := fst (brandes_forward p s) in
  let seen := snd (brandes_forward p s) in
  let acc := fold_left (back_step s (b_sigma st) (b_preds st)) seen (repeat 0%Q (length p), sc0) in
  let dep := fun v => bsum (length p) (fun t => if Nat.eqb t v then 0%Q else pair_dependency p s t v) in
  brandes_source p sc0 s = snd acc /\
  (forall v, v < length p ->
     (V (fst acc) v == bsum (length p) (fun w =>
        if memn v (nth w (b_preds st) [])
        then zq (nthz (b_sigma st) v) / zq (nthz (b_sigma st) w) * (1 + V (fst acc) w) else 0))%Q) /\
  (forall v, v < length p -> (0 <= nthz (b_dists st) v)%Z -> (V (fst acc) v == dep v)%Q) /\
  (forall v, v < length p -> (nthz (b_dists st) v < 0)%Z -> (dep v == 0)%Q) /\
  (forall v, v < length p -> (V (snd acc) v == V sc0 v + (if Nat.eqb v s then 0 else dep v))%Q).
Proof.
  intros Hwf Hnd Hs L st seen acc dep. destruct (forward_final p s Hwf Hnd Hs) as [_ HF]. fold st seen in HF.
  destruct (backward_result p s Hs seen _ _ _ HF sc0 L) as (_ & H2 & _). fold acc in H2.
  split; [apply brandes_source_eq|]. split; [exact H2|]. split; [|split].
  - intros v Hv H0. apply (delta_is_dependency p s Hwf Hs seen _ _ _ HF (fst acc) H2 v (Z.to_nat (nthz (b_dists st) v)) Hv).
    apply dfun_of_some. unfold dzf. lia.
  - intros v Hv Hneg. apply (DD_unreach p s (dfun_of (b_dists st)) (dfun_unreach p s Hwf Hs seen _ _ _ HF) v Hv).
    unfold dfun_of, dzf. destruct (0 <=? nthz (b_dists st) v)%Z eqn:E; [apply Z.leb_le in E; lia|reflexivity].
  - exact (proj2 (one_source_scores p s Hwf Hs seen _ _ _ HF sc0 L)).
Qed.

(** The pair dependency of the specification in terms of explicit path counts:
    sigma_st(v) / sigma_st = #sp(s,v) * #sp(v,t) / #sp(s,t) when v lies on a shortest s-t path
    (d(s,v) + d(v,t) = d(s,t)), written with the walks of d(s,t) - d(s,v) edges from v to t, which are
    shortest paths exactly in that case and do not exist otherwise. *)
Theorem pair_dependency_paths_proof (p : graph) (s t v dt dv : nat) :
  gwf p -> gnd p -> s < length p -> t < length p -> v < length p ->
  hop p (single_source (length p) s) t dt -> hop p (single_source (length p) s) v dv ->
  (pair_dependency p s t v ==
   if Nat.leb dv dt
   then qn (length (shortest_paths p s v dv)) * qn (length (shortest_paths p v t (dt - dv)))
        / qn (length (shortest_paths p s t dt))
   else 0)%Q.
Proof.
  intros Hwf Hnd Hs Ht Hv Hht Hhv.
  apply (sdist_hop p s t dt Hwf Hs Ht) in Hht. apply (sdist_hop p s v dv Hwf Hs Hv) in Hhv.
  destruct (Nat.leb dv dt) eqn:E.
  - apply Nat.leb_le in E. rewrite (pair_dep_on p s t v dt dv Hwf Hs Ht Hv Hht Hhv E).
    fold (cntw p dv s v). fold (cntw p (dt - dv) v t). fold (cntw p dt s t).
    rewrite !cntw_nw by assumption. reflexivity.
  - apply Nat.leb_gt in E. apply (pair_dep_off p s t v dt dv Hwf Hs Ht Hv Hht Hhv E).
Qed.

(** The combinatorial identity behind sigma_st(v) = sigma_sv * sigma_vt: the walks of a + b edges from
    u to t whose a-th node is v are as many as (walks of a edges u -> v) x (walks of b edges v -> t). *)
Lemma filter_filter_and {A} (P R : A -> bool) (l : list A) :
  filter P (filter R l) = filter (fun x => P x && R x) l.
Proof.
  induction l as [|a l IH]; [reflexivity|]. cbn [filter]. destruct (R a); cbn [filter].
  - destruct (P a); cbn [andb]; rewrite IH; reflexivity.
  - rewrite andb_false_r. exact IH.
Qed.

Lemma sumn_scale (f : nat -> nat) c l : sumn (map (fun w => f w * c) l) = sumn (map f l) * c.
Proof. unfold sumn. induction l as [|a l IH]; [reflexivity|]. cbn [map fold_right]. rewrite IH. lia. Qed.

Lemma paths_through_proof (p : graph) : forall a b u v t,
  length (filter (fun l => Nat.eqb (nth a l 0) v) (shortest_paths p u t (a + b))) =
  length (shortest_paths p u v a) * length (shortest_paths p v t b).
Proof.
  intros a b u v t. unfold shortest_paths at 1. rewrite filter_filter_and.
  fold (cntw p a u v). fold (cntw p b v t). revert u.
  induction a as [|a IH]; intros u.
  - cbn [Nat.add]. rewrite cntw_0. destruct (Nat.eqb u v) eqn:E.
    + apply Nat.eqb_eq in E. subst u. rewrite Nat.mul_1_l. unfold cntw, shortest_paths. f_equal.
      apply filter_ext_in. intros l Hl. apply walks_from_spec in Hl. destruct Hl as (_ & Hh & _).
      destruct l as [|x r]; cbn [hd nth] in *; subst; rewrite ?Nat.eqb_refl; reflexivity.
    + rewrite filter_none; [reflexivity|]. intros l Hl. apply walks_from_spec in Hl. destruct Hl as (Hlen & Hh & _).
      destruct l as [|x r]; [cbn in Hlen; lia|]. cbn [hd nth] in *. subst x. rewrite E. reflexivity.
  - cbn [Nat.add walks_from]. rewrite length_filter_flat_map, cntw_S, <- sumn_scale. f_equal.
    apply map_ext. intros w. rewrite <- IH. rewrite filter_map_comm, map_length. f_equal.
    apply filter_ext_in. intros l Hl. apply walks_from_nonempty in Hl.
    destruct l as [|y r]; [contradiction|]. reflexivity.
Qed.

(* ------------------------------------------------------------------------------------------ *)
(** * Part G. Statements with the hypotheses spelled out; executable hypothesis checkers *)

Fixpoint nodupb (l : list nat) : bool :=
  match l with [] => true | a :: t => negb (memn a t) && nodupb t end.
(** every stored column index is < n and no row stores a column twice *)
Definition rows_ok (p : graph) : bool :=
  forallb (fun r => forallb (fun v => Nat.ltb v (length p)) r && nodupb r) p.

Lemma nodupb_ok l : nodupb l = true -> NoDup l.
Proof.
  induction l as [|a t IH]; intros H; [constructor|]. cbn [nodupb] in H. apply andb_true_iff in H.
  destruct H as [H1 H2]. constructor; [|apply IH; exact H2].
  intros Hin. apply memn_In in Hin. rewrite Hin in H1. discriminate.
Qed.

Lemma rows_ok_sound p : rows_ok p = true -> gwf p /\ gnd p.
Proof.
  intros H. unfold rows_ok in H. rewrite forallb_forall in H.
  assert (Hrow : forall u, u < length p -> In (row p u) p) by (intros u Hu; unfold row; apply nth_In; exact Hu).
  split.
  - intros u v Hin. assert (Hu := row_nonempty_lt _ _ _ Hin). assert (Hr := H _ (Hrow u Hu)).
    apply andb_true_iff in Hr. destruct Hr as [Hr _]. rewrite forallb_forall in Hr.
    apply Nat.ltb_lt. apply Hr. exact Hin.
  - intros u. destruct (Nat.lt_ge_cases u (length p)) as [Hu|Hu].
    + assert (Hr := H _ (Hrow u Hu)). apply andb_true_iff in Hr. destruct Hr as [_ Hr]. apply nodupb_ok. exact Hr.
    + unfold row. rewrite nth_overflow by exact Hu. constructor.
Qed.

Theorem brandes_exact_explicit (g : wgraph) :
  (forall u v, In v (row (pattern g) u) -> v < length g) ->
  (forall u, NoDup (row (pattern g) u)) ->
  length (betweenness g) = length g /\
  forall v, v < length g ->
    (V (betweenness g) v == V (betweenness_spec g) v)%Q /\
    (V (betweenness_spec g) v ==
       let n := length g in
       let ordered := bsum n (fun s => bsum n (fun t =>
          if Nat.eqb s v || Nat.eqb t v || Nat.eqb s t then 0 else pair_dependency (pattern g) s t v)) in
       if is_symmetric g then ordered / 2 else ordered)%Q.
Proof.
  intros Hwf Hnd. assert (Lp := pattern_length g).
  assert (Hwf' : gwf (pattern g)) by (intros u v H; rewrite Lp; exact (Hwf u v H)).
  destruct (brandes_exact_proof g Hwf' Hnd) as (L1 & _ & H).
  split; [exact L1|]. intros v Hv. split; [exact (H v Hv)|].
  cbv zeta. unfold betweenness_spec. cbv zeta. unfold V, nthq. rewrite Lp. rewrite nth_map_seq by exact Hv.
  unfold betweenness_ordered. cbv zeta. rewrite Lp.
  destruct (is_symmetric g); rewrite ?Qred_correct; reflexivity.
Qed.

Theorem brandes_exact_checked (g : wgraph) :
  rows_ok (pattern g) = true ->
  length (betweenness g) = length g /\
  forall v, v < length g -> (V (betweenness g) v == V (betweenness_spec g) v)%Q.
Proof.
  intros H. destruct (rows_ok_sound _ H) as [Hwf Hnd].
  destruct (brandes_exact_proof g Hwf Hnd) as (L1 & _ & H2). split; assumption.
Qed.

(* ------------------------------------------------------------------------------------------ *)
(** * Part H. Symmetric pattern: the halved ordered sum is the sum over unordered pairs *)

Definition psym (p : graph) : Prop := forall u v, In v (row p u) <-> In u (row p v).

Lemma A01_sym p u v : psym p -> A01 p u v = A01 p v u.
Proof.
  intros H. unfold A01. destruct (memn v (row p u)) eqn:E1, (memn u (row p v)) eqn:E2; try reflexivity.
  - apply memn_In in E1. apply H in E1. apply memn_In in E1. congruence.
  - apply memn_In in E2. apply H in E2. apply memn_In in E2. congruence.
Qed.

Lemma nw_sym p : psym p -> forall k s t, s < length p -> t < length p -> (nw p k s t == nw p k t s)%Q.
Proof.
  intros Hsym. induction k as [|k IH]; intros s t Hs Ht.
  - cbn [nw]. rewrite (Nat.eqb_sym s t). reflexivity.
  - rewrite (nw_first p k t s Ht Hs). cbn [nw]. apply bsum_ext. intros u Hu.
    rewrite (IH s u Hs Hu), (A01_sym p u t Hsym). ring.
Qed.

Lemma sdist_sym p s t d : psym p -> s < length p -> t < length p -> sdist p s t d -> sdist p t s d.
Proof.
  intros Hsym Hs Ht [Pz Z0]. split.
  - rewrite <- (nw_sym p Hsym d s t Hs Ht). exact Pz.
  - intros k Hk. rewrite <- (nw_sym p Hsym k s t Hs Ht). exact (Z0 k Hk).
Qed.

Definition sp_match (a b : option (nat * Q)) : Prop :=
  match a, b with
  | Some (d, x), Some (d', y) => d = d' /\ (x == y)%Q
  | None, None => True
  | _, _ => False
  end.

Lemma sp_info_sym p s t : gwf p -> psym p -> s < length p -> t < length p ->
  sp_match (sp_info p s t) (sp_info p t s).
Proof.
  intros Hwf Hsym Hs Ht. destruct (sp_info p s t) as [[d x]|] eqn:E1.
  - destruct (sp_info_inv p s t d x Ht E1) as (Hd & -> & _).
    rewrite (sp_info_some p t s d Hwf Ht Hs (sdist_sym p s t d Hsym Hs Ht Hd)). cbn [sp_match].
    split; [reflexivity|]. rewrite !nwalks_nw by assumption. apply nw_sym; assumption.
  - destruct (sp_info p t s) as [[d y]|] eqn:E2; [|exact I]. cbn [sp_match].
    destruct (sp_info_inv p t s d y Hs E2) as ([Pz _] & _ & Hdn).
    rewrite (nw_sym p Hsym d t s Ht Hs) in Pz. rewrite (sp_info_none_inv p s t Ht E1 d Hdn) in Pz. lra.
Qed.

Lemma pair_dep_sym p s t v : gwf p -> psym p -> s < length p -> t < length p -> v < length p ->
  (pair_dependency p s t v == pair_dependency p t s v)%Q.
Proof.
  intros Hwf Hsym Hs Ht Hv. unfold pair_dependency.
  assert (M1 := sp_info_sym p s t Hwf Hsym Hs Ht).
  assert (M2 := sp_info_sym p s v Hwf Hsym Hs Hv).
  assert (M3 := sp_info_sym p v t Hwf Hsym Hv Ht).
  destruct (sp_info p s t) as [[d x]|], (sp_info p t s) as [[d' x']|]; cbn [sp_match] in M1; try contradiction.
  2:{ reflexivity. }
  destruct M1 as [<- Ex].
  destruct (sp_info p s v) as [[d1 y]|], (sp_info p v s) as [[d1' y']|]; cbn [sp_match] in M2; try contradiction.
  2:{ destruct (sp_info p t v) as [[? ?]|]; reflexivity. }
  destruct M2 as [<- Ey].
  destruct (sp_info p v t) as [[d2 z]|], (sp_info p t v) as [[d2' z']|]; cbn [sp_match] in M3; try contradiction.
  2:{ reflexivity. }
  destruct M3 as [<- Ez]. rewrite (Nat.add_comm d2 d1).
  destruct (Nat.eqb (d1 + d2) d); [|reflexivity]. rewrite Ex, Ey, Ez. unfold Qdiv. ring.
Qed.

Lemma bsum_sym_half n (f : nat -> nat -> Q) :
  (forall a b, a < n -> b < n -> (f a b == f b a)%Q) -> (forall a, a < n -> (f a a == 0)%Q) ->
  (bsum n (fun a => bsum n (f a)) == 2 * bsum n (fun a => bsum a (f a)))%Q.
Proof.
  induction n as [|n IH]; intros Hs Hd; [cbn [bsum]; ring|].
  cbn [bsum].
  assert (E1 : (bsum n (fun a => bsum (S n) (f a)) == bsum n (fun a => bsum n (f a)) + bsum n (fun a => f a n))%Q).
  { rewrite <- bsum_plus. apply bsum_ext. intros a _. reflexivity. }
  rewrite E1. rewrite IH by (intros; try apply Hs; try apply Hd; lia).
  rewrite (Hd n) by lia.
  assert (E2 : (bsum n (fun a => f a n) == bsum n (f n))%Q) by (apply bsum_ext; intros a Ha; apply Hs; lia).
  rewrite E2. ring.
Qed.

(** For a symmetric pattern and a symmetric adjacency, the coded betweenness of v is the sum over the
    UNORDERED pairs {s, t} (each taken once, t < s), s <> v <> t, of sigma_st(v) / sigma_st. *)
Theorem brandes_undirected_proof (g : wgraph) :
  (forall u v, In v (row (pattern g) u) -> v < length g) ->
  (forall u, NoDup (row (pattern g) u)) ->
  (forall u v, In v (row (pattern g) u) <-> In u (row (pattern g) v)) ->
  is_symmetric g = true ->
  forall v, v < length g ->
    (V (betweenness g) v ==
     bsum (length g) (fun s => bsum s (fun t =>
       if Nat.eqb s v || Nat.eqb t v then 0 else pair_dependency (pattern g) s t v)))%Q.
Proof.
  intros Hwf Hnd Hsym Hsg v Hv. assert (Lp := pattern_length g).
  assert (Hwf' : gwf (pattern g)) by (intros a b H; rewrite Lp; exact (Hwf a b H)).
  destruct (brandes_exact_explicit g Hwf Hnd) as [_ H]. destruct (H v Hv) as [H1 H2].
  rewrite H1, H2. cbv zeta. rewrite Hsg.
  rewrite (bsum_sym_half (length g) (fun s t =>
     if Nat.eqb s v || Nat.eqb t v || Nat.eqb s t then 0%Q else pair_dependency (pattern g) s t v)).
  - setoid_replace (2 * bsum (length g) (fun a => bsum a (fun t =>
        if Nat.eqb a v || Nat.eqb t v || Nat.eqb a t then 0 else pair_dependency (pattern g) a t v)) / 2)%Q
      with (bsum (length g) (fun a => bsum a (fun t =>
        if Nat.eqb a v || Nat.eqb t v || Nat.eqb a t then 0 else pair_dependency (pattern g) a t v)))%Q by field.
    apply bsum_ext. intros a Ha. apply bsum_ext. intros t Ht.
    assert (E : Nat.eqb a t = false) by (apply Nat.eqb_neq; lia). rewrite E, orb_false_r. reflexivity.
  - intros a b Ha Hb. rewrite (Nat.eqb_sym b a), (orb_comm (Nat.eqb b v) (Nat.eqb a v)).
    destruct (Nat.eqb a v || Nat.eqb b v || Nat.eqb a b); [reflexivity|].
    apply pair_dep_sym; try assumption; rewrite Lp; assumption.
  - intros a _. rewrite Nat.eqb_refl, orb_true_r. reflexivity.
Qed.

(** Unbounded correctness of the Brandes model (Model/Centrality.v: [brandes_bfs], [back_step],
    [brandes_source], [betweenness]) against the brute-force textbook [betweenness_spec].

    Hypotheses used throughout: [gwf p] (every stored column index is < n) and [gnd p] (no row stores
    a column twice: the walk matrix [A01] of the specification is 0/1, whereas the code would count a
    duplicated CSR entry twice).  No connectivity hypothesis: unreachable nodes contribute 0. *)
From Coq Require Import Qabs Qreduction Lqa Psatz Lia Setoid Permutation Sorted.
From SKN Require Import Base.Util Model.Bfs Proofs.BfsProofs Model.PageRank Proofs.PageRankProofs Model.Centrality.
Close Scope Q_scope.
Open Scope nat_scope.

Definition gwf (p : graph) : Prop := forall u v, In v (row p u) -> v < length p.
Definition gnd (p : graph) : Prop := forall u, NoDup (row p u).

(* ------------------------------------------------------------------------------------------ *)
(** * Part A. Walk counts (specification side) *)

(** [nw p k s t]: number of walks of k edges from s to t (the specification's [nwalks] without [Qred]). *)
Fixpoint nw (p : graph) (k : nat) (s t : nat) : Q :=
  match k with
  | O => if Nat.eqb s t then 1%Q else 0%Q
  | S k' => bsum (length p) (fun u => nw p k' s u * A01 p u t)%Q
  end.

Lemma nwalks_length p k s : length (nwalks p k s) = length p.
Proof.
  destruct k as [|k]; cbn [nwalks].
  - rewrite map_length. apply seq_length.
  - apply tab_length.
Qed.

Lemma nwalks_nw p k s t : t < length p -> (V (nwalks p k s) t == nw p k s t)%Q.
Proof.
  revert t. induction k as [|k IH]; intros t Ht.
  - cbn [nwalks nw]. unfold V, nthq. rewrite nth_map_seq by exact Ht. reflexivity.
  - cbn [nwalks nw]. rewrite V_tab by exact Ht. apply bsum_ext. intros u Hu.
    rewrite (IH u Hu). reflexivity.
Qed.

Lemma A01_cases p u t : (A01 p u t = 1%Q /\ In t (row p u)) \/ (A01 p u t = 0%Q /\ ~ In t (row p u)).
Proof.
  unfold A01. destruct (memn t (row p u)) eqn:E.
  - left. split; [reflexivity|]. apply memn_In. exact E.
  - right. split; [reflexivity|]. intros H. apply memn_In in H. congruence.
Qed.

Lemma A01_nonneg p u t : (0 <= A01 p u t)%Q.
Proof. destruct (A01_cases p u t) as [[E _]|[E _]]; rewrite E; lra. Qed.

Lemma nw_nonneg p k s t : (0 <= nw p k s t)%Q.
Proof.
  revert t. induction k as [|k IH]; intros t; cbn [nw].
  - destruct (Nat.eqb s t); lra.
  - apply bsum_nonneg. intros u _. assert (H1 := IH u). assert (H2 := A01_nonneg p u t). nra.
Qed.

Lemma bsum_pos_iff n f :
  (forall i, i < n -> (0 <= f i)%Q) -> ((0 < bsum n f)%Q <-> exists i, i < n /\ (0 < f i)%Q).
Proof.
  induction n as [|n IH]; intros Hf; cbn [bsum].
  - split; [intros H; lra|intros (i & Hi & _); lia].
  - assert (Hf' : forall i, i < n -> (0 <= f i)%Q) by (intros i Hi; apply Hf; lia).
    assert (H0 := bsum_nonneg n f Hf'). assert (Hn := Hf n (Nat.lt_succ_diag_r n)).
    split.
    + intros H. destruct (Qlt_le_dec 0 (f n)) as [L|L].
      * exists n. split; [lia|exact L].
      * assert (Hb : (0 < bsum n f)%Q) by lra. apply (IH Hf') in Hb. destruct Hb as (i & Hi & Hp).
        exists i. split; [lia|exact Hp].
    + intros (i & Hi & Hp). destruct (Nat.eq_dec i n) as [->|Ne]; [lra|].
      assert (Hb : (0 < bsum n f)%Q) by (apply (IH Hf'); exists i; split; [lia|exact Hp]). lra.
Qed.

Lemma nthb_single_source n s v : v < n -> nthb (single_source n s) v = Nat.eqb s v.
Proof. intros Hv. unfold nthb, single_source. apply nth_map_seq. exact Hv. Qed.

Lemma nthb_single_source_out n s v : n <= v -> nthb (single_source n s) v = false.
Proof.
  intros Hv. unfold nthb, single_source. apply nth_overflow. rewrite map_length, seq_length. exact Hv.
Qed.

Notation src p s := (single_source (length p) s).

Lemma reachk_lt p s k v : gwf p -> s < length p -> reachk p (src p s) k v -> v < length p.
Proof.
  intros Hwf Hs. destruct k as [|k]; cbn [reachk].
  - intros H. destruct (Nat.lt_ge_cases v (length p)) as [L|L]; [exact L|].
    rewrite nthb_single_source_out in H by exact L. discriminate.
  - intros (u & _ & Hin). exact (Hwf _ _ Hin).
Qed.

Lemma nw_pos_reach p s : gwf p -> s < length p ->
  forall k t, t < length p -> ((0 < nw p k s t)%Q <-> reachk p (src p s) k t).
Proof.
  intros Hwf Hs. induction k as [|k IH]; intros t Ht.
  - cbn [nw reachk]. rewrite nthb_single_source by exact Ht. destruct (Nat.eqb s t); split; intros H; try lra; try discriminate; reflexivity.
  - cbn [nw reachk]. rewrite bsum_pos_iff.
    + split.
      * intros (u & Hu & Hp). destruct (A01_cases p u t) as [[E Hin]|[E _]]; rewrite E in Hp.
        -- exists u. split; [|exact Hin]. apply (IH u Hu). lra.
        -- lra.
      * intros (u & Hr & Hin). assert (Hu := row_nonempty_lt _ _ _ Hin). exists u. split; [exact Hu|].
        apply (IH u Hu) in Hr. destruct (A01_cases p u t) as [[E _]|[_ Hn]]; [rewrite E; lra|contradiction].
    + intros u _. assert (H1 := nw_nonneg p k s u). assert (H2 := A01_nonneg p u t). nra.
Qed.

(** Sum against an indicator of one index. *)
Lemma bsum_pick n (f : nat -> Q) t : t < n -> (bsum n (fun j => f j * (if Nat.eqb j t then 1 else 0)) == f t)%Q.
Proof.
  intros Ht. rewrite <- (bsum_delta n t (f t) Ht). apply bsum_ext. intros j _.
  destruct (Nat.eqb j t) eqn:E; [apply Nat.eqb_eq in E; subst j; ring|ring].
Qed.

Lemma bsum_pick_l n (f : nat -> Q) t : t < n -> (bsum n (fun j => (if Nat.eqb t j then 1 else 0) * f j) == f t)%Q.
Proof.
  intros Ht. rewrite <- (bsum_pick n f t Ht). apply bsum_ext. intros j _.
  rewrite (Nat.eqb_sym t j). ring.
Qed.

(** Chapman-Kolmogorov. *)
Lemma nw_compose p a b s t : t < length p ->
  (nw p (a + b) s t == bsum (length p) (fun v => nw p a s v * nw p b v t))%Q.
Proof.
  revert t. induction b as [|b IH]; intros t Ht.
  - rewrite Nat.add_0_r. cbn [nw]. symmetry. apply bsum_pick. exact Ht.
  - rewrite Nat.add_succ_r. cbn [nw].
    transitivity (bsum (length p) (fun u => bsum (length p) (fun v => nw p a s v * nw p b v u * A01 p u t)))%Q.
    { apply bsum_ext. intros u Hu. rewrite (IH u Hu). rewrite <- bsum_scale_r. reflexivity. }
    rewrite bsum_swap. apply bsum_ext. intros v _.
    rewrite <- bsum_scale. apply bsum_ext. intros u _. ring.
Qed.

Lemma nw_1 p v w : v < length p -> (nw p 1 v w == A01 p v w)%Q.
Proof. intros Hv. cbn [nw]. apply (bsum_pick_l (length p) (fun u => A01 p u w) v Hv). Qed.

(** First-step decomposition. *)
Lemma nw_first p m v t : v < length p -> t < length p ->
  (nw p (S m) v t == bsum (length p) (fun w => A01 p v w * nw p m w t))%Q.
Proof.
  intros Hv Ht. change (S m) with (1 + m). rewrite nw_compose by exact Ht.
  apply bsum_ext. intros w _. rewrite (nw_1 p v w Hv). reflexivity.
Qed.

Lemma nw_pos_compose p a b s v t : v < length p -> t < length p ->
  (0 < nw p a s v)%Q -> (0 < nw p b v t)%Q -> (0 < nw p (a + b) s t)%Q.
Proof.
  intros Hv Ht H1 H2. rewrite nw_compose by exact Ht. apply bsum_pos_iff.
  - intros u _. assert (G1 := nw_nonneg p a s u). assert (G2 := nw_nonneg p b u t). nra.
  - exists v. split; [exact Hv|nra].
Qed.

(** [sdist p s t d]: d is the length of the shortest walks from s to t. *)
Definition sdist (p : graph) (s t d : nat) : Prop :=
  (0 < nw p d s t)%Q /\ forall k, k < d -> (nw p k s t == 0)%Q.

Lemma nw_zero_or_pos p k s t : (nw p k s t == 0)%Q \/ (0 < nw p k s t)%Q.
Proof. assert (H := nw_nonneg p k s t). destruct (Qlt_le_dec 0 (nw p k s t)) as [L|L]; [right; exact L|left; lra]. Qed.

Lemma sdist_hop p s t d : gwf p -> s < length p -> t < length p ->
  (sdist p s t d <-> hop p (src p s) t d).
Proof.
  intros Hwf Hs Ht. unfold sdist, hop. split.
  - intros [H1 H2]. split; [apply (nw_pos_reach p s Hwf Hs d t Ht); exact H1|].
    intros j Hj Hr. apply (nw_pos_reach p s Hwf Hs j t Ht) in Hr. rewrite (H2 j Hj) in Hr. lra.
  - intros [H1 H2]. split; [apply (nw_pos_reach p s Hwf Hs d t Ht); exact H1|].
    intros k Hk. destruct (nw_zero_or_pos p k s t) as [Z|Pz]; [exact Z|].
    exfalso. apply (H2 k Hk). apply (nw_pos_reach p s Hwf Hs k t Ht). exact Pz.
Qed.

Lemma sdist_unique p s t d1 d2 : sdist p s t d1 -> sdist p s t d2 -> d1 = d2.
Proof.
  intros [P1 Z1] [P2 Z2]. destruct (Nat.lt_trichotomy d1 d2) as [L|[E|L]]; [|exact E|].
  - rewrite (Z2 d1 L) in P1. lra.
  - rewrite (Z1 d2 L) in P2. lra.
Qed.

(** Pigeonhole: a shortest walk visits nodes at hop distances 0, 1, ..., d, all distinct. *)
Lemma hop_chain p s : gwf p -> s < length p ->
  forall d t, hop p (src p s) t d ->
  exists f : nat -> nat, forall j, j <= d -> hop p (src p s) (f j) j /\ f j < length p.
Proof.
  intros Hwf Hs. induction d as [|d IH]; intros t Hh.
  - exists (fun _ => t). intros j Hj. assert (j = 0) by lia. subst j. split; [exact Hh|].
    destruct Hh as [Hr _]. exact (reachk_lt p s 0 t Hwf Hs Hr).
  - destruct Hh as [Hr Hm]. assert (Ht := reachk_lt p s (S d) t Hwf Hs Hr).
    cbn [reachk] in Hr. destruct Hr as (u & Hru & Hin).
    assert (Hu : hop p (src p s) u d).
    { split; [exact Hru|]. intros j Hj Hrj. apply (Hm (S j)); [lia|]. cbn [reachk]. exists u. split; assumption. }
    destruct (IH u Hu) as (f & Hf).
    exists (fun j => if Nat.eqb j (S d) then t else f j). intros j Hj.
    destruct (Nat.eqb j (S d)) eqn:E.
    + apply Nat.eqb_eq in E. subst j. split; [|exact Ht]. split; [cbn [reachk]; exists u; split; assumption|exact Hm].
    + apply Nat.eqb_neq in E. apply Hf. lia.
Qed.

Lemma NoDup_map_inj_in {A B} (f : A -> B) (l : list A) :
  (forall x y, In x l -> In y l -> f x = f y -> x = y) -> NoDup l -> NoDup (map f l).
Proof.
  induction l as [|a l IH]; intros Hinj Hnd; cbn [map]; [constructor|].
  inversion Hnd as [|? ? Hna Hnd']; subst. constructor.
  - intros Hin. apply in_map_iff in Hin. destruct Hin as (y & E & Hy).
    assert (y = a) by (apply Hinj; [right; exact Hy|left; reflexivity|exact E]). subst y. contradiction.
  - apply IH; [|exact Hnd']. intros x y Hx Hy. apply Hinj; right; assumption.
Qed.

Lemma hop_lt_n p s d t : gwf p -> s < length p -> hop p (src p s) t d -> d < length p.
Proof.
  intros Hwf Hs Hh. destruct (hop_chain p s Hwf Hs d t Hh) as (f & Hf).
  assert (Hnd : NoDup (map f (seq 0 (S d)))).
  { apply NoDup_map_inj_in; [|apply seq_NoDup].
    intros x y Hx Hy E. apply in_seq in Hx. apply in_seq in Hy.
    destruct (Hf x) as [Hhx _]; [lia|]. destruct (Hf y) as [Hhy _]; [lia|]. rewrite E in Hhx.
    exact (hop_unique _ _ _ _ _ Hhx Hhy). }
  assert (Hincl : incl (map f (seq 0 (S d))) (seq 0 (length p))).
  { intros x Hx. apply in_map_iff in Hx. destruct Hx as (j & <- & Hj). apply in_seq in Hj.
    apply in_seq. destruct (Hf j) as [_ L]; lia. }
  assert (H := NoDup_incl_length Hnd Hincl). rewrite map_length, !seq_length in H. lia.
Qed.

Lemma sdist_lt_n p s t d : gwf p -> s < length p -> t < length p -> sdist p s t d -> d < length p.
Proof. intros Hwf Hs Ht H. apply (hop_lt_n p s d t Hwf Hs). apply sdist_hop; assumption. Qed.

(* ------------------------------------------------------------------------------------------ *)
(** * Part A2. The brute-force [sp_info] and [pair_dependency] in terms of [nw] / [sdist] *)

Lemma filter_seq_nil (f : nat -> bool) a n : filter f (seq a n) = [] -> forall k, a <= k < a + n -> f k = false.
Proof.
  revert a. induction n as [|n IH]; intros a H k Hk; [lia|].
  cbn [seq filter] in H. destruct (f a) eqn:E; [discriminate|].
  destruct (Nat.eq_dec k a) as [->|Ne]; [exact E|]. apply (IH (S a) H). lia.
Qed.

Lemma filter_seq_cons (f : nat -> bool) a n k r : filter f (seq a n) = k :: r ->
  a <= k < a + n /\ f k = true /\ forall j, a <= j < k -> f j = false.
Proof.
  revert a. induction n as [|n IH]; intros a H; [discriminate|].
  cbn [seq filter] in H. destruct (f a) eqn:E.
  - injection H as <- _. split; [lia|]. split; [exact E|]. intros j Hj. lia.
  - destruct (IH (S a) H) as (H1 & H2 & H3). split; [lia|]. split; [exact H2|].
    intros j Hj. destruct (Nat.eq_dec j a) as [->|Ne]; [exact E|]. apply H3. lia.
Qed.

Definition nzb (p : graph) (s t k : nat) : bool := negb (Qeq_bool (V (nwalks p k s) t) 0).

Lemma nzb_true p s t k : t < length p -> (nzb p s t k = true <-> (0 < nw p k s t)%Q).
Proof.
  intros Ht. unfold nzb. rewrite negb_true_iff. assert (H0 := nw_nonneg p k s t). split.
  - intros H. apply Qeq_bool_neq in H. rewrite (nwalks_nw p k s t Ht) in H.
    destruct (nw_zero_or_pos p k s t) as [Z|Pz]; [contradiction|exact Pz].
  - intros H. destruct (Qeq_bool (V (nwalks p k s) t) 0) eqn:E; [|reflexivity].
    apply Qeq_bool_iff in E. rewrite (nwalks_nw p k s t Ht) in E. lra.
Qed.

Lemma nzb_false p s t k : t < length p -> (nzb p s t k = false <-> (nw p k s t == 0)%Q).
Proof.
  intros Ht. assert (H := nzb_true p s t k Ht). destruct (nzb p s t k).
  - split; [discriminate|]. intros Z. assert (P : (0 < nw p k s t)%Q) by (apply H; reflexivity). lra.
  - split; [|reflexivity]. intros _. destruct (nw_zero_or_pos p k s t) as [Z|Pz]; [exact Z|].
    apply H in Pz. discriminate.
Qed.

Lemma sp_info_unfold p s t :
  sp_info p s t = match filter (nzb p s t) (seq 0 (length p)) with
                  | [] => None
                  | k :: _ => Some (k, V (nwalks p k s) t)
                  end.
Proof. reflexivity. Qed.

Lemma sp_info_inv p s t d x : t < length p -> sp_info p s t = Some (d, x) ->
  sdist p s t d /\ x = V (nwalks p d s) t /\ d < length p.
Proof.
  intros Ht. rewrite sp_info_unfold. destruct (filter (nzb p s t) (seq 0 (length p))) as [|k r] eqn:E; [discriminate|].
  intros H. injection H as <- <-. destruct (filter_seq_cons _ _ _ _ _ E) as (H1 & H2 & H3).
  split; [|split; [reflexivity|lia]]. split.
  - apply nzb_true; assumption.
  - intros j Hj. apply (nzb_false p s t j Ht). apply H3. lia.
Qed.

Lemma sp_info_none_inv p s t : t < length p -> sp_info p s t = None ->
  forall k, k < length p -> (nw p k s t == 0)%Q.
Proof.
  intros Ht. rewrite sp_info_unfold. destruct (filter (nzb p s t) (seq 0 (length p))) as [|k r] eqn:E; [|discriminate].
  intros _ k Hk. apply (nzb_false p s t k Ht). apply (filter_seq_nil _ _ _ E). lia.
Qed.

Lemma sp_info_some p s t d : gwf p -> s < length p -> t < length p -> sdist p s t d ->
  sp_info p s t = Some (d, V (nwalks p d s) t).
Proof.
  intros Hwf Hs Ht Hd. assert (Hdn := sdist_lt_n p s t d Hwf Hs Ht Hd).
  destruct (sp_info p s t) as [[k x]|] eqn:E.
  - destruct (sp_info_inv p s t k x Ht E) as (Hk & -> & _).
    rewrite (sdist_unique _ _ _ _ _ Hk Hd). reflexivity.
  - exfalso. assert (Z := sp_info_none_inv p s t Ht E d Hdn). destruct Hd as [Pd _]. lra.
Qed.

Lemma sp_info_none p s t : t < length p -> (forall k, (nw p k s t == 0)%Q) -> sp_info p s t = None.
Proof.
  intros Ht Hz. destruct (sp_info p s t) as [[k x]|] eqn:E; [|reflexivity].
  exfalso. destruct (sp_info_inv p s t k x Ht E) as ([Pk _] & _ & _). rewrite (Hz k) in Pk. lra.
Qed.

(** The pair dependency of v on (s, t), in terms of distances from s. *)
Lemma pair_dep_on p s t v dt dv : gwf p -> s < length p -> t < length p -> v < length p ->
  sdist p s t dt -> sdist p s v dv -> dv <= dt ->
  (pair_dependency p s t v == nw p dv s v * nw p (dt - dv) v t / nw p dt s t)%Q.
Proof.
  intros Hwf Hs Ht Hv Hdt Hdv Hle. unfold pair_dependency.
  rewrite (sp_info_some p s t dt Hwf Hs Ht Hdt), (sp_info_some p s v dv Hwf Hs Hv Hdv).
  assert (Hdtn := sdist_lt_n p s t dt Hwf Hs Ht Hdt).
  destruct (sp_info p v t) as [[d2 z]|] eqn:E.
  - destruct (sp_info_inv p v t d2 z Ht E) as (Hd2 & -> & _).
    destruct (Nat.eqb (dv + d2) dt) eqn:E2.
    + apply Nat.eqb_eq in E2. replace (dt - dv) with d2 by lia.
      rewrite !nwalks_nw by assumption. reflexivity.
    + apply Nat.eqb_neq in E2.
      assert (Z : (nw p (dt - dv) v t == 0)%Q).
      { destruct (nw_zero_or_pos p (dt - dv) v t) as [Z|Pz]; [exact Z|]. exfalso.
        destruct Hd2 as [P2 Z2]. destruct (Nat.lt_ge_cases (dt - dv) d2) as [L|L].
        - rewrite (Z2 _ L) in Pz. lra.
        - destruct Hdv as [Pv _]. destruct Hdt as [_ Zt].
          assert (Pc := nw_pos_compose p dv d2 s v t Hv Ht Pv P2).
          rewrite (Zt (dv + d2)) in Pc by lia. lra. }
      rewrite Z. unfold Qdiv. ring.
  - assert (Z := sp_info_none_inv p v t Ht E (dt - dv)). rewrite Z by lia. unfold Qdiv. ring.
Qed.

Lemma pair_dep_off p s t v dt dv : gwf p -> s < length p -> t < length p -> v < length p ->
  sdist p s t dt -> sdist p s v dv -> dt < dv -> (pair_dependency p s t v == 0)%Q.
Proof.
  intros Hwf Hs Ht Hv Hdt Hdv Hlt. unfold pair_dependency.
  rewrite (sp_info_some p s t dt Hwf Hs Ht Hdt), (sp_info_some p s v dv Hwf Hs Hv Hdv).
  destruct (sp_info p v t) as [[d2 z]|]; [|reflexivity].
  destruct (Nat.eqb (dv + d2) dt) eqn:E2; [apply Nat.eqb_eq in E2; lia|reflexivity].
Qed.

Lemma pair_dep_unreach_t p s t v : t < length p -> (forall k, (nw p k s t == 0)%Q) -> (pair_dependency p s t v == 0)%Q.
Proof. intros Ht Hz. unfold pair_dependency. rewrite (sp_info_none p s t Ht Hz). reflexivity. Qed.

Lemma pair_dep_unreach_v p s t v : v < length p -> (forall k, (nw p k s v == 0)%Q) -> (pair_dependency p s t v == 0)%Q.
Proof.
  intros Hv Hz. unfold pair_dependency. rewrite (sp_info_none p s v Hv Hz).
  destruct (sp_info p s t) as [[d x]|]; reflexivity.
Qed.

(* ------------------------------------------------------------------------------------------ *)
(** * Part A3. Brandes' dependency recurrence for the textbook pair dependencies *)

Section Recurrence.
  Context (p : graph) (s : nat) (Hwf : gwf p) (Hs : s < length p).
  Context (dfun : nat -> option nat).
  Context (Hsome : forall v d, v < length p -> dfun v = Some d -> sdist p s v d).
  Context (Hnone : forall v, v < length p -> dfun v = None -> forall k, (nw p k s v == 0)%Q).

  Definition sgf (v : nat) : Q := match dfun v with Some d => nw p d s v | None => 0%Q end.
  Definition isd (w d : nat) : bool := match dfun w with Some d' => Nat.eqb d' d | None => false end.
  (** dependency of s on v: sum over targets t <> v of sigma_st(v) / sigma_st *)
  Definition DD (v : nat) : Q := bsum (length p) (fun t => if Nat.eqb t v then 0%Q else pair_dependency p s t v).

  Lemma sgf_pos v d : v < length p -> dfun v = Some d -> (0 < sgf v)%Q.
  Proof. intros Hv E. unfold sgf. rewrite E. destruct (Hsome v d Hv E) as [Pz _]. exact Pz. Qed.

  Lemma isd_true w d : isd w d = true <-> dfun w = Some d.
  Proof.
    unfold isd. destruct (dfun w) as [d'|]; [|split; discriminate].
    rewrite Nat.eqb_eq. split; [intros ->; reflexivity|intros H; injection H as ->; reflexivity].
  Qed.

  (** an out-neighbour w of a reachable v is reachable, at distance <= d(v) + 1 *)
  Lemma edge_dist v w dv : v < length p -> dfun v = Some dv -> In w (row p v) ->
    exists dw, dfun w = Some dw /\ dw <= S dv.
  Proof.
    intros Hv Ev Hin. assert (Hw := Hwf _ _ Hin).
    destruct (Hsome v dv Hv Ev) as [Pv _].
    assert (P1 : (0 < nw p 1 v w)%Q).
    { rewrite (nw_1 p v w Hv). destruct (A01_cases p v w) as [[E _]|[_ Hn]]; [rewrite E; lra|contradiction]. }
    assert (Pc := nw_pos_compose p dv 1 s v w Hv Hw Pv P1).
    destruct (dfun w) as [dw|] eqn:Ew.
    - exists dw. split; [reflexivity|]. destruct (Hsome w dw Hw Ew) as [_ Zw].
      destruct (Nat.le_gt_cases dw (S dv)) as [L|L]; [exact L|]. rewrite (Zw (dv + 1)) in Pc by lia. lra.
    - rewrite (Hnone w Hw Ew (dv + 1)) in Pc. lra.
  Qed.

  Lemma dep_term v t dv : v < length p -> t < length p -> dfun v = Some dv ->
    ((if Nat.eqb t v then 0 else pair_dependency p s t v) ==
     bsum (length p) (fun w =>
       if memn w (row p v) && isd w (S dv)
       then sgf v / sgf w * ((if Nat.eqb t w then 1 else 0) + (if Nat.eqb t w then 0 else pair_dependency p s t w))
       else 0))%Q.
  Proof.
    intros Hv Ht Ev. assert (Sv := Hsome v dv Hv Ev).
    destruct (dfun t) as [dt|] eqn:Et.
    2:{ (* t unreachable *)
      rewrite bsum_0; [destruct (Nat.eqb t v); [reflexivity|apply (pair_dep_unreach_t p s t v Ht (Hnone t Ht Et))]|].
      intros w Hw. destruct (memn w (row p v) && isd w (S dv)) eqn:C; [|reflexivity].
      apply andb_true_iff in C. destruct C as [_ C]. apply isd_true in C.
      destruct (Nat.eqb t w) eqn:E; [apply Nat.eqb_eq in E; subst w; congruence|].
      rewrite (pair_dep_unreach_t p s t w Ht (Hnone t Ht Et)). unfold Qdiv. ring. }
    assert (St := Hsome t dt Ht Et).
    destruct (Nat.le_gt_cases dt dv) as [Hle|Hgt].
    - (* d(t) <= d(v): both sides vanish *)
      assert (L0 : ((if Nat.eqb t v then 0 else pair_dependency p s t v) == 0)%Q).
      { destruct (Nat.eqb t v) eqn:E; [reflexivity|]. apply Nat.eqb_neq in E.
        destruct (Nat.eq_dec dt dv) as [->|Ne].
        - rewrite (pair_dep_on p s t v dv dv Hwf Hs Ht Hv St Sv (Nat.le_refl _)).
          rewrite Nat.sub_diag. cbn [nw]. destruct (Nat.eqb v t) eqn:E2; [apply Nat.eqb_eq in E2; congruence|].
          unfold Qdiv. ring.
        - apply (pair_dep_off p s t v dt dv Hwf Hs Ht Hv St Sv). lia. }
      rewrite L0. symmetry. apply bsum_0. intros w Hw.
      destruct (memn w (row p v) && isd w (S dv)) eqn:C; [|reflexivity].
      apply andb_true_iff in C. destruct C as [_ C]. apply isd_true in C.
      destruct (Nat.eqb t w) eqn:E; [apply Nat.eqb_eq in E; subst w; rewrite Et in C; injection C as C; lia|].
      rewrite (pair_dep_off p s t w dt (S dv) Hwf Hs Ht Hw St (Hsome w _ Hw C)) by lia. unfold Qdiv. ring.
    - (* d(t) > d(v) *)
      assert (Ntv : Nat.eqb t v = false).
      { apply Nat.eqb_neq. intros ->. rewrite Ev in Et. injection Et as Et. lia. }
      rewrite Ntv. rewrite (pair_dep_on p s t v dt dv Hwf Hs Ht Hv St Sv) by lia.
      assert (Pt : (0 < nw p dt s t)%Q) by (destruct St as [Pz _]; exact Pz).
      assert (Pv : (0 < nw p dv s v)%Q) by (destruct Sv as [Pz _]; exact Pz).
      destruct (dt - dv) as [|m] eqn:Em; [lia|].
      rewrite (nw_first p m v t Hv Ht).
      transitivity (bsum (length p) (fun w => nw p dv s v / nw p dt s t * (A01 p v w * nw p m w t)))%Q.
      { rewrite bsum_scale. field. lra. }
      apply bsum_ext. intros w Hw. unfold A01.
      destruct (memn w (row p v)) eqn:Em1; [|cbn [andb]; ring].
      cbn [andb]. assert (Hin : In w (row p v)) by (apply memn_In; exact Em1).
      destruct (edge_dist v w dv Hv Ev Hin) as (dw & Ew & Hdw). assert (Sw := Hsome w dw Hw Ew).
      assert (Pw : (0 < nw p dw s w)%Q) by (destruct Sw as [Pz _]; exact Pz).
      destruct (isd w (S dv)) eqn:C.
      + apply isd_true in C. rewrite Ew in C. injection C as C. subst dw.
        unfold sgf. rewrite Ev, Ew.
        destruct (Nat.eqb t w) eqn:E.
        * apply Nat.eqb_eq in E. subst w. rewrite Et in Ew. injection Ew as Ew.
          assert (m = 0) by lia. subst m. cbn [nw]. rewrite Nat.eqb_refl. subst dt. field. lra.
        * rewrite (pair_dep_on p s t w dt (S dv) Hwf Hs Ht Hw St Sw) by lia.
          replace (dt - S dv) with m by lia. field. split; lra.
      + assert (Hlt : dw <= dv).
        { destruct (Nat.eq_dec dw (S dv)) as [->|Ne]; [|lia].
          assert (C2 : isd w (S dv) = true) by (apply isd_true; exact Ew). congruence. }
        assert (Z : (nw p m w t == 0)%Q).
        { destruct (nw_zero_or_pos p m w t) as [Z|Pz]; [exact Z|]. exfalso.
          assert (Pc := nw_pos_compose p dw m s w t Hw Ht Pw Pz).
          destruct St as [_ Zt]. rewrite (Zt (dw + m)) in Pc by lia. lra. }
        rewrite Z. ring.
  Qed.

  Lemma DD_recurrence v dv : v < length p -> dfun v = Some dv ->
    (DD v == bsum (length p) (fun w =>
               if memn w (row p v) && isd w (S dv) then sgf v / sgf w * (1 + DD w) else 0))%Q.
  Proof.
    intros Hv Ev. unfold DD at 1.
    transitivity (bsum (length p) (fun t => bsum (length p) (fun w =>
       if memn w (row p v) && isd w (S dv)
       then sgf v / sgf w * ((if Nat.eqb t w then 1 else 0) + (if Nat.eqb t w then 0 else pair_dependency p s t w))
       else 0)))%Q.
    { apply bsum_ext. intros t Ht. apply (dep_term v t dv Hv Ht Ev). }
    rewrite bsum_swap. apply bsum_ext. intros w Hw.
    destruct (memn w (row p v) && isd w (S dv)).
    - rewrite bsum_scale. rewrite bsum_plus. rewrite (bsum_delta (length p) w 1 Hw). reflexivity.
    - apply bsum_0. intros; reflexivity.
  Qed.

  Lemma DD_unreach v : v < length p -> dfun v = None -> (DD v == 0)%Q.
  Proof.
    intros Hv Ev. unfold DD. apply bsum_0. intros t Ht. destruct (Nat.eqb t v); [reflexivity|].
    apply (pair_dep_unreach_v p s t v Hv (Hnone v Hv Ev)).
  Qed.

  (** Any family of numbers satisfying the recurrence on the reachable nodes is the dependency. *)
  Lemma recurrence_unique (dl : nat -> Q) :
    (forall v dv, v < length p -> dfun v = Some dv ->
       (dl v == bsum (length p) (fun w =>
                  if memn w (row p v) && isd w (S dv) then sgf v / sgf w * (1 + dl w) else 0))%Q) ->
    forall v dv, v < length p -> dfun v = Some dv -> (dl v == DD v)%Q.
  Proof.
    intros Hrec.
    assert (Hind : forall k v dv, v < length p -> dfun v = Some dv -> length p <= dv + k -> (dl v == DD v)%Q).
    { induction k as [|k IH]; intros v dv Hv Ev Hk.
      - assert (L := sdist_lt_n p s v dv Hwf Hs Hv (Hsome v dv Hv Ev)). lia.
      - rewrite (Hrec v dv Hv Ev), (DD_recurrence v dv Hv Ev). apply bsum_ext. intros w Hw.
        destruct (memn w (row p v) && isd w (S dv)) eqn:C; [|reflexivity].
        apply andb_true_iff in C. destruct C as [_ C]. apply isd_true in C.
        rewrite (IH w (S dv) Hw C) by lia. reflexivity. }
    intros v dv Hv Ev. apply (Hind (length p) v dv Hv Ev). lia.
  Qed.
End Recurrence.

(** get_labels of sknetwork/hierarchy/postprocess.py at source level: the statements regenerated on every run (Gen/PyCuts.v:
    src_get_labels_head, src_reduce_init_stmt, src_reduce_loop) compute, for every dendrogram, cluster dict, option value and
    every answer of np.argsort, exactly the labels / reduced dendrogram / error of Model/Cuts.v:get_labels. *)
From SKN Require Import Base.Util Model.Dendrogram Model.Cuts Model.PyImp Gen.PyCuts Proofs.PyCutsProofs.
From Coq Require Import String Qround.
Local Open Scope nat_scope.
Local Open Scope string_scope.

(** * get_labels: clusters in dict order, sorting through np.argsort, the labels array *)

(** ** a[idx] = v *)
Fixpoint set1 (L : list nat) (a l : nat) : list nat :=
  match L, a with
  | [], _ => []
  | _ :: t, O => l :: t
  | h :: t, S a' => h :: set1 t a' l
  end.

Lemma set1_length L : forall a l, Datatypes.length (set1 L a l) = Datatypes.length L.
Proof. induction L as [|h t IH]; intros [|a] l; simpl; auto. Qed.

Lemma nth_set1 L : forall a l v, a < Datatypes.length L -> nth v (set1 L a l) 0 = if Nat.eqb v a then l else nth v L 0.
Proof.
  induction L as [|h t IH]; intros [|a] l [|v] Ha; simpl in *; try lia; auto.
  rewrite IH by lia. reflexivity.
Qed.

Lemma list_set_nat_vnat L : forall a l, a < Datatypes.length L ->
  list_set_nat (map vnat L) a (vnat l) = Some (map vnat (set1 L a l)).
Proof.
  induction L as [|h t IH]; intros [|a] l Ha; simpl in *; try lia; auto.
  rewrite IH by lia. reflexivity.
Qed.

Lemma list_set_vnat L a l : a < Datatypes.length L ->
  list_set (map vnat L) (Z.of_nat a) (vnat l) = POk (map vnat (set1 L a l)).
Proof.
  intros Ha. unfold list_set.
  assert (Hlt : (Z.of_nat a <? 0)%Z = false) by (apply Z.ltb_ge; lia).
  rewrite Hlt, Hlt, Nat2Z.id, list_set_nat_vnat by exact Ha. reflexivity.
Qed.

Definition upd_list (L : list nat) (c : list nat) (l : nat) : list nat :=
  map (fun v => if memn v c then l else nth v L 0) (seq 0 (Datatypes.length L)).

Lemma map_nth_seq (L : list nat) : map (fun v => nth v L 0) (seq 0 (Datatypes.length L)) = L.
Proof.
  induction L as [|h t IH]; [reflexivity|]. cbn [Datatypes.length seq map nth]. f_equal.
  rewrite <- seq_shift, map_map. exact IH.
Qed.

Lemma upd_list_nil L l : upd_list L [] l = L.
Proof. unfold upd_list. cbn [memn existsb]. apply map_nth_seq. Qed.

Lemma fancy_set_vnat : forall c L l, Forall (fun v => v < Datatypes.length L) c ->
  fancy_set (map vnat L) (map vnat c) (vnat l) = POk (map vnat (upd_list L c l)).
Proof.
  induction c as [|a t IH]; intros L l Hc.
  - simpl. rewrite upd_list_nil. reflexivity.
  - inversion Hc as [|? ? Ha Ht]; subst. cbn [map fancy_set vnat].
    change (VInt (Z.of_nat l)) with (vnat l). rewrite list_set_vnat by exact Ha.
    rewrite IH by (rewrite set1_length; exact Ht). f_equal. f_equal.
    unfold upd_list. rewrite set1_length. apply map_ext_in. intros v Hv. apply in_seq in Hv.
    cbn [memn existsb]. fold (memn v t).
    destruct (memn v t); [rewrite orb_true_r; reflexivity|]. rewrite orb_false_r.
    rewrite nth_set1 by exact Ha. reflexivity.
Qed.

Lemma upd_list_length L c l : Datatypes.length (upd_list L c l) = Datatypes.length L.
Proof. unfold upd_list. rewrite map_length, seq_length. reflexivity. Qed.

Lemma nth_upd_list L c l v : v < Datatypes.length L -> nth v (upd_list L c l) 0 = if memn v c then l else nth v L 0.
Proof.
  intros Hv. unfold upd_list.
  rewrite (nth_indep _ 0 ((fun v => if memn v c then l else nth v L 0) 0)) by (rewrite map_length, seq_length; exact Hv).
  rewrite (map_nth (fun v => if memn v c then l else nth v L 0)), seq_nth by exact Hv. reflexivity.
Qed.

Definition lab_f : Z -> val -> env -> pres env :=
  fun pos item e' => exec (loop_body src_get_labels_head) (upd "nodes" item (upd "label" (VInt pos) e')).

Lemma labels_loop : forall cs l0 L (e : env),
  e "labels" = Some (VList (map vnat L)) -> Forall (Forall (fun v => v < Datatypes.length L)) cs ->
  exists e', for_enum lab_f (map embL cs) (Z.of_nat l0) e = POk e' /\
             e' "labels" = Some (VList (map vnat (map (fun v => label_of cs l0 v (nth v L 0)) (seq 0 (Datatypes.length L))))) /\
             (forall x, x <> "labels" -> x <> "nodes" -> x <> "label" -> e' x = e x).
Proof.
  induction cs as [|c cs IH]; intros l0 L e HL Hcs.
  - exists e. split; [reflexivity|]. split; [|reflexivity]. cbn [label_of]. rewrite map_nth_seq. exact HL.
  - inversion Hcs as [|? ? Hc Hrest]; subst. cbn [map for_enum].
    assert (Hstep : lab_f (Z.of_nat l0) (embL c) e =
                    POk (upd "labels" (VList (map vnat (upd_list L c l0)))
                           (upd "nodes" (embL c) (upd "label" (VInt (Z.of_nat l0)) e)))).
    { unfold lab_f.
      let b := eval vm_compute in (loop_body src_get_labels_head) in change (loop_body src_get_labels_head) with b.
      evx. change (VInt (Z.of_nat l0)) with (vnat l0). rewrite fancy_set_vnat by exact Hc. reflexivity. }
    rewrite Hstep. replace (Z.of_nat l0 + 1)%Z with (Z.of_nat (S l0)) by lia.
    match goal with |- context [for_enum lab_f _ _ ?e2] =>
      destruct (IH (S l0) (upd_list L c l0) e2) as (e' & F & HL' & Fr) end.
    + reflexivity.
    + rewrite upd_list_length. exact Hrest.
    + exists e'. split; [exact F|]. split.
      * rewrite HL'. rewrite upd_list_length. do 3 f_equal. symmetry. apply map_ext_in. intros v Hv. apply in_seq in Hv.
        cbn [label_of]. rewrite nth_upd_list by lia. reflexivity.
      * intros x H1 H2 H3. rewrite Fr by assumption. unfold upd.
        destruct (String.eqb_spec "labels" x); [congruence|].
        destruct (String.eqb_spec "nodes" x); [congruence|].
        destruct (String.eqb_spec "label" x); [congruence|]. reflexivity.
Qed.

(** ** the comprehensions *)
Lemma map_pres_len x (e : env) cs :
  map_pres (fun item => match eval (ELen (EVar x)) (upd x item e) with PErr err => PErr err | POk (_, v) => POk v end)
           (map embL cs) = POk (map (fun c => vnat (Datatypes.length c)) cs).
Proof.
  induction cs as [|c cs IH]; [reflexivity|]. cbn [map map_pres]. rewrite IH.
  cbn [eval]. unfold upd at 1. rewrite String.eqb_refl. cbn [embL]. rewrite map_length. reflexivity.
Qed.

Lemma map_pres_index x y (e : env) cs idx :
  e y = Some (VList (map embL cs)) -> x <> y -> Forall (fun i => i < Datatypes.length cs) idx ->
  map_pres (fun item => match eval (EIndex (EVar y) (EVar x)) (upd x item e) with PErr err => PErr err | POk (_, v) => POk v end)
           (map vnat idx) = POk (map embL (map (fun i => nth i cs []) idx)).
Proof.
  intros Hy Hxy Hidx. induction idx as [|i idx IH]; [reflexivity|].
  inversion Hidx as [|? ? Hi Hrest]; subst. cbn [map map_pres]. rewrite (IH Hrest).
  cbn [eval]. unfold upd.
  destruct (String.eqb_spec x y) as [E|_]; [congruence|]. rewrite Hy. rewrite String.eqb_refl.
  cbn [index_vals vnat]. erewrite list_index_nat; [reflexivity|].
  rewrite nth_error_map. rewrite (nth_error_nth' cs [] Hi). reflexivity.
Qed.

Lemma neg_val_vnats l : exists r, neg_val (VList (map (fun c : list nat => vnat (Datatypes.length c)) l)) = POk (VList r).
Proof.
  induction l as [|c l [r IH]]; [exists []; reflexivity|].
  cbn [map neg_val vnat] in *. rewrite IH. eexists. reflexivity.
Qed.

Lemma eval_listcomp x body it (e e1 : env) items :
  eval it e = POk (e1, VList items) ->
  eval (EListComp x body it) e =
  match map_pres (fun item => match eval body (upd x item e1) with PErr err => PErr err | POk (_, v) => POk v end) items with
  | POk vs => POk (e1, VList vs)
  | PErr err => PErr err
  end.
Proof. intros H. cbn [eval]. rewrite H. reflexivity. Qed.

Lemma exec_assign x ex (e e1 : env) v : eval ex e = POk (e1, v) -> exec (SAssign x ex) e = POk (upd x v e1).
Proof. intros H. cbn [exec]. rewrite H. reflexivity. Qed.

Lemma exec_if c a b (e e1 : env) bv : eval c e = POk (e1, VBool bv) -> exec (SIf c a b) e = exec (if bv then a else b) e1.
Proof. intros H. cbn [exec]. rewrite H. destruct bv; reflexivity. Qed.

Lemma eval_var x (e : env) v : e x = Some v -> eval (EVar x) e = POk (e, v).
Proof. intros H. cbn [eval]. rewrite H. reflexivity. Qed.

Definition model_clusters (argsort : list Z -> list nat) (st : cstate) (sort : bool) : list (list nat) :=
  let clusters0 := map snd st in
  if sort then map (fun i => nth i clusters0 []) (argsort (map (fun c => (- Z.of_nat (Datatypes.length c))%Z) clusters0))
  else clusters0.

Lemma dict_values_embC st : map snd (embA embL st) = map embL (map snd st).
Proof. unfold embA. rewrite !map_map. reflexivity. Qed.

Theorem src_get_labels_head_is_model argsort D st sort (e0 : env) :
  let n := S (Datatypes.length D) in
  let answer := argsort (map (fun c => (- Z.of_nat (Datatypes.length c))%Z) (map snd st)) in
  let cl := model_clusters argsort st sort in
  e0 "dendrogram" = Some (embD D) -> e0 "cluster" = Some (embC st) -> e0 "sort_clusters" = Some (VBool sort) ->
  e0 "oracle:np.argsort" = Some (VList (map vnat answer)) ->
  Forall (fun i => i < Datatypes.length st) answer ->
  Forall (Forall (fun v => v < n)) (map snd st) ->
  exists e', exec src_get_labels_head e0 = POk e' /\
             e' "labels" = Some (VList (map vnat (labels_of n cl))) /\
             e' "clusters" = Some (VList (map embL cl)) /\
             e' "dendrogram" = Some (embD D).
Proof.
  intros n answer cl Hd Hc Hs Ho Hans Hnodes. unfold src_get_labels_head.
  erewrite exec_seq_ok.
  2:{ evx. unfold embD at 1. evx. change 1%Z with (Z.of_nat 1). evx. rewrite len_succ. reflexivity. }
  fold n.
  erewrite exec_seq_ok.
  2:{ evx. rewrite dict_values_embC. reflexivity. }
  set (e2 := upd "clusters" (VList (map embL (map snd st))) (upd "n" (VInt (Z.of_nat n)) e0)).
  assert (Hcl : exists e3, exec (SIf (EVar "sort_clusters")
     (SSeq (SAssign "sizes" (EListComp "nodes" (ELen (EVar "nodes")) (EVar "clusters")))
     (SSeq (SAssign "index" (EOracle "np.argsort" (ENeg (EVar "sizes"))))
           (SAssign "clusters" (EListComp "i" (EIndex (EVar "clusters") (EVar "i")) (EVar "index")))))
     SSkip) e2 = POk e3 /\ e3 "clusters" = Some (VList (map embL cl)) /\ e3 "n" = Some (vnat n) /\
     e3 "dendrogram" = Some (embD D)).
  { destruct sort.
    - assert (Hcl2 : e2 "clusters" = Some (VList (map embL (map snd st)))) by (unfold e2; simok).
      assert (Hs2 : e2 "sort_clusters" = Some (VBool true)) by (unfold e2; simok).
      assert (Ho2 : e2 "oracle:np.argsort" = Some (VList (map vnat answer))) by (unfold e2; simok).
      assert (Hn2 : e2 "n" = Some (vnat n)) by (unfold e2; simok).
      assert (Hd2 : e2 "dendrogram" = Some (embD D)) by (unfold e2; simok).
      clearbody e2.
      destruct (neg_val_vnats (map snd st)) as [r Hr].
      eexists. split.
      + assert (S1 : exec (SAssign "sizes" (EListComp "nodes" (ELen (EVar "nodes")) (EVar "clusters"))) e2 =
                     POk (upd "sizes" (VList (map (fun c => vnat (Datatypes.length c)) (map snd st))) e2)).
        { apply exec_assign. rewrite (eval_listcomp _ _ _ _ _ _ (eval_var _ _ _ Hcl2)). rewrite map_pres_len. reflexivity. }
        set (e3 := upd "sizes" (VList (map (fun c => vnat (Datatypes.length c)) (map snd st))) e2) in *.
        assert (S2 : exec (SAssign "index" (EOracle "np.argsort" (ENeg (EVar "sizes")))) e3 =
                     POk (upd "index" (VList (map vnat answer)) e3)).
        { apply exec_assign. cbn [eval]. unfold e3 at 1. cbn [upd String.eqb Ascii.eqb Bool.eqb]. rewrite Hr.
          cbn [String.append]. unfold e3 at 1. cbn [upd String.eqb Ascii.eqb Bool.eqb]. rewrite Ho2. reflexivity. }
        set (e4 := upd "index" (VList (map vnat answer)) e3) in *.
        assert (Hcl4 : e4 "clusters" = Some (VList (map embL (map snd st)))) by (unfold e4, e3; simok).
        assert (S3 : exec (SAssign "clusters" (EListComp "i" (EIndex (EVar "clusters") (EVar "i")) (EVar "index"))) e4 =
                     POk (upd "clusters" (VList (map embL (map (fun i => nth i (map snd st) []) answer))) e4)).
        { apply exec_assign.
          assert (Hi4 : e4 "index" = Some (VList (map vnat answer))) by (unfold e4; simok).
          rewrite (eval_listcomp _ _ _ _ _ _ (eval_var _ _ _ Hi4)).
          rewrite (map_pres_index "i" "clusters" e4 (map snd st) answer Hcl4).
          - reflexivity.
          - discriminate.
          - rewrite map_length. exact Hans. }
        rewrite (exec_if _ _ _ _ _ _ (eval_var _ _ _ Hs2)).
        rewrite (exec_seq_ok _ _ _ _ S1), (exec_seq_ok _ _ _ _ S2). exact S3.
      + unfold cl, model_clusters. fold answer. simok.
    - exists e2. split.
      + cbn [exec eval]. unfold e2 at 1. cbn [upd String.eqb Ascii.eqb Bool.eqb]. rewrite Hs. reflexivity.
      + unfold cl, model_clusters, e2. simok. }
  destruct Hcl as (e3 & F3 & Hcl3 & Hn3 & Hd3).
  erewrite exec_seq_ok by exact F3.
  erewrite exec_seq_ok.
  2:{ evx. rewrite Nat2Z.id. reflexivity. }
  cbn [exec eval upd String.eqb Ascii.eqb Bool.eqb]. rewrite Hcl3.
  assert (Hrep : repeat (VInt 0) n = map vnat (repeat 0 n)) by (clear; induction n as [|k IHk]; [reflexivity | cbn [repeat map]; rewrite IHk; reflexivity]).
  rewrite Hrep.
  match goal with |- context [for_enum ?f _ _ ?e4] =>
    destruct (labels_loop cl 0 (repeat 0 n) e4) as (e' & F & HL & Fr) end.
  - simok.
  - rewrite repeat_length. unfold cl, model_clusters.
    destruct sort; [|exact Hnodes].
    apply Forall_forall. intros c Hin. apply in_map_iff in Hin. destruct Hin as [i [<- _]].
    destruct (Nat.lt_ge_cases i (Datatypes.length (map snd st))) as [Hi|Hi].
    + rewrite Forall_forall in Hnodes. apply Hnodes. apply nth_In. exact Hi.
    + rewrite nth_overflow by exact Hi. constructor.
  - exists e'. split; [exact F|]. split.
    + rewrite HL. rewrite repeat_length. unfold labels_of. do 3 f_equal. apply map_ext_in. intros v Hv.
      apply in_seq in Hv. f_equal. apply nth_repeat.
    + rewrite !Fr by discriminate. split; simok.
Qed.

(** ** the initialisation before the loop that builds the reduced dendrogram *)


Lemma dict_enum_fresh (f : nat -> val -> pres (Z * val)) (g : val -> val) : forall items p acc,
  (forall pos item, In item items -> f pos item = POk (Z.of_nat pos, g item)) ->
  (forall k, In k (map fst acc) -> (k < Z.of_nat p)%Z) ->
  dict_enum f items p acc =
  POk (acc ++ map (fun x => (Z.of_nat (fst x), g (snd x))) (combine (seq p (Datatypes.length items)) items))%list.
Proof.
  induction items as [|item items IH]; intros p acc Hf Hacc.
  - cbn [dict_enum Datatypes.length seq combine map]. rewrite app_nil_r. reflexivity.
  - cbn [dict_enum Datatypes.length seq combine map]. rewrite Hf by (left; reflexivity).
    rewrite dset_fresh_raw by (intros Hin; apply Hacc in Hin; lia).
    rewrite IH.
    + rewrite <- app_assoc. reflexivity.
    + intros pos it Hin. apply Hf. right. exact Hin.
    + intros k Hin. rewrite map_app in Hin. apply in_app_or in Hin. destruct Hin as [Hin|Hin].
      * apply Hacc in Hin. lia.
      * cbn in Hin. destruct Hin as [<-|[]]. lia.
Qed.

Lemma embA_combine {A} (f : A -> val) p (l : list A) :
  map (fun x => (Z.of_nat (fst x), snd x)) (combine (seq p (Datatypes.length (map f l))) (map f l)) =
  embA f (combine (seq p (Datatypes.length l)) l).
Proof.
  revert p. induction l as [|a l IH]; intros p; [reflexivity|].
  cbn [map Datatypes.length seq combine embA fst snd]. f_equal. apply IH.
Qed.

Theorem src_reduce_init_is_model labels cl (e0 : env) :
  e0 "labels" = Some (VList (map vnat labels)) -> e0 "clusters" = Some (VList (map embL cl)) ->
  exists e', exec src_reduce_init_stmt e0 = POk e' /\
    e' "cluster_index" = Some (embN (combine (seq 0 (Datatypes.length labels)) labels)) /\
    e' "cluster_size" = Some (embN (combine (seq 0 (Datatypes.length cl)) (map (@Datatypes.length nat) cl))) /\
    e' "dendrogram_new" = Some (VList []) /\
    e' "current_cluster" = Some (vnat (Datatypes.length labels)) /\
    e' "current_cluster_new" = Some (vnat (Datatypes.length cl)) /\
    e' "dendrogram" = e0 "dendrogram" /\ e' "labels" = e0 "labels".
Proof.
  intros HL HC. unfold src_reduce_init_stmt.
  erewrite exec_seq_ok.
  2:{ apply exec_assign. cbn [eval]. rewrite HL.
      rewrite (dict_enum_fresh _ (fun v => v)).
      - cbn [app]. rewrite embA_combine. reflexivity.
      - intros pos item _. cbn [eval]. unfold upd. cbn [String.eqb Ascii.eqb Bool.eqb]. reflexivity.
      - intros k []. }
  erewrite exec_seq_ok.
  2:{ apply exec_assign. cbn [eval upd String.eqb Ascii.eqb Bool.eqb]. rewrite HC.
      rewrite (dict_enum_fresh _ (fun v => match v with VList l => VInt (Z.of_nat (Datatypes.length l)) | _ => VNone end)).
      - cbn [app]. reflexivity.
      - intros pos item Hin. apply in_map_iff in Hin. destruct Hin as [c [<- _]].
        cbn [eval]. unfold upd. cbn [String.eqb Ascii.eqb Bool.eqb embL]. reflexivity.
      - intros k []. }
  erewrite exec_seq_ok.
  2:{ apply exec_assign. cbn [eval]. reflexivity. }
  erewrite exec_seq_ok.
  2:{ apply exec_assign. cbn [eval upd String.eqb Ascii.eqb Bool.eqb]. rewrite HL. rewrite map_length. reflexivity. }
  eexists. split.
  { apply exec_assign. cbn [eval upd String.eqb Ascii.eqb Bool.eqb]. rewrite HC. rewrite map_length. reflexivity. }
  cbn [upd String.eqb Ascii.eqb Bool.eqb]. repeat split.
  all: try (rewrite ?map_length; reflexivity).
  f_equal. unfold embN. f_equal.
  clear. generalize 0 as p. induction cl as [|c cl IH]; intros p; [reflexivity|].
  cbn [map Datatypes.length seq combine embA fst snd embL vnat]. rewrite map_length. f_equal. apply IH.
Qed.

(** ** get_labels as a whole (return_dendrogram = True: head; initialisation; loop.  False: head) *)
Definition src_get_labels_ret : stmt := SSeq src_get_labels_head (SSeq src_reduce_init_stmt src_reduce_loop).

Lemma keys_lt_combine_seq {A} (l : list A) n : keys_lt n (combine (seq 0 n) l).
Proof.
  intros k Hk. unfold akeys in Hk. apply in_map_iff in Hk. destruct Hk as [[a b] [<- Hin]].
  apply in_combine_l in Hin. apply in_seq in Hin. simpl. lia.
Qed.

Lemma labels_of_length n cl : Datatypes.length (labels_of n cl) = n.
Proof. unfold labels_of. rewrite map_length, seq_length. reflexivity. Qed.

Theorem src_get_labels_is_model argsort D st sort ret (e0 : env) :
  let n := S (Datatypes.length D) in
  let answer := argsort (map (fun c => (- Z.of_nat (Datatypes.length c))%Z) (map snd st)) in
  e0 "dendrogram" = Some (embD D) -> e0 "cluster" = Some (embC st) -> e0 "sort_clusters" = Some (VBool sort) ->
  e0 "oracle:np.argsort" = Some (VList (map vnat answer)) ->
  Forall (fun i => i < Datatypes.length st) answer ->
  Forall (Forall (fun v => v < n)) (map snd st) ->
  match get_labels argsort D st sort ret with
  | Ok (labels, od) =>
      exists e', exec (if ret then src_get_labels_ret else src_get_labels_head) e0 = POk e' /\
                 e' "labels" = Some (VList (map vnat labels)) /\
                 match od with
                 | Some Dnew => ret = true /\ e' "dendrogram_new" = Some (VList (map embNewRow Dnew))
                 | None => ret = false
                 end
  | Err er => ret = true /\ exec src_get_labels_ret e0 = PErr (conv er)
  end.
Proof.
  intros n answer Hd Hc Hs Ho Hans Hnodes.
  destruct (src_get_labels_head_is_model argsort D st sort e0 Hd Hc Hs Ho Hans Hnodes) as (e1 & F1 & HL1 & HC1 & Hd1).
  fold n in HL1. unfold get_labels. fold n.
  change (if sort then map (fun i => nth i (map snd st) []) (argsort (map (fun c => (- Z.of_nat (Datatypes.length c))%Z) (map snd st)))
          else map snd st) with (model_clusters argsort st sort).
  set (cl := model_clusters argsort st sort) in *.
  destruct ret.
  - destruct (src_reduce_init_is_model (labels_of n cl) cl e1 HL1 HC1) as (e2 & F2 & Hci & Hcs & Hdn & Hcur & Hnew & Hd2 & Hl2).
    rewrite labels_of_length in Hci.
    assert (Kci : keys_lt (Datatypes.length (labels_of n cl)) (combine (seq 0 n) (labels_of n cl)))
      by (rewrite labels_of_length; apply keys_lt_combine_seq).
    assert (Kcs : keys_lt (Datatypes.length cl) (combine (seq 0 (Datatypes.length cl)) (map (@Datatypes.length nat) cl)))
      by apply keys_lt_combine_seq.
    rewrite Hd1 in Hd2.
    pose proof (src_reduce_loop_is_model D _ _ _ _ e2 Hd2 Hci Hcs Hcur Hnew Hdn Kci Kcs) as L.
    unfold src_get_labels_ret.
    rewrite (exec_seq_ok _ _ _ _ F1), (exec_seq_ok _ _ _ _ F2).
    destruct (reduce_loop D _ _ _ _) as [Dnew|er].
    + destruct L as (e3 & F3 & H3 & Hl3). exists e3. split; [exact F3|]. split; [|split; [reflexivity | exact H3]].
      rewrite Hl3, Hl2. exact HL1.
    + split; [reflexivity | exact L].
  - exists e1. split; [exact F1|]. split; [exact HL1 | reflexivity].
Qed.

(** Proofs about Model/Louvain.v: the kernel's delta is the objective gain, a pass / the whole
    optimisation / the whole fit report exactly the objective increase, aggregation preserves the
    objective, clusters stay inside connected components. *)
From SKN Require Import Base.Util Model.Modularity Model.Louvain Proofs.ModularityProofs.
From Coq Require Import Lqa Psatz Setoid Morphisms Sorted.

Local Open Scope Q_scope.

(** * Arrays *)

Lemma qn_eq x : qn x == x.
Proof. apply Qred_correct. Qed.

Lemma upd_length {A} (l : list A) i v : length (upd l i v) = length l.
Proof. revert i; induction l as [|a t IH]; intros [|i]; simpl; auto. Qed.

Lemma nth_upd_same {A} (l : list A) i v d : (i < length l)%nat -> nth i (upd l i v) d = v.
Proof.
  revert i; induction l as [|a t IH]; intros [|i] H; simpl in *; try lia; auto. apply IH. lia.
Qed.

Lemma nth_upd_other {A} (l : list A) i j v d : j <> i -> nth j (upd l i v) d = nth j l d.
Proof.
  revert i j; induction l as [|a t IH]; intros [|i] [|j] H; simpl; auto; try congruence.
Qed.

Lemma nthq_upd_same l i v : (i < length l)%nat -> nthq (upd l i v) i = v.
Proof. apply nth_upd_same. Qed.
Lemma nthq_upd_other l i j v : j <> i -> nthq (upd l i v) j = nthq l j.
Proof. apply nth_upd_other. Qed.
Lemma nthn_upd_same l i v : (i < length l)%nat -> nthn (upd l i v) i = v.
Proof. apply nth_upd_same. Qed.
Lemma nthn_upd_other l i j v : j <> i -> nthn (upd l i v) j = nthn l j.
Proof. apply nth_upd_other. Qed.

Lemma lab_upd labels i d x :
  (i < length labels)%nat -> lab (upd labels i d) x = if Nat.eqb x i then d else lab labels x.
Proof.
  intros H. unfold lab. destruct (Nat.eqb_spec x i) as [->|Hne].
  - apply nthn_upd_same; exact H.
  - apply nthn_upd_other; exact Hne.
Qed.

Lemma Qltb_lt x y : Qltb x y = true <-> x < y.
Proof.
  unfold Qltb. rewrite negb_true_iff. split.
  - intros H. destruct (Qlt_le_dec x y) as [Hl|Hl]; [exact Hl|].
    apply Qle_bool_iff in Hl. congruence.
  - intros H. destruct (Qle_bool y x) eqn:E; [|reflexivity].
    apply Qle_bool_iff in E. lra.
Qed.

(** * The objective as a double sum, and the effect of moving one node *)

Definition objF (n : nat) (F : nat -> nat -> Q) (L : nat -> nat) : Q :=
  qsum2 n n (fun x y => F x y * ind (Nat.eqb (L x) (L y))).

Lemma objF_ext n F L L' :
  (forall x, (x < n)%nat -> L x = L' x) -> objF n F L == objF n F L'.
Proof.
  intros H. unfold objF. apply qsum2_ext. intros x y Hx Hy. rewrite (H x Hx), (H y Hy). reflexivity.
Qed.

(** Only the equality pattern of the labels matters. *)
Lemma objF_pattern n F L L' :
  (forall x y, (x < n)%nat -> (y < n)%nat -> Nat.eqb (L x) (L y) = Nat.eqb (L' x) (L' y)) ->
  objF n F L == objF n F L'.
Proof.
  intros H. unfold objF. apply qsum2_ext. intros x y Hx Hy. rewrite (H x y Hx Hy). reflexivity.
Qed.

Lemma objF_Fext n F F' L :
  (forall x y, (x < n)%nat -> (y < n)%nat -> F x y == F' x y) -> objF n F L == objF n F' L.
Proof.
  intros H. unfold objF. apply qsum2_ext. intros x y Hx Hy. rewrite (H x y Hx Hy). reflexivity.
Qed.

Section MoveGain.
  Context (n : nat) (F : nat -> nat -> Q) (L : nat -> nat) (i d : nat).
  Context (Hi : (i < n)%nat) (Hd : d <> L i).

  Let L' := fun x => if Nat.eqb x i then d else L x.
  Let G := fun y => ind (Nat.eqb (L y) d) - ind (Nat.eqb (L y) (L i)).

  Lemma move_pointwise x y :
    ind (Nat.eqb (L' x) (L' y)) - ind (Nat.eqb (L x) (L y))
    == ind (Nat.eqb x i) * ((1 - ind (Nat.eqb y i)) * G y)
       + ind (Nat.eqb y i) * ((1 - ind (Nat.eqb x i)) * G x).
  Proof.
    unfold L', G.
    destruct (Nat.eqb_spec x i) as [Ex|Ex]; destruct (Nat.eqb_spec y i) as [Ey|Ey]; subst; simpl.
    - rewrite !Nat.eqb_refl. simpl. ring.
    - rewrite (Nat.eqb_sym d (L y)), (Nat.eqb_sym (L i) (L y)). ring.
    - ring.
    - ring.
  Qed.

  Lemma G_i : G i == -1.
  Proof.
    unfold G. rewrite Nat.eqb_refl. rewrite ind_false by (apply Nat.eqb_neq; congruence).
    simpl. ring.
  Qed.

  Lemma move_gain :
    objF n F L' - objF n F L == qsum n (fun y => (F i y + F y i) * G y) + 2 * F i i.
  Proof.
    unfold objF. rewrite <- qsum2_minus.
    transitivity (qsum2 n n (fun x y => ind (Nat.eqb x i) * (F x y * ((1 - ind (Nat.eqb y i)) * G y)))
                  + qsum2 n n (fun x y => ind (Nat.eqb y i) * (F x y * ((1 - ind (Nat.eqb x i)) * G x)))).
    { rewrite <- qsum2_plus. apply qsum2_ext. intros x y _ _.
      transitivity (F x y * (ind (Nat.eqb (L' x) (L' y)) - ind (Nat.eqb (L x) (L y)))); [ring|].
      rewrite move_pointwise. ring. }
    assert (E1 : qsum2 n n (fun x y => ind (Nat.eqb x i) * (F x y * ((1 - ind (Nat.eqb y i)) * G y)))
                 == qsum n (fun y => F i y * ((1 - ind (Nat.eqb y i)) * G y))).
    { unfold qsum2.
      transitivity (qsum n (fun x => ind (Nat.eqb x i) * qsum n (fun y => F x y * ((1 - ind (Nat.eqb y i)) * G y)))).
      - apply qsum_ext. intros x _. apply qsum_scal.
      - exact (qsum_ind n i (fun x => qsum n (fun y => F x y * ((1 - ind (Nat.eqb y i)) * G y))) Hi). }
    assert (E2 : qsum2 n n (fun x y => ind (Nat.eqb y i) * (F x y * ((1 - ind (Nat.eqb x i)) * G x)))
                 == qsum n (fun x => F x i * ((1 - ind (Nat.eqb x i)) * G x))).
    { unfold qsum2. apply qsum_ext. intros x _.
      exact (qsum_ind n i (fun y => F x y * ((1 - ind (Nat.eqb x i)) * G x)) Hi). }
    rewrite E1, E2. rewrite <- qsum_plus.
    transitivity (qsum n (fun y => (F i y + F y i) * G y) - qsum n (fun y => ind (Nat.eqb y i) * ((F i y + F y i) * G y))).
    { rewrite <- qsum_minus. apply qsum_ext. intros y _. ring. }
    rewrite (qsum_ind n i (fun y => (F i y + F y i) * G y) Hi). rewrite G_i. ring.
  Qed.
End MoveGain.

(** * Sorted label sets *)

Lemma set_insert_In x y s : In x (set_insert y s) <-> x = y \/ In x s.
Proof.
  induction s as [|z t IH]; simpl.
  - intuition congruence.
  - destruct (Nat.ltb y z) eqn:E1; simpl; [intuition congruence|].
    destruct (Nat.eqb_spec y z) as [->|E2]; simpl; [intuition congruence|]. rewrite IH. intuition congruence.
Qed.

Lemma set_insert_sorted y s : StronglySorted lt s -> StronglySorted lt (set_insert y s).
Proof.
  induction s as [|z t IH]; intros H; simpl.
  - constructor; constructor.
  - destruct (Nat.ltb y z) eqn:E1.
    + apply Nat.ltb_lt in E1. constructor; [exact H|].
      inversion H as [|? ? Ht Hall]; subst. constructor; [exact E1|].
      eapply Forall_impl; [|exact Hall]. intros a Ha. simpl in Ha. lia.
    + apply Nat.ltb_ge in E1. destruct (Nat.eqb_spec y z) as [->|E2]; [exact H|].
      inversion H as [|? ? Ht Hall]; subst. constructor; [apply IH; exact Ht|].
      apply Forall_forall. intros a Ha. apply set_insert_In in Ha. destruct Ha as [->|Ha]; [lia|].
      rewrite Forall_forall in Hall. apply Hall. exact Ha.
Qed.

Lemma sorted_NoDup s : StronglySorted lt s -> NoDup s.
Proof.
  induction s as [|z t IH]; intros H; [constructor|].
  inversion H as [|? ? Ht Hall]; subst. constructor; [|apply IH; exact Ht].
  intros Hin. rewrite Forall_forall in Hall. specialize (Hall z Hin). lia.
Qed.

Lemma set_erase_In x y s : In x (set_erase y s) <-> In x s /\ x <> y.
Proof.
  unfold set_erase. rewrite filter_In. rewrite negb_true_iff, Nat.eqb_neq. tauto.
Qed.

Lemma set_erase_NoDup y s : NoDup s -> NoDup (set_erase y s).
Proof. intros H. unfold set_erase. apply NoDup_filter. exact H. Qed.

Lemma lin6 n (e a b io oo : nat -> Q) c1 c2 :
  qsum n (fun y => (2 * e y - c1 * io y - c2 * oo y) * (a y - b y))
  == 2 * (qsum n (fun y => e y * a y) - qsum n (fun y => e y * b y))
     - c1 * (qsum n (fun y => a y * io y) - qsum n (fun y => b y * io y))
     - c2 * (qsum n (fun y => a y * oo y) - qsum n (fun y => b y * oo y)).
Proof. induction n as [|n IH]; simpl; [ring|]. rewrite IH. ring. Qed.

(** * The kernel *)

Section Kernel.
  Context (g : wgraph) (ows iws sls : list Q) (res : Q) (k : nat).
  Let n := length g.
  Context (Hwf : wf_wgraph g) (Hsym : wsymmetric g).
  Context (Hsl : forall i, (i < n)%nat -> nthq sls i == entry g i i).

  Definition Fk (x y : nat) : Q := entry g x y - res * nthq ows x * nthq iws y.

  Lemma objective_objF labels : objective g ows iws res labels = objF n Fk (lab labels).
  Proof. reflexivity. Qed.

  Definition csum (labels : list nat) (v : list Q) (c : nat) : Q :=
    membership_T_dot n labels (nthq v) c.

  Record kinv (st : kstate) : Prop := mk_kinv {
    ki_labels : length (k_labels st) = n;
    ki_ocw_len : length (k_out_cw st) = k;
    ki_icw_len : length (k_in_cw st) = k;
    ki_cw_len : length (k_cw st) = k;
    ki_lt : forall x, (x < n)%nat -> (lab (k_labels st) x < k)%nat;
    ki_ocw : forall c, (c < k)%nat -> nthq (k_out_cw st) c == csum (k_labels st) ows c;
    ki_icw : forall c, (c < k)%nat -> nthq (k_in_cw st) c == csum (k_labels st) iws c;
    ki_cw : forall c, (c < k)%nat -> nthq (k_cw st) c == 0
  }.

  (** ** The neighbour loop *)
  Lemma neighbours_fold labels r : forall s0 cw0,
    (forall j w, In (j, w) r -> (lab labels j < length cw0)%nat) ->
    StronglySorted lt s0 ->
    let out := fold_left (nb_step labels) r (s0, cw0) in
    length (snd out) = length cw0 /\
    StronglySorted lt (fst out) /\
    (forall t, In t (fst out) <-> In t s0 \/ exists j w, In (j, w) r /\ lab labels j = t) /\
    (forall c, nthq (snd out) c == nthq cw0 c + rsum r (fun j => ind (Nat.eqb (lab labels j) c))).
  Proof.
    induction r as [|[j w] r IH]; intros s0 cw0 Hlt Hs; cbn [fold_left].
    - simpl. split; [reflexivity|]. split; [exact Hs|]. split.
      + intros t. split; [auto|]. intros [H|[j [w [[] _]]]]; exact H.
      + intros c. ring.
    - set (lt0 := nthn labels j).
      assert (Hlt0 : (lt0 < length cw0)%nat) by (apply (Hlt j w); left; reflexivity).
      specialize (IH (set_insert lt0 s0) (upd cw0 lt0 (qn (nthq cw0 lt0 + w)))).
      destruct IH as [H1 [H2 [H3 H4]]].
      + intros j' w' Hin. rewrite upd_length. apply (Hlt j' w'). right. exact Hin.
      + apply set_insert_sorted. exact Hs.
      + change (nb_step labels (s0, cw0) (j, w)) with (set_insert lt0 s0, upd cw0 lt0 (qn (nthq cw0 lt0 + w))).
        split; [rewrite H1; apply upd_length|]. split; [exact H2|]. split.
        * intros t. rewrite H3. rewrite set_insert_In. split.
          -- intros [[E|H]|[j' [w' [Hin E]]]].
             ++ right. exists j, w. split; [left; reflexivity|]. subst t. reflexivity.
             ++ left. exact H.
             ++ right. exists j', w'. split; [right; exact Hin|exact E].
          -- intros [H|[j' [w' [[E|Hin] E']]]].
             ++ left. right. exact H.
             ++ injection E as <- <-. left. left. subst t. reflexivity.
             ++ right. exists j', w'. split; assumption.
        * intros c. rewrite H4. cbn [rsum]. change (lab labels j) with lt0.
          destruct (Nat.eqb_spec lt0 c) as [E|Hne].
          -- subst c. rewrite nthq_upd_same by exact Hlt0. rewrite qn_eq. cbn [ind]. ring.
          -- rewrite nthq_upd_other by congruence. cbn [ind]. ring.
  Qed.

  Lemma neighbours_spec labels r cw0 :
    (forall j w, In (j, w) r -> (lab labels j < length cw0)%nat) ->
    let out := neighbours labels r cw0 in
    length (snd out) = length cw0 /\
    StronglySorted lt (fst out) /\
    (forall t, In t (fst out) <-> exists j w, In (j, w) r /\ lab labels j = t) /\
    (forall c, nthq (snd out) c == nthq cw0 c + rsum r (fun j => ind (Nat.eqb (lab labels j) c))).
  Proof.
    intros Hlt. destruct (neighbours_fold labels r [] cw0 Hlt (SSorted_nil lt)) as [H1 [H2 [H3 H4]]].
    unfold neighbours. split; [exact H1|]. split; [exact H2|]. split; [|exact H4].
    intros t. rewrite H3. split; [intros [[]|H]; exact H|intros H; right; exact H].
  Qed.

  (** ** The target loop *)
  Section Target.
    Context (ow iw dlt : Q) (ocw icw cw1 : list Q) (label : nat) (S : list nat).

    Definition tgood (a : tstate) : Prop :=
      (t_label a = label /\ t_best a == 0) \/
      (In (t_label a) S /\ t_best a == delta_local res ow iw dlt ocw icw cw1 (t_label a) /\ 0 < t_best a).

    Lemma delta_local_cw cw cw' t :
      nthq cw t = nthq cw' t ->
      delta_local res ow iw dlt ocw icw cw t = delta_local res ow iw dlt ocw icw cw' t.
    Proof. intros H. unfold delta_local. rewrite H. reflexivity. Qed.

    Lemma tgt_loop : forall s a,
      NoDup s -> (forall t, In t s -> In t S) ->
      (forall t, In t s -> (t < length (t_cw a))%nat /\ nthq (t_cw a) t = nthq cw1 t) ->
      tgood a ->
      let a' := fold_left (tgt_step res ow iw dlt ocw icw) s a in
      tgood a' /\ length (t_cw a') = length (t_cw a) /\
      (forall c, In c s -> nthq (t_cw a') c = 0) /\
      (forall c, ~ In c s -> nthq (t_cw a') c = nthq (t_cw a) c).
    Proof.
      induction s as [|t s IH]; intros a Hnd Hsub Hcw Hgood; simpl.
      - split; [exact Hgood|]. split; [reflexivity|]. split; [intros c []|reflexivity].
      - inversion Hnd as [|? ? Hnotin Hnd']; subst.
        destruct (Hcw t (or_introl eq_refl)) as [Htlen Hteq].
        set (a1 := tgt_step res ow iw dlt ocw icw a t).
        assert (Hcw1 : t_cw a1 = upd (t_cw a) t 0).
        { unfold a1, tgt_step. destruct (Qltb _ _); reflexivity. }
        assert (Hgood1 : tgood a1).
        { unfold a1, tgt_step.
          destruct (Qltb (t_best a) (qn (delta_local res ow iw dlt ocw icw (t_cw a) t))) eqn:E.
          - right. cbn [t_label t_best]. apply Qltb_lt in E. rewrite qn_eq in E.
            rewrite (delta_local_cw _ _ _ Hteq) in E.
            split; [apply Hsub; left; reflexivity|]. split.
            + rewrite qn_eq. rewrite (delta_local_cw _ _ _ Hteq). reflexivity.
            + rewrite qn_eq. rewrite (delta_local_cw _ _ _ Hteq).
              destruct Hgood as [[_ H0]|[_ [_ H0]]]; lra.
          - destruct Hgood as [[Hl H0]|[Hl [He H0]]]; [left|right]; cbn [t_label t_best]; auto. }
        destruct (IH a1 Hnd') as [G1 [G2 [G3 G4]]].
        + intros t' Hin. apply Hsub. right. exact Hin.
        + intros t' Hin. rewrite Hcw1, upd_length.
          destruct (Hcw t' (or_intror Hin)) as [Hl He]. split; [exact Hl|].
          rewrite nthq_upd_other by (intros ->; contradiction). exact He.
        + exact Hgood1.
        + split; [exact G1|]. split; [rewrite G2, Hcw1; apply upd_length|]. split.
          * intros c [<-|Hin]; [|apply G3; exact Hin].
            destruct (in_dec Nat.eq_dec t s) as [Hin|Hnin]; [contradiction|].
            rewrite (G4 t Hnin), Hcw1. apply nthq_upd_same. exact Htlen.
          * intros c Hc. rewrite G4 by (intros H; apply Hc; right; exact H).
            rewrite Hcw1. apply nthq_upd_other. intros ->. apply Hc. left. reflexivity.
    Qed.
  End Target.

  (** ** Cluster sums under a move *)
  Lemma csum_move labels v i t c :
    (i < n)%nat -> length labels = n ->
    csum (upd labels i t) v c
    == csum labels v c + (ind (Nat.eqb t c) - ind (Nat.eqb (lab labels i) c)) * nthq v i.
  Proof.
    intros Hi Hlen. unfold csum, membership_T_dot.
    rewrite <- (qsum_ind n i (fun x => (ind (Nat.eqb t c) - ind (Nat.eqb (lab labels x) c)) * nthq v x) Hi).
    rewrite <- qsum_plus. apply qsum_ext. intros x _.
    rewrite lab_upd by lia. destruct (Nat.eqb_spec x i) as [->|Hne]; simpl; ring.
  Qed.

  (** ** delta_is_gain: the quantity compared by the kernel is the change of the objective *)
  Lemma delta_is_gain st i t :
    kinv st -> (i < n)%nat ->
    let labels := k_labels st in
    let label := lab labels i in
    let cw1 := snd (neighbours labels (wrow_of g i) (k_cw st)) in
    t <> label -> (t < k)%nat ->
    delta_local res (nthq ows i) (nthq iws i)
                (delta_leave res (nthq ows i) (nthq iws i) (nthq sls i) (k_out_cw st) (k_in_cw st) cw1 label)
                (k_out_cw st) (k_in_cw st) cw1 t
    == objective g ows iws res (upd labels i t) - objective g ows iws res labels.
  Proof.
    intros Hinv Hi labels label cw1 Hne Htk.
    destruct Hinv as [Hlen Hol Hil Hcl Hlt Hocw Hicw Hcw]. fold labels in Hlen, Hlt, Hocw, Hicw.
    assert (Hrow : forall j w, In (j, w) (wrow_of g i) -> (lab labels j < length (k_cw st))%nat).
    { intros j w Hin. rewrite Hcl. apply Hlt. exact (Hwf i j w Hin). }
    destruct (neighbours_spec labels (wrow_of g i) (k_cw st) Hrow) as [_ [_ [_ Hcw1]]]. fold cw1 in Hcw1.
    assert (Hlk : (label < k)%nat) by (apply Hlt; exact Hi).
    assert (CW : forall c, (c < k)%nat ->
                 nthq cw1 c == qsum n (fun y => entry g i y * ind (Nat.eqb (lab labels y) c))).
    { intros c Hc. rewrite Hcw1, (Hcw c Hc). rewrite (rsum_row_entries g i _ Hwf). fold n. ring. }
    rewrite !objective_objF.
    rewrite (objF_ext n Fk (lab (upd labels i t)) (fun x => if Nat.eqb x i then t else lab labels x))
      by (intros x _; apply lab_upd; lia).
    rewrite (move_gain n Fk (lab labels) i t Hi Hne).
    transitivity (qsum n (fun y => (2 * entry g i y - res * nthq ows i * nthq iws y - res * nthq iws i * nthq ows y)
                                   * (ind (Nat.eqb (lab labels y) t) - ind (Nat.eqb (lab labels y) label)))
                  + 2 * Fk i i).
    2:{ apply Qplus_comp; [|reflexivity]. apply qsum_ext. intros y Hy. unfold Fk.
        rewrite (Hsym y i Hy Hi). fold label. ring. }
    rewrite lin6. unfold delta_local, delta_leave.
    rewrite (CW t Htk), (CW label Hlk), (Hocw t Htk), (Hocw label Hlk), (Hicw t Htk), (Hicw label Hlk).
    rewrite (Hsl i Hi). unfold csum, membership_T_dot, Fk. ring.
  Qed.
End Kernel.

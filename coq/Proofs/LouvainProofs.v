(** Proofs about Model/Louvain.v: the kernel's delta is the objective gain, a pass / the whole
    optimisation / the whole fit report exactly the objective increase, aggregation preserves the
    objective, clusters stay inside connected components. *)
From SKN Require Import Base.Util Model.Modularity Model.Louvain Proofs.ModularityProofs.
From Coq Require Import Lqa Psatz Setoid Morphisms Sorted.

Local Open Scope Q_scope.

(** * Arrays *)

Lemma qn_eq x : qn x == x.
Proof. apply Qred_correct. Qed.

Lemma upd_length {A} (l : list A) i v : length (upd l i v) = length l.
Proof. revert i; induction l as [|a t IH]; intros [|i]; simpl; auto. Qed.

Lemma nth_upd_same {A} (l : list A) i v d : (i < length l)%nat -> nth i (upd l i v) d = v.
Proof.
  revert i; induction l as [|a t IH]; intros [|i] H; simpl in *; try lia; auto. apply IH. lia.
Qed.

Lemma nth_upd_other {A} (l : list A) i j v d : j <> i -> nth j (upd l i v) d = nth j l d.
Proof.
  revert i j; induction l as [|a t IH]; intros [|i] [|j] H; simpl; auto; try congruence.
Qed.

Lemma nthq_upd_same l i v : (i < length l)%nat -> nthq (upd l i v) i = v.
Proof. apply nth_upd_same. Qed.
Lemma nthq_upd_other l i j v : j <> i -> nthq (upd l i v) j = nthq l j.
Proof. apply nth_upd_other. Qed.
Lemma nthn_upd_same l i v : (i < length l)%nat -> nthn (upd l i v) i = v.
Proof. apply nth_upd_same. Qed.
Lemma nthn_upd_other l i j v : j <> i -> nthn (upd l i v) j = nthn l j.
Proof. apply nth_upd_other. Qed.

Lemma lab_upd labels i d x :
  (i < length labels)%nat -> lab (upd labels i d) x = if Nat.eqb x i then d else lab labels x.
Proof.
  intros H. unfold lab. destruct (Nat.eqb_spec x i) as [->|Hne].
  - apply nthn_upd_same; exact H.
  - apply nthn_upd_other; exact Hne.
Qed.

Lemma Qltb_lt x y : Qltb x y = true <-> x < y.
Proof.
  unfold Qltb. rewrite negb_true_iff. split.
  - intros H. destruct (Qlt_le_dec x y) as [Hl|Hl]; [exact Hl|].
    apply Qle_bool_iff in Hl. congruence.
  - intros H. destruct (Qle_bool y x) eqn:E; [|reflexivity].
    apply Qle_bool_iff in E. lra.
Qed.

(** * The objective as a double sum, and the effect of moving one node *)

Definition objF (n : nat) (F : nat -> nat -> Q) (L : nat -> nat) : Q :=
  qsum2 n n (fun x y => F x y * ind (Nat.eqb (L x) (L y))).

Lemma objF_ext n F L L' :
  (forall x, (x < n)%nat -> L x = L' x) -> objF n F L == objF n F L'.
Proof.
  intros H. unfold objF. apply qsum2_ext. intros x y Hx Hy. rewrite (H x Hx), (H y Hy). reflexivity.
Qed.

(** Only the equality pattern of the labels matters. *)
Lemma objF_pattern n F L L' :
  (forall x y, (x < n)%nat -> (y < n)%nat -> Nat.eqb (L x) (L y) = Nat.eqb (L' x) (L' y)) ->
  objF n F L == objF n F L'.
Proof.
  intros H. unfold objF. apply qsum2_ext. intros x y Hx Hy. rewrite (H x y Hx Hy). reflexivity.
Qed.

Lemma objF_Fext n F F' L :
  (forall x y, (x < n)%nat -> (y < n)%nat -> F x y == F' x y) -> objF n F L == objF n F' L.
Proof.
  intros H. unfold objF. apply qsum2_ext. intros x y Hx Hy. rewrite (H x y Hx Hy). reflexivity.
Qed.

Section MoveGain.
  Context (n : nat) (F : nat -> nat -> Q) (L : nat -> nat) (i d : nat).
  Context (Hi : (i < n)%nat) (Hd : d <> L i).

  Let L' := fun x => if Nat.eqb x i then d else L x.
  Let G := fun y => ind (Nat.eqb (L y) d) - ind (Nat.eqb (L y) (L i)).

  Lemma move_pointwise x y :
    ind (Nat.eqb (L' x) (L' y)) - ind (Nat.eqb (L x) (L y))
    == ind (Nat.eqb x i) * ((1 - ind (Nat.eqb y i)) * G y)
       + ind (Nat.eqb y i) * ((1 - ind (Nat.eqb x i)) * G x).
  Proof.
    unfold L', G.
    destruct (Nat.eqb_spec x i) as [Ex|Ex]; destruct (Nat.eqb_spec y i) as [Ey|Ey]; subst; simpl.
    - rewrite !Nat.eqb_refl. simpl. ring.
    - rewrite (Nat.eqb_sym d (L y)), (Nat.eqb_sym (L i) (L y)). ring.
    - ring.
    - ring.
  Qed.

  Lemma G_i : G i == -1.
  Proof.
    unfold G. rewrite Nat.eqb_refl. rewrite ind_false by (apply Nat.eqb_neq; congruence).
    simpl. ring.
  Qed.

  Lemma move_gain :
    objF n F L' - objF n F L == qsum n (fun y => (F i y + F y i) * G y) + 2 * F i i.
  Proof.
    unfold objF. rewrite <- qsum2_minus.
    transitivity (qsum2 n n (fun x y => ind (Nat.eqb x i) * (F x y * ((1 - ind (Nat.eqb y i)) * G y)))
                  + qsum2 n n (fun x y => ind (Nat.eqb y i) * (F x y * ((1 - ind (Nat.eqb x i)) * G x)))).
    { rewrite <- qsum2_plus. apply qsum2_ext. intros x y _ _.
      transitivity (F x y * (ind (Nat.eqb (L' x) (L' y)) - ind (Nat.eqb (L x) (L y)))); [ring|].
      rewrite move_pointwise. ring. }
    assert (E1 : qsum2 n n (fun x y => ind (Nat.eqb x i) * (F x y * ((1 - ind (Nat.eqb y i)) * G y)))
                 == qsum n (fun y => F i y * ((1 - ind (Nat.eqb y i)) * G y))).
    { unfold qsum2.
      transitivity (qsum n (fun x => ind (Nat.eqb x i) * qsum n (fun y => F x y * ((1 - ind (Nat.eqb y i)) * G y)))).
      - apply qsum_ext. intros x _. apply qsum_scal.
      - exact (qsum_ind n i (fun x => qsum n (fun y => F x y * ((1 - ind (Nat.eqb y i)) * G y))) Hi). }
    assert (E2 : qsum2 n n (fun x y => ind (Nat.eqb y i) * (F x y * ((1 - ind (Nat.eqb x i)) * G x)))
                 == qsum n (fun x => F x i * ((1 - ind (Nat.eqb x i)) * G x))).
    { unfold qsum2. apply qsum_ext. intros x _.
      exact (qsum_ind n i (fun y => F x y * ((1 - ind (Nat.eqb x i)) * G x)) Hi). }
    rewrite E1, E2. rewrite <- qsum_plus.
    transitivity (qsum n (fun y => (F i y + F y i) * G y) - qsum n (fun y => ind (Nat.eqb y i) * ((F i y + F y i) * G y))).
    { rewrite <- qsum_minus. apply qsum_ext. intros y _. ring. }
    rewrite (qsum_ind n i (fun y => (F i y + F y i) * G y) Hi). rewrite G_i. ring.
  Qed.
End MoveGain.

(** * Sorted label sets *)

Lemma set_insert_In x y s : In x (set_insert y s) <-> x = y \/ In x s.
Proof.
  induction s as [|z t IH]; simpl.
  - intuition congruence.
  - destruct (Nat.ltb y z) eqn:E1; simpl; [intuition congruence|].
    destruct (Nat.eqb_spec y z) as [->|E2]; simpl; [intuition congruence|]. rewrite IH. intuition congruence.
Qed.

Lemma set_insert_sorted y s : StronglySorted lt s -> StronglySorted lt (set_insert y s).
Proof.
  induction s as [|z t IH]; intros H; simpl.
  - constructor; constructor.
  - destruct (Nat.ltb y z) eqn:E1.
    + apply Nat.ltb_lt in E1. constructor; [exact H|].
      inversion H as [|? ? Ht Hall]; subst. constructor; [exact E1|].
      eapply Forall_impl; [|exact Hall]. intros a Ha. simpl in Ha. lia.
    + apply Nat.ltb_ge in E1. destruct (Nat.eqb_spec y z) as [->|E2]; [exact H|].
      inversion H as [|? ? Ht Hall]; subst. constructor; [apply IH; exact Ht|].
      apply Forall_forall. intros a Ha. apply set_insert_In in Ha. destruct Ha as [->|Ha]; [lia|].
      rewrite Forall_forall in Hall. apply Hall. exact Ha.
Qed.

Lemma sorted_NoDup s : StronglySorted lt s -> NoDup s.
Proof.
  induction s as [|z t IH]; intros H; [constructor|].
  inversion H as [|? ? Ht Hall]; subst. constructor; [|apply IH; exact Ht].
  intros Hin. rewrite Forall_forall in Hall. specialize (Hall z Hin). lia.
Qed.

Lemma set_erase_In x y s : In x (set_erase y s) <-> In x s /\ x <> y.
Proof.
  unfold set_erase. rewrite filter_In. rewrite negb_true_iff, Nat.eqb_neq. tauto.
Qed.

Lemma set_erase_NoDup y s : NoDup s -> NoDup (set_erase y s).
Proof. intros H. unfold set_erase. apply NoDup_filter. exact H. Qed.

Lemma lin6 n (e a b io oo : nat -> Q) c1 c2 :
  qsum n (fun y => (2 * e y - c1 * io y - c2 * oo y) * (a y - b y))
  == 2 * (qsum n (fun y => e y * a y) - qsum n (fun y => e y * b y))
     - c1 * (qsum n (fun y => a y * io y) - qsum n (fun y => b y * io y))
     - c2 * (qsum n (fun y => a y * oo y) - qsum n (fun y => b y * oo y)).
Proof. induction n as [|n IH]; simpl; [ring|]. rewrite IH. ring. Qed.

(** * The kernel *)

Section Kernel.
  Context (g : wgraph) (ows iws sls : list Q) (res : Q) (k : nat).
  Let n := length g.
  Context (Hwf : wf_wgraph g) (Hsym : wsymmetric g).
  Context (Hsl : forall i, (i < n)%nat -> nthq sls i == entry g i i).

  Definition Fk (x y : nat) : Q := entry g x y - res * nthq ows x * nthq iws y.

  Lemma objective_objF labels : objective g ows iws res labels = objF n Fk (lab labels).
  Proof. reflexivity. Qed.

  Definition csum (labels : list nat) (v : list Q) (c : nat) : Q :=
    membership_T_dot n labels (nthq v) c.

  Record kinv (st : kstate) : Prop := mk_kinv {
    ki_labels : length (k_labels st) = n;
    ki_ocw_len : length (k_out_cw st) = k;
    ki_icw_len : length (k_in_cw st) = k;
    ki_cw_len : length (k_cw st) = k;
    ki_lt : forall x, (x < n)%nat -> (lab (k_labels st) x < k)%nat;
    ki_ocw : forall c, (c < k)%nat -> nthq (k_out_cw st) c == csum (k_labels st) ows c;
    ki_icw : forall c, (c < k)%nat -> nthq (k_in_cw st) c == csum (k_labels st) iws c;
    ki_cw : forall c, (c < k)%nat -> nthq (k_cw st) c == 0
  }.

  (** ** The neighbour loop *)
  Lemma neighbours_fold labels r : forall s0 cw0,
    (forall j w, In (j, w) r -> (lab labels j < length cw0)%nat) ->
    StronglySorted lt s0 ->
    let out := fold_left (nb_step labels) r (s0, cw0) in
    length (snd out) = length cw0 /\
    StronglySorted lt (fst out) /\
    (forall t, In t (fst out) <-> In t s0 \/ exists j w, In (j, w) r /\ lab labels j = t) /\
    (forall c, nthq (snd out) c == nthq cw0 c + rsum r (fun j => ind (Nat.eqb (lab labels j) c))).
  Proof.
    induction r as [|[j w] r IH]; intros s0 cw0 Hlt Hs; cbn [fold_left].
    - simpl. split; [reflexivity|]. split; [exact Hs|]. split.
      + intros t. split; [auto|]. intros [H|[j [w [[] _]]]]; exact H.
      + intros c. ring.
    - set (lt0 := nthn labels j).
      assert (Hlt0 : (lt0 < length cw0)%nat) by (apply (Hlt j w); left; reflexivity).
      specialize (IH (set_insert lt0 s0) (upd cw0 lt0 (qn (nthq cw0 lt0 + w)))).
      destruct IH as [H1 [H2 [H3 H4]]].
      + intros j' w' Hin. rewrite upd_length. apply (Hlt j' w'). right. exact Hin.
      + apply set_insert_sorted. exact Hs.
      + change (nb_step labels (s0, cw0) (j, w)) with (set_insert lt0 s0, upd cw0 lt0 (qn (nthq cw0 lt0 + w))).
        split; [rewrite H1; apply upd_length|]. split; [exact H2|]. split.
        * intros t. rewrite H3. rewrite set_insert_In. split.
          -- intros [[E|H]|[j' [w' [Hin E]]]].
             ++ right. exists j, w. split; [left; reflexivity|]. subst t. reflexivity.
             ++ left. exact H.
             ++ right. exists j', w'. split; [right; exact Hin|exact E].
          -- intros [H|[j' [w' [[E|Hin] E']]]].
             ++ left. right. exact H.
             ++ injection E as <- <-. left. left. subst t. reflexivity.
             ++ right. exists j', w'. split; assumption.
        * intros c. rewrite H4. cbn [rsum]. change (lab labels j) with lt0.
          destruct (Nat.eqb_spec lt0 c) as [E|Hne].
          -- subst c. rewrite nthq_upd_same by exact Hlt0. rewrite qn_eq. cbn [ind]. ring.
          -- rewrite nthq_upd_other by congruence. cbn [ind]. ring.
  Qed.

  Lemma neighbours_spec labels r cw0 :
    (forall j w, In (j, w) r -> (lab labels j < length cw0)%nat) ->
    let out := neighbours labels r cw0 in
    length (snd out) = length cw0 /\
    StronglySorted lt (fst out) /\
    (forall t, In t (fst out) <-> exists j w, In (j, w) r /\ lab labels j = t) /\
    (forall c, nthq (snd out) c == nthq cw0 c + rsum r (fun j => ind (Nat.eqb (lab labels j) c))).
  Proof.
    intros Hlt. destruct (neighbours_fold labels r [] cw0 Hlt (SSorted_nil lt)) as [H1 [H2 [H3 H4]]].
    unfold neighbours. split; [exact H1|]. split; [exact H2|]. split; [|exact H4].
    intros t. rewrite H3. split; [intros [[]|H]; exact H|intros H; right; exact H].
  Qed.

  (** ** The target loop *)
  Section Target.
    Context (ow iw dlt : Q) (ocw icw cw1 : list Q) (label : nat) (S : list nat).

    Definition tgood (a : tstate) : Prop :=
      (t_label a = label /\ t_best a == 0) \/
      (In (t_label a) S /\ t_best a == delta_local res ow iw dlt ocw icw cw1 (t_label a) /\ 0 < t_best a).

    Lemma delta_local_cw cw cw' t :
      nthq cw t = nthq cw' t ->
      delta_local res ow iw dlt ocw icw cw t = delta_local res ow iw dlt ocw icw cw' t.
    Proof. intros H. unfold delta_local. rewrite H. reflexivity. Qed.

    Lemma tgt_loop : forall s a,
      NoDup s -> (forall t, In t s -> In t S) ->
      (forall t, In t s -> (t < length (t_cw a))%nat /\ nthq (t_cw a) t = nthq cw1 t) ->
      tgood a ->
      let a' := fold_left (tgt_step res ow iw dlt ocw icw) s a in
      tgood a' /\ length (t_cw a') = length (t_cw a) /\
      (forall c, In c s -> nthq (t_cw a') c = 0) /\
      (forall c, ~ In c s -> nthq (t_cw a') c = nthq (t_cw a) c).
    Proof.
      induction s as [|t s IH]; intros a Hnd Hsub Hcw Hgood; simpl.
      - split; [exact Hgood|]. split; [reflexivity|]. split; [intros c []|reflexivity].
      - inversion Hnd as [|? ? Hnotin Hnd']; subst.
        destruct (Hcw t (or_introl eq_refl)) as [Htlen Hteq].
        set (a1 := tgt_step res ow iw dlt ocw icw a t).
        assert (Hcw1 : t_cw a1 = upd (t_cw a) t 0).
        { unfold a1, tgt_step. destruct (Qltb _ _); reflexivity. }
        assert (Hgood1 : tgood a1).
        { unfold a1, tgt_step.
          destruct (Qltb (t_best a) (qn (delta_local res ow iw dlt ocw icw (t_cw a) t))) eqn:E.
          - right. cbn [t_label t_best]. apply Qltb_lt in E. rewrite qn_eq in E.
            rewrite (delta_local_cw _ _ _ Hteq) in E.
            split; [apply Hsub; left; reflexivity|]. split.
            + rewrite qn_eq. rewrite (delta_local_cw _ _ _ Hteq). reflexivity.
            + rewrite qn_eq. rewrite (delta_local_cw _ _ _ Hteq).
              destruct Hgood as [[_ H0]|[_ [_ H0]]]; lra.
          - destruct Hgood as [[Hl H0]|[Hl [He H0]]]; [left|right]; cbn [t_label t_best]; auto. }
        destruct (IH a1 Hnd') as [G1 [G2 [G3 G4]]].
        + intros t' Hin. apply Hsub. right. exact Hin.
        + intros t' Hin. rewrite Hcw1, upd_length.
          destruct (Hcw t' (or_intror Hin)) as [Hl He]. split; [exact Hl|].
          rewrite nthq_upd_other by (intros ->; contradiction). exact He.
        + exact Hgood1.
        + split; [exact G1|]. split; [rewrite G2, Hcw1; apply upd_length|]. split.
          * intros c [<-|Hin]; [|apply G3; exact Hin].
            destruct (in_dec Nat.eq_dec t s) as [Hin|Hnin]; [contradiction|].
            rewrite (G4 t Hnin), Hcw1. apply nthq_upd_same. exact Htlen.
          * intros c Hc. rewrite G4 by (intros H; apply Hc; right; exact H).
            rewrite Hcw1. apply nthq_upd_other. intros ->. apply Hc. left. reflexivity.
    Qed.
  End Target.

  (** ** Cluster sums under a move *)
  Lemma csum_move labels v i t c :
    (i < n)%nat -> length labels = n ->
    csum (upd labels i t) v c
    == csum labels v c + (ind (Nat.eqb t c) - ind (Nat.eqb (lab labels i) c)) * nthq v i.
  Proof.
    intros Hi Hlen. unfold csum, membership_T_dot.
    rewrite <- (qsum_ind n i (fun x => (ind (Nat.eqb t c) - ind (Nat.eqb (lab labels x) c)) * nthq v x) Hi).
    rewrite <- qsum_plus. apply qsum_ext. intros x _.
    rewrite lab_upd by lia. destruct (Nat.eqb_spec x i) as [->|Hne]; simpl; ring.
  Qed.

  (** ** delta_is_gain: the quantity compared by the kernel is the change of the objective *)
  Lemma delta_is_gain st i t :
    kinv st -> (i < n)%nat ->
    let labels := k_labels st in
    let label := lab labels i in
    let cw1 := snd (neighbours labels (wrow_of g i) (k_cw st)) in
    t <> label -> (t < k)%nat ->
    delta_local res (nthq ows i) (nthq iws i)
                (delta_leave res (nthq ows i) (nthq iws i) (nthq sls i) (k_out_cw st) (k_in_cw st) cw1 label)
                (k_out_cw st) (k_in_cw st) cw1 t
    == objective g ows iws res (upd labels i t) - objective g ows iws res labels.
  Proof.
    intros Hinv Hi labels label cw1 Hne Htk.
    destruct Hinv as [Hlen Hol Hil Hcl Hlt Hocw Hicw Hcw]. fold labels in Hlen, Hlt, Hocw, Hicw.
    assert (Hrow : forall j w, In (j, w) (wrow_of g i) -> (lab labels j < length (k_cw st))%nat).
    { intros j w Hin. rewrite Hcl. apply Hlt. exact (Hwf i j w Hin). }
    destruct (neighbours_spec labels (wrow_of g i) (k_cw st) Hrow) as [_ [_ [_ Hcw1]]]. fold cw1 in Hcw1.
    assert (Hlk : (label < k)%nat) by (apply Hlt; exact Hi).
    assert (CW : forall c, (c < k)%nat ->
                 nthq cw1 c == qsum n (fun y => entry g i y * ind (Nat.eqb (lab labels y) c))).
    { intros c Hc. rewrite Hcw1, (Hcw c Hc). rewrite (rsum_row_entries g i _ Hwf). fold n. ring. }
    rewrite !objective_objF.
    rewrite (objF_ext n Fk (lab (upd labels i t)) (fun x => if Nat.eqb x i then t else lab labels x))
      by (intros x _; apply lab_upd; lia).
    rewrite (move_gain n Fk (lab labels) i t Hi Hne).
    transitivity (qsum n (fun y => (2 * entry g i y - res * nthq ows i * nthq iws y - res * nthq iws i * nthq ows y)
                                   * (ind (Nat.eqb (lab labels y) t) - ind (Nat.eqb (lab labels y) label)))
                  + 2 * Fk i i).
    2:{ apply Qplus_comp; [|reflexivity]. apply qsum_ext. intros y Hy. unfold Fk.
        rewrite (Hsym y i Hy Hi). fold label. ring. }
    rewrite lin6. unfold delta_local, delta_leave.
    rewrite (CW t Htk), (CW label Hlk), (Hocw t Htk), (Hocw label Hlk), (Hicw t Htk), (Hicw label Hlk).
    rewrite (Hsl i Hi). unfold csum, membership_T_dot, Fk. ring.
  Qed.

  (** ** One node *)
  Lemma cluster_move labels (arr v : list Q) i best :
    (i < n)%nat -> length labels = n -> length arr = k ->
    (forall c, (c < k)%nat -> nthq arr c == csum labels v c) ->
    let label := lab labels i in
    (label < k)%nat -> (best < k)%nat -> best <> label ->
    let x := nthq v i in
    let arr1 := upd arr label (qn (nthq arr label - x)) in
    let arr2 := upd arr1 best (qn (nthq arr1 best + x)) in
    length arr2 = k /\
    forall c, (c < k)%nat -> nthq arr2 c == csum (upd labels i best) v c.
  Proof.
    intros Hi Hlen Hal Harr label Hlk Hbk Hne x arr1 arr2.
    split; [unfold arr2, arr1; rewrite !upd_length; exact Hal|].
    intros c Hc. rewrite (csum_move labels v i best c Hi Hlen). fold label. fold x.
    unfold arr2. destruct (Nat.eq_dec c best) as [->|Hcb].
    - rewrite nthq_upd_same by (unfold arr1; rewrite upd_length; lia).
      rewrite qn_eq. unfold arr1. rewrite nthq_upd_other by exact Hne.
      rewrite (Harr best Hbk). rewrite Nat.eqb_refl.
      rewrite (ind_false (Nat.eqb label best)) by (apply Nat.eqb_neq; congruence). cbn [ind]. ring.
    - rewrite nthq_upd_other by exact Hcb. unfold arr1.
      rewrite (ind_false (Nat.eqb best c)) by (apply Nat.eqb_neq; congruence).
      destruct (Nat.eq_dec c label) as [->|Hcl].
      + rewrite nthq_upd_same by lia. rewrite qn_eq, (Harr label Hlk). rewrite Nat.eqb_refl. cbn [ind]. ring.
      + rewrite nthq_upd_other by exact Hcl. rewrite (Harr c Hc).
        rewrite (ind_false (Nat.eqb label c)) by (apply Nat.eqb_neq; congruence). cbn [ind]. ring.
  Qed.

  Definition obj (labels : list nat) : Q := objective g ows iws res labels.

  Definition step_ok (st st' : kstate) (i : nat) : Prop :=
    kinv st' /\
    k_inc_pass st' - k_inc_pass st == obj (k_labels st') - obj (k_labels st) /\
    k_inc_pass st <= k_inc_pass st' /\
    (k_labels st' = k_labels st \/
     exists j w, In (j, w) (wrow_of g i) /\ lab (k_labels st) j <> lab (k_labels st) i /\
                 k_labels st' = upd (k_labels st) i (lab (k_labels st) j)).

  Lemma node_step_ok st i : kinv st -> (i < n)%nat -> step_ok st (node_step g ows iws sls res st i) i.
  Proof.
    intros Hinv Hi. pose proof Hinv as [Hlen Hol Hil Hcl Hlt Hocw Hicw Hcw].
    unfold step_ok, node_step. cbv zeta.
    set (labels := k_labels st) in *. set (label := nthn labels i).
    assert (Hlabel : label = lab labels i) by reflexivity.
    assert (Hlk : (label < k)%nat) by (rewrite Hlabel; apply Hlt; exact Hi).
    assert (Hrow : forall j w, In (j, w) (wrow_of g i) -> (lab labels j < length (k_cw st))%nat).
    { intros j w Hin. rewrite Hcl. apply Hlt. exact (Hwf i j w Hin). }
    destruct (neighbours_spec labels (wrow_of g i) (k_cw st) Hrow) as [Hl1 [Hsort [Hnb Hcw1]]].
    set (nb := neighbours labels (wrow_of g i) (k_cw st)) in *.
    set (cw1 := snd nb) in *. rewrite Hcl in Hl1.
    remember (set_erase label (fst nb)) as s eqn:Es.
    assert (Hs_in : forall t, In t s <-> (exists j w, In (j, w) (wrow_of g i) /\ lab labels j = t) /\ t <> label).
    { intros t. rewrite Es, set_erase_In, Hnb. reflexivity. }
    assert (Hs_nd : NoDup s) by (rewrite Es; apply set_erase_NoDup, sorted_NoDup; exact Hsort).
    assert (Hs_lt : forall t, In t s -> (t < k)%nat).
    { intros t Ht. apply Hs_in in Ht. destruct Ht as [[j [w [Hin <-]]] _]. apply Hlt. exact (Hwf i j w Hin). }
    assert (Hzero : forall cwF, length cwF = k ->
                      (forall c, In c s -> nthq cwF c = 0) ->
                      (forall c, ~ In c s -> nthq cwF c = nthq cw1 c) ->
                      forall c, (c < k)%nat -> nthq (upd cwF label 0) c == 0).
    { intros cwF HlF Hz Hnz c Hc. destruct (Nat.eq_dec c label) as [->|Hcl'].
      - rewrite nthq_upd_same by lia. reflexivity.
      - rewrite nthq_upd_other by exact Hcl'.
        destruct (in_dec Nat.eq_dec c s) as [Hin|Hnin].
        + rewrite (Hz c Hin). reflexivity.
        + rewrite (Hnz c Hnin). rewrite Hcw1, (Hcw c Hc).
          rewrite rsum_zero; [ring|]. intros j w Hin.
          rewrite ind_false; [reflexivity|]. apply Nat.eqb_neq. intros E.
          apply Hnin. apply Hs_in. split; [exists j, w; split; assumption|exact Hcl']. }
    destruct s as [|t0 s']; cbv iota beta.
    - (* no neighbouring cluster *)
      split; [|split; [|split]].
      + constructor; cbn [k_labels k_out_cw k_in_cw k_cw]; auto.
        * rewrite upd_length. exact Hl1.
        * apply Hzero; auto. intros c [].
      + cbn [k_inc_pass k_labels]. ring.
      + cbn [k_inc_pass]. apply Qle_refl.
      + left. reflexivity.
    - remember (t0 :: s') as s eqn:Es'.
      set (ow := nthq ows i). set (iw := nthq iws i).
      set (dlt0 := delta_leave res ow iw (nthq sls i) (k_out_cw st) (k_in_cw st) cw1 label).
      set (a0 := {| t_cw := cw1; t_best := 0; t_label := label; t_margin := k_margin st |}).
      destruct (tgt_loop ow iw (qn dlt0) (k_out_cw st) (k_in_cw st) cw1 label s s a0 Hs_nd (fun t H => H))
        as [Hgood [Hlts [Hz Hnz]]].
      { intros t Ht. cbn [a0 t_cw]. split; [rewrite Hl1; apply Hs_lt; exact Ht|reflexivity]. }
      { left. split; reflexivity. }
      set (ts := fold_left (tgt_step res ow iw (qn dlt0) (k_out_cw st) (k_in_cw st)) s a0) in *.
      cbn [a0 t_cw] in Hlts, Hnz.
      destruct (Nat.eqb_spec (t_label ts) label) as [Eb|Eb].
      + (* stays *)
        split; [|split; [|split]].
        * constructor; cbn [k_labels k_out_cw k_in_cw k_cw]; auto.
          -- rewrite upd_length, Hlts. exact Hl1.
          -- apply Hzero; auto. rewrite Hlts. exact Hl1.
        * cbn [k_inc_pass k_labels]. ring.
        * cbn [k_inc_pass]. apply Qle_refl.
        * left. reflexivity.
      + (* moves to t_label ts *)
        destruct Hgood as [[Hc _]|[Hbin [Hbest Hpos]]]; [contradiction|].
        set (best := t_label ts) in *.
        assert (Hbk : (best < k)%nat) by (apply Hs_lt; exact Hbin).
        assert (Hgain : t_best ts == obj (upd labels i best) - obj labels).
        { rewrite Hbest.
          transitivity (delta_local res ow iw dlt0 (k_out_cw st) (k_in_cw st) cw1 best).
          { unfold delta_local. rewrite qn_eq. reflexivity. }
          exact (delta_is_gain st i best Hinv Hi Eb Hbk). }
        destruct (cluster_move labels (k_out_cw st) ows i best Hi Hlen Hol Hocw Hlk Hbk Eb) as [Ho1 Ho2].
        destruct (cluster_move labels (k_in_cw st) iws i best Hi Hlen Hil Hicw Hlk Hbk Eb) as [Hi1 Hi2].
        split; [|split; [|split]].
        * constructor; cbn [k_labels k_out_cw k_in_cw k_cw].
          -- rewrite upd_length. exact Hlen.
          -- exact Ho1.
          -- exact Hi1.
          -- rewrite upd_length, Hlts. exact Hl1.
          -- intros x Hx. rewrite lab_upd by lia. destruct (Nat.eqb x i); [exact Hbk|apply Hlt; exact Hx].
          -- exact Ho2.
          -- exact Hi2.
          -- apply Hzero; auto. rewrite Hlts. exact Hl1.
        * cbn [k_inc_pass k_labels]. rewrite qn_eq, Hgain. fold labels. ring.
        * cbn [k_inc_pass]. rewrite qn_eq. lra.
        * right. apply Hs_in in Hbin. destruct Hbin as [[j [w [Hin Hj]]] _].
          exists j, w. split; [exact Hin|]. split; [rewrite Hj; exact Eb|].
          cbn [k_labels]. rewrite Hj. reflexivity.
  Qed.

  (** ** Connectivity invariant: equal label implies connected *)
  Definition cc_inv (labels : list nat) : Prop :=
    forall a b, (a < n)%nat -> (b < n)%nat -> lab labels a = lab labels b -> connected g a b.

  Lemma cc_move labels i j w :
    length labels = n -> (i < n)%nat -> In (j, w) (wrow_of g i) ->
    lab labels j <> lab labels i ->
    cc_inv labels -> cc_inv (upd labels i (lab labels j)).
  Proof.
    intros Hlen Hi Hin Hne Hcc a b Ha Hb. rewrite !lab_upd by lia.
    assert (Hj : (j < n)%nat) by exact (Hwf i j w Hin).
    assert (Hij : connected g i j) by (apply conn_edge; exists w; exact Hin).
    destruct (Nat.eqb_spec a i) as [->|Hai]; destruct (Nat.eqb_spec b i) as [->|Hbi]; intros E.
    - apply conn_refl.
    - apply conn_trans with j; [exact Hij|]. apply Hcc; assumption.
    - apply conn_sym. apply conn_trans with j; [exact Hij|]. apply Hcc; auto.
    - apply Hcc; assumption.
  Qed.

  Lemma kinv_same st st' :
    k_labels st' = k_labels st -> k_out_cw st' = k_out_cw st -> k_in_cw st' = k_in_cw st ->
    k_cw st' = k_cw st -> kinv st -> kinv st'.
  Proof.
    intros E1 E2 E3 E4 [H1 H2 H3 H4 H5 H6 H7 H8].
    constructor; rewrite ?E1, ?E2, ?E3, ?E4; assumption.
  Qed.

  (** ** One pass and the optimisation loop *)
  Definition run_ok (st st' : kstate) : Prop :=
    kinv st' /\
    k_inc_pass st' - k_inc_pass st == obj (k_labels st') - obj (k_labels st) /\
    k_inc_pass st <= k_inc_pass st' /\
    (cc_inv (k_labels st) -> cc_inv (k_labels st')).

  Lemma nodes_fold_ok : forall l st,
    kinv st -> (forall i, In i l -> (i < n)%nat) ->
    run_ok st (fold_left (node_step g ows iws sls res) l st).
  Proof.
    induction l as [|i l IH]; intros st Hinv Hl; cbn [fold_left].
    - split; [exact Hinv|]. split; [ring|]. split; [apply Qle_refl|auto].
    - assert (Hi : (i < n)%nat) by (apply Hl; left; reflexivity).
      destruct (node_step_ok st i Hinv Hi) as [K1 [K2 [K3 K4]]].
      set (st1 := node_step g ows iws sls res st i) in *.
      destruct (IH st1 K1 (fun x H => Hl x (or_intror H))) as [R1 [R2 [R3 R4]]].
      split; [exact R1|]. split; [|split].
      + lra.
      + lra.
      + intros Hcc. apply R4. destruct K4 as [->|[j [w [Hin [Hne ->]]]]]; [exact Hcc|].
        apply (cc_move _ i j w); auto. exact (ki_labels _ Hinv).
  Qed.

  Lemma one_pass_ok st :
    kinv st ->
    let st' := one_pass g ows iws sls res st in
    kinv st' /\
    k_inc_pass st' == obj (k_labels st') - obj (k_labels st) /\
    0 <= k_inc_pass st' /\
    (cc_inv (k_labels st) -> cc_inv (k_labels st')).
  Proof.
    intros Hinv. unfold one_pass.
    set (st0 := {| k_labels := k_labels st; k_out_cw := k_out_cw st; k_in_cw := k_in_cw st;
                   k_cw := k_cw st; k_inc_pass := 0; k_margin := k_margin st |}).
    assert (H0 : kinv st0) by (apply (kinv_same st st0); auto).
    destruct (nodes_fold_ok (seq 0 (length (k_labels st))) st0 H0) as [R1 [R2 [R3 R4]]].
    { intros i Hin. apply in_seq in Hin. rewrite (ki_labels _ Hinv) in Hin. lia. }
    cbn [st0 k_inc_pass k_labels] in R2, R3, R4.
    split; [exact R1|]. split; [|split; [exact R3|exact R4]].
    lra.
  Qed.

  Lemma opt_loop_ok tol : forall fuel st inc st' inc',
    kinv st ->
    opt_loop fuel g ows iws sls res tol st inc = Some (st', inc') ->
    kinv st' /\
    inc' - inc == obj (k_labels st') - obj (k_labels st) /\
    inc <= inc' /\
    (cc_inv (k_labels st) -> cc_inv (k_labels st')).
  Proof.
    induction fuel as [|fuel IH]; intros st inc st' inc' Hinv H; cbn [opt_loop] in H; [discriminate|].
    destruct (one_pass_ok st Hinv) as [P1 [P2 [P3 P4]]].
    set (st1 := one_pass g ows iws sls res st) in *.
    set (st2 := {| k_labels := k_labels st1; k_out_cw := k_out_cw st1; k_in_cw := k_in_cw st1;
                   k_cw := k_cw st1; k_inc_pass := k_inc_pass st1;
                   k_margin := mmin_tol (k_margin st1) (k_inc_pass st1) tol |}) in *.
    assert (H2 : kinv st2) by (apply (kinv_same st1 st2); auto).
    destruct (Qle_bool (k_inc_pass st1) tol).
    - assert (E1 : st' = st2) by congruence.
      assert (E2 : inc' = qn (inc + k_inc_pass st1)) by congruence.
      subst st' inc'. split; [exact H2|]. cbn [st2 k_labels].
      split; [rewrite qn_eq; lra|]. split; [rewrite qn_eq; lra|exact P4].
    - destruct (IH st2 (qn (inc + k_inc_pass st1)) st' inc' H2 H) as [R1 [R2 [R3 R4]]].
      cbn [st2 k_labels] in R2, R4. rewrite qn_eq in R2, R3.
      split; [exact R1|]. split; [|split].
      + lra.
      + lra.
      + intros Hcc. apply R4, P4, Hcc.
  Qed.
End Kernel.

(** * Aggregation *)

Lemma agg_sum k n (l : nat -> nat) (F D : nat -> nat -> Q) :
  (forall i, (i < n)%nat -> (l i < k)%nat) ->
  qsum2 k k (fun c c' => qsum2 n n (fun i j => ind (Nat.eqb (l i) c) * ind (Nat.eqb (l j) c') * F i j) * D c c')
  == qsum2 n n (fun i j => F i j * D (l i) (l j)).
Proof.
  intros Hl. unfold qsum2.
  transitivity (qsum k (fun c => qsum n (fun i => ind (Nat.eqb (l i) c) *
                  qsum k (fun c' => qsum n (fun j => ind (Nat.eqb (l j) c') * (F i j * D c c')))))).
  - apply qsum_ext. intros c _.
    transitivity (qsum k (fun c' => qsum n (fun i => ind (Nat.eqb (l i) c) *
                    qsum n (fun j => ind (Nat.eqb (l j) c') * (F i j * D c c'))))).
    + apply qsum_ext. intros c' _. rewrite <- qsum_scal_r. apply qsum_ext. intros i _.
      rewrite <- qsum_scal_r, <- qsum_scal. apply qsum_ext. intros j _. ring.
    + rewrite qsum_swap. apply qsum_ext. intros i _. apply qsum_scal.
  - rewrite (qsum_by_label k n l
               (fun i c => qsum k (fun c' => qsum n (fun j => ind (Nat.eqb (l j) c') * (F i j * D c c')))) Hl).
    apply qsum_ext. intros i _.
    exact (qsum_by_label k n l (fun j c' => F i j * D (l i) c') Hl).
Qed.

Lemma existsb_false_iff {A} (f : A -> bool) l : existsb f l = false <-> forall x, In x l -> f x = false.
Proof.
  induction l as [|a t IH]; simpl.
  - split; [intros _ x []|reflexivity].
  - rewrite orb_false_iff, IH. split.
    + intros [Ha Ht] x [<-|Hx]; auto.
    + intros H. split; [apply H; left; reflexivity|intros x Hx; apply H; right; exact Hx].
Qed.

Lemma rsum_map_filter_seq (p : nat -> bool) (f : nat -> Q) k h :
  rsum (map (fun j => (j, f j)) (filter p (seq 0 k))) h == qsum k (fun j => ind (p j) * (f j * h j)).
Proof.
  induction k as [|k IH]; [reflexivity|].
  rewrite seq_S, filter_app, map_app, rsum_app, IH. cbn [qsum]. apply Qplus_comp; [reflexivity|].
  simpl. destruct (p k); simpl; ring.
Qed.

Lemma wrow_of_map_seq (F : nat -> wrow) k c : (c < k)%nat -> wrow_of (map F (seq 0 k)) c = F c.
Proof.
  intros H. unfold wrow_of. rewrite (nth_indep _ [] (F 0%nat)) by (rewrite map_length, seq_length; exact H).
  rewrite map_nth, seq_nth by exact H. reflexivity.
Qed.

Lemma wrow_of_overflow g i : (length g <= i)%nat -> wrow_of g i = [].
Proof. intros H. unfold wrow_of. apply nth_overflow. exact H. Qed.

Lemma lab_map (f : nat -> nat) labels i :
  (i < length labels)%nat -> lab (map f labels) i = f (lab labels i).
Proof.
  intros H. unfold lab, nthn. rewrite (nth_indep _ 0%nat (f 0%nat)) by (rewrite map_length; exact H).
  apply map_nth.
Qed.

Section Aggregate.
  Context (g : wgraph) (labels : list nat) (k : nat).
  Let n := length g.
  Context (Hwf : wf_wgraph g) (Hlen : length labels = n).
  Context (Hlt : forall i, (i < n)%nat -> (lab labels i < k)%nat).

  Lemma agg_length : length (aggregate_graph g labels k) = k.
  Proof. unfold aggregate_graph. rewrite map_length, seq_length. reflexivity. Qed.

  Lemma agg_wf : wf_wgraph (aggregate_graph g labels k).
  Proof.
    intros c c' w Hin. rewrite agg_length.
    destruct (Nat.lt_ge_cases c k) as [Hc|Hc].
    - unfold aggregate_graph in Hin. rewrite wrow_of_map_seq in Hin by exact Hc.
      apply in_map_iff in Hin. destruct Hin as [x [E Hx]]. injection E as <- _.
      apply filter_In in Hx. destruct Hx as [Hx _]. apply in_seq in Hx. lia.
    - rewrite wrow_of_overflow in Hin by (rewrite agg_length; exact Hc). destruct Hin.
  Qed.

  Lemma agg_entry_sum c c' :
    agg_entry g labels c c'
    == qsum2 n n (fun i j => ind (Nat.eqb (lab labels i) c) * ind (Nat.eqb (lab labels j) c') * entry g i j).
  Proof.
    unfold agg_entry, membership_T_dot, adj_dot_membership, qsum2. fold n.
    apply qsum_ext. intros i _. rewrite (rsum_row_entries g i _ Hwf). fold n.
    rewrite <- qsum_scal. apply qsum_ext. intros j _. ring.
  Qed.

  Lemma agg_not_stored c c' : agg_stored g labels c c' = false -> agg_entry g labels c c' == 0.
  Proof.
    intros H. unfold agg_stored in H. rewrite existsb_false_iff in H.
    unfold agg_entry, membership_T_dot. apply qsum_zero. intros i Hi.
    specialize (H i). rewrite in_seq in H. specialize (H (conj (Nat.le_0_l i) Hi)).
    apply andb_false_iff in H. destruct H as [H|H].
    - rewrite H. simpl. ring.
    - rewrite existsb_false_iff in H. unfold adj_dot_membership.
      rewrite rsum_zero; [ring|]. intros j w Hin. specialize (H (j, w) Hin). simpl in H.
      rewrite H. reflexivity.
  Qed.

  Lemma agg_entry_ok c c' :
    (c < k)%nat -> (c' < k)%nat -> entry (aggregate_graph g labels k) c c' == agg_entry g labels c c'.
  Proof.
    intros Hc Hc'. unfold entry, aggregate_graph. rewrite wrow_of_map_seq by exact Hc.
    rewrite (rsum_map_filter_seq (agg_stored g labels c) (fun c'' => qn (agg_entry g labels c c'')) k).
    transitivity (qsum k (fun j => ind (Nat.eqb j c') * (ind (agg_stored g labels c j) * qn (agg_entry g labels c j)))).
    { apply qsum_ext. intros j _. ring. }
    rewrite (qsum_ind k c' (fun j => ind (agg_stored g labels c j) * qn (agg_entry g labels c j)) Hc').
    rewrite qn_eq. destruct (agg_stored g labels c c') eqn:E; simpl; [ring|].
    rewrite (agg_not_stored c c' E). ring.
  Qed.

  Lemma agg_symmetric : wsymmetric g -> wsymmetric (aggregate_graph g labels k).
  Proof.
    intros Hsym c c' Hc Hc'. rewrite agg_length in Hc, Hc'.
    rewrite (agg_entry_ok c c' Hc Hc'), (agg_entry_ok c' c Hc' Hc). rewrite !agg_entry_sum.
    unfold qsum2. rewrite qsum_swap. apply qsum_ext. intros i Hi. apply qsum_ext. intros j Hj.
    rewrite (Hsym j i Hj Hi). ring.
  Qed.

  Lemma cluster_sums_length v : length (cluster_sums k labels v) = k.
  Proof. unfold cluster_sums. rewrite map_length, seq_length. reflexivity. Qed.

  Lemma cluster_sums_nth v c :
    (c < k)%nat -> nthq (cluster_sums k labels v) c == membership_T_dot n labels (nthq v) c.
  Proof.
    intros Hc. unfold cluster_sums. rewrite nthq_map_seq by exact Hc. rewrite qn_eq, Hlen. reflexivity.
  Qed.

  (** aggregate_preserves_objective *)
  Lemma aggregate_objective ows iws res l2 :
    objective (aggregate_graph g labels k) (cluster_sums k labels ows) (cluster_sums k labels iws) res l2
    == objective g ows iws res (map (nthn l2) labels).
  Proof.
    unfold objective. rewrite agg_length. fold n.
    fold (qsum2 k k (fun c c' => (entry (aggregate_graph g labels k) c c'
             - res * nthq (cluster_sums k labels ows) c * nthq (cluster_sums k labels iws) c') * delta l2 c c')).
    fold (qsum2 n n (fun i j => (entry g i j - res * nthq ows i * nthq iws j) * delta (map (nthn l2) labels) i j)).
    transitivity (qsum2 n n (fun i j => (entry g i j - res * nthq ows i * nthq iws j) * delta l2 (lab labels i) (lab labels j))).
    2:{ apply qsum2_ext. intros i j Hi Hj. unfold delta.
        rewrite !lab_map by (rewrite Hlen; assumption). reflexivity. }
    rewrite <- (agg_sum k n (lab labels) (fun i j => entry g i j - res * nthq ows i * nthq iws j)
                        (fun c c' => delta l2 c c') Hlt).
    apply qsum2_ext. intros c c' Hc Hc'. apply Qmult_comp; [|reflexivity].
    rewrite (agg_entry_ok c c' Hc Hc'), agg_entry_sum.
    rewrite (cluster_sums_nth ows c Hc), (cluster_sums_nth iws c' Hc').
    unfold membership_T_dot.
    transitivity (qsum2 n n (fun i j => ind (Nat.eqb (lab labels i) c) * ind (Nat.eqb (lab labels j) c') * entry g i j)
                  - res * qsum2 n n (fun i j => (ind (Nat.eqb (lab labels i) c) * nthq ows i) * (ind (Nat.eqb (lab labels j) c') * nthq iws j))).
    { apply Qplus_comp; [reflexivity|]. apply Qopp_comp.
      rewrite <- Qmult_assoc. apply Qmult_comp; [reflexivity|].
      unfold qsum2. rewrite <- qsum_scal_r. apply qsum_ext. intros i _. symmetry. apply qsum_scal. }
    rewrite <- qsum2_scal, <- qsum2_minus. apply qsum2_ext. intros i j _ _. ring.
  Qed.
End Aggregate.

(** * np.unique(labels, return_inverse=True) *)

Lemma distinct_fold l : forall s,
  StronglySorted lt s ->
  StronglySorted lt (fold_left (fun s x => set_insert x s) l s) /\
  (forall x, In x (fold_left (fun s x => set_insert x s) l s) <-> In x s \/ In x l).
Proof.
  induction l as [|a l IH]; intros s Hs; cbn [fold_left].
  - split; [exact Hs|]. intros x. simpl. tauto.
  - destruct (IH (set_insert a s) (set_insert_sorted a s Hs)) as [H1 H2]. split; [exact H1|].
    intros x. rewrite H2, set_insert_In. simpl. intuition congruence.
Qed.

Lemma distinct_sorted_In l x : In x (distinct_sorted l) <-> In x l.
Proof.
  unfold distinct_sorted. destruct (distinct_fold l [] (SSorted_nil lt)) as [_ H].
  rewrite H. simpl. tauto.
Qed.

Lemma index_of_inj a b u : In a u -> index_of a u = index_of b u -> a = b.
Proof.
  induction u as [|y t IH]; intros Hin E; [destruct Hin|]. simpl in E.
  destruct (Nat.eqb_spec y a) as [Ea|Ea]; destruct (Nat.eqb_spec y b) as [Eb|Eb]; try congruence.
  destruct Hin as [Hy|Hin]; [congruence|]. apply IH; [exact Hin|]. congruence.
Qed.

Lemma unique_inverse_length l : length (unique_inverse l) = length l.
Proof. unfold unique_inverse. apply map_length. Qed.

Lemma unique_inverse_pattern l x y :
  (x < length l)%nat -> (y < length l)%nat ->
  Nat.eqb (lab (unique_inverse l) x) (lab (unique_inverse l) y) = Nat.eqb (lab l x) (lab l y).
Proof.
  intros Hx Hy. unfold unique_inverse. rewrite !lab_map by assumption.
  destruct (Nat.eqb_spec (lab l x) (lab l y)) as [E|E].
  - rewrite E. apply Nat.eqb_refl.
  - apply Nat.eqb_neq. intros E'. apply E. apply (index_of_inj _ _ (distinct_sorted l)); [|exact E'].
    apply distinct_sorted_In. unfold lab, nthn. apply nth_In. exact Hx.
Qed.

(** * One optimisation (Louvain._optimize / Leiden._optimize) *)

Lemma diagonal_nth g i : (i < length g)%nat -> nthq (diagonal g) i == entry g i i.
Proof. intros H. unfold diagonal. rewrite nthq_map_seq by exact H. apply qn_eq. Qed.

Lemma optimize_ok fuel g ows iws res tol labels ocw icw mg st inc :
  wf_wgraph g -> wsymmetric g ->
  length labels = length g -> length ocw = length icw ->
  (forall x, (x < length g)%nat -> (lab labels x < length ocw)%nat) ->
  (forall c, (c < length ocw)%nat -> nthq ocw c == csum g labels ows c) ->
  (forall c, (c < length ocw)%nat -> nthq icw c == csum g labels iws c) ->
  optimize fuel g ows iws res tol labels ocw icw mg = Some (st, inc) ->
  length (k_labels st) = length g /\
  (forall x, (x < length g)%nat -> (lab (k_labels st) x < length ocw)%nat) /\
  inc == objective g ows iws res (k_labels st) - objective g ows iws res labels /\
  0 <= inc /\
  (cc_inv g labels -> cc_inv g (k_labels st)).
Proof.
  intros Hwf Hsym Hlen Hoi Hlt Hocw Hicw H. unfold optimize in H.
  set (st0 := {| k_labels := labels; k_out_cw := ocw; k_in_cw := icw;
                 k_cw := repeat 0 (length ocw); k_inc_pass := 0; k_margin := mg |}) in H.
  assert (H0 : kinv g ows iws (length ocw) st0).
  { constructor; cbn [st0 k_labels k_out_cw k_in_cw k_cw]; auto.
    - apply repeat_length.
    - intros c Hc. rewrite nthq_repeat by exact Hc. reflexivity. }
  destruct (opt_loop_ok g ows iws (diagonal g) res (length ocw) Hwf Hsym
              (fun i Hi => diagonal_nth g i Hi) tol fuel st0 0 st inc H0 H) as [K1 [K2 [K3 K4]]].
  cbn [st0 k_labels] in K2, K4.
  split; [exact (ki_labels _ _ _ _ _ K1)|]. split; [exact (ki_lt _ _ _ _ _ K1)|].
  split; [unfold obj in K2; lra|]. split; [exact K3|exact K4].
Qed.

Lemma lab_seq n x : (x < n)%nat -> lab (seq 0 n) x = x.
Proof. intros H. unfold lab, nthn. rewrite seq_nth by exact H. reflexivity. Qed.

Lemma csum_singletons g v c : (c < length g)%nat -> nthq v c == csum g (seq 0 (length g)) v c.
Proof.
  intros Hc. unfold csum, membership_T_dot.
  rewrite <- (qsum_ind (length g) c (nthq v) Hc). apply qsum_ext. intros i Hi.
  rewrite lab_seq by exact Hi. reflexivity.
Qed.

Lemma cc_inv_singletons g : cc_inv g (seq 0 (length g)).
Proof. intros a b Ha Hb. rewrite !lab_seq by assumption. intros ->. apply conn_refl. Qed.

(** * Connectivity through aggregation *)

Lemma agg_connected g labels k :
  wf_wgraph g -> cc_inv g labels ->
  forall C C', connected (aggregate_graph g labels k) C C' ->
    (forall a, (a < length g)%nat -> lab labels a = C ->
       exists b, (b < length g)%nat /\ lab labels b = C' /\ connected g a b) /\
    (forall b, (b < length g)%nat -> lab labels b = C' ->
       exists a, (a < length g)%nat /\ lab labels a = C /\ connected g b a).
Proof.
  intros Hwf Hcc C C' H. induction H as [C|C C' He|C C' H IH|C C' C'' H1 IH1 H2 IH2].
  - split; intros a Ha E; exists a; (split; [exact Ha|split; [exact E|apply conn_refl]]).
  - destruct He as [w Hin].
    assert (Hst : exists i j w', (i < length g)%nat /\ lab labels i = C /\ In (j, w') (wrow_of g i) /\ lab labels j = C').
    { destruct (Nat.lt_ge_cases C k) as [Hc|Hc].
      - unfold aggregate_graph in Hin. rewrite wrow_of_map_seq in Hin by exact Hc.
        apply in_map_iff in Hin. destruct Hin as [x [E Hx]]. injection E as -> _.
        apply filter_In in Hx. destruct Hx as [_ Hx]. unfold agg_stored in Hx.
        apply existsb_exists in Hx. destruct Hx as [i [Hi Hx]]. apply in_seq in Hi.
        apply andb_true_iff in Hx. destruct Hx as [Hx1 Hx2]. apply Nat.eqb_eq in Hx1.
        apply existsb_exists in Hx2. destruct Hx2 as [[j w'] [Hj Hx2]]. simpl in Hx2. apply Nat.eqb_eq in Hx2.
        exists i, j, w'. repeat split; auto. lia.
      - rewrite wrow_of_overflow in Hin; [destruct Hin|].
        unfold aggregate_graph. rewrite map_length, seq_length. exact Hc. }
    destruct Hst as [i [j [w' [Hi [Hli [Hij Hlj]]]]]].
    assert (Hj : (j < length g)%nat) by exact (Hwf i j w' Hij).
    assert (Cij : connected g i j) by (apply conn_edge; exists w'; exact Hij).
    split.
    + intros a Ha E. exists j. split; [exact Hj|]. split; [exact Hlj|].
      apply conn_trans with i; [|exact Cij]. apply Hcc; auto. congruence.
    + intros b Hb E. exists i. split; [exact Hi|]. split; [exact Hli|].
      apply conn_trans with j; [|apply conn_sym; exact Cij]. apply Hcc; auto. congruence.
  - destruct IH as [I1 I2]. split; [exact I2|exact I1].
  - destruct IH1 as [A1 A2]. destruct IH2 as [B1 B2]. split.
    + intros a Ha E. destruct (A1 a Ha E) as [b [Hb [Eb Cab]]]. destruct (B1 b Hb Eb) as [c [Hc [Ec Cbc]]].
      exists c. split; [exact Hc|]. split; [exact Ec|]. apply conn_trans with b; assumption.
    + intros c Hc E. destruct (B2 c Hc E) as [b [Hb [Eb Ccb]]]. destruct (A2 b Hb Eb) as [a [Ha [Ea Cba]]].
      exists a. split; [exact Ha|]. split; [exact Ea|]. apply conn_trans with b; assumption.
Qed.

Lemma agg_connected_members g labels k a b :
  wf_wgraph g -> cc_inv g labels -> (a < length g)%nat -> (b < length g)%nat ->
  connected (aggregate_graph g labels k) (lab labels a) (lab labels b) -> connected g a b.
Proof.
  intros Hwf Hcc Ha Hb H.
  destruct (agg_connected g labels k Hwf Hcc _ _ H) as [A _].
  destruct (A a Ha eq_refl) as [b' [Hb' [E C]]].
  apply conn_trans with b'; [exact C|]. apply Hcc; assumption.
Qed.

Lemma cc_inv_pattern g labels labels' :
  (forall x y, (x < length g)%nat -> (y < length g)%nat ->
     Nat.eqb (lab labels' x) (lab labels' y) = Nat.eqb (lab labels x) (lab labels y)) ->
  cc_inv g labels -> cc_inv g labels'.
Proof.
  intros H Hcc a b Ha Hb E. apply Hcc; auto. apply Nat.eqb_eq. rewrite <- (H a b Ha Hb). apply Nat.eqb_eq. exact E.
Qed.

Lemma objective_pattern g ows iws res labels labels' :
  (forall x y, (x < length g)%nat -> (y < length g)%nat ->
     Nat.eqb (lab labels' x) (lab labels' y) = Nat.eqb (lab labels x) (lab labels y)) ->
  objective g ows iws res labels' == objective g ows iws res labels.
Proof. intros H. rewrite !objective_objF. apply objF_pattern. exact H. Qed.

Lemma objective_ext g ows iws res labels labels' :
  (forall x, (x < length g)%nat -> lab labels' x = lab labels x) ->
  objective g ows iws res labels' == objective g ows iws res labels.
Proof. intros H. rewrite !objective_objF. apply objF_ext. exact H. Qed.

(** * The outer loop of Louvain.fit *)

Definition log_total (log : list logline) : Q := sumq (map l_increase log).

Lemma log_total_app log x : log_total (log ++ [x]) == log_total log + l_increase x.
Proof. unfold log_total. rewrite map_app, sumq_app. simpl. ring. Qed.

Definition log_nonneg (log : list logline) : Prop := forall x, In x log -> 0 <= l_increase x.

Section Levels.
  Context (g0 : wgraph) (ows0 iws0 : list Q) (res : Q).
  Let n0 := length g0.

  Record level_inv (g : wgraph) (ows iws : list Q) (membership : list nat) : Prop := mk_level {
    lv_wf : wf_wgraph g;
    lv_sym : wsymmetric g;
    lv_ows : length ows = length g;
    lv_iws : length iws = length g;
    lv_mem_len : length membership = n0;
    lv_mem_lt : forall u, (u < n0)%nat -> (lab membership u < length g)%nat;
    lv_obj : forall l2, objective g ows iws res l2 == objective g0 ows0 iws0 res (map (nthn l2) membership);
    lv_conn : forall u v, (u < n0)%nat -> (v < n0)%nat ->
                connected g (lab membership u) (lab membership v) -> connected g0 u v
  }.

  Lemma level_init :
    wf_wgraph g0 -> wsymmetric g0 -> length ows0 = n0 -> length iws0 = n0 ->
    level_inv g0 ows0 iws0 (seq 0 n0).
  Proof.
    intros Hwf Hsym Ho Hi. constructor; auto.
    - apply seq_length.
    - intros u Hu. rewrite lab_seq by exact Hu. exact Hu.
    - intros l2. apply objective_ext. intros x Hx. rewrite lab_map by (rewrite seq_length; exact Hx).
      rewrite lab_seq by exact Hx. reflexivity.
    - intros u v Hu Hv. rewrite !lab_seq by assumption. auto.
  Qed.

  (** One aggregation step: from a level and labels on it to the next level. *)
  Lemma level_step g ows iws membership lu :
    level_inv g ows iws membership ->
    length lu = length g -> cc_inv g lu ->
    let k := n_labels lu in
    level_inv (aggregate_graph g lu k) (cluster_sums k lu ows) (cluster_sums k lu iws)
              (map (nthn lu) membership).
  Proof.
    intros [Hwf Hsym Ho Hi Hml Hmlt Hobj Hconn] Hlen Hcc k.
    assert (Hlt : forall i, (i < length g)%nat -> (lab lu i < k)%nat).
    { intros i Hi'. apply lab_lt_n_labels. lia. }
    constructor.
    - apply agg_wf. exact Hlen.
    - apply agg_symmetric; auto.
    - rewrite cluster_sums_length, agg_length. reflexivity.
    - rewrite cluster_sums_length, agg_length. reflexivity.
    - rewrite map_length. exact Hml.
    - intros u Hu. rewrite agg_length. rewrite lab_map by (rewrite Hml; exact Hu).
      apply Hlt. apply Hmlt. exact Hu.
    - intros l2. rewrite (aggregate_objective g lu k Hwf Hlen Hlt ows iws res l2).
      rewrite Hobj. apply objective_ext. intros x Hx. fold n0 in Hx.
      symmetry. transitivity (nthn l2 (nthn lu (lab membership x))).
      + rewrite (lab_map (nthn l2)) by (rewrite map_length, Hml; exact Hx).
        rewrite (lab_map (nthn lu)) by (rewrite Hml; exact Hx). reflexivity.
      + rewrite (lab_map (nthn (map (nthn l2) lu))) by (rewrite Hml; exact Hx).
        change (nthn (map (nthn l2) lu) (lab membership x)) with (lab (map (nthn l2) lu) (lab membership x)).
        rewrite lab_map by (rewrite Hlen; apply Hmlt; exact Hx). reflexivity.
    - intros u v Hu Hv. rewrite !lab_map by (rewrite Hml; assumption). intros Hc.
      apply Hconn; auto.
      apply (agg_connected_members g lu k); auto.
  Qed.

  Lemma louvain_loop_ok kfuel tol_opt tol_agg n_agg : forall fuel g ows iws membership count log mg r,
    level_inv g ows iws membership ->
    louvain_loop fuel kfuel res tol_opt tol_agg n_agg g ows iws membership count log mg = MOk r ->
    log_total (r_log r) - log_total log
      == objective g0 ows0 iws0 res (r_membership r) - objective g0 ows0 iws0 res membership /\
    (log_nonneg log -> log_nonneg (r_log r)) /\
    length (r_membership r) = n0 /\
    (forall u v, (u < n0)%nat -> (v < n0)%nat ->
       lab (r_membership r) u = lab (r_membership r) v -> connected g0 u v).
  Proof.
    induction fuel as [|fuel IH]; intros g ows iws membership count log mg r Hlv H;
      cbn [louvain_loop] in H; [discriminate|].
    pose proof Hlv as [Hwf Hsym Ho Hi Hml Hmlt Hobj Hconn].
    destruct (optimize kfuel g ows iws res tol_opt (seq 0 (length g)) ows iws mg) as [[st inc]|] eqn:Eopt;
      [|discriminate].
    destruct (optimize_ok kfuel g ows iws res tol_opt (seq 0 (length g)) ows iws mg st inc Hwf Hsym)
      as [Kl [Klt [Kinc [Kpos Kcc]]]]; auto.
    { apply seq_length. }
    { congruence. }
    { intros x Hx. rewrite lab_seq by exact Hx. lia. }
    { intros c Hc. apply csum_singletons. lia. }
    { intros c Hc. apply csum_singletons. lia. }
    specialize (Kcc (cc_inv_singletons g)).
    set (lu := unique_inverse (k_labels st)) in *.
    assert (Hlu : length lu = length g) by (unfold lu; rewrite unique_inverse_length; exact Kl).
    assert (Hpat : forall x y, (x < length g)%nat -> (y < length g)%nat ->
               Nat.eqb (lab lu x) (lab lu y) = Nat.eqb (lab (k_labels st) x) (lab (k_labels st) y)).
    { intros x y Hx Hy. apply unique_inverse_pattern; rewrite Kl; assumption. }
    assert (Hcclu : cc_inv g lu) by (apply (cc_inv_pattern g (k_labels st)); assumption).
    pose proof (level_step g ows iws membership lu Hlv Hlu Hcclu) as Hnext. cbv zeta in Hnext.
    set (mem' := map (fun c => nthn lu c) membership) in *.
    (* the reported increase is the objective difference on the original graph *)
    assert (Hinc : inc == objective g0 ows0 iws0 res mem' - objective g0 ows0 iws0 res membership).
    { rewrite Kinc. rewrite <- (objective_pattern g ows iws res (k_labels st) lu Hpat).
      rewrite (Hobj lu), (Hobj (seq 0 (length g))). apply Qplus_comp; [reflexivity|]. apply Qopp_comp.
      apply objective_ext. intros x Hx. fold n0 in Hx. rewrite lab_map by (rewrite Hml; exact Hx).
      change (nthn (seq 0 (length g)) (lab membership x)) with (lab (seq 0 (length g)) (lab membership x)).
      apply lab_seq. apply Hmlt. exact Hx. }
    set (entry_ := {| l_count := S count; l_clusters := n_labels lu; l_increase := inc |}) in *.
    destruct (Nat.eqb (n_labels lu) 1 || Qle_bool inc tol_agg || Z.eqb (Z.of_nat (S count)) n_agg).
    - assert (Er : r = {| r_membership := mem'; r_log := log ++ [entry_];
                          r_fit_margin := mmin_tol (k_margin st) inc tol_agg |}) by congruence.
      subst r. cbn [r_membership r_log].
      split; [rewrite log_total_app; cbn [entry_ l_increase]; lra|]. split; [|split].
      + intros Hn x Hx. apply in_app_or in Hx. destruct Hx as [Hx|[<-|[]]]; [apply Hn; exact Hx|exact Kpos].
      + unfold mem'. rewrite map_length. exact Hml.
      + intros u v Hu Hv E. unfold mem' in E. rewrite !lab_map in E by (rewrite Hml; assumption).
        apply Hconn; [exact Hu|exact Hv|].
        apply Hcclu; [apply Hmlt; exact Hu|apply Hmlt; exact Hv|exact E].
    - destruct (IH _ _ _ _ _ _ _ r Hnext H) as [R1 [R2 [R3 R4]]].
      split; [rewrite log_total_app in R1; cbn [entry_ l_increase] in R1; fold mem' in R1; lra|].
      split; [|split; [exact R3|exact R4]].
      intros Hn. apply R2. intros x Hx. apply in_app_or in Hx.
      destruct Hx as [Hx|[<-|[]]]; [apply Hn; exact Hx|exact Kpos].
  Qed.
End Levels.

(** * Louvain._pre_processing: the graph handed to the kernel *)

Lemma stored_false_entry g i j : stored g i j = false -> entry g i j == 0.
Proof.
  intros H. unfold stored in H. rewrite existsb_false_iff in H. unfold entry.
  apply rsum_zero. intros j' w Hin. specialize (H (j', w) Hin). simpl in H. rewrite H. reflexivity.
Qed.

Lemma symmetrize_length g : length (symmetrize g) = length g.
Proof. unfold symmetrize. rewrite map_length, seq_length. reflexivity. Qed.

Lemma symmetrize_wf g : wf_wgraph (symmetrize g).
Proof.
  intros i j w Hin. rewrite symmetrize_length.
  destruct (Nat.lt_ge_cases i (length g)) as [Hi|Hi].
  - unfold symmetrize in Hin. rewrite wrow_of_map_seq in Hin by exact Hi.
    apply in_map_iff in Hin. destruct Hin as [x [E Hx]]. injection E as <- _.
    apply filter_In in Hx. destruct Hx as [Hx _]. apply in_seq in Hx. lia.
  - rewrite wrow_of_overflow in Hin by (rewrite symmetrize_length; exact Hi). destruct Hin.
Qed.

Lemma symmetrize_entry g i j :
  (i < length g)%nat -> (j < length g)%nat ->
  entry (symmetrize g) i j == entry g i j + entry g j i.
Proof.
  intros Hi Hj. unfold entry at 1. unfold symmetrize. rewrite wrow_of_map_seq by exact Hi.
  rewrite (rsum_map_filter_seq (fun j0 => stored g i j0 || stored g j0 i)
             (fun j0 => qn (entry g i j0 + entry g j0 i)) (length g)).
  transitivity (qsum (length g) (fun j0 => ind (Nat.eqb j0 j) *
                  (ind (stored g i j0 || stored g j0 i) * qn (entry g i j0 + entry g j0 i)))).
  { apply qsum_ext. intros j0 _. ring. }
  rewrite (qsum_ind (length g) j (fun j0 => ind (stored g i j0 || stored g j0 i) * qn (entry g i j0 + entry g j0 i)) Hj).
  rewrite qn_eq. destruct (stored g i j) eqn:E1; simpl; [ring|].
  destruct (stored g j i) eqn:E2; simpl; [ring|].
  rewrite (stored_false_entry g i j E1), (stored_false_entry g j i E2). ring.
Qed.

Lemma scale_length g s : length (scale_graph g s) = length g.
Proof. unfold scale_graph. apply map_length. Qed.

Lemma wrow_of_scale g s i :
  wrow_of (scale_graph g s) i = map (fun p => (fst p, qn (snd p / s))) (wrow_of g i).
Proof.
  unfold wrow_of, scale_graph.
  change (@nil (nat * Q)) with (map (fun p : nat * Q => (fst p, qn (snd p / s))) []) at 1.
  apply map_nth.
Qed.

Lemma scale_wf g s : wf_wgraph g -> wf_wgraph (scale_graph g s).
Proof.
  intros H i j w Hin. rewrite scale_length. rewrite wrow_of_scale in Hin.
  apply in_map_iff in Hin. destruct Hin as [[j' w'] [E Hin]]. simpl in E. injection E as <- _.
  exact (H i j' w' Hin).
Qed.

Lemma scale_entry g s i j : entry (scale_graph g s) i j == entry g i j / s.
Proof.
  unfold entry. rewrite wrow_of_scale. generalize (wrow_of g i). intros r.
  induction r as [|[j' w] t IH]; cbn [map rsum fst snd].
  - unfold Qdiv. ring.
  - rewrite IH, qn_eq. unfold Qdiv. ring.
Qed.

Lemma scale_wedge g s i j : wedge (scale_graph g s) i j -> wedge g i j.
Proof.
  intros [w Hin]. rewrite wrow_of_scale in Hin. apply in_map_iff in Hin.
  destruct Hin as [[j' w'] [E Hin]]. simpl in E. injection E as -> _. exists w'. exact Hin.
Qed.

Lemma symmetrize_wedge g i j :
  wedge (symmetrize g) i j -> wedge g i j \/ wedge g j i.
Proof.
  intros [w Hin]. destruct (Nat.lt_ge_cases i (length g)) as [Hi|Hi].
  - unfold symmetrize in Hin. rewrite wrow_of_map_seq in Hin by exact Hi.
    apply in_map_iff in Hin. destruct Hin as [x [E Hx]]. injection E as -> _.
    apply filter_In in Hx. destruct Hx as [_ Hx]. apply orb_true_iff in Hx.
    destruct Hx as [Hx|Hx]; unfold stored in Hx; apply existsb_exists in Hx;
      destruct Hx as [[j' w'] [Hin E]]; simpl in E; apply Nat.eqb_eq in E; subst j'.
    + left. exists w'. exact Hin.
    + right. exists w'. exact Hin.
  - rewrite wrow_of_overflow in Hin by (rewrite symmetrize_length; exact Hi). destruct Hin.
Qed.

Lemma connected_mono (g g' : wgraph) :
  (forall i j, wedge g i j -> connected g' i j) -> forall i j, connected g i j -> connected g' i j.
Proof.
  intros H i j C. induction C as [i|i j He|i j C IH|i j k' C1 IH1 C2 IH2].
  - apply conn_refl.
  - apply H. exact He.
  - apply conn_sym. exact IH.
  - apply conn_trans with j; assumption.
Qed.

Lemma prep_connected g s i j : connected (scale_graph (symmetrize g) s) i j -> connected g i j.
Proof.
  apply connected_mono. intros a b Hw. apply scale_wedge in Hw. apply symmetrize_wedge in Hw.
  destruct Hw as [Hw|Hw]; [apply conn_edge; exact Hw|apply conn_sym, conn_edge; exact Hw].
Qed.

Lemma get_probs_length ws ps : get_probs_of ws = MOk ps -> length ps = length ws.
Proof. intros H. apply get_probs_of_ok in H. destruct H as [_ ->]. apply map_length. Qed.

Lemma make_weights_out_length wk g : length (make_weights_out wk g) = length g.
Proof. destruct wk; simpl; [rewrite map_length, seq_length|rewrite repeat_length]; reflexivity. Qed.
Lemma make_weights_in_length wk g : length (make_weights_in wk g) = length g.
Proof. destruct wk; simpl; [rewrite map_length, seq_length|rewrite repeat_length]; reflexivity. Qed.

Lemma node_weights_length kind g ow iw :
  node_weights kind g = MOk (ow, iw) -> length ow = length g /\ length iw = length g.
Proof.
  unfold node_weights. destruct kind.
  - destruct (get_probs_of (make_weights_out Degree g)) as [p|] eqn:E1; [|intros; discriminate].
    destruct (get_probs_of (make_weights_in Degree g)) as [q|] eqn:E2; [|intros; discriminate].
    intros H. assert (ow = p) by congruence. assert (iw = q) by congruence. subst.
    rewrite (get_probs_length _ _ E1), (get_probs_length _ _ E2), make_weights_out_length, make_weights_in_length. auto.
  - destruct (get_probs_of (make_weights_out Degree g)) as [p|] eqn:E1; [|intros; discriminate].
    intros H. assert (ow = p) by congruence. assert (iw = p) by congruence. subst.
    rewrite (get_probs_length _ _ E1), make_weights_out_length. auto.
  - destruct (get_probs_of (make_weights_out Uniform g)) as [p|] eqn:E1; [|intros; discriminate].
    intros H. assert (ow = p) by congruence. assert (iw = p) by congruence. subst.
    rewrite (get_probs_length _ _ E1), make_weights_out_length. auto.
Qed.

(** The adjacency the estimator works on (after get_adjacency and the optional shuffle). *)
Definition working_graph (kind : modkind) (m : wmat) (force_bipartite : bool) (index : option (list nat)) : wgraph :=
  let g0 := fst (get_adjacency m (match kind with Dugue => true | _ => false end) force_bipartite) in
  match index with Some ix => permute_graph g0 ix | None => g0 end.

Lemma pre_processing_inv kind m fb index p :
  pre_processing kind m fb index = MOk p ->
  let g1 := working_graph kind m fb index in
  exists ow iw, node_weights kind g1 = MOk (ow, iw) /\
    p_out p = ow /\ p_in p = iw /\
    p_adj p = scale_graph (symmetrize g1) (data_sum (symmetrize g1)).
Proof.
  unfold pre_processing, working_graph.
  destruct (get_adjacency m (match kind with Dugue => true | _ => false end) fb) as [g0 bip]. cbn [fst].
  set (g1 := match index with Some ix => permute_graph g0 ix | None => g0 end).
  destruct (node_weights kind g1) as [[ow iw]|] eqn:E; [|intros; discriminate].
  intros H. exists ow, iw. split; [reflexivity|].
  assert (Ep : p = {| p_adj := scale_graph (symmetrize g1) (data_sum (symmetrize g1));
                      p_out := ow; p_in := iw; p_bip := bip |}) by congruence.
  subst p. auto.
Qed.

Lemma prep_level kind m fb index p res :
  pre_processing kind m fb index = MOk p ->
  level_inv (p_adj p) (p_out p) (p_in p) res (p_adj p) (p_out p) (p_in p) (seq 0 (length (p_adj p))) /\
  length (p_adj p) = length (working_graph kind m fb index).
Proof.
  intros H. destruct (pre_processing_inv kind m fb index p H) as [ow [iw [Hnw [Ho [Hi Ha]]]]].
  set (g1 := working_graph kind m fb index) in *.
  destruct (node_weights_length kind g1 ow iw Hnw) as [Lo Li].
  assert (Hlen : length (p_adj p) = length g1) by (rewrite Ha, scale_length, symmetrize_length; reflexivity).
  split; [|exact Hlen].
  apply level_init.
  - rewrite Ha. apply scale_wf, symmetrize_wf.
  - rewrite Ha. intros i j Hi' Hj'. rewrite scale_length, symmetrize_length in Hi', Hj'.
    rewrite !scale_entry, !symmetrize_entry by assumption. unfold Qdiv. ring.
  - rewrite Ho, Lo, Hlen. reflexivity.
  - rewrite Hi, Li, Hlen. reflexivity.
Qed.

Lemma total_weight_symmetrize g :
  data_sum (symmetrize g) == 2 * total_weight g.
Proof.
  rewrite (data_sum_spec _ (symmetrize_wf g)). unfold total_weight. rewrite symmetrize_length.
  transitivity (qsum2 (length g) (length g) (fun i j => entry g i j + entry g j i)).
  { apply qsum2_ext. intros i j Hi Hj. apply symmetrize_entry; assumption. }
  rewrite qsum2_plus. unfold qsum2.
  rewrite (qsum_swap (length g) (length g) (fun i j => entry g j i)). ring.
Qed.

(** The objective the kernel optimises is the documented objective of the modularity kind,
    written on the working graph. *)
Lemma prep_objective kind m fb index p res labels :
  pre_processing kind m fb index = MOk p ->
  let g1 := working_graph kind m fb index in
  wf_wgraph g1 ->
  objective (p_adj p) (p_out p) (p_in p) res labels == kind_objective kind g1 res labels.
Proof.
  intros H g1 Hwf. destruct (pre_processing_inv kind m fb index p H) as [ow [iw [Hnw [Ho [Hi Ha]]]]].
  fold g1 in Hnw, Ha.
  unfold objective, kind_objective. rewrite Ha, scale_length, symmetrize_length.
  set (n := length g1). set (w := total_weight g1).
  fold (qsum2 n n (fun i j => (entry (scale_graph (symmetrize g1) (data_sum (symmetrize g1))) i j
                               - res * nthq (p_out p) i * nthq (p_in p) j) * delta labels i j)).
  apply qsum2_ext. intros i j Hi' Hj'. apply Qmult_comp; [|reflexivity].
  rewrite scale_entry, (symmetrize_entry g1 i j Hi' Hj'), total_weight_symmetrize. fold w.
  apply Qplus_comp; [reflexivity|]. apply Qopp_comp. rewrite <- Qmult_assoc. apply Qmult_comp; [reflexivity|].
  rewrite Ho, Hi. unfold node_weights in Hnw. destruct kind.
  - destruct (get_probs_of (make_weights_out Degree g1)) as [pr|] eqn:E1; [|discriminate].
    destruct (get_probs_of (make_weights_in Degree g1)) as [pc|] eqn:E2; [|discriminate].
    assert (Eow : ow = pr) by congruence. assert (Eiw : iw = pc) by congruence. rewrite Eow, Eiw.
    destruct (degree_probs_out g1 pr i Hwf E1 Hi') as [Hw Eo].
    destruct (degree_probs_in g1 pc j E2 Hj') as [_ Ei].
    rewrite Eo, Ei. fold w. fold w in Hw. field. intros E; rewrite E in Hw; lra.
  - destruct (get_probs_of (make_weights_out Degree g1)) as [pr|] eqn:E1; [|discriminate].
    assert (Eow : ow = pr) by congruence. assert (Eiw : iw = pr) by congruence. rewrite Eow, Eiw.
    destruct (degree_probs_out g1 pr i Hwf E1 Hi') as [Hw Eo].
    destruct (degree_probs_out g1 pr j Hwf E1 Hj') as [_ Eo'].
    rewrite Eo, Eo'. fold w. fold w in Hw. field. intros E; rewrite E in Hw; lra.
  - destruct (get_probs_of (make_weights_out Uniform g1)) as [pr|] eqn:E1; [|discriminate].
    assert (Eow : ow = pr) by congruence. assert (Eiw : iw = pr) by congruence. rewrite Eow, Eiw.
    simpl make_weights_out in E1.
    rewrite (uniform_probs g1 pr i E1 Hi'), (uniform_probs g1 pr j E1 Hj'). fold n.
    assert (Hn : ~ inject_Z (Z.of_nat n) == 0).
    { intros E. unfold Qeq in E. simpl in E. lia. }
    field. exact Hn.
Qed.

(** For the (default) Dugue kind this is the directed modularity of get_modularity's docstring. *)
Lemma kind_objective_dugue_spec g res labels :
  ~ total_weight g == 0 ->
  kind_objective Dugue g res labels == spec_modularity g labels res.
Proof.
  intros Hw. unfold kind_objective, spec_modularity. set (n := length g). set (w := total_weight g) in *.
  fold (qsum2 n n (fun i j => ((entry g i j + entry g j i) / (2 * w)
           - res * (spec_out_deg g i * spec_in_deg g j / (w * w))) * delta labels i j)).
  fold (qsum2 n n (fun i j => (entry g i j - res * spec_out_deg g i * spec_in_deg g j / w) * delta labels i j)).
  rewrite <- qsum2_scal.
  transitivity (qsum2 n n (fun i j => (1 / (2 * w)) * (entry g i j * delta labels i j))
                + qsum2 n n (fun i j => (1 / (2 * w)) * (entry g j i * delta labels i j))
                - qsum2 n n (fun i j => res * (spec_out_deg g i * spec_in_deg g j / (w * w)) * delta labels i j)).
  { rewrite <- qsum2_plus, <- qsum2_minus. apply qsum2_ext. intros i j _ _. field. exact Hw. }
  assert (Esw : qsum2 n n (fun i j => (1 / (2 * w)) * (entry g j i * delta labels i j))
                == qsum2 n n (fun i j => (1 / (2 * w)) * (entry g i j * delta labels i j))).
  { unfold qsum2. rewrite qsum_swap. apply qsum_ext. intros i _. apply qsum_ext. intros j _.
    unfold delta. rewrite (Nat.eqb_sym (lab labels j)). reflexivity. }
  rewrite Esw. rewrite <- qsum2_plus, <- qsum2_minus. apply qsum2_ext. intros i j _ _. field. exact Hw.
Qed.

Lemma log_total_nonneg log : log_nonneg log -> 0 <= log_total log.
Proof.
  unfold log_total, log_nonneg. induction log as [|x t IH]; intros H; simpl; [lra|].
  assert (0 <= l_increase x) by (apply H; left; reflexivity).
  assert (0 <= sumq (map l_increase t)) by (apply IH; intros y Hy; apply H; right; exact Hy). lra.
Qed.

(** * Louvain.fit: objective(final partition) - objective(singletons) = sum of the reported increases >= 0,
      and clusters lie inside connected components of the working graph *)
Lemma louvain_fit_core fuel kfuel kind res tol_opt tol_agg n_agg m fb index p r :
  pre_processing kind m fb index = MOk p ->
  louvain_loop fuel kfuel res tol_opt tol_agg n_agg (p_adj p) (p_out p) (p_in p)
               (seq 0 (length (p_adj p))) 0 [] marg0 = MOk r ->
  let obj := objective (p_adj p) (p_out p) (p_in p) res in
  let g1 := working_graph kind m fb index in
  obj (r_membership r) - obj (seq 0 (length (p_adj p))) == log_total (r_log r) /\
  0 <= log_total (r_log r) /\
  log_nonneg (r_log r) /\
  length (r_membership r) = length g1 /\
  (forall u v, (u < length g1)%nat -> (v < length g1)%nat ->
     lab (r_membership r) u = lab (r_membership r) v -> connected g1 u v).
Proof.
  intros Hp Hl obj g1. destruct (prep_level kind m fb index p res Hp) as [Hlv Hlen].
  destruct (louvain_loop_ok (p_adj p) (p_out p) (p_in p) res kfuel tol_opt tol_agg n_agg fuel
              _ _ _ _ _ _ _ r Hlv Hl) as [R1 [R2 [R3 R4]]].
  assert (Hnn : log_nonneg (r_log r)) by (apply R2; intros x []).
  unfold log_total at 2 in R1. simpl in R1.
  split; [unfold obj; lra|]. split; [apply log_total_nonneg; exact Hnn|]. split; [exact Hnn|].
  fold g1 in Hlen. split; [rewrite R3; exact Hlen|].
  intros u v Hu Hv E. rewrite <- Hlen in Hu, Hv.
  specialize (R4 u v Hu Hv E).
  destruct (pre_processing_inv kind m fb index p Hp) as [ow [iw [_ [_ [_ Ha]]]]]. fold g1 in Ha.
  rewrite Ha in R4. exact (prep_connected g1 _ u v R4).
Qed.

(** * Leiden.fit with the refinement as an oracle *)

Lemma index_of_lt x u : In x u -> (index_of x u < length u)%nat.
Proof.
  induction u as [|y t IH]; intros H; [destruct H|]. simpl.
  destruct (Nat.eqb_spec y x) as [E|E]; [lia|]. destruct H as [H|H]; [congruence|].
  specialize (IH H). lia.
Qed.

Lemma nth_index_of x u : In x u -> nth (index_of x u) u 0%nat = x.
Proof.
  induction u as [|y t IH]; intros H; [destruct H|]. simpl.
  destruct (Nat.eqb_spec y x) as [E|E]; [exact E|]. destruct H as [H|H]; [congruence|]. apply IH. exact H.
Qed.

Lemma index_of_nth u c : NoDup u -> (c < length u)%nat -> index_of (nth c u 0%nat) u = c.
Proof.
  revert c; induction u as [|y t IH]; intros c Hnd Hc; [simpl in Hc; lia|].
  inversion Hnd as [|? ? Hnin Hnd']; subst. destruct c as [|c]; simpl.
  - rewrite Nat.eqb_refl. reflexivity.
  - simpl in Hc. destruct (Nat.eqb_spec y (nth c t 0%nat)) as [E|E].
    + exfalso. apply Hnin. rewrite E. apply nth_In. lia.
    + rewrite IH by (auto; lia). reflexivity.
Qed.

Lemma fold_max_In (l : list nat) : l <> [] -> In (fold_right Nat.max 0%nat l) l.
Proof.
  induction l as [|a t IH]; intros H; [congruence|]. simpl.
  destruct t as [|b t'].
  - simpl. left. lia.
  - assert (Ht : In (fold_right Nat.max 0%nat (b :: t')) (b :: t')) by (apply IH; discriminate).
    destruct (Nat.max_spec a (fold_right Nat.max 0%nat (b :: t'))) as [[_ E]|[_ E]]; rewrite E.
    + right. exact Ht.
    + left. reflexivity.
Qed.

Lemma distinct_sorted_NoDup l : NoDup (distinct_sorted l).
Proof.
  unfold distinct_sorted. apply sorted_NoDup. exact (proj1 (distinct_fold l [] (SSorted_nil lt))).
Qed.

(** Every label below n_labels of a [unique_inverse] answer is used. *)
Lemma unique_inverse_onto l C :
  l <> [] -> (C < n_labels (unique_inverse l))%nat ->
  exists x, (x < length l)%nat /\ lab (unique_inverse l) x = C.
Proof.
  intros Hne HC. set (u := distinct_sorted l).
  assert (Hmax : In (fold_right Nat.max 0%nat (unique_inverse l)) (unique_inverse l)).
  { apply fold_max_In. unfold unique_inverse. destruct l; [congruence|discriminate]. }
  unfold unique_inverse in Hmax. fold u in Hmax. apply in_map_iff in Hmax.
  destruct Hmax as [y [Ey Hy]].
  assert (Hyu : In y u) by (apply distinct_sorted_In; exact Hy).
  assert (Hlt : (C < length u)%nat).
  { unfold n_labels in HC. unfold unique_inverse in HC. fold u in HC. rewrite <- Ey in HC.
    pose proof (index_of_lt y u Hyu). lia. }
  assert (Hin : In (nth C u 0%nat) l) by (apply distinct_sorted_In; apply nth_In; exact Hlt).
  apply (In_nth l _ 0%nat) in Hin. destruct Hin as [x [Hx Ex]].
  exists x. split; [exact Hx|]. unfold unique_inverse. rewrite lab_map by exact Hx.
  unfold lab, nthn. rewrite Ex. fold u. apply index_of_nth; [apply distinct_sorted_NoDup|exact Hlt].
Qed.

Lemma lab_In labels x : (x < length labels)%nat -> In (lab labels x) labels.
Proof. intros H. unfold lab, nthn. apply nth_In. exact H. Qed.

Lemma nthn_map_seq (f : nat -> nat) k c : (c < k)%nat -> nthn (map f (seq 0 k)) c = f c.
Proof.
  intros H. unfold nthn. rewrite (nth_indep _ 0%nat (f 0%nat)) by (rewrite map_length, seq_length; exact H).
  rewrite map_nth, seq_nth by exact H. reflexivity.
Qed.

(** Edges of the graph map to edges (or to the same node) of the aggregate. *)
Lemma connected_to_aggregate g labels k :
  wf_wgraph g -> (forall i, (i < length g)%nat -> (lab labels i < k)%nat) ->
  forall a b, connected g a b -> connected (aggregate_graph g labels k) (lab labels a) (lab labels b).
Proof.
  intros Hwf Hlt a b C. induction C as [a|a b He|a b C IH|a b c C1 IH1 C2 IH2].
  - apply conn_refl.
  - destruct He as [w Hin].
    assert (Ha : (a < length g)%nat).
    { destruct (Nat.lt_ge_cases a (length g)) as [H|H]; [exact H|].
      rewrite wrow_of_overflow in Hin by exact H. destruct Hin. }
    assert (Hb : (b < length g)%nat) by exact (Hwf a b w Hin).
    apply conn_edge. exists (qn (agg_entry g labels (lab labels a) (lab labels b))).
    unfold aggregate_graph. rewrite wrow_of_map_seq by (apply Hlt; exact Ha).
    apply in_map_iff. exists (lab labels b). split; [reflexivity|].
    apply filter_In. split; [apply in_seq; specialize (Hlt b Hb); lia|].
    unfold agg_stored. apply existsb_exists. exists a. split; [apply in_seq; lia|].
    rewrite Nat.eqb_refl. simpl. apply existsb_exists. exists (b, w). split; [exact Hin|].
    simpl. apply Nat.eqb_refl.
  - apply conn_sym. exact IH.
  - apply conn_trans with (lab labels b); assumption.
Qed.

Definition refines (n : nat) (fine coarse : list nat) : Prop :=
  forall x y, (x < n)%nat -> (y < n)%nat -> lab fine x = lab fine y -> lab coarse x = lab coarse y.

(** What optimize_refine_core guarantees about its answer: one refined label per node, refined
    clusters are subsets of the coarse clusters, and every refined cluster is connected (a node only
    ever joins the refined cluster of a neighbour inside its own coarse cluster). *)
Definition refine_contract (refine : nat -> wgraph -> list nat -> list nat) : Prop :=
  forall count g labels, wf_wgraph g -> length labels = length g ->
    let rf := refine count g labels in
    length rf = length g /\ refines (length g) rf labels /\ cc_inv g rf.

Section LeidenLevels.
  Context (g0 : wgraph) (ows0 iws0 : list Q) (res : Q).
  Let n0 := length g0.
  Context (refine : nat -> wgraph -> list nat -> list nat) (Hrefine : refine_contract refine).

  Lemma leiden_loop_ok kfuel tol_opt tol_agg n_agg : forall fuel g ows iws labels membership count log mg r,
    level_inv g0 ows0 iws0 res g ows iws membership ->
    length labels = length g -> (0 < length g)%nat -> cc_inv g labels ->
    leiden_loop fuel kfuel res tol_opt tol_agg n_agg refine g ows iws labels membership count log mg = MOk r ->
    log_total (r_log r) - log_total log
      == objective g0 ows0 iws0 res (r_membership r)
         - objective g0 ows0 iws0 res (map (nthn labels) membership) /\
    (log_nonneg log -> log_nonneg (r_log r)) /\
    length (r_membership r) = n0 /\
    (forall u v, (u < n0)%nat -> (v < n0)%nat ->
       lab (r_membership r) u = lab (r_membership r) v -> connected g0 u v).
  Proof.
    induction fuel as [|fuel IH]; intros g ows iws labels membership count log mg r Hlv Hll Hpos Hccl H;
      cbn [leiden_loop] in H; [discriminate|].
    pose proof Hlv as [Hwf Hsym Ho Hi Hml Hmlt Hobj Hconn].
    set (k0 := n_labels labels) in *.
    destruct (optimize kfuel g ows iws res tol_opt labels (cluster_sums k0 labels ows)
                       (cluster_sums k0 labels iws) mg) as [[st inc]|] eqn:Eopt; [|discriminate].
    destruct (optimize_ok kfuel g ows iws res tol_opt labels (cluster_sums k0 labels ows)
                (cluster_sums k0 labels iws) mg st inc Hwf Hsym Hll)
      as [Kl [Klt [Kinc [Kpos Kcc]]]]; auto.
    { rewrite !cluster_sums_length. reflexivity. }
    { intros x Hx. rewrite cluster_sums_length. apply lab_lt_n_labels. lia. }
    { intros c Hc. rewrite cluster_sums_length in Hc. apply (cluster_sums_nth g labels k0 Hll ows c Hc). }
    { intros c Hc. rewrite cluster_sums_length in Hc. apply (cluster_sums_nth g labels k0 Hll iws c Hc). }
    specialize (Kcc Hccl).
    set (lu := unique_inverse (k_labels st)) in *.
    assert (Hlu : length lu = length g) by (unfold lu; rewrite unique_inverse_length; exact Kl).
    assert (Hpat : forall x y, (x < length g)%nat -> (y < length g)%nat ->
               Nat.eqb (lab lu x) (lab lu y) = Nat.eqb (lab (k_labels st) x) (lab (k_labels st) y)).
    { intros x y Hx Hy. apply unique_inverse_pattern; rewrite Kl; assumption. }
    assert (Hcclu : cc_inv g lu) by (apply (cc_inv_pattern g (k_labels st)); assumption).
    destruct (Hrefine (S count) g lu Hwf Hlu) as [Rl [Rref Rcc]].
    set (rf := refine (S count) g lu) in *.
    set (rho := unique_inverse rf) in *.
    assert (Hrho : length rho = length g) by (unfold rho; rewrite unique_inverse_length; exact Rl).
    assert (Hpat2 : forall x y, (x < length g)%nat -> (y < length g)%nat ->
               Nat.eqb (lab rho x) (lab rho y) = Nat.eqb (lab rf x) (lab rf y)).
    { intros x y Hx Hy. apply unique_inverse_pattern; rewrite Rl; assumption. }
    assert (Hccrho : cc_inv g rho) by (apply (cc_inv_pattern g rf); assumption).
    assert (Hrefrho : refines (length g) rho lu).
    { intros x y Hx Hy E. apply Rref; auto. apply Nat.eqb_eq. rewrite <- (Hpat2 x y Hx Hy). apply Nat.eqb_eq. exact E. }
    (* the reported increase on the original graph *)
    set (memu := map (fun c => nthn lu c) membership) in *.
    assert (Hinc : inc == objective g0 ows0 iws0 res memu
                          - objective g0 ows0 iws0 res (map (nthn labels) membership)).
    { rewrite Kinc. rewrite <- (objective_pattern g ows iws res (k_labels st) lu Hpat).
      rewrite (Hobj lu), (Hobj labels). reflexivity. }
    set (k := n_labels rho) in *.
    set (entry_ := {| l_count := S count; l_clusters := k; l_increase := inc |}) in *.
    destruct (Nat.eqb k 1 || Qle_bool inc tol_agg || Z.eqb (Z.of_nat (S count)) n_agg).
    - assert (Er : r = {| r_membership := memu; r_log := log ++ [entry_];
                          r_fit_margin := mmin_tol (k_margin st) inc tol_agg |}) by congruence.
      subst r. cbn [r_membership r_log].
      split; [rewrite log_total_app; cbn [entry_ l_increase]; lra|]. split; [|split].
      + intros Hn x Hx. apply in_app_or in Hx. destruct Hx as [Hx|[<-|[]]]; [apply Hn; exact Hx|exact Kpos].
      + unfold memu. rewrite map_length. exact Hml.
      + intros u v Hu Hv E. unfold memu in E. rewrite !lab_map in E by (rewrite Hml; assumption).
        apply Hconn; [exact Hu|exact Hv|].
        apply Hcclu; [apply Hmlt; exact Hu|apply Hmlt; exact Hv|exact E].
    - pose proof (level_step g0 ows0 iws0 res g ows iws membership rho Hlv Hrho Hccrho) as Hnext.
      cbv zeta in Hnext. fold k in Hnext.
      assert (Hklt : forall i, (i < length g)%nat -> (lab rho i < k)%nat).
      { intros i Hi'. apply lab_lt_n_labels. lia. }
      assert (Hrf_ne : rf <> []) by (intros E; rewrite E in Rl; simpl in Rl; lia).
      (* every refined cluster C < k has a first member p with rho p = C *)
      assert (Hfirst : forall C, (C < k)%nat ->
                 (index_of C rho < length g)%nat /\ lab rho (index_of C rho) = C).
      { intros C HC. destruct (unique_inverse_onto rf C Hrf_ne HC) as [x [Hx Ex]]. fold rho in Ex.
        assert (Hin : In C rho) by (rewrite <- Ex; apply lab_In; rewrite Hrho, <- Rl; exact Hx).
        split; [rewrite <- Hrho; apply index_of_lt; exact Hin|apply nth_index_of; exact Hin]. }
      set (labels' := coarse_of_refined lu rho k) in *.
      assert (Hlab' : forall C, (C < k)%nat -> lab labels' C = lab lu (index_of C rho)).
      { intros C HC. exact (nthn_map_seq (fun c => nthn lu (index_of c rho)) k C HC). }
      assert (Hcc' : cc_inv (aggregate_graph g rho k) labels').
      { intros a b Ha Hb E. rewrite agg_length in Ha, Hb. rewrite (Hlab' a Ha), (Hlab' b Hb) in E.
        destruct (Hfirst a Ha) as [Pa Ea]. destruct (Hfirst b Hb) as [Pb Eb].
        assert (G : connected (aggregate_graph g rho k) (lab rho (index_of a rho)) (lab rho (index_of b rho))).
        { apply connected_to_aggregate; [exact Hwf|exact Hklt|]. apply Hcclu; assumption. }
        rewrite Ea, Eb in G. exact G. }
      assert (Hl' : length labels' = length (aggregate_graph g rho k)).
      { unfold labels', coarse_of_refined. rewrite map_length, seq_length, agg_length. reflexivity. }
      assert (Hp' : (0 < length (aggregate_graph g rho k))%nat).
      { rewrite agg_length. unfold k, n_labels. lia. }
      destruct (IH _ _ _ labels' _ _ _ _ r Hnext Hl' Hp' Hcc' H) as [R1 [R2 [R3 R4]]].
      assert (Eobj : objective g0 ows0 iws0 res (map (nthn labels') (map (nthn rho) membership))
                     == objective g0 ows0 iws0 res memu).
      { unfold memu. apply objective_ext. intros x Hx. fold n0 in Hx.
        rewrite (lab_map (nthn labels')) by (rewrite map_length, Hml; exact Hx).
        rewrite (lab_map (nthn rho)) by (rewrite Hml; exact Hx).
        rewrite (lab_map (fun c => nthn lu c)) by (rewrite Hml; exact Hx).
        set (y := lab membership x). assert (Hy : (y < length g)%nat) by (apply Hmlt; exact Hx).
        change (nthn labels' (nthn rho y)) with (lab labels' (lab rho y)).
        rewrite (Hlab' (lab rho y) (Hklt y Hy)).
        destruct (Hfirst (lab rho y) (Hklt y Hy)) as [Pp Ep].
        apply Hrefrho; auto. }
      rewrite log_total_app in R1; cbn [entry_ l_increase] in R1.
      split; [lra|].
      split; [|split; [exact R3|exact R4]].
      intros Hn. apply R2. intros x Hx. apply in_app_or in Hx.
      destruct Hx as [Hx|[<-|[]]]; [apply Hn; exact Hx|exact Kpos].
  Qed.
End LeidenLevels.

Lemma get_probs_nonempty ws ps : get_probs_of ws = MOk ps -> (0 < length ws)%nat.
Proof.
  intros H. apply get_probs_of_ok in H. destruct H as [Hpos _].
  destruct ws; [simpl in Hpos; lra|simpl; lia].
Qed.

Lemma node_weights_pos kind g ow iw : node_weights kind g = MOk (ow, iw) -> (0 < length g)%nat.
Proof.
  unfold node_weights. destruct kind.
  - destruct (get_probs_of (make_weights_out Degree g)) as [p|] eqn:E1; [|intros; discriminate].
    intros _. apply get_probs_nonempty in E1. rewrite make_weights_out_length in E1. exact E1.
  - destruct (get_probs_of (make_weights_out Degree g)) as [p|] eqn:E1; [|intros; discriminate].
    intros _. apply get_probs_nonempty in E1. rewrite make_weights_out_length in E1. exact E1.
  - destruct (get_probs_of (make_weights_out Uniform g)) as [p|] eqn:E1; [|intros; discriminate].
    intros _. apply get_probs_nonempty in E1. rewrite make_weights_out_length in E1. exact E1.
Qed.

(** Leiden.fit, for ANY refinement oracle meeting the contract. *)
Lemma leiden_fit_core refine fuel kfuel kind res tol_opt tol_agg n_agg m fb index p r :
  refine_contract refine ->
  pre_processing kind m fb index = MOk p ->
  leiden_loop fuel kfuel res tol_opt tol_agg n_agg refine (p_adj p) (p_out p) (p_in p)
              (seq 0 (length (p_adj p))) (seq 0 (length (p_adj p))) 0 [] marg0 = MOk r ->
  let obj := objective (p_adj p) (p_out p) (p_in p) res in
  let g1 := working_graph kind m fb index in
  obj (r_membership r) - obj (seq 0 (length (p_adj p))) == log_total (r_log r) /\
  0 <= log_total (r_log r) /\
  log_nonneg (r_log r) /\
  length (r_membership r) = length g1 /\
  (forall u v, (u < length g1)%nat -> (v < length g1)%nat ->
     lab (r_membership r) u = lab (r_membership r) v -> connected g1 u v).
Proof.
  intros Hc Hp Hl obj g1. destruct (prep_level kind m fb index p res Hp) as [Hlv Hlen].
  destruct (pre_processing_inv kind m fb index p Hp) as [ow [iw [Hnw [_ [_ Ha]]]]]. fold g1 in Ha, Hnw, Hlen.
  assert (Hpos : (0 < length (p_adj p))%nat) by (rewrite Hlen; exact (node_weights_pos kind g1 ow iw Hnw)).
  destruct (leiden_loop_ok (p_adj p) (p_out p) (p_in p) res refine Hc kfuel tol_opt tol_agg n_agg fuel
              _ _ _ _ _ _ _ _ r Hlv (seq_length _ _) Hpos (cc_inv_singletons (p_adj p)) Hl) as [R1 [R2 [R3 R4]]].
  assert (Hnn : log_nonneg (r_log r)) by (apply R2; intros x []).
  unfold log_total at 2 in R1. simpl in R1.
  assert (E0 : objective (p_adj p) (p_out p) (p_in p) res
                 (map (nthn (seq 0 (length (p_adj p)))) (seq 0 (length (p_adj p))))
               == objective (p_adj p) (p_out p) (p_in p) res (seq 0 (length (p_adj p)))).
  { apply objective_ext. intros x Hx. rewrite lab_map by (rewrite seq_length; exact Hx).
    rewrite (lab_seq _ x Hx). change (nthn (seq 0 (length (p_adj p))) x) with (lab (seq 0 (length (p_adj p))) x).
    rewrite (lab_seq _ x Hx). reflexivity. }
  split; [unfold obj; lra|]. split; [apply log_total_nonneg; exact Hnn|]. split; [exact Hnn|].
  split; [rewrite R3; exact Hlen|].
  intros u v Hu Hv E. rewrite <- Hlen in Hu, Hv.
  specialize (R4 u v Hu Hv E). rewrite Ha in R4. exact (prep_connected g1 _ u v R4).
Qed.

(** * _post_processing (no shuffle): the returned labels_ describe the same partition *)

Lemma insert_by_In size c l x : In x (insert_by size c l) <-> x = c \/ In x l.
Proof.
  induction l as [|d t IH]; simpl.
  - intuition congruence.
  - destruct (Nat.ltb (size d) (size c)); simpl; [intuition congruence|]. rewrite IH. intuition congruence.
Qed.

Lemma argsort_fold_In size l0 : forall acc x,
  In x (fold_left (fun acc c => insert_by size c acc) l0 acc) <-> In x acc \/ In x l0.
Proof.
  induction l0 as [|c t IH]; intros acc x; cbn [fold_left].
  - simpl. tauto.
  - rewrite IH, insert_by_In. simpl. intuition congruence.
Qed.

Lemma argsort_desc_In sizes x : In x (argsort_desc sizes) <-> (x < length sizes)%nat.
Proof.
  unfold argsort_desc. rewrite argsort_fold_In, in_seq. simpl. intuition lia.
Qed.

Lemma post_processing_pattern mem sort x y :
  (x < length mem)%nat -> (y < length mem)%nat ->
  let labels := post_processing mem sort
                  (argsort_desc (cluster_sizes (unique_inverse mem) (n_clusters mem))) None in
  length labels = length mem /\
  Nat.eqb (lab labels x) (lab labels y) = Nat.eqb (lab mem x) (lab mem y).
Proof.
  intros Hx Hy. unfold post_processing. destruct sort; [|split; reflexivity].
  unfold reindex_labels. set (order := argsort_desc _). set (u := unique_inverse mem).
  split; [rewrite map_length; apply unique_inverse_length|].
  assert (Hu : length u = length mem) by apply unique_inverse_length.
  rewrite !lab_map by (rewrite Hu; assumption).
  rewrite <- (unique_inverse_pattern mem x y Hx Hy). fold u.
  assert (Hin : In (lab u x) order).
  { unfold order. apply argsort_desc_In. unfold cluster_sizes. rewrite map_length, seq_length.
    unfold u, unique_inverse. rewrite lab_map by exact Hx. unfold n_clusters.
    apply index_of_lt. apply distinct_sorted_In. apply lab_In. exact Hx. }
  destruct (Nat.eqb_spec (lab u x) (lab u y)) as [E|E].
  - rewrite E. apply Nat.eqb_refl.
  - apply Nat.eqb_neq. intros E'. apply E. exact (index_of_inj _ _ order Hin E').
Qed.

Lemma post_processing_length mem sort order : length (post_processing mem sort order None) = length mem.
Proof.
  unfold post_processing. destruct sort; [|reflexivity].
  unfold reindex_labels. rewrite map_length. apply unique_inverse_length.
Qed.

(** Louvain.fit / Leiden.fit without shuffling, stated on the returned labels_ and on the documented
    objective of the modularity kind on the working graph. *)
Lemma fit_labels_core kind m fb res p (r : fit_result) sort log_tot :
  pre_processing kind m fb None = MOk p ->
  let g1 := working_graph kind m fb None in
  wf_wgraph g1 ->
  let obj := objective (p_adj p) (p_out p) (p_in p) res in
  obj (r_membership r) - obj (seq 0 (length (p_adj p))) == log_tot ->
  length (r_membership r) = length g1 ->
  (forall u v, (u < length g1)%nat -> (v < length g1)%nat ->
     lab (r_membership r) u = lab (r_membership r) v -> connected g1 u v) ->
  let labels := post_processing (r_membership r) sort
                  (argsort_desc (cluster_sizes (unique_inverse (r_membership r)) (n_clusters (r_membership r)))) None in
  kind_objective kind g1 res labels - kind_objective kind g1 res (seq 0 (length g1)) == log_tot /\
  length labels = length g1 /\
  (forall u v, (u < length g1)%nat -> (v < length g1)%nat -> lab labels u = lab labels v -> connected g1 u v).
Proof.
  intros Hp g1 Hwf obj Hobj Hlen Hconn labels.
  destruct (prep_level kind m fb None p res Hp) as [_ Hlg]. fold g1 in Hlg.
  assert (Hpat : forall x y, (x < length g1)%nat -> (y < length g1)%nat ->
            Nat.eqb (lab labels x) (lab labels y) = Nat.eqb (lab (r_membership r) x) (lab (r_membership r) y)).
  { intros x y Hx Hy. rewrite <- Hlen in Hx, Hy.
    exact (proj2 (post_processing_pattern (r_membership r) sort x y Hx Hy)). }
  split; [|split].
  - pose proof (prep_objective kind m fb None p res labels Hp Hwf) as P1.
    pose proof (prep_objective kind m fb None p res (seq 0 (length g1)) Hp Hwf) as P2.
    cbv zeta in P1, P2. fold g1 in P1, P2.
    assert (P3 : objective (p_adj p) (p_out p) (p_in p) res labels
                 == objective (p_adj p) (p_out p) (p_in p) res (r_membership r)).
    { apply objective_pattern. rewrite Hlg. exact Hpat. }
    unfold obj in Hobj. rewrite Hlg in Hobj. lra.
  - unfold labels. rewrite post_processing_length. exact Hlen.
  - intros u v Hu Hv E. apply Hconn; auto. apply Nat.eqb_eq. rewrite <- (Hpat u v Hu Hv). apply Nat.eqb_eq. exact E.
Qed.

Lemma louvain_fit_labels fuel kfuel kind res tol_opt tol_agg n_agg sort m fb labels log mg :
  louvain_fit fuel kfuel kind res tol_opt tol_agg n_agg sort m fb None = MOk (labels, log, mg) ->
  let g1 := working_graph kind m fb None in
  wf_wgraph g1 ->
  kind_objective kind g1 res labels - kind_objective kind g1 res (seq 0 (length g1)) == log_total log /\
  0 <= log_total log /\ log_nonneg log /\
  length labels = length g1 /\
  (forall u v, (u < length g1)%nat -> (v < length g1)%nat -> lab labels u = lab labels v -> connected g1 u v).
Proof.
  unfold louvain_fit. destruct (Nat.eqb (nnz (w_rows m)) 0); [intros; discriminate|].
  destruct (pre_processing kind m fb None) as [p|] eqn:Hp; [|intros; discriminate].
  destruct (louvain_loop fuel kfuel res tol_opt tol_agg n_agg (p_adj p) (p_out p) (p_in p)
              (seq 0 (length (p_adj p))) 0 [] marg0) as [r|] eqn:Hl; [|intros; discriminate].
  intros H Hwf. set (g1 := working_graph kind m fb None) in *.
  destruct (louvain_fit_core fuel kfuel kind res tol_opt tol_agg n_agg m fb None p r Hp Hl) as [C1 [C2 [C3 [C4 C5]]]].
  destruct (fit_labels_core kind m fb res p r sort (log_total (r_log r)) Hp Hwf C1 C4 C5) as [F1 [F2 F3]].
  assert (E1 : labels = post_processing (r_membership r) sort
                 (argsort_desc (cluster_sizes (unique_inverse (r_membership r)) (n_clusters (r_membership r)))) None)
    by congruence.
  assert (E2 : log = r_log r) by congruence.
  subst labels log. auto.
Qed.

Lemma leiden_fit_labels refine fuel kfuel kind res tol_opt tol_agg n_agg sort m fb labels log mg :
  refine_contract refine ->
  leiden_fit fuel kfuel kind res tol_opt tol_agg n_agg sort refine m fb None = MOk (labels, log, mg) ->
  let g1 := working_graph kind m fb None in
  wf_wgraph g1 ->
  kind_objective kind g1 res labels - kind_objective kind g1 res (seq 0 (length g1)) == log_total log /\
  0 <= log_total log /\ log_nonneg log /\
  length labels = length g1 /\
  (forall u v, (u < length g1)%nat -> (v < length g1)%nat -> lab labels u = lab labels v -> connected g1 u v).
Proof.
  intros Hc. unfold leiden_fit. destruct (Nat.eqb (nnz (w_rows m)) 0); [intros; discriminate|].
  destruct (pre_processing kind m fb None) as [p|] eqn:Hp; [|intros; discriminate].
  destruct (leiden_loop fuel kfuel res tol_opt tol_agg n_agg refine (p_adj p) (p_out p) (p_in p)
              (seq 0 (length (p_adj p))) (seq 0 (length (p_adj p))) 0 [] marg0) as [r|] eqn:Hl; [|intros; discriminate].
  intros H Hwf. set (g1 := working_graph kind m fb None) in *.
  destruct (leiden_fit_core refine fuel kfuel kind res tol_opt tol_agg n_agg m fb None p r Hc Hp Hl) as [C1 [C2 [C3 [C4 C5]]]].
  destruct (fit_labels_core kind m fb res p r sort (log_total (r_log r)) Hp Hwf C1 C4 C5) as [F1 [F2 F3]].
  assert (E1 : labels = post_processing (r_membership r) sort
                 (argsort_desc (cluster_sizes (unique_inverse (r_membership r)) (n_clusters (r_membership r)))) None)
    by congruence.
  assert (E2 : log = r_log r) by congruence.
  subst labels log. auto.
Qed.

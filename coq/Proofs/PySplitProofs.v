(** split_dendrogram of sknetwork/hierarchy/postprocess.py at source level: the statements regenerated on every run (Gen/PySplit.v)
    leave in dendrogram_row / dendrogram_col exactly the rows of Model/Hierarchy.v:split_dendrogram, for every dendrogram and shape
    (the code treats the two sides in ONE loop, the model in two: the link is a product simulation). *)
From SKN Require Import Base.Util Model.Dendrogram Model.Cuts Model.Hierarchy Model.PyImp Gen.PySplit
     Proofs.PyCutsProofs Proofs.PyImpFrame.
From SKN Require Proofs.SplitProofs.
From Coq Require Import String Qround.
Local Open Scope nat_scope.
Local Open Scope string_scope.

Lemma as_key_fnat k : as_key (fnat k) = Some (Some (Z.of_nat k)).
Proof.
  unfold fnat, as_key. rewrite qtrunc_inject_Z.
  replace (Qeq_bool (inject_Z (Z.of_nat k)) (inject_Z (Z.of_nat k))) with true; [reflexivity|].
  symmetry. apply Qeq_bool_iff. reflexivity.
Qed.

Lemma alookup_snoc_fresh {A} (l : list (nat * A)) k v : alookup k l = None -> alookup k (l ++ [(k, v)]) = Some v.
Proof.
  induction l as [|[k' v'] t IH]; simpl; intros H; [rewrite Nat.eqb_refl; reflexivity|].
  destruct (Nat.eqb k k'); [discriminate | apply IH; exact H].
Qed.

Definition sim_side (idv sizev newv outv : string) (st : sstate) (e : env) : Prop :=
  e idv = Some (embN (s_id st)) /\ e sizev = Some (embN (s_size st)) /\ e newv = Some (vnat (s_new st)) /\
  e outv = Some (VList (map embNewRow (s_rows st))).

Definition side_stmt (k : nat) : stmt :=
  match loop_body src_split_dendrogram with
  | SSeq _ (SSeq _ (SSeq a b)) => if Nat.eqb k 0 then a else b
  | _ => SSkip
  end.

Ltac evs := repeat (progress (cbn [exec eval upd String.eqb Ascii.eqb Bool.eqb vnat embN index_vals option_map negb as_key]) || look
                   || rewrite as_key_fnat || rewrite dget_emb || rewrite dremove_emb
                   || rewrite add_nat' || (erewrite index_embD' by eassumption) || rewrite index_row2 || (progress (unfold vnat))).

Lemma dset_vnat_fresh' k v (st : list (nat * nat)) :
  alookup k st = None -> dset (Z.of_nat k) (VInt (Z.of_nat v)) (embA (fun k0 : nat => VInt (Z.of_nat k0)) st) =
                         embA (fun k0 : nat => VInt (Z.of_nat k0)) (st ++ [(k, v)]).
Proof. apply (dset_emb_fresh (fun k0 : nat => VInt (Z.of_nat k0))). Qed.

Lemma row_step n1 n2 D t r st (e : env) :
  nth_error D t = Some r -> e "dendrogram" = Some (embD D) -> e "t" = Some (vnat t) ->
  e "n1" = Some (vnat n1) -> e "n2" = Some (vnat n2) ->
  e "i" = Some (fnat (r_left r)) -> e "j" = Some (fnat (r_right r)) ->
  sim_side "id_row" "size_row" "id_row_new" "dendrogram_row" st e ->
  keys_lt (n1 + n2 + t) (s_id st) -> keys_lt (n1 + n2 + t) (s_size st) ->
  match split_step (n1 + n2 + t) r st with
  | Ok st' => exists e', exec (side_stmt 0) e = POk e' /\ sim_side "id_row" "size_row" "id_row_new" "dendrogram_row" st' e'
  | Err _ => exists er, exec (side_stmt 0) e = PErr er
  end.
Proof.
  intros Hr Hd Ht Hn1 Hn2 Hi Hj (Sid & Ssz & Snew & Sout) Hk1 Hk2.
  let b := eval vm_compute in (side_stmt 0) in change (side_stmt 0) with b.
  unfold split_step; destruct st as [sid ssz snew srows]; cbn [s_id s_size s_new s_rows] in *.
  unfold amem. evs.
  destruct (alookup (r_left r) sid) as [a|] eqn:Ea; evs.
  - destruct (alookup (r_right r) sid) as [b|] eqn:Eb; evs.
    + destruct (alookup (r_left r) ssz) as [si|] eqn:Esi; evs; [|eexists; reflexivity].
      destruct (alookup (r_right r) (aremove (r_left r) ssz)) as [sj|] eqn:Esj; evs; [|eexists; reflexivity].
      cbn [andb].
      repeat (rewrite dset_vnat_fresh' by (apply keys_lt_fresh; repeat apply keys_lt_aremove; assumption); evs).
      destruct (alookup (r_left r) (sid ++ [(n1 + n2 + t, snew)])) as [a0|] eqn:Ea0; evs; [|eexists; reflexivity].
      destruct (alookup (r_right r) (aremove (r_left r) (sid ++ [(n1 + n2 + t, snew)]))) as [b0|] eqn:Eb0; evs; [|eexists; reflexivity].
      rewrite alookup_snoc_fresh by (apply keys_lt_fresh; repeat apply keys_lt_aremove; assumption). evs.
      change 1%Z with (Z.of_nat 1). evs. rewrite Nat.add_1_r.
      eexists. split; [reflexivity|]. unfold sim_side. cbn [s_id s_size s_new s_rows upd String.eqb Ascii.eqb Bool.eqb].
      repeat split; try reflexivity. rewrite map_app. reflexivity.
    + cbn [andb]. rewrite ?Ea, ?Eb. evs.
      destruct (alookup (r_left r) ssz) as [si|] eqn:Esi; evs; [|eexists; reflexivity].
      repeat (rewrite dset_vnat_fresh' by (apply keys_lt_fresh; repeat apply keys_lt_aremove; assumption); evs).
      eexists. split; [reflexivity|]. unfold sim_side. cbn [s_id s_size s_new s_rows upd String.eqb Ascii.eqb Bool.eqb].
      repeat split; try reflexivity; assumption.
  - cbn [andb]. rewrite ?Ea. evs. destruct (alookup (r_right r) sid) as [b|] eqn:Eb; evs.
    + rewrite ?Ea, ?Eb. evs. destruct (alookup (r_right r) ssz) as [sj|] eqn:Esj; evs; [|eexists; reflexivity].
      repeat (rewrite dset_vnat_fresh' by (apply keys_lt_fresh; repeat apply keys_lt_aremove; assumption); evs).
      eexists. split; [reflexivity|]. unfold sim_side. cbn [s_id s_size s_new s_rows upd String.eqb Ascii.eqb Bool.eqb].
      repeat split; try reflexivity; assumption.
    + eexists. split; [reflexivity|]. unfold sim_side. cbn [s_id s_size s_new s_rows]. repeat split; assumption.
Qed.

Lemma col_step n1 n2 D t r st (e : env) :
  nth_error D t = Some r -> e "dendrogram" = Some (embD D) -> e "t" = Some (vnat t) ->
  e "n1" = Some (vnat n1) -> e "n2" = Some (vnat n2) ->
  e "i" = Some (fnat (r_left r)) -> e "j" = Some (fnat (r_right r)) ->
  sim_side "id_col" "size_col" "id_col_new" "dendrogram_col" st e ->
  keys_lt (n1 + n2 + t) (s_id st) -> keys_lt (n1 + n2 + t) (s_size st) ->
  match split_step (n1 + n2 + t) r st with
  | Ok st' => exists e', exec (side_stmt 1) e = POk e' /\ sim_side "id_col" "size_col" "id_col_new" "dendrogram_col" st' e'
  | Err _ => exists er, exec (side_stmt 1) e = PErr er
  end.
Proof.
  intros Hr Hd Ht Hn1 Hn2 Hi Hj (Sid & Ssz & Snew & Sout) Hk1 Hk2.
  let b := eval vm_compute in (side_stmt 1) in change (side_stmt 1) with b.
  unfold split_step; destruct st as [sid ssz snew srows]; cbn [s_id s_size s_new s_rows] in *.
  unfold amem. evs.
  destruct (alookup (r_left r) sid) as [a|] eqn:Ea; evs.
  - destruct (alookup (r_right r) sid) as [b|] eqn:Eb; evs.
    + destruct (alookup (r_left r) ssz) as [si|] eqn:Esi; evs; [|eexists; reflexivity].
      destruct (alookup (r_right r) (aremove (r_left r) ssz)) as [sj|] eqn:Esj; evs; [|eexists; reflexivity].
      cbn [andb].
      repeat (rewrite dset_vnat_fresh' by (apply keys_lt_fresh; repeat apply keys_lt_aremove; assumption); evs).
      destruct (alookup (r_left r) (sid ++ [(n1 + n2 + t, snew)])) as [a0|] eqn:Ea0; evs; [|eexists; reflexivity].
      destruct (alookup (r_right r) (aremove (r_left r) (sid ++ [(n1 + n2 + t, snew)]))) as [b0|] eqn:Eb0; evs; [|eexists; reflexivity].
      rewrite alookup_snoc_fresh by (apply keys_lt_fresh; repeat apply keys_lt_aremove; assumption). evs.
      change 1%Z with (Z.of_nat 1). evs. rewrite Nat.add_1_r.
      eexists. split; [reflexivity|]. unfold sim_side. cbn [s_id s_size s_new s_rows upd String.eqb Ascii.eqb Bool.eqb].
      repeat split; try reflexivity. rewrite map_app. reflexivity.
    + cbn [andb]. rewrite ?Ea, ?Eb. evs.
      destruct (alookup (r_left r) ssz) as [si|] eqn:Esi; evs; [|eexists; reflexivity].
      repeat (rewrite dset_vnat_fresh' by (apply keys_lt_fresh; repeat apply keys_lt_aremove; assumption); evs).
      eexists. split; [reflexivity|]. unfold sim_side. cbn [s_id s_size s_new s_rows upd String.eqb Ascii.eqb Bool.eqb].
      repeat split; try reflexivity; assumption.
  - cbn [andb]. rewrite ?Ea. evs. destruct (alookup (r_right r) sid) as [b|] eqn:Eb; evs.
    + rewrite ?Ea, ?Eb. evs. destruct (alookup (r_right r) ssz) as [sj|] eqn:Esj; evs; [|eexists; reflexivity].
      repeat (rewrite dset_vnat_fresh' by (apply keys_lt_fresh; repeat apply keys_lt_aremove; assumption); evs).
      eexists. split; [reflexivity|]. unfold sim_side. cbn [s_id s_size s_new s_rows upd String.eqb Ascii.eqb Bool.eqb].
      repeat split; try reflexivity; assumption.
    + eexists. split; [reflexivity|]. unfold sim_side. cbn [s_id s_size s_new s_rows]. repeat split; assumption.
Qed.

Lemma split_step_keys key r st st' :
  keys_lt key (s_id st) -> keys_lt key (s_size st) -> split_step key r st = Ok st' ->
  keys_lt (S key) (s_id st') /\ keys_lt (S key) (s_size st').
Proof.
  intros K1 K2. unfold split_step.
  assert (W : forall {A} (l : list (nat * A)), keys_lt key l -> keys_lt (S key) l)
    by (intros A l H; eapply keys_lt_weaken; [exact H | lia]).
  assert (Ap : forall {A} (l : list (nat * A)) v, keys_lt key l -> keys_lt (S key) (l ++ [(key, v)]))
    by (intros A l v H; apply keys_lt_app; [exact H | lia]).
  destruct (amem (r_left r) (s_id st) && amem (r_right r) (s_id st)).
  - destruct (alookup (r_left r) (s_size st)); [|discriminate].
    destruct (alookup (r_right r) (aremove (r_left r) (s_size st))); [|discriminate].
    destruct (alookup (r_left r) (s_id st ++ [(key, s_new st)])); [|discriminate].
    destruct (alookup (r_right r) (aremove (r_left r) (s_id st ++ [(key, s_new st)]))); [|discriminate].
    intros H; inversion H; subst; cbn [s_id s_size]. split.
    + intros k Hk. apply akeys_aremove_incl, akeys_aremove_incl in Hk. exact (Ap _ _ _ K1 k Hk).
    + apply Ap. do 2 apply keys_lt_aremove. exact K2.
  - destruct (amem (r_left r) (s_id st)).
    + destruct (alookup (r_left r) (s_size st)); [|discriminate]. destruct (alookup (r_left r) (s_id st)); [|discriminate].
      intros H; inversion H; subst; cbn [s_id s_size]. split; apply Ap; apply keys_lt_aremove; assumption.
    + destruct (amem (r_right r) (s_id st)).
      * destruct (alookup (r_right r) (s_size st)); [|discriminate]. destruct (alookup (r_right r) (s_id st)); [|discriminate].
        intros H; inversion H; subst; cbn [s_id s_size]. split; apply Ap; apply keys_lt_aremove; assumption.
      * intros H; inversion H; subst. split; apply W; assumption.
Qed.

Definition INV (n1 n2 : nat) (D : dendrogram) (rs cs : sstate) (e : env) : Prop :=
  e "dendrogram" = Some (embD D) /\ e "n1" = Some (vnat n1) /\ e "n2" = Some (vnat n2) /\
  sim_side "id_row" "size_row" "id_row_new" "dendrogram_row" rs e /\
  sim_side "id_col" "size_col" "id_col_new" "dendrogram_col" cs e.

Definition split_f : Z -> env -> pres env := fun z e' => exec (loop_body src_split_dendrogram) (upd "t" (VInt z) e').

Lemma body_shape : exists si sj, loop_body src_split_dendrogram = SSeq si (SSeq sj (SSeq (side_stmt 0) (side_stmt 1))) /\
  si = SAssign "i" (EIndex (EIndex (EVar "dendrogram") (EVar "t")) (EInt 0)) /\
  sj = SAssign "j" (EIndex (EIndex (EVar "dendrogram") (EVar "t")) (EInt 1)).
Proof. eexists. eexists. split; [vm_compute; reflexivity|]. split; reflexivity. Qed.

Lemma split_iter n1 n2 D t r rs cs (e : env) :
  nth_error D t = Some r -> INV n1 n2 D rs cs e ->
  keys_lt (n1 + n2 + t) (s_id rs) -> keys_lt (n1 + n2 + t) (s_size rs) ->
  keys_lt (n1 + n2 + t) (s_id cs) -> keys_lt (n1 + n2 + t) (s_size cs) ->
  match split_step (n1 + n2 + t) r rs, split_step (n1 + n2 + t) r cs with
  | Ok rs', Ok cs' => exists e', split_f (Z.of_nat t) e = POk e' /\ INV n1 n2 D rs' cs' e'
  | _, _ => exists er, split_f (Z.of_nat t) e = PErr er
  end.
Proof.
  intros Hr (Hd & Hn1 & Hn2 & SR & SC) K1 K2 K3 K4. unfold split_f.
  destruct body_shape as (si & sj & -> & -> & ->).
  set (e0 := upd "t" (VInt (Z.of_nat t)) e).
  assert (E1 : exec (SAssign "i" (EIndex (EIndex (EVar "dendrogram") (EVar "t")) (EInt 0))) e0 = POk (upd "i" (fnat (r_left r)) e0)).
  { unfold e0. evs. rewrite index_row0. reflexivity. }
  set (e1 := upd "i" (fnat (r_left r)) e0).
  assert (E2 : exec (SAssign "j" (EIndex (EIndex (EVar "dendrogram") (EVar "t")) (EInt 1))) e1 = POk (upd "j" (fnat (r_right r)) e1)).
  { unfold e1, e0. evs. rewrite index_row1. reflexivity. }
  set (e2 := upd "j" (fnat (r_right r)) e1).
  rewrite (exec_seq_ok _ _ _ _ E1), (exec_seq_ok _ _ _ _ E2).
  assert (F : forall x, x <> "t" -> x <> "i" -> x <> "j" -> e2 x = e x).
  { intros x X1 X2 X3. unfold e2, e1, e0. rewrite !upd_other by (intros E; congruence). reflexivity. }
  assert (SR2 : sim_side "id_row" "size_row" "id_row_new" "dendrogram_row" rs e2).
  { destruct SR as (A & B & C & G). unfold sim_side. rewrite !F by discriminate. repeat split; assumption. }
  pose proof (row_step n1 n2 D t r rs e2 Hr) as RS.
  specialize (RS ltac:(rewrite F by discriminate; exact Hd) ltac:(reflexivity) ltac:(rewrite F by discriminate; exact Hn1)
                 ltac:(rewrite F by discriminate; exact Hn2) ltac:(reflexivity) ltac:(reflexivity) SR2 K1 K2).
  destruct (split_step (n1 + n2 + t) r rs) as [rs'|er].
  2:{ destruct RS as [er' RS]. exists er'. rewrite (exec_seq_err _ _ _ _ RS). reflexivity. }
  destruct RS as (e3 & E3 & SR3). rewrite (exec_seq_ok _ _ _ _ E3).
  assert (F3 : forall x, ~ In x (assigned (side_stmt 0)) -> e3 x = e2 x) by (intros x Hx; apply (exec_frame _ _ _ E3); exact Hx).
  assert (NI : forall x, In x ["dendrogram"; "t"; "n1"; "n2"; "i"; "j"; "id_col"; "size_col"; "id_col_new"; "dendrogram_col"] ->
               ~ In x (assigned (side_stmt 0))).
  { intros x Hx. vm_compute. cbn [In] in Hx. intuition (subst; discriminate). }
  assert (SC3 : sim_side "id_col" "size_col" "id_col_new" "dendrogram_col" cs e3).
  { destruct SC as (A & B & C & G). unfold sim_side.
    rewrite !F3 by (apply NI; cbn [In]; tauto). rewrite !F by discriminate. repeat split; assumption. }
  pose proof (col_step n1 n2 D t r cs e3 Hr) as CS.
  specialize (CS ltac:(rewrite F3 by (apply NI; cbn [In]; tauto); rewrite F by discriminate; exact Hd)
                 ltac:(rewrite F3 by (apply NI; cbn [In]; tauto); reflexivity)
                 ltac:(rewrite F3 by (apply NI; cbn [In]; tauto); rewrite F by discriminate; exact Hn1)
                 ltac:(rewrite F3 by (apply NI; cbn [In]; tauto); rewrite F by discriminate; exact Hn2)
                 ltac:(rewrite F3 by (apply NI; cbn [In]; tauto); reflexivity)
                 ltac:(rewrite F3 by (apply NI; cbn [In]; tauto); reflexivity) SC3 K3 K4).
  destruct (split_step (n1 + n2 + t) r cs) as [cs'|er].
  2:{ destruct CS as [er' CS]. exists er'. exact CS. }
  destruct CS as (e4 & E4 & SC4). exists e4. split; [exact E4|].
  assert (F4 : forall x, ~ In x (assigned (side_stmt 1)) -> e4 x = e3 x) by (intros x Hx; apply (exec_frame _ _ _ E4); exact Hx).
  assert (NI4 : forall x, In x ["dendrogram"; "n1"; "n2"; "id_row"; "size_row"; "id_row_new"; "dendrogram_row"] ->
               ~ In x (assigned (side_stmt 1))).
  { intros x Hx. vm_compute. cbn [In] in Hx. intuition (subst; discriminate). }
  unfold INV. rewrite !F4 by (apply NI4; cbn [In]; tauto).
  rewrite !F3 by (apply NI; cbn [In]; tauto). rewrite !F by discriminate.
  split; [exact Hd|]. split; [exact Hn1|]. split; [exact Hn2|]. split; [|exact SC4].
  destruct SR3 as (A & B & C & G). unfold sim_side. rewrite !F4 by (apply NI4; cbn [In]; tauto). repeat split; assumption.
Qed.

Lemma split_loop_link n1 n2 D : forall rows t0 rs cs (e : env),
  INV n1 n2 D rs cs e ->
  (forall t r, nth_error rows t = Some r -> nth_error D (t0 + t) = Some r) ->
  keys_lt (n1 + n2 + t0) (s_id rs) -> keys_lt (n1 + n2 + t0) (s_size rs) ->
  keys_lt (n1 + n2 + t0) (s_id cs) -> keys_lt (n1 + n2 + t0) (s_size cs) ->
  match split_loop (n1 + n2 + t0) rows rs, split_loop (n1 + n2 + t0) rows cs with
  | Ok rs', Ok cs' => exists e', for_range split_f (Datatypes.length rows) (Z.of_nat t0) e = POk e' /\ INV n1 n2 D rs' cs' e'
  | _, _ => exists er, for_range split_f (Datatypes.length rows) (Z.of_nat t0) e = PErr er
  end.
Proof.
  induction rows as [|r rest IH]; intros t0 rs cs e HI Hnth K1 K2 K3 K4.
  - cbn [split_loop Datatypes.length for_range]. exists e. split; [reflexivity | exact HI].
  - cbn [split_loop Datatypes.length for_range].
    assert (Hr : nth_error D t0 = Some r) by (rewrite <- (Nat.add_0_r t0); apply Hnth; reflexivity).
    pose proof (split_iter n1 n2 D t0 r rs cs e Hr HI K1 K2 K3 K4) as SI.
    destruct (split_step (n1 + n2 + t0) r rs) as [rs1|er1] eqn:ER.
    + destruct (split_step (n1 + n2 + t0) r cs) as [cs1|er2] eqn:EC.
      * destruct SI as (e1 & F1 & HI1). rewrite F1.
        replace (Z.of_nat t0 + 1)%Z with (Z.of_nat (S t0)) by lia.
        destruct (split_step_keys _ _ _ _ K1 K2 ER) as [K1' K2'].
        destruct (split_step_keys _ _ _ _ K3 K4 EC) as [K3' K4'].
        replace (S (n1 + n2 + t0)) with (n1 + n2 + S t0) in * by lia.
        apply (IH (S t0) rs1 cs1 e1); try assumption.
        intros t r' Ht. replace (S t0 + t) with (t0 + S t) by lia. apply Hnth. exact Ht.
      * destruct SI as [er SI]. rewrite SI.
        destruct (split_loop (S (n1 + n2 + t0)) rest rs1); eexists; reflexivity.
    + destruct SI as [er SI]. rewrite SI. eexists. reflexivity.
Qed.

Lemma for_range_app (f : Z -> env -> pres env) a : forall b i (e : env),
  for_range f (a + b) i e = match for_range f a i e with POk e' => for_range f b (i + Z.of_nat a)%Z e' | PErr x => PErr x end.
Proof.
  induction a as [|a IH]; intros b i e.
  - cbn [for_range Nat.add]. replace (i + Z.of_nat 0)%Z with i by lia. reflexivity.
  - cbn [for_range Nat.add]. destruct (f i e) as [e1|x]; [|reflexivity]. rewrite IH.
    replace (i + 1 + Z.of_nat a)%Z with (i + Z.of_nat (S a))%Z by lia. reflexivity.
Qed.

Lemma init_keys lo cnt b {A} (h : nat -> A) : lo + cnt <= b -> keys_lt b (map (fun i => (lo + i, h i)) (seq 0 cnt)).
Proof.
  intros Hb k Hk. unfold akeys in Hk. rewrite map_map in Hk. cbn [fst] in Hk. apply in_map_iff in Hk.
  destruct Hk as [i [<- Hi]]. apply in_seq in Hi. lia.
Qed.

Lemma embN_init lo cnt (h : nat -> nat) :
  map (fun i => (Z.of_nat (lo + i), VInt (Z.of_nat (h i)))) (seq 0 cnt) = embA vnat (map (fun i => (lo + i, h i)) (seq 0 cnt)).
Proof. unfold embA. rewrite map_map. reflexivity. Qed.


Lemma nth_error_firstn_some {A} (l : list A) : forall c t r, nth_error (firstn c l) t = Some r -> nth_error l t = Some r.
Proof.
  induction l as [|a l IH]; intros [|c] [|t] r H; simpl in *; try discriminate; auto. apply (IH c). exact H.
Qed.

Lemma split_flat : flat src_split_dendrogram =
  (firstn 9 (flat src_split_dendrogram) ++ [last_stmt src_split_dendrogram])%list.
Proof. vm_compute. reflexivity. Qed.

Lemma split_init_link n1 n2 D (e0 : env) :
  e0 "dendrogram" = Some (embD D) -> e0 "shape" = Some (VList [vnat n1; vnat n2]) ->
  exists e9, exec_list (firstn 9 (flat src_split_dendrogram)) e0 = POk e9 /\
             INV n1 n2 D (split_init 0 n1) (split_init n1 n2) e9.
Proof.
  intros Hd Hs.
  let b := eval vm_compute in (firstn 9 (flat src_split_dendrogram)) in change (firstn 9 (flat src_split_dendrogram)) with b.
  cbn [exec_list exec eval]. rewrite Hs. cbn [bind_all].
  cbn [exec_list exec eval upd String.eqb Ascii.eqb Bool.eqb vnat]. rewrite !Nat2Z.id.
  rewrite (dict_range_fresh _ 0 (fun _ => VInt 1)) by (first [intros i; reflexivity | intros k []]).
  cbn [exec_list exec eval upd String.eqb Ascii.eqb Bool.eqb vnat app]. rewrite !Nat2Z.id.
  rewrite (dict_range_fresh _ n1 (fun _ => VInt 1))
    by (first [intros i; unfold vnat; cbn [bin_vals]; rewrite <- Nat2Z.inj_add, (Nat.add_comm i n1); reflexivity | intros k []]).
  cbn [exec_list exec eval upd String.eqb Ascii.eqb Bool.eqb vnat app]. rewrite !Nat2Z.id.
  rewrite (dict_range_fresh _ 0 (fun i => VInt (Z.of_nat i))) by (first [intros i; reflexivity | intros k []]).
  cbn [exec_list exec eval upd String.eqb Ascii.eqb Bool.eqb vnat app]. rewrite !Nat2Z.id.
  rewrite (dict_range_fresh _ n1 (fun i => VInt (Z.of_nat i)))
    by (first [intros i; unfold vnat; cbn [bin_vals]; rewrite <- Nat2Z.inj_add, (Nat.add_comm i n1); reflexivity | intros k []]).
  cbn [app]. eexists. split; [reflexivity|].
  unfold INV, sim_side, split_init. cbn [s_id s_size s_new s_rows upd String.eqb Ascii.eqb Bool.eqb map].
  unfold embN. change (VInt 1) with (VInt (Z.of_nat 1)).
  rewrite (embN_init 0 n1 (fun _ => 1)), (embN_init n1 n2 (fun _ => 1)), (embN_init 0 n1 (fun i => i)), (embN_init n1 n2 (fun i => i)).
  repeat split; try reflexivity; assumption.
Qed.

Theorem src_split_dendrogram_is_model D n1 n2 (e0 : env) :
  e0 "dendrogram" = Some (embD D) -> e0 "shape" = Some (VList [vnat n1; vnat n2]) ->
  match split_dendrogram D n1 n2 with
  | Ok (Dr, Dc) => exists e', exec src_split_dendrogram e0 = POk e' /\
                              e' "dendrogram_row" = Some (VList (map embNewRow Dr)) /\
                              e' "dendrogram_col" = Some (VList (map embNewRow Dc))
  | Err _ => exists er, exec src_split_dendrogram e0 = PErr er
  end.
Proof.
  intros Hd Hs. rewrite exec_flat, split_flat, exec_list_app.
  destruct (split_init_link n1 n2 D e0 Hd Hs) as (e9 & F9 & HI). rewrite F9. cbn [exec_list].
  let b := eval vm_compute in (last_stmt src_split_dendrogram) in change (last_stmt src_split_dendrogram) with b.
  set (cnt := n1 + n2 - 1).
  assert (Hloop : forall body, exec (SForRange "t" (EBin BSub (EBin BAdd (EVar "n1") (EVar "n2")) (EInt 1)) body) e9 =
                  for_range (fun i e' => exec body (upd "t" (VInt i) e')) cnt 0%Z e9).
  { intros body. destruct HI as (_ & Hn1 & Hn2 & _). cbn [exec eval]. rewrite Hn1, Hn2. unfold vnat. rewrite add_nat', sub_int.
    replace (Z.to_nat (Z.of_nat (n1 + n2) - 1)) with cnt by (unfold cnt; lia). reflexivity. }
  rewrite Hloop. clear Hloop.
  change (for_range _ cnt 0%Z e9) with (for_range split_f cnt (Z.of_nat 0) e9).
  assert (KK : forall lo c (h : nat -> nat), lo + c <= n1 + n2 -> keys_lt (n1 + n2 + 0) (map (fun i => (lo + i, h i)) (seq 0 c)))
    by (intros; apply init_keys; lia).
  unfold split_dendrogram, split_side. fold cnt.
  destruct (Nat.ltb_spec (Datatypes.length D) cnt) as [Hshort|Hlong].
  - (* the dendrogram is too short: some iteration raises *)
    replace cnt with (Datatypes.length D + (cnt - Datatypes.length D)) by lia. rewrite for_range_app.
    pose proof (split_loop_link n1 n2 D D 0 (split_init 0 n1) (split_init n1 n2) e9 HI (fun t r H => H)
                  (KK 0 n1 _ ltac:(lia)) (KK 0 n1 _ ltac:(lia)) (KK n1 n2 _ ltac:(lia)) (KK n1 n2 _ ltac:(lia))) as L.
    assert (G : exists er, match for_range split_f (Datatypes.length D) (Z.of_nat 0) e9 with
                           | POk e' => for_range split_f (cnt - Datatypes.length D) (Z.of_nat 0 + Z.of_nat (Datatypes.length D)) e'
                           | PErr x => PErr x
                           end = PErr er).
    { destruct (split_loop (n1 + n2 + 0) D (split_init 0 n1)) as [rs'|]; [destruct (split_loop (n1 + n2 + 0) D (split_init n1 n2)) as [cs'|]|].
      - destruct L as (e' & F & (Hd' & _)). rewrite F.
        destruct (cnt - Datatypes.length D) as [|c] eqn:Ec; [lia|]. cbn [for_range].
        assert (Ferr : split_f (Z.of_nat 0 + Z.of_nat (Datatypes.length D)) e' = PErr PIndexError).
        { unfold split_f. destruct body_shape as (si & sj & -> & -> & ->). cbn [exec eval upd String.eqb Ascii.eqb Bool.eqb].
          rewrite Hd'. unfold embD. cbn [index_vals]. replace (Z.of_nat 0 + Z.of_nat (Datatypes.length D))%Z with (Z.of_nat (Datatypes.length D)) by lia.
          cbn [upd String.eqb Ascii.eqb Bool.eqb]. rewrite list_index_none; [reflexivity|]. apply nth_error_None. rewrite map_length. lia. }
        rewrite Ferr. eexists. reflexivity.
      - destruct L as [er L]. rewrite L. eexists. reflexivity.
      - destruct L as [er L]. rewrite L. eexists. reflexivity. }
    destruct G as [er G]. exists er. rewrite G. reflexivity.
  - assert (Hlen : Datatypes.length (firstn cnt D) = cnt) by (rewrite firstn_length; lia).
    pose proof (split_loop_link n1 n2 D (firstn cnt D) 0 (split_init 0 n1) (split_init n1 n2) e9 HI) as L.
    rewrite Hlen in L.
    specialize (L ltac:(intros t r H; cbn [Nat.add]; apply (nth_error_firstn_some D cnt); exact H)
                  (KK 0 n1 _ ltac:(lia)) (KK 0 n1 _ ltac:(lia)) (KK n1 n2 _ ltac:(lia)) (KK n1 n2 _ ltac:(lia))).
    rewrite Nat.add_0_r in L.
    destruct (split_loop (n1 + n2) (firstn cnt D) (split_init 0 n1)) as [rs'|].
    + destruct (split_loop (n1 + n2) (firstn cnt D) (split_init n1 n2)) as [cs'|].
      * destruct L as (e' & F & (_ & _ & _ & (_ & _ & _ & R) & (_ & _ & _ & C))). exists e'. rewrite F. split; [reflexivity|]. split; assumption.
      * destruct L as [er L]. exists er. rewrite L. reflexivity.
    + destruct L as [er L]. exists er. rewrite L. reflexivity.
Qed.

(** the statement of C07 about the split, for the source text *)
Theorem src_split_dendrogram_valid D n1 n2 (e0 : env) :
  1 <= n1 -> 1 <= n2 -> valid (n1 + n2) D = true ->
  e0 "dendrogram" = Some (embD D) -> e0 "shape" = Some (VList [vnat n1; vnat n2]) ->
  exists e' Dr Dc, exec src_split_dendrogram e0 = POk e' /\
    e' "dendrogram_row" = Some (VList (map embNewRow Dr)) /\ e' "dendrogram_col" = Some (VList (map embNewRow Dc)) /\
    valid n1 Dr = true /\ valid n2 Dc = true /\
    own_view n1 Dr = restrict_view (n1 + n2) D 0 n1 /\ own_view n2 Dc = restrict_view (n1 + n2) D n1 n2.
Proof.
  intros H1 H2 Hv Hd Hs.
  destruct (SplitProofs.split_dendrogram_valid D n1 n2 H1 H2 Hv) as (Dr & Dc & Hm & V1 & V2).
  pose proof (src_split_dendrogram_is_model D n1 n2 e0 Hd Hs) as L. rewrite Hm in L.
  destruct L as (e' & F & R & C). exists e', Dr, Dc. split; [exact F|]. split; [exact R|]. split; [exact C|].
  split; [exact V1|]. split; [exact V2|]. exact (SplitProofs.split_dendrogram_agrees D n1 n2 Dr Dc H1 H2 Hv Hm).
Qed.
